(* C07 / stage 2 — the Gallina B-tree of model/C07_BTree.v (pkg/btree transcribed) refines the ordered-list
   specification L0 of model/C07_BTreeSpec.v.

   Representation invariant `binv lo hi h n` (lo = minItems = degree-1, hi = maxItems = 2*degree-1):
     all leaves at depth h (balanced); an internal node has len(items)+1 children; every non-root node has between
     lo and hi items; indices = idx_of (sizes of the children), i.e. indices[i] = sum of child sizes + i;
   together with `sorted (flatten n)` for the in-order walk.  Every operation's result and the abstraction of the
   new tree equal the L0 operation on the abstraction of the old tree. *)
From Coq Require Import List ZArith Bool Lia Sorting.Sorted.
From PDV Require Import model.C07_BTreeSpec model.C07_BTree proof.C07_BTreeOrder proof.C07_BTree.
Import ListNotations.

Section Refine.
  Context {A : Type} (ltb : A -> A -> bool).
  Hypothesis lt_irrefl : forall a, ltb a a = false.
  Hypothesis lt_trans : forall a b c, ltb a b = true -> ltb b c = true -> ltb a c = true.
  Hypothesis lt_negtrans : forall a b c, ltb a b = false -> ltb b c = false -> ltb a c = false.

  Local Notation node := (C07_BTree.node A).
  Local Notation lt := (lt ltb).
  Local Notation eqv := (eqv ltb).
  Local Notation all_lt := (all_lt ltb).
  Local Notation lt_all := (lt_all ltb).
  Local Notation sorted := (sorted ltb).

  (* ---------------------------------------------------------------------------------------- *)
  (* the in-order walk, cut at a child                                                          *)
  Fixpoint inter (its : list A) (cs : list node) {struct cs} : list A :=
    match cs with
    | [] => []
    | c :: cs' => match its with
                  | [] => flatten c
                  | i :: its' => flatten c ++ i :: inter its' cs'
                  end
    end.
  Fixpoint zipl (its : list A) (cs : list node) : list A :=
    match its, cs with i :: its', c :: cs' => flatten c ++ i :: zipl its' cs' | _, _ => [] end.
  Fixpoint zipr (its : list A) (cs : list node) : list A :=
    match its, cs with i :: its', c :: cs' => i :: flatten c ++ zipr its' cs' | _, _ => [] end.

  Lemma flatten_leaf (its : list A) idx : flatten (Node its [] idx) = its.
  Proof. reflexivity. Qed.
  Lemma flatten_node (its : list A) c cs idx : flatten (Node its (c :: cs) idx) = inter its (c :: cs).
  Proof. reflexivity. Qed.

  Lemma inter_app I1 I2 C1 C2 : length C1 = length I1 -> C2 <> [] ->
    inter (I1 ++ I2) (C1 ++ C2) = zipl I1 C1 ++ inter I2 C2.
  Proof.
    revert C1. induction I1 as [|i I1 IH]; intros [|c C1] L NE; try discriminate; [reflexivity|].
    change (inter ((i :: I1) ++ I2) ((c :: C1) ++ C2)) with (flatten c ++ i :: inter (I1 ++ I2) (C1 ++ C2)).
    cbn in L. rewrite IH by (auto; lia). cbn [zipl]. rewrite <- app_assoc. reflexivity.
  Qed.
  Lemma inter_cons I c C : length C = length I -> inter I (c :: C) = flatten c ++ zipr I C.
  Proof.
    revert c C. induction I as [|i I IH]; intros c [|c' C] L; try discriminate.
    - cbn. symmetry; apply app_nil_r.
    - change (inter (i :: I) (c :: c' :: C)) with (flatten c ++ i :: inter I (c' :: C)).
      cbn in L. rewrite IH by lia. reflexivity.
  Qed.

  (* a node cut at child number |I1| *)
  Lemma flatten_at_child (I1 I2 : list A) C1 c C2 idx : length C1 = length I1 -> length C2 = length I2 ->
    flatten (Node (I1 ++ I2) (C1 ++ c :: C2) idx) = zipl I1 C1 ++ flatten c ++ zipr I2 C2.
  Proof.
    intros L1 L2. destruct (C1 ++ c :: C2) as [|c0 cs] eqn:E; [destruct C1; discriminate|].
    rewrite flatten_node, <- E. rewrite inter_app by (auto; discriminate). rewrite inter_cons by exact L2. reflexivity.
  Qed.

  (* a node cut at item number |I1| *)
  Lemma flatten_at_item (I1 : list A) x I2 C1 cl C2 idx : length C1 = length I1 -> length C2 = S (length I2) ->
    flatten (Node (I1 ++ x :: I2) (C1 ++ cl :: C2) idx) = zipl I1 C1 ++ flatten cl ++ x :: inter I2 C2.
  Proof.
    intros L1 L2. destruct (C1 ++ cl :: C2) as [|c0 cs] eqn:E; [destruct C1; discriminate|].
    rewrite flatten_node, <- E. rewrite inter_app by (auto; discriminate). cbn [inter]. reflexivity.
  Qed.

  Lemma split_at {X} (l : list X) i : (i <= length l)%nat -> exists l1 l2, l = l1 ++ l2 /\ length l1 = i.
  Proof. intros H. exists (firstn i l), (skipn i l). split; [symmetry; apply firstn_skipn|apply firstn_length_le, H]. Qed.

  Lemma nth_error_split {X} (l : list X) i x : nth_error l i = Some x ->
    exists l1 l2, l = l1 ++ x :: l2 /\ length l1 = i.
  Proof. intros H. apply nth_error_split in H as (l1 & l2 & E & L). eauto. Qed.

  Lemma nth_error_mid {X} (l1 : list X) x l2 : nth_error (l1 ++ x :: l2) (length l1) = Some x.
  Proof. rewrite nth_error_app2 by lia. rewrite Nat.sub_diag. reflexivity. Qed.

  Lemma replace_nth_mid {X} (l1 : list X) x y l2 : replace_nth (length l1) y (l1 ++ x :: l2) = l1 ++ y :: l2.
  Proof. induction l1 as [|a l1 IH]; cbn; [reflexivity|]. rewrite IH. reflexivity. Qed.
  Lemma insert_nth_mid {X} (l1 l2 : list X) y : insert_nth (length l1) y (l1 ++ l2) = l1 ++ y :: l2.
  Proof.
    unfold insert_nth. rewrite firstn_app, Nat.sub_diag, firstn_O, app_nil_r, firstn_all.
    rewrite skipn_app, Nat.sub_diag, skipn_O, skipn_all. reflexivity.
  Qed.
  Lemma remove_nth_mid {X} (l1 : list X) x l2 : remove_nth (length l1) (l1 ++ x :: l2) = l1 ++ l2.
  Proof.
    unfold remove_nth. rewrite firstn_app, Nat.sub_diag, firstn_O, app_nil_r, firstn_all.
    replace (S (length l1)) with (length (l1 ++ [x])) by (rewrite app_length; cbn; lia).
    replace (l1 ++ x :: l2) with ((l1 ++ [x]) ++ l2) by (rewrite <- app_assoc; reflexivity).
    rewrite skipn_app, Nat.sub_diag, skipn_O, skipn_all. reflexivity.
  Qed.

  Lemma filter_false_nil' {X} (p : X -> bool) l : (forall y, In y l -> p y = false) -> filter p l = [].
  Proof.
    induction l as [|a l IH]; intros H; cbn; [reflexivity|]. rewrite (H a (or_introl eq_refl)). apply IH.
    intros y Hy; apply H; right; exact Hy.
  Qed.

  Lemma exists_last_or_nil {X} (l : list X) : l = [] \/ exists l' a, l = l' ++ [a].
  Proof. destruct l as [|x l]; [left; reflexivity|right]. destruct (@exists_last _ (x :: l)) as (l' & a & E); [discriminate|eauto]. Qed.

  (* ---------------------------------------------------------------------------------------- *)
  (* items.find on a sorted slice                                                               *)
  Lemma search_first_spec its x : sorted its ->
    exists I1 I2, its = I1 ++ I2 /\ length I1 = search_first ltb its x /\
                  (forall y, In y I1 -> ltb x y = false) /\ lt_all x I2.
  Proof.
    induction its as [|y r IH]; intros S; cbn [search_first].
    - exists [], []. repeat split; auto; intros z [].
    - destruct (ltb x y) eqn:E.
      + exists [], (y :: r). repeat split; auto; [intros z []|].
        apply sorted_cons_inv in S as [_ F]. apply lt_all_cons. split; [exact E|]. eapply lt_all_trans; eauto.
      + apply sorted_cons_inv in S as [S _]. destruct (IH S) as (I1 & I2 & E1 & L & H1 & H2).
        exists (y :: I1), I2. repeat split; [cbn; congruence|cbn; congruence| |exact H2].
        intros z [<-|Hz]; auto.
  Qed.

  Inductive find_res (its : list A) (x : A) : nat * bool -> Prop :=
  | find_no I1 I2 : its = I1 ++ I2 -> all_lt I1 x -> lt_all x I2 -> find_res its x (length I1, false)
  | find_yes I1 y I2 : its = I1 ++ y :: I2 -> all_lt I1 x -> eqv x y -> lt_all x I2 -> find_res its x (length I1, true).

  Lemma items_find_spec its x : sorted its -> find_res its x (items_find ltb its x).
  Proof.
    intros Hs. destruct (search_first_spec its x Hs) as (I1 & I2 & E & L & H1 & H2).
    unfold items_find. rewrite <- L.
    destruct (@exists_last_or_nil _ I1) as [->|(l & a & ->)].
    - cbn. apply (find_no its x [] I2); auto. intros z [].
    - rewrite app_length. cbn [length]. replace (length l + 1)%nat with (S (length l)) by lia.
      subst its. rewrite <- app_assoc. cbn [app]. rewrite nth_error_mid.
      assert (SL : sorted (l ++ a :: I2)) by (rewrite <- app_assoc in Hs; exact Hs).
      destruct (sorted_mid ltb _ _ _ SL) as (LA & AQ & _ & _).
      destruct (ltb a x) eqn:E; cbn [negb].
      + replace (S (length l)) with (length (l ++ [a])) by (rewrite app_length; cbn; lia).
        replace (l ++ a :: I2) with ((l ++ [a]) ++ I2) by (rewrite <- app_assoc; reflexivity).
        apply (find_no _ x (l ++ [a]) I2); [reflexivity| |exact H2].
        apply all_lt_app. split; [apply (all_lt_trans ltb lt_trans l a x LA E)|]. apply all_lt_cons. split; [exact E|apply all_lt_nil].
      + assert (EQ : eqv x a) by (split; [apply H1, in_or_app; right; left; reflexivity|exact E]).
        apply (find_yes _ x l a I2); [reflexivity| |exact EQ|exact H2]. intros z Hz. apply (lt_eqv_r ltb lt_negtrans z a x); [apply LA, Hz|apply eqv_sym, EQ].
  Qed.

  (* ---------------------------------------------------------------------------------------- *)
  (* the representation invariant                                                               *)
  Definition fsize (n : node) : Z := Z.of_nat (length (flatten n)).

  Variables (lo hi : nat).      (* minItems, maxItems *)

  Inductive binv : nat -> node -> Prop :=
  | binv_leaf its : binv 0 (Node its [] [])
  | binv_node h its ch :
      length ch = S (length its) ->
      Forall (binv h) ch ->
      Forall (fun c => lo <= length (n_its c) <= hi)%nat ch ->
      binv (S h) (Node its ch (idx_of (map fsize ch))).

  Lemma Forall_nth {X} (P : X -> Prop) l i x : Forall P l -> nth_error l i = Some x -> P x.
  Proof. intros F H. rewrite Forall_forall in F. apply F. eapply nth_error_In; eauto. Qed.

  Lemma zipl_length I C : length C = length I ->
    Z.of_nat (length (zipl I C)) = (fold_right Z.add 0 (map fsize C) + Z.of_nat (length I))%Z.
  Proof.
    revert C. induction I as [|i I IH]; intros [|c C] L; try discriminate; [reflexivity|].
    cbn [zipl map fold_right length]. rewrite app_length. cbn [length]. cbn in L.
    rewrite Nat2Z.inj_add, !Nat2Z.inj_succ, IH by lia. unfold fsize. lia.
  Qed.
  Lemma zipr_length I C : length C = length I ->
    Z.of_nat (length (zipr I C)) = (fold_right Z.add 0 (map fsize C) + Z.of_nat (length I))%Z.
  Proof.
    revert C. induction I as [|i I IH]; intros [|c C] L; try discriminate; [reflexivity|].
    cbn [zipr map fold_right length]. rewrite app_length. cbn in L.
    rewrite Nat2Z.inj_succ, Nat2Z.inj_add, !Nat2Z.inj_succ, IH by lia. unfold fsize. lia.
  Qed.

  Lemma last_idx_from acc ss d : ss <> [] ->
    last (idx_from acc ss) d = (acc + fold_right Z.add 0 ss + Z.of_nat (length ss) - 1)%Z.
  Proof.
    revert acc. induction ss as [|s r IH]; intros acc NE; [contradiction|]. cbn [idx_from].
    destruct r as [|s2 r2]; [cbn; lia|].
    change (last ((acc + s)%Z :: idx_from (acc + s + 1) (s2 :: r2)) d) with (last (idx_from (acc + s + 1) (s2 :: r2)) d).
    rewrite IH by discriminate. cbn [fold_right length]. lia.
  Qed.

  Lemma fold_add_app (a b : list Z) : fold_right Z.add 0%Z (a ++ b) = (fold_right Z.add 0 a + fold_right Z.add 0 b)%Z.
  Proof. induction a as [|x a IH]; cbn; [reflexivity|]. rewrite IH. lia. Qed.

  Lemma flatten_size its c cs idx : length (c :: cs) = S (length its) ->
    fsize (Node its (c :: cs) idx) = (fold_right Z.add 0 (map fsize (c :: cs)) + Z.of_nat (length its))%Z.
  Proof.
    intros L. unfold fsize at 1. rewrite flatten_node, inter_cons by (cbn in L; lia).
    rewrite app_length, Nat2Z.inj_add, zipr_length by (cbn in L; lia). cbn [map fold_right]. unfold fsize. lia.
  Qed.

  Lemma nlen_binv h n : binv h n -> nlen n = fsize n.
  Proof.
    intros B. destruct B as [its|h its ch L F1 F2]; [reflexivity|].
    destruct ch as [|c cs]; [discriminate|]. rewrite (flatten_size _ _ _ _ L).
    unfold nlen. cbn [n_idx n_its].
    destruct (idx_of (map fsize (c :: cs))) as [|z zs] eqn:E; [discriminate|]. rewrite <- E. unfold idx_of.
    rewrite last_idx_from by discriminate. rewrite map_length. cbn [length] in *. lia.
  Qed.

  Lemma height_binv h n : binv h n -> height n = S h.
  Proof.
    revert n. induction h as [|h IH]; intros n B; inversion B as [its|h' its ch L F1 F2]; subst; [reflexivity|].
    cbn [height]. f_equal. destruct ch as [|c cs]; [discriminate|].
    assert (G : forall l, l <> [] -> Forall (binv h) l -> fold_right (fun c0 hh => Nat.max (height c0) hh) O l = S h).
    { induction l as [|a l IHl]; intros NE F; [contradiction|]. inversion F; subst. cbn.
      rewrite (IH a) by assumption. destruct l as [|b l']; [cbn; lia|]. rewrite IHl by (auto; discriminate). lia. }
    apply G; [discriminate|exact F1].
  Qed.

  (* ---- what the position returned by items.find means for the in-order walk ---- *)
  Lemma zipl_snoc I a C c : length C = length I -> zipl (I ++ [a]) (C ++ [c]) = zipl I C ++ flatten c ++ [a].
  Proof.
    revert C. induction I as [|i I IH]; intros [|c0 C] L; try discriminate; [reflexivity|].
    cbn [app zipl]. cbn in L. rewrite IH by lia. rewrite <- app_assoc. reflexivity.
  Qed.

  Lemma zipl_all_lt I C x rest : length C = length I -> sorted (zipl I C ++ rest) -> all_lt I x -> all_lt (zipl I C) x.
  Proof.
    intros L Hs HI. destruct (exists_last_or_nil I) as [->|(I' & a & ->)]; [destruct C; [intros y []|discriminate]|].
    destruct (exists_last_or_nil C) as [->|(C' & c & ->)]; [rewrite app_length in L; cbn in L; lia|].
    rewrite !app_length in L. cbn in L. rewrite zipl_snoc in * by lia.
    assert (Ha : lt a x) by (apply HI, in_or_app; right; left; reflexivity).
    rewrite <- !app_assoc in Hs. cbn [app] in Hs. rewrite app_assoc in Hs.
    destruct (sorted_mid ltb _ _ _ Hs) as (LA & _ & _ & _).
    rewrite app_assoc. apply all_lt_app. split; [eapply all_lt_trans; eauto|]. apply all_lt_cons. split; [exact Ha|apply all_lt_nil].
  Qed.

  Lemma zipr_lt_all I C x pre : length C = length I -> sorted (pre ++ zipr I C) -> lt_all x I -> lt_all x (zipr I C).
  Proof.
    intros L Hs HI. destruct I as [|b I']; [destruct C; [intros y []|discriminate]|].
    destruct C as [|c C']; [discriminate|]. cbn [zipr] in *.
    assert (Hb : lt x b) by (apply HI; left; reflexivity).
    destruct (sorted_mid ltb _ _ _ Hs) as (_ & BQ & _ & _).
    apply lt_all_cons. split; [exact Hb|]. eapply lt_all_trans; eauto.
  Qed.

  Lemma inter_lt_all I C x pre : length C = S (length I) -> sorted (pre ++ x :: inter I C) -> lt_all x (inter I C).
  Proof. intros L Hs. destruct (sorted_mid ltb _ _ _ Hs) as (_ & Q & _ & _). exact Q. Qed.

  (* child number |I1| of a node, with what lies to its left and right *)
  Record at_child (n : node) (h : nat) (I1 I2 : list A) (c : node) (P Q : list A) : Prop := {
    ac_nth : nth_error (n_ch n) (length I1) = Some c;
    ac_flat : flatten n = P ++ flatten c ++ Q;
    ac_binv : binv h c;
    ac_bound : (lo <= length (n_its c) <= hi)%nat;
    ac_sorted : sorted (flatten c);
    ac_ch : exists C1 C2, n_ch n = C1 ++ c :: C2 /\ length C1 = length I1 /\ length C2 = length I2 /\
                          P = zipl I1 C1 /\ Q = zipr I2 C2
  }.

  Lemma child_view h I1 I2 ch : length ch = S (length (I1 ++ I2)) -> Forall (binv h) ch ->
    Forall (fun c => lo <= length (n_its c) <= hi)%nat ch ->
    sorted (flatten (Node (I1 ++ I2) ch (idx_of (map fsize ch)))) ->
    exists c P Q, at_child (Node (I1 ++ I2) ch (idx_of (map fsize ch))) h I1 I2 c P Q.
  Proof.
    intros L F1 F2 Hs. rewrite app_length in L.
    destruct (split_at ch (length I1)) as (C1 & R & -> & L1); [lia|].
    destruct R as [|c C2]; [rewrite app_length in L; cbn in L; lia|].
    assert (L2 : length C2 = length I2) by (rewrite app_length in L; cbn in L; lia).
    exists c, (zipl I1 C1), (zipr I2 C2).
    pose proof (flatten_at_child I1 I2 C1 c C2 (idx_of (map fsize (C1 ++ c :: C2))) L1 L2) as FL.
    apply Forall_app in F1 as [_ F1]. apply Forall_app in F2 as [_ F2]. inversion F1; subst. inversion F2; subst.
    constructor; auto.
    - cbn [n_ch]. rewrite <- L1. apply nth_error_mid.
    - rewrite FL in Hs. apply sorted_app in Hs as (_ & Hs & _). apply sorted_app in Hs as (Hs & _ & _). exact Hs.
    - exists C1, C2. auto.
  Qed.

  Lemma at_child_bounds n h I1 I2 c P Q x : at_child n h I1 I2 c P Q -> sorted (flatten n) ->
    all_lt I1 x -> lt_all x I2 -> all_lt P x /\ lt_all x Q.
  Proof.
    intros [_ FL _ _ _ (C1 & C2 & _ & L1 & L2 & -> & ->)] Hs H1 H2. rewrite FL in Hs. split.
    - eapply zipl_all_lt; eauto.
    - rewrite app_assoc in Hs. eapply zipr_lt_all; eauto.
  Qed.

  (* item number |I1| of a node, with what lies to its left and right *)
  Lemma item_view h I1 y I2 ch : length ch = S (length (I1 ++ y :: I2)) -> Forall (binv h) ch ->
    Forall (fun c => lo <= length (n_its c) <= hi)%nat ch ->
    exists C1 cl C2, ch = C1 ++ cl :: C2 /\ length C1 = length I1 /\ length C2 = S (length I2) /\
      binv h cl /\ (lo <= length (n_its cl) <= hi)%nat /\
      flatten (Node (I1 ++ y :: I2) ch (idx_of (map fsize ch))) = (zipl I1 C1 ++ flatten cl) ++ y :: inter I2 C2 /\
      nth (length I1) (idx_of (map fsize ch)) 0%Z = Z.of_nat (length (zipl I1 C1 ++ flatten cl)).
  Proof.
    intros L F1 F2. rewrite app_length in L. cbn [length] in L.
    destruct (split_at ch (length I1)) as (C1 & R & -> & L1); [lia|].
    destruct R as [|cl C2]; [rewrite app_length in L; cbn in L; lia|].
    assert (L2 : length C2 = S (length I2)) by (rewrite app_length in L; cbn in L; lia).
    exists C1, cl, C2. apply Forall_app in F1 as [_ F1]. apply Forall_app in F2 as [_ F2]. inversion F1; subst. inversion F2; subst.
    repeat split; auto; try lia.
    - rewrite (flatten_at_item I1 y I2 C1 cl C2 _ L1 L2). rewrite <- app_assoc. reflexivity.
    - rewrite map_app. cbn [map]. unfold idx_of. rewrite <- L1, <- (map_length fsize C1).
      rewrite idx_from_nth_prefix. rewrite app_length, Nat2Z.inj_add, zipl_length by exact L1. rewrite !map_length. unfold fsize. lia.
  Qed.

  Lemma idx_prev I1 C1 c C2 p : length C1 = length I1 -> length I1 = S p ->
    (nth p (idx_of (map fsize (C1 ++ c :: C2))) 0 + 1)%Z = Z.of_nat (length (zipl I1 C1)).
  Proof.
    intros L1 LP. destruct (exists_last_or_nil I1) as [->|(I' & a & ->)]; [discriminate|].
    destruct (exists_last_or_nil C1) as [->|(C' & c' & ->)]; [rewrite app_length in L1; cbn in L1; lia|].
    rewrite !app_length in *. cbn [length] in *.
    rewrite zipl_snoc by lia. rewrite !app_length. cbn [length]. rewrite <- app_assoc. cbn [app].
    rewrite map_app. cbn [map]. unfold idx_of.
    replace p with (length (map fsize C')) by (rewrite map_length; lia).
    rewrite idx_from_nth_prefix. rewrite !Nat2Z.inj_add, zipl_length by lia. rewrite map_length. unfold fsize. cbn. lia.
  Qed.

  Lemma l0_get_gt Q x : lt_all x Q -> l0_get ltb x Q = None.
  Proof.
    intros H. destruct Q as [|q Q]; [reflexivity|]. cbn.
    rewrite (lt_asym ltb lt_irrefl lt_trans _ _ (H q (or_introl eq_refl))), (H q (or_introl eq_refl)). reflexivity.
  Qed.
  Lemma l0_get_hit P y Q x : all_lt P x -> eqv x y -> l0_get ltb x (P ++ y :: Q) = Some y.
  Proof. intros HP [E1 E2]. rewrite (l0_get_below ltb _ _ _ HP). cbn. rewrite E2, E1. reflexivity. Qed.
  Lemma l0_rank_hit P y Q x : all_lt P x -> eqv x y -> l0_rank ltb x (P ++ y :: Q) = length P.
  Proof. intros HP [E1 E2]. rewrite (l0_rank_below ltb _ _ _ HP). cbn. rewrite E2. lia. Qed.

  Lemma all_lt_eqv P x y : all_lt P y -> eqv x y -> all_lt P x.
  Proof. intros H E z Hz. apply (lt_eqv_r ltb lt_negtrans z y x); [apply H, Hz|apply eqv_sym, E]. Qed.

  (* ---------------------------------------------------------------------------------------- *)
  (* Get                                                                                        *)
  Theorem get_spec x : forall h n fuel, binv h n -> sorted (flatten n) -> (h < fuel)%nat ->
    get ltb fuel n x = l0_get ltb x (flatten n).
  Proof.
    induction h as [|h IH]; intros n fuel B Hs Hf; (destruct fuel as [|f]; [lia|]);
      inversion B as [its|h' its ch L F1 F2]; subst; cbn [get n_its n_ch].
    - rewrite flatten_leaf in *. destruct (items_find_spec its x Hs) as [I1 I2 E H1 H2|I1 y I2 E H1 EQ H2]; subst its.
      + destruct (nth_error [] (length I1)) eqn:N; [destruct (length I1); discriminate|].
        rewrite (l0_get_below ltb _ _ _ H1). symmetry. apply l0_get_gt, H2.
      + rewrite nth_error_mid. symmetry. apply l0_get_hit; auto.
    - assert (Hi : sorted its).
      { destruct ch as [|c cs]; [discriminate|]. clear -Hs L lt_irrefl lt_trans. revert Hs. rewrite flatten_node. revert c cs L.
        induction its as [|i its IHi]; intros c cs L Hs; [apply sorted_nil|].
        destruct cs as [|c' cs']; [discriminate|]. change (inter (i :: its) (c :: c' :: cs')) with (flatten c ++ i :: inter its (c' :: cs')) in Hs.
        destruct (sorted_mid ltb _ _ _ Hs) as (_ & Q & _ & S2). apply sorted_cons; [apply (IHi c' cs'); [cbn in *; lia|exact S2]|].
        intros z Hz. apply Q. clear -Hz L. revert c' cs' L. induction its as [|j its IHj]; intros c' cs' L; [destruct Hz|].
        destruct cs' as [|c'' cs'']; [discriminate|].
        change (inter (j :: its) (c' :: c'' :: cs'')) with (flatten c' ++ j :: inter its (c'' :: cs'')).
        apply in_or_app. right. destruct Hz as [<-|Hz]; [left; reflexivity|right; apply IHj; [exact Hz|cbn in *; lia]]. }
      destruct (items_find_spec its x Hi) as [I1 I2 E H1 H2|I1 y I2 E H1 EQ H2]; subst its.
      + destruct (child_view h I1 I2 ch L F1 F2 Hs) as (c & P & Q & AC).
        destruct (at_child_bounds _ _ _ _ _ _ _ x AC Hs H1 H2) as [HP HQ].
        destruct AC as [N FL Bc _ Sc _]. cbn [n_ch] in N. rewrite N, FL.
        rewrite (IH c f Bc Sc) by lia.
        rewrite (l0_get_below ltb _ _ _ HP), (l0_get_above ltb lt_irrefl lt_trans _ _ _ HQ). reflexivity.
      + destruct (item_view h I1 y I2 ch L F1 F2) as (C1 & cl & C2 & _ & _ & _ & _ & _ & FL & _).
        rewrite nth_error_mid, FL. rewrite FL in Hs. destruct (sorted_mid ltb _ _ _ Hs) as (PY & _ & _ & _).
        symmetry. apply l0_get_hit; [eapply all_lt_eqv; eauto|exact EQ].
  Qed.

  Lemma node_items_sorted its ch idx : length ch = S (length its) -> sorted (flatten (Node its ch idx)) -> sorted its.
  Proof.
    intros L Hs. destruct ch as [|c cs]; [discriminate|]. revert Hs. rewrite flatten_node. revert c cs L.
    induction its as [|i its IHi]; intros c cs L Hs; [apply sorted_nil|].
    destruct cs as [|c' cs']; [discriminate|]. change (inter (i :: its) (c :: c' :: cs')) with (flatten c ++ i :: inter its (c' :: cs')) in Hs.
    destruct (sorted_mid ltb _ _ _ Hs) as (_ & Q & _ & S2). apply sorted_cons; [apply (IHi c' cs'); [cbn in *; lia|exact S2]|].
    intros z Hz. apply Q. clear -Hz L. revert c' cs' L. induction its as [|j its IHj]; intros c' cs' L; [destruct Hz|].
    destruct cs' as [|c'' cs'']; [discriminate|].
    change (inter (j :: its) (c' :: c'' :: cs'')) with (flatten c' ++ j :: inter its (c'' :: cs'')).
    apply in_or_app. right. destruct Hz as [<-|Hz]; [left; reflexivity|right; apply IHj; [exact Hz|cbn in *; lia]].
  Qed.

  (* ---------------------------------------------------------------------------------------- *)
  (* GetWithIndex                                                                               *)
  Lemma none_lt_of_lt_all x Q : lt_all x Q -> none_lt ltb Q x.
  Proof. intros H y Hy. apply (lt_asym ltb lt_irrefl lt_trans), H, Hy. Qed.

  Theorem get_with_index_spec x : forall h n fuel, binv h n -> sorted (flatten n) -> (h < fuel)%nat ->
    get_with_index ltb fuel n x = (l0_get ltb x (flatten n), Z.of_nat (l0_rank ltb x (flatten n))).
  Proof.
    induction h as [|h IH]; intros n fuel B Hs Hf; (destruct fuel as [|f]; [lia|]);
      inversion B as [its|h' its ch L F1 F2]; subst; cbn [get_with_index n_its n_ch n_idx].
    - rewrite flatten_leaf in *. destruct (items_find_spec its x Hs) as [I1 I2 E H1 H2|I1 y I2 E H1 EQ H2]; subst its.
      + destruct (nth_error [] (length I1)) eqn:N; [destruct (length I1); discriminate|].
        rewrite (l0_get_below ltb _ _ _ H1), (l0_get_gt _ _ H2), (l0_rank_below ltb _ _ _ H1).
        destruct I2 as [|q I2']; [cbn; rewrite Nat.add_0_r; reflexivity|].
        cbn [l0_rank]. rewrite (lt_asym ltb lt_irrefl lt_trans _ _ (H2 q (or_introl eq_refl))). rewrite Nat.add_0_r. reflexivity.
      + rewrite nth_error_mid. rewrite (l0_get_hit _ _ _ _ H1 EQ), (l0_rank_hit _ _ _ _ H1 EQ). reflexivity.
    - pose proof (node_items_sorted _ _ _ L Hs) as Hi.
      destruct (items_find_spec its x Hi) as [I1 I2 E H1 H2|I1 y I2 E H1 EQ H2]; subst its.
      + destruct (child_view h I1 I2 ch L F1 F2 Hs) as (c & P & Q & AC).
        destruct (at_child_bounds _ _ _ _ _ _ _ x AC Hs H1 H2) as [HP HQ].
        destruct AC as [N FL Bc _ Sc (C1 & C2 & EC & L1 & L2 & EP & EQ')]. cbn [n_ch] in N, EC. rewrite N, FL.
        rewrite (IH c f Bc Sc) by lia.
        rewrite (l0_get_below ltb _ _ _ HP), (l0_get_above ltb lt_irrefl lt_trans _ _ _ HQ).
        rewrite (l0_rank_below ltb _ _ _ HP).
        assert (Hs' : sorted (flatten c ++ Q)) by (rewrite FL in Hs; apply sorted_app in Hs; tauto).
        rewrite (l0_rank_above ltb _ _ _ (none_lt_of_lt_all _ _ HQ) Hs'). f_equal.
        destruct (length I1) as [|p] eqn:LP.
        * subst P. destruct I1; [|discriminate]. destruct C1; [|discriminate]. cbn. reflexivity.
        * rewrite <- LP in L1. rewrite Nat2Z.inj_add. subst P. rewrite EC. rewrite <- (idx_prev I1 C1 c C2 p L1 LP). lia.
      + destruct (item_view h I1 y I2 ch L F1 F2) as (C1 & cl & C2 & EC & _ & _ & _ & _ & FL & NI).
        rewrite nth_error_mid, FL. rewrite FL in Hs. destruct (sorted_mid ltb _ _ _ Hs) as (PY & _ & _ & _).
        assert (HP : all_lt (zipl I1 C1 ++ flatten cl) x) by (eapply all_lt_eqv; eauto).
        rewrite (l0_get_hit _ _ _ _ HP EQ), (l0_rank_hit _ _ _ _ HP EQ). f_equal.
        destruct (idx_of (map fsize ch)) as [|z zs] eqn:EI; [|exact NI].
        destruct ch; [discriminate|discriminate].
  Qed.

  (* ---------------------------------------------------------------------------------------- *)
  (* GetAt                                                                                      *)
  Lemma inter_length its cs : length cs = S (length its) ->
    Z.of_nat (length (inter its cs)) = (fold_right Z.add 0 (map fsize cs) + Z.of_nat (length its))%Z.
  Proof.
    intros L. destruct cs as [|c cs]; [discriminate|]. cbn in L.
    rewrite inter_cons by lia. rewrite app_length, Nat2Z.inj_add, zipr_length by lia. cbn [map fold_right]. unfold fsize. lia.
  Qed.

  Lemma inter_nth its cs acc k : length cs = S (length its) -> (0 <= k < Z.of_nat (length (inter its cs)))%Z ->
    let idx := idx_from acc (map fsize cs) in
    let i := search_ints idx (k + acc) in
    if (nth i idx 0%Z =? k + acc)%Z
    then nth_error (inter its cs) (Z.to_nat k) = nth_error its i
    else exists c, nth_error cs i = Some c /\
         nth_error (inter its cs) (Z.to_nat k) =
         nth_error (flatten c) (Z.to_nat (k + acc - match i with O => acc | S p => nth p idx 0%Z + 1 end)).
  Proof.
    revert its acc k. induction cs as [|c cs IH]; intros its acc k L K; [discriminate|].
    cbn [map idx_from search_ints]. cbn zeta.
    destruct (Z.leb_spec (k + acc) (acc + fsize c)) as [LE|GT].
    - cbn [nth]. destruct (Z.eqb_spec (acc + fsize c) (k + acc)) as [E|NE].
      + destruct its as [|i0 its']; cbn [inter] in *.
        * unfold fsize in E. lia.
        * rewrite nth_error_app2 by (unfold fsize in E; lia).
          replace (Z.to_nat k - length (flatten c))%nat with O by (unfold fsize in E; lia). reflexivity.
      + exists c. split; [reflexivity|]. replace (k + acc - acc)%Z with k by lia.
        destruct its as [|i0 its']; cbn [inter]; [reflexivity|].
        apply nth_error_app1. unfold fsize in *. lia.
    - destruct its as [|i0 its'].
      + cbn [inter] in K. unfold fsize in GT. lia.
      + destruct cs as [|c2 cs2]; [discriminate|].
        change (inter (i0 :: its') (c :: c2 :: cs2)) with (flatten c ++ i0 :: inter its' (c2 :: cs2)) in *.
        cbn in L. rewrite app_length in K. cbn [length] in K.
        assert (K' : (0 <= k - fsize c - 1 < Z.of_nat (length (inter its' (c2 :: cs2))))%Z) by (unfold fsize in *; lia).
        specialize (IH its' (acc + fsize c + 1)%Z (k - fsize c - 1)%Z ltac:(cbn; lia) K'). cbn zeta in IH.
        replace (k - fsize c - 1 + (acc + fsize c + 1))%Z with (k + acc)%Z in IH by lia.
        set (i' := search_ints (idx_from (acc + fsize c + 1) (map fsize (c2 :: cs2))) (k + acc)) in *.
        cbn [nth].
        assert (NE : nth_error (flatten c ++ i0 :: inter its' (c2 :: cs2)) (Z.to_nat k)
                     = nth_error (inter its' (c2 :: cs2)) (Z.to_nat (k - fsize c - 1))).
        { rewrite nth_error_app2 by (unfold fsize in *; lia).
          replace (Z.to_nat k - length (flatten c))%nat with (S (Z.to_nat (k - fsize c - 1))) by (unfold fsize in *; lia). reflexivity. }
        rewrite NE.
        destruct (nth i' (idx_from (acc + fsize c + 1) (map fsize (c2 :: cs2))) 0%Z =? k + acc)%Z; [exact IH|].
        destruct IH as (c' & Hc' & E'). exists c'. split; [exact Hc'|]. rewrite E'. f_equal. f_equal.
        destruct i' as [|p]; cbn [nth]; lia.
  Qed.

  Lemma search_ints_before s kk q : search_ints s kk = S q -> (nth q s 0%Z < kk)%Z.
  Proof.
    revert q. induction s as [|x s IHs]; intros q Hq; [discriminate|]. cbn [search_ints] in Hq.
    destruct (kk <=? x)%Z eqn:LE; [discriminate|]. apply Z.leb_gt in LE.
    injection Hq as Hq. destruct q as [|q']; cbn [nth]; [exact LE|]. apply IHs. exact Hq.
  Qed.

  Theorem get_at_spec : forall h n fuel k, binv h n -> (h < fuel)%nat -> (0 <= k)%Z ->
    get_at fuel n k = nth_error (flatten n) (Z.to_nat k).
  Proof.
    induction h as [|h IH]; intros n fuel k B Hf K0; (destruct fuel as [|f]; [lia|]);
      pose proof (nlen_binv _ _ B) as NL; inversion B as [its|h' its ch L F1 F2]; subst; cbn [get_at]; rewrite NL.
    - change (fsize (Node its [] [])) with (Z.of_nat (length its)). rewrite flatten_leaf. cbn [n_ch n_its].
      destruct (Z.leb_spec (Z.of_nat (length its)) k) as [GE|LT]; cbn [orb].
      + symmetry. apply nth_error_None. lia.
      + replace (k <? 0)%Z with false by (symmetry; apply Z.ltb_ge; lia). reflexivity.
    - destruct ch as [|c cs]; [discriminate|]. cbn [n_ch n_its n_idx].
      replace (fsize (Node its (c :: cs) (idx_of (map fsize (c :: cs))))) with (Z.of_nat (length (inter its (c :: cs)))) by reflexivity.
      rewrite flatten_node.
      destruct (Z.leb_spec (Z.of_nat (length (inter its (c :: cs)))) k) as [GE|LT]; cbn [orb].
      + symmetry. apply nth_error_None. lia.
      + replace (k <? 0)%Z with false by (symmetry; apply Z.ltb_ge; lia).
        pose proof (inter_nth its (c :: cs) 0%Z k L ltac:(lia)) as H. cbn zeta in H. rewrite Z.add_0_r in H.
        fold (idx_of (map fsize (c :: cs))) in H.
        set (idx := idx_of (map fsize (c :: cs))) in *. set (i := search_ints idx k) in *.
        destruct (nth i idx 0%Z =? k)%Z; [symmetry; exact H|].
        destruct H as (c' & Hc' & E). rewrite Hc', E.
        assert (OFF : (0 <= match i with O => k | S p => k - nth p idx 0%Z - 1 end)%Z).
        { destruct i as [|p] eqn:EI; [lia|]. pose proof (search_ints_before idx k p EI). lia. }
        replace (k - match i with O => 0 | S p => nth p idx 0%Z + 1 end)%Z with (match i with O => k | S p => k - nth p idx 0%Z - 1 end)%Z
          by (destruct i; lia).
        apply IH; [eapply Forall_nth; eauto|lia|exact OFF].
  Qed.

  (* ---------------------------------------------------------------------------------------- *)
  (* Min / Max (the tree is non-trivial: minItems >= 1)                                          *)
  Hypothesis lo_pos : (1 <= lo)%nat.

  Lemma flatten_nonempty h n : binv h n -> n_its n <> [] -> flatten n <> [].
  Proof.
    intros B NE. inversion B as [its|h' its ch L F1 F2]; subst; cbn [n_its] in NE; [exact NE|].
    destruct ch as [|c cs]; [discriminate|]. rewrite flatten_node. destruct its as [|i its']; [contradiction|].
    destruct cs as [|c2 cs2]; [discriminate|].
    change (inter (i :: its') (c :: c2 :: cs2)) with (flatten c ++ i :: inter its' (c2 :: cs2)). destruct (flatten c); discriminate.
  Qed.

  Lemma child_nonempty h c : binv h c -> (lo <= length (n_its c) <= hi)%nat -> flatten c <> [].
  Proof. intros B Hb. apply (flatten_nonempty h c B). destruct (n_its c); [cbn in Hb; lia|discriminate]. Qed.

  Theorem node_min_spec : forall h n fuel, binv h n -> (h < fuel)%nat -> node_min fuel n = hd_error (flatten n).
  Proof.
    induction h as [|h IH]; intros n fuel B Hf; (destruct fuel as [|f]; [lia|]);
      inversion B as [its|h' its ch L F1 F2]; subst; cbn [node_min n_ch n_its]; [reflexivity|].
    destruct ch as [|c cs]; [discriminate|]. inversion F1; subst. inversion F2; subst. rewrite (IH c f) by (auto; lia).
    rewrite flatten_node. destruct its as [|i its']; cbn [inter]; [reflexivity|].
    pose proof (child_nonempty h c ltac:(assumption) ltac:(assumption)) as NE.
    destruct cs as [|c2 cs2]; [discriminate|].
    change (inter (i :: its') (c :: c2 :: cs2)) with (flatten c ++ i :: inter its' (c2 :: cs2)).
    destruct (flatten c); [contradiction|reflexivity].
  Qed.

  Lemma last_opt_snoc {X} (l : list X) x : last_opt (l ++ [x]) = Some x.
  Proof. unfold last_opt. rewrite rev_app_distr. reflexivity. Qed.
  Lemma last_opt_app {X} (l1 l2 : list X) : l2 <> [] -> last_opt (l1 ++ l2) = last_opt l2.
  Proof.
    intros NE. destruct (exists_last_or_nil l2) as [->|(l' & a & ->)]; [contradiction|].
    rewrite app_assoc, !last_opt_snoc. reflexivity.
  Qed.

  Lemma inter_last its cs c : length cs = length its -> flatten c <> [] ->
    last_opt (inter its (cs ++ [c])) = last_opt (flatten c).
  Proof.
    revert cs. induction its as [|i its IH]; intros [|c0 cs] L NE; try discriminate; [reflexivity|].
    cbn in L. cbn [app]. destruct (cs ++ [c]) as [|c1 r] eqn:E; [destruct cs; discriminate|].
    change (inter (i :: its) (c0 :: c1 :: r)) with (flatten c0 ++ i :: inter its (c1 :: r)). rewrite <- E.
    rewrite last_opt_app by discriminate. change (i :: inter its (cs ++ [c])) with ([i] ++ inter its (cs ++ [c])).
    assert (NI : inter its (cs ++ [c]) <> []).
    { intros Z. specialize (IH cs ltac:(lia) NE). rewrite Z in IH. cbn in IH. unfold last_opt in IH.
      destruct (rev (flatten c)) eqn:R; [|discriminate]. apply NE. rewrite <- (rev_involutive (flatten c)), R. reflexivity. }
    rewrite last_opt_app by exact NI. apply IH; [lia|exact NE].
  Qed.

  Theorem node_max_spec : forall h n fuel, binv h n -> (h < fuel)%nat -> node_max fuel n = last_opt (flatten n).
  Proof.
    induction h as [|h IH]; intros n fuel B Hf; (destruct fuel as [|f]; [lia|]);
      inversion B as [its|h' its ch L F1 F2]; subst; cbn [node_max n_ch n_its]; [reflexivity|].
    destruct (exists_last_or_nil ch) as [->|(cs & c & ->)]; [discriminate|].
    rewrite last_opt_snoc. apply Forall_app in F1 as [_ F1]. apply Forall_app in F2 as [_ F2]. inversion F1; subst. inversion F2; subst.
    rewrite (IH c f) by (auto; lia). rewrite app_length in L. cbn in L.
    destruct (cs ++ [c]) as [|c1 r] eqn:E; [destruct cs; discriminate|]. rewrite flatten_node, <- E.
    symmetry. apply inter_last; [lia|]. eapply child_nonempty; eauto.
  Qed.

  (* ---------------------------------------------------------------------------------------- *)
  (* AscendGreaterOrEqual                                                                       *)
  Lemma child_sorted its ch idx c : length ch = S (length its) -> In c ch ->
    sorted (flatten (Node its ch idx)) -> sorted (flatten c).
  Proof.
    intros L Hc Hs. apply in_split in Hc as (C1 & C2 & ->). rewrite app_length in L. cbn in L.
    destruct (split_at its (length C1)) as (I1 & I2 & -> & L1); [lia|].
    rewrite (flatten_at_child I1 I2 C1 c C2 idx) in Hs by (rewrite ?app_length in *; lia).
    apply sorted_app in Hs as (_ & Hs & _). apply sorted_app in Hs as (Hs & _ & _). exact Hs.
  Qed.

  Fixpoint ainter (rec : node -> list A) (J : list A) (R : list node) {struct R} : list A :=
    match R with
    | [] => []
    | c :: R' => match J with [] => rec c | j :: J' => rec c ++ j :: ainter rec J' R' end
    end.

  Lemma asc_loop_node rec (J : list A) : forall (I1 : list A) (C1 R : list node), length C1 = length I1 -> length R = S (length J) ->
    asc_loop rec (I1 ++ J) (C1 ++ R) (length J) (length I1) = ainter rec J R.
  Proof.
    induction J as [|j J IH]; intros I1 C1 R L1 L2; cbn [length asc_loop].
    - destruct R as [|c [|c2 R2]]; try discriminate. rewrite last_opt_snoc. reflexivity.
    - destruct R as [|c R']; [discriminate|]. cbn in L2.
      rewrite <- L1 at 1. rewrite nth_error_mid, nth_error_mid.
      change (ainter rec (j :: J) (c :: R')) with (rec c ++ j :: ainter rec J R'). f_equal. f_equal.
      replace (I1 ++ j :: J) with ((I1 ++ [j]) ++ J) by (rewrite <- app_assoc; reflexivity).
      replace (C1 ++ c :: R') with ((C1 ++ [c]) ++ R') by (rewrite <- app_assoc; reflexivity).
      replace (S (length I1)) with (length (I1 ++ [j])) by (rewrite app_length; cbn; lia).
      apply IH; [rewrite !app_length; cbn; lia|lia].
  Qed.

  Lemma asc_loop_leaf rec (J : list A) : forall (I1 : list A), asc_loop rec (I1 ++ J) [] (length J) (length I1) = J.
  Proof.
    induction J as [|j J IH]; intros I1; cbn [length asc_loop]; [reflexivity|].
    rewrite nth_error_mid. destruct (nth_error [] (length I1)) eqn:N; [destruct (length I1); discriminate|]. cbn [app]. f_equal.
    replace (I1 ++ j :: J) with ((I1 ++ [j]) ++ J) by (rewrite <- app_assoc; reflexivity).
    replace (S (length I1)) with (length (I1 ++ [j])) by (rewrite app_length; cbn; lia). apply IH.
  Qed.

  Lemma ainter_rest rec J c C2 : length C2 = length J -> (forall c', In c' C2 -> rec c' = flatten c') ->
    ainter rec J (c :: C2) = rec c ++ zipr J C2.
  Proof.
    revert c C2. induction J as [|j J IH]; intros c [|c2 C2] L H; try discriminate; [cbn; symmetry; apply app_nil_r|].
    change (ainter rec (j :: J) (c :: c2 :: C2)) with (rec c ++ j :: ainter rec J (c2 :: C2)). cbn [zipr].
    f_equal. f_equal. cbn in L. rewrite IH; [|lia|intros c' Hc'; apply H; right; exact Hc'].
    rewrite (H c2 (or_introl eq_refl)). reflexivity.
  Qed.

  Lemma l0_ascend_above C Q x : none_lt ltb Q x -> l0_ascend_ge ltb x (C ++ Q) = l0_ascend_ge ltb x C ++ Q.
  Proof.
    intros H. induction C as [|c C IH]; cbn [app l0_ascend_ge]; [apply l0_ascend_ge_none, H|].
    destruct (ltb c x); [exact IH|reflexivity].
  Qed.

  Lemma zipr_in_child J C c z : In c C -> In z (flatten c) -> length C = length J -> In z (zipr J C).
  Proof.
    revert C. induction J as [|j J IH]; intros [|c0 C] Hc Hz L; try discriminate; [destruct Hc|].
    cbn [zipr]. cbn in L. right. apply in_or_app. destruct Hc as [<-|Hc]; [left; exact Hz|right; apply IH; auto].
  Qed.

  Theorem ascend_spec x : forall h n fuel, binv h n -> sorted (flatten n) -> (h < fuel)%nat ->
    ascend_from ltb fuel n (Some x) = l0_ascend_ge ltb x (flatten n).
  Proof.
    induction h as [|h IH]; intros n fuel B Hs Hf; (destruct fuel as [|f]; [lia|]);
      inversion B as [its|h' its ch L F1 F2]; subst; cbn [ascend_from n_its n_ch].
    - rewrite flatten_leaf in *.
      assert (G : exists I1 J, its = I1 ++ J /\ fst (items_find ltb its x) = length I1 /\ all_lt I1 x /\ none_lt ltb J x).
      { destruct (items_find_spec its x Hs) as [I1 I2 E H1 H2|I1 y I2 E H1 EQ H2].
        - exists I1, I2. repeat split; auto. apply none_lt_of_lt_all, H2.
        - exists I1, (y :: I2). repeat split; auto. intros z [<-|Hz]; [apply EQ|apply none_lt_of_lt_all in H2; apply H2, Hz]. }
      destruct G as (I1 & J & -> & -> & H1 & HJ).
      rewrite app_length. replace (length I1 + length J - length I1)%nat with (length J) by lia.
      rewrite asc_loop_leaf. rewrite (l0_ascend_below ltb _ _ _ H1). symmetry. apply l0_ascend_ge_none, HJ.
    - pose proof (node_items_sorted _ _ _ L Hs) as Hi.
      assert (G : exists I1 J, its = I1 ++ J /\ fst (items_find ltb its x) = length I1 /\ all_lt I1 x /\
                  (lt_all x J \/ exists y J', J = y :: J' /\ eqv x y)).
      { destruct (items_find_spec its x Hi) as [I1 I2 E H1 H2|I1 y I2 E H1 EQ H2].
        - exists I1, I2. repeat split; auto.
        - exists I1, (y :: I2). repeat split; auto. right. eauto. }
      destruct G as (I1 & J & -> & -> & H1 & HJ).
      rewrite app_length. replace (length I1 + length J - length I1)%nat with (length J) by lia.
      rewrite app_length in L.
      destruct (split_at ch (length I1)) as (C1 & R & -> & L1); [lia|].
      destruct R as [|c C2]; [rewrite app_length in L; cbn in L; lia|].
      assert (L2 : length C2 = length J) by (rewrite app_length in L; cbn in L; lia).
      rewrite asc_loop_node by (cbn; lia).
      pose proof (flatten_at_child I1 J C1 c C2 (idx_of (map fsize (C1 ++ c :: C2))) L1 L2) as FL.
      assert (LL : length (C1 ++ c :: C2) = S (length (I1 ++ J))) by (rewrite !app_length; cbn; lia).
      rewrite FL in *.
      assert (HP : all_lt (zipl I1 C1) x) by (eapply zipl_all_lt; eauto).
      assert (HQ : none_lt ltb (zipr J C2) x).
      { destruct HJ as [HJ|(y & J' & -> & EQ)].
        - apply none_lt_of_lt_all. rewrite app_assoc in Hs. eapply zipr_lt_all; eauto.
        - destruct C2 as [|c2 C2']; [discriminate|]. cbn [zipr] in *.
          rewrite app_assoc in Hs. destruct (sorted_mid ltb _ _ _ Hs) as (_ & YQ & _ & _).
          intros z [<-|Hz]; [apply EQ|]. apply (lt_asym ltb lt_irrefl lt_trans).
          apply (lt_eqv_l ltb lt_negtrans x y z EQ). apply YQ, Hz. }
      rewrite (l0_ascend_below ltb _ _ _ HP), (l0_ascend_above _ _ _ HQ).
      assert (RC : forall c', In c' (c :: C2) -> ascend_from ltb f c' (Some x) = l0_ascend_ge ltb x (flatten c')).
      { intros c' Hc'. apply IH; [|eapply child_sorted; [exact LL|apply in_or_app; right; exact Hc'|rewrite FL; exact Hs]|lia].
        rewrite Forall_forall in F1. apply F1, in_or_app. right; exact Hc'. }
      rewrite ainter_rest; [rewrite (RC c (or_introl eq_refl)); reflexivity|exact L2|].
      intros c' Hc'. rewrite (RC c' (or_intror Hc')). apply l0_ascend_ge_none.
      intros z Hz. apply HQ. eapply zipr_in_child; eauto.
  Qed.

  (* ---------------------------------------------------------------------------------------- *)
  (* DescendLessOrEqual                                                                         *)
  Definition le_x (x y : A) : bool := negb (ltb x y).
  (* when something at or below x has already been visited (hit), nothing equivalent to x is left *)
  Definition hit_ok (x : A) (hit : bool) (L : list A) : Prop :=
    hit = true -> forall y, In y L -> ltb x y = false -> ltb y x = true.
  Definition nonempty {X} (l : list X) : bool := match l with [] => false | _ => true end.

  Lemma l0_descend_filter x L : sorted L -> l0_descend_le ltb x L = rev (filter (le_x x) L).
  Proof.
    intros Hs. unfold l0_descend_le.
    assert (G : forall acc, l0_descend_le_acc ltb x L acc = rev (filter (le_x x) L) ++ acc).
    { induction L as [|a L IH]; intros acc; cbn [l0_descend_le_acc filter]; [reflexivity|].
      apply sorted_cons_inv in Hs as [Hs' F]. unfold le_x at 1. destruct (ltb x a) eqn:E; cbn [negb].
      - rewrite filter_false_nil'; [reflexivity|]. intros y Hy. unfold le_x. rewrite (lt_trans _ _ _ E (F y Hy)). reflexivity.
      - rewrite (IH Hs'). cbn [rev]. rewrite <- app_assoc. reflexivity. }
    rewrite G. apply app_nil_r.
  Qed.

  Lemma zipr_snoc I i C c : length C = length I -> zipr (I ++ [i]) (C ++ [c]) = zipr I C ++ i :: flatten c.
  Proof.
    revert C. induction I as [|j I IH]; intros [|c0 C] L; try discriminate; [cbn; rewrite app_nil_r; reflexivity|].
    cbn [app zipr]. cbn in L. rewrite IH by lia. rewrite <- app_assoc. reflexivity.
  Qed.
  Lemma zipr_app I J C R : length C = length I -> zipr (I ++ J) (C ++ R) = zipr I C ++ zipr J R.
  Proof.
    revert C. induction I as [|j I IH]; intros [|c0 C] L; try discriminate; [reflexivity|].
    cbn [app zipr]. cbn in L. rewrite IH by lia. rewrite <- app_assoc. reflexivity.
  Qed.

  Lemma strictly_below x a y : ltb x a = false -> lt y a -> ltb x y = false -> ltb y x = true.
  Proof.
    intros H1 H2 _. destruct (ltb y x) eqn:E; [reflexivity|]. pose proof (lt_negtrans _ _ _ E H1) as C. unfold C07_BTreeOrder.lt in H2. congruence.
  Qed.

  Lemma filter_le_above x L : lt_all x L -> filter (le_x x) L = [].
  Proof. intros H. apply filter_false_nil'. intros y Hy. unfold le_x. rewrite (H y Hy). reflexivity. Qed.

  Lemma desc_loop_leaf rec x : forall Ik J hit, hit_ok x hit Ik -> sorted Ik ->
    desc_loop ltb rec x (Ik ++ J) [] (length Ik) hit =
      (rev (filter (le_x x) Ik), hit || nonempty (filter (le_x x) Ik)).
  Proof.
    induction Ik as [|a I' IH] using rev_ind; intros J hit HO Hs; [cbn; rewrite orb_false_r; reflexivity|].
    rewrite app_length. cbn [length]. replace (length I' + 1)%nat with (S (length I')) by lia. cbn [desc_loop].
    rewrite <- app_assoc. cbn [app]. rewrite nth_error_mid.
    destruct (sorted_mid ltb _ _ _ Hs) as (LA & _ & Hs' & _).
    rewrite filter_app. cbn [filter]. replace (le_x x a) with (negb (ltb x a)) by reflexivity.
    destruct (ltb x a) eqn:E; cbn [negb].
    - rewrite (lt_asym ltb lt_irrefl lt_trans _ _ E). cbn [negb andb]. rewrite orb_true_r. rewrite app_nil_r.
      apply IH; [|exact Hs']. intros Ht y Hy. apply HO; [exact Ht|apply in_or_app; left; exact Hy].
    - assert (NS : negb (ltb a x) && (hit || false) = false).
      { rewrite orb_false_r. destruct hit; [|apply andb_false_r].
        rewrite (HO eq_refl a ltac:(apply in_or_app; right; left; reflexivity) E). reflexivity. }
      rewrite NS. destruct (nth_error [] (S (length I'))) eqn:N; [discriminate|].
      rewrite (IH (a :: J) true); [|intros _ y Hy; apply (strictly_below x a y E (LA y Hy))|exact Hs'].
      cbn [app orb]. rewrite rev_app_distr. cbn [rev app]. f_equal. symmetry.
      destruct (filter (le_x x) I' ++ [a]) eqn:Z; [destruct (filter (le_x x) I'); discriminate|apply orb_true_r].
  Qed.

  Lemma desc_loop_node rec x c0 : forall Ik Ck J R hit, length Ck = length Ik ->
    (forall c h', In c Ck -> hit_ok x h' (flatten c) -> fst (rec c h') = rev (filter (le_x x) (flatten c))) ->
    sorted (zipr Ik Ck) -> hit_ok x hit (zipr Ik Ck) ->
    desc_loop ltb rec x (Ik ++ J) (c0 :: Ck ++ R) (length Ik) hit =
      (rev (filter (le_x x) (zipr Ik Ck)), hit || nonempty (filter (le_x x) (zipr Ik Ck))).
  Proof.
    induction Ik as [|a I' IH] using rev_ind; intros Ck J R hit L HR Hs HO.
    { destruct Ck; [|discriminate]. cbn. rewrite orb_false_r. reflexivity. }
    destruct (exists_last_or_nil Ck) as [->|(C' & c & ->)]; [rewrite app_length in L; cbn in L; lia|].
    rewrite !app_length in L. cbn [length] in L.
    rewrite app_length. cbn [length]. replace (length I' + 1)%nat with (S (length I')) by lia. cbn [desc_loop].
    rewrite <- !app_assoc. cbn [app]. rewrite nth_error_mid.
    replace (nth_error (c0 :: C' ++ c :: R) (S (length I'))) with (Some c)
      by (cbn [nth_error]; replace (length I') with (length C') by lia; symmetry; apply nth_error_mid).
    rewrite zipr_snoc in * by lia.
    destruct (sorted_mid ltb _ _ _ Hs) as (LA & AQ & Hs' & Hsc).
    rewrite filter_app. cbn [filter]. replace (le_x x a) with (negb (ltb x a)) by reflexivity.
    destruct (ltb x a) eqn:E; cbn [negb].
    - rewrite (lt_asym ltb lt_irrefl lt_trans _ _ E). cbn [negb andb]. rewrite orb_true_r.
      rewrite (filter_le_above x (flatten c)) by (eapply lt_all_trans; eauto). rewrite app_nil_r.
      replace (I' ++ a :: J) with (I' ++ (a :: J)) by reflexivity.
      replace (c0 :: C' ++ c :: R) with (c0 :: C' ++ (c :: R)) by reflexivity.
      apply IH; [lia| |exact Hs'|].
      + intros c' h' Hc'. apply HR. apply in_or_app. left; exact Hc'.
      + intros Ht y Hy. apply HO; [exact Ht|apply in_or_app; left; exact Hy].
    - assert (NS : negb (ltb a x) && (hit || false) = false).
      { rewrite orb_false_r. destruct hit; [|apply andb_false_r].
        rewrite (HO eq_refl a ltac:(apply in_or_app; right; left; reflexivity) E). reflexivity. }
      rewrite NS.
      assert (HC : fst (rec c hit) = rev (filter (le_x x) (flatten c))).
      { apply HR; [apply in_or_app; right; left; reflexivity|]. intros Ht y Hy. apply HO; [exact Ht|].
        apply in_or_app. right. right. exact Hy. }
      destruct (rec c hit) as [sub hh]. cbn [fst] in HC. subst sub.
      replace (I' ++ a :: J) with (I' ++ (a :: J)) by reflexivity.
      replace (c0 :: C' ++ c :: R) with (c0 :: C' ++ (c :: R)) by reflexivity.
      rewrite (IH C' (a :: J) (c :: R) true); [|lia| |exact Hs'|].
      + cbn [orb]. rewrite rev_app_distr. cbn [rev]. rewrite <- app_assoc. cbn [app]. f_equal. symmetry.
        destruct (filter (le_x x) (zipr I' C') ++ a :: filter (le_x x) (flatten c)) eqn:Z;
          [destruct (filter (le_x x) (zipr I' C')); discriminate|apply orb_true_r].
      + intros c' h' Hc'. apply HR. apply in_or_app. left; exact Hc'.
      + intros _ y Hy. apply (strictly_below x a y E (LA y Hy)).
  Qed.

  Theorem descend_spec x : forall h n fuel hit, binv h n -> sorted (flatten n) -> (h < fuel)%nat ->
    hit_ok x hit (flatten n) ->
    descend_from ltb fuel n x hit =
      (rev (filter (le_x x) (flatten n)), hit || nonempty (filter (le_x x) (flatten n))).
  Proof.
    induction h as [|h IH]; intros n fuel hit B Hs Hf HO; (destruct fuel as [|f]; [lia|]);
      inversion B as [its|h' its ch L F1 F2]; subst; cbn [descend_from n_its n_ch].
    - rewrite flatten_leaf in *.
      assert (G : exists Ik J, its = Ik ++ J /\ (let '(fi, found) := items_find ltb its x in if found then S fi else fi) = length Ik /\ lt_all x J).
      { destruct (items_find_spec its x Hs) as [I1 I2 E H1 H2|I1 y I2 E H1 EQ H2].
        - exists I1, I2. auto.
        - exists (I1 ++ [y]), I2. rewrite app_length, <- app_assoc. cbn. repeat split; auto; lia. }
      destruct G as (Ik & J & -> & EK & HJ). destruct (items_find ltb (Ik ++ J) x) as [fi found]. rewrite EK.
      apply sorted_app in Hs as (Hs1 & _ & _).
      rewrite desc_loop_leaf; [|intros Ht y Hy; apply HO; [exact Ht|apply in_or_app; left; exact Hy]|exact Hs1].
      rewrite filter_app, (filter_le_above x J HJ), app_nil_r. reflexivity.
    - pose proof (node_items_sorted _ _ _ L Hs) as Hi.
      assert (G : exists Ik J, its = Ik ++ J /\ (let '(fi, found) := items_find ltb its x in if found then S fi else fi) = length Ik /\ lt_all x J).
      { destruct (items_find_spec its x Hi) as [I1 I2 E H1 H2|I1 y I2 E H1 EQ H2].
        - exists I1, I2. auto.
        - exists (I1 ++ [y]), I2. rewrite app_length, <- app_assoc. cbn. repeat split; auto; lia. }
      destruct G as (Ik & J & -> & EK & HJ). destruct (items_find ltb (Ik ++ J) x) as [fi found]. rewrite EK.
      destruct ch as [|c0 Cs]; [discriminate|]. cbn in L. rewrite app_length in L.
      destruct (split_at Cs (length Ik)) as (Ck & R & -> & L1); [lia|].
      assert (L2 : length R = length J) by (rewrite app_length in L; lia).
      assert (LL : length (c0 :: Ck ++ R) = S (length (Ik ++ J))) by (cbn; rewrite !app_length; lia).
      assert (RC : forall c h', In c (c0 :: Ck) -> hit_ok x h' (flatten c) ->
                   descend_from ltb f c x h' = (rev (filter (le_x x) (flatten c)), h' || nonempty (filter (le_x x) (flatten c)))).
      { intros c h' Hc Hk.
        assert (Hc' : In c (c0 :: Ck ++ R)) by (destruct Hc as [<-|Hc]; [left; reflexivity|right; apply in_or_app; left; exact Hc]).
        apply IH; [|eapply child_sorted; eauto|lia|exact Hk]. rewrite Forall_forall in F1. apply F1, Hc'. }
      assert (FL : flatten (Node (Ik ++ J) (c0 :: Ck ++ R) (idx_of (map fsize (c0 :: Ck ++ R))))
                   = flatten c0 ++ zipr Ik Ck ++ zipr J R).
      { rewrite flatten_node, inter_cons by (rewrite !app_length; lia). rewrite zipr_app by exact L1. reflexivity. }
      rewrite FL in *.
      assert (HG : lt_all x (zipr J R)).
      { rewrite app_assoc in Hs. eapply zipr_lt_all; eauto. }
      apply sorted_app in Hs as (Hs0 & HsW & C0W). apply sorted_app in HsW as (HsW & _ & _).
      rewrite (desc_loop_node _ x c0 Ik Ck J R hit L1); [| |exact HsW|].
      + assert (HO1 : hit_ok x (hit || nonempty (filter (le_x x) (zipr Ik Ck))) (flatten c0)).
        { intros Ht y Hy E. apply orb_true_iff in Ht as [Ht|Ht].
          - apply HO; [exact Ht|apply in_or_app; left; exact Hy|exact E].
          - destruct (filter (le_x x) (zipr Ik Ck)) as [|e r] eqn:Z; [discriminate|].
            assert (He : In e (filter (le_x x) (zipr Ik Ck))) by (rewrite Z; left; reflexivity).
            apply filter_In in He as [He LE]. unfold le_x in LE. apply negb_true_iff in LE.
            apply (strictly_below x e y LE); [|exact E]. apply C0W; [exact Hy|apply in_or_app; left; exact He]. }
        rewrite (RC c0 _ (or_introl eq_refl) HO1).
        rewrite !filter_app, (filter_le_above x _ HG), app_nil_r, rev_app_distr. f_equal.
        rewrite <- orb_assoc. f_equal.
        destruct (filter (le_x x) (flatten c0)), (filter (le_x x) (zipr Ik Ck)); reflexivity.
      + intros c h' Hc Hk. rewrite (RC c h' (or_intror Hc) Hk). reflexivity.
      + intros Ht y Hy. apply HO; [exact Ht|]. apply in_or_app. right. apply in_or_app. left; exact Hy.
  Qed.

  Corollary descend_le_spec x h n fuel : binv h n -> sorted (flatten n) -> (h < fuel)%nat ->
    fst (descend_from ltb fuel n x false) = l0_descend_le ltb x (flatten n).
  Proof.
    intros B Hs Hf. rewrite (descend_spec x h n fuel false B Hs Hf) by (intros Ht; discriminate).
    cbn [fst]. symmetry. apply l0_descend_filter, Hs.
  Qed.

  (* ---------------------------------------------------------------------------------------- *)
  (* ReplaceOrInsert                                                                            *)
  Hypothesis hi_def : hi = (2 * lo + 1)%nat.      (* maxItems = 2*degree-1, minItems = degree-1 *)

  Lemma half_hi : Nat.div hi 2 = lo.
  Proof. rewrite hi_def. replace (2 * lo + 1)%nat with (1 + lo * 2)%nat by lia. rewrite Nat.div_add by lia. reflexivity. Qed.

  Lemma l0_insert_length x L : length (fst (l0_insert ltb x L)) =
    (length L + match snd (l0_insert ltb x L) with None => 1 | Some _ => 0 end)%nat.
  Proof.
    induction L as [|a L IH]; cbn [l0_insert]; [reflexivity|].
    destruct (ltb x a); [cbn; lia|]. destruct (ltb a x); [|cbn; lia].
    destruct (l0_insert ltb x L) as [L' o]. cbn [fst snd length] in *. lia.
  Qed.

  Lemma l0_insert_sorted x L : sorted L -> sorted (fst (l0_insert ltb x L)).
  Proof.
    induction L as [|a L IH]; intros Hs; cbn [l0_insert]; [apply sorted_one|].
    apply sorted_cons_inv in Hs as [Hs' F].
    destruct (ltb x a) eqn:E1; cbn [fst].
    - apply sorted_cons; [apply sorted_cons; assumption|]. apply lt_all_cons. split; [exact E1|]. eapply lt_all_trans; eauto.
    - destruct (ltb a x) eqn:E2.
      + specialize (IH Hs'). destruct (l0_insert ltb x L) as [L' o] eqn:EL. cbn [fst] in *.
        apply sorted_cons; [exact IH|].
        (* everything in L' is x or an element of L *)
        assert (G : forall y, In y L' -> y = x \/ In y L).
        { clear -EL. revert L' o EL. induction L as [|b L IHL]; intros L' o EL y Hy; cbn [l0_insert] in EL.
          - inversion EL; subst. destruct Hy as [<-|[]]. left; reflexivity.
          - destruct (ltb x b).
            + inversion EL; subst. destruct Hy as [<-|Hy]; [left; reflexivity|right; exact Hy].
            + destruct (ltb b x).
              * destruct (l0_insert ltb x L) as [L2 o2] eqn:E2. inversion EL; subst.
                destruct Hy as [<-|Hy]; [right; left; reflexivity|]. destruct (IHL _ _ eq_refl y Hy) as [->|H]; [left; reflexivity|right; right; exact H].
              * inversion EL; subst. destruct Hy as [<-|Hy]; [left; reflexivity|right; right; exact Hy]. }
        intros y Hy. destruct (G y Hy) as [->|H]; [exact E2|apply F, H].
      + apply sorted_cons; [exact Hs'|]. intros y Hy. apply (lt_eqv_l ltb lt_negtrans x a y); [split; assumption|apply F, Hy].
  Qed.

  Lemma idx_from_firstn acc ss k : firstn k (idx_from acc ss) = idx_from acc (firstn k ss).
  Proof.
    revert acc k. induction ss as [|s r IH]; intros acc [|k]; cbn; try reflexivity. rewrite IH. reflexivity.
  Qed.

  Lemma map_nlen_fsize h (cs : list node) : Forall (binv h) cs -> map nlen cs = map fsize cs.
  Proof.
    intros F. apply map_ext_in. intros c Hc. rewrite Forall_forall in F. eapply nlen_binv; eauto.
  Qed.

  (* splitting a full node in the middle *)
  Lemma node_split_spec h c : binv h c -> length (n_its c) = hi ->
    exists m l r, node_split c lo = Some (m, l, r) /\ flatten c = flatten l ++ m :: flatten r /\
                  binv h l /\ binv h r /\ length (n_its l) = lo /\ length (n_its r) = lo.
  Proof.
    intros B LH. unfold node_split.
    destruct (split_at (n_its c) lo) as (I1 & R & EI & LI); [lia|].
    destruct R as [|m I2]; [rewrite EI, app_length in LH; cbn in LH; lia|].
    assert (LI2 : length I2 = lo) by (rewrite EI, app_length in LH; cbn in LH; lia).
    rewrite EI. rewrite <- LI in *. rewrite nth_error_mid. exists m. eexists. eexists. split; [reflexivity|].
    replace (firstn (length I1) (I1 ++ m :: I2)) with I1 by (rewrite firstn_app, Nat.sub_diag, firstn_O, app_nil_r, firstn_all; reflexivity).
    replace (skipn (S (length I1)) (I1 ++ m :: I2)) with I2.
    2:{ replace (I1 ++ m :: I2) with ((I1 ++ [m]) ++ I2) by (rewrite <- app_assoc; reflexivity).
        replace (S (length I1)) with (length (I1 ++ [m])) by (rewrite app_length; cbn; lia).
        rewrite skipn_app, Nat.sub_diag, skipn_O, skipn_all. reflexivity. }
    inversion B as [its|h' its ch L F1 F2]; subst; cbn [n_its n_ch n_idx] in *.
    - subst its. cbn. repeat split; auto using binv_leaf.
    - subst its. rewrite app_length in L. cbn [length] in L.
      destruct (split_at ch (S (length I1))) as (C1 & C2 & -> & LC); [lia|].
      assert (LC2 : length C2 = S (length I2)) by (rewrite app_length in L; lia).
      replace (firstn (S (length I1)) (C1 ++ C2)) with C1 by (rewrite <- LC, firstn_app, Nat.sub_diag, firstn_O, app_nil_r, firstn_all; reflexivity).
      replace (skipn (S (length I1)) (C1 ++ C2)) with C2 by (rewrite <- LC, skipn_app, Nat.sub_diag, skipn_O, skipn_all; reflexivity).
      apply Forall_app in F1 as [F1a F1b]. apply Forall_app in F2 as [F2a F2b].
      assert (EL : firstn (S (length I1)) (idx_of (map fsize (C1 ++ C2))) = idx_of (map fsize C1)).
      { unfold idx_of. rewrite idx_from_firstn, map_app, <- LC, <- (map_length fsize C1), firstn_app, Nat.sub_diag, firstn_O, app_nil_r, firstn_all. reflexivity. }
      rewrite EL. unfold init_size. rewrite (map_nlen_fsize _ _ F1b).
      destruct (exists_last_or_nil C1) as [->|(C1' & cl & ->)]; [discriminate|].
      rewrite app_length in LC. cbn in LC.
      split; [|split; [|split; [|split; reflexivity || exact LI2]]].
      + rewrite <- app_assoc. cbn [app].
        rewrite (flatten_at_item I1 m I2 C1' cl C2 _ ltac:(lia) LC2).
        destruct C2 as [|cr C2']; [discriminate|]. cbn in LC2.
        destruct (C1' ++ [cl]) as [|c0 cs] eqn:EC; [destruct C1'; discriminate|].
        rewrite flatten_node, <- EC. replace I1 with (I1 ++ []) at 2 by apply app_nil_r.
        rewrite inter_app by (auto; try lia; discriminate). cbn [inter]. rewrite flatten_node.
        rewrite <- app_assoc. reflexivity.
      + apply binv_node; [rewrite app_length; cbn; lia|exact F1a|exact F2a].
      + apply binv_node; [lia|exact F1b|exact F2b].
  Qed.

  Lemma item_view2 (I1 I2 : list A) ch : length ch = S (length I1 + S (length I2)) ->
    exists P' Q', forall y idx', flatten (Node (I1 ++ y :: I2) ch idx') = P' ++ y :: Q'.
  Proof.
    intros L. destruct (split_at ch (length I1)) as (C1 & R & -> & L1); [lia|].
    destruct R as [|cl C2]; [rewrite app_length in L; cbn in L; lia|].
    assert (L2 : length C2 = S (length I2)) by (rewrite app_length in L; cbn in L; lia).
    exists (zipl I1 C1 ++ flatten cl), (inter I2 C2). intros y idx'.
    rewrite (flatten_at_item I1 y I2 C1 cl C2 idx' L1 L2), <- app_assoc. reflexivity.
  Qed.

  Lemma l0_insert_one_new x : l0_insert ltb x [] = ([x], None).
  Proof. reflexivity. Qed.
  Lemma l0_insert_one_eqv x y : eqv x y -> l0_insert ltb x [y] = ([x], Some y).
  Proof. intros [E1 E2]. cbn. rewrite E1, E2. reflexivity. Qed.

  Lemma lt_all_eqv x y Q : eqv x y -> lt_all y Q -> lt_all x Q.
  Proof. intros E H z Hz. apply (lt_eqv_l ltb lt_negtrans x y z E), H, Hz. Qed.

  (* a node rebuilt around one replaced child *)
  Lemma binv_replace_child h I1 I2 C1 c C2 c' : length C1 = length I1 -> length C2 = length I2 ->
    Forall (binv h) (C1 ++ c :: C2) -> Forall (fun c0 => lo <= length (n_its c0) <= hi)%nat (C1 ++ c :: C2) ->
    binv h c' -> (lo <= length (n_its c') <= hi)%nat ->
    binv (S h) (Node (I1 ++ I2) (C1 ++ c' :: C2) (idx_of (map fsize (C1 ++ c' :: C2)))).
  Proof.
    intros L1 L2 F1 F2 B' Hb. apply binv_node.
    - rewrite !app_length. cbn. lia.
    - apply Forall_app in F1 as [Fa Fb]. inversion Fb; subst. apply Forall_app. split; [exact Fa|constructor; assumption].
    - apply Forall_app in F2 as [Fa Fb]. inversion Fb; subst. apply Forall_app. split; [exact Fa|constructor; assumption].
  Qed.

  Lemma idx_after_insert C1 c C2 c' (o : option A) : length (flatten c') = (length (flatten c) + match o with None => 1 | Some _ => 0 end)%nat ->
    (match o with None => ix_add_at (length C1) 1 (idx_of (map fsize (C1 ++ c :: C2))) | Some _ => idx_of (map fsize (C1 ++ c :: C2)) end)
    = idx_of (map fsize (C1 ++ c' :: C2)).
  Proof.
    intros HL. rewrite !map_app. cbn [map]. destruct o.
    - replace (fsize c') with (fsize c) by (unfold fsize; lia). reflexivity.
    - unfold idx_of. rewrite <- (map_length fsize C1), add_at_spec. f_equal. f_equal. f_equal. unfold fsize. lia.
  Qed.

  (* descending into child number |I1| that is not full *)
  Lemma insert_down x h f I1 I2 C1 c C2 :
    (forall n fuel, binv h n -> sorted (flatten n) -> (h < fuel)%nat -> (length (n_its n) < hi)%nat ->
       exists n' out, insert ltb fuel n x hi = Some (n', out) /\ binv h n' /\
                      l0_insert ltb x (flatten n) = (flatten n', out) /\
                      (length (n_its n) <= length (n_its n') <= hi)%nat) ->
    length C1 = length I1 -> length C2 = length I2 ->
    Forall (binv h) (C1 ++ c :: C2) -> Forall (fun c0 => lo <= length (n_its c0) <= hi)%nat (C1 ++ c :: C2) ->
    sorted (zipl I1 C1 ++ flatten c ++ zipr I2 C2) -> all_lt (zipl I1 C1) x -> lt_all x (zipr I2 C2) ->
    (h < f)%nat -> (length (n_its c) < hi)%nat ->
    exists c' out, insert ltb f c x hi = Some (c', out) /\
      binv (S h) (Node (I1 ++ I2) (C1 ++ c' :: C2)
                       (match out with None => ix_add_at (length C1) 1 (idx_of (map fsize (C1 ++ c :: C2)))
                                     | Some _ => idx_of (map fsize (C1 ++ c :: C2)) end)) /\
      l0_insert ltb x (zipl I1 C1 ++ flatten c ++ zipr I2 C2) = (zipl I1 C1 ++ flatten c' ++ zipr I2 C2, out).
  Proof.
    intros IH L1 L2 F1 F2 Hs HP HQ Hf Hc.
    assert (Bc : binv h c) by (apply Forall_app in F1 as [_ F1]; inversion F1; assumption).
    assert (Hb : (lo <= length (n_its c) <= hi)%nat) by (apply Forall_app in F2 as [_ F2]; inversion F2; assumption).
    assert (Sc : sorted (flatten c)) by (apply sorted_app in Hs as (_ & Hs & _); apply sorted_app in Hs as (Hs & _ & _); exact Hs).
    destruct (IH c f Bc Sc Hf Hc) as (c' & out & E & B' & EL & Hb').
    exists c', out. split; [exact E|]. split.
    - pose proof (l0_insert_length x (flatten c)) as LEN. rewrite EL in LEN. cbn [fst snd] in LEN.
      rewrite (idx_after_insert C1 c C2 c' out LEN). apply (binv_replace_child h I1 I2 C1 c C2 c'); auto; lia.
    - apply (l0_insert_comp ltb lt_irrefl lt_trans); assumption.
  Qed.

  Lemma maybe_split_notfull (I1 I2 : list A) C1 c C2 idx : length C1 = length I1 -> (length (n_its c) < hi)%nat ->
    maybe_split_child (Node (I1 ++ I2) (C1 ++ c :: C2) idx) (length I1) hi = Some (Node (I1 ++ I2) (C1 ++ c :: C2) idx, false).
  Proof.
    intros L1 Hc. unfold maybe_split_child. cbn [n_ch]. rewrite <- L1, nth_error_mid.
    replace (Nat.ltb (length (n_its c)) hi) with true by (symmetry; apply Nat.ltb_lt; exact Hc). reflexivity.
  Qed.

  Lemma maybe_split_full h (I1 I2 : list A) C1 c C2 : length C1 = length I1 -> length C2 = length I2 ->
    binv h c -> length (n_its c) = hi ->
    exists m l r,
      maybe_split_child (Node (I1 ++ I2) (C1 ++ c :: C2) (idx_of (map fsize (C1 ++ c :: C2)))) (length I1) hi
        = Some (Node (I1 ++ m :: I2) (C1 ++ l :: r :: C2) (idx_of (map fsize (C1 ++ l :: r :: C2))), true) /\
      flatten c = flatten l ++ m :: flatten r /\ binv h l /\ binv h r /\
      length (n_its l) = lo /\ length (n_its r) = lo.
  Proof.
    intros L1 L2 Bc Hc. destruct (node_split_spec h c Bc Hc) as (m & l & r & ES & FL & Bl & Br & Ll & Lr).
    exists m, l, r. split; [|auto]. unfold maybe_split_child. cbn [n_ch n_its n_idx].
    replace (nth_error (C1 ++ c :: C2) (length I1)) with (Some c) by (rewrite <- L1; symmetry; apply nth_error_mid).
    replace (Nat.ltb (length (n_its c)) hi) with false by (symmetry; apply Nat.ltb_ge; lia).
    rewrite half_hi, ES. f_equal. f_equal.
    rewrite insert_nth_mid. rewrite <- L1. rewrite replace_nth_mid.
    replace (C1 ++ l :: C2) with ((C1 ++ [l]) ++ C2) by (rewrite <- app_assoc; reflexivity).
    replace (S (length C1)) with (length (C1 ++ [l])) by (rewrite app_length; cbn; lia).
    rewrite insert_nth_mid. rewrite <- app_assoc. cbn [app]. f_equal.
    rewrite (nlen_binv _ _ Br). rewrite !map_app. cbn [map]. rewrite <- (map_length fsize C1).
    rewrite split_spec. f_equal. f_equal. f_equal.
    unfold fsize. rewrite FL, app_length. cbn [length]. lia.
  Qed.

  Theorem insert_spec x : forall h n fuel, binv h n -> sorted (flatten n) -> (h < fuel)%nat -> (length (n_its n) < hi)%nat ->
    exists n' out, insert ltb fuel n x hi = Some (n', out) /\ binv h n' /\
                   l0_insert ltb x (flatten n) = (flatten n', out) /\
                   (length (n_its n) <= length (n_its n') <= hi)%nat.
  Proof.
    induction h as [|h IH]; intros n fuel B Hs Hf Hlen; (destruct fuel as [|f]; [lia|]);
      inversion B as [its|h' its ch L F1 F2]; subst; cbn [insert n_its n_ch n_idx] in *.
    - rewrite flatten_leaf in *. destruct (items_find_spec its x Hs) as [I1 I2 E H1 H2|I1 y I2 E H1 EQ H2]; subst its; cbn [negb].
      + exists (Node (I1 ++ x :: I2) [] []), None. rewrite insert_nth_mid. split; [reflexivity|]. split; [apply binv_leaf|].
        rewrite flatten_leaf. split.
        * apply (l0_insert_comp ltb lt_irrefl lt_trans I1 [] I2 x [x] None H1 H2 (l0_insert_one_new x)).
        * cbn [n_its]. rewrite !app_length in *. cbn [length]. lia.
      + exists (Node (I1 ++ x :: I2) [] []), (Some y). rewrite replace_nth_mid, nth_error_mid. split; [reflexivity|]. split; [apply binv_leaf|].
        rewrite flatten_leaf. split.
        * apply (l0_insert_comp ltb lt_irrefl lt_trans I1 [y] I2 x [x] (Some y) H1 H2 (l0_insert_one_eqv x y EQ)).
        * cbn [n_its]. rewrite !app_length in *. cbn [length] in *. lia.
    - pose proof (node_items_sorted _ _ _ L Hs) as Hi.
      destruct (items_find_spec its x Hi) as [I1 I2 E H1 H2|I1 y I2 E H1 EQ H2]; subst its.
      + (* not in this node: descend *)
        destruct ch as [|c00 cs00] eqn:ECH; [discriminate|]. rewrite <- ECH in *. clear ECH c00 cs00.
        rewrite app_length in L.
        destruct (split_at ch (length I1)) as (C1 & R & -> & L1); [lia|].
        destruct R as [|c C2]; [rewrite app_length in L; cbn in L; lia|].
        assert (L2 : length C2 = length I2) by (rewrite app_length in L; cbn in L; lia).
        pose proof (flatten_at_child I1 I2 C1 c C2 (idx_of (map fsize (C1 ++ c :: C2))) L1 L2) as FL.
        rewrite FL in *.
        assert (HP : all_lt (zipl I1 C1) x) by (eapply zipl_all_lt; eauto).
        assert (HQ : lt_all x (zipr I2 C2)) by (rewrite app_assoc in Hs; eapply zipr_lt_all; eauto).
        assert (Bc : binv h c) by (apply Forall_app in F1 as [_ F1']; inversion F1'; assumption).
        assert (Hb : (lo <= length (n_its c) <= hi)%nat) by (apply Forall_app in F2 as [_ F2']; inversion F2'; assumption).
        destruct (C1 ++ c :: C2) as [|c00 cs00] eqn:ECH; [destruct C1; discriminate|]. rewrite <- ECH in *. clear ECH c00 cs00.
        destruct (Nat.lt_ge_cases (length (n_its c)) hi) as [NF|FULL].
        * rewrite maybe_split_notfull by assumption. cbn [n_ch n_its n_idx].
          replace (nth_error (C1 ++ c :: C2) (length I1)) with (Some c) by (rewrite <- L1; symmetry; apply nth_error_mid).
          destruct (insert_down x h f I1 I2 C1 c C2 IH L1 L2 F1 F2 Hs HP HQ ltac:(lia) NF) as (c' & out & E & B' & EL).
          rewrite E. rewrite <- L1, replace_nth_mid.
          eexists. exists out. split; [reflexivity|]. split; [exact B'|]. split.
          -- rewrite EL. f_equal. symmetry. apply flatten_at_child; assumption.
          -- cbn [n_its]. lia.
        * assert (Hc : length (n_its c) = hi) by lia.
          destruct (maybe_split_full h I1 I2 C1 c C2 L1 L2 Bc Hc) as (m & l & r & EM & FC & Bl & Br & Ll & Lr).
          rewrite EM. cbn [n_its n_ch n_idx]. rewrite nth_error_mid.
          rewrite FC in Hs. rewrite <- !app_assoc in Hs. cbn [app] in Hs.
          assert (F1' : Forall (binv h) (C1 ++ l :: r :: C2)).
          { apply Forall_app in F1 as [Fa Fb]. inversion Fb; subst. apply Forall_app. split; [exact Fa|]. repeat constructor; assumption. }
          assert (F2' : Forall (fun c0 => lo <= length (n_its c0) <= hi)%nat (C1 ++ l :: r :: C2)).
          { apply Forall_app in F2 as [Fa Fb]. inversion Fb; subst. apply Forall_app. split; [exact Fa|]. repeat constructor; try assumption; lia. }
          assert (FLN : zipl I1 C1 ++ flatten c ++ zipr I2 C2 =
                        zipl I1 C1 ++ flatten l ++ m :: flatten r ++ zipr I2 C2).
          { rewrite FC, <- !app_assoc. reflexivity. }
          (* m sits between l and r *)
          assert (HM : all_lt (zipl I1 C1 ++ flatten l) m /\ lt_all m (flatten r ++ zipr I2 C2)).
          { rewrite app_assoc in Hs. destruct (sorted_mid ltb _ _ _ Hs) as (A1 & A2 & _ & _). split; assumption. }
          destruct HM as [HM1 HM2].
          destruct (ltb x m) eqn:XM.
          -- (* first half *)
             replace (nth_error (C1 ++ l :: r :: C2) (length I1)) with (Some l) by (rewrite <- L1; symmetry; apply nth_error_mid).
             assert (HQ' : lt_all x (zipr (m :: I2) (r :: C2))).
             { cbn [zipr]. apply lt_all_cons. split; [exact XM|]. eapply lt_all_trans; eauto. }
             destruct (insert_down x h f I1 (m :: I2) C1 l (r :: C2) IH L1 ltac:(cbn; lia) F1' F2'
                         ltac:(cbn [zipr]; exact Hs) HP HQ' ltac:(lia) ltac:(lia)) as (c' & out & E & B' & EL).
             rewrite E. rewrite <- L1, replace_nth_mid.
             eexists. exists out. split; [reflexivity|]. split; [exact B'|]. split.
             ++ rewrite FLN. cbn [zipr] in EL. rewrite EL. f_equal. symmetry.
                rewrite (flatten_at_child I1 (m :: I2) C1 c' (r :: C2) _ L1 ltac:(cbn; lia)). reflexivity.
             ++ cbn [n_its]. rewrite !app_length in *. cbn [length]. lia.
          -- destruct (ltb m x) eqn:MX.
             ++ (* second half *)
                replace (nth_error (C1 ++ l :: r :: C2) (S (length I1))) with (Some r).
                2:{ replace (C1 ++ l :: r :: C2) with ((C1 ++ [l]) ++ r :: C2) by (rewrite <- app_assoc; reflexivity).
                    replace (S (length I1)) with (length (C1 ++ [l])) by (rewrite app_length; cbn; lia). symmetry. apply nth_error_mid. }
                assert (HP' : all_lt (zipl (I1 ++ [m]) (C1 ++ [l])) x).
                { rewrite zipl_snoc by exact L1. rewrite app_assoc. apply all_lt_app. split; [eapply all_lt_trans; eauto|].
                  apply all_lt_cons. split; [exact MX|apply all_lt_nil]. }
                assert (Hs' : sorted (zipl (I1 ++ [m]) (C1 ++ [l]) ++ flatten r ++ zipr I2 C2)).
                { rewrite zipl_snoc by exact L1. rewrite <- !app_assoc. cbn [app]. exact Hs. }
                assert (F1'' : Forall (binv h) ((C1 ++ [l]) ++ r :: C2)) by (rewrite <- app_assoc; exact F1').
                assert (F2'' : Forall (fun c0 => lo <= length (n_its c0) <= hi)%nat ((C1 ++ [l]) ++ r :: C2)) by (rewrite <- app_assoc; exact F2').
                destruct (insert_down x h f (I1 ++ [m]) I2 (C1 ++ [l]) r C2 IH ltac:(rewrite !app_length; cbn; lia) L2 F1'' F2''
                            Hs' HP' HQ ltac:(lia) ltac:(lia)) as (c' & out & E & B' & EL).
                rewrite E.
                replace (C1 ++ l :: r :: C2) with ((C1 ++ [l]) ++ r :: C2) by (rewrite <- app_assoc; reflexivity).
                replace (S (length I1)) with (length (C1 ++ [l])) by (rewrite app_length; cbn; lia).
                rewrite replace_nth_mid.
                replace (I1 ++ m :: I2) with ((I1 ++ [m]) ++ I2) by (rewrite <- app_assoc; reflexivity).
                eexists. exists out. split; [reflexivity|]. split; [exact B'|]. split.
                ** rewrite FLN. rewrite zipl_snoc in EL by exact L1. rewrite <- !app_assoc in EL. cbn [app] in EL. rewrite EL. f_equal.
                   symmetry. rewrite (flatten_at_child (I1 ++ [m]) I2 (C1 ++ [l]) c' C2 _ ltac:(rewrite !app_length; cbn; lia) L2).
                   rewrite zipl_snoc by exact L1. rewrite <- !app_assoc. reflexivity.
                ** cbn [n_its]. rewrite !app_length in *. cbn [length]. lia.
             ++ (* the median is equivalent to x: replaced in place *)
                assert (EQ : eqv x m) by (split; assumption).
                rewrite replace_nth_mid.
                eexists. exists (Some m). split; [reflexivity|]. split.
                ** apply binv_node; [rewrite !app_length in *; cbn [length] in *; lia|exact F1'|exact F2'].
                ** split.
                   --- rewrite FLN.
                       rewrite (flatten_at_item I1 x I2 C1 l (r :: C2) _ L1 ltac:(cbn; lia)).
                       rewrite inter_cons by exact L2.
                       replace (zipl I1 C1 ++ flatten l ++ m :: flatten r ++ zipr I2 C2)
                         with ((zipl I1 C1 ++ flatten l) ++ [m] ++ (flatten r ++ zipr I2 C2)) by (rewrite <- !app_assoc; reflexivity).
                       replace (zipl I1 C1 ++ flatten l ++ x :: flatten r ++ zipr I2 C2)
                         with ((zipl I1 C1 ++ flatten l) ++ [x] ++ (flatten r ++ zipr I2 C2)) by (rewrite <- !app_assoc; reflexivity).
                       apply (l0_insert_comp ltb lt_irrefl lt_trans); [eapply all_lt_eqv; eauto|eapply lt_all_eqv; eauto|apply l0_insert_one_eqv, EQ].
                   --- cbn [n_its]. rewrite !app_length in *. cbn [length]. lia.
      + (* found in this node: replaced in place *)
        destruct ch as [|c00 cs00] eqn:ECH; [discriminate|]. rewrite <- ECH in *. clear ECH c00 cs00.
        rewrite replace_nth_mid, nth_error_mid. rewrite app_length in L. cbn [length] in L.
        destruct (item_view2 I1 I2 ch ltac:(lia)) as (P' & Q' & FV).
        destruct ch as [|c00 cs00] eqn:ECH; [discriminate|]. rewrite <- ECH in *. clear ECH c00 cs00.
        eexists. exists (Some y). split; [reflexivity|]. split.
        * apply binv_node; [rewrite app_length; cbn [length]; lia|exact F1|exact F2].
        * rewrite !FV in *. destruct (sorted_mid ltb _ _ _ Hs) as (A1 & A2 & _ & _). split.
          -- change (P' ++ y :: Q') with (P' ++ [y] ++ Q'). change (P' ++ x :: Q') with (P' ++ [x] ++ Q').
             apply (l0_insert_comp ltb lt_irrefl lt_trans); [eapply all_lt_eqv; eauto|eapply lt_all_eqv; eauto|apply l0_insert_one_eqv, EQ].
          -- cbn [n_its]. rewrite !app_length in *. cbn [length] in *. lia.
  Qed.

  (* ---------------------------------------------------------------------------------------- *)
  (* Delete: growChildAndRemove keeps the in-order walk and the invariant                        *)
  Lemma upd_nth_mid (l1 : list Z) v l2 f : upd_nth (length l1) f (l1 ++ v :: l2) = l1 ++ f v :: l2.
  Proof. induction l1 as [|a l1 IH]; cbn; [reflexivity|]. rewrite IH. reflexivity. Qed.

  (* moving d elements from child p to child p+1 (d may be negative): only indices[p] changes *)
  Lemma idx_shift (a : list Z) s1 s2 b d :
    upd_nth (length a) (fun v => v - d)%Z (idx_of (a ++ s1 :: s2 :: b)) = idx_of (a ++ (s1 - d)%Z :: (s2 + d)%Z :: b).
  Proof.
    unfold idx_of. rewrite !idx_from_app. cbn [idx_from]. rewrite <- (idx_from_length 0 a) at 1. rewrite upd_nth_mid.
    f_equal. f_equal; [lia|]. f_equal; [lia|]. f_equal. lia.
  Qed.

  Lemma upd_nth_twice i f g (l : list Z) : upd_nth i g (upd_nth i f l) = upd_nth i (fun v => g (f v)) l.
  Proof. revert i. induction l as [|a l IH]; intros [|i]; cbn; try reflexivity. rewrite IH. reflexivity. Qed.

  Lemma upd_nth_ext i f g (l : list Z) : (forall v, f v = g v) -> upd_nth i f l = upd_nth i g l.
  Proof. intros H. revert i. induction l as [|a l IH]; intros [|i]; cbn; try reflexivity; [rewrite H|rewrite IH]; reflexivity. Qed.

  Lemma removelast_snoc {X} (l : list X) x : removelast (l ++ [x]) = l.
  Proof. apply removelast_last. Qed.

  (* an internal node seen from its last item / last child *)
  Lemma inter_snoc I i C c : length C = S (length I) ->
    inter (I ++ [i]) (C ++ [c]) = inter I C ++ i :: flatten c.
  Proof.
    revert C. induction I as [|j I IH]; intros C L.
    - destruct C as [|c0 [|c1 C']]; try discriminate. cbn. reflexivity.
    - destruct C as [|c0 C']; [discriminate|]. cbn in L. destruct C' as [|c1 C'']; [discriminate|].
      change (inter ((j :: I) ++ [i]) ((c0 :: c1 :: C'') ++ [c])) with (flatten c0 ++ j :: inter (I ++ [i]) ((c1 :: C'') ++ [c])).
      rewrite IH by (cbn in L |- *; lia). change (inter (j :: I) (c0 :: c1 :: C'')) with (flatten c0 ++ j :: inter I (c1 :: C'')).
      rewrite <- app_assoc. reflexivity.
  Qed.

  Lemma flatten_inter its ch idx : ch <> [] -> flatten (Node its ch idx) = inter its ch.
  Proof. destruct ch; [contradiction|reflexivity]. Qed.

  (* the two neighbours around separator number |I1| *)
  Lemma flatten_at_sep (I1 : list A) sep I2 C1 cl cr C2 idx : length C1 = length I1 -> length C2 = length I2 ->
    flatten (Node (I1 ++ sep :: I2) (C1 ++ cl :: cr :: C2) idx) = zipl I1 C1 ++ flatten cl ++ sep :: flatten cr ++ zipr I2 C2.
  Proof.
    intros L1 L2. rewrite (flatten_at_item I1 sep I2 C1 cl (cr :: C2) idx L1 ltac:(cbn; lia)).
    rewrite inter_cons by exact L2. reflexivity.
  Qed.

  Lemma binv_two h (I1 I2 : list A) C1 cl cr C2 cl' cr' (sep' : A) :
    length C1 = length I1 -> length C2 = length I2 ->
    Forall (binv h) (C1 ++ cl :: cr :: C2) -> Forall (fun c0 => lo <= length (n_its c0) <= hi)%nat (C1 ++ cl :: cr :: C2) ->
    binv h cl' -> binv h cr' -> (lo <= length (n_its cl') <= hi)%nat -> (lo <= length (n_its cr') <= hi)%nat ->
    binv (S h) (Node (I1 ++ sep' :: I2) (C1 ++ cl' :: cr' :: C2) (idx_of (map fsize (C1 ++ cl' :: cr' :: C2)))).
  Proof.
    intros L1 L2 F1 F2 Bl Br Hl Hr. apply binv_node.
    - rewrite !app_length. cbn. lia.
    - apply Forall_app in F1 as [Fa Fb]. inversion Fb as [|? ? _ Fc]; subst. inversion Fc; subst.
      apply Forall_app. split; [exact Fa|]. repeat constructor; assumption.
    - apply Forall_app in F2 as [Fa Fb]. inversion Fb as [|? ? _ Fc]; subst. inversion Fc; subst.
      apply Forall_app. split; [exact Fa|]. constructor; [exact Hl|constructor; [exact Hr|assumption]].
  Qed.

  Lemma fsize_app_eq (n1 : node) (L1 : list A) : flatten n1 = L1 -> fsize n1 = Z.of_nat (length L1).
  Proof. intros E. unfold fsize. rewrite E. reflexivity. Qed.

  (* steal from the left sibling *)
  Lemma steal_left_spec h (I1 : list A) sep I2 C1 lft c C2 :
    length C1 = length I1 -> length C2 = length I2 ->
    Forall (binv h) (C1 ++ lft :: c :: C2) -> Forall (fun c0 => lo <= length (n_its c0) <= hi)%nat (C1 ++ lft :: c :: C2) ->
    (lo < length (n_its lft))%nat -> length (n_its c) = lo ->
    exists stolen lft' c',
      grow_child (Node (I1 ++ sep :: I2) (C1 ++ lft :: c :: C2) (idx_of (map fsize (C1 ++ lft :: c :: C2)))) (S (length I1)) lo
        = Some (Node (I1 ++ stolen :: I2) (C1 ++ lft' :: c' :: C2) (idx_of (map fsize (C1 ++ lft' :: c' :: C2)))) /\
      (exists M, flatten lft = flatten lft' ++ stolen :: M /\ flatten c' = M ++ sep :: flatten c) /\
      binv h lft' /\ binv h c' /\ (lo <= length (n_its lft') <= hi)%nat /\ length (n_its c') = S lo.
  Proof.
    intros L1 L2 F1 F2 Big Small.
    assert (Bl : binv h lft) by (apply Forall_app in F1 as [_ F1']; inversion F1'; assumption).
    assert (Bc : binv h c) by (apply Forall_app in F1 as [_ F1']; inversion F1' as [|? ? _ F1'']; inversion F1''; assumption).
    assert (Hl : (lo <= length (n_its lft) <= hi)%nat) by (apply Forall_app in F2 as [_ F2']; inversion F2'; assumption).
    unfold grow_child. cbn [n_its n_ch n_idx].
    replace (nth_error (C1 ++ lft :: c :: C2) (length I1)) with (Some lft) by (rewrite <- L1; symmetry; apply nth_error_mid).
    replace (Nat.ltb lo (length (n_its lft))) with true by (symmetry; apply Nat.ltb_lt; exact Big).
    replace (nth_error (C1 ++ lft :: c :: C2) (S (length I1))) with (Some c).
    2:{ replace (C1 ++ lft :: c :: C2) with ((C1 ++ [lft]) ++ c :: C2) by (rewrite <- app_assoc; reflexivity).
        replace (S (length I1)) with (length (C1 ++ [lft])) by (rewrite app_length; cbn; lia). symmetry. apply nth_error_mid. }
    rewrite nth_error_mid.
    destruct (exists_last_or_nil (n_its lft)) as [E|(LI & stolen & ELI)]; [rewrite E in Big; cbn in Big; lia|].
    unfold last_opt at 1. rewrite ELI, rev_app_distr. cbn [rev app]. rewrite removelast_snoc.
    rewrite replace_nth_mid.
    assert (RN : forall X Y, replace_nth (S (length I1)) X (replace_nth (length I1) Y (C1 ++ lft :: c :: C2)) = C1 ++ Y :: X :: C2).
    { intros X Y. rewrite <- L1, replace_nth_mid.
      replace (C1 ++ Y :: c :: C2) with ((C1 ++ [Y]) ++ c :: C2) by (rewrite <- app_assoc; reflexivity).
      replace (S (length C1)) with (length (C1 ++ [Y])) by (rewrite app_length; cbn; lia).
      rewrite replace_nth_mid, <- app_assoc. reflexivity. }
    rewrite ELI in Big, Hl. rewrite app_length in Big, Hl. cbn [length] in Big, Hl.
    inversion Bl as [lits|h' lits lch LL LF1 LF2]; subst; cbn [n_its n_ch n_idx] in *.
    - (* leaves *)
      inversion Bc as [cits|]; subst. cbn [n_its n_ch n_idx] in *. try subst lits.
      rewrite RN. exists stolen, (Node LI [] []), (Node (sep :: cits) [] []). split; [|split; [|split; [|split; [|split]]]].
      + f_equal. f_equal. rewrite !map_app. cbn [map]. rewrite <- L1, <- (map_length fsize C1).
        rewrite (idx_shift (map fsize C1) _ _ (map fsize C2) 1). f_equal. f_equal.
        unfold fsize. cbn. rewrite app_length. cbn. f_equal; [lia|f_equal; lia].
      + exists []. cbn. split; reflexivity.
      + apply binv_leaf.
      + apply binv_leaf.
      + cbn. lia.
      + cbn. lia.
    - (* internal nodes: the last child of the left sibling moves over as well *)
      inversion Bc as [|h'' cits cch CL CF1 CF2]; subst. cbn [n_its n_ch n_idx] in *. try subst lits.
      destruct (exists_last_or_nil lch) as [->|(LC & moved & ->)]; [discriminate|].
      rewrite !app_length in LL. cbn [length] in LL.
      assert (LCne : LC <> []) by (destruct LC; [cbn in LL; lia|discriminate]).
      assert (CCne : cch <> []) by (destruct cch; [discriminate|discriminate]).
      apply Forall_app in LF1 as [LF1a LF1b]. apply Forall_app in LF2 as [LF2a LF2b]. inversion LF1b; subst. inversion LF2b; subst.
      set (lft' := Node LI LC (idx_of (map fsize LC))).
      set (c' := Node (sep :: cits) (moved :: cch) (idx_of (map fsize (moved :: cch)))).
      assert (FLl : flatten (Node (LI ++ [stolen]) (LC ++ [moved]) (idx_of (map fsize (LC ++ [moved])))) = flatten lft' ++ stolen :: flatten moved).
      { rewrite flatten_inter by (destruct LC; discriminate). rewrite inter_snoc by lia. unfold lft'. rewrite flatten_inter by exact LCne. reflexivity. }
      assert (FLc : flatten c' = flatten moved ++ sep :: flatten (Node cits cch (idx_of (map fsize cch)))).
      { unfold c'. rewrite flatten_node. rewrite (flatten_inter cits cch _ CCne).
        destruct cch as [|c1 cr]; [contradiction|]. reflexivity. }
      destruct (LC ++ [moved]) as [|l0 lr] eqn:ELC; [destruct LC; discriminate|]. rewrite <- ELC in *. clear ELC l0 lr.
      unfold last_opt. rewrite rev_app_distr. cbn [rev app]. rewrite removelast_snoc.
      replace (ix_pop (idx_of (map fsize (LC ++ [moved])))) with (fsize moved, idx_of (map fsize LC))
        by (rewrite map_app; cbn [map]; symmetry; apply pop_spec).
      rewrite RN.
      exists stolen, lft', c'. split; [|split; [|split; [|split; [|split]]]].
      + f_equal. unfold lft', c'. f_equal.
        * f_equal. f_equal. f_equal. f_equal. cbn [map]. exact (insert_at_spec [] (map fsize cch) (fsize moved)).
        * rewrite upd_nth_twice. fold lft'. fold c'.
          set (lftN := Node (LI ++ [stolen]) (LC ++ [moved]) (idx_of (map fsize (LC ++ [moved])))) in *.
          set (cN := Node cits cch (idx_of (map fsize cch))) in *.
          rewrite !map_app. cbn [map]. rewrite <- L1, <- (map_length fsize C1).
          rewrite (upd_nth_ext _ _ (fun v => v - (1 + fsize moved))%Z) by (intros v; lia).
          rewrite (idx_shift (map fsize C1) _ _ (map fsize C2) (1 + fsize moved)). f_equal. f_equal.
          rewrite (fsize_app_eq _ _ FLl), (fsize_app_eq _ _ FLc). unfold fsize. rewrite !app_length. cbn [length].
          f_equal; [lia|f_equal; lia].
      + exists (flatten moved). split; [exact FLl|exact FLc].
      + unfold lft'. apply binv_node; [lia|exact LF1a|exact LF2a].
      + unfold c'. apply binv_node; [cbn; lia|constructor; assumption|constructor; assumption].
      + unfold lft'. cbn. lia.
      + unfold c'. cbn. lia.
  Qed.

  (* steal from the right sibling *)
  Lemma steal_right_spec h (I1 : list A) sep I2 C1 c rgt C2 :
    length C1 = length I1 -> length C2 = length I2 ->
    Forall (binv h) (C1 ++ c :: rgt :: C2) -> Forall (fun c0 => lo <= length (n_its c0) <= hi)%nat (C1 ++ c :: rgt :: C2) ->
    (match length I1 with
     | O => false
     | S p => match nth_error (C1 ++ c :: rgt :: C2) p with Some l => Nat.ltb lo (length (n_its l)) | None => false end
     end) = false ->
    (lo < length (n_its rgt))%nat -> length (n_its c) = lo ->
    exists stolen c' rgt',
      grow_child (Node (I1 ++ sep :: I2) (C1 ++ c :: rgt :: C2) (idx_of (map fsize (C1 ++ c :: rgt :: C2)))) (length I1) lo
        = Some (Node (I1 ++ stolen :: I2) (C1 ++ c' :: rgt' :: C2) (idx_of (map fsize (C1 ++ c' :: rgt' :: C2)))) /\
      (exists M, flatten rgt = M ++ stolen :: flatten rgt' /\ flatten c' = flatten c ++ sep :: M) /\
      binv h c' /\ binv h rgt' /\ length (n_its c') = S lo /\ (lo <= length (n_its rgt') <= hi)%nat.
  Proof.
    intros L1 L2 F1 F2 LB Big Small.
    assert (Bc : binv h c) by (apply Forall_app in F1 as [_ F1']; inversion F1'; assumption).
    assert (Br : binv h rgt) by (apply Forall_app in F1 as [_ F1']; inversion F1' as [|? ? _ F1'']; inversion F1''; assumption).
    assert (Hr : (lo <= length (n_its rgt) <= hi)%nat) by (apply Forall_app in F2 as [_ F2']; inversion F2' as [|? ? _ F2'']; inversion F2''; assumption).
    unfold grow_child. cbn [n_its n_ch n_idx]. rewrite LB.
    replace (nth_error (C1 ++ c :: rgt :: C2) (S (length I1))) with (Some rgt).
    2:{ replace (C1 ++ c :: rgt :: C2) with ((C1 ++ [c]) ++ rgt :: C2) by (rewrite <- app_assoc; reflexivity).
        replace (S (length I1)) with (length (C1 ++ [c])) by (rewrite app_length; cbn; lia). symmetry. apply nth_error_mid. }
    replace (Nat.ltb (length I1) (length (I1 ++ sep :: I2))) with true by (symmetry; apply Nat.ltb_lt; rewrite app_length; cbn; lia).
    replace (Nat.ltb lo (length (n_its rgt))) with true by (symmetry; apply Nat.ltb_lt; exact Big). cbn [andb].
    replace (nth_error (C1 ++ c :: rgt :: C2) (length I1)) with (Some c) by (rewrite <- L1; symmetry; apply nth_error_mid).
    rewrite nth_error_mid.
    destruct (n_its rgt) as [|stolen RI] eqn:ERI; [cbn in Big; lia|]. cbn [length] in Big, Hr.
    rewrite replace_nth_mid.
    assert (RN : forall X Y, replace_nth (S (length I1)) X (replace_nth (length I1) Y (C1 ++ c :: rgt :: C2)) = C1 ++ Y :: X :: C2).
    { intros X Y. rewrite <- L1, replace_nth_mid.
      replace (C1 ++ Y :: rgt :: C2) with ((C1 ++ [Y]) ++ rgt :: C2) by (rewrite <- app_assoc; reflexivity).
      replace (S (length C1)) with (length (C1 ++ [Y])) by (rewrite app_length; cbn; lia).
      rewrite replace_nth_mid, <- app_assoc. reflexivity. }
    inversion Br as [rits|h' rits rch RL RF1 RF2]; subst; cbn [n_its n_ch n_idx] in *.
    - (* leaves *)
      inversion Bc as [cits|]; subst. cbn [n_its n_ch n_idx] in *. try subst rits.
      rewrite RN. exists stolen, (Node (cits ++ [sep]) [] []), (Node RI [] []). split; [|split; [|split; [|split; [|split]]]].
      + f_equal. f_equal. rewrite !map_app. cbn [map]. rewrite <- L1, <- (map_length fsize C1).
        rewrite (upd_nth_ext _ _ (fun v => v - (-1))%Z) by (intros v; lia).
        rewrite (idx_shift (map fsize C1) _ _ (map fsize C2) (-1)). f_equal. f_equal.
        unfold fsize. rewrite !flatten_leaf, app_length. cbn [length]. f_equal; [lia|f_equal; lia].
      + exists []. cbn. split; reflexivity.
      + apply binv_leaf.
      + apply binv_leaf.
      + cbn. rewrite app_length. cbn. lia.
      + cbn. lia.
    - (* internal nodes: the first child of the right sibling moves over as well *)
      inversion Bc as [|h'' cits cch CL CF1 CF2]; subst. cbn [n_its n_ch n_idx] in *. try subst rits.
      destruct rch as [|moved RC]; [discriminate|]. cbn [length] in RL.
      assert (RCne : RC <> []) by (destruct RC; [cbn in RL; lia|discriminate]).
      assert (CCne : cch <> []) by (destruct cch; [discriminate|discriminate]).
      inversion RF1; subst. inversion RF2; subst.
      set (c' := Node (cits ++ [sep]) (cch ++ [moved]) (idx_of (map fsize (cch ++ [moved])))).
      set (rgt' := Node RI RC (idx_of (map fsize RC))).
      assert (FLr : flatten (Node (stolen :: RI) (moved :: RC) (idx_of (map fsize (moved :: RC)))) = flatten moved ++ stolen :: flatten rgt').
      { rewrite flatten_node. unfold rgt'. rewrite (flatten_inter RI RC _ RCne). destruct RC; [contradiction|]. reflexivity. }
      assert (FLc : flatten c' = flatten (Node cits cch (idx_of (map fsize cch))) ++ sep :: flatten moved).
      { unfold c'. rewrite flatten_inter by (destruct cch; discriminate). rewrite inter_snoc by lia. rewrite (flatten_inter cits cch _ CCne). reflexivity. }
      replace (ix_remove_at 0 (idx_of (map fsize (moved :: RC)))) with (fsize moved, idx_of (map fsize RC))
        by (cbn [map]; symmetry; apply (remove_at_spec [] (fsize moved) (map fsize RC))).
      rewrite RN.
      exists stolen, c', rgt'. split; [|split; [|split; [|split; [|split]]]].
      + f_equal. unfold c', rgt'. f_equal.
        * f_equal. f_equal. f_equal. rewrite map_app. cbn [map]. apply push_spec.
        * rewrite upd_nth_twice. fold c'. fold rgt'.
          set (rgtN := Node (stolen :: RI) (moved :: RC) (idx_of (map fsize (moved :: RC)))) in *.
          set (cN := Node cits cch (idx_of (map fsize cch))) in *.
          rewrite !map_app. cbn [map]. rewrite <- L1, <- (map_length fsize C1).
          rewrite (upd_nth_ext _ _ (fun v => v - (- (1 + fsize moved)))%Z) by (intros v; lia).
          rewrite (idx_shift (map fsize C1) _ _ (map fsize C2) (- (1 + fsize moved))). f_equal. f_equal.
          rewrite (fsize_app_eq _ _ FLr), (fsize_app_eq _ _ FLc). unfold fsize. rewrite !app_length. cbn [length].
          f_equal; [lia|f_equal; lia].
      + exists (flatten moved). split; [exact FLr|exact FLc].
      + unfold c'. apply binv_node; [rewrite !app_length; cbn; lia|apply Forall_app; split; [exact CF1|constructor; [assumption|constructor]]|
                                    apply Forall_app; split; [exact CF2|constructor; [assumption|constructor]]].
      + unfold rgt'. apply binv_node; [lia|assumption|assumption].
      + unfold c'. cbn. rewrite app_length. cbn. lia.
      + unfold rgt'. cbn. lia.
  Qed.

  Lemma fold_push h RC : Forall (binv h) RC -> forall a,
    fold_left (fun s nn => ix_push (nlen nn) s) RC (idx_of a) = idx_of (a ++ map fsize RC).
  Proof.
    induction RC as [|c RC IH]; intros F a; cbn [fold_left map]; [rewrite app_nil_r; reflexivity|].
    inversion F; subst. rewrite (nlen_binv _ _ ltac:(eassumption)), push_spec, IH by assumption. rewrite <- app_assoc. reflexivity.
  Qed.

  Lemma inter_merge LI sep RI LC RC : length LC = S (length LI) -> RC <> [] ->
    inter (LI ++ sep :: RI) (LC ++ RC) = inter LI LC ++ sep :: inter RI RC.
  Proof.
    intros L NE. destruct (exists_last_or_nil LC) as [->|(LC0 & lcl & ->)]; [discriminate|].
    rewrite app_length in L. cbn in L. rewrite <- app_assoc. cbn [app].
    rewrite inter_app by (lia || discriminate).
    replace LI with (LI ++ []) at 2 by apply app_nil_r. rewrite inter_app by (lia || discriminate).
    cbn [inter]. destruct RC as [|r0 RC']; [contradiction|]. rewrite <- app_assoc. reflexivity.
  Qed.

  (* merge child number |I1| with its right sibling *)
  Lemma merge_spec_node h (I1 : list A) sep I2 C1 cl cr C2 i :
    length C1 = length I1 -> length C2 = length I2 ->
    Forall (binv h) (C1 ++ cl :: cr :: C2) -> Forall (fun c0 => lo <= length (n_its c0) <= hi)%nat (C1 ++ cl :: cr :: C2) ->
    length (n_its cl) = lo -> length (n_its cr) = lo ->
    (match i with
     | O => false
     | S p => match nth_error (C1 ++ cl :: cr :: C2) p with Some l => Nat.ltb lo (length (n_its l)) | None => false end
     end) = false ->
    (Nat.ltb i (length (I1 ++ sep :: I2)) &&
     match nth_error (C1 ++ cl :: cr :: C2) (S i) with Some r => Nat.ltb lo (length (n_its r)) | None => false end) = false ->
    (if Nat.leb (length (I1 ++ sep :: I2)) i then Nat.pred i else i) = length I1 ->
    exists merged,
      grow_child (Node (I1 ++ sep :: I2) (C1 ++ cl :: cr :: C2) (idx_of (map fsize (C1 ++ cl :: cr :: C2)))) i lo
        = Some (Node (I1 ++ I2) (C1 ++ merged :: C2) (idx_of (map fsize (C1 ++ merged :: C2)))) /\
      flatten merged = flatten cl ++ sep :: flatten cr /\ binv h merged /\ length (n_its merged) = hi.
  Proof.
    intros L1 L2 F1 F2 Sl Sr LB RB EI.
    assert (Bl : binv h cl) by (apply Forall_app in F1 as [_ F1']; inversion F1'; assumption).
    assert (Br : binv h cr) by (apply Forall_app in F1 as [_ F1']; inversion F1' as [|? ? _ F1'']; inversion F1''; assumption).
    unfold grow_child. cbn [n_its n_ch n_idx]. rewrite LB, RB, EI.
    replace (nth_error (C1 ++ cl :: cr :: C2) (length I1)) with (Some cl) by (rewrite <- L1; symmetry; apply nth_error_mid).
    replace (nth_error (C1 ++ cl :: cr :: C2) (S (length I1))) with (Some cr).
    2:{ replace (C1 ++ cl :: cr :: C2) with ((C1 ++ [cl]) ++ cr :: C2) by (rewrite <- app_assoc; reflexivity).
        replace (S (length I1)) with (length (C1 ++ [cl])) by (rewrite app_length; cbn; lia). symmetry. apply nth_error_mid. }
    rewrite nth_error_mid, remove_nth_mid.
    set (merged := Node (n_its cl ++ sep :: n_its cr) (n_ch cl ++ n_ch cr)
                        (fold_left (fun s nn => ix_push (nlen nn) s) (n_ch cr) (n_idx cl))).
    assert (RM : remove_nth (S (length I1)) (replace_nth (length I1) merged (C1 ++ cl :: cr :: C2)) = C1 ++ merged :: C2).
    { rewrite <- L1, replace_nth_mid.
      replace (C1 ++ merged :: cr :: C2) with ((C1 ++ [merged]) ++ cr :: C2) by (rewrite <- app_assoc; reflexivity).
      replace (S (length C1)) with (length (C1 ++ [merged])) by (rewrite app_length; cbn; lia).
      rewrite remove_nth_mid, <- app_assoc. reflexivity. }
    rewrite RM.
    assert (MS : flatten merged = flatten cl ++ sep :: flatten cr /\ binv h merged /\
                 merged = Node (n_its cl ++ sep :: n_its cr) (n_ch cl ++ n_ch cr) (idx_of (map fsize (n_ch cl ++ n_ch cr)))).
    { inversion Bl as [lits|h' lits lch LL LF1 LF2]; subst; cbn [n_its n_ch n_idx] in *.
      - inversion Br as [rits|]; subst. unfold merged. cbn. split; [reflexivity|]. split; [apply binv_leaf|reflexivity].
      - inversion Br as [|h'' rits rch RL RF1 RF2]; subst. cbn [n_its n_ch n_idx] in *.
        assert (EIDX : fold_left (fun s nn => ix_push (nlen nn) s) rch (idx_of (map fsize lch)) = idx_of (map fsize (lch ++ rch))).
        { rewrite (fold_push _ _ RF1), map_app. reflexivity. }
        unfold merged. cbn [n_its n_ch n_idx]. rewrite EIDX. split; [|split; [|reflexivity]].
        + rewrite flatten_inter by (destruct lch; discriminate). rewrite inter_merge by (auto; destruct rch; discriminate).
          rewrite !flatten_inter by (destruct lch, rch; discriminate). reflexivity.
        + apply binv_node; [rewrite !app_length; cbn [length]; lia|apply Forall_app; split; assumption|apply Forall_app; split; assumption]. }
    destruct MS as (FM & BM & EM).
    exists merged. split; [|split; [exact FM|split; [exact BM|]]].
    - f_equal. f_equal. rewrite !map_app. cbn [map]. rewrite <- L1, <- (map_length fsize C1), merge_spec. f_equal. f_equal. f_equal.
      rewrite (fsize_app_eq _ _ FM). unfold fsize. rewrite app_length. cbn [length]. lia.
    - unfold merged. cbn [n_its]. rewrite app_length. cbn [length]. lia.
  Qed.

  (* ---------------------------------------------------------------------------------------- *)
  (* node.remove                                                                                *)
  (* the result of items.find is determined by the order facts *)
  Lemma items_find_no its x J1 J2 : sorted its -> its = J1 ++ J2 -> all_lt J1 x -> lt_all x J2 ->
    items_find ltb its x = (length J1, false).
  Proof.
    intros Hs E H1 H2. destruct (items_find_spec its x Hs) as [K1 K2 EK G1 G2|K1 y K2 EK G1 EQ G2].
    - f_equal. rewrite E in EK.
      destruct (Nat.lt_trichotomy (length K1) (length J1)) as [LT|[EQL|GT]]; [exfalso| exact EQL |exfalso].
      + (* element number |K1| is in J1 (below x) and in K2 (above x) *)
        assert (exists z, nth_error (J1 ++ J2) (length K1) = Some z) as [z Hz].
        { destruct (nth_error (J1 ++ J2) (length K1)) eqn:N; [eauto|]. apply nth_error_None in N. rewrite app_length in N. lia. }
        assert (In z J1) by (rewrite nth_error_app1 in Hz by lia; eapply nth_error_In; eauto).
        rewrite EK in Hz. rewrite nth_error_app2 in Hz by lia. rewrite Nat.sub_diag in Hz.
        destruct K2 as [|k K2']; [discriminate|]. cbn in Hz. inversion Hz; subst.
        pose proof (H1 z H) as A1. pose proof (G2 z (or_introl eq_refl)) as A2.
        pose proof (lt_asym ltb lt_irrefl lt_trans _ _ A1) as A3. unfold C07_BTreeOrder.lt in A2. congruence.
      + assert (exists z, nth_error (K1 ++ K2) (length J1) = Some z) as [z Hz].
        { destruct (nth_error (K1 ++ K2) (length J1)) eqn:N; [eauto|]. apply nth_error_None in N. rewrite app_length in N. lia. }
        assert (In z K1) by (rewrite nth_error_app1 in Hz by lia; eapply nth_error_In; eauto).
        rewrite <- EK in Hz. rewrite nth_error_app2 in Hz by lia. rewrite Nat.sub_diag in Hz.
        destruct J2 as [|k J2']; [discriminate|]. cbn in Hz. inversion Hz; subst.
        pose proof (G1 z H) as A1. pose proof (H2 z (or_introl eq_refl)) as A2.
        pose proof (lt_asym ltb lt_irrefl lt_trans _ _ A1) as A3. unfold C07_BTreeOrder.lt in A2. congruence.
    - exfalso. rewrite E in EK.
      assert (Hy : In y (J1 ++ J2)) by (rewrite EK; apply in_or_app; right; left; reflexivity).
      apply in_app_or in Hy as [Hy|Hy].
      + pose proof (H1 y Hy) as AA. destruct EQ as [_ E2]. unfold C07_BTreeOrder.lt in AA. congruence.
      + pose proof (H2 y Hy) as AA. destruct EQ as [E1 _]. unfold C07_BTreeOrder.lt in AA. congruence.
  Qed.

  Lemma items_find_yes its x J1 y J2 : sorted its -> its = J1 ++ y :: J2 -> eqv x y ->
    items_find ltb its x = (length J1, true).
  Proof.
    intros Hs E EQ. destruct (items_find_spec its x Hs) as [K1 K2 EK G1 G2|K1 y' K2 EK G1 EQ' G2].
    - exfalso. assert (Hy : In y (K1 ++ K2)) by (rewrite <- EK, E; apply in_or_app; right; left; reflexivity).
      apply in_app_or in Hy as [Hy|Hy].
      + pose proof (G1 y Hy) as AA. destruct EQ as [_ E2]. unfold C07_BTreeOrder.lt in AA. congruence.
      + pose proof (G2 y Hy) as AA. destruct EQ as [E1 _]. unfold C07_BTreeOrder.lt in AA. congruence.
    - f_equal. rewrite E in EK. rewrite E in Hs. destruct (sorted_mid ltb _ _ _ Hs) as (A1 & A2 & _ & _).
      destruct (Nat.lt_trichotomy (length K1) (length J1)) as [LT|[EQL|GT]]; [exfalso|exact EQL|exfalso].
      + (* y' is in J1, hence below y; but both are equivalent to x *)
        assert (Hz : nth_error (J1 ++ y :: J2) (length K1) = Some y') by (rewrite EK; apply nth_error_mid).
        rewrite nth_error_app1 in Hz by lia. apply nth_error_In in Hz. pose proof (A1 y' Hz) as B.
        assert (C : lt x y) by (apply (lt_eqv_l ltb lt_negtrans x y' y EQ' B)). destruct EQ as [E1 _]. unfold C07_BTreeOrder.lt in C. congruence.
      + assert (Hz : nth_error (K1 ++ y' :: K2) (length J1) = Some y) by (rewrite <- EK; apply nth_error_mid).
        rewrite nth_error_app1 in Hz by lia. apply nth_error_In in Hz. pose proof (G1 y Hz) as B.
        destruct EQ as [_ E2]. unfold C07_BTreeOrder.lt in B. congruence.
  Qed.

  Local Notation to_remove := (@to_remove A).

  Definition sel_int (its : list A) (typ : to_remove) : nat * bool :=
    match typ with
    | RemoveMax => (length its, false)
    | RemoveMin => (O, false)
    | RemoveItem x => items_find ltb its x
    end.

  (* what `typ` removes from the in-order walk *)
  Definition rem_spec (typ : to_remove) (L L' : list A) (out : option A) : Prop :=
    match typ with
    | RemoveItem x => l0_delete ltb x L = (L', out)
    | RemoveMax => match out with Some e => L = L' ++ [e] | None => False end
    | RemoveMin => match out with Some e => L = e :: L' | None => False end
    end.

  Definition pos_ok (typ : to_remove) (P Q : list A) : Prop :=
    match typ with
    | RemoveItem x => all_lt P x /\ lt_all x Q
    | RemoveMax => Q = []
    | RemoveMin => P = []
    end.

  Lemma rem_comp typ P C Q C' out : pos_ok typ P Q -> rem_spec typ C C' out ->
    rem_spec typ (P ++ C ++ Q) (P ++ C' ++ Q) out.
  Proof.
    destruct typ as [x| |]; cbn [pos_ok rem_spec].
    - intros [HP HQ] E. apply (l0_delete_comp ltb lt_irrefl lt_trans); assumption.
    - intros -> E. destruct out as [e|]; [|contradiction]. subst C. reflexivity.
    - intros -> E. destruct out as [e|]; [|contradiction]. subst C. rewrite (app_nil_r (C' ++ [e])), (app_nil_r C'), <- app_assoc. reflexivity.
  Qed.

  Lemma rem_length typ L L' out : rem_spec typ L L' out ->
    length L = (length L' + match out with Some _ => 1 | None => 0 end)%nat.
  Proof.
    destruct typ as [x| |]; cbn [rem_spec].
    - revert L' out. induction L as [|a L IH]; intros L' out E; cbn [l0_delete] in E.
      + inversion E; subst. reflexivity.
      + destruct (ltb a x).
        * destruct (l0_delete ltb x L) as [L2 o2] eqn:E2. inversion E; subst. cbn [length]. rewrite (IH _ _ eq_refl). lia.
        * destruct (ltb x a); inversion E; subst; cbn [length]; lia.
    - destruct out; [|contradiction]. intros ->. cbn. lia.
    - destruct out; [|contradiction]. intros ->. rewrite app_length. cbn. lia.
  Qed.

  Lemma remove_internal f N typ : n_ch N <> [] ->
    remove ltb (S f) N typ lo =
    let '(i, found) := sel_int (n_its N) typ in
    match nth_error (n_ch N) i with
    | None => None
    | Some child =>
        if Nat.leb (length (n_its child)) lo then
          match grow_child N i lo with None => None | Some n' => remove ltb f n' typ lo end
        else if found then
          match nth_error (n_its N) i, remove ltb f child RemoveMax lo with
          | Some out, Some (child', Some pred) =>
              Some (Node (replace_nth i pred (n_its N)) (replace_nth i child' (n_ch N)) (ix_add_at i (-1) (n_idx N)), Some out)
          | _, _ => None
          end
        else
          match remove ltb f child typ lo with
          | None => None
          | Some (child', out) =>
              Some (Node (n_its N) (replace_nth i child' (n_ch N))
                         (match out with Some _ => ix_add_at i (-1) (n_idx N) | None => n_idx N end), out)
          end
    end.
  Proof.
    intros NE. destruct N as [its ch idx]. cbn [n_ch n_its n_idx] in *. destruct ch as [|c0 cs]; [contradiction|].
    destruct typ as [x| |]; cbn [remove sel_int n_its n_ch n_idx]; [destruct (items_find ltb its x) as [i found]|..]; reflexivity.
  Qed.

  Lemma remove_leaf f its typ : sorted its -> its <> [] ->
    exists its' out, remove ltb (S f) (Node its [] []) typ lo = Some (Node its' [] [], out) /\ rem_spec typ its its' out.
  Proof.
    intros Hs NE. destruct typ as [x| |]; cbn [remove n_its n_ch n_idx rem_spec].
    - destruct (items_find_spec its x Hs) as [I1 I2 E H1 H2|I1 y I2 E H1 EQ H2]; subst its.
      + exists (I1 ++ I2), None. split; [reflexivity|].
        change (I1 ++ I2) with (I1 ++ [] ++ I2). apply (l0_delete_comp ltb lt_irrefl lt_trans); auto.
      + exists (I1 ++ I2), (Some y). rewrite remove_nth_mid, nth_error_mid. split; [reflexivity|].
        change (I1 ++ y :: I2) with (I1 ++ [y] ++ I2). change (I1 ++ I2) with (I1 ++ [] ++ I2).
        apply (l0_delete_comp ltb lt_irrefl lt_trans); auto. cbn. destruct EQ as [E1 E2]. rewrite E2, E1. reflexivity.
    - destruct its as [|e I']; [contradiction|]. exists I', (Some e). split; reflexivity.
    - destruct (exists_last_or_nil its) as [->|(I' & e & ->)]; [contradiction|].
      exists I', (Some e). rewrite last_opt_snoc, removelast_snoc. split; reflexivity.
  Qed.

  Lemma idx_after_remove C1 c C2 c' (o : option A) : length (flatten c) = (length (flatten c') + match o with Some _ => 1 | None => 0 end)%nat ->
    (match o with Some _ => ix_add_at (length C1) (-1) (idx_of (map fsize (C1 ++ c :: C2))) | None => idx_of (map fsize (C1 ++ c :: C2)) end)
    = idx_of (map fsize (C1 ++ c' :: C2)).
  Proof.
    intros HL. rewrite !map_app. cbn [map]. destruct o.
    - unfold idx_of. rewrite <- (map_length fsize C1), add_at_spec. f_equal. f_equal. f_equal. unfold fsize. lia.
    - replace (fsize c') with (fsize c) by (unfold fsize; lia). reflexivity.
  Qed.

  Definition rem_post (typ : to_remove) (h : nat) (n n' : node) (out : option A) : Prop :=
    binv h n' /\ rem_spec typ (flatten n) (flatten n') out /\
    (length (n_its n) - 1 <= length (n_its n') <= length (n_its n))%nat.

  Definition rem_ih (h : nat) : Prop :=
    forall typ n fuel, binv h n -> sorted (flatten n) -> (2 * h + 2 <= fuel)%nat -> n_its n <> [] ->
      exists n' out, remove ltb fuel n typ lo = Some (n', out) /\ rem_post typ h n n' out.

  Lemma remove_big typ h f (J1 J2 : list A) C1 c C2 found :
    rem_ih h ->
    length C1 = length J1 -> length C2 = length J2 ->
    Forall (binv h) (C1 ++ c :: C2) -> Forall (fun c0 => lo <= length (n_its c0) <= hi)%nat (C1 ++ c :: C2) ->
    sorted (flatten (Node (J1 ++ J2) (C1 ++ c :: C2) (idx_of (map fsize (C1 ++ c :: C2))))) ->
    sel_int (J1 ++ J2) typ = (length J1, found) ->
    (lo < length (n_its c))%nat ->
    (found = false -> pos_ok typ (zipl J1 C1) (zipr J2 C2)) ->
    (found = true -> exists x y J2', typ = RemoveItem x /\ J2 = y :: J2' /\ eqv x y) ->
    (2 * h + 2 <= f)%nat ->
    exists n' out,
      remove ltb (S f) (Node (J1 ++ J2) (C1 ++ c :: C2) (idx_of (map fsize (C1 ++ c :: C2)))) typ lo = Some (n', out) /\
      binv (S h) n' /\
      rem_spec typ (flatten (Node (J1 ++ J2) (C1 ++ c :: C2) (idx_of (map fsize (C1 ++ c :: C2))))) (flatten n') out /\
      length (n_its n') = length (J1 ++ J2).
  Proof.
    intros IH L1 L2 F1 F2 Hs SEL Big HNF HF Hf.
    assert (Bc : binv h c) by (apply Forall_app in F1 as [_ F1']; inversion F1'; assumption).
    assert (Hb : (lo <= length (n_its c) <= hi)%nat) by (apply Forall_app in F2 as [_ F2']; inversion F2'; assumption).
    assert (NEc : n_its c <> []) by (destruct (n_its c); [cbn in Big; lia|discriminate]).
    rewrite remove_internal by (cbn; destruct C1; discriminate). cbn [n_its n_ch n_idx]. rewrite SEL.
    replace (nth_error (C1 ++ c :: C2) (length J1)) with (Some c) by (rewrite <- L1; symmetry; apply nth_error_mid).
    replace (Nat.leb (length (n_its c)) lo) with false by (symmetry; apply Nat.leb_gt; exact Big).
    pose proof (flatten_at_child J1 J2 C1 c C2 (idx_of (map fsize (C1 ++ c :: C2))) L1 L2) as FL.
    assert (Sc : sorted (flatten c)).
    { rewrite FL in Hs. apply sorted_app in Hs as (_ & Hs & _). apply sorted_app in Hs as (Hs & _ & _). exact Hs. }
    destruct found.
    - (* the item is in this node: replaced by its predecessor, the largest item of the child to its left *)
      destruct (HF eq_refl) as (x & y & J2' & -> & -> & EQ). clear HNF HF.
      rewrite nth_error_mid.
      destruct (IH RemoveMax c f Bc Sc Hf NEc) as (c' & out & E & B' & RS & Hlen). rewrite E.
      cbn [rem_spec] in RS. destruct out as [pred|]; [|contradiction].
      rewrite replace_nth_mid. rewrite <- L1, replace_nth_mid.
      eexists. exists (Some y). split; [reflexivity|].
      cbn [length] in L2. destruct C2 as [|cr C2']; [discriminate|]. cbn [length] in L2.
      assert (LEN : length (flatten c) = (length (flatten c') + 1)%nat) by (rewrite RS, app_length; cbn; lia).
      pose proof (idx_after_remove C1 c (cr :: C2') c' (Some pred) LEN) as EIDX. cbn beta iota in EIDX. rewrite EIDX.
      split; [|split].
      + apply binv_node.
        * rewrite !app_length in *. cbn [length] in *. lia.
        * apply Forall_app in F1 as [Fa Fb]. inversion Fb; subst. apply Forall_app. split; [exact Fa|constructor; assumption].
        * apply Forall_app in F2 as [Fa Fb]. inversion Fb; subst. apply Forall_app. split; [exact Fa|constructor; [lia|assumption]].
      + cbn [rem_spec].
        rewrite (flatten_at_item J1 y J2' C1 c (cr :: C2') _ L1 ltac:(cbn; lia)) in *.
        rewrite (flatten_at_item J1 pred J2' C1 c' (cr :: C2') _ L1 ltac:(cbn; lia)).
        rewrite RS in *. rewrite <- !app_assoc in *. cbn [app] in *.
        replace (zipl J1 C1 ++ flatten c' ++ pred :: y :: inter J2' (cr :: C2'))
          with ((zipl J1 C1 ++ flatten c' ++ [pred]) ++ [y] ++ inter J2' (cr :: C2')) by (rewrite <- !app_assoc; reflexivity).
        replace (zipl J1 C1 ++ flatten c' ++ pred :: inter J2' (cr :: C2'))
          with ((zipl J1 C1 ++ flatten c' ++ [pred]) ++ [] ++ inter J2' (cr :: C2')) by (rewrite <- !app_assoc; reflexivity).
        replace (zipl J1 C1 ++ flatten c' ++ pred :: y :: inter J2' (cr :: C2'))
          with ((zipl J1 C1 ++ flatten c' ++ [pred]) ++ y :: inter J2' (cr :: C2')) in Hs by (rewrite <- !app_assoc; reflexivity).
        destruct (sorted_mid ltb _ _ _ Hs) as (A1 & A2 & _ & _).
        apply (l0_delete_comp ltb lt_irrefl lt_trans); [eapply all_lt_eqv; eauto|eapply lt_all_eqv; eauto|].
        cbn. destruct EQ as [E1 E2]. rewrite E2, E1. reflexivity.
      + cbn [n_its]. rewrite !app_length. reflexivity.
    - (* descend *)
      specialize (HNF eq_refl). clear HF.
      destruct (IH typ c f Bc Sc Hf NEc) as (c' & out & E & B' & RS & Hlen). rewrite E.
      rewrite <- L1, replace_nth_mid.
      eexists. exists out. split; [reflexivity|].
      pose proof (rem_length _ _ _ _ RS) as LEN.
      pose proof (idx_after_remove C1 c C2 c' out LEN) as EIDX. rewrite EIDX.
      split; [|split].
      + apply (binv_replace_child h J1 J2 C1 c C2 c'); auto. lia.
      + rewrite FL, (flatten_at_child J1 J2 C1 c' C2 _ L1 L2). apply rem_comp; assumption.
      + reflexivity.
  Qed.

  Lemma in_zipl a J C : In a J -> length C = length J -> In a (zipl J C).
  Proof.
    revert C. induction J as [|j J IH]; intros [|c C] Ha L; try discriminate; [destruct Ha|].
    cbn [zipl]. cbn in L. apply in_or_app. right. destruct Ha as [<-|Ha]; [left; reflexivity|right; apply IH; [exact Ha|lia]].
  Qed.
  Lemma in_zipr a J C : In a J -> length C = length J -> In a (zipr J C).
  Proof.
    revert C. induction J as [|j J IH]; intros [|c C] Ha L; try discriminate; [destruct Ha|].
    cbn [zipr]. cbn in L. destruct Ha as [<-|Ha]; [left; reflexivity|right; apply in_or_app; right; apply IH; [exact Ha|lia]].
  Qed.

  (* the selection of `typ` in a node, as order facts about the in-order walk around child number |J1| *)
  Definition fsel (typ : to_remove) (P Q : list A) (J2 : list A) (found : bool) : Prop :=
    match typ with
    | RemoveItem x =>
        all_lt P x /\
        if found then exists y J2', J2 = y :: J2' /\ eqv x y
        else lt_all x Q
    | RemoveMax => Q = [] /\ J2 = [] /\ found = false
    | RemoveMin => P = [] /\ found = false
    end.

  Lemma zipl_nil J C : length C = length J -> zipl J C = [] -> J = [].
  Proof.
    destruct J as [|j J]; [reflexivity|]. destruct C as [|c C]; [discriminate|]. cbn [zipl]. intros _ H.
    destruct (flatten c); discriminate.
  Qed.

  Lemma fsel_sel typ (J1 J2 : list A) (C1 : list node) found post :
    length C1 = length J1 ->
    sorted (J1 ++ J2) -> fsel typ (zipl J1 C1) post J2 found ->
    (found = false -> forall a, In a J2 -> In a post) ->
    sel_int (J1 ++ J2) typ = (length J1, found).
  Proof.
    intros L1 Hs F HQ. destruct typ as [x| |]; cbn [fsel sel_int] in *.
    - destruct F as [HP F]. assert (H1 : all_lt J1 x) by (intros a Ha; apply HP, in_zipl; auto).
      destruct found.
      + destruct F as (y & J2' & -> & EQ). eapply items_find_yes; eauto.
      + eapply items_find_no; eauto. intros a Ha. apply F, HQ; auto.
    - destruct F as [HP ->]. rewrite (zipl_nil _ _ L1 HP). reflexivity.
    - destruct F as (_ & -> & ->). rewrite app_nil_r. reflexivity.
  Qed.

  Lemma remove_big' typ h f (J1 J2 : list A) C1 c C2 found :
    rem_ih h ->
    length C1 = length J1 -> length C2 = length J2 ->
    Forall (binv h) (C1 ++ c :: C2) -> Forall (fun c0 => lo <= length (n_its c0) <= hi)%nat (C1 ++ c :: C2) ->
    sorted (flatten (Node (J1 ++ J2) (C1 ++ c :: C2) (idx_of (map fsize (C1 ++ c :: C2))))) ->
    fsel typ (zipl J1 C1) (zipr J2 C2) J2 found ->
    (lo < length (n_its c))%nat ->
    (2 * h + 2 <= f)%nat ->
    exists n' out,
      remove ltb (S f) (Node (J1 ++ J2) (C1 ++ c :: C2) (idx_of (map fsize (C1 ++ c :: C2)))) typ lo = Some (n', out) /\
      binv (S h) n' /\
      rem_spec typ (flatten (Node (J1 ++ J2) (C1 ++ c :: C2) (idx_of (map fsize (C1 ++ c :: C2))))) (flatten n') out /\
      length (n_its n') = length (J1 ++ J2).
  Proof.
    intros IH L1 L2 F1 F2 Hs FS Big Hf.
    assert (LL : length (C1 ++ c :: C2) = S (length (J1 ++ J2))) by (rewrite !app_length; cbn; lia).
    pose proof (node_items_sorted _ _ _ LL Hs) as Hi.
    apply (remove_big typ h f J1 J2 C1 c C2 found); auto.
    - apply (fsel_sel typ J1 J2 C1 found (zipr J2 C2)); auto. intros _ a Ha. apply in_zipr; auto.
    - intros ->. destruct typ as [x| |]; cbn [fsel pos_ok] in *; tauto.
    - intros ->. destruct typ as [x| |]; cbn [fsel] in FS.
      + destruct FS as [_ (y & J2' & -> & EQ)]. exists x, y, J2'. split; [reflexivity|]. split; [reflexivity|exact EQ].
      + destruct FS as [_ FS]. discriminate.
      + destruct FS as (_ & _ & FS). discriminate.
  Qed.

  (* the selection made by `typ` in an internal node *)
  Lemma fsel_init typ h (its : list A) ch : length ch = S (length its) -> its <> [] ->
    Forall (binv h) ch -> sorted (flatten (Node its ch (idx_of (map fsize ch)))) ->
    exists J1 J2 C1 c C2 found, its = J1 ++ J2 /\ ch = C1 ++ c :: C2 /\ length C1 = length J1 /\ length C2 = length J2 /\
      fsel typ (zipl J1 C1) (zipr J2 C2) J2 found.
  Proof.
    intros L NE F1 Hs. pose proof (node_items_sorted _ _ _ L Hs) as Hi.
    assert (G : forall (J1 J2 : list A), its = J1 ++ J2 ->
              exists C1 c C2, ch = C1 ++ c :: C2 /\ length C1 = length J1 /\ length C2 = length J2).
    { intros J1 J2 ->. rewrite app_length in L. destruct (split_at ch (length J1)) as (C1 & R & -> & L1); [lia|].
      destruct R as [|c C2]; [rewrite app_length in L; cbn in L; lia|]. exists C1, c, C2. rewrite app_length in L. cbn in L. repeat split; lia. }
    destruct typ as [x| |].
    - destruct (items_find_spec its x Hi) as [I1 I2 E H1 H2|I1 y I2 E H1 EQ H2].
      + destruct (G I1 I2 E) as (C1 & c & C2 & -> & L1 & L2). subst its. exists I1, I2, C1, c, C2, false.
        split; [reflexivity|]. split; [reflexivity|]. split; [exact L1|]. split; [exact L2|]. cbn [fsel].
        rewrite (flatten_at_child I1 I2 C1 c C2 _ L1 L2) in Hs. split.
        * eapply zipl_all_lt; eauto.
        * rewrite app_assoc in Hs. eapply zipr_lt_all; eauto.
      + destruct (G I1 (y :: I2) E) as (C1 & c & C2 & -> & L1 & L2). subst its. exists I1, (y :: I2), C1, c, C2, true.
        split; [reflexivity|]. split; [reflexivity|]. split; [exact L1|]. split; [exact L2|]. cbn [fsel].
        rewrite (flatten_at_child I1 (y :: I2) C1 c C2 _ L1 L2) in Hs. split.
        * eapply zipl_all_lt; eauto.
        * exists y, I2. split; [reflexivity|exact EQ].
    - destruct (G [] its eq_refl) as (C1 & c & C2 & -> & L1 & L2). destruct C1; [|discriminate].
      exists [], its, [], c, C2, false.
      split; [reflexivity|]. split; [reflexivity|]. split; [reflexivity|]. split; [exact L2|]. cbn [fsel zipl]. split; reflexivity.
    - destruct (G its [] (eq_sym (app_nil_r its))) as (C1 & c & C2 & -> & L1 & L2). destruct C2; [|discriminate].
      exists its, [], C1, c, [], false.
      split; [symmetry; apply app_nil_r|]. split; [reflexivity|]. split; [exact L1|]. split; [reflexivity|]. cbn [fsel zipr].
      split; [reflexivity|]. split; reflexivity.
  Qed.
  (* ---- the node after growChildAndRemove's restructuring: the search is repeated on it ---- *)
  Lemma after_grow typ h f (J1 J2 : list A) C1 c C2 found L :
    rem_ih h -> length C1 = length J1 -> length C2 = length J2 ->
    Forall (binv h) (C1 ++ c :: C2) -> Forall (fun c0 => lo <= length (n_its c0) <= hi)%nat (C1 ++ c :: C2) ->
    zipl J1 C1 ++ flatten c ++ zipr J2 C2 = L -> sorted L ->
    fsel typ (zipl J1 C1) (zipr J2 C2) J2 found -> (lo < length (n_its c))%nat -> (2 * h + 2 <= f)%nat ->
    exists n' out,
      remove ltb (S f) (Node (J1 ++ J2) (C1 ++ c :: C2) (idx_of (map fsize (C1 ++ c :: C2)))) typ lo = Some (n', out) /\
      binv (S h) n' /\ rem_spec typ L (flatten n') out /\ length (n_its n') = length (J1 ++ J2).
  Proof.
    intros IH L1 L2 F1 F2 EL Hs FS Big Hf. subst L.
    rewrite <- (flatten_at_child J1 J2 C1 c C2 (idx_of (map fsize (C1 ++ c :: C2))) L1 L2) in *.
    apply (remove_big' typ h f J1 J2 C1 c C2 found); auto.
  Qed.

  Lemma fsel_prefix typ (P R Q J2 : list A) found : fsel typ (P ++ R) Q J2 found -> fsel typ P Q J2 found.
  Proof.
    destruct typ as [x| |]; cbn [fsel].
    - intros [HP H]. split; [|exact H]. intros y Hy. apply HP, in_or_app. left; exact Hy.
    - intros [E H]. apply app_eq_nil in E as [-> _]. split; [reflexivity|exact H].
    - auto.
  Qed.

  (* the separator `sep` right of the child moves away (into the child, or is replaced by a later item):
     whatever was selected, the repeated search selects the same child and does not find the item in the node *)
  Lemma fsel_suffix typ (P R Q' I2 J2' : list A) sep found :
    fsel typ P (sep :: R ++ Q') (sep :: I2) found -> lt_all sep Q' ->
    (forall a, In a J2' -> In a Q') ->
    fsel typ P Q' J2' false.
  Proof.
    destruct typ as [x| |]; cbn [fsel].
    - intros [HP H] HS _. split; [exact HP|]. destruct found.
      + destruct H as (y & J2'' & E & EQ). inversion E; subst. eapply lt_all_eqv; eauto.
      + intros y Hy. apply H. right. apply in_or_app. right; exact Hy.
    - intros [-> _] _ _. auto.
    - intros [E _]. discriminate.
  Qed.
  Lemma remove_node typ h fuel its ch :
    rem_ih h -> length ch = S (length its) -> its <> [] ->
    Forall (binv h) ch -> Forall (fun c0 => lo <= length (n_its c0) <= hi)%nat ch ->
    sorted (flatten (Node its ch (idx_of (map fsize ch)))) -> (2 * S h + 2 <= fuel)%nat ->
    exists n' out, remove ltb fuel (Node its ch (idx_of (map fsize ch))) typ lo = Some (n', out) /\
      rem_post typ (S h) (Node its ch (idx_of (map fsize ch))) n' out.
  Proof.
    intros IH L NE F1 F2 Hs Hf. destruct fuel as [|f]; [lia|].
    destruct (fsel_init typ h its ch L NE F1 Hs) as (J1 & J2 & C1 & c & C2 & found & -> & -> & L1 & L2 & FS).
    assert (Hb : (lo <= length (n_its c) <= hi)%nat) by (apply Forall_app in F2 as [_ F2']; inversion F2'; assumption).
    unfold rem_post. cbn [n_its].
    destruct (Nat.ltb_spec lo (length (n_its c))) as [Big|Small].
    { destruct (remove_big' typ h f J1 J2 C1 c C2 found IH L1 L2 F1 F2 Hs FS Big ltac:(lia)) as (n' & out & E & B & RS & LEN).
      exists n', out. split; [exact E|]. split; [exact B|]. split; [exact RS|]. lia. }
    assert (Ec : length (n_its c) = lo) by lia. clear Small Hb.
    destruct f as [|f]; [lia|].
    pose proof (flatten_at_child J1 J2 C1 c C2 (idx_of (map fsize (C1 ++ c :: C2))) L1 L2) as FL.
    rewrite FL in Hs. rewrite FL.
    rewrite remove_internal by (cbn; destruct C1; discriminate). cbn [n_its n_ch n_idx].
    rewrite (fsel_sel typ J1 J2 C1 found (zipr J2 C2) L1 (node_items_sorted _ _ _ L ltac:(rewrite FL; exact Hs)) FS
               ltac:(intros _ a Ha; apply in_zipr; auto)).
    replace (nth_error (C1 ++ c :: C2) (length J1)) with (Some c) by (rewrite <- L1; symmetry; apply nth_error_mid).
    replace (Nat.leb (length (n_its c)) lo) with true by (symmetry; apply Nat.leb_le; lia).
    destruct (match length J1 with
              | O => false
              | S p => match nth_error (C1 ++ c :: C2) p with Some l => Nat.ltb lo (length (n_its l)) | None => false end
              end) eqn:LB.
    - (* steal from the left sibling *)
      destruct (exists_last_or_nil J1) as [->|(I1 & sep & ->)]; [discriminate LB|].
      destruct (exists_last_or_nil C1) as [->|(C1' & lft & ->)]; [rewrite app_length in L1; cbn in L1; lia|].
      assert (L1' : length C1' = length I1) by (rewrite !app_length in L1; cbn in L1; lia).
      rewrite app_length in LB. cbn [length] in LB. rewrite Nat.add_1_r in LB.
      rewrite <- app_assoc in LB. cbn [app] in LB. rewrite <- L1', nth_error_mid in LB. apply Nat.ltb_lt in LB.
      rewrite <- !app_assoc in *. cbn [app] in *.
      destruct (steal_left_spec h I1 sep J2 C1' lft c C2 L1' L2 F1 F2 LB Ec)
        as (stolen & lft' & c' & EG & (M & EM1 & EM2) & B1 & B2 & Hb1 & Hb2).
      replace (length (I1 ++ [sep])) with (S (length I1)) by (rewrite app_length; cbn; lia).
      rewrite EG.
      assert (F1' : Forall (binv h) ((C1' ++ [lft']) ++ c' :: C2)).
      { rewrite <- app_assoc. cbn [app]. apply Forall_app in F1 as [Fa Fb]. inversion Fb as [|? ? _ Fc]; subst. inversion Fc; subst.
        apply Forall_app. split; [exact Fa|]. constructor; [exact B1|]. constructor; [exact B2|assumption]. }
      assert (F2' : Forall (fun c0 => lo <= length (n_its c0) <= hi)%nat ((C1' ++ [lft']) ++ c' :: C2)).
      { rewrite <- app_assoc. cbn [app]. apply Forall_app in F2 as [Fa Fb]. inversion Fb as [|? ? _ Fc]; subst. inversion Fc; subst.
        apply Forall_app. split; [exact Fa|]. constructor; [exact Hb1|]. constructor; [lia|assumption]. }
      rewrite (zipl_snoc I1 sep C1' lft L1') in *.
      destruct (after_grow typ h f (I1 ++ [stolen]) J2 (C1' ++ [lft']) c' C2 found
                  ((zipl I1 C1' ++ flatten lft ++ [sep]) ++ flatten c ++ zipr J2 C2) IH) as (n' & out & E & B & RS & LEN); auto.
      + rewrite !app_length. cbn. lia.
      + rewrite (zipl_snoc I1 stolen C1' lft' L1'), EM1, EM2. rewrite <- !app_assoc. cbn [app]. rewrite <- ?app_assoc. reflexivity.
      + rewrite (zipl_snoc I1 stolen C1' lft' L1'). rewrite EM1 in FS.
        replace (zipl I1 C1' ++ (flatten lft' ++ stolen :: M) ++ [sep])
          with ((zipl I1 C1' ++ flatten lft' ++ [stolen]) ++ (M ++ [sep])) in FS by (rewrite <- !app_assoc; cbn [app]; rewrite <- ?app_assoc; reflexivity).
        eapply fsel_prefix; eauto.
      + lia.
      + lia.
      + rewrite <- !app_assoc in E. cbn [app] in E. exists n', out. split; [exact E|]. split; [exact B|]. split; [exact RS|].
        rewrite !app_length in *. cbn [length] in *. lia.
    - destruct J2 as [|sep I2].
      + (* the last child: merged into its left sibling *)
        destruct C2; [|discriminate].
        destruct (exists_last_or_nil J1) as [->|(I1 & sep & ->)]; [exfalso; apply NE; reflexivity|].
        destruct (exists_last_or_nil C1) as [->|(C1' & lft & ->)]; [rewrite app_length in L1; cbn in L1; lia|].
        assert (L1' : length C1' = length I1) by (rewrite !app_length in L1; cbn in L1; lia).
        rewrite app_length in LB. cbn [length] in LB. rewrite Nat.add_1_r in LB.
        rewrite <- app_assoc in LB. cbn [app] in LB. rewrite <- L1', nth_error_mid in LB. apply Nat.ltb_ge in LB.
        rewrite <- !app_assoc in *. cbn [app] in *.
        assert (El : length (n_its lft) = lo).
        { apply Forall_app in F2 as [_ Fb]. inversion Fb; subst. lia. }
        destruct (merge_spec_node h I1 sep [] C1' lft c [] (S (length I1)) L1' eq_refl F1 F2 El Ec) as (merged & EG & EM & Bm & Lm).
        { rewrite <- L1', nth_error_mid. apply Nat.ltb_ge. lia. }
        { apply andb_false_iff. left. apply Nat.ltb_ge. rewrite app_length. cbn. lia. }
        { replace (Nat.leb (length (I1 ++ [sep])) (S (length I1))) with true by (symmetry; apply Nat.leb_le; rewrite app_length; cbn; lia).
          reflexivity. }
        replace (length (I1 ++ [sep])) with (S (length I1)) by (rewrite app_length; cbn; lia).
        rewrite EG.
        rewrite (zipl_snoc I1 sep C1' lft L1') in *.
        destruct (after_grow typ h f I1 [] C1' merged [] found
                    ((zipl I1 C1' ++ flatten lft ++ [sep]) ++ flatten c ++ zipr [] []) IH) as (n' & out & E & B & RS & LEN); auto.
        * apply Forall_app in F1 as [Fa _]. apply Forall_app. split; [exact Fa|]. constructor; [exact Bm|constructor].
        * apply Forall_app in F2 as [Fa _]. apply Forall_app. split; [exact Fa|]. constructor; [lia|constructor].
        * rewrite EM. rewrite <- !app_assoc. cbn [app]. reflexivity.
        * eapply fsel_prefix; eauto.
        * lia.
        * lia.
        * exists n', out. split; [exact E|]. split; [exact B|]. split; [exact RS|].
          rewrite !app_length in *. cbn [length] in *. lia.
      + destruct C2 as [|rgt C2']; [discriminate|].
        assert (L2' : length C2' = length I2) by (cbn in L2; lia).
        assert (HSEP : lt_all sep (flatten rgt ++ zipr I2 C2')).
        { cbn [zipr] in Hs. rewrite app_assoc in Hs. apply (sorted_mid ltb) in Hs as (_ & H & _ & _). exact H. }
        assert (Hbr : (lo <= length (n_its rgt) <= hi)%nat).
        { apply Forall_app in F2 as [_ Fb]. inversion Fb as [|? ? _ Fc]; subst. inversion Fc; subst. assumption. }
        destruct (Nat.ltb lo (length (n_its rgt))) eqn:RB.
        * (* steal from the right sibling *)
          apply Nat.ltb_lt in RB.
          destruct (steal_right_spec h J1 sep I2 C1 c rgt C2' L1 L2' F1 F2 LB RB Ec)
            as (stolen & c' & rgt' & EG & (M & EM1 & EM2) & B1 & B2 & Hb1 & Hb2).
          rewrite EG.
          destruct (after_grow typ h f J1 (stolen :: I2) C1 c' (rgt' :: C2') false
                      (zipl J1 C1 ++ flatten c ++ zipr (sep :: I2) (rgt :: C2')) IH) as (n' & out & E & B & RS & LEN); auto.
          -- apply Forall_app in F1 as [Fa Fb]. inversion Fb as [|? ? _ Fc]; subst. inversion Fc; subst.
             apply Forall_app. split; [exact Fa|]. constructor; [exact B1|]. constructor; [exact B2|assumption].
          -- apply Forall_app in F2 as [Fa Fb]. inversion Fb as [|? ? _ Fc]; subst. inversion Fc; subst.
             apply Forall_app. split; [exact Fa|]. constructor; [lia|]. constructor; [exact Hb2|assumption].
          -- cbn [zipr]. rewrite EM1, EM2. rewrite <- !app_assoc. cbn [app]. rewrite <- ?app_assoc. reflexivity.
          -- cbn [zipr] in FS |- *. rewrite EM1 in FS, HSEP. rewrite <- !app_assoc in FS, HSEP. cbn [app] in FS, HSEP.
             apply (fsel_suffix typ (zipl J1 C1) M (stolen :: flatten rgt' ++ zipr I2 C2') I2 (stolen :: I2) sep found FS).
             ++ intros a Ha. apply HSEP, in_or_app. right; exact Ha.
             ++ intros a [<-|Ha]; [left; reflexivity|right; apply in_or_app; right; apply in_zipr; auto].
          -- lia.
          -- lia.
          -- exists n', out. split; [exact E|]. split; [exact B|]. split; [exact RS|].
             rewrite !app_length in *. cbn [length] in *. lia.
        * (* merge with the right sibling *)
          apply Nat.ltb_ge in RB.
          assert (Er : length (n_its rgt) = lo) by lia.
          destruct (merge_spec_node h J1 sep I2 C1 c rgt C2' (length J1) L1 L2' F1 F2 Ec Er LB) as (merged & EG & EM & Bm & Lm).
          { apply andb_false_iff. right.
            replace (C1 ++ c :: rgt :: C2') with ((C1 ++ [c]) ++ rgt :: C2') by (rewrite <- app_assoc; reflexivity).
            replace (S (length J1)) with (length (C1 ++ [c])) by (rewrite app_length; cbn; lia).
            rewrite nth_error_mid. apply Nat.ltb_ge. lia. }
          { replace (Nat.leb (length (J1 ++ sep :: I2)) (length J1)) with false by (symmetry; apply Nat.leb_gt; rewrite app_length; cbn; lia).
            reflexivity. }
          rewrite EG.
          destruct (after_grow typ h f J1 I2 C1 merged C2' false
                      (zipl J1 C1 ++ flatten c ++ zipr (sep :: I2) (rgt :: C2')) IH) as (n' & out & E & B & RS & LEN); auto.
          -- apply Forall_app in F1 as [Fa Fb]. inversion Fb as [|? ? _ Fc]; subst. inversion Fc; subst.
             apply Forall_app. split; [exact Fa|]. constructor; [exact Bm|assumption].
          -- apply Forall_app in F2 as [Fa Fb]. inversion Fb as [|? ? _ Fc]; subst. inversion Fc; subst.
             apply Forall_app. split; [exact Fa|]. constructor; [lia|assumption].
          -- cbn [zipr]. rewrite EM. rewrite <- !app_assoc. cbn [app]. reflexivity.
          -- cbn [zipr] in FS.
             apply (fsel_suffix typ (zipl J1 C1) (flatten rgt) (zipr I2 C2') I2 I2 sep found FS).
             ++ intros a Ha. apply HSEP, in_or_app. right; exact Ha.
             ++ intros a Ha. apply in_zipr; auto.
          -- lia.
          -- lia.
          -- exists n', out. split; [exact E|]. split; [exact B|]. split; [exact RS|].
             rewrite !app_length in *. cbn [length] in *. lia.
  Qed.
  (* func (n *node) remove, every kind of removal, every height *)
  Theorem remove_spec : forall h, rem_ih h.
  Proof.
    induction h as [|h IH]; intros typ n fuel B Hs Hf NE.
    - inversion B; subst. destruct fuel as [|f]; [lia|]. cbn [flatten] in Hs. cbn [n_its] in NE.
      destruct (remove_leaf f its typ Hs NE) as (its' & out & E & RS).
      exists (Node its' [] []), out. split; [exact E|]. split; [apply binv_leaf|]. split; [exact RS|].
      pose proof (rem_length _ _ _ _ RS) as LEN. cbn [n_its]. destruct out; lia.
    - inversion B as [|h0 its ch L F1 F2]; subst. cbn [n_its] in NE.
      apply (remove_node typ h fuel its ch IH L NE F1 F2 Hs Hf).
  Qed.

  (* what is left of a sorted list after a removal is sorted *)
  Lemma l0_delete_sorted x L : sorted L -> sorted (fst (l0_delete ltb x L)).
  Proof.
    induction L as [|a L IH]; intros Hs; cbn [l0_delete]; [exact Hs|].
    apply sorted_cons_inv in Hs as [Hs' F].
    destruct (ltb a x).
    - specialize (IH Hs'). destruct (l0_delete ltb x L) as [L' o] eqn:E. cbn [fst] in *. apply sorted_cons; [exact IH|].
      intros y Hy. apply F. clear - E Hy. revert L' o E Hy. induction L as [|b L IHL]; cbn [l0_delete]; intros L' o E Hy.
      + inversion E; subst. destruct Hy.
      + destruct (ltb b x).
        * destruct (l0_delete ltb x L) as [L2 o2]. inversion E; subst. destruct Hy as [<-|Hy]; [left; reflexivity|right; eapply IHL; eauto].
        * destruct (ltb x b); inversion E; subst; [exact Hy|right; exact Hy].
    - destruct (ltb x a); cbn [fst]; [apply sorted_cons; assumption|exact Hs'].
  Qed.

  Lemma rem_sorted typ L L' out : rem_spec typ L L' out -> sorted L -> sorted L'.
  Proof.
    destruct typ as [x| |]; cbn [rem_spec].
    - intros E Hs. pose proof (l0_delete_sorted x L Hs) as H. rewrite E in H. exact H.
    - destruct out as [e|]; [|contradiction]. intros -> Hs. apply sorted_cons_inv in Hs as [Hs _]. exact Hs.
    - destruct out as [e|]; [|contradiction]. intros -> Hs. apply sorted_app in Hs as (Hs & _ & _). exact Hs.
  Qed.
End Refine.