(* Structural obligations tying model/C03_Leader.v to the code as it is now (gen/Gen_C03.v is
   regenerated from /repo on every run). *)
From PDV Require Import lib.Skel gen.Gen_C03 proof.C04_Skel.
(* the Local TSO Allocator leaderships use the same Leadership / lease code; their election loop, campaign and patrol are
   pinned by C05's obligations (skel_am_allocatorLeaderLoop_ok, skel_am_campaignAllocatorLeader_ok, ...) *)
From PDV Require proof.C05_Skel.

(* Campaign: new lease object; Grant; one txn guarded by CreateRevision(leaderKey) = 0 that puts the
   record with the lease attached; the lease is closed on error and on a lost comparison. *)
Lemma skel_Campaign_ok : skel_Campaign =
  [Call "setLease"; Call "Grant"; IfE "err != nil" [Ret] []; Call "Commit";
   IfE "err != nil" [Call "Close"; Ret] []; IfE "!resp.Succeeded" [Call "Close"; Ret] []; Ret].
Proof. reflexivity. Qed.

Lemma cmps_Campaign_ok : cmps_Campaign = ["clientv3.CreateRevision(ls.leaderKey) = 0"].
Proof. reflexivity. Qed.

(* LeaderTxn = txn with the comparison  Value(leaderKey) = this member's value  (model: LWrite's cmp) *)
Lemma leaderCmp_ok : cmps_leaderCmp = ["clientv3.Value(ls.leaderKey) = ls.leaderValue"] /\ skel_LeaderTxn = [Call "leaderCmp"; Ret].
Proof. split; reflexivity. Qed.

(* DeleteLeaderKey commits  If(cmps...).Then(delete)  and both callers pass the mod revision their
   preceding read returned: the model's LDeleteKey deletes only the record that LObserve saw.
   (Before the fix recorded in KNOWN_FINDINGS.txt the delete was unconditional.) *)
Lemma delete_guarded :
  txn_DeleteLeaderKey = ["kv.NewSlowLogTxn(ls.client).If(cmps...).Then(clientv3.OpDelete(ls.leaderKey)).Commit()"] /\
  cmps_CheckLeader = ["clientv3.ModRevision(m.GetLeaderPath()) = rev"] /\
  cmps_CheckAllocatorLeader = ["clientv3.ModRevision(lta.leadership.GetLeaderKey()) = rev"] /\
  skel_DeleteLeaderKey = [Call "Commit"; IfE "err != nil" [Ret] []; IfE "!resp.Succeeded" [Ret] []; Call "Reset"; Ret] /\
  skel_CheckLeader =
   [IfE "m.GetEtcdLeader() == 0" [Ret] []; Call "GetLeader"; IfE "err != nil" [Ret] [];
    IfE "leader != nil" [Call "isSameLeader"; IfE "m.isSameLeader(leader)" [Call "DeleteLeaderKey"; IfE "err != nil" [Ret] []; Ret] []] []; Ret].
Proof. repeat split; reflexivity. Qed.

(* the transaction wrapper every guarded write goes through (Campaign, LeaderTxn, DeleteLeaderKey, the id window): If and
   Then hand their arguments to the etcd transaction, Commit commits it exactly once; the model's guarded write is ONE
   compare-and-write, a re-sent transaction would need its comparisons again *)
Lemma slow_log_txn_ok :
  src_SlowLogTxn_If = "{ return &SlowLogTxn{ Txn: t.Txn.If(cs...), cancel: t.cancel, } }" /\
  src_SlowLogTxn_Then = "{ return &SlowLogTxn{ Txn: t.Txn.Then(ops...), cancel: t.cancel, } }" /\
  skel_SlowLogTxn_Commit = [Call "Commit"; Assign "resp" ":= t.Txn.Commit()"; Assign "err" ":= t.Txn.Commit()"; Call "cancel"; Ret].
Proof. repeat split; reflexivity. Qed.

(* Check / IsExpired / Close / Grant: the lstate semantics of the model *)
Lemma check_src_ok :
  src_Check = "{ return ls != nil && ls.getLease() != nil && !ls.getLease().IsExpired() }" /\
  src_lease_IsExpired = "{ if l.expireTime.Load() == nil { return false } return time.Now().After(l.expireTime.Load().(time.Time)) }" /\
  src_lease_Close = "{ l.closeMu.Lock() l.closed = true l.expireTime.Store(time.Time{}) l.closeMu.Unlock() ctx, cancel := context.WithTimeout(l.client.Ctx(), revokeLeaseTimeout) defer cancel() l.lease.Revoke(ctx, l.ID) return l.lease.Close() }" /\
  grant_stores = ["l.expireTime.Store(start.Add(time.Duration(leaseResp.TTL) * time.Second))"] /\
  skel_Reset = [IfE "ls == nil || ls.getLease() == nil" [Ret] []; Call "Close"].
Proof. repeat split; reflexivity. Qed.

(* IsLeader = Check && cached leader = me; metadata RPCs are refused unless IsLeader *)
Lemma is_leader_src_ok :
  src_IsLeader = "{ return m.leadership.Check() && m.GetLeader().GetMemberId() == m.member.GetMemberId() }" /\
  skel_validateRequest = [Call "IsClosed"; Call "IsLeader"; IfE "s.IsClosed() || !s.member.IsLeader()" [Ret] [];
                          IfE "header.GetClusterId() != s.clusterID" [Ret] []; Ret].
Proof. split; reflexivity. Qed.

(* TSO path: leadership is checked when memory is empty and again after generating *)
Lemma getTS_checks_ok : skel_getTS =
  [IfE "" [Ret] [];
   ForE [Call "getTSO"; IfE "" [Call "Check"; IfE "" [Cont] []; Ret] []; Call "generateTSO"; IfE "" [Ret] [];
         IfE "" [Cont] []; Call "Check"; IfE "" [Ret] []; Ret]; Ret].
Proof. reflexivity. Qed.

(* the window save is a LeaderTxn and lastSavedTime is stored only after a succeeded commit *)
Lemma saveTimestamp_ok : skel_saveTimestamp =
  [Call "LeaderTxn"; Call "Commit"; IfE "err != nil" [Ret] []; IfE "!resp.Succeeded" [Ret] []; Call "Store"; Ret].
Proof. reflexivity. Qed.

(* the guarded-write sites the property names all go through LeaderTxn (the id window uses the same
   comparison spelled out in id.go: obligation rebase_cmps_ok of C04) *)
Lemma leadertxn_sites_ok :
  forall s, In s ["server/tso/tso.go:saveTimestamp"; "server/member/member.go:SetMemberLeaderPriority";
                  "server/member/member.go:DeleteMemberLeaderPriority"; "server/member/member.go:DeleteMemberDCLocationInfo";
                  "server/encryptionkm/key_manager.go:saveKeys"] -> In s leadertxn_sites.
Proof. intros s H; cbn in H; cbn. repeat destruct H as [<-|H]; tauto. Qed.

(* keep-alive: the renewed local expiry is request start + TTL (model: LKeepStart records the start, LKeepDone uses it);
   a response that arrives after Close() (closed flag, set under the same mutex as the zeroing) is not stored (LKeepDone on Closed);
   the stored expiry only moves forward within one KeepAlive call *)
Lemma keepalive_ok :
  skel_keepAliveWorker =
  [GoE [ForE [GoE [Call "Now"; Assign "start" ":= time.Now()"; Call "KeepAliveOnce"; IfE "err != nil" [Ret] []; IfE "res.TTL > 0" [Assign "expire" ":= start.Add(time.Duration(res.TTL) * time.Second)"] []]; SwitchE [[Ret]; []]]]; Ret] /\
  skel_KeepAlive =
  [Call "keepAliveWorker"; ForE [SwitchE [[Call "After"; IfE "t.After(maxExpire)" [Assign "maxExpire" "= t"; Lock "l.closeMu"; IfE "!l.closed" [Call "Store"] []; Unlock "l.closeMu"] []]; [Call "After"; Ret]; [Ret]]]].
Proof. split; reflexivity. Qed.

(* the id window is extended through the comparisons and in the order C04's obligations pin down (proof.C04_Skel is
   imported: skel_rebaseLocked_ok, rebase_cmps_ok): in particular the in-memory window is adopted only after a
   succeeded commit, so a member that no longer owns the record cannot serve ids from a window it failed to persist *)
Lemma id_window_guard_ok : Gen_C04.rebase_cmps =
  ["clientv3.CreateRevision(key) = 0"; "clientv3.Value(key) = string(value)"; "clientv3.Value(leaderPath) = alloc.member"].
Proof. exact rebase_cmps_ok. Qed.
