(* Structural obligations on the code as it is now (gen/Gen_C14.v is regenerated from /repo on every run).
   model/C14_Store.v was written against exactly these skeletons, guard lists and call sites; an edit of a
   guard, of the order save -> cache, of the in-place label merge, of the weight writes or of the callers of
   buryStore changes the generated value and breaks the corresponding `reflexivity`. *)
From PDV Require Import lib.Skel gen.Gen_C14.
From Coq Require Import ZArith.

(* putStoreImpl is only the locking wrapper (fix b1c60ab); PutStore is its only caller besides tests *)
Lemma skel_putStoreImpl_ok : skel_putStoreImpl =
  [Lock "c"; DeferUnlock "c"; Call "putStoreImplLocked"; Ret].
Proof. reflexivity. Qed.

(* putStoreImplLocked (no locking of its own): id check, version check, address check over all stores, then either a new StoreInfo or MergeLabels + Clone, label check, putStoreLocked. The model's put_impl follows exactly this order. *)
Lemma skel_putStoreImplLocked_ok : skel_putStoreImplLocked =
  [IfE "store.GetId() == 0" [Ret] []; Call "checkStoreVersion"; IfE "err != nil" [Ret] []; Call "GetStores"; ForE [Call "IsTombstone"; IfE "s.GetID() != store.GetId() && s.GetAddress() == store.GetAddress()" [Ret] []]; Call "GetStore"; IfE "s == nil" [Call "NewStoreInfo"] [IfE "!force" [Call "MergeLabels"] []; Call "SetStoreAddress"; Call "SetStoreVersion"; Call "SetStoreLabels"; Call "Clone"]; Call "checkStoreLabels"; IfE "err != nil" [Ret] []; Call "putStoreLocked"; Ret].
Proof. reflexivity. Qed.

(* PutStore: the cluster version is raised only after a successful putStoreImpl *)
Lemma skel_PutStore_ok : skel_PutStore =
  [Call "putStoreImpl"; IfE "err != nil" [Ret] []; Call "OnStoreVersionChange"; Ret].
Proof. reflexivity. Qed.

(* UpdateStoreLabels: the lookup of the served meta, the clone with the new labels and the put are ONE section under the
   cluster lock (model: do_labels is one atomic command). Before b1c60ab the lookup and clone preceded the lock, which the
   overlapping-operations class exposed (regression pairs 3 and 4 of the driver). *)
Lemma skel_UpdateStoreLabels_ok : skel_UpdateStoreLabels =
  [Lock "c"; DeferUnlock "c"; Call "GetStore"; IfE "store == nil" [Ret] []; Call "Clone"; Assign "newStore.Labels" "= labels"; Call "putStoreImplLocked"; Ret].
Proof. reflexivity. Qed.

(* version guard: parse error, then IsCompatible(cluster version, store version) *)
Lemma skel_checkStoreVersion_ok : skel_checkStoreVersion =
  [Call "ParseVersion"; IfE "err != nil" [Ret] []; Call "IsCompatible"; IfE "!versioninfo.IsCompatible(clusterVersion, *v)" [Ret] []; Ret].
Proof. reflexivity. Qed.

(* RemoveStore: guards, Clone(OfflineStore), putStoreLocked *)
Lemma skel_RemoveStore_ok : skel_RemoveStore =
  [Lock "c"; DeferUnlock "c"; Call "GetStore"; IfE "store == nil" [Ret] []; IfE "store.IsOffline() && store.IsPhysicallyDestroyed() == physicallyDestroyed" [Ret] []; Call "IsTombstone"; IfE "store.IsTombstone()" [Ret] []; IfE "store.IsPhysicallyDestroyed()" [Ret] []; Call "OfflineStore"; Call "Clone"; Call "putStoreLocked"; Ret].
Proof. reflexivity. Qed.

(* UpStore: guards (tombstone, physically destroyed, already up), Clone(UpStore), putStoreLocked *)
Lemma skel_UpStore_ok : skel_UpStore =
  [Lock "c"; DeferUnlock "c"; Call "GetStore"; IfE "store == nil" [Ret] []; Call "IsTombstone"; IfE "store.IsTombstone()" [Ret] []; IfE "store.IsPhysicallyDestroyed()" [Ret] []; IfE "store.IsUp()" [Ret] []; Call "UpStore"; Call "Clone"; Call "putStoreLocked"; Ret].
Proof. reflexivity. Qed.

(* buryStore: no emptiness guard of its own; version change runs whether or not the save succeeded *)
Lemma skel_buryStore_ok : skel_buryStore =
  [Lock "c"; DeferUnlock "c"; Call "GetStore"; IfE "store == nil" [Ret] []; Call "IsTombstone"; IfE "store.IsTombstone()" [Ret] []; IfE "store.IsUp()" [Ret] []; Call "GetStoreRegionCount"; IfE "n > 0" [Ret] []; Call "TombstoneStore"; Call "Clone"; Call "putStoreLocked"; Call "onStoreVersionChangeLocked"; Ret].
Proof. reflexivity. Qed.

(* SetStoreWeight: the two weight keys are written BEFORE the meta record (three writes: model do_weight idx 0,1,2); when putStoreLocked fails the served weights are saved again *)
Lemma skel_SetStoreWeight_ok : skel_SetStoreWeight =
  [Lock "c"; DeferUnlock "c"; Call "GetStore"; IfE "store == nil" [Ret] []; Call "SaveStoreWeight"; IfE "err != nil" [Ret] []; Call "SetLeaderWeight"; Call "SetRegionWeight"; Call "Clone"; Call "putStoreLocked"; IfE "err != nil" [Call "SaveStoreWeight"; Ret] []; Ret].
Proof. reflexivity. Qed.

(* putStoreLocked saves first and touches the cache only after a successful save (model: put_locked) *)
Lemma skel_putStoreLocked_ok : skel_putStoreLocked =
  [IfE "c.storage != nil" [Call "SaveStore"; IfE "err != nil" [Ret] []] []; Call "PutStore"; Ret].
Proof. reflexivity. Qed.

(* checkStores buries an offline store only when GetStoreRegionCount is 0 (model: do_check) *)
Lemma skel_checkStores_ok : skel_checkStores =
  [Call "GetStores"; ForE [Call "IsTombstone"; Call "GetStoreRegionCount"; IfE "regionCount == 0" [Call "buryStore"] []]; IfE "len(offlineStores) == 0" [Ret] []].
Proof. reflexivity. Qed.

(* RemoveTombStoneRecords: tombstones with GetRegionCount() == 0, stops at the first storage error (model: clean_loop) *)
Lemma skel_RemoveTombStoneRecords_ok : skel_RemoveTombStoneRecords =
  [Lock "c"; DeferUnlock "c"; Call "GetStores"; ForE [Call "IsTombstone"; IfE "store.IsTombstone()" [Call "GetRegionCount"; Call "deleteStoreLocked"; IfE "err != nil" [Ret] []] []]; Ret].
Proof. reflexivity. Qed.

(* deleteStoreLocked removes from storage first (Storage.DeleteStore: weight keys, then the record), then from the cache *)
Lemma skel_deleteStoreLocked_ok : skel_deleteStoreLocked =
  [IfE "c.storage != nil" [Call "DeleteStore"; IfE "err != nil" [Ret] []] []; Call "DeleteStore"; Ret].
Proof. reflexivity. Qed.

(* heartbeat: persists the meta only when NeedPersist, a failed save is only logged, the cache is always updated *)
Lemma skel_HandleStoreHeartbeat_ok : skel_HandleStoreHeartbeat =
  [Lock "c"; DeferUnlock "c"; Call "GetStore"; IfE "store == nil" [Ret] []; Call "Clone"; Call "NeedPersist"; IfE "newStore.NeedPersist() && c.storage != nil" [Call "SaveStore"; IfE "err != nil" [] [Call "SetLastPersistTime"; Call "Clone"]] []; Call "GetStore"; Call "PutStore"; Ret].
Proof. reflexivity. Qed.

(* cluster version := min over non-tombstone stores when larger (model: version_change) *)
Lemma skel_onStoreVersionChangeLocked_ok : skel_onStoreVersionChangeLocked =
  [Call "GetStores"; ForE [Call "IsTombstone"]; IfE "minVersion != nil && clusterVersion.LessThan(*minVersion)" [Call "CASClusterVersion"] []].
Proof. reflexivity. Qed.

Lemma guards_putStoreImplLocked_ok : guards_putStoreImplLocked =
  [("store.GetId() == 0", "return errors.Errorf(""invalid put store %v"", store)"); ("err != nil", "return err"); ("s.IsTombstone() || s.IsPhysicallyDestroyed()", "continue"); ("s.GetID() != store.GetId() && s.GetAddress() == store.GetAddress()", "return errors.Errorf(""duplicated store address: %v, already registered by %v"", store, s.GetMeta())"); ("s == nil", "..."); ("!force", "..."); ("err != nil", "return err")].
Proof. reflexivity. Qed.

Lemma guards_RemoveStore_ok : guards_RemoveStore =
  [("store == nil", "return errs.ErrStoreNotFound.FastGenByArgs(storeID)"); ("store.IsOffline() && store.IsPhysicallyDestroyed() == physicallyDestroyed", "return nil"); ("store.IsTombstone()", "return errs.ErrStoreTombstone.FastGenByArgs(storeID)"); ("store.IsPhysicallyDestroyed()", "return errs.ErrStoreDestroyed.FastGenByArgs(storeID)"); ("err == nil", "...")].
Proof. reflexivity. Qed.

Lemma guards_UpStore_ok : guards_UpStore =
  [("store == nil", "return errs.ErrStoreNotFound.FastGenByArgs(storeID)"); ("store.IsTombstone()", "return errs.ErrStoreTombstone.FastGenByArgs(storeID)"); ("store.IsPhysicallyDestroyed()", "return errs.ErrStoreDestroyed.FastGenByArgs(storeID)"); ("store.IsUp()", "return nil")].
Proof. reflexivity. Qed.

Lemma guards_buryStore_ok : guards_buryStore =
  [("store == nil", "return errs.ErrStoreNotFound.FastGenByArgs(storeID)"); ("store.IsTombstone()", "return nil"); ("store.IsUp()", "return errs.ErrStoreIsUp.FastGenByArgs()"); ("n > 0", "return errors.Errorf(""store %d still holds %d region peers, it cannot be buried"", storeID, n)"); ("err == nil", "...")].
Proof. reflexivity. Qed.

Lemma guards_SetStoreWeight_ok : guards_SetStoreWeight =
  [("store == nil", "return errs.ErrStoreNotFound.FastGenByArgs(storeID)"); ("err != nil", "return err"); ("err != nil", "...")].
Proof. reflexivity. Qed.

Lemma guards_checkStores_ok : guards_checkStores =
  [("store.IsTombstone()", "continue"); ("store.IsUp()", "..."); ("!store.IsLowSpace(c.opt.GetLowSpaceRatio())", "..."); ("regionCount == 0", "..."); ("err != nil", "..."); ("len(offlineStores) == 0", "return"); ("!c.opt.IsPlacementRulesEnabled() && upStoreCount < c.opt.GetMaxReplicas()", "...")].
Proof. reflexivity. Qed.

Lemma guards_RemoveTombStoneRecords_ok : guards_RemoveTombStoneRecords =
  [("store.IsTombstone()", "..."); ("store.GetRegionCount() > 0", "..."); ("err != nil", "...")].
Proof. reflexivity. Qed.

(* gRPC guard: an existing tombstone store is refused *)
Lemma skel_grpc_checkStore_ok : skel_grpc_checkStore =
  [Call "GetStore"; IfE "store != nil" [Call "GetState"; IfE "store.GetState() == metapb.StoreState_Tombstone" [Ret] []] []; Ret].
Proof. reflexivity. Qed.

(* gRPC PutStore runs checkStore before RaftCluster.PutStore *)
Lemma skel_grpc_PutStore_ok : skel_grpc_PutStore =
  [IfE "!s.isLocalRequest(forwardedHost)" [IfE "err != nil" [Ret] []; Call "PutStore"; Ret] []; Call "validateRequest"; IfE "err != nil" [Ret] []; Call "GetRaftCluster"; IfE "rc == nil" [Ret] []; Call "GetStore"; Call "checkStore"; IfE "pberr != nil" [Ret] []; IfE "!s.GetConfig().Replication.EnablePlacementRules && core.IsTiFlashStore(store)" [Ret] []; Call "PutStore"; IfE "err != nil" [Ret] []; Ret].
Proof. reflexivity. Qed.

(* gRPC StoreHeartbeat runs checkStore before HandleStoreHeartbeat *)
Lemma skel_grpc_StoreHeartbeat_ok : skel_grpc_StoreHeartbeat =
  [IfE "!s.isLocalRequest(forwardedHost)" [IfE "err != nil" [Ret] []; Ret] []; Call "validateRequest"; IfE "err != nil" [Ret] []; IfE "request.GetStats() == nil" [Ret] []; Call "GetRaftCluster"; IfE "rc == nil" [Ret] []; Call "checkStore"; IfE "pberr != nil" [Ret] []; Call "GetStore"; IfE "store == nil" [Ret] []; Call "HandleStoreHeartbeat"; IfE "err != nil" [Ret] []; Ret].
Proof. reflexivity. Qed.

(* MergeLabels first copies every served label into a fresh struct in a fresh slice; the merge then works on that copy (model: merge_labels) *)
Lemma skel_MergeLabels_ok : skel_MergeLabels =
  [Call "GetLabels"; Assign "storeLabels" ":= make([]*metapb.StoreLabel, 0, len(s.GetLabels())+len(labels))"; Call "GetLabels"; ForE [Call "append"; Assign "storeLabels" "= append(storeLabels, &metapb.StoreLabel{Key: l.Key, Value: l.Value})"]; ForE [ForE [Call "EqualFold"; IfE "strings.EqualFold(label.Key, newLabel.Key)" [Assign "label.Value" "= newLabel.Value"] []]; Call "append"; Assign "storeLabels" "= append(storeLabels, newLabel)"]; Assign "res" ":= storeLabels[:0]"; ForE [IfE "l.Value != """"" [Call "append"; Assign "res" "= append(res, l)"] []]; Ret].
Proof. reflexivity. Qed.

Lemma skel_opt_OfflineStore_ok : skel_opt_OfflineStore =
  [DeferE [Call "Clone"; Assign "meta" ":= proto.Clone(store.meta).(*metapb.Store)"; Assign "meta.State" "= metapb.StoreState_Offline"; Assign "meta.PhysicallyDestroyed" "= physicallyDestroyed"; Assign "store.meta" "= meta"]; Ret].
Proof. reflexivity. Qed.

Lemma skel_opt_UpStore_ok : skel_opt_UpStore =
  [DeferE [Call "Clone"; Assign "meta" ":= proto.Clone(store.meta).(*metapb.Store)"; Assign "meta.State" "= metapb.StoreState_Up"; Assign "store.meta" "= meta"]; Ret].
Proof. reflexivity. Qed.

Lemma skel_opt_TombstoneStore_ok : skel_opt_TombstoneStore =
  [DeferE [Call "Clone"; Assign "meta" ":= proto.Clone(store.meta).(*metapb.Store)"; Assign "meta.State" "= metapb.StoreState_Tombstone"; Assign "store.meta" "= meta"]; Ret].
Proof. reflexivity. Qed.

(* the old values are loaded first; two Save calls, leader first; on an error both keys are restored *)
Lemma skel_storage_SaveStoreWeight_ok : skel_storage_SaveStoreWeight =
  [Call "storeLeaderWeightPath"; Call "Load"; IfE "err != nil" [Ret] []; Call "storeRegionWeightPath"; Call "Load"; IfE "err != nil" [Ret] []; Call "storeLeaderWeightPath"; Call "Save"; IfE "err == nil" [Call "storeRegionWeightPath"; Call "Save"] []; IfE "err != nil" [Call "storeLeaderWeightPath"; Call "restoreWeight"; Call "storeRegionWeightPath"; Call "restoreWeight"] []; Ret].
Proof. reflexivity. Qed.

Lemma skel_storage_SaveStore_ok : skel_storage_SaveStore =
  [Call "storePath"; Call "saveProto"; Ret].
Proof. reflexivity. Qed.

Lemma skel_storage_DeleteStore_ok : skel_storage_DeleteStore =
  [Call "storeLeaderWeightPath"; Call "Load"; IfE "err != nil" [Ret] []; Call "storeRegionWeightPath"; Call "Load"; IfE "err != nil" [Ret] []; Call "storeLeaderWeightPath"; Call "Remove"; IfE "err == nil" [Call "storeRegionWeightPath"; Call "Remove"] []; IfE "err == nil" [Call "storePath"; Call "Remove"] []; IfE "err != nil" [Call "storeLeaderWeightPath"; Call "restoreWeight"; Call "storeRegionWeightPath"; Call "restoreWeight"] []; Ret].
Proof. reflexivity. Qed.

(* LoadStores joins each meta record with the two weight keys, default 1.0 (model: view_stored) *)
Lemma skel_storage_LoadStores_ok : skel_storage_LoadStores =
  [Call "storePath"; ForE [Call "storePath"; Call "LoadRange"; IfE "err != nil" [Ret] []; ForE [IfE "err != nil" [Ret] []; Call "storeLeaderWeightPath"; Call "loadFloatWithDefaultValue"; IfE "err != nil" [Ret] []; Call "storeRegionWeightPath"; Call "loadFloatWithDefaultValue"; IfE "err != nil" [Ret] []; Call "SetLeaderWeight"; Call "SetRegionWeight"; Call "NewStoreInfo"]; IfE "len(res) < minKVRangeLimit || nextID == 0" [Ret] []]].
Proof. reflexivity. Qed.

(* IsCompatible: cluster < store, or same major.minor (model: compatible) *)
Lemma skel_IsCompatible_ok : skel_IsCompatible =
  [Call "LessThan"; IfE "a.LessThan(b)" [Ret] []; Ret].
Proof. reflexivity. Qed.

(* buryStore has exactly one production caller, checkStores (its unlocked region-count read is only a shortcut since 2f015b8: buryStore re-checks under the lock) *)
Lemma bury_callers_ok : bury_callers =
  ["server/cluster/cluster.go:checkStores"].
Proof. reflexivity. Qed.

(* StoresStats.FilterUnhealthyStore (run by every store heartbeat) tolerates a statistics entry whose store record
   RemoveTombStoneRecords has deleted: the nil test comes first (model: the heartbeat never fails on it) *)
Lemma guards_FilterUnhealthyStore_ok : guards_FilterUnhealthyStore =
  [("store == nil || store.IsTombstone() || store.IsUnhealthy() || store.IsPhysicallyDestroyed()", "...")].
Proof. reflexivity. Qed.

(* (the region loader became a closure with /repo a1d13b1, another property's fix: `DeferE [Ret]`) *)
(* LoadClusterInfo (fix 67efccf): every record LoadStores delivers is put over the cache, and cached stores that storage no longer holds
   are dropped - the BasicCluster outlives a leadership term (model: restart / HReelect serve exactly what is stored) *)
Lemma skel_LoadClusterInfo_ok : skel_LoadClusterInfo =
  [Call "LoadMeta"; IfE "err != nil" [Ret] []; IfE "!ok" [Ret] []; DeferE [Call "PutStore"]; Call "LoadStores"; IfE "err != nil" [Ret] []; Call "GetStores"; ForE [IfE "!ok" [Call "DeleteStore"] []]; DeferE [Ret]; Call "LoadRegionsOnce"; IfE "err != nil" [Ret] []; Call "GetStores"; Ret].
Proof. reflexivity. Qed.
