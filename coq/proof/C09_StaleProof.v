(* C09 — the stale test of Dispatch(heartbeat).
   foreign_change_cancels: if the current step's precondition fails, or conf_ver advanced by more than
   the passed steps account for, the heartbeat removes the operator from the running set.
   Core lemma: with the proviso "the current (unfinished) step itself counts nothing in ConfVerChanged";
   the proviso is then discharged by proof/C09_CountProof.v for every step kind (that is what the S2
   defect of ChangePeerV2Leave.ConfVerChanged broke before it was repaired), except a RemovePeer whose
   store holds a peer with another id - a witness shows that exception is needed. *)
From Coq Require Import String.
From PDV Require Import lib.Base gen.Gen_C08 gen.Gen_C09 model.C08_Steps model.C09_OpCtl
     proof.C08_ListFacts proof.C09_StatusProof proof.C09_CtlProof proof.C09_Skel proof.C09_CountProof.
Local Open Scope list_scope.
Local Open Scope Z_scope.

Lemma b2z_le b : 0 <= b2z b <= 1.
Proof. destruct b; cbn; lia. Qed.

(* no step ever counts more than its nominal change, and never a negative amount *)
Lemma cvc_le_nominal r s : 0 <= conf_ver_changed r s <= nominal s.
Proof.
  destruct s; cbn [conf_ver_changed nominal]; try lia; try apply b2z_le.
  - match goal with |- context [if ?c then _ else _] => destruct c end; lia.
  - match goal with |- context [if ?c then _ else _] => destruct c end; lia.
Qed.

Lemma fold_cvc_le r ss : forall a b, a <= b ->
  fold_left (fun acc s => acc + conf_ver_changed r s) ss a <= fold_left (fun acc s => acc + nominal s) ss b.
Proof.
  induction ss as [|s rest IH]; intros a b H; cbn [fold_left]; [exact H|].
  apply IH. pose proof (cvc_le_nominal r s). lia.
Qed.

Lemma fold_cvc_app r ss1 ss2 a :
  fold_left (fun acc s => acc + conf_ver_changed r s) (ss1 ++ ss2) a =
  fold_left (fun acc s => acc + conf_ver_changed r s) ss2 (fold_left (fun acc s => acc + conf_ver_changed r s) ss1 a).
Proof. apply fold_left_app. Qed.

(* Operator.ConfVerChanged <= what the passed steps account for + what the current step counts *)
Lemma op_cvc_bound o r s :
  nth_error (o_steps o) (o_cur o) = Some s ->
  op_conf_ver_changed o r <= accounted (o_steps o) (o_cur o) + conf_ver_changed r s.
Proof.
  intros Hn. unfold op_conf_ver_changed, accounted.
  assert (Hlt : (o_cur o < length (o_steps o))%nat) by (apply nth_error_Some; congruence).
  destruct (Nat.eqb (o_cur o) (length (o_steps o))) eqn:E; [apply Nat.eqb_eq in E; lia|].
  assert (Hs : firstn (S (o_cur o)) (o_steps o) = firstn (o_cur o) (o_steps o) ++ [s]).
  { clear E Hlt. revert Hn. generalize (o_cur o) as n. generalize (o_steps o) as l.
    induction l as [|x l IH]; intros [|n] H; cbn in *; try discriminate.
    - inversion H; reflexivity.
    - f_equal. apply IH. exact H. }
  rewrite Hs, fold_cvc_app. cbn [fold_left].
  pose proof (fold_cvc_le r (firstn (o_cur o) (o_steps o)) 0 0 (Z.le_refl 0)). lia.
Qed.

(* ---------- the heartbeat ---------- *)
Lemma remove_operator_running c id o rid :
  get_op c id = Some o -> o_rid o = rid -> alist_get (running c) rid = Some id ->
  NoDup (map fst (running c)) ->
  alist_get (running (fst (remove_operator c id))) rid = None /\ snd (remove_operator c id) = true.
Proof.
  intros Ho Hr Hrun Hnd. unfold remove_operator. rewrite Ho. unfold remove_locked. rewrite Hr, Hrun.
  pose proof (get_op_id _ _ _ Ho) as I. rewrite I, Z.eqb_refl. cbn [fst snd]. split; [|reflexivity].
  (* bury and cancel do not touch the running set *)
  assert (R : running (bury (cancel (set_running c (alist_del (running c) rid)) id) id) = alist_del (running c) rid).
  { unfold bury, cancel. repeat match goal with |- context [match ?x with _ => _ end] => destruct x end; reflexivity. }
  rewrite R. unfold alist_get, alist_del.
  destruct (find (fun e => fst e =? rid) (filter (fun e => negb (fst e =? rid)) (running c))) as [e|] eqn:E; [|reflexivity].
  apply find_some in E as [E1 E2]. apply filter_In in E1 as [_ E1]. rewrite E2 in E1. discriminate.
Qed.

(* running set after promote: a region whose entry is gone can only come back through an admission *)
Definition wrap64 (z : Z) : Z := z mod two64.

Lemma foreign_change_cancels_pf c rid id o r :
  NoDup (map fst (running c)) ->
  alist_get (running c) rid = Some id -> get_op c id = Some o -> o_rid o = rid ->
  alist_get (truth c) rid = Some r ->
  0 <= conf_ver r - o_cv o < two64 ->
  let o1 := fst (op_check o r) in
  o_st o1 = STARTED ->
  forall s, snd (op_check o r) = Some s ->
  (* the current, unfinished step counts nothing when its precondition holds *)
  (check_safety r s = None -> conf_ver_changed r s = 0) ->
  (is_some (check_safety r s) = true \/ accounted (o_steps o) (o_cur o1) < conf_ver r - o_cv o) ->
  (* ... then the heartbeat takes the operator out of the running set (a waiting operator may be promoted in its place) *)
  forall c', c' = fst (ctl_step c (EHeartbeat rid)) ->
  alist_get (running c') rid <> Some id \/ exists o', get_op c' id = Some o' /\ is_end_status (o_st o') = true.
Proof.
  intros Hnd Hrun Ho Hrid Htruth Hrange o1 Hst s Hs Hzero Hcause c' ->.
  (* it suffices that the operator is ended afterwards *)
  right.
  cbn [ctl_step]. rewrite Htruth. cbn [fst].
  set (c1 := upd c (truth c) (alist_set (cache c) rid r) (ops c) (running c) (waiting c) (wcount c) (records c) (inbox c)).
  unfold dispatch. replace (alist_get (running c1) rid) with (Some id) by (symmetry; exact Hrun).
  replace (get_op c1 id) with (Some o) by (symmetry; exact Ho).
  destruct (op_check o r) as [oc st] eqn:Ec. cbn [fst snd] in *. subst o1 st. rewrite Hst.
  set (c2 := set_op c1 oc).
  (* facts about c2 *)
  assert (Hidc : o_id oc = id).
  { pose proof (rel_op_check o r) as R. rewrite Ec in R. destruct R as (R1 & _). cbn [fst] in R1.
    rewrite R1. eapply get_op_id; exact Ho. }
  assert (Hoc : get_op c2 id = Some oc).
  { unfold c2. rewrite <- Hidc. apply get_set_op_same with (o := o). rewrite Hidc. exact Ho. }
  assert (Hrid2 : o_rid oc = rid).
  { pose proof (rel_op_check o r) as R. rewrite Ec in R. destruct R as (_ & R2 & _). cbn [fst] in R2. congruence. }
  assert (Hrun2 : alist_get (running c2) rid = Some id) by exact Hrun.
  assert (Hnd2 : NoDup (map fst (running c2))) by exact Hnd.
  destruct (remove_operator_running c2 id oc rid Hoc Hrid2 Hrun2 Hnd2) as (Hgone & Hrem).
  (* after removal the operator is ended, and stays so through promote *)
  assert (Hend : forall cx, Frame (fst (remove_operator c2 id)) cx ->
                  exists o', get_op cx id = Some o' /\ is_end_status (o_st o') = true).
  { intros cx F.
    assert (E : exists ob, get_op (fst (remove_operator c2 id)) id = Some ob /\ is_end_status (o_st ob) = true).
    { unfold remove_operator. rewrite Hoc. unfold remove_locked. rewrite Hrid2, Hrun2.
      pose proof (get_op_id _ _ _ Hoc) as I. rewrite I, Z.eqb_refl. cbn [fst].
      set (cr := set_running c2 (alist_del (running c2) rid)).
      assert (Hcr : get_op cr id = Some oc) by exact Hoc.
      (* cancel then bury *)
      unfold cancel. rewrite Hcr.
      set (ocn := fst (op_to oc CANCELED)).
      assert (Iocn : o_id ocn = id) by (unfold ocn; destruct (rel_op_to oc CANCELED) as (R1 & _); congruence).
      assert (Hcn : get_op (set_op cr ocn) id = Some ocn).
      { rewrite <- Iocn. apply get_set_op_same with (o := oc). rewrite Iocn. exact Hcr. }
      unfold bury. rewrite Hcn.
      set (ob := if op_is_end ocn then ocn else fst (op_to ocn CANCELED)).
      assert (Iob : o_id ob = id).
      { unfold ob. destruct (op_is_end ocn); [exact Iocn|]. destruct (rel_op_to ocn CANCELED) as (R1 & _). congruence. }
      exists ob. split.
      - (* the record update does not touch the table *)
        change (get_op (set_op (set_op cr ocn) ob) id = Some ob).
        rewrite <- Iob. apply get_set_op_same with (o := ocn). rewrite Iob. exact Hcn.
      - (* STARTED -> CANCELED is valid, so ocn is CANCELED *)
        unfold ob, ocn, op_to. rewrite Hst.
        assert (V : valid_trans STARTED CANCELED = true) by reflexivity.
        rewrite V. cbn. reflexivity. }
    destruct E as (ob & Hob & Eend). destruct (fr_fwd _ _ F _ _ Hob) as (o' & Ho' & R).
    exists o'. split; [exact Ho'|]. destruct R as (_ & _ & _ & _ & _ & _ & _ & _ & R9).
    rewrite <- (reach_from_end _ _ Eend R9). exact Eend. }
  unfold check_stale. fold c2. rewrite Hidc.
  destruct Hcause as [Hunsafe|Hcount].
  - rewrite Hunsafe. destruct (remove_operator c2 id) as [cr removed] eqn:Er. cbn [snd fst] in *. subst removed.
    cbn [fst]. apply Hend. apply frame_promote.
  - destruct (is_some (check_safety r s)) eqn:Hu.
    + destruct (remove_operator c2 id) as [cr removed] eqn:Er. cbn [snd fst] in *. subst removed.
      cbn [fst]. apply Hend. apply frame_promote.
    + cbn [fst snd].
      assert (Hgt : Gen_C09.stale_cmp_gt ((conf_ver r - o_cv oc) mod two64) (op_conf_ver_changed oc r) = true).
      { rewrite stale_cmp_ok. apply Z.ltb_lt.
        pose proof (rel_op_check o r) as R. rewrite Ec in R. destruct R as (_ & _ & R3 & _ & R5 & _). cbn [fst] in R3, R5.
        rewrite R3. rewrite Z.mod_small by exact Hrange.
        assert (Hn : nth_error (o_steps oc) (o_cur oc) = Some s) by (eapply op_check_cursor; exact Ec).
        pose proof (op_cvc_bound oc r s Hn) as B. rewrite R5 in B.
        rewrite Hzero in B by (destruct (check_safety r s); [discriminate Hu|reflexivity]). lia. }
      rewrite Hgt. destruct (remove_operator c2 id) as [cr removed] eqn:Er. cbn [snd fst] in *. subst removed.
      cbn [fst]. apply Hend. apply frame_promote.
Qed.

(* ---------- the proviso discharged ---------- *)
Lemma foreign_change_cancels_full_pf c rid id o r :
  NoDup (map fst (running c)) ->
  alist_get (running c) rid = Some id -> get_op c id = Some o -> o_rid o = rid ->
  alist_get (truth c) rid = Some r ->
  0 <= conf_ver r - o_cv o < two64 ->
  nodup_stores (peers r) = true -> region_ids_nonzero r = true ->
  o_st (fst (op_check o r)) = STARTED ->
  forall s, snd (op_check o r) = Some s ->
  step_ids_nonzero s = true -> remove_names_other_peer r s = false ->
  (is_some (check_safety r s) = true \/ accounted (o_steps o) (o_cur (fst (op_check o r))) < conf_ver r - o_cv o) ->
  forall c', c' = fst (ctl_step c (EHeartbeat rid)) ->
  alist_get (running c') rid <> Some id \/ exists o', get_op c' id = Some o' /\ is_end_status (o_st o') = true.
Proof.
  intros Hnd Hrun Ho Hrid Htruth Hrange Hnds Hids Hst s Hs Hz Hx Hcause c' Hc'.
  eapply foreign_change_cancels_pf; eauto.
  intros Hsafe. apply unfinished_safe_counts_nothing; auto.
  - apply nodup_stores_ND. exact Hnds.
  - apply op_check_unfinished with (o := o). exact Hs.
Qed.

(* ---------- the exception is needed ---------- *)
(* RemovePeer{store 2, id 12} is current and unapplied while store 2 holds peer 99: RemovePeer.ConfVerChanged
   counts the removal as done, so conf_ver being one ahead of the operator's passed steps goes unnoticed.
   (Turning peer 12 into peer 99 on the same store takes two configuration changes, so with one peer id per
   peer this state is not reached by a single unnoticed change.) *)
Definition rm_region : region := Region [Peer 1 101 Voter; Peer 2 99 Learner] 1 7 1.
Definition rm_step : step := RemovePeer 2 12.
Definition rm_ctl : ctl :=
  Ctl [(1, rm_region)] [(1, rm_region)] [Opr 1 1 6 1 [rm_step] 0 STARTED 1 false 1 false false] [(1, 1)] [] [] [] [] 5 [].

Lemma rm_not_cancelled :
  let c' := fst (ctl_step rm_ctl (EHeartbeat 1)) in
  alist_get (running c') 1 = Some 1 /\
  (exists o', get_op c' 1 = Some o' /\ o_st o' = STARTED) /\
  check_safety rm_region rm_step = None /\
  accounted [rm_step] 0 < conf_ver rm_region - 6 /\
  remove_names_other_peer rm_region rm_step = true.
Proof. vm_compute. repeat split; try reflexivity. eexists. split; reflexivity. Qed.

(* ---------- RemoveOperator's Cancel and buryOperator's Cancel do the same thing ---------- *)
(* (why dropping either one alone changes nothing observable: the other still cancels a non-ended operator) *)
Lemma put_op_idem l a : put_op (put_op l a) a = put_op l a.
Proof.
  unfold put_op. rewrite map_map. apply map_ext. intros x.
  destruct (o_id x =? o_id a) eqn:E; [rewrite Z.eqb_refl; reflexivity|rewrite E; reflexivity].
Qed.

Lemma cancel_before_bury_redundant c id : bury (cancel c id) id = bury c id.
Proof.
  unfold cancel. destruct (get_op c id) as [o|] eqn:Ho; [|reflexivity].
  pose proof (get_op_id _ _ _ Ho) as I.
  set (oc := fst (op_to o CANCELED)).
  assert (Ioc : o_id oc = id) by (unfold oc; destruct (rel_op_to o CANCELED) as (R1 & _); congruence).
  assert (Hc : get_op (set_op c oc) id = Some oc).
  { rewrite <- Ioc. apply get_set_op_same with (o := o). rewrite Ioc. exact Ho. }
  unfold bury. rewrite Hc, Ho.
  assert (E : (if op_is_end oc then oc else fst (op_to oc CANCELED)) = oc /\ (if op_is_end o then o else fst (op_to o CANCELED)) = oc).
  { unfold oc, op_to, op_is_end. destruct (valid_trans (o_st o) CANCELED) eqn:V; cbn [fst].
    - assert (E1 : is_end_status (o_st (with_st o CANCELED (o_slow o))) = true) by reflexivity.
      rewrite E1. split; [reflexivity|].
      destruct (is_end_status (o_st o)) eqn:E2; [|reflexivity].
      exfalso. destruct (o_st o); cbn in E2; try discriminate E2; vm_compute in V; discriminate V.
    - rewrite V. cbn [fst]. split; destruct (is_end_status (o_st o)); reflexivity. }
  destruct E as [E1 E2]. rewrite E1, E2.
  unfold set_op, set_ops, upd; cbn.
  change (map (fun x : opr => if o_id x =? o_id oc then oc else x) (put_op (ops c) oc)) with (put_op (put_op (ops c) oc) oc).
  rewrite put_op_idem. reflexivity.
Qed.
