(* C15 — UpdateServiceGCSafePoint with REST deletes slipping into its locked section and with a failing /
   half-failing save (model: svc_update_il).  The service clauses still hold. *)
From Coq Require Import String.
From PDV Require Import lib.Base lib.Skel lib.C15_Guard gen.Gen_C15 model.C15_Gc proof.C15_GcProof.
Local Open Scope Z_scope.

Lemma rest_dels_gc d : forall st, gc (rest_dels d st) = gc st.
Proof. induction d as [|k r IH]; intros st; cbn [rest_dels]; [reflexivity|]. rewrite IH. destruct (k =? 0); reflexivity. Qed.

Lemma rest_dels_wf d : forall st, wf_svcs (svcs st) -> wf_svcs (svcs (rest_dels d st)).
Proof.
  induction d as [|k r IH]; intros st H; cbn [rest_dels]; [exact H|]. apply IH. destruct (k =? 0); [exact H | apply wf_remove; exact H].
Qed.

Lemma rest_dels_sub d : forall st k e, sv_get k (svcs (rest_dels d st)) = Some e -> sv_get k (svcs st) = Some e.
Proof.
  induction d as [|x r IH]; intros st k e H; cbn [rest_dels] in H; [exact H|]. apply IH in H.
  destruct (x =? 0); [exact H|]. cbn in H. destruct (Z.eq_dec k x) as [->|Hne].
  - rewrite get_del_same in H. discriminate.
  - rewrite get_del_other in H by exact Hne. exact H.
Qed.

Lemma rest_dels_gcw d : forall st, gcw_ok (svcs st) -> gcw_ok (svcs (rest_dels d st)).
Proof.
  induction d as [|x r IH]; intros st H; cbn [rest_dels]; [exact H|]. apply IH.
  destruct (Z.eqb_spec x 0); [exact H|]. destruct H as (g & Hg & Ht). exists g. cbn. rewrite get_del_other by congruence. auto.
Qed.

Lemma svc_update_il_plain st i ttl sp now : svc_update_il st i ttl sp now [] Ok = svc_update st i ttl sp now.
Proof.
  unfold svc_update_il, svc_update.
  destruct (if ttl <=? 0 then remove_service i st else Some st) as [st0|]; [|reflexivity].
  destruct (load_min now st0) as [st1 mn].
  destruct ((0 <? ttl) && (e_sp mn <=? sp)); [|reflexivity].
  destruct (save_service i _ st1) as [st2|] eqn:Es; [|reflexivity].
  apply save_service_spec in Es as (-> & _). reflexivity.
Qed.

Lemma svc_update_il_gc st i ttl sp now d o : gc (fst (svc_update_il st i ttl sp now d o)) = gc st.
Proof.
  unfold svc_update_il.
  assert (H0 : forall st0, (if ttl <=? 0 then remove_service i st else Some st) = Some st0 -> gc st0 = gc st).
  { intros st0. destruct (ttl <=? 0); intros H; [eapply remove_service_gc; eauto | inversion H; reflexivity]. }
  destruct (if ttl <=? 0 then remove_service i st else Some st) as [st0|]; [|reflexivity].
  specialize (H0 _ eq_refl).
  pose proof (load_min_gc now st0) as H1. destruct (load_min now st0) as [st1 mn]. cbn [fst] in H1.
  destruct ((0 <? ttl) && (e_sp mn <=? sp)); [|cbn; congruence].
  destruct (save_service i _ st1) as [st2|] eqn:Es; [|cbn; congruence].
  apply save_service_spec in Es as (_ & _ & Hok).
  assert (Hsave : forall x, gc (st_save (key_of i) x (rest_dels d st1)) = gc st).
  { intros x. rewrite st_save_gc by (apply id_ok_not_gc; exact Hok). rewrite rest_dels_gc. congruence. }
  destruct o; cbn [fst].
  - destruct (text_eqb (text_of i) (e_text mn)); [|cbn [fst]; apply Hsave].
    match goal with |- context [load_min now ?x] => pose proof (load_min_gc now x) as H3; destruct (load_min now x) as [st3 mn'] end.
    cbn [fst] in *. rewrite H3. apply Hsave.
  - rewrite rest_dels_gc. congruence.
  - apply Hsave.
Qed.

(* a store in which everything is live at `now`, nothing is below m, gc_worker's entry is in place *)
Definition good (now m : Z) (st : store) : Prop :=
  wf_svcs (svcs st)
  /\ (forall k e, sv_get k (svcs st) = Some e -> now <= e_exp e /\ m <= e_sp e)
  /\ gcw_ok (svcs st).

Lemma good_load_min now st st' mn :
  wf_svcs (svcs st) -> now <= maxI64 -> load_min now st = (st', mn) -> good now (e_sp mn) st'.
Proof.
  intros Hwf Hnow H. pose proof (load_min_post _ _ _ _ Hwf Hnow H) as P.
  split; [apply (lm_wf _ _ _ _ P)|]. split; [|apply (lm_gcw _ _ _ _ P)].
  intros k e Hg. split; [eapply (lm_live _ _ _ _ P); eauto | eapply (lm_min _ _ _ _ P); eauto].
Qed.

Lemma good_dels now m d st : good now m st -> good now m (rest_dels d st).
Proof.
  intros (Hwf & Hall & Hg). split; [apply rest_dels_wf; exact Hwf|]. split; [|apply rest_dels_gcw; exact Hg].
  intros k e H. apply rest_dels_sub in H. apply Hall in H. exact H.
Qed.

Lemma good_save now m i e st :
  good now m st -> is_clean i = true -> e_text e = text_of i -> now <= e_exp e -> m <= e_sp e -> 0 <= e_sp e ->
  (e_text e = TGcw -> e_exp e = maxI64) -> good now m (st_save (key_of i) e st).
Proof.
  intros (Hwf & Hall & Hg) Hc Ht Hl Hm Hp Hinf.
  split; [apply wf_save; [exact Hwf|exact Hp|]; intros n Hk Hx; rewrite Ht in Hx; eapply key_text_ok; eauto|].
  split.
  - intros k e' H. rewrite get_save in H. destruct (key_of i) as [|n|]; try (apply Hall in H; exact H).
    destruct (Z.eqb_spec k n); [inversion H; subst; auto | apply Hall in H; exact H].
  - destruct Hg as (g & Hg0 & Hg1 & Hg2). unfold gcw_ok. rewrite get_save.
    destruct i as [| |z k]; cbn [key_of text_of] in *.
    + exists e. rewrite Z.eqb_refl. auto.
    + exists g. auto.
    + destruct k as [|n|]; try (exists g; auto; fail).
      cbn in Hc. apply andb_true_iff in Hc as [Hz Hnz]. apply Z.eqb_eq in Hz. apply negb_true_iff, Z.eqb_neq in Hnz. subst n.
      destruct (Z.eqb_spec 0 z); [congruence|]. exists g. auto.
Qed.

Section IlPost.
  Variables (st : store) (i : sid) (ttl sp now : Z) (d : list Z) (o : outcome).
  Hypothesis Hwf : wf_svcs (svcs st).
  Hypothesis Hsp : 0 <= sp.
  Hypothesis Hnow : now <= maxI64.

  Lemma il_post :
    let res := svc_update_il st i ttl sp now d o in
    (forall r, snd res = Some r -> good now (r_sp r) (fst res))
    /\ wf_svcs (svcs (fst res))
    /\ (gcw_ok (svcs st) -> gcw_ok (svcs (fst res))).
  Proof.
    cbv zeta. unfold svc_update_il. fold (exp_of now ttl).
    destruct (if ttl <=? 0 then remove_service i st else Some st) as [st0|] eqn:E0;
      [|cbn [fst snd]; split; [intros r Hr; discriminate|split; [exact Hwf|auto]]].
    destruct (load_min now st0) as [st1 mn] eqn:E1.
    pose proof (good_load_min now st0 st1 mn (wf_step0 _ _ _ _ Hwf E0) Hnow E1) as G1.
    assert (Hfrom : forall m x, good now m x -> wf_svcs (svcs x) /\ (gcw_ok (svcs st) -> gcw_ok (svcs x))).
    { intros m x (Hw & _ & Hg). auto. }
    destruct ((0 <? ttl) && (e_sp mn <=? sp)) eqn:Eg.
    2:{ cbn [fst snd]. split; [intros r Hr; inversion Hr; subst; exact G1|]. apply (Hfrom _ _ G1). }
    apply andb_true_iff in Eg as [Et El]. apply Z.ltb_lt in Et. apply Z.leb_le in El.
    destruct (save_service i _ st1) as [stx|] eqn:Es.
    2:{ cbn [fst snd]. split; [intros r Hr; discriminate|]. apply (Hfrom _ _ G1). }
    apply save_service_spec in Es as (_ & Hinf & Hok). cbn [e_text e_exp] in Hinf.
    pose proof (good_dels now (e_sp mn) d st1 G1) as G1'.
    assert (G2 : good now (e_sp mn) (st_save (key_of i) (Entry (text_of i) (exp_of now ttl) sp) (rest_dels d st1))).
    { apply good_save; cbn [e_text e_exp e_sp]; auto. apply exp_of_live; assumption. }
    destruct o; cbn [fst snd].
    - destruct (text_eqb (text_of i) (e_text mn)).
      + match goal with |- context [load_min now (st_save ?a ?b ?c)] => destruct (load_min now (st_save a b c)) as [st3 mn'] eqn:E3 end. cbn [fst snd].
        pose proof (good_load_min now _ st3 mn' (proj1 G2) Hnow E3) as G3.
        split; [intros r Hr; inversion Hr; subst; exact G3|]. apply (Hfrom _ _ G3).
      + cbn [fst snd]. split; [intros r Hr; inversion Hr; subst; exact G2|]. apply (Hfrom _ _ G2).
    - split; [intros r Hr; discriminate|]. apply (Hfrom _ _ G1').
    - split; [intros r Hr; discriminate|]. apply (Hfrom _ _ G2).
  Qed.
End IlPost.

(* the statements *)
Lemma il_min_le_every_live_pf st i ttl sp now d o st' r :
  wf_svcs (svcs st) -> 0 <= sp -> now <= maxI64 -> svc_update_il st i ttl sp now d o = (st', Some r) ->
  wf_svcs (svcs st') /\ gcw_ok (svcs st') /\ forall k e, sv_get k (svcs st') = Some e -> now <= e_exp e /\ r_sp r <= e_sp e.
Proof.
  intros Hwf Hsp Hnow H. destruct (il_post st i ttl sp now d o Hwf Hsp Hnow) as (HA & _). rewrite H in HA. cbn [fst snd] in HA.
  destruct (HA r eq_refl) as (H1 & H2 & H3). auto.
Qed.

Lemma il_always_pf st i ttl sp now d o :
  wf_svcs (svcs st) -> 0 <= sp -> now <= maxI64 ->
  wf_svcs (svcs (fst (svc_update_il st i ttl sp now d o)))
  /\ (gcw_ok (svcs st) -> gcw_ok (svcs (fst (svc_update_il st i ttl sp now d o))))
  /\ gc (fst (svc_update_il st i ttl sp now d o)) = gc st.
Proof.
  intros Hwf Hsp Hnow. destruct (il_post st i ttl sp now d o Hwf Hsp Hnow) as (_ & HB & HC).
  split; [exact HB|]. split; [exact HC|apply svc_update_il_gc].
Qed.
