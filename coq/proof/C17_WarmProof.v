(* C17 — the paging loop with a callback that may also REWRITE the record it is shown (the load callback of the cluster,
   BasicCluster.CheckAndPutLoadedRegion), and the load over an arbitrary warm cache: afterwards every record left in
   storage describes the cached region of its id, and every cached region that had a record still has one. *)
From Coq Require Import ZifyBool ZifyNat.
From PDV Require Import lib.Base lib.C17_Map gen.Gen_C17 model.C17_Storage proof.C17_PagingProof.
Local Open Scope Z_scope.
Local Open Scope list_scope.

(* ------------------------------------------------------------------------------------------ *)
(* 1. the paging theorem for callbacks with the rewrite hook                                  *)
(* ------------------------------------------------------------------------------------------ *)
Section LoopRw.
  Context {V C : Type}.
  Variable fails : nat -> amap V -> bool.
  Variable cb : C -> Z * V -> C * list Z.
  Variable rw : C -> Z * V -> option V.
  Variable min_limit : Z.
  Hypothesis min_pos : 1 <= min_limit.
  (* whatever its state, the callback only has records deleted that the scan has reached *)
  Hypothesis cb_behind : forall c it d, In d (snd (cb c it)) -> d <= fst it.

  Notation step := (step_item cb rw).

  (* helper lemmas of the Loop section of C17_PagingProof (closed over that section's context) *)
  Let Jt : C -> Z -> Prop := fun _ _ => True.
  Let Jt_mono : forall c b b', Jt c b -> b <= b' -> Jt c b' := fun _ _ _ _ _ => I.
  Let filter_dels_below := @filter_dels_below V C fails Jt Jt_mono.
  Let page_ok_filter := @page_ok_filter V C fails Jt Jt_mono.
  Let page_ok_last := @page_ok_last V C fails Jt Jt_mono.
  Let log2_half := @log2_half C Jt Jt_mono.
  Let firstn_short := @firstn_short V C fails Jt Jt_mono.
  Let nth_error_firstn_lt := @nth_error_firstn_lt V C fails min_limit Jt Jt_mono.

  Lemma in_range_below b hi k (v : V) : k < b -> in_range b hi (k, v) = false.
  Proof. intros H. unfold in_range; cbn [fst]. replace (b <=? k) with false by (symmetry; lia). reflexivity. Qed.

  Lemma filter_put_below : forall (m : amap V) k v b hi, k < b ->
    filter (in_range b hi) (put m k v) = filter (in_range b hi) m.
  Proof.
    induction m as [|[k' v'] r IH]; intros k v b hi Hk; cbn [put filter].
    - rewrite in_range_below by exact Hk. reflexivity.
    - destruct (k =? k') eqn:E.
      + apply Z.eqb_eq in E; subst k'. cbn [filter]. rewrite !in_range_below by exact Hk. reflexivity.
      + destruct (k <? k') eqn:E2.
        * cbn [filter]. rewrite (in_range_below b hi k v Hk). reflexivity.
        * cbn [filter]. rewrite IH by exact Hk. reflexivity.
  Qed.

  Lemma step_rw_eq m c nx (it : Z * V) :
    step (m, c, nx) it =
    (match rw c it with Some v' => put (fold_left del (snd (cb c it)) m) (fst it) v' | None => fold_left del (snd (cb c it)) m end,
     fst (cb c it), next_id (fst it)).
  Proof. unfold step_item. destruct (cb c it); reflexivity. Qed.

  Lemma process_page_rw : forall (p : amap V) lo m c nx,
    page_ok lo p -> 0 <= lo -> sorted_from 0 m ->
    let r := fold_left step p (m, c, nx) in
    sorted_from 0 (fst3 r) /\
    (forall b hi, (forall k v, In (k, v) p -> k < b) -> lo <= b ->
       filter (in_range b hi) (fst3 r) = filter (in_range b hi) m) /\
    (forall k v r0, p = r0 ++ [(k, v)] -> thd3 r = next_id k).
  Proof.
    induction p as [|[k v] p IH]; intros lo m c nx Hp Hlo Hs r.
    - subst r. cbn [fold_left fst3 snd3 thd3 fst snd].
      split; [exact Hs|]. split; [reflexivity|].
      intros kk vv rr E; destruct rr; discriminate.
    - destruct Hp as [Hk Hp].
      subst r. cbn [fold_left]. rewrite step_rw_eq. cbn [fst].
      set (c' := fst (cb c (k, v))) in *. set (dels := snd (cb c (k, v))) in *.
      assert (Hd : forall d, In d dels -> d <= k) by (intros d Hdin; apply (cb_behind c (k, v) d Hdin)).
      set (m1 := match rw c (k, v) with Some v' => put (fold_left del dels m) k v' | None => fold_left del dels m end).
      assert (Hs1 : sorted_from 0 m1).
      { subst m1. destruct (rw c (k, v)).
        - pose proof (put_sorted 0 (fold_left del dels m) k v0 (dels_sorted dels m 0 Hs)) as G.
          replace (Z.min 0 k) with 0 in G by lia. exact G.
        - apply dels_sorted. exact Hs. }
      assert (Hf1 : forall b hi, k < b -> filter (in_range b hi) m1 = filter (in_range b hi) m).
      { intros b hi Hb. subst m1. destruct (rw c (k, v)).
        - rewrite filter_put_below by exact Hb. apply filter_dels_below. intros d Hdin. specialize (Hd d Hdin). lia.
        - apply filter_dels_below. intros d Hdin. specialize (Hd d Hdin). lia. }
      specialize (IH (k + 1) m1 c' (next_id k) Hp ltac:(lia) Hs1).
      cbv zeta in IH. destruct IH as (I1 & I4 & I5).
      split; [exact I1|]. split.
      + intros b hi Hb Hlob.
        rewrite I4.
        * apply Hf1. specialize (Hb k v (or_introl eq_refl)). lia.
        * intros k' v' Hin. apply (Hb k' v'). right. exact Hin.
        * specialize (Hb k v (or_introl eq_refl)). lia.
      + intros k' v' r0 E. destruct r0 as [|x r0].
        * cbn in E. inversion E; subst. cbn [fold_left thd3 snd3 fst snd]. reflexivity.
        * cbn in E. inversion E; subst. apply (I5 k' v' r0 eq_refl).
  Qed.

  Lemma fold_step_rw_nx : forall (p : amap V) m c nx nx',
    fst (fold_left step p (m, c, nx)) = fst (fold_left step p (m, c, nx')).
  Proof.
    induction p as [|it p IH]; intros m c nx nx'; cbn [fold_left]; [reflexivity|].
    rewrite !step_rw_eq. reflexivity.
  Qed.

  Definition final_rw (m : amap V) (c : C) (items : amap V) : amap V * C := fst (fold_left step items (m, c, 0)).

  Theorem page_loop_rw_spec : forall fuel m next limit call c acc,
    sorted_from 0 m -> 0 <= next -> 1 <= limit ->
    (length (todo m next) + Z.to_nat (Z.log2 limit) < fuel)%nat ->
    let res := page_loop fails cb rw min_limit fuel m next limit call c acc in
    fst (fst (fst res)) <> RDiverged /\
    (fst (fst (fst res)) = RDone ->
       snd (fst (fst res)) = acc ++ todo m next /\ (snd (fst res), snd res) = final_rw m c (todo m next)) /\
    sorted_from 0 (snd (fst res)) /\
    ((forall n p, fails n p = false) -> fst (fst (fst res)) = RDone).
  Proof.
    induction fuel as [|fuel IH]; intros m next limit call c acc Hs Hn Hl Hf; [lia|].
    cbn [page_loop]. set (page := range m next range_end limit).
    assert (Hpage : page = firstn (Z.to_nat limit) (todo m next)) by reflexivity.
    destruct (fails call page) eqn:Ef.
    - destruct (min_limit <=? limit / 2) eqn:Em.
      + assert (2 <= limit).
        { destruct (Z.le_gt_cases 2 limit) as [G|G]; [exact G|].
          assert (limit = 1) by lia. subst limit. cbn in Em. lia. }
        pose proof (log2_half limit H).
        apply IH; try assumption; lia.
      + cbn [fst snd]. split; [discriminate|]. split; [discriminate|]. split; [exact Hs|].
        intros Hnf. rewrite Hnf in Ef. discriminate.
    - pose proof (page_ok_firstn (Z.to_nat limit) next (todo m next) (page_ok_filter next 0 m Hs Hn)) as Hok.
      rewrite <- Hpage in Hok.
      pose proof (process_page_rw page next m c next Hok Hn Hs) as P. cbv zeta in P.
      destruct P as (P1 & P3 & P4).
      destruct (fold_left step page (m, c, next)) as [[m' c'] next'] eqn:Efold.
      cbn [fst3 snd3 thd3 fst snd] in P1, P3, P4.
      assert (Hfinal_page : fst (fold_left step page (m, c, 0)) = (m', c')).
      { rewrite (fold_step_rw_nx page m c 0 next), Efold. reflexivity. }
      destruct (Z.of_nat (length page) <? limit) eqn:Elen.
      + cbn [orb fst snd]. split; [discriminate|]. split; [|split; [exact P1|reflexivity]]. intros _.
        assert (Hall : page = todo m next).
        { rewrite Hpage. apply firstn_short. rewrite <- Hpage. lia. }
        split; [rewrite Hall; reflexivity|].
        unfold final_rw. rewrite <- Hall. rewrite Hfinal_page. reflexivity.
      + cbn [orb].
        assert (Hlen : length page = Z.to_nat limit).
        { pose proof (firstn_le_length (Z.to_nat limit) (todo m next)) as G. rewrite <- Hpage in G. lia. }
        destruct (exists_last (l := page)) as (r0 & [k v] & Elast).
        { intros E. rewrite E in Hlen. cbn in Hlen. lia. }
        pose proof (P4 k v r0 Elast) as Hnext.
        assert (Hkeys : forall k' v', In (k', v') page -> k' < k + 1).
        { intros k' v' Hin. rewrite Elast in Hok, Hin. pose proof (page_ok_last r0 next k v Hok k' v' Hin). lia. }
        assert (Hkb : next <= k < range_end).
        { rewrite Elast in Hok. clear - Hok.
          assert (G : forall (q : amap V) b, page_ok b q -> forall a w, In (a, w) q -> b <= a < range_end).
          { induction q as [|[a0 w0] q IHq]; intros b Hq a w Hin; [contradiction|].
            destruct Hq as [Hq1 Hq2]. destruct Hin as [E|Hin]; [inversion E; subst; lia|].
            specialize (IHq _ Hq2 _ _ Hin). lia. }
          apply (G _ _ Hok k v). apply in_or_app. right. left. reflexivity. }
        assert (Hskip : skipn (length page) (todo m next) = filter (in_range (k + 1) range_end) m).
        { assert (Hnth : nth_error (todo m next) (length r0) = Some (k, v)).
          { assert (G : nth_error page (length r0) = Some (k, v)).
            { rewrite Elast. rewrite nth_error_app2 by lia. rewrite Nat.sub_diag. reflexivity. }
            rewrite Hpage in G. rewrite nth_error_firstn_lt in G; [exact G|].
            rewrite <- Hlen, Elast, app_length. cbn. lia. }
          assert (Hlp : length page = S (length r0)).
          { rewrite Elast, app_length. cbn. lia. }
          rewrite Hlp. symmetry.
          apply (filter_split_after next range_end m 0 (length r0) Hs) with (v := v); [|exact Hnth].
          apply nth_error_Some. unfold todo in Hnth. rewrite Hnth. discriminate. }
        assert (Hsplit0 : todo m next = page ++ skipn (length page) (todo m next)).
        { rewrite Hlen. rewrite Hpage. symmetry. apply firstn_skipn. }
        destruct (next' =? 0) eqn:Ez.
        * apply Z.eqb_eq in Ez. rewrite Hnext in Ez.
          assert (Hk : k = max_id) by (apply next_id_zero; [unfold range_end in Hkb; lia|exact Ez]).
          assert (Hnil : filter (in_range (k + 1) range_end) m = []).
          { rewrite Hk, <- range_end_val. clear. induction m as [|[a w] r IHr]; cbn [filter]; [reflexivity|].
            unfold in_range at 1; cbn [fst].
            replace ((range_end <=? a) && (a <? range_end)) with false by (symmetry; lia). exact IHr. }
          assert (Hall : page = todo m next) by (rewrite Hsplit0, Hskip, Hnil, app_nil_r; reflexivity).
          cbn [fst snd]. split; [discriminate|]. split; [|split; [exact P1|reflexivity]]. intros _.
          split; [rewrite Hall; reflexivity|].
          unfold final_rw. rewrite <- Hall. rewrite Hfinal_page. reflexivity.
        * apply Z.eqb_neq in Ez. rewrite Hnext in Ez.
          assert (Hk : k <> max_id) by (intros ->; apply Ez; reflexivity).
          assert (Hnext' : next' = k + 1).
          { rewrite Hnext. apply next_id_small. unfold range_end, max_id in *. lia. }
          assert (Htodo' : todo m' next' = skipn (length page) (todo m next)).
          { unfold todo at 1. rewrite Hnext'. rewrite (P3 (k + 1) range_end Hkeys ltac:(lia)). symmetry. exact Hskip. }
          assert (Hsplit : todo m next = page ++ todo m' next') by (rewrite Htodo'; exact Hsplit0).
          assert (Hmeasure : (length (todo m' next') + Z.to_nat (Z.log2 limit) < fuel)%nat).
          { rewrite Hsplit, app_length in Hf. lia. }
          specialize (IH m' next' limit (S call) c' (acc ++ page) P1 ltac:(lia) Hl Hmeasure).
          cbv zeta in IH. destruct IH as (I1 & I2 & I3 & I4).
          split; [exact I1|]. split; [|split; [exact I3|exact I4]]. intros Hd. destruct (I2 Hd) as [A B].
          split.
          -- rewrite A, Hsplit, app_assoc. reflexivity.
          -- rewrite B. unfold final_rw. rewrite Hsplit. rewrite fold_left_app.
             destruct (fold_left step page (m, c, 0)) as [[m2 c2] nx2] eqn:E0.
             cbn [fst] in Hfinal_page. inversion Hfinal_page; subst m2 c2. apply fold_step_rw_nx.
  Qed.
End LoopRw.

(* ------------------------------------------------------------------------------------------ *)
(* 2. the load over an arbitrary warm cache                                                   *)
(* ------------------------------------------------------------------------------------------ *)
Lemma find_id_In (c : cache) k v : find_id c k = Some v -> In (k, v) c.
Proof.
  unfold find_id. destruct (find (fun o => fst o =? k) c) as [[k' v']|] eqn:E; [|discriminate].
  intros H; inversion H; subst v'. apply find_some in E. destruct E as [E1 E2]. cbn [fst] in E2.
  apply Z.eqb_eq in E2. subst k'. exact E1.
Qed.
Lemma find_id_none (c : cache) k v : find_id c k = None -> ~ In (k, v) c.
Proof.
  unfold find_id. destruct (find (fun o => fst o =? k) c) as [[k' v']|] eqn:E; [discriminate|].
  intros _ Hin. pose proof (find_none _ _ E (k, v) Hin) as G. cbn [fst] in G. rewrite Z.eqb_refl in G. discriminate.
Qed.
Lemma nodup_same (c : cache) k v v' : NoDup (map fst c) -> In (k, v) c -> In (k, v') c -> v = v'.
Proof.
  induction c as [|[a w] c IH]; intros Hn H1 H2; [contradiction|].
  cbn [map fst] in Hn. inversion Hn as [|x l Hnot Hn']; subst.
  destruct H1 as [E1|H1]; destruct H2 as [E2|H2].
  - inversion E1; inversion E2; subst. reflexivity.
  - inversion E1; subst. exfalso. apply Hnot. apply in_map_iff. exists (k, v'). split; [reflexivity|exact H2].
  - inversion E2; subst. exfalso. apply Hnot. apply in_map_iff. exists (k, v). split; [reflexivity|exact H1].
  - apply (IH Hn' H1 H2).
Qed.

Lemma lookup_dels (dels : list Z) : forall (m : amap rv) id, sorted_from 0 m ->
  lookup (fold_left del dels m) id = if existsb (Z.eqb id) dels then None else lookup m id.
Proof.
  induction dels as [|d ds IH]; intros m id Hs; cbn [fold_left existsb]; [reflexivity|].
  rewrite IH by (apply del_sorted; exact Hs). rewrite (lookup_del 0) by exact Hs.
  destruct (existsb (Z.eqb id) ds); [rewrite orb_true_r; reflexivity|]. rewrite orb_false_r. reflexivity.
Qed.

(* the state after every record below `b` has been shown to the callback *)
Record WInv (m mc : amap rv) (c : cache) (b : Z) : Prop := {
  wi_sorted : sorted_from 0 mc;
  wi_nodup  : NoDup (map fst c);
  wi_ahead  : forall id, b <= id -> lookup mc id = lookup m id;
  wi_stored : forall id v, id < b -> lookup mc id = Some v -> In (id, v) c;
  wi_cached : forall id v, id < b -> In (id, v) c -> lookup m id <> None -> lookup mc id = Some v }.

Definition kept (k : Z) (v : rv) (o : Z * rv) : bool := negb (fst o =? k) && negb (intersects (snd o) v).

Lemma accepted_cache c k v : accepts c (k, v) = true -> fst (put_loaded c (k, v)) = (k, v) :: filter (kept k v) c.
Proof. intros Ha. unfold put_loaded. rewrite Ha. unfold check_and_put. rewrite Ha. reflexivity. Qed.
Lemma accepted_dels c k v : accepts c (k, v) = true ->
  snd (put_loaded c (k, v)) = filter (fun id => id <=? k) (map fst (evicted c (k, v))).
Proof. intros Ha. unfold put_loaded. rewrite Ha. unfold check_and_put. rewrite Ha. reflexivity. Qed.

Lemma nodup_filter_fst (f : Z * rv -> bool) (c : cache) : NoDup (map fst c) -> NoDup (map fst (filter f c)).
Proof.
  induction c as [|a c IH]; intros H; cbn [filter map]; [constructor|].
  cbn [map] in H. inversion H as [|x l Hnot Hn]; subst.
  destruct (f a); [|exact (IH Hn)]. cbn [map]. constructor; [|exact (IH Hn)].
  intros Hin. apply Hnot. apply in_map_iff in Hin. destruct Hin as [o [E Ho]]. apply filter_In in Ho.
  apply in_map_iff. exists o. split; [exact E|apply Ho].
Qed.

Lemma warm_step m mc c b k v nx :
  WInv m mc c b -> b <= k -> lookup m k = Some v -> (forall id, b <= id < k -> lookup m id = None) ->
  let r := step_item put_loaded rw_loaded (mc, c, nx) (k, v) in
  WInv m (fst (fst r)) (snd (fst r)) (k + 1).
Proof.
  intros [Hs Hn Ha H1 H2] Hbk Hmk Hgap r. subst r.
  assert (Hmck : lookup mc k = Some v) by (rewrite Ha by lia; exact Hmk).
  assert (Hgap1 : forall id w, id < k -> lookup mc id = Some w -> In (id, w) c).
  { intros id w Hid Hl. destruct (Z.lt_ge_cases id b) as [G|G]; [exact (H1 id w G Hl)|].
    rewrite Ha in Hl by lia. rewrite Hgap in Hl by lia. discriminate. }
  assert (Hgap2 : forall id w, id < k -> In (id, w) c -> lookup m id <> None -> lookup mc id = Some w).
  { intros id w Hid Hin Hne. destruct (Z.lt_ge_cases id b) as [G|G]; [exact (H2 id w G Hin Hne)|].
    exfalso. apply Hne. apply Hgap. lia. }
  unfold step_item. destruct (put_loaded c (k, v)) as [c' dels] eqn:Ep. cbn [fst snd].
  destruct (accepts c (k, v)) eqn:Eacc.
  - (* the record goes into the cache; what it pushes out behind the scan loses its record *)
    assert (Ec' : c' = (k, v) :: filter (kept k v) c) by (rewrite <- (accepted_cache c k v Eacc), Ep; reflexivity).
    assert (Ed : dels = filter (fun id => id <=? k) (map fst (evicted c (k, v)))) by (rewrite <- (accepted_dels c k v Eacc), Ep; reflexivity).
    assert (Erw : rw_loaded c (k, v) = None) by (unfold rw_loaded; rewrite Eacc; reflexivity).
    rewrite Erw.
    assert (Hdel_iff : forall id, existsb (Z.eqb id) dels = true <-> id <= k /\ exists w, In (id, w) c /\ id <> k /\ intersects w v = true).
    { intros id. rewrite existsb_exists. split.
      - intros [x [Hx E]]. apply Z.eqb_eq in E; subst x. rewrite Ed in Hx. apply filter_In in Hx. destruct Hx as [Hx Hle].
        apply Z.leb_le in Hle. split; [exact Hle|]. apply in_map_iff in Hx. destruct Hx as [[a w] [E Ho]]. cbn [fst] in E; subst a.
        unfold evicted in Ho. apply filter_In in Ho. destruct Ho as [Ho Hc]. cbn [fst snd] in Hc.
        apply andb_true_iff in Hc. destruct Hc as [Hc1 Hc2]. exists w. split; [exact Ho|]. split; [|exact Hc2].
        apply negb_true_iff in Hc1. apply Z.eqb_neq in Hc1. exact Hc1.
      - intros [Hle [w [Hin [Hne Hi]]]]. exists id. split; [|apply Z.eqb_refl].
        rewrite Ed. apply filter_In. split; [|apply Z.leb_le; exact Hle].
        apply in_map_iff. exists (id, w). split; [reflexivity|]. unfold evicted. apply filter_In. split; [exact Hin|].
        cbn [fst snd]. rewrite Hi. replace (id =? k) with false by (symmetry; lia). reflexivity. }
    split.
    + apply dels_sorted. exact Hs.
    + rewrite Ec'. cbn [map fst]. constructor; [|apply nodup_filter_fst; exact Hn].
      intros Hin. apply in_map_iff in Hin. destruct Hin as [[a w] [E Ho]]. cbn [fst] in E; subst a.
      apply filter_In in Ho. destruct Ho as [_ Hc]. unfold kept in Hc. cbn [fst] in Hc. rewrite Z.eqb_refl in Hc. discriminate.
    + intros id Hid. rewrite lookup_dels by exact Hs.
      destruct (existsb (Z.eqb id) dels) eqn:E; [|apply Ha; lia].
      apply Hdel_iff in E. lia.
    + intros id w Hid Hl. rewrite lookup_dels in Hl by exact Hs.
      destruct (existsb (Z.eqb id) dels) eqn:E; [discriminate|].
      rewrite Ec'. destruct (Z.eq_dec id k) as [->|Hne].
      * left. rewrite Hmck in Hl. inversion Hl. reflexivity.
      * right. apply filter_In. split; [apply Hgap1; [lia|exact Hl]|].
        unfold kept. cbn [fst snd]. replace (id =? k) with false by (symmetry; lia). cbn [negb andb].
        destruct (intersects w v) eqn:Ei; [|reflexivity]. exfalso.
        assert (G : existsb (Z.eqb id) dels = true).
        { apply Hdel_iff. split; [lia|]. exists w. split; [apply Hgap1; [lia|exact Hl]|]. split; [exact Hne|exact Ei]. }
        rewrite G in E. discriminate.
    + intros id w Hid Hin Hne. rewrite lookup_dels by exact Hs. rewrite Ec' in Hin.
      destruct Hin as [E|Hin].
      * inversion E; subst id w.
        destruct (existsb (Z.eqb k) dels) eqn:E2; [|exact Hmck].
        apply Hdel_iff in E2. destruct E2 as [_ [w [_ [G _]]]]. contradiction.
      * apply filter_In in Hin. destruct Hin as [Hin Hk]. unfold kept in Hk. cbn [fst snd] in Hk.
        apply andb_true_iff in Hk. destruct Hk as [Hk1 Hk2]. apply negb_true_iff in Hk1, Hk2. apply Z.eqb_neq in Hk1.
        destruct (existsb (Z.eqb id) dels) eqn:E2.
        -- apply Hdel_iff in E2. destruct E2 as [_ [w' [Hin' [_ Hi]]]].
           rewrite (nodup_same c id w w' Hn Hin Hin') in Hk2. rewrite Hk2 in Hi. discriminate.
        -- apply Hgap2; [lia|exact Hin|exact Hne].
  - (* rejected *)
    destruct (find_id c k) as [v'|] eqn:Ef.
    + (* the cache holds a newer version of this region: the record is brought up to date *)
      assert (Ec' : c' = c /\ dels = []).
      { unfold put_loaded in Ep. rewrite Eacc in Ep. cbn [fst] in Ep. rewrite Ef in Ep. inversion Ep. split; reflexivity. }
      destruct Ec' as [-> ->]. cbn [fold_left].
      assert (Erw : rw_loaded c (k, v) = Some v') by (unfold rw_loaded; rewrite Eacc; cbn [fst]; exact Ef).
      rewrite Erw. cbn [fst].
      pose proof (find_id_In c k v' Ef) as Hkin.
      split.
      * pose proof (put_sorted 0 mc k v' Hs) as G. replace (Z.min 0 k) with 0 in G; [exact G|].
        pose proof (sorted_from_In 0 m k v) as G2. clear - Hmck Hs. 
        assert (0 <= k); [|lia].
        destruct (Z.lt_ge_cases k 0) as [L|L]; [|lia]. rewrite (lookup_below 0 mc k Hs L) in Hmck. discriminate.
      * exact Hn.
      * intros id Hid. rewrite (lookup_put 0) by exact Hs. replace (id =? k) with false by (symmetry; lia). apply Ha. lia.
      * intros id w Hid Hl. rewrite (lookup_put 0) in Hl by exact Hs. destruct (id =? k) eqn:E.
        -- apply Z.eqb_eq in E; subst id. inversion Hl; subst w. exact Hkin.
        -- apply Z.eqb_neq in E. apply Hgap1; [lia|exact Hl].
      * intros id w Hid Hin Hne. rewrite (lookup_put 0) by exact Hs. destruct (id =? k) eqn:E.
        -- apply Z.eqb_eq in E; subst id. rewrite (nodup_same c k w v' Hn Hin Hkin). reflexivity.
        -- apply Z.eqb_neq in E. apply Hgap2; [lia|exact Hin|exact Hne].
    + (* stale and nothing of that id is served: the record goes *)
      assert (Ec' : c' = c /\ dels = [k]).
      { unfold put_loaded in Ep. rewrite Eacc in Ep. cbn [fst] in Ep. rewrite Ef in Ep. inversion Ep. split; reflexivity. }
      destruct Ec' as [-> ->]. cbn [fold_left].
      assert (Erw : rw_loaded c (k, v) = None) by (unfold rw_loaded; rewrite Eacc; cbn [fst]; exact Ef).
      rewrite Erw.
      split.
      * apply del_sorted. exact Hs.
      * exact Hn.
      * intros id Hid. rewrite (lookup_del 0) by exact Hs. replace (id =? k) with false by (symmetry; lia). apply Ha. lia.
      * intros id w Hid Hl. rewrite (lookup_del 0) in Hl by exact Hs. destruct (id =? k) eqn:E; [discriminate|].
        apply Z.eqb_neq in E. apply Hgap1; [lia|exact Hl].
      * intros id w Hid Hin Hne. rewrite (lookup_del 0) by exact Hs. destruct (id =? k) eqn:E.
        -- apply Z.eqb_eq in E; subst id. exfalso. exact (find_id_none c k w Ef Hin).
        -- apply Z.eqb_neq in E. apply Hgap2; [lia|exact Hin|exact Hne].
Qed.

Lemma loaded_deletes_behind c r id : In id (snd (put_loaded c r)) -> id <= fst r.
Proof.
  unfold put_loaded. destruct (accepts c r).
  - cbn [snd]. intros H. apply filter_In in H. destruct H as [_ H]. apply Z.leb_le. exact H.
  - destruct (find_id c (fst r)); cbn [snd In]; intros H; [contradiction|]. destruct H as [<-|[]]. lia.
Qed.

Lemma warm_fold : forall (p : amap rv) m mc c b nx,
  WInv m mc c b -> sorted_from b p -> (forall id, b <= id -> lookup m id = lookup p id) ->
  let r := fold_left (step_item put_loaded rw_loaded) p (mc, c, nx) in
  forall id v, (lookup (fst (fst r)) id = Some v -> In (id, v) (snd (fst r))) /\
               (In (id, v) (snd (fst r)) -> lookup m id <> None -> lookup (fst (fst r)) id = Some v).
Proof.
  induction p as [|[k v] p IH]; intros m mc c b nx HW Hs Hl r; subst r.
  - cbn [fold_left fst snd]. destruct HW as [W1 W2 W3 W4 W5]. intros id w. split.
    + intros H. destruct (Z.lt_ge_cases id b) as [G|G]; [exact (W4 id w G H)|].
      rewrite W3, Hl in H by lia. discriminate.
    + intros Hin Hne. destruct (Z.lt_ge_cases id b) as [G|G]; [exact (W5 id w G Hin Hne)|].
      exfalso. apply Hne. rewrite Hl by lia. reflexivity.
  - destruct Hs as [Hbk Hs]. cbn [fold_left].
    assert (Hmk : lookup m k = Some v) by (rewrite Hl by lia; cbn [lookup]; rewrite Z.eqb_refl; reflexivity).
    assert (Hgap : forall id, b <= id < k -> lookup m id = None).
    { intros id Hid. rewrite Hl by lia. cbn [lookup]. replace (id =? k) with false by (symmetry; lia).
      replace (id <? k) with true by (symmetry; lia). reflexivity. }
    pose proof (warm_step m mc c b k v nx HW Hbk Hmk Hgap) as HW'. cbv zeta in HW'.
    destruct (step_item put_loaded rw_loaded (mc, c, nx) (k, v)) as [[mc' c'] nx'] eqn:E. cbn [fst snd] in HW'.
    apply (IH m mc' c' (k + 1) nx' HW' Hs).
    intros id Hid. rewrite Hl by lia. cbn [lookup]. replace (id =? k) with false by (symmetry; lia).
    replace (id <? k) with false by (symmetry; lia). reflexivity.
Qed.

Lemma todo_all : forall (m : amap rv), (forall k v, In (k, v) m -> 0 <= k < range_end) -> todo m 0 = m.
Proof.
  induction m as [|[k v] m IH]; intros H; unfold todo in *; cbn [filter]; [reflexivity|].
  pose proof (H k v (or_introl eq_refl)) as Hk.
  unfold in_range at 1; cbn [fst].
  replace ((0 <=? k) && (k <? range_end)) with true by (symmetry; lia).
  f_equal. apply IH. intros k' v' Hin. apply (H k' v'). right. exact Hin.
Qed.

(* After a load over ANY warm cache (ids pairwise different; the ranges need not even be disjoint): the load ends, every
   record left in storage describes the cached region of its id, and every cached region that had a record still has one
   - and it is the record of exactly that version. For every page limit the loop goes through (no LoadRange failures). *)
Theorem warm_load_pf : forall (m : amap rv) (c0 : cache),
  sorted_from 0 m -> (forall k v, In (k, v) m -> k < two64) -> NoDup (map fst c0) ->
  let res := page_loop never_fails put_loaded rw_loaded region_limit_min (fuel_for m region_limit0) m 0 region_limit0 O c0 [] in
  fst (fst (fst res)) = RDone /\
  snd (fst (fst res)) = m /\
  (forall id v, lookup (snd (fst res)) id = Some v -> In (id, v) (snd res)) /\
  (forall id v, In (id, v) (snd res) -> lookup m id <> None -> lookup (snd (fst res)) id = Some v).
Proof.
  intros m c0 Hs Hb Hn res.
  assert (Hall : todo m 0 = m).
  { apply todo_all. intros k v Hin. split; [exact (sorted_from_In 0 m k v Hs Hin)|exact (Hb k v Hin)]. }
  assert (Hmin : 1 <= region_limit_min) by (vm_compute; discriminate).
  assert (Hlim : 1 <= region_limit0) by (vm_compute; discriminate).
  pose proof (page_loop_rw_spec (@never_fails rv) put_loaded rw_loaded region_limit_min Hmin
                loaded_deletes_behind
                (fuel_for m region_limit0) m 0 region_limit0 O c0 [] Hs ltac:(lia) Hlim) as P.
  rewrite Hall in P. specialize (P ltac:(unfold fuel_for; lia)). cbv zeta in P. fold res in P.
  destruct P as (_ & P2 & _ & P4).
  assert (Hdone : fst (fst (fst res)) = RDone) by (apply P4; reflexivity).
  destruct (P2 Hdone) as [A B]. split; [exact Hdone|]. split; [exact A|].
  assert (HW : WInv m m c0 0).
  { split; [exact Hs|exact Hn|reflexivity| |].
    - intros id v Hid Hl. rewrite (lookup_below 0 m id Hs Hid) in Hl. discriminate.
    - intros id v Hid _ Hne. exfalso. apply Hne. exact (lookup_below 0 m id Hs Hid). }
  pose proof (warm_fold m m m c0 0 0 HW Hs (fun id _ => eq_refl)) as F. cbv zeta in F.
  unfold final_rw in B. rewrite <- B in F. cbn [fst snd] in F.
  split; intros id v; apply (F id v).
Qed.
