(* C08 — the steps build_joint emits are exactly the joint script of proof/C08_JointScript.v. *)
From Coq Require Import String Sorting.Sorted.
From PDV Require Import lib.Base gen.Gen_C08 model.C08_Steps model.C08_Builder
     proof.C08_ListFacts proof.C08_PmapFacts proof.C08_SimPhases proof.C08_JointScript proof.C08_PrepareFacts proof.C08_Skel.
Local Open Scope list_scope.
Local Open Scope Z_scope.

(* the fields no exec* function touches *)
Definition static (b : bstate) :=
  (b_cluster b, b_origin b, b_origin_leader b, b_unhealthy b, b_target b, b_roles b, b_allow_demote b, b_use_joint b, b_light b, b_force b).

Definition f_voter_add (a : peer) : option peer := if is_learner a then None else Some a.
Definition f_voter_rem (p : peer) : option peer := if is_learner p then None else Some (Peer (pstore p) (pid p) Learner).

Lemma joint_adds_spec : forall A b,
  let b1 := fold_left joint_add_one A b in
  b_steps b1 = b_steps b ++ add_steps (b_light b) A /\
  b_promote b1 = cfold f_voter_add A (b_promote b) /\
  b_remove b1 = b_remove b /\ b_demote b1 = b_demote b /\
  static b1 = static b /\ b_tleader b1 = b_tleader b /\ b_cur_leader b1 = b_cur_leader b.
Proof.
  induction A as [|a A IH]; intros b; cbn [fold_left].
  - cbn. rewrite app_nil_r. repeat split; reflexivity.
  - destruct (IH (joint_add_one b a)) as (H1 & H2 & H3 & H4 & H5 & H6 & H7).
    assert (S1 : b_steps (joint_add_one b a) = b_steps b ++ [add_step (b_light b) (pstore a) (pid a)]).
    { unfold joint_add_one, add_step, exec_add. destruct (is_learner a) eqn:E; cbn [negb]; destruct (b_light b); cbn;
        try rewrite E; cbn; reflexivity. }
    assert (S2 : b_promote (joint_add_one b a) = match f_voter_add a with Some n => pm_set (b_promote b) n | None => b_promote b end).
    { unfold joint_add_one, f_voter_add, exec_add. destruct (is_learner a); reflexivity. }
    assert (S3 : b_remove (joint_add_one b a) = b_remove b /\ b_demote (joint_add_one b a) = b_demote b /\
                 static (joint_add_one b a) = static b /\ b_tleader (joint_add_one b a) = b_tleader b /\
                 b_cur_leader (joint_add_one b a) = b_cur_leader b /\ b_light (joint_add_one b a) = b_light b).
    { unfold joint_add_one, exec_add. destruct (is_learner a); cbn; repeat split; reflexivity. }
    destruct S3 as (S3 & S4 & S5 & S6 & S7 & S8).
    repeat split.
    + rewrite H1, S1, S8, <- app_assoc. reflexivity.
    + rewrite H2, S2. reflexivity.
    + congruence.
    + congruence.
    + congruence.
    + congruence.
    + congruence.
Qed.

Definition dr_step (b' : bstate) (p : peer) : bstate :=
  if negb (is_learner p)
  then set_pending b' (b_add b') (b_remove b') (b_promote b') (pm_set (b_demote b') (Peer (pstore p) (pid p) Learner))
  else b'.

Lemma dr_fold_spec : forall l b0,
  b_demote (fold_left dr_step l b0) = cfold f_voter_rem l (b_demote b0) /\
  b_steps (fold_left dr_step l b0) = b_steps b0 /\ b_promote (fold_left dr_step l b0) = b_promote b0 /\
  b_remove (fold_left dr_step l b0) = b_remove b0 /\ b_add (fold_left dr_step l b0) = b_add b0 /\
  static (fold_left dr_step l b0) = static b0 /\ b_tleader (fold_left dr_step l b0) = b_tleader b0 /\
  b_cur_leader (fold_left dr_step l b0) = b_cur_leader b0.
Proof.
  induction l as [|p l IH]; intros b0; cbn [fold_left]; [repeat split; reflexivity|].
  destruct (IH (dr_step b0 p)) as (H1 & H2 & H3 & H4 & H5 & H6 & H7 & H8).
  rewrite H1, H2, H3, H4, H5, H6, H7, H8. unfold cfold; cbn [fold_left]. unfold dr_step, f_voter_rem.
  destruct (is_learner p); cbn [negb]; repeat split; reflexivity.
Qed.

Lemma joint_demote_removed_spec b :
  let b3 := joint_demote_removed b in
  b_demote b3 = cfold f_voter_rem (b_remove b) (b_demote b) /\
  b_steps b3 = b_steps b /\ b_promote b3 = b_promote b /\ b_remove b3 = b_remove b /\ b_add b3 = b_add b /\
  static b3 = static b /\ b_tleader b3 = b_tleader b /\ b_cur_leader b3 = b_cur_leader b.
Proof. apply (dr_fold_spec (b_remove b) b). Qed.

Lemma joint_remove_all_spec b :
  b_steps (joint_remove_all b) = b_steps b ++ remove_steps (b_remove b).
Proof.
  unfold joint_remove_all.
  assert (G : forall l b0, b_steps (fold_left (fun b' p => let b1 := exec_remove b' p in set_kinds b1 (b_kleader b1) true) l b0)
                           = b_steps b0 ++ remove_steps l).
  { induction l as [|p l IH]; intros b0; cbn [fold_left remove_steps map]; [rewrite app_nil_r; reflexivity|].
    rewrite IH. cbn. rewrite <- app_assoc. reflexivity. }
  apply G.
Qed.

(* the chosen target leader is a peer of the target that allowLeader accepts *)
Lemma pick_target_leader_spec b :
  pick_target_leader b = 0 \/
  exists p, pm_get (b_target b) (pick_target_leader b) = Some p /\ allow_leader b p (b_force b) = true.
Proof.
  unfold pick_target_leader.
  assert (G : forall l best,
             (best = 0 \/ exists p, pm_get (b_target b) best = Some p /\ allow_leader b p (b_force b) = true) ->
             let r := fold_left (fun best st =>
                         match pm_get (b_target b) st with
                         | None => best
                         | Some p =>
                             if negb (allow_leader b p (b_force b)) then best
                             else if match xr_get (b_roles b) st with Some XFollower => true | _ => false end then best
                             else if best =? 0 then st
                             else if better_leader b Gen_C08.leader_prefs best st then st else best
                         end) l best in
             r = 0 \/ exists p, pm_get (b_target b) r = Some p /\ allow_leader b p (b_force b) = true).
  { induction l as [|st l IH]; intros best H; cbn [fold_left]; [exact H|].
    apply IH. destruct (pm_get (b_target b) st) as [p|] eqn:E; [|exact H].
    destruct (allow_leader b p (b_force b)) eqn:Ea; cbn [negb]; [|exact H].
    destruct (match xr_get (b_roles b) st with Some XFollower => true | _ => false end); [exact H|].
    destruct (best =? 0); [right; exists p; auto|].
    destruct (better_leader b leader_prefs best st); [right; exists p; auto|exact H]. }
  apply G. left. reflexivity.
Qed.

Lemma allow_leader_role b p f : allow_leader b p f = true -> prole p = Voter \/ prole p = Incoming.
Proof.
  unfold allow_leader. rewrite no_leader_roles_ok. destruct (prole p); cbn; intros H; try discriminate; auto.
Qed.
