(* C08 — the steps build_joint emits are exactly the joint script of proof/C08_JointScript.v. *)
From Coq Require Import String Sorting.Sorted.
From PDV Require Import lib.Base gen.Gen_C08 model.C08_Steps model.C08_Builder
     proof.C08_ListFacts proof.C08_PmapFacts proof.C08_SimPhases proof.C08_JointScript proof.C08_PrepareFacts proof.C08_Skel.
Local Open Scope list_scope.
Local Open Scope Z_scope.

(* the fields no exec* function touches *)
Definition static (b : bstate) :=
  (b_cluster b, b_origin b, b_origin_leader b, b_unhealthy b, b_target b, b_roles b, b_allow_demote b, b_use_joint b, b_light b, b_force b).

Definition f_voter_add (a : peer) : option peer := if is_learner a then None else Some a.
Definition f_voter_rem (p : peer) : option peer := if is_learner p then None else Some (Peer (pstore p) (pid p) Learner).

Lemma joint_adds_spec : forall A b,
  let b1 := fold_left joint_add_one A b in
  b_steps b1 = b_steps b ++ add_steps (b_light b) A /\
  b_promote b1 = cfold f_voter_add A (b_promote b) /\
  b_remove b1 = b_remove b /\ b_demote b1 = b_demote b /\
  static b1 = static b /\ b_tleader b1 = b_tleader b /\ b_cur_leader b1 = b_cur_leader b.
Proof.
  induction A as [|a A IH]; intros b; cbn [fold_left].
  - cbn. rewrite app_nil_r. repeat split; reflexivity.
  - destruct (IH (joint_add_one b a)) as (H1 & H2 & H3 & H4 & H5 & H6 & H7).
    assert (S1 : b_steps (joint_add_one b a) = b_steps b ++ [add_step (b_light b) (pstore a) (pid a)]).
    { unfold joint_add_one, add_step, exec_add. destruct (is_learner a) eqn:E; cbn [negb]; destruct (b_light b); cbn;
        try rewrite E; cbn; reflexivity. }
    assert (S2 : b_promote (joint_add_one b a) = match f_voter_add a with Some n => pm_set (b_promote b) n | None => b_promote b end).
    { unfold joint_add_one, f_voter_add, exec_add. destruct (is_learner a); reflexivity. }
    assert (S3 : b_remove (joint_add_one b a) = b_remove b /\ b_demote (joint_add_one b a) = b_demote b /\
                 static (joint_add_one b a) = static b /\ b_tleader (joint_add_one b a) = b_tleader b /\
                 b_cur_leader (joint_add_one b a) = b_cur_leader b /\ b_light (joint_add_one b a) = b_light b).
    { unfold joint_add_one, exec_add. destruct (is_learner a); cbn; repeat split; reflexivity. }
    destruct S3 as (S3 & S4 & S5 & S6 & S7 & S8).
    repeat split.
    + rewrite H1, S1, S8, <- app_assoc. reflexivity.
    + rewrite H2, S2. reflexivity.
    + congruence.
    + congruence.
    + congruence.
    + congruence.
    + congruence.
Qed.

Definition dr_step (b' : bstate) (p : peer) : bstate :=
  if negb (is_learner p)
  then set_pending b' (b_add b') (b_remove b') (b_promote b') (pm_set (b_demote b') (Peer (pstore p) (pid p) Learner))
  else b'.

Lemma dr_fold_spec : forall l b0,
  b_demote (fold_left dr_step l b0) = cfold f_voter_rem l (b_demote b0) /\
  b_steps (fold_left dr_step l b0) = b_steps b0 /\ b_promote (fold_left dr_step l b0) = b_promote b0 /\
  b_remove (fold_left dr_step l b0) = b_remove b0 /\ b_add (fold_left dr_step l b0) = b_add b0 /\
  static (fold_left dr_step l b0) = static b0 /\ b_tleader (fold_left dr_step l b0) = b_tleader b0 /\
  b_cur_leader (fold_left dr_step l b0) = b_cur_leader b0.
Proof.
  induction l as [|p l IH]; intros b0; cbn [fold_left]; [repeat split; reflexivity|].
  destruct (IH (dr_step b0 p)) as (H1 & H2 & H3 & H4 & H5 & H6 & H7 & H8).
  rewrite H1, H2, H3, H4, H5, H6, H7, H8. unfold cfold; cbn [fold_left]. unfold dr_step, f_voter_rem.
  destruct (is_learner p); cbn [negb]; repeat split; reflexivity.
Qed.

Lemma joint_demote_removed_spec b :
  let b3 := joint_demote_removed b in
  b_demote b3 = cfold f_voter_rem (b_remove b) (b_demote b) /\
  b_steps b3 = b_steps b /\ b_promote b3 = b_promote b /\ b_remove b3 = b_remove b /\ b_add b3 = b_add b /\
  static b3 = static b /\ b_tleader b3 = b_tleader b /\ b_cur_leader b3 = b_cur_leader b.
Proof. apply (dr_fold_spec (b_remove b) b). Qed.

Lemma joint_remove_all_spec b :
  b_steps (joint_remove_all b) = b_steps b ++ remove_steps (b_remove b).
Proof.
  unfold joint_remove_all.
  assert (G : forall l b0, b_steps (fold_left (fun b' p => let b1 := exec_remove b' p in set_kinds b1 (b_kleader b1) true) l b0)
                           = b_steps b0 ++ remove_steps l).
  { induction l as [|p l IH]; intros b0; cbn [fold_left remove_steps map]; [rewrite app_nil_r; reflexivity|].
    rewrite IH. cbn. rewrite <- app_assoc. reflexivity. }
  apply G.
Qed.

(* the chosen target leader is a peer of the target that allowLeader accepts *)
Lemma pick_target_leader_spec b :
  pick_target_leader b = 0 \/
  exists p, pm_get (b_target b) (pick_target_leader b) = Some p /\ allow_leader b p (b_force b) = true.
Proof.
  unfold pick_target_leader.
  assert (G : forall l best,
             (best = 0 \/ exists p, pm_get (b_target b) best = Some p /\ allow_leader b p (b_force b) = true) ->
             let r := fold_left (fun best st =>
                         match pm_get (b_target b) st with
                         | None => best
                         | Some p =>
                             if negb (allow_leader b p (b_force b)) then best
                             else if match xr_get (b_roles b) st with Some XFollower => true | _ => false end then best
                             else if best =? 0 then st
                             else if better_leader b Gen_C08.leader_prefs best st then st else best
                         end) l best in
             r = 0 \/ exists p, pm_get (b_target b) r = Some p /\ allow_leader b p (b_force b) = true).
  { induction l as [|st l IH]; intros best H; cbn [fold_left]; [exact H|].
    apply IH. destruct (pm_get (b_target b) st) as [p|] eqn:E; [|exact H].
    destruct (allow_leader b p (b_force b)) eqn:Ea; cbn [negb]; [|exact H].
    destruct (match xr_get (b_roles b) st with Some XFollower => true | _ => false end); [exact H|].
    destruct (best =? 0); [right; exists p; auto|].
    destruct (better_leader b leader_prefs best st); [right; exists p; auto|exact H]. }
  apply G. left. reflexivity.
Qed.

Lemma allow_leader_role b p f : allow_leader b p f = true -> prole p = Voter \/ prole p = Incoming.
Proof.
  unfold allow_leader. rewrite no_leader_roles_ok. destruct (prole p); cbn; intros H; try discriminate; auto.
Qed.

Definition Ovoter (b : bstate) (st : Z) : bool := match pm_get (b_origin b) st with Some p => negb (is_learner p) | None => false end.
Definition Tvoter (b : bstate) (st : Z) : bool := match pm_get (b_target b) st with Some p => negb (is_learner p) | None => false end.

Definition joint_P (b : bstate) : list (Z * Z) := pairs_of (cfold f_voter_add (b_add b) (b_promote b)).
Definition joint_D (b : bstate) : list (Z * Z) := pairs_of (cfold f_voter_rem (b_remove b) (b_demote b)).
Definition joint_tl (b : bstate) : Z := b_tleader (set_target_leader_if_not_exist (fold_left joint_add_one (b_add b) b)).

Lemma static_fields b b' : static b' = static b ->
  b_cluster b' = b_cluster b /\ b_origin b' = b_origin b /\ b_origin_leader b' = b_origin_leader b /\ b_target b' = b_target b /\
  b_roles b' = b_roles b /\ b_light b' = b_light b /\ b_force b' = b_force b.
Proof. unfold static. intros H. inversion H. repeat split; assumption. Qed.

Lemma kt_fields bb to kl kr :
  let bt := set_kinds (exec_transfer bb to) kl kr in
  b_steps bt = b_steps bb ++ [TransferLeader (b_cur_leader bb) to] /\ b_remove bt = b_remove bb /\
  b_promote bt = b_promote bb /\ b_demote bt = b_demote bb /\ b_origin_leader bt = b_origin_leader bb /\ b_tleader bt = b_tleader bb.
Proof. repeat split; reflexivity. Qed.

Lemma v2_fields bb tr :
  let bv := exec_change_v2 bb true tr in
  b_steps bv =
    b_steps bb ++ ChangePeerV2Enter (pairs_of (b_promote bb)) (pairs_of (b_demote bb))
    :: (if tr && negb (b_origin_leader bb =? b_tleader bb) then [TransferLeader (b_cur_leader bb) (b_tleader bb)] else [])
    ++ [ChangePeerV2Leave (pairs_of (b_promote bb)) (pairs_of (b_demote bb))] /\
  b_remove bv = b_remove bb /\
  (tr = false -> b_cur_leader bv = b_cur_leader bb).
Proof.
  unfold exec_change_v2. destruct (tr && negb (b_origin_leader bb =? b_tleader bb)) eqn:E.
  - cbn. rewrite E. cbn. rewrite <- !app_assoc. cbn. repeat split; try reflexivity. intros ->. discriminate.
  - cbn. rewrite E. cbn. rewrite <- !app_assoc. cbn. repeat split; reflexivity.
Qed.

Lemma build_joint_steps b bF :
  b_steps b = [] -> b_cur_leader b = b_origin_leader b -> b_origin_leader b <> 0 -> Tvoter b (joint_tl b) = true ->
  build_joint b = Some bF ->
  let tl := joint_tl b in
  let ol := b_origin_leader b in
  tl <> 0 /\
  exists m,
    b_steps bF = joint_plan (b_light b) (b_add b) (joint_P b) (joint_D b) (b_remove b) m ol tl /\
    match m with
    | TBefore => ol <> tl /\ Ovoter b tl = true
    | TStay => ol = tl
    | TAfter => ol <> tl /\ Ovoter b tl = false /\ Tvoter b ol = true
    | TInside => ol <> tl /\ Ovoter b tl = false /\ Tvoter b ol = false
    end.
Proof.
  intros Hs0 Hcl Hol0 Htv Hb tl ol. unfold build_joint in Hb. cbv zeta in Hb.
  set (b1 := fold_left joint_add_one (b_add b) b) in *.
  destruct (joint_adds_spec (b_add b) b) as (A1 & A2 & A3 & A4 & A5 & A6 & A7). fold b1 in A1, A2, A3, A4, A5, A6, A7.
  set (b2 := set_target_leader_if_not_exist b1) in *.
  assert (B2 : b_steps b2 = b_steps b1 /\ b_promote b2 = b_promote b1 /\ b_remove b2 = b_remove b1 /\ b_demote b2 = b_demote b1 /\
               static b2 = static b1 /\ b_cur_leader b2 = b_cur_leader b1).
  { unfold b2, set_target_leader_if_not_exist. destruct (negb (b_tleader b1 =? 0)); repeat split; reflexivity. }
  destruct B2 as (B1 & B3 & B4 & B5 & B6 & B7).
  change (b_tleader b2) with tl in Hb.
  destruct (tl =? 0) eqn:Etl; [discriminate|]. apply Z.eqb_neq in Etl. split; [exact Etl|].
  destruct (joint_demote_removed_spec b2) as (C1 & C2 & C3 & C4 & C5 & C6 & C7 & C8).
  set (b3 := joint_demote_removed b2) in *.
  destruct (static_fields _ _ A5) as (S1 & S2 & S3 & S4 & S5 & S6 & S7).
  destruct (static_fields _ _ B6) as (T1 & T2 & T3 & T4 & T5 & T6 & T7).
  destruct (static_fields _ _ C6) as (U1 & U2 & U3 & U4 & U5 & U6 & U7).
  assert (Eol : b_origin_leader b3 = ol) by (unfold ol; congruence).
  assert (Etl3 : b_tleader b3 = tl) by (rewrite C7; reflexivity).
  assert (Eor : b_origin b3 = b_origin b) by congruence.
  assert (Eta : b_target b3 = b_target b) by congruence.
  assert (Ecl : b_cur_leader b3 = ol) by (unfold ol; congruence).
  assert (Est : b_steps b3 = add_steps (b_light b) (b_add b)) by (rewrite C2, B1, A1, Hs0; reflexivity).
  assert (EP : pairs_of (b_promote b3) = joint_P b) by (unfold joint_P; rewrite C3, B3, A2; reflexivity).
  assert (ED : pairs_of (b_demote b3) = joint_D b) by (unfold joint_D; rewrite C1, B4, B5, A3, A4; reflexivity).
  assert (ER : b_remove b3 = b_remove b) by congruence.
  rewrite Eol, Etl3, Eor, Eta in Hb.
  assert (E0 : (ol =? 0) = false) by (apply Z.eqb_neq; exact Hol0).
  rewrite E0 in Hb. cbn [orb] in Hb.
  unfold joint_plan, Ovoter, Tvoter.
  destruct (match pm_get (b_origin b) tl with Some p => negb (is_learner p) | None => false end) eqn:Eov.
  - (* target leader is a voter of the origin: transfer first *)
    destruct (ol =? tl) eqn:Eot; cbn [negb] in Hb.
    + apply Z.eqb_eq in Eot. exists TStay. inversion Hb; subst bF; clear Hb.
      rewrite joint_remove_all_spec. destruct (v2_fields b3 false) as (V1 & V2 & _). rewrite V1, V2, Est, EP, ED, ER. cbn [andb app].
      rewrite <- app_assoc. cbn [app]. split; [reflexivity|exact Eot].
    + apply Z.eqb_neq in Eot. exists TBefore. inversion Hb; subst bF; clear Hb.
      rewrite joint_remove_all_spec.
      destruct (kt_fields b3 tl true (b_kregion b3)) as (K1 & K2 & K3 & K4 & K5 & K6).
      set (bt := set_kinds (exec_transfer b3 tl) true (b_kregion b3)) in *.
      destruct (v2_fields bt false) as (V1 & V2 & _). rewrite V1, V2, K1, K2, K3, K4, Est, EP, ED, ER, Ecl. cbn [andb app].
      rewrite <- !app_assoc. cbn [app]. split; [reflexivity|]. split; [exact Eot|reflexivity].
  - destruct (match pm_get (b_target b) ol with Some p => negb (is_learner p) | None => false end) eqn:Etv.
    + (* the origin leader stays a voter: change first, transfer afterwards *)
      destruct (ol =? tl) eqn:Eot; cbn [negb] in Hb.
      * apply Z.eqb_eq in Eot. exists TStay. inversion Hb; subst bF; clear Hb.
        rewrite joint_remove_all_spec. destruct (v2_fields b3 false) as (V1 & V2 & _). rewrite V1, V2, Est, EP, ED, ER. cbn [andb app].
        rewrite <- app_assoc. cbn [app]. split; [reflexivity|exact Eot].
      * apply Z.eqb_neq in Eot. exists TAfter. inversion Hb; subst bF; clear Hb.
        rewrite joint_remove_all_spec.
        destruct (v2_fields b3 false) as (V1 & V2 & V3).
        set (bv := exec_change_v2 b3 true false) in *.
        destruct (kt_fields bv tl true (b_kregion b3)) as (K1 & K2 & K3 & K4 & K5 & K6).
        rewrite K1, K2, V1, V2, (V3 eq_refl), Est, EP, ED, ER, Ecl. cbn [andb app].
        rewrite <- !app_assoc. cbn [app]. split; [reflexivity|]. repeat split; auto.
    + (* leadership moves inside the joint state *)
      exists TInside. inversion Hb; subst bF; clear Hb.
      rewrite joint_remove_all_spec.
      assert (Eot : ol <> tl).
      { intros C. unfold Tvoter in Htv. fold tl in Htv. rewrite <- C in Htv. rewrite Htv in Etv. discriminate. }
      destruct (v2_fields b3 true) as (V1 & V2 & _).
      set (bv := exec_change_v2 b3 true true) in *.
      assert (K1 : forall x kl kr, b_steps (set_kinds x kl kr) = b_steps x) by reflexivity.
      assert (K2 : forall x kl kr, b_remove (set_kinds x kl kr) = b_remove x) by reflexivity.
      rewrite K1, K2, V1, V2, Eol, Etl3, Est, EP, ED, ER, Ecl.
      assert (En : negb (ol =? tl) = true) by (apply negb_true_iff, Z.eqb_neq; exact Eot).
      rewrite En. cbn [andb app].
      rewrite <- !app_assoc. cbn [app]. split; [reflexivity|]. repeat split; auto.
Qed.
