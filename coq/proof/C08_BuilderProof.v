(* C08 — the builder model produces plans the verified checker accepts.
   Part 1 (this file): exhaustive evaluation inside Coq over every origin / target / leader /
   store-admissibility / feature-level / force combination for up to 3 stores (the bound is part of
   the statements), the two refutation witnesses, and CreateLeaveJointStateOperator over every
   reachable joint state of up to 3 stores.  The regenerated tables of gen/Gen_C08.v are used by the
   model itself (plan order, preference order, rejected leader roles), so a change there re-runs
   these obligations on the changed model. *)
From Coq Require Import String.
From PDV Require Import lib.Base gen.Gen_C08 model.C08_Steps model.C08_Builder proof.C08_PlanProof.
Local Open Scope Z_scope.

(* ---------- the finite domain ---------- *)
Definition role_opts : list (option role) := [None; Some Voter; Some Learner].
Definition joint_role_opts : list (option role) := [None; Some Voter; Some Learner; Some Incoming; Some Demoting].

Fixpoint vectors {A} (opts : list A) (n : nat) : list (list A) :=
  match n with O => [[]] | S k => flat_map (fun v => map (fun o => o :: v) opts) (vectors opts k) end.

(* position i (from 1) of the vector is store i *)
Fixpoint peers_of_vec (st : Z) (idof : Z -> Z) (v : list (option role)) : list peer :=
  match v with
  | [] => []
  | None :: r => peers_of_vec (st + 1) idof r
  | Some ro :: r => Peer st (idof st) ro :: peers_of_vec (st + 1) idof r
  end.
Definition voters_of (ps : list peer) : list Z := map pstore (filter (fun p => negb (is_learner p)) ps).
Fixpoint stores_of (st : Z) (v : list bool) : list store_info :=
  match v with [] => [] | b :: r => Store st true b [] :: stores_of (st + 1) r end.
Fixpoint alloc_all (st : Z) (n : nat) : list (Z * Z) :=
  match n with O => [] | S k => (st, 200 + st) :: alloc_all (st + 1) k end.

(* (JointConsensus supported, enable-joint-consensus) *)
Definition modes : list (bool * bool) := [(true, true); (true, false); (false, false)].

Definition origin_of (ov : list (option role)) : list peer := peers_of_vec 1 (fun s => 100 + s) ov.
Definition target_of (tv : list (option role)) : list peer := peers_of_vec 1 (fun _ => 0) tv.

Definition mk_input (n : nat) (ov : list (option role)) (ol : Z) (tv : list (option role)) (tl : Z)
           (lok : list bool) (m : bool * bool) (force : bool) : binput :=
  BInput (Cluster (stores_of 1 lok) (fst m) (snd m) 0)
         (Region (origin_of ov) ol 5 0) [] false
         ([OSetPeers (target_of tv)] ++ (if tl =? 0 then [] else [OSetLeader tl]) ++ (if force then [OForceTargetLeader] else []))
         (alloc_all 1 n).

Definition forall_inputs (n : nat) (P : binput -> bool) : bool :=
  forallb (fun ov =>
    forallb (fun ol =>
      forallb (fun tv =>
        forallb (fun tl =>
          forallb (fun lok =>
            forallb (fun m =>
              forallb (fun force => P (mk_input n ov ol tv tl lok m force)) [false; true])
              modes) (vectors [true; false] n))
          (0 :: voters_of (target_of tv)))
        (vectors role_opts n))
      (voters_of (origin_of ov)))
    (vectors role_opts n).

Lemma forall_inputs_spec n P :
  forall_inputs n P = true ->
  forall ov ol tv tl lok m force,
    In ov (vectors role_opts n) -> In ol (voters_of (origin_of ov)) ->
    In tv (vectors role_opts n) -> In tl (0 :: voters_of (target_of tv)) ->
    In lok (vectors [true; false] n) -> In m modes ->
    P (mk_input n ov ol tv tl lok m force) = true.
Proof.
  unfold forall_inputs. intros H ov ol tv tl lok m force Hov Hol Htv Htl Hlok Hm.
  rewrite forallb_forall in H. specialize (H ov Hov).
  rewrite forallb_forall in H. specialize (H ol Hol).
  rewrite forallb_forall in H. specialize (H tv Htv).
  rewrite forallb_forall in H. specialize (H tl Htl).
  rewrite forallb_forall in H. specialize (H lok Hlok).
  rewrite forallb_forall in H. specialize (H m Hm).
  rewrite forallb_forall in H. apply H. destruct force; cbn; auto.
Qed.

(* ---------- every input: no class is excluded any more (the builder was repaired) ---------- *)
Definition builder_case_ok (i : binput) : bool :=
  match prepared i with
  | None => true
  | Some b => match build i with
              | Built ss _ _ => plan_ok (goal_of b) (i_region i) ss
              | BuildErr => true
              | BuildFuel => false
              end
  end.

Definition joint_case_ok (i : binput) : bool :=
  match prepared i with
  | None => true
  | Some b => match build i with
              | Built ss _ _ => negb (b_use_joint b) || plan_ok (goal_of b) (i_region i) ss
              | BuildErr => true
              | BuildFuel => false
              end
  end.

Lemma builder_ok_1 : forall_inputs 1 builder_case_ok = true.
Proof. vm_cast_no_check (@eq_refl bool true). Qed.
Lemma builder_ok_2 : forall_inputs 2 builder_case_ok = true.
Proof. vm_cast_no_check (@eq_refl bool true). Qed.
Lemma builder_ok_3 : forall_inputs 3 builder_case_ok = true.
Proof. vm_cast_no_check (@eq_refl bool true). Qed.

(* the leader is handed only to stores that accept leaders *)
Definition leader_case_ok (i : binput) : bool :=
  match prepared i with
  | None => true
  | Some b => match build i with
              | Built ss _ _ => leader_stores_ok (b_cluster b) (leader (i_region i)) (b_tleader b) (b_force b) ss
              | _ => true
              end
  end.
Lemma leader_ok_1 : forall_inputs 1 leader_case_ok = true.
Proof. vm_cast_no_check (@eq_refl bool true). Qed.
Lemma leader_ok_2 : forall_inputs 2 leader_case_ok = true.
Proof. vm_cast_no_check (@eq_refl bool true). Qed.
Lemma leader_ok_3 : forall_inputs 3 leader_case_ok = true.
Proof. vm_cast_no_check (@eq_refl bool true). Qed.

Lemma builder_case_ok_elim i b ss kl kr :
  builder_case_ok i = true -> prepared i = Some b -> build i = Built ss kl kr ->
  plan_ok (goal_of b) (i_region i) ss = true.
Proof.
  unfold builder_case_ok. intros H Hp Hb. rewrite Hp, Hb in H. exact H.
Qed.

Lemma builder_plan_ok_bounded_pf :
  forall n, (1 <= n <= 3)%nat ->
  forall ov ol tv tl lok m force,
    In ov (vectors role_opts n) -> In ol (voters_of (origin_of ov)) ->
    In tv (vectors role_opts n) -> In tl (0 :: voters_of (target_of tv)) ->
    In lok (vectors [true; false] n) -> In m modes ->
  forall b ss kl kr,
    prepared (mk_input n ov ol tv tl lok m force) = Some b -> build (mk_input n ov ol tv tl lok m force) = Built ss kl kr ->
    plan_ok (goal_of b) (i_region (mk_input n ov ol tv tl lok m force)) ss = true.
Proof.
  intros n Hn ov ol tv tl lok m force Hov Hol Htv Htl Hlok Hm b ss kl kr Hp Hb.
  assert (Hc : builder_case_ok (mk_input n ov ol tv tl lok m force) = true).
  { destruct n as [|[|[|[|n]]]]; try lia.
    - exact (forall_inputs_spec 1 builder_case_ok builder_ok_1 ov ol tv tl lok m force Hov Hol Htv Htl Hlok Hm).
    - exact (forall_inputs_spec 2 builder_case_ok builder_ok_2 ov ol tv tl lok m force Hov Hol Htv Htl Hlok Hm).
    - exact (forall_inputs_spec 3 builder_case_ok builder_ok_3 ov ol tv tl lok m force Hov Hol Htv Htl Hlok Hm). }
  eapply builder_case_ok_elim; eauto.
Qed.

Lemma builder_leader_stores_bounded_pf :
  forall n, (1 <= n <= 3)%nat ->
  forall ov ol tv tl lok m force,
    In ov (vectors role_opts n) -> In ol (voters_of (origin_of ov)) ->
    In tv (vectors role_opts n) -> In tl (0 :: voters_of (target_of tv)) ->
    In lok (vectors [true; false] n) -> In m modes ->
  forall b ss kl kr,
    prepared (mk_input n ov ol tv tl lok m force) = Some b -> build (mk_input n ov ol tv tl lok m force) = Built ss kl kr ->
    leader_stores_ok (b_cluster b) ol (b_tleader b) (b_force b) ss = true.
Proof.
  intros n Hn ov ol tv tl lok m force Hov Hol Htv Htl Hlok Hm b ss kl kr Hp Hb.
  assert (Hc : leader_case_ok (mk_input n ov ol tv tl lok m force) = true).
  { destruct n as [|[|[|[|n]]]]; try lia.
    - exact (forall_inputs_spec 1 leader_case_ok leader_ok_1 ov ol tv tl lok m force Hov Hol Htv Htl Hlok Hm).
    - exact (forall_inputs_spec 2 leader_case_ok leader_ok_2 ov ol tv tl lok m force Hov Hol Htv Htl Hlok Hm).
    - exact (forall_inputs_spec 3 leader_case_ok leader_ok_3 ov ol tv tl lok m force Hov Hol Htv Htl Hlok Hm). }
  unfold leader_case_ok in Hc. rewrite Hp, Hb in Hc. exact Hc.
Qed.

(* the plan the builder produced before the repair for {1 voter leader on a store that rejects leaders, 2 voter}, move 2 -> 3
   without joint consensus: the leader goes 1 -> 2 and is handed BACK to store 1 *)
Lemma leader_bounce_rejected :
  leader_stores_ok (Cluster [Store 1 true false []; Store 2 true true []; Store 3 true true []] false false 0) 1 0 false
    [TransferLeader 1 2; AddLearner 3 203; PromoteLearner 3 203; TransferLeader 2 1; RemovePeer 2 102; TransferLeader 1 3] = false.
Proof. reflexivity. Qed.

(* ---------- the inputs that failed before the repairs (regression witnesses) ---------- *)
Definition up_store (i : Z) := Store i true true [].

(* S16: JointConsensus unsupported; origin {1 voter leader, 2 voter, 3 learner}; DemoteVoter(2).RemovePeer(3):
   the learner on store 2 is added only after voter 12 is gone, and gets a new id *)
Definition s16_input : binput :=
  BInput (Cluster [up_store 1; up_store 2; up_store 3] false true 0)
         (Region [Peer 1 11 Voter; Peer 2 12 Voter; Peer 3 13 Learner] 1 5 0) [] false
         [ODemoteVoter 2; ORemovePeer 3] [(2, 202)].

Lemma s16_plan : build s16_input = Built [RemovePeer 2 12; AddLearner 2 202; RemovePeer 3 13] false true.
Proof. vm_compute. reflexivity. Qed.

Lemma s16_ok : exists b, prepared s16_input = Some b /\
  plan_ok (goal_of b) (i_region s16_input) [RemovePeer 2 12; AddLearner 2 202; RemovePeer 3 13] = true.
Proof. eexists. split; vm_compute; reflexivity. Qed.

(* joint consensus supported but switched off; origin {2 voter leader, 3 voter}; target {1 voter, 2 voter, 3 learner}:
   the new voter is added before the follower is demoted *)
Definition dip_input : binput :=
  BInput (Cluster [up_store 1; up_store 2; up_store 3] true false 0)
         (Region [Peer 2 102 Voter; Peer 3 103 Voter] 2 5 0) [] false
         [OSetPeers [Peer 1 0 Voter; Peer 2 0 Voter; Peer 3 0 Learner]] [(1, 201)].

Lemma dip_plan : build dip_input = Built [AddLearner 1 201; PromoteLearner 1 201; DemoteFollower 3 103] false true.
Proof. vm_compute. reflexivity. Qed.

Lemma dip_ok : exists b, prepared dip_input = Some b /\
  plan_ok (goal_of b) (i_region dip_input) [AddLearner 1 201; PromoteLearner 1 201; DemoteFollower 3 103] = true.
Proof. eexists. split; vm_compute; reflexivity. Qed.

(* the plans the unrepaired builder produced for these inputs are rejected by the checker *)
Lemma old_plans_rejected :
  (exists b, prepared s16_input = Some b /\
     plan_check (goal_of b) (i_region s16_input) [AddLearner 2 12; RemovePeer 3 13; RemovePeer 2 12] = Some "check-safety-fails:AddLearner"%string)
  /\ (exists b, prepared dip_input = Some b /\
     plan_check (goal_of b) (i_region dip_input) [DemoteFollower 3 103; AddLearner 1 201; PromoteLearner 1 201] = Some "voters-below-min:DemoteFollower"%string).
Proof. split; eexists; split; vm_compute; reflexivity. Qed.

(* ---------- CreateLeaveJointStateOperator ---------- *)
Definition reachable_joint (ps : list peer) : bool :=
  existsb in_joint ps && negb (voters_old ps =? 0) && negb (voters_new ps =? 0).

Definition leave_case_ok (c : cluster) (r : region) : bool :=
  match leave_joint_op c r with
  | Built ss _ _ => plan_ok (leave_goal r) r ss
  | BuildErr => false
  | BuildFuel => false
  end.

Definition forall_joint_states (n : nat) (P : cluster -> region -> bool) : bool :=
  forallb (fun ov =>
    let ps := origin_of ov in
    negb (reachable_joint ps) ||
    forallb (fun ol =>
      forallb (fun lok => P (Cluster (stores_of 1 lok) true true 0) (Region ps ol 5 0)) (vectors [true; false] n))
      (voters_of ps))
    (vectors joint_role_opts n).

Lemma leave_ok_upto3 :
  forall_joint_states 1 leave_case_ok && forall_joint_states 2 leave_case_ok && forall_joint_states 3 leave_case_ok = true.
Proof. vm_cast_no_check (@eq_refl bool true). Qed.

Lemma leave_joint_ok_bounded_pf :
  forall n, (1 <= n <= 3)%nat ->
  forall ov ol lok,
    In ov (vectors joint_role_opts n) -> reachable_joint (origin_of ov) = true ->
    In ol (voters_of (origin_of ov)) -> In lok (vectors [true; false] n) ->
    let c := Cluster (stores_of 1 lok) true true 0 in
    let r := Region (origin_of ov) ol 5 0 in
    exists ss kl kr, leave_joint_op c r = Built ss kl kr /\ plan_ok (leave_goal r) r ss = true.
Proof.
  intros n Hn ov ol lok Hov Hr Hol Hlok c r.
  pose proof leave_ok_upto3 as H.
  apply andb_true_iff in H as [H H3]. apply andb_true_iff in H as [H1 H2].
  assert (Hc : leave_case_ok c r = true).
  { assert (G : forall k, forall_joint_states k leave_case_ok = true -> In ov (vectors joint_role_opts k) ->
                           In lok (vectors [true; false] k) -> leave_case_ok c r = true).
    { intros k Hk Hov' Hlok'. unfold forall_joint_states in Hk.
      rewrite forallb_forall in Hk. specialize (Hk ov Hov'). rewrite Hr in Hk. cbn [negb orb] in Hk.
      rewrite forallb_forall in Hk. specialize (Hk ol Hol).
      rewrite forallb_forall in Hk. exact (Hk lok Hlok'). }
    destruct n as [|[|[|[|n]]]]; try lia.
    - exact (G 1%nat H1 Hov Hlok).
    - exact (G 2%nat H2 Hov Hlok).
    - exact (G 3%nat H3 Hov Hlok). }
  unfold leave_case_ok in Hc. revert Hc. generalize (leave_joint_op c r) as o. generalize (leave_goal r) as g.
  intros g o Hc. clear H1 H2 H3. destruct o as [ss kl kr| |]; [|discriminate Hc|discriminate Hc].
  exists ss, kl, kr. split; [reflexivity|exact Hc].
Qed.
