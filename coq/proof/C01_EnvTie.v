(* C01 <- C03: the timestamp model accepts every label of the leadership environment (model/C03_Env.v) that the
   election model produces (proof/C03_EnvRefine.v), at the same projected state.  The only side condition is the
   bounded-pause hypothesis E4 at an election (nothing of that member is in flight and its leader loop is outside a
   term), which is a hypothesis about the timestamp side, not about leadership.  With this, C01/C02's theorems -
   proved for every label sequence the timestamp model accepts - cover every leadership behaviour of the election
   model: E2 is discharged by C03, not assumed. *)
From Coq Require Import Bool Arith.
From PDV Require Import lib.Base model.C01_Tso model.C03_Env.

Definition proj (s : state) : env := Env (owner s) (fun m => valid (mems s m)).

Definition lab (l : elabel) : label :=
  match l with
  | EElect m => LElect m | EValidOff m => LValidOff m | EValidOn m => LValidOn m | EOwnerGone => LOwnerGone
  end.

Lemma valid_upd_f s m x j :
  valid (upd_f (mems s) m x j) = if Nat.eqb j m then valid x else valid (mems s j).
Proof. unfold upd_f. destruct (Nat.eqb j m); reflexivity. Qed.

Theorem env_label_accepted s l e' :
  estep (proj s) l = Some e' ->
  (forall m, l = EElect m -> busy s m = false) ->
  exists s', step0 s (lab l) = Some s' /\ env_eq (proj s') e'.
Proof.
  intros H E4. destruct l as [m|m|m|]; cbn [lab step0]; cbn [estep proj eowner evalid] in H.
  - destruct (owner s) eqn:O; [discriminate|]. rewrite (E4 m eq_refl).
    inversion H; subst e'. eexists. split; [reflexivity|]. split; [reflexivity|].
    intros j. cbn [proj evalid mems]. rewrite valid_upd_f. unfold eupd. destruct (Nat.eqb j m); reflexivity.
  - inversion H; subst e'. eexists. split; [reflexivity|]. split; [reflexivity|].
    intros j. cbn [proj evalid set_mem mems]. rewrite valid_upd_f. unfold eupd. destruct (Nat.eqb j m); reflexivity.
  - destruct (owner s) as [o|] eqn:O; [|discriminate].
    destruct (Nat.eqb o m) eqn:Eo; [|discriminate].
    inversion H; subst e'.
    assert (Hown : is_owner s m = true) by (unfold is_owner; rewrite O; exact Eo).
    rewrite Hown. cbn [orb]. eexists. split; [reflexivity|]. split; [cbn; exact O|].
    intros j. cbn [proj evalid set_mem mems]. rewrite valid_upd_f. unfold eupd. destruct (Nat.eqb j m); reflexivity.
  - destruct (owner s) as [o|] eqn:O; [|discriminate].
    destruct (valid (mems s o)) eqn:V; [discriminate|].
    inversion H; subst e'. eexists. split; [reflexivity|]. split; [reflexivity|]. intros j. reflexivity.
Qed.

(* an environment label changes nothing but the record's owner, the validity flags and the ghost control state of
   the elected member: the stored window, the memories' timestamps and the granted ranges are untouched *)
Theorem env_label_keeps_timestamps s l s' :
  step0 s (lab l) = Some s' ->
  W s' = W s /\ recs s' = recs s /\
  forall j, phys (mems s' j) = phys (mems s j) /\ logical (mems s' j) = logical (mems s j) /\
            last_saved (mems s' j) = last_saved (mems s j).
Proof.
  intros H. destruct l as [m|m|m|]; cbn [lab step0] in H.
  - destruct (owner s); [discriminate|]. destruct (busy s m); [discriminate|]. inversion H; subst s'.
    cbn. repeat split; unfold upd_f; destruct (Nat.eqb j m) eqn:E; try reflexivity; apply Nat.eqb_eq in E; subst; reflexivity.
  - inversion H; subst s'. cbn. repeat split; unfold upd_f; destruct (Nat.eqb j m) eqn:E; try reflexivity; apply Nat.eqb_eq in E; subst; reflexivity.
  - destruct (is_owner s m || negb (busy s m)); [|discriminate]. inversion H; subst s'.
    cbn. repeat split; unfold upd_f; destruct (Nat.eqb j m) eqn:E; try reflexivity; apply Nat.eqb_eq in E; subst; reflexivity.
  - destruct (owner s) as [o|]; [|discriminate]. destruct (valid (mems s o)); [discriminate|]. inversion H; subst s'.
    cbn. repeat split.
Qed.
