(* C09 — the closed loop controller + stores on an operator's own steps.
   Bounded part: every plan the builder model produces for <= 3 stores (the domain of
   proof/C08_BuilderProof.v) is run through the controller model with the store model applying every
   command: no command is refused or stale, the operator is never cancelled and ends in SUCCESS.
   Witnesses: a hand-made plan that removes a peer and re-adds it with the same id is judged stale on its
   own steps (the builder produced such plans before it was repaired; it now allocates a new id), and the
   accounting of ChangePeerV2Leave.ConfVerChanged. *)
From Coq Require Import String.
From PDV Require Import lib.Base gen.Gen_C08 gen.Gen_C09 model.C08_Steps model.C08_Builder model.C09_OpCtl
     proof.C08_BuilderProof proof.C09_StatusProof proof.C09_OwnGeneral.
Local Open Scope Z_scope.

(* deliver what was sent, then let the leader report: repeated *)
Fixpoint own_events (k : nat) : list ev :=
  match k with O => [] | S n => EDeliver 1 :: EHeartbeat 1 :: own_events n end.

(* the operator is created from the region as the stores have it, added at once, and nothing but its own
   commands ever touches the region *)
Definition own_history (r0 : region) (ss : list step) : list ev :=
  [ERegion 1 r0; ECreate 1 1 (conf_ver r0) (rng r0) ss 1 true 1; EAdd [1]] ++ own_events (S (length ss)).

Definition plan_runs_ok (r0 : region) (ss : list step) : bool :=
  let os := run ctl_step (init 5) (own_history r0 ss) in
  forallb (fun o => match b_deliver o with DStale | DRejected => false | _ => true end) os
  && forallb (fun o => match b_status o with [(_, CANCELED)] | [(_, TIMEOUT)] | [(_, EXPIRED)] | [(_, REPLACED)] => false | _ => true end) os
  && match last os (Obs 0 [] [] [] [] None DNone) with
     | Obs _ _ _ [(1, SUCCESS)] _ _ _ => true
     | _ => false
     end.

Definition own_case_ok (i : binput) : bool :=
  match prepared i with
  | None => true
  | Some b => match build i with
              | Built ss _ _ => plan_runs_ok (i_region i) ss
              | _ => true
              end
  end.

Lemma own_ok_1 : forall_inputs 1 own_case_ok = true.
Proof. vm_cast_no_check (@eq_refl bool true). Qed.
Lemma own_ok_2 : forall_inputs 2 own_case_ok = true.
Proof. vm_cast_no_check (@eq_refl bool true). Qed.
Lemma own_ok_3 : forall_inputs 3 own_case_ok = true.
Proof. vm_cast_no_check (@eq_refl bool true). Qed.

Lemma own_case_ok_elim i b ss kl kr :
  own_case_ok i = true -> prepared i = Some b -> build i = Built ss kl kr ->
  plan_runs_ok (i_region i) ss = true.
Proof.
  unfold own_case_ok. intros H Hp Hb. rewrite Hp, Hb in H. exact H.
Qed.

Lemma own_steps_never_stale_bounded_pf :
  forall n, (1 <= n <= 3)%nat ->
  forall ov ol tv tl lok m force,
    In ov (vectors role_opts n) -> In ol (voters_of (origin_of ov)) ->
    In tv (vectors role_opts n) -> In tl (0 :: voters_of (target_of tv)) ->
    In lok (vectors [true; false] n) -> In m modes ->
  forall b ss kl kr,
    prepared (mk_input n ov ol tv tl lok m force) = Some b ->
    build (mk_input n ov ol tv tl lok m force) = Built ss kl kr ->
    plan_runs_ok (i_region (mk_input n ov ol tv tl lok m force)) ss = true.
Proof.
  intros n Hn ov ol tv tl lok m force Hov Hol Htv Htl Hlok Hm b ss kl kr Hp Hb.
  eapply own_case_ok_elim; eauto.
  destruct n as [|[|[|[|n]]]]; try lia.
  - exact (forall_inputs_spec 1 own_case_ok own_ok_1 ov ol tv tl lok m force Hov Hol Htv Htl Hlok Hm).
  - exact (forall_inputs_spec 2 own_case_ok own_ok_2 ov ol tv tl lok m force Hov Hol Htv Htl Hlok Hm).
  - exact (forall_inputs_spec 3 own_case_ok own_ok_3 ov ol tv tl lok m force Hov Hol Htv Htl Hlok Hm).
Qed.

(* ---------- the builder's plans never lower what an earlier step counts (bounded: <= 3 stores) ---------- *)
Definition mono_case_ok (i : binput) : bool :=
  match build i with
  | Built ss _ _ => monotone_from [] (i_region i) ss
  | _ => true
  end.

Lemma mono_ok_1 : forall_inputs 1 mono_case_ok = true.
Proof. vm_cast_no_check (@eq_refl bool true). Qed.
Lemma mono_ok_2 : forall_inputs 2 mono_case_ok = true.
Proof. vm_cast_no_check (@eq_refl bool true). Qed.
Lemma mono_ok_3 : forall_inputs 3 mono_case_ok = true.
Proof. vm_cast_no_check (@eq_refl bool true). Qed.

Lemma builder_plans_monotone_bounded_pf :
  forall n, (1 <= n <= 3)%nat ->
  forall ov ol tv tl lok m force,
    In ov (vectors role_opts n) -> In ol (voters_of (origin_of ov)) ->
    In tv (vectors role_opts n) -> In tl (0 :: voters_of (target_of tv)) ->
    In lok (vectors [true; false] n) -> In m modes ->
  forall ss kl kr,
    build (mk_input n ov ol tv tl lok m force) = Built ss kl kr ->
    monotone_from [] (i_region (mk_input n ov ol tv tl lok m force)) ss = true.
Proof.
  intros n Hn ov ol tv tl lok m force Hov Hol Htv Htl Hlok Hm ss kl kr Hb.
  assert (Hc : mono_case_ok (mk_input n ov ol tv tl lok m force) = true).
  { destruct n as [|[|[|[|n]]]]; try lia.
    - exact (forall_inputs_spec 1 mono_case_ok mono_ok_1 ov ol tv tl lok m force Hov Hol Htv Htl Hlok Hm).
    - exact (forall_inputs_spec 2 mono_case_ok mono_ok_2 ov ol tv tl lok m force Hov Hol Htv Htl Hlok Hm).
    - exact (forall_inputs_spec 3 mono_case_ok mono_ok_3 ov ol tv tl lok m force Hov Hol Htv Htl Hlok Hm). }
  unfold mono_case_ok in Hc. rewrite Hb in Hc. exact Hc.
Qed.

(* a plan that undoes its own step: accepted by the C08 checker, no peer re-added under its old id, and still judged
   stale on its own steps (the add no longer counts once the peer is removed again) *)
Definition undo_region : region := Region [Peer 1 101 Voter; Peer 2 102 Voter] 1 5 0.
Definition undo_plan : list step := [AddLearner 4 44; RemovePeer 4 44; TransferLeader 1 2].
Definition undo_goal : goal := Goal (placement (peers undo_region)) 2 2.

Lemma undo_plan_facts :
  plan_ok undo_goal undo_region undo_plan = true /\ readded_same_id undo_plan = false
  /\ plan_runs_ok undo_region undo_plan = false /\ monotone_from [] undo_region undo_plan = false.
Proof. vm_compute. repeat split; reflexivity. Qed.

(* ---------- a peer removed and re-added with the same id: judged stale on its own steps ---------- *)
(* JointConsensus unsupported; {1 voter, 4 voter leader, 5 voter}; DemoteVoter(5) + AddPeer(6 learner).
   Before the repair the builder produced stale_plan (remove 5, add learner 5 with the SAME peer id, add learner 6);
   now the re-added peer gets a new id. *)
Definition stale_region : region := Region [Peer 1 1007 Voter; Peer 4 1014 Voter; Peer 5 1021 Voter] 4 2 3.
Definition stale_plan : list step := [RemovePeer 5 1021; AddLearner 5 1021; AddLearner 6 1].
Definition fresh_plan : list step := [RemovePeer 5 1021; AddLearner 5 2; AddLearner 6 1].

Definition stale_input : binput :=
  BInput (Cluster [up_store 1; up_store 4; up_store 5; up_store 6] false true 0) stale_region [] false
         [ODemoteVoter 5; OAddPeer (Peer 6 0 Learner)] [(5, 2); (6, 1)].

Lemma fresh_plan_is_built : build stale_input = Built fresh_plan false true.
Proof. vm_compute. reflexivity. Qed.

Lemma fresh_plan_runs : plan_runs_ok stale_region fresh_plan = true.
Proof. vm_compute. reflexivity. Qed.

Lemma stale_plan_accepted_by_checker :
  exists b, prepared stale_input = Some b /\ plan_ok (goal_of b) stale_region stale_plan = true.
Proof. eexists. split; vm_compute; reflexivity. Qed.

(* ... yet the controller cancels it at the heartbeat after its second step, with no foreign event at all *)
Lemma stale_plan_cancelled :
  map b_status (run ctl_step (init 5) (own_history stale_region stale_plan)) =
  [[]; [(1, CREATED)]; [(1, STARTED)]; [(1, STARTED)]; [(1, STARTED)]; [(1, STARTED)]; [(1, CANCELED)];
   [(1, CANCELED)]; [(1, CANCELED)]; [(1, CANCELED)]; [(1, CANCELED)]].
Proof. vm_compute. reflexivity. Qed.

(* the reason: after the re-add, RemovePeer.ConfVerChanged no longer counts the removal *)
Lemma stale_reason :
  let after := Region [Peer 1 1007 Voter; Peer 4 1014 Voter; Peer 5 1021 Learner] 4 4 3 in
  conf_ver_changed after (RemovePeer 5 1021) = 0 /\ conf_ver_changed after (AddLearner 5 1021) = 1
  /\ conf_ver after - conf_ver stale_region = 2.
Proof. vm_compute. repeat split; reflexivity. Qed.

(* ---------- S2 repaired: an unapplied ChangePeerV2Leave with pending demotions counts nothing ---------- *)
Definition s2_region : region := Region [Peer 1 101 Voter; Peer 2 102 Demoting; Peer 3 103 Demoting] 1 7 1.
Definition s2_step : step := ChangePeerV2Leave [] [(2, 102); (3, 103)].

Lemma s2_counts_nothing :
  is_finish s2_region s2_step = false /\ check_safety s2_region s2_step = None /\ conf_ver_changed s2_region s2_step = 0.
Proof. vm_compute. repeat split; reflexivity. Qed.

(* while the region is in a joint state the stores refuse every configuration change except leaving *)
Lemma joint_state_admits_only_leave r t p : is_in_joint r = true -> apply_cmd r (CChangePeer t p) = None.
Proof. intros H. unfold apply_cmd. destruct p; [rewrite H|]; reflexivity. Qed.

Lemma joint_state_refuses_enter r c cs : is_in_joint r = true -> apply_cmd r (CChangePeerV2 (c :: cs)) = None.
Proof. intros H. unfold apply_cmd. rewrite H. reflexivity. Qed.
