(* C12 — proofs about model/C12_Fit.v:
   1. compare_rule_fit / lexcmp / compare_region_fit are comparisons of a total preorder,
   2. fit_rule (the transcription of the backtracking search) computes fit_spec (first
      lexicographic maximum over all k-subsets, rule by rule)           [fit_imp_eq_spec]
   3. every valid assignment is a partition; fit_spec is a valid assignment and no valid
      assignment is better                                              [fit_partition, fit_optimal]
   4. IsSatisfied                                                        [satisfied_iff]        *)
From Coq Require Import String Permutation Sorting.Sorted.
From PDV Require Import lib.Base lib.C12_Order gen.Gen_C12 model.C12_Fit.
Local Open Scope list_scope.

(* side condition on the regenerated constant: scores of different levels do not collide *)
Lemma base_gt_1 : (1 < replicaBaseScore)%Z.
Proof. reflexivity. Qed.

(* ---------- 1. the order ---------- *)
Lemma good_crf : good compare_rule_fit.
Proof.
  unfold compare_rule_fit, lex.
  apply (good_lex (fun a b => Nat.compare (length (rf_peers a)) (length (rf_peers b)))
                  (fun a b => lexc (Nat.compare (length (rf_diff b)) (length (rf_diff a))) (Z.compare (rf_score a) (rf_score b)))).
  - apply (good_pull (fun a => length (rf_peers a)) Nat.compare good_nat).
  - apply (good_lex (fun a b => Nat.compare (length (rf_diff b)) (length (rf_diff a)))
                    (fun a b => Z.compare (rf_score a) (rf_score b))).
    + apply (good_flip (fun a b => Nat.compare (length (rf_diff a)) (length (rf_diff b)))).
      apply (good_pull (fun a => length (rf_diff a)) Nat.compare good_nat).
    + apply (good_pull rf_score Z.compare good_Z).
Qed.

Lemma good_lexcmp : good lexcmp.
Proof. apply good_lexlist, good_crf. Qed.

Lemma good_cmp_res : good cmp_res.
Proof. apply (good_pull (@fst (list rulefit) (list fpeer)) lexcmp good_lexcmp). Qed.

(* the documented order: more peers, then fewer role mismatches, then higher isolation score *)
Lemma crf_gt_iff a b :
  compare_rule_fit a b = Gt <->
  (length (rf_peers a) > length (rf_peers b))%nat \/
  (length (rf_peers a) = length (rf_peers b) /\
   ((length (rf_diff a) < length (rf_diff b))%nat \/
    (length (rf_diff a) = length (rf_diff b) /\ (rf_score a > rf_score b)%Z))).
Proof.
  unfold compare_rule_fit, lex, lexc.
  destruct (Nat.compare_spec (length (rf_peers a)) (length (rf_peers b))) as [E1|E1|E1];
    destruct (Nat.compare_spec (length (rf_diff b)) (length (rf_diff a))) as [E2|E2|E2];
    destruct (Z.compare_spec (rf_score a) (rf_score b)) as [E3|E3|E3];
    split; intros H; try discriminate; try reflexivity; try lia.
Qed.

Lemma crf_eq_iff a b :
  compare_rule_fit a b = Eq <->
  length (rf_peers a) = length (rf_peers b) /\ length (rf_diff a) = length (rf_diff b) /\ rf_score a = rf_score b.
Proof.
  unfold compare_rule_fit, lex, lexc.
  destruct (Nat.compare_spec (length (rf_peers a)) (length (rf_peers b))) as [E1|E1|E1];
    destruct (Nat.compare_spec (length (rf_diff b)) (length (rf_diff a))) as [E2|E2|E2];
    destruct (Z.compare_spec (rf_score a) (rf_score b)) as [E3|E3|E3];
    split; intros H; try discriminate; try reflexivity; try lia; auto.
Qed.

(* CompareRegionFit on fits of the same rule list *)
Lemma compare_prefix_lexcmp a : forall b, length a = length b -> compare_prefix a b = lexcmp a b.
Proof.
  induction a as [|x a IH]; intros [|y b] H; cbn in *; try discriminate; [reflexivity|].
  unfold lexcmp in *. cbn. rewrite IH by lia. reflexivity.
Qed.

Definition region_key (f : list rulefit * list fpeer) := f.
Lemma good_region_full :
  good (fun a b : list rulefit * list fpeer => lexc (lexcmp (fst a) (fst b)) (Nat.compare (length (snd b)) (length (snd a)))).
Proof.
  apply (good_lex (fun a b => lexcmp (fst a) (fst b)) (fun a b => Nat.compare (length (snd b)) (length (snd a)))).
  - apply good_cmp_res.
  - apply (good_flip (fun a b : list rulefit * list fpeer => Nat.compare (length (snd a)) (length (snd b)))).
    apply (good_pull (fun a : list rulefit * list fpeer => length (snd a)) Nat.compare good_nat).
Qed.

Lemma compare_region_fit_same_len a b :
  length (fst a) = length (fst b) ->
  compare_region_fit a b = lexc (lexcmp (fst a) (fst b)) (Nat.compare (length (snd b)) (length (snd a))).
Proof. intros H. unfold compare_region_fit, lex. rewrite compare_prefix_lexcmp by exact H. reflexivity. Qed.

Lemma compare_region_fit_preorder_pf n :
  let D := fun f : list rulefit * list fpeer => length (fst f) = n in
  (forall a b, D a -> D b -> compare_region_fit b a = CompOpp (compare_region_fit a b)) /\
  (forall a b d x, D a -> D b -> D d -> compare_region_fit a b = x -> compare_region_fit b d = x -> compare_region_fit a d = x) /\
  (forall a b d, D a -> D b -> D d -> compare_region_fit a b = Eq -> compare_region_fit a d = compare_region_fit b d).
Proof.
  intros D; unfold D; repeat split.
  - intros a b Ha Hb. rewrite !compare_region_fit_same_len by congruence. apply (g_anti _ good_region_full).
  - intros a b d x Ha Hb Hd. rewrite !compare_region_fit_same_len by congruence. apply (g_trans _ good_region_full).
  - intros a b d Ha Hb Hd. rewrite !compare_region_fit_same_len by congruence. apply (g_eq_l _ good_region_full).
Qed.

(* ---------- generic list facts ---------- *)
Lemma filter_none {A} (f : A -> bool) l : (forall x, In x l -> f x = false) -> filter f l = [].
Proof.
  induction l as [|x r IH]; intros H; cbn; [reflexivity|].
  rewrite (H x (or_introl eq_refl)). apply IH. intros y Hy; apply H; right; exact Hy.
Qed.

Lemma map_const_len {A B C} (c : C) (a : list A) : forall b : list B,
  length a = length b -> map (fun _ => c) a = map (fun _ => c) b.
Proof. induction a as [|x a IH]; intros [|y b] H; cbn in *; try discriminate; [reflexivity|]. f_equal. apply IH; lia. Qed.

Inductive sublist {A} : list A -> list A -> Prop :=
| sl_nil l : sublist [] l
| sl_skip s x l : sublist s l -> sublist s (x :: l)
| sl_take s x l : sublist s l -> sublist (x :: s) (x :: l).

Lemma sublist_In {A} (s l : list A) : sublist s l -> forall x, In x s -> In x l.
Proof. induction 1; intros y Hy; cbn in *; try tauto; [right; auto | destruct Hy; auto]. Qed.

Lemma sublist_length {A} (s l : list A) : sublist s l -> (length s <= length l)%nat.
Proof. induction 1; cbn; lia. Qed.

Lemma sublist_refl {A} (l : list A) : sublist l l.
Proof. induction l as [|x l IH]; [constructor|apply sl_take; exact IH]. Qed.

Lemma sublist_filter {A} (f : A -> bool) l : sublist (filter f l) l.
Proof. induction l as [|x r IH]; cbn; [constructor|]. destruct (f x); constructor; exact IH. Qed.

Lemma sublist_trans {A} (a b : list A) : sublist a b -> forall c, sublist b c -> sublist a c.
Proof.
  intros Hab c Hbc; revert a Hab; induction Hbc as [l|s x l H IH|s x l H IH]; intros a Hab.
  - inversion Hab; constructor.
  - constructor. apply IH; exact Hab.
  - inversion Hab as [l'|s' x' l' H'|s' x' l' H']; subst.
    + apply sl_nil.
    + apply sl_skip. apply IH; exact H'.
    + apply sl_take. apply IH; exact H'.
Qed.

Lemma subsets_0 {A} (l : list A) : subsets 0 l = [[]].
Proof. destruct l; reflexivity. Qed.

Lemma subsets_spec {A} k : forall (l s : list A), In s (subsets k l) <-> sublist s l /\ length s = k.
Proof.
  induction k as [|k IHk]; intros l s.
  - assert (E : subsets 0 l = [[]]) by (destruct l; reflexivity). rewrite E. cbn. split.
    + intros [H|[]]; subst; split; [constructor|reflexivity].
    + intros [_ H]. destruct s; [left; reflexivity|discriminate].
  - induction l as [|x r IHl]; cbn [subsets].
    + split; [intros []|]. intros [H1 H2]. inversion H1; subst; discriminate.
    + rewrite in_app_iff, in_map_iff. split.
      * intros [[s' [E H]]|H].
        -- subst s. apply IHk in H as [H1 H2]. split; [constructor; exact H1|cbn; lia].
        -- apply IHl in H as [H1 H2]. split; [constructor; exact H1|exact H2].
      * intros [H1 H2]. inversion H1 as [l'|s' x' l' H'|s' x' l' H']; subst.
        -- discriminate.
        -- right. apply IHl. split; assumption.
        -- left. exists s'. split; [reflexivity|]. apply IHk. cbn in H2. split; [assumption|lia].
Qed.

Lemma subsets_nonempty {A} k : forall l : list A, (k <= length l)%nat -> subsets k l <> [].
Proof.
  induction k as [|k IH]; intros l H; [destruct l; cbn; discriminate|].
  destruct l as [|x r]; cbn in H; [lia|]. cbn [subsets].
  intros E. apply app_eq_nil in E as [E _]. apply map_eq_nil in E. revert E. apply IH. lia.
Qed.

(* ---------- 2. the transcription computes the specification ---------- *)
Section Search.
  Variables (stores : list store) (peers : list fpeer).
  Hypothesis Hstores : forall p s, In p peers -> fstore p = Some s -> In s stores.

  Notation fit_rule := (fit_rule stores peers).
  Notation fit_spec := (fit_spec peers).
  Notation unselected := (unselected peers).
  Notation candidates := (candidates peers).

  (* checkRule only skips rules that no store of the set can satisfy *)
  Lemma candidates_imp_eq r sel : candidates_imp stores peers r sel = candidates r sel.
  Proof.
    unfold candidates_imp, candidates. destruct (check_rule r stores) eqn:E; [reflexivity|].
    symmetry. apply filter_none. intros p Hp. unfold cand_ok.
    destruct (fstore p) as [s|] eqn:Es; [|reflexivity].
    unfold check_rule in E.
    assert (H : match_label_constraints (Some s) (rcons r) = false).
    { destruct (match_label_constraints (Some s) (rcons r)) eqn:M; [|reflexivity].
      assert (X : existsb (fun s0 => match_label_constraints (Some s0) (rcons r)) stores = true).
      { apply existsb_exists. exists s. split; [eapply Hstores; eauto|exact M]. }
      congruence. }
    rewrite H. reflexivity.
  Qed.

  Section Run.
    Variables (cb : list fpeer -> list (option rulefit) -> list fpeer -> list nat -> bstate) (sel : list nat).

    Fixpoint run_subs (subs : list (list fpeer)) (bs : list (option rulefit)) (orph : list fpeer) : bstate :=
      match subs with
      | [] => (bs, orph, false)
      | sub :: more =>
          let '(bs1, o1, b1) := cb sub bs orph (sel_with sub sel) in
          let '(bs2, o2, b2) := run_subs more bs1 o1 in
          (bs2, o2, b1 || b2)
      end.

    Lemma run_subs_app l1 : forall l2 bs orph,
      run_subs (l1 ++ l2) bs orph =
      let '(bs1, o1, b1) := run_subs l1 bs orph in
      let '(bs2, o2, b2) := run_subs l2 bs1 o1 in (bs2, o2, b1 || b2).
    Proof.
      induction l1 as [|s r IH]; intros l2 bs orph; cbn [app run_subs].
      - destruct (run_subs l2 bs orph) as [[? ?] ?]. reflexivity.
      - destruct (cb s bs orph (sel_with s sel)) as [[bs1 o1] b1].
        rewrite IH. destruct (run_subs r bs1 o1) as [[bs2 o2] b2].
        destruct (run_subs l2 bs2 o2) as [[bs3 o3] b3]. rewrite orb_assoc. reflexivity.
    Qed.

    Lemma sel_with_snoc selected p : sel_with (selected ++ [p]) sel = fidx p :: sel_with selected sel.
    Proof. unfold sel_with. rewrite map_app, rev_app_distr. reflexivity. Qed.

    Lemma enum_loop_spec count cs : forall selected bs orph,
      (length selected < count)%nat ->
      enum_loop count cb cs selected bs orph (sel_with selected sel) =
      run_subs (map (app selected) (subsets (count - length selected) cs)) bs orph.
    Proof.
      induction cs as [|p cs' IH]; intros selected bs orph Hlt.
      - destruct (count - length selected)%nat eqn:E; [lia|]. reflexivity.
      - destruct (count - length selected)%nat as [|k'] eqn:E; [lia|].
        cbn [enum_loop subsets]. rewrite map_app, run_subs_app, map_map.
        rewrite <- sel_with_snoc.
        assert (Hlen : length (selected ++ [p]) = S (length selected)) by (rewrite app_length; cbn; lia).
        destruct (Nat.eqb_spec (length (selected ++ [p])) count) as [Eq|Ne].
        + assert (k' = 0)%nat by lia. subst k'. rewrite subsets_0. cbn [map run_subs].
          destruct (cb (selected ++ [p]) bs orph (sel_with (selected ++ [p]) sel)) as [[bs1 o1] b1].
          rewrite orb_false_r.
          rewrite (IH selected bs1 o1 Hlt), E. reflexivity.
        + rewrite (IH (selected ++ [p]) bs orph) by lia.
          replace (count - length (selected ++ [p]))%nat with k' by lia.
          replace (map (fun x => selected ++ p :: x) (subsets k' cs'))
            with (map (app (selected ++ [p])) (subsets k' cs')).
          2:{ apply map_ext. intros a. rewrite <- app_assoc. reflexivity. }
          destruct (run_subs (map (app (selected ++ [p])) (subsets k' cs')) bs orph) as [[bs1 o1] b1].
          rewrite (IH selected bs1 o1 Hlt), E. reflexivity.
    Qed.

    Lemma enum_peers_spec count cs bs orph :
      enum_peers count cb cs bs orph sel = run_subs (subsets count cs) bs orph.
    Proof.
      unfold enum_peers. destruct count as [|k].
      - rewrite subsets_0. cbn [Nat.eqb run_subs]. change (sel_with [] sel) with sel.
        destruct (cb [] bs orph sel) as [[bs1 o1] b1]. rewrite orb_false_r. reflexivity.
      - cbn [Nat.eqb]. change (enum_loop (S k) cb cs [] bs orph sel) with (enum_loop (S k) cb cs [] bs orph (sel_with [] sel)).
        rewrite enum_loop_spec by (cbn; lia). cbn [length]. rewrite Nat.sub_0_r.
        rewrite (map_ext (app []) (fun x => x)) by reflexivity. rewrite map_id. reflexivity.
    Qed.
  End Run.

  (* ---- the candidate results of one rule, and the state of the search ---- *)
  Definition cand (r : rule) (rest : list rule) (sel : list nat) (sub : list fpeer) : fitres :=
    let '(t, o) := fit_spec rest (sel_with sub sel) in (new_rule_fit r sub :: t, o).

  Lemma fit_spec_cons r rest sel :
    fit_spec (r :: rest) sel =
    first_max (map (cand r rest sel) (subsets (Nat.min (rcount r) (length (candidates r sel))) (candidates r sel))).
  Proof. reflexivity. Qed.

  Lemma first_max_in (xs : list fitres) : xs <> [] -> In (first_max xs) xs.
  Proof. destruct xs as [|x r]; [congruence|]. intros _. apply fold_better_in. Qed.

  Lemma subsets_cands_nonempty r sel :
    subsets (Nat.min (rcount r) (length (candidates r sel))) (candidates r sel) <> [].
  Proof. apply subsets_nonempty. lia. Qed.

  Lemma fit_spec_length rules : forall sel, length (fst (fit_spec rules sel)) = length rules.
  Proof.
    induction rules as [|r rest IH]; intros sel; [reflexivity|].
    rewrite fit_spec_cons.
    pose proof (first_max_in (map (cand r rest sel) (subsets (Nat.min (rcount r) (length (candidates r sel))) (candidates r sel)))) as H.
    assert (Hne : map (cand r rest sel) (subsets (Nat.min (rcount r) (length (candidates r sel))) (candidates r sel)) <> []).
    { intros E. apply map_eq_nil in E. revert E. apply subsets_cands_nonempty. }
    specialize (H Hne). apply in_map_iff in H as [sub [E _]]. rewrite <- E.
    unfold cand. specialize (IH (sel_with sub sel)). destruct (fit_spec rest (sel_with sub sel)) as [t o].
    cbn in *. lia.
  Qed.

  (* what the search holds for the rules from `index` on: nothing yet, or a complete result *)
  Definition st_of (rest : list rule) (cur : option fitres) (bs : list (option rulefit)) (orph : list fpeer) : Prop :=
    match cur with
    | None => bs = None :: map (fun _ => None) rest
    | Some t => bs = map Some (fst t) /\ orph = snd t /\ length (fst t) = S (length rest)
    end.

  Definition rest_ok (rest : list rule) : Prop :=
    (forall orph sel, rest <> [] ->
       fit_rule rest (map (fun _ => None) rest) orph sel =
       (map Some (fst (fit_spec rest sel)), snd (fit_spec rest sel), true)) /\
    (forall T orph sel, rest <> [] -> length T = length rest ->
       fit_rule rest (map Some T) orph sel =
       match lexcmp (fst (fit_spec rest sel)) T with
       | Gt => (map Some (fst (fit_spec rest sel)), snd (fit_spec rest sel), true)
       | _ => (map Some T, orph, false)
       end).

  Lemma cmp_res_cons (x y : rulefit) (a b : list rulefit) (o1 o2 : list fpeer) :
    cmp_res (x :: a, o1) (y :: b, o2) = lexc (compare_rule_fit x y) (lexcmp a b).
  Proof. reflexivity. Qed.

  Lemma compare_best_step r rest sel sub cur bs orph :
    rest_ok rest -> st_of rest cur bs orph ->
    exists bs' orph',
      compare_best peers r (fit_rule rest) (is_nil rest) sub bs orph (sel_with sub sel)
      = (bs', orph', changed cmp_res cur (cand r rest sel sub)) /\
      st_of rest (step_opt cmp_res cur (cand r rest sel sub)) bs' orph'.
  Proof.
    intros [HA HB] Hst. unfold compare_best, cand.
    pose proof (fit_spec_length rest (sel_with sub sel)) as Hlen.
    destruct cur as [[T o]|]; cbn [st_of fst snd] in Hst.
    - destruct Hst as (Hbs & Ho & HT). subst bs orph.
      destruct T as [|tb T']; [discriminate|]. cbn [map split_best]. cbn [length] in HT.
      assert (HT' : length T' = length rest) by lia.
      destruct (fit_spec rest (sel_with sub sel)) as [t o'] eqn:Esp. cbn [fst snd] in *.
      cbn [changed step_opt]. unfold gtb, keep_better. rewrite cmp_res_cons.
      destruct (compare_rule_fit (new_rule_fit r sub) tb) eqn:Ecmp; cbn [lexc].
      + (* Eq: look below *)
        destruct rest as [|r2 rest'].
        * destruct T'; [|discriminate]. destruct t; [|discriminate]. cbn.
          eexists _, _. split; [reflexivity|]. cbn. auto.
        * rewrite (HB T' o (sel_with sub sel)) by (congruence || exact HT'). rewrite Esp. cbn [fst snd].
          destruct (lexcmp t T') eqn:El.
          -- eexists _, _. split; [reflexivity|]. cbn. auto.
          -- eexists _, _. split; [reflexivity|]. cbn. auto.
          -- eexists _, _. split; [reflexivity|]. cbn [st_of fst snd map length]. repeat split. cbn [length] in *; lia.
      + eexists _, _. split; [reflexivity|]. cbn. auto.
      + (* Gt: reset and recompute everything below *)
        rewrite (map_const_len None (map Some T') rest) by (rewrite map_length; exact HT').
        destruct rest as [|r2 rest'].
        * destruct t; [|discriminate]. cbn in Esp. inversion Esp; subst o'.
          cbn. eexists _, _. split; [reflexivity|]. cbn. auto.
        * rewrite (HA o (sel_with sub sel)) by congruence. rewrite Esp. cbn [fst snd is_nil].
          eexists _, _. split; [reflexivity|]. cbn [st_of fst snd map length]. repeat split. cbn [length] in *; lia.
    - subst bs. cbn [split_best]. rewrite map_map.
      destruct (fit_spec rest (sel_with sub sel)) as [t o'] eqn:Esp. cbn [fst snd] in *.
      cbn [changed step_opt].
      destruct rest as [|r2 rest'].
      + destruct t; [|discriminate]. cbn in Esp. inversion Esp; subst o'.
        cbn. eexists _, _. split; [reflexivity|]. cbn. auto.
      + rewrite (HA orph (sel_with sub sel)) by congruence. rewrite Esp. cbn [fst snd is_nil].
        eexists _, _. split; [reflexivity|]. cbn [st_of fst snd map length]. repeat split. cbn [length] in *; lia.
  Qed.

  Lemma run_subs_fold r rest sel : rest_ok rest -> forall subs cur bs orph,
    st_of rest cur bs orph ->
    exists bs' orph',
      run_subs (compare_best peers r (fit_rule rest) (is_nil rest)) sel subs bs orph =
      (bs', orph', snd (fold_left (step_optb cmp_res) (map (cand r rest sel) subs) (cur, false))) /\
      st_of rest (fst (fold_left (step_optb cmp_res) (map (cand r rest sel) subs) (cur, false))) bs' orph'.
  Proof.
    intros Hok. induction subs as [|sub more IH]; intros cur bs orph Hst.
    - exists bs, orph. split; [reflexivity|exact Hst].
    - cbn [run_subs map fold_left].
      destruct (compare_best_step r rest sel sub cur bs orph Hok Hst) as (bs1 & o1 & E1 & Hst1).
      rewrite E1.
      destruct (IH _ _ _ Hst1) as (bs2 & o2 & E2 & Hst2). rewrite E2.
      change (step_optb cmp_res (cur, false) (cand r rest sel sub))
        with (step_opt cmp_res cur (cand r rest sel sub), false || changed cmp_res cur (cand r rest sel sub)).
      cbn [orb].
      rewrite (fold_stepb_flag cmp_res (map (cand r rest sel) more) (step_opt cmp_res cur (cand r rest sel sub))
                 (changed cmp_res cur (cand r rest sel sub))). cbn [fst snd].
      exists bs2, o2. split; [reflexivity|exact Hst2].
  Qed.

  Theorem fit_rule_spec rules : rest_ok rules.
  Proof.
    induction rules as [|r rest IH]; [split; intros; congruence|].
    assert (Hrun : forall cur bs orph sel, st_of rest cur bs orph ->
              exists bs' orph',
                fit_rule (r :: rest) bs orph sel =
                (bs', orph', snd (fold_left (step_optb cmp_res)
                     (map (cand r rest sel) (subsets (Nat.min (rcount r) (length (candidates r sel))) (candidates r sel))) (cur, false))) /\
                st_of rest (fst (fold_left (step_optb cmp_res)
                     (map (cand r rest sel) (subsets (Nat.min (rcount r) (length (candidates r sel))) (candidates r sel))) (cur, false))) bs' orph').
    { intros cur bs orph sel Hst. cbn [C12_Fit.fit_rule]. rewrite candidates_imp_eq, enum_peers_spec.
      apply run_subs_fold; assumption. }
    split.
    - intros orph sel _.
      destruct (Hrun None (None :: map (fun _ => None) rest) orph sel eq_refl) as (bs' & orph' & E & Hst).
      cbn [map]. rewrite E. rewrite fit_spec_cons.
      destruct (map (cand r rest sel) (subsets (Nat.min (rcount r) (length (candidates r sel))) (candidates r sel))) as [|x xs] eqn:Em.
      { apply map_eq_nil in Em. exfalso. revert Em. apply subsets_cands_nonempty. }
      rewrite (fold_stepb_from_none cmp_res) in *. cbn [fst snd st_of first_max] in *.
      destruct Hst as (-> & -> & _). reflexivity.
    - intros T orph sel _ HT.
      destruct (Hrun (Some (T, orph)) (map Some T) orph sel) as (bs' & orph' & E & Hst).
      { cbn. repeat split. exact HT. }
      rewrite E. rewrite fit_spec_cons.
      destruct (map (cand r rest sel) (subsets (Nat.min (rcount r) (length (candidates r sel))) (candidates r sel))) as [|x xs] eqn:Em.
      { apply map_eq_nil in Em. exfalso. revert Em. apply subsets_cands_nonempty. }
      rewrite (fold_stepb_from_some cmp_res good_cmp_res) in *. cbn [fst snd first_max] in *.
      set (m := fold_left (keep_better cmp_res) xs x) in *. clearbody m.
      unfold gtb, keep_better, cmp_res in *. cbn [fst] in *.
      destruct (lexcmp (fst m) T); cbn [st_of fst snd] in Hst;
        destruct Hst as (Hb & Ho & _); subst bs' orph'; reflexivity.
  Qed.

  (* FitRegion's search = the specification *)
  Theorem fit_imp_eq_spec_pf rules :
    fit_imp stores peers rules = (map Some (fst (fit_spec rules [])), snd (fit_spec rules [])).
  Proof.
    unfold fit_imp. destruct rules as [|r rest]; [reflexivity|].
    rewrite (proj1 (fit_rule_spec (r :: rest))) by congruence. reflexivity.
  Qed.
End Search.

(* ---------- 3. valid assignments: partition and optimality ---------- *)
Lemma mem_nat_In x l : mem_nat x l = true <-> In x l.
Proof.
  induction l as [|y r IH]; cbn; [split; [discriminate|tauto]|].
  rewrite orb_true_iff, IH, Nat.eqb_eq. split; intros [H|H]; auto.
Qed.

Lemma mem_nat_app x a b : mem_nat x (a ++ b) = mem_nat x a || mem_nat x b.
Proof. induction a as [|y r IH]; cbn; [reflexivity|]. rewrite IH, orb_assoc. reflexivity. Qed.

Lemma mem_nat_ext x a b : (forall y, In y a <-> In y b) -> mem_nat x a = mem_nat x b.
Proof.
  intros H. destruct (mem_nat x a) eqn:Ea; destruct (mem_nat x b) eqn:Eb; try reflexivity.
  - apply mem_nat_In, H, mem_nat_In in Ea. congruence.
  - apply mem_nat_In, H, mem_nat_In in Eb. congruence.
Qed.

Lemma filter_filter {A} (f g : A -> bool) l : filter g (filter f l) = filter (fun x => f x && g x) l.
Proof.
  induction l as [|x r IH]; cbn; [reflexivity|].
  destruct (f x); cbn; [destruct (g x); rewrite IH; reflexivity|exact IH].
Qed.

Lemma filter_all {A} (f : A -> bool) l : (forall x, In x l -> f x = true) -> filter f l = l.
Proof.
  induction l as [|x r IH]; intros H; cbn; [reflexivity|].
  rewrite (H x (or_introl eq_refl)). f_equal. apply IH. intros y Hy; apply H; right; exact Hy.
Qed.

Lemma sublist_filter_weaken {A} (f g : A -> bool) l :
  (forall x, f x = true -> g x = true) -> sublist (filter f l) (filter g l).
Proof.
  intros H; induction l as [|x r IH]; cbn; [constructor|].
  destruct (f x) eqn:Ef.
  - rewrite (H x Ef). apply sl_take; exact IH.
  - destruct (g x); [apply sl_skip|]; exact IH.
Qed.

Lemma NoDup_map_filter {A B} (f : A -> B) (g : A -> bool) l : NoDup (map f l) -> NoDup (map f (filter g l)).
Proof.
  induction l as [|x r IH]; cbn; intros H; [constructor|].
  inversion H as [|? ? Hn Hr]; subst. destruct (g x); cbn; [|auto].
  constructor; [|auto]. intros Hin. apply Hn. apply in_map_iff in Hin as [y [E Hy]].
  apply filter_In in Hy as [Hy _]. apply in_map_iff. exists y; auto.
Qed.

(* taking a sub-sequence out of a list with distinct keys splits it *)
Lemma sublist_split {A} (f : A -> nat) (sub U : list A) :
  sublist sub U -> NoDup (map f U) ->
  Permutation (sub ++ filter (fun p => negb (mem_nat (f p) (map f sub))) U) U.
Proof.
  induction 1 as [l|s x l H IH|s x l H IH]; intros Hnd.
  - cbn. rewrite filter_all by reflexivity. apply Permutation_refl.
  - cbn [map] in Hnd. inversion Hnd as [|? ? Hn Hr]; subst.
    cbn [filter].
    assert (E : mem_nat (f x) (map f s) = false).
    { destruct (mem_nat (f x) (map f s)) eqn:E; [|reflexivity]. exfalso. apply Hn.
      apply mem_nat_In in E. apply in_map_iff in E as [y [Ey Hy]]. apply in_map_iff. exists y. split; [exact Ey|].
      eapply sublist_In; eauto. }
    rewrite E. cbn [negb]. apply Permutation_sym. eapply Permutation_trans; [|apply Permutation_middle].
    apply perm_skip. apply Permutation_sym. apply IH; exact Hr.
  - cbn [map] in Hnd. inversion Hnd as [|? ? Hn Hr]; subst.
    cbn [filter map mem_nat]. rewrite Nat.eqb_refl. cbn [orb negb app].
    apply perm_skip.
    rewrite (filter_ext_in (fun p => negb (Nat.eqb (f p) (f x) || mem_nat (f p) (map f s)))
                           (fun p => negb (mem_nat (f p) (map f s)))).
    + apply IH; exact Hr.
    + intros p Hp. destruct (Nat.eqb_spec (f p) (f x)) as [E|E]; [|reflexivity].
      exfalso. apply Hn. rewrite <- E. apply in_map; exact Hp.
Qed.

Section Spec.
  Variable peers : list fpeer.
  Hypothesis Hnodup : NoDup (map fidx peers).

  Notation fit_spec := (fit_spec peers).
  Notation unselected := (unselected peers).
  Notation candidates := (candidates peers).

  (* a valid assignment: rule by rule a sub-sequence (in peer-id order) of the peers that are not
     taken yet, satisfy the label constraints and can be converted to the role; at most Count of them *)
  Fixpoint valid (rules : list rule) (sel : list nat) (A : list (list fpeer)) : Prop :=
    match rules, A with
    | [], [] => True
    | r :: rest, sub :: A' =>
        sublist sub (candidates r sel) /\ (length sub <= rcount r)%nat /\ valid rest (sel_with sub sel) A'
    | _, _ => False
    end.
  Lemma candidates_sub_unselected r sel : sublist (candidates r sel) (unselected sel).
  Proof.
    apply sublist_filter_weaken. intros p H. apply andb_true_iff in H as [_ H]. exact H.
  Qed.

  Lemma unselected_sel_with sub sel :
    unselected (sel_with sub sel) = filter (fun p => negb (mem_nat (fidx p) (map fidx sub))) (unselected sel).
  Proof.
    unfold C12_Fit.unselected, sel_with. rewrite filter_filter. apply filter_ext. intros p.
    rewrite mem_nat_app, negb_orb, andb_comm. f_equal. f_equal.
    apply mem_nat_ext. intros y. rewrite <- in_rev. tauto.
  Qed.

  Lemma take_sub_perm r sel sub :
    sublist sub (candidates r sel) -> Permutation (sub ++ unselected (sel_with sub sel)) (unselected sel).
  Proof.
    intros H. rewrite unselected_sel_with. apply sublist_split.
    - eapply sublist_trans; [exact H|apply candidates_sub_unselected].
    - apply NoDup_map_filter; exact Hnodup.
  Qed.

  (* every peer in exactly one rule or in the orphan list *)
  Theorem valid_partition rules : forall sel A,
    valid rules sel A -> Permutation (concat A ++ unselected (final_sel sel A)) (unselected sel).
  Proof.
    induction rules as [|r rest IH]; intros sel [|sub A'] H; cbn in H; try contradiction.
    - cbn. apply Permutation_refl.
    - destruct H as (Hs & _ & Hv). cbn [concat final_sel]. rewrite <- app_assoc.
      eapply Permutation_trans; [apply Permutation_app_head; apply IH; exact Hv|].
      apply (take_sub_perm r); exact Hs.
  Qed.

  (* only into rules whose constraints the store satisfies and whose role the peer can take; never more than Count *)
  Theorem valid_clauses rules : forall sel A,
    valid rules sel A ->
    Forall2 (fun r sub =>
               (forall p, In p sub -> In p peers /\ match_label_constraints (fstore p) (rcons r) = true
                                      /\ match_role_loose p (rrole r) = true)
               /\ (length sub <= rcount r)%nat) rules A.
  Proof.
    induction rules as [|r rest IH]; intros sel [|sub A'] H; cbn in H; try contradiction; constructor.
    - destruct H as (Hs & Hc & _). split; [|exact Hc]. intros p Hp.
      pose proof (sublist_In _ _ Hs p Hp) as Hin. apply filter_In in Hin as [Hin Hok].
      apply andb_true_iff in Hok as [Hok _]. apply andb_true_iff in Hok as [H1 H2]. auto.
    - destruct H as (_ & _ & Hv). eapply IH; exact Hv.
  Qed.

  Lemma fits_of_length rules : forall sel A, valid rules sel A -> length (fits_of rules A) = length rules.
  Proof.
    induction rules as [|r rest IH]; intros sel [|sub A'] H; cbn in H; try contradiction; cbn; [reflexivity|].
    destruct H as (_ & _ & Hv). f_equal. eapply IH; exact Hv.
  Qed.

  (* the specification's answer is itself a valid assignment that fills every rule as far as possible *)
  Theorem spec_valid rules : forall sel,
    exists A, valid rules sel A /\ fit_spec rules sel = (fits_of rules A, unselected (final_sel sel A)).
  Proof.
    induction rules as [|r rest IH]; intros sel.
    - exists []. split; [exact I|reflexivity].
    - rewrite fit_spec_cons.
      set (k := Nat.min (rcount r) (length (candidates r sel))).
      assert (Hne : map (cand peers r rest sel) (subsets k (candidates r sel)) <> []).
      { intros E. apply map_eq_nil in E. revert E. apply subsets_cands_nonempty. }
      pose proof (first_max_in _ Hne) as Hin. apply in_map_iff in Hin as [sub [E Hsub]].
      apply subsets_spec in Hsub as [Hsl Hlen].
      destruct (IH (sel_with sub sel)) as (A' & Hv & Esp).
      exists (sub :: A'). split.
      + cbn. split; [exact Hsl|]. split; [subst k; lia|exact Hv].
      + rewrite <- E. unfold cand. rewrite Esp. reflexivity.
  Qed.

  Lemma lexcmp_cons_same f a b : lexcmp (f :: a) (f :: b) = lexcmp a b.
  Proof. unfold lexcmp. cbn. rewrite (g_refl _ good_crf). reflexivity. Qed.

  (* no valid assignment is better, rule by rule *)
  Theorem spec_optimal rules : forall sel A,
    valid rules sel A -> lexcmp (fst (fit_spec rules sel)) (fits_of rules A) <> Lt.
  Proof.
    induction rules as [|r rest IH]; intros sel [|sub A'] H; cbn in H; try contradiction.
    - cbn. discriminate.
    - destruct H as (Hs & Hc & Hv). rewrite fit_spec_cons.
      set (k := Nat.min (rcount r) (length (candidates r sel))).
      set (xs := map (cand peers r rest sel) (subsets k (candidates r sel))).
      assert (Hmax : forall y, In y xs -> cmp_res (first_max xs) y <> Lt).
      { intros y Hy. destruct xs as [|x0 r0]; [destruct Hy|]. apply (fold_better_max cmp_res good_cmp_res). exact Hy. }
      assert (Hk : (length sub <= k)%nat) by (pose proof (sublist_length _ _ Hs); subst k; lia).
      cbn [fits_of].
      destruct (Nat.eq_dec (length sub) k) as [Ek|Nk].
      + assert (Hin : In (cand peers r rest sel sub) xs).
        { apply in_map. apply subsets_spec. split; assumption. }
        specialize (Hmax _ Hin). unfold cmp_res in Hmax.
        eapply (g_ge_trans _ good_lexcmp); [exact Hmax|].
        unfold cand. specialize (IH (sel_with sub sel) A' Hv).
        destruct (C12_Fit.fit_spec peers rest (sel_with sub sel)) as [t o]. cbn [fst] in *.
        rewrite lexcmp_cons_same. exact IH.
      + assert (Hex : exists sub0, In sub0 (subsets k (candidates r sel))).
        { pose proof (subsets_cands_nonempty peers r sel) as Hne. fold k in Hne.
          destruct (subsets k (candidates r sel)) as [|sub0 more]; [congruence|]. exists sub0. left; reflexivity. }
        destruct Hex as [sub0 Hin0].
        assert (Hin : In (cand peers r rest sel sub0) xs) by (apply in_map; exact Hin0).
        apply subsets_spec in Hin0 as [_ Hl0].
        specialize (Hmax _ Hin). unfold cmp_res in Hmax.
        assert (Hgt : lexcmp (fst (cand peers r rest sel sub0)) (new_rule_fit r sub :: fits_of rest A') = Gt).
        { unfold cand. destruct (C12_Fit.fit_spec peers rest (sel_with sub0 sel)) as [t o]. cbn [fst].
          unfold lexcmp. cbn [lexlist].
          assert (Hc' : compare_rule_fit (new_rule_fit r sub0) (new_rule_fit r sub) = Gt).
          { apply crf_gt_iff. left. cbn. lia. }
          rewrite Hc'. reflexivity. }
        rewrite (g_ge_gt _ good_lexcmp _ _ _ Hmax Hgt). discriminate.
  Qed.

  Lemma lexcmp_eq_counts rules : forall sel1 sel2 A1 A2,
    valid rules sel1 A1 -> valid rules sel2 A2 ->
    lexcmp (fits_of rules A1) (fits_of rules A2) = Eq -> length (concat A1) = length (concat A2).
  Proof.
    induction rules as [|r rest IH]; intros sel1 sel2 [|s1 A1] [|s2 A2] H1 H2 E; cbn in H1, H2; try contradiction.
    - reflexivity.
    - destruct H1 as (_ & _ & H1). destruct H2 as (_ & _ & H2).
      unfold lexcmp in E. cbn in E. apply lexc_eq in E as [E1 E2].
      apply crf_eq_iff in E1 as (E1 & _). cbn in E1.
      cbn [concat]. rewrite !app_length. rewrite E1. f_equal. eapply IH; eauto.
  Qed.

  (* ... and, on a tie, none leaves fewer orphans: CompareRegionFit never prefers another valid assignment *)
  Theorem spec_optimal_region rules sel A :
    valid rules sel A ->
    compare_region_fit (fit_spec rules sel) (fits_of rules A, unselected (final_sel sel A)) <> Lt.
  Proof.
    intros Hv. destruct (spec_valid rules sel) as (AS & HvS & ES).
    rewrite compare_region_fit_same_len.
    2:{ cbn [fst]. rewrite fit_spec_length. symmetry. eapply fits_of_length; exact Hv. }
    pose proof (spec_optimal rules sel A Hv) as Hopt. cbn [fst snd].
    destruct (lexcmp (fst (fit_spec rules sel)) (fits_of rules A)) eqn:El; try congruence; cbn [lexc]; [|discriminate].
    rewrite ES in El |- *. cbn [fst snd] in *.
    pose proof (lexcmp_eq_counts rules sel sel AS A HvS Hv El) as Hc.
    pose proof (Permutation_length (valid_partition rules sel A Hv)) as P1.
    pose proof (Permutation_length (valid_partition rules sel AS HvS)) as P2.
    rewrite app_length in P1, P2.
    rewrite Nat.compare_lt_iff. lia.
  Qed.
End Spec.

(* ---------- 4. FitRegion on plain inputs ---------- *)
Lemma mk_fpeers_from_idx stores leader l : forall n,
  map fidx (mk_fpeers_from n stores leader l) = seq n (length l).
Proof. induction l as [|p r IH]; intros n; cbn; [reflexivity|]. f_equal. apply IH. Qed.

Lemma mk_fpeers_nodup stores leader ps : NoDup (map fidx (mk_fpeers stores leader ps)).
Proof. unfold mk_fpeers. rewrite mk_fpeers_from_idx. apply seq_NoDup. Qed.

Lemma mk_fpeers_from_store stores leader l : forall n p s,
  In p (mk_fpeers_from n stores leader l) -> fstore p = Some s -> In s stores.
Proof.
  induction l as [|q r IH]; intros n p s Hp Hs; cbn in Hp; [destruct Hp|].
  destruct Hp as [Hp|Hp]; [|eapply IH; eauto].
  subst p. cbn in Hs. unfold find_store in Hs. apply find_some in Hs. tauto.
Qed.

Lemma mk_fpeers_store stores leader ps p s :
  In p (mk_fpeers stores leader ps) -> fstore p = Some s -> In s stores.
Proof. apply mk_fpeers_from_store. Qed.

Lemma insert_peer_perm p l : Permutation (insert_peer p l) (p :: l).
Proof.
  induction l as [|q r IH]; cbn; [apply Permutation_refl|].
  destruct (pid q <? pid p)%Z; [|apply Permutation_refl].
  eapply Permutation_trans; [apply perm_skip; exact IH|apply perm_swap].
Qed.
Lemma sort_peers_perm l : Permutation (sort_peers l) l.
Proof.
  induction l as [|p r IH]; cbn; [constructor|].
  eapply Permutation_trans; [apply insert_peer_perm|apply perm_skip; exact IH].
Qed.
Lemma mk_fpeers_from_pids stores leader l : forall n, map fpid (mk_fpeers_from n stores leader l) = map pid l.
Proof. induction l as [|p r IH]; intros n; cbn; [reflexivity|]. f_equal. apply IH. Qed.
(* the fit peers are the region's peers *)
Lemma mk_fpeers_pids stores leader ps : Permutation (map fpid (mk_fpeers stores leader ps)) (map pid ps).
Proof. unfold mk_fpeers. rewrite mk_fpeers_from_pids. apply Permutation_map, sort_peers_perm. Qed.

Lemma unselected_nil peers : unselected peers [] = peers.
Proof. unfold unselected. apply filter_all. reflexivity. Qed.

Theorem fit_region_eq_spec_pf stores leader ps rules :
  fit_region stores leader ps rules =
  (map Some (fst (fit_region_spec stores leader ps rules)), snd (fit_region_spec stores leader ps rules)).
Proof.
  unfold fit_region, fit_region_spec. apply fit_imp_eq_spec_pf. apply mk_fpeers_store.
Qed.

(* what a fit (rule fits + orphans) has to satisfy against its inputs *)
Definition rule_fit_ok (r : rule) (f : rulefit) : Prop :=
  (forall p, In p (rf_peers f) ->
     match_label_constraints (fstore p) (rcons r) = true /\ match_role_loose p (rrole r) = true) /\
  (length (rf_peers f) <= rcount r)%nat /\
  rf_diff f = filter (fun p => negb (match_role_strict p (rrole r))) (rf_peers f) /\
  rf_score f = isolation_score (rf_peers f) (rlocs r).

Lemma fits_of_ok peers rules : forall sel A,
  valid peers rules sel A -> Forall2 rule_fit_ok rules (fits_of rules A).
Proof.
  intros sel A Hv. pose proof (valid_clauses peers rules sel A Hv) as Hc. clear Hv.
  induction Hc as [|r sub rules' A' [H1 H2] _ IH]; cbn; constructor; [|exact IH].
  unfold rule_fit_ok. cbn. repeat split; try reflexivity; try exact H2; apply H1; assumption.
Qed.

Lemma fits_of_peers rules : forall A, length A = length rules -> concat (map rf_peers (fits_of rules A)) = concat A.
Proof.
  induction rules as [|r rest IH]; intros [|sub A'] H; cbn in *; try discriminate; [reflexivity|].
  f_equal. apply IH. lia.
Qed.

Lemma valid_length peers rules : forall sel A, valid peers rules sel A -> length A = length rules.
Proof.
  induction rules as [|r rest IH]; intros sel [|sub A'] H; cbn in H; try contradiction; cbn; [reflexivity|].
  destruct H as (_ & _ & Hv). f_equal. eapply IH; exact Hv.
Qed.

Theorem fit_partition_pf stores leader ps rules :
  exists fits orph,
    fit_region stores leader ps rules = (map Some fits, orph) /\
    length fits = length rules /\
    Permutation (concat (map rf_peers fits) ++ orph) (mk_fpeers stores leader ps) /\
    Forall2 rule_fit_ok rules fits.
Proof.
  rewrite fit_region_eq_spec_pf. unfold fit_region_spec.
  set (peers := mk_fpeers stores leader ps).
  destruct (spec_valid peers rules []) as (A & Hv & E). rewrite E. cbn [fst snd].
  exists (fits_of rules A), (unselected peers (final_sel [] A)). split; [reflexivity|]. split; [|split].
  - eapply fits_of_length; exact Hv.
  - rewrite (fits_of_peers rules A) by (apply (valid_length peers rules [] A Hv)).
    rewrite <- (unselected_nil peers) at 2. apply (valid_partition peers (mk_fpeers_nodup stores leader ps) rules [] A Hv).
  - apply (fits_of_ok peers rules [] A Hv).
Qed.

Theorem fit_optimal_pf stores leader ps rules :
  exists fits orph,
    fit_region stores leader ps rules = (map Some fits, orph) /\
    forall A, valid (mk_fpeers stores leader ps) rules [] A ->
      compare_region_fit (fits, orph)
        (fits_of rules A, unselected (mk_fpeers stores leader ps) (final_sel [] A)) <> Lt.
Proof.
  rewrite fit_region_eq_spec_pf. unfold fit_region_spec.
  set (peers := mk_fpeers stores leader ps).
  exists (fst (fit_spec peers rules [])), (snd (fit_spec peers rules [])). split; [reflexivity|].
  intros A Hv. rewrite <- surjective_pairing. apply spec_optimal_region; [apply mk_fpeers_nodup|exact Hv].
Qed.

(* IsSatisfied: every rule filled with Count peers of matching role, and no orphan (and at least one rule) *)
Lemma all_satisfied_iff rules : forall fits,
  Forall2 rule_fit_ok rules fits ->
  (all_satisfied rules fits = true <->
   Forall2 (fun r f => length (rf_peers f) = rcount r /\ forall p, In p (rf_peers f) -> match_role_strict p (rrole r) = true) rules fits).
Proof.
  intros fits H. induction H as [|r f rules' fits' Hok _ IH]; cbn [all_satisfied].
  - split; [constructor|reflexivity].
  - destruct Hok as (_ & _ & Hd & _).
    rewrite andb_true_iff, IH. unfold rule_satisfied. rewrite andb_true_iff, !Nat.eqb_eq, Hd.
    split.
    + intros [[H1 H2] H3]. constructor; [|exact H3]. split; [exact H1|].
      intros p Hp. destruct (match_role_strict p (rrole r)) eqn:E; [reflexivity|].
      assert (Hin : In p (filter (fun p => negb (match_role_strict p (rrole r))) (rf_peers f))).
      { apply filter_In. rewrite E. auto. }
      destruct (filter (fun p => negb (match_role_strict p (rrole r))) (rf_peers f)); [destruct Hin|discriminate].
    + intros H'. inversion H' as [|? ? ? ? [H1 H2] H3]; subst. split; [|exact H3]. split; [exact H1|].
      rewrite filter_none; [reflexivity|]. intros p Hp. rewrite (H2 p Hp). reflexivity.
Qed.

Theorem satisfied_iff_pf stores leader ps rules :
  exists fits orph,
    fit_region stores leader ps rules = (map Some fits, orph) /\
    (is_satisfied rules (fits, orph) = true <->
     rules <> [] /\
     Forall2 (fun r f => length (rf_peers f) = rcount r /\
                         forall p, In p (rf_peers f) -> match_role_strict p (rrole r) = true) rules fits /\
     orph = []).
Proof.
  destruct (fit_partition_pf stores leader ps rules) as (fits & orph & E & Hl & _ & Hok).
  exists fits, orph. split; [exact E|].
  unfold is_satisfied. cbn [fst snd].
  destruct fits as [|f fits'].
  - destruct rules; [|discriminate]. split; [discriminate|]. intros [H _]. congruence.
  - destruct rules as [|r rules']; [discriminate|].
    rewrite andb_true_iff, (all_satisfied_iff _ _ Hok), Nat.eqb_eq.
    split.
    + intros [H1 H2]. split; [discriminate|]. split; [exact H1|]. destruct orph; [reflexivity|discriminate].
    + intros (_ & H1 & H2). subst orph. split; [exact H1|reflexivity].
Qed.

(* the search leaves no nil RuleFit: split_best's default is never used and IsSatisfied cannot panic *)
Corollary fit_region_all_some stores leader ps rules :
  exists fits, all_some (fst (fit_region stores leader ps rules)) = Some fits /\ length fits = length rules.
Proof.
  destruct (fit_partition_pf stores leader ps rules) as (fits & orph & E & Hl & _).
  exists fits. rewrite E. cbn [fst]. split; [|exact Hl].
  clear. induction fits as [|f r IH]; cbn; [reflexivity|]. rewrite IH. reflexivity.
Qed.

(* ---------- 5. assumptions removed or quantified (Pass C) ---------- *)

(* (a) sort.Slice is not stable.  A list that is already ordered by peer id is a fixed point of
   sort_peers, so whichever order the unstable sort leaves among peers of equal id, FitRegion's behaviour
   is `fit_region` of that arrangement — and every theorem above holds for every arrangement. *)
Definition pid_le (a b : peer) : Prop := (pid a <= pid b)%Z.

Lemma insert_peer_head p l : (forall q, In q l -> pid_le p q) -> insert_peer p l = p :: l.
Proof.
  destruct l as [|q r]; intros H; [reflexivity|]. cbn.
  pose proof (H q (or_introl eq_refl)) as L. unfold pid_le in L.
  destruct (Z.ltb_spec (pid q) (pid p)); [lia|reflexivity].
Qed.

Theorem sort_peers_sorted l : StronglySorted pid_le l -> sort_peers l = l.
Proof.
  induction 1 as [|p r S IH F]; [reflexivity|]. cbn [sort_peers fold_right]. fold (sort_peers r). rewrite IH.
  apply insert_peer_head. rewrite Forall_forall in F. exact F.
Qed.

Theorem unstable_sort_covered stores leader ps ps' rules :
  Permutation ps ps' -> StronglySorted pid_le ps' ->
  fit_imp stores (mk_fpeers_from 0 stores leader ps') rules = fit_region stores leader ps' rules
  /\ Permutation (map pid ps') (map pid ps).
Proof.
  intros P S. split; [|apply Permutation_map, Permutation_sym; exact P].
  unfold fit_region, mk_fpeers. rewrite (sort_peers_sorted ps' S). reflexivity.
Qed.

(* (b) isolation scores are exact in float64: 0 <= score <= C(n,2) * base^(levels-1) *)
Lemma pair_score_bounds p1 p2 labels :
  (0 <= pair_score p1 p2 labels <= replicaBaseScore ^ (Z.of_nat (length labels) - 1))%Z.
Proof.
  unfold pair_score. assert (B : (1 < replicaBaseScore)%Z) by reflexivity.
  destruct (compare_location p1 p2 labels) as [i|] eqn:E.
  - assert (Hi : (i < length labels)%nat).
    { unfold compare_location in E. revert E. generalize (labels_of (fstore p1)) (labels_of (fstore p2)).
      assert (G : forall ls n l1 l2 j, compare_location_from n l1 l2 ls = Some j -> (n <= j < n + length ls)%nat).
      { induction ls as [|k r IH]; intros n l1 l2 j H; cbn in H; [discriminate|].
        destruct (negb (is_empty (get_label_value l1 k)) && negb (is_empty (get_label_value l2 k)) && negb (fold_eqb (get_label_value l1 k) (get_label_value l2 k))).
        - inversion H; subst. cbn. lia.
        - apply IH in H. cbn. lia. }
      intros l1 l2 H. apply G in H. lia. }
    split; [apply Z.pow_nonneg; lia|]. apply Z.pow_le_mono_r; lia.
  - split; [lia|]. apply Z.pow_nonneg. lia.
Qed.

Lemma fold_pair_bounds p1 labels r : forall acc,
  (acc <= fold_left (fun a p2 => a + pair_score p1 p2 labels) r acc
       <= acc + Z.of_nat (length r) * replicaBaseScore ^ (Z.of_nat (length labels) - 1))%Z.
Proof.
  induction r as [|p2 r IH]; intros acc; cbn [fold_left length]; [lia|].
  pose proof (pair_score_bounds p1 p2 labels) as B. specialize (IH (acc + pair_score p1 p2 labels)%Z).
  rewrite Nat2Z.inj_succ. nia.
Qed.

Lemma score_pairs_bounds ps labels :
  (0 <= score_pairs ps labels
     <= Z.of_nat (length ps * (length ps - 1) / 2) * replicaBaseScore ^ (Z.of_nat (length labels) - 1))%Z.
Proof.
  set (M := (replicaBaseScore ^ (Z.of_nat (length labels) - 1))%Z).
  assert (HM : (0 <= M)%Z) by (subst M; apply Z.pow_nonneg; reflexivity || (assert (1 < replicaBaseScore)%Z by reflexivity; lia)).
  assert (G : forall l, (0 <= score_pairs l labels <= Z.of_nat (length l * (length l - 1) / 2) * M)%Z).
  { induction l as [|p r IH]; cbn [score_pairs length]; [cbn; lia|].
    pose proof (fold_pair_bounds p labels r 0%Z) as B. fold M in B.
    assert (E : (S (length r) * (S (length r) - 1) / 2 = length r + length r * (length r - 1) / 2)%nat).
    { replace (S (length r) - 1)%nat with (length r) by lia.
      destruct (length r) as [|n]; [reflexivity|].
      replace (S (S n) * S n)%nat with (S n * 2 + S n * (S n - 1))%nat by (cbn; nia).
      rewrite Nat.div_add_l by lia. reflexivity. }
    rewrite E, Nat2Z.inj_add. nia. }
  apply G.
Qed.

Theorem isolation_score_bounds ps labels :
  (0 <= isolation_score ps labels
     <= Z.of_nat (length ps * (length ps - 1) / 2) * replicaBaseScore ^ (Z.of_nat (length labels) - 1))%Z.
Proof.
  unfold isolation_score. pose proof (score_pairs_bounds ps labels) as B.
  assert (HM : (0 <= replicaBaseScore ^ (Z.of_nat (length labels) - 1))%Z) by (apply Z.pow_nonneg; assert (1 < replicaBaseScore)%Z by reflexivity; lia).
  destruct labels; [cbn; nia|]. destruct (length ps <=? 1)%nat; [nia|exact B].
Qed.

(* with at most 7 location labels and 6 peers per rule every score (and every partial sum) is an integer
   below 2^53, i.e. exactly representable: the float64 comparison of compareRuleFit is the comparison on Z *)
Corollary isolation_score_exact_in_float64 ps labels :
  (length ps <= 6)%nat -> (length labels <= 7)%nat -> (0 <= isolation_score ps labels < 2 ^ 53)%Z.
Proof.
  intros Hp Hl. pose proof (isolation_score_bounds ps labels) as [B1 B2]. split; [exact B1|].
  assert (E1 : (Z.of_nat (length ps * (length ps - 1) / 2) <= 15)%Z).
  { assert (length ps * (length ps - 1) / 2 <= 15)%nat; [|lia].
    apply Nat.div_le_upper_bound; [lia|]. nia. }
  assert (E2 : (replicaBaseScore ^ (Z.of_nat (length labels) - 1) <= replicaBaseScore ^ 6)%Z).
  { destruct labels as [|x l]; [vm_compute; discriminate|].
    apply Z.pow_le_mono_r; [reflexivity|]. cbn [length] in *. lia. }
  assert (E3 : (0 <= replicaBaseScore ^ (Z.of_nat (length labels) - 1))%Z) by (apply Z.pow_nonneg; assert (1 < replicaBaseScore)%Z by reflexivity; lia).
  assert (E4 : (15 * replicaBaseScore ^ 6 < 2 ^ 53)%Z) by (vm_compute; reflexivity).
  nia.
Qed.

(* (c) the brute-force oracle of the monitor enumerates exactly the valid assignments *)
Lemma sublists_spec {A} (l : list A) : forall s, In s (sublists l) <-> sublist s l.
Proof.
  induction l as [|x r IH]; intros s; cbn [sublists].
  - split; [intros [<-|[]]; constructor|]. intros H. inversion H; subst. left; reflexivity.
  - rewrite in_app_iff, in_map_iff. split.
    + intros [[s' [<- H]]|H]; [apply sl_take; apply IH; exact H|apply sl_skip; apply IH; exact H].
    + intros H. inversion H as [l'|s' x' l' H'|s' x' l' H']; subst.
      * right. apply IH. constructor.
      * right. apply IH. exact H'.
      * left. exists s'. split; [reflexivity|apply IH; exact H'].
Qed.

Theorem all_valid_spec peers rules : forall sel A, In A (all_valid peers rules sel) <-> valid peers rules sel A.
Proof.
  induction rules as [|r rest IH]; intros sel A; cbn [all_valid valid].
  - destruct A as [|a A'].
    + split; intros _; [exact I|left; reflexivity].
    + split; [intros [H|[]]; discriminate|intros []].
  - rewrite in_flat_map. split.
    + intros [sub [Hs Hin]]. apply filter_In in Hs as [Hs Hl]. apply in_map_iff in Hin as [A' [<- HA']].
      split; [apply sublists_spec; exact Hs|]. split; [apply Nat.leb_le; exact Hl|apply IH; exact HA'].
    + destruct A as [|sub A']; [tauto|]. intros (Hs & Hl & Hv). exists sub. split.
      * apply filter_In. split; [apply sublists_spec; exact Hs|apply Nat.leb_le; exact Hl].
      * apply in_map. apply IH. exact Hv.
Qed.

(* FitRegion's own answer always passes the oracle *)
Theorem fit_region_passes_oracle stores leader ps rules :
  exists fits orph, fit_region stores leader ps rules = (map Some fits, orph) /\
                    not_worse_than_any (mk_fpeers stores leader ps) rules (fits, orph) = true.
Proof.
  destruct (fit_optimal_pf stores leader ps rules) as (fits & orph & E & H). exists fits, orph. split; [exact E|].
  unfold not_worse_than_any. apply forallb_forall. intros A HA. apply all_valid_spec in HA. specialize (H A HA).
  destruct (compare_region_fit _ _); try reflexivity. congruence.
Qed.
