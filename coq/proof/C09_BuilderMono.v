(* C09 — the plans of the operator builder never lower what an earlier step counts in ConfVerChanged:
   the syntactic criterion of proof/C09_Tidy.v on the joint path's script. *)
From Coq Require Import String Sorting.Sorted.
From PDV Require Import lib.Base gen.Gen_C08 gen.Gen_C09 model.C08_Steps model.C08_Builder model.C09_OpCtl
     proof.C08_ListFacts proof.C08_PmapFacts proof.C08_SimPhases proof.C08_JointScript proof.C08_PrepareFacts
     proof.C08_JointBuild proof.C08_JointFacts proof.C08_JointMain proof.C08_StepSpec
     proof.C09_CountProof proof.C09_OwnGeneral proof.C09_Tidy.
Local Open Scope list_scope.
Local Open Scope Z_scope.

(* ---------- tidy_from over lists built in segments ---------- *)
Lemma tidy_from_app : forall l1 l2 done, tidy_from done (l1 ++ l2) = tidy_from done l1 && tidy_from (done ++ l1) l2.
Proof.
  induction l1 as [|s l1 IH]; intros l2 done; cbn [app tidy_from].
  - rewrite app_nil_r. reflexivity.
  - rewrite IH, <- app_assoc. cbn [app]. rewrite andb_assoc. reflexivity.
Qed.

Lemma tidy_from_one done s : tidy_from done [s] = forallb (fun x => compat x s) done.
Proof. cbn. apply andb_true_r. Qed.

Lemma tidy_from_map {A} (f : A -> step) : forall L done,
  (forall x l, In x done -> In l L -> compat x (f l) = true) ->
  ForallOrdPairs (fun l1 l2 => compat (f l1) (f l2) = true) L ->
  tidy_from done (map f L) = true.
Proof.
  induction L as [|l L IH]; intros done H1 H2; cbn [map tidy_from]; [reflexivity|].
  inversion H2 as [|? ? Hl Hr]; subst. apply andb_true_iff. split.
  - apply forallb_forall. intros x Hx. apply H1; [exact Hx|left; reflexivity].
  - apply IH; [|exact Hr]. intros x l' Hx Hl'. apply in_app_or in Hx as [Hx|[<-|[]]].
    + apply H1; [exact Hx|right; exact Hl'].
    + rewrite Forall_forall in Hl. apply Hl. exact Hl'.
Qed.

Lemma fop_of_nodup {A} (g : A -> Z) (R : A -> A -> Prop) L :
  NoDup (map g L) -> (forall a b, g a <> g b -> R a b) -> ForallOrdPairs R L.
Proof.
  induction L as [|a L IH]; intros Hn HR; [constructor|]. cbn [map] in Hn. inversion Hn as [|? ? Hna Hnd]; subst.
  constructor; [|apply IH; assumption]. apply Forall_forall. intros b Hb. apply HR. intros E. apply Hna. rewrite E. apply in_map. exact Hb.
Qed.

Lemma forallb_app_true {A} (f : A -> bool) l1 l2 : forallb f l1 = true -> forallb f l2 = true -> forallb f (l1 ++ l2) = true.
Proof. intros H1 H2. rewrite forallb_app, H1, H2. reflexivity. Qed.

(* ---------- the joint script ---------- *)
Section JointPlan.
  Variables (light : bool) (A : list peer) (P D : list (Z * Z)) (R : list peer) (m : tmode) (ol tl : Z).
  Hypothesis HA : NoDup (map pstore A).
  Hypothesis HR : NoDup (map pstore R).
  Hypothesis HAR : forall a p, In a A -> In p R -> pstore a <> pstore p.
  Hypothesis HRP : forall p, In p R -> in_fst (pstore p) P = false.
  Hypothesis HAz : forall a, In a A -> pid a <> 0.
  Hypothesis HPz : pair_ids_nonzero P = true.
  Hypothesis HDz : pair_ids_nonzero D = true.

  Let T (k : tmode) : list step :=
    match m, k with TBefore, TBefore | TInside, TInside | TAfter, TAfter => [TransferLeader ol tl] | _, _ => [] end.

  Lemma joint_plan_segments :
    joint_plan light A P D R m ol tl =
    add_steps light A ++ T TBefore ++ [ChangePeerV2Enter P D] ++ T TInside ++ [ChangePeerV2Leave P D] ++ T TAfter ++ remove_steps R.
  Proof. unfold joint_plan, T. destruct m; reflexivity. Qed.

  Lemma compat_any_transfer x a b : compat x (TransferLeader a b) = true.
  Proof. destruct x; reflexivity. Qed.
  Lemma compat_transfer_any a b s : compat (TransferLeader a b) s = true.
  Proof. reflexivity. Qed.

  Lemma T_transfer k s : In s (T k) -> exists a b, s = TransferLeader a b.
  Proof. unfold T. destruct m, k; cbn; intros H; try contradiction; destruct H as [<-|[]]; eauto. Qed.

  Lemma tidy_T done k : tidy_from done (T k) = true.
  Proof.
    unfold T. destruct m, k; try reflexivity; rewrite tidy_from_one; apply forallb_forall; intros x _; apply compat_any_transfer.
  Qed.

  Lemma add_step_kind a : add_step light (pstore a) (pid a) = AddLearner (pstore a) (pid a) \/ add_step light (pstore a) (pid a) = AddLightLearner (pstore a) (pid a).
  Proof. unfold add_step. destruct light; auto. Qed.

  (* what precedes what *)
  Definition is_add (x : step) : Prop := exists a, In a A /\ x = add_step light (pstore a) (pid a).
  Definition is_tr (x : step) : Prop := exists a b, x = TransferLeader a b.

  Lemma compat_add_enter x pl dv : is_add x -> compat x (ChangePeerV2Enter pl dv) = true.
  Proof. intros (a & _ & ->). destruct (add_step_kind a) as [-> | ->]; reflexivity. Qed.
  Lemma compat_add_leave x pl dv : is_add x -> compat x (ChangePeerV2Leave pl dv) = true.
  Proof. intros (a & _ & ->). destruct (add_step_kind a) as [-> | ->]; reflexivity. Qed.
  Lemma compat_add_remove x p : is_add x -> In p R -> compat x (RemovePeer (pstore p) (pid p)) = true.
  Proof.
    intros (a & Ha & ->) Hp. pose proof (HAR a p Ha Hp) as Hne. apply Z.eqb_neq in Hne.
    destruct (add_step_kind a) as [-> | ->]; cbn [compat step_store]; rewrite Hne; reflexivity.
  Qed.
  Lemma compat_joint_remove x p : (x = ChangePeerV2Enter P D \/ x = ChangePeerV2Leave P D) -> In p R -> compat x (RemovePeer (pstore p) (pid p)) = true.
  Proof. intros [-> | ->] Hp; cbn [compat step_store]; rewrite (HRP p Hp); reflexivity. Qed.

  Lemma list_eqb_zz_refl l : list_eqb zz_eqb l l = true.
  Proof. induction l as [|[a b] l IH]; [reflexivity|]. cbn [list_eqb]. unfold zz_eqb at 1. cbn [fst snd]. rewrite !Z.eqb_refl. cbn [andb]. exact IH. Qed.

  Theorem joint_plan_syntactic :
    let plan := joint_plan light A P D R m ol tl in
    bracketed None plan = true /\ forallb step_ids_nonzero plan = true /\ tidy_from [] plan = true.
  Proof.
    cbv zeta. rewrite joint_plan_segments. split; [|split].
    - (* brackets *)
      assert (B1 : forall l rest, (forall s, In s l -> br_ok None s = true /\ br_next None s = None) -> bracketed None (l ++ rest) = bracketed None rest).
      { induction l as [|s l IH]; intros rest H; cbn [app bracketed]; [reflexivity|].
        destruct (H s (or_introl eq_refl)) as [E1 E2]. rewrite E1, E2. cbn [andb]. apply IH. intros s' Hs'. apply H. right. exact Hs'. }
      assert (BT : forall k open, match open with None => True | Some _ => True end -> forall rest, bracketed open (T k ++ rest) = bracketed open rest).
      { intros k open _ rest. unfold T. destruct m, k; cbn [app]; try reflexivity; destruct open as [[? ?]|]; reflexivity. }
      rewrite B1.
      2:{ intros s Hs. unfold add_steps in Hs. apply in_map_iff in Hs as (a & <- & _). destruct (add_step_kind a) as [-> | ->]; split; reflexivity. }
      rewrite (BT TBefore None I). cbn [app bracketed br_ok br_next andb].
      destruct (empty_pairs P D) eqn:Ee.
      + rewrite (BT TInside None I). cbn [app bracketed br_ok br_next]. rewrite Ee. cbn [andb]. rewrite (BT TAfter None I).
        rewrite <- (app_nil_r (remove_steps R)). rewrite B1; [reflexivity|].
        intros s Hs. unfold remove_steps in Hs. apply in_map_iff in Hs as (p & <- & _). split; reflexivity.
      + rewrite (BT TInside (Some (P, D)) I). cbn [app bracketed br_ok br_next]. rewrite !list_eqb_zz_refl. cbn [andb]. rewrite (BT TAfter None I).
        rewrite <- (app_nil_r (remove_steps R)). rewrite B1; [reflexivity|].
        intros s Hs. unfold remove_steps in Hs. apply in_map_iff in Hs as (p & <- & _). split; reflexivity.
    - (* ids *)
      assert (ZT : forall k, forallb step_ids_nonzero (T k) = true) by (intros k; unfold T; destruct m, k; reflexivity).
      repeat apply forallb_app_true; auto.
      + apply forallb_forall. intros s Hs. unfold add_steps in Hs. apply in_map_iff in Hs as (a & <- & Ha).
        pose proof (HAz a Ha) as Hz. apply Z.eqb_neq in Hz. destruct (add_step_kind a) as [-> | ->]; cbn; rewrite Hz; reflexivity.
      + cbn. rewrite HPz, HDz. reflexivity.
      + cbn. rewrite HPz, HDz. reflexivity.
      + apply forallb_forall. intros s Hs. unfold remove_steps in Hs. apply in_map_iff in Hs as (p & <- & _). reflexivity.
    - (* compatibility, segment by segment *)
      (* what a step before a given point can be *)
      set (S1 := add_steps light A).
      assert (In1 : forall x, In x S1 -> is_add x).
      { intros x Hx. unfold S1, add_steps in Hx. apply in_map_iff in Hx as (a & <- & Ha). exists a. auto. }
      rewrite tidy_from_app. apply andb_true_iff. split.
      { (* adds among themselves *)
        unfold S1, add_steps. apply tidy_from_map; [intros x l []|].
        apply (fop_of_nodup pstore _ A HA). intros a b Hne. apply Z.eqb_neq in Hne.
        destruct (add_step_kind a) as [-> | ->], (add_step_kind b) as [-> | ->]; cbn [compat step_store]; rewrite Hne; reflexivity. }
      (* who can stand before a given point: an add, a transfer, the enter step, the leave step *)
      assert (Who : forall x l, In x l ->
                (forall y, In y l -> In y S1 \/ (exists k, In y (T k)) \/ y = ChangePeerV2Enter P D \/ y = ChangePeerV2Leave P D) ->
                is_add x \/ is_tr x \/ x = ChangePeerV2Enter P D \/ x = ChangePeerV2Leave P D).
      { intros x l Hx Hl. destruct (Hl x Hx) as [H|[(k & H)|[H|H]]]; [left; apply In1; exact H|right; left; apply (T_transfer _ _ H)|auto|auto]. }
      assert (Mem : forall l1 l2 (Q : step -> Prop), (forall y, In y l1 -> Q y) -> (forall y, In y l2 -> Q y) -> forall y, In y (l1 ++ l2) -> Q y).
      { intros l1 l2 Q H1 H2 y Hy. apply in_app_or in Hy as [Hy|Hy]; auto. }
      set (Q := fun y : step => In y S1 \/ (exists k, In y (T k)) \/ y = ChangePeerV2Enter P D \/ y = ChangePeerV2Leave P D).
      assert (Q0 : forall y, In y ([] : list step) -> Q y) by (intros y []).
      assert (Q1 : forall y, In y S1 -> Q y) by (intros y Hy; left; exact Hy).
      assert (QT : forall k y, In y (T k) -> Q y) by (intros k y Hy; right; left; eauto).
      assert (QE : forall y, In y [ChangePeerV2Enter P D] -> Q y) by (intros y [<-|[]]; right; right; left; reflexivity).
      assert (QL : forall y, In y [ChangePeerV2Leave P D] -> Q y) by (intros y [<-|[]]; right; right; right; reflexivity).
      rewrite tidy_from_app, tidy_T. cbn [andb].
      rewrite tidy_from_app, tidy_from_one. apply andb_true_iff. split.
      { apply forallb_forall. intros x Hx.
        destruct (Who x _ Hx (Mem _ _ Q (Mem _ _ Q Q0 Q1) (QT TBefore))) as [H|[(a & b & ->)|[-> | ->]]];
          [apply compat_add_enter; exact H|reflexivity| |].
        - (* the enter step is not before itself *) exfalso.
          repeat (apply in_app_or in Hx as [Hx|Hx]); try contradiction.
          + apply In1 in Hx. destruct Hx as (a & _ & E). destruct (add_step_kind a) as [E2|E2]; rewrite E2 in E; discriminate.
          + destruct (T_transfer _ _ Hx) as (a & b & E). discriminate.
        - exfalso. repeat (apply in_app_or in Hx as [Hx|Hx]); try contradiction.
          + apply In1 in Hx. destruct Hx as (a & _ & E). destruct (add_step_kind a) as [E2|E2]; rewrite E2 in E; discriminate.
          + destruct (T_transfer _ _ Hx) as (a & b & E). discriminate. }
      rewrite tidy_from_app, tidy_T. cbn [andb].
      rewrite tidy_from_app, tidy_from_one. apply andb_true_iff. split.
      { apply forallb_forall. intros x Hx.
        destruct (Who x _ Hx (Mem _ _ Q (Mem _ _ Q (Mem _ _ Q (Mem _ _ Q Q0 Q1) (QT TBefore)) QE) (QT TInside))) as [H|[(a & b & ->)|[-> | ->]]];
          [apply compat_add_leave; exact H|reflexivity|cbn [compat]; rewrite !list_eqb_zz_refl; reflexivity|].
        exfalso. repeat (apply in_app_or in Hx as [Hx|Hx]); try contradiction.
        + apply In1 in Hx. destruct Hx as (a & _ & E). destruct (add_step_kind a) as [E2|E2]; rewrite E2 in E; discriminate.
        + destruct (T_transfer _ _ Hx) as (a & b & E). discriminate.
        + destruct Hx as [E|[]]. discriminate.
        + destruct (T_transfer _ _ Hx) as (a & b & E). discriminate. }
      rewrite tidy_from_app, tidy_T. cbn [andb].
      unfold remove_steps. apply tidy_from_map.
      + intros x p Hx Hp.
        destruct (Who x _ Hx (Mem _ _ Q (Mem _ _ Q (Mem _ _ Q (Mem _ _ Q (Mem _ _ Q (Mem _ _ Q Q0 Q1) (QT TBefore)) QE) (QT TInside)) QL) (QT TAfter)))
          as [H|[(a & b & ->)|H]];
          [apply compat_add_remove; assumption|reflexivity|apply compat_joint_remove; assumption].
      + apply (fop_of_nodup pstore _ R HR). intros a b Hne. apply Z.eqb_neq in Hne. cbn [compat step_store]. rewrite Hne. reflexivity.
  Qed.
End JointPlan.

(* ---------- the joint build path ---------- *)
Lemma plan_ok_check g r ss : plan_ok g r ss = true -> plan_check g r ss = None.
Proof. unfold plan_ok. destruct (plan_check g r ss); [discriminate|reflexivity]. Qed.

Theorem builder_joint_monotone_pf i b ss kl kr :
  nodup_stores (peers (i_region i)) = true ->
  is_in_joint (i_region i) = false ->
  (exists lp, get_store_peer (i_region i) (leader (i_region i)) = Some lp /\ prole lp = Voter) ->
  region_ids_nonzero (i_region i) = true -> (forall a, In a (b_add b) -> pid a <> 0) ->
  prepared i = Some b -> b_use_joint b = true -> build i = Built ss kl kr ->
  monotone_from [] (i_region i) ss = true.
Proof.
  intros Hnd Hnj Hlead Hidz Haz Hprep Huj Hbuild.
  pose proof (plan_ok_check _ _ _ (builder_joint_plan_ok_general_pf i b ss kl kr Hnd Hnj Hlead Hprep Huj Hbuild)) as Hpc.
  destruct Hlead as (lp & Hlp & Hlrole).
  assert (Hnd' := Hnd).
  destruct (i_region i) as [ps0 l0 cv rg] eqn:Er. cbn [peers leader] in *.
  apply nodup_stores_ND in Hnd. unfold is_in_joint in Hnj. cbn [peers] in Hnj. apply NJ_of_not_joint in Hnj.
  unfold get_store_peer in Hlp; cbn [peers] in Hlp. fold (lk ps0 l0) in Hlp.
  unfold prepared in Hprep. unfold build in Hbuild.
  destruct (new_builder i) as [b0|] eqn:Enb; [|discriminate].
  destruct (api_ops b0 (i_ops i)) as [b1|] eqn:Eapi; [|discriminate].
  rewrite Hprep in Hbuild. rewrite Huj in Hbuild.
  destruct (build_joint b) as [bF|] eqn:Ebj; [|discriminate]. inversion Hbuild; subst ss kl kr; clear Hbuild.
  assert (I0 : ApiInv ps0 l0 (i_cluster i) b0).
  { pose proof (new_builder_inv i b0 Enb) as X. rewrite Er in X. cbn [peers leader] in X. apply X; assumption. }
  pose proof (api_ops_inv _ _ _ _ _ _ I0 Eapi) as [A1 A2 A3 A4 A5 A6 A7].
  pose proof (prepare_build_spec _ _ _ Hprep) as PF.
  destruct PF as [F1 F2 F3 F4 F5 F6 F7 F8 F9 F10 F11 F12 F13 F14 F15 F16 F17 F18 F19].
  destruct (F19 Huj) as (Huj1 & _).
  assert (Hallow : b_allow_demote b1 = true).
  { rewrite A4. rewrite A5 in Huj1. apply andb_true_iff in Huj1. tauto. }
  rewrite Hallow in F13, F15, F16. rewrite A1 in F13, F14, F15, F16.
  set (target := b_target b1) in *. set (alloc := i_alloc i) in *.
  (* the explicit script, as in the plan theorem *)
  assert (Htl : Tvoter b (joint_tl b) = true).
  { unfold Tvoter, joint_tl, set_target_leader_if_not_exist.
    destruct (joint_adds_spec (b_add b) b) as (_ & _ & _ & _ & S5 & S6 & _).
    set (bx := fold_left joint_add_one (b_add b) b) in *.
    destruct (static_fields _ _ S5) as (_ & _ & _ & S4 & _).
    destruct (b_tleader bx =? 0) eqn:E0; cbn [negb].
    - cbn [b_tleader set_tleader]. destruct (pick_target_leader_spec bx) as [Hz|(p & Hp & Ha)].
      + exfalso. unfold build_joint in Ebj. fold bx in Ebj. unfold set_target_leader_if_not_exist in Ebj. rewrite E0 in Ebj. cbn [negb] in Ebj.
        cbn [b_tleader set_tleader] in Ebj. rewrite Hz in Ebj. cbn in Ebj. discriminate.
      + rewrite S4 in Hp. rewrite Hp. destruct (allow_leader_role _ _ _ Ha) as [R|R]; unfold is_learner; rewrite R; reflexivity.
    - rewrite S6. destruct F18 as [Z0|(Et & p & Hp & Hl)].
      + rewrite S6 in E0. rewrite Z0 in E0. discriminate.
      + rewrite F4. fold target. rewrite Hp, Hl. reflexivity. }
  assert (Hl0 : b_origin_leader b <> 0).
  { rewrite F3, A2. intros C. apply lk_Some in Hlp as [Hin Hs]. rewrite C in Hs.
    unfold new_builder in Enb. rewrite Er in Enb. cbn [peers] in Enb.
    destruct (existsb (fun p => pstore p =? 0) ps0) eqn:E; [discriminate|].
    assert (X : existsb (fun p => pstore p =? 0) ps0 = true) by (apply existsb_exists; exists lp; split; [exact Hin|apply Z.eqb_eq; exact Hs]).
    congruence. }
  destruct (build_joint_steps b bF F11 (eq_trans F10 (eq_sym F3)) Hl0 Htl Ebj) as (Htl0 & m & Hsteps & Hmode).
  rewrite Hsteps in Hpc |- *.
  assert (Hadd : b_add b = cfold (f_add (pm_of_list ps0) true alloc) target []) by exact F16.
  assert (Hrem : b_remove b = cfold (f_rem target true) (pm_of_list ps0) []) by exact F13.
  assert (HP : joint_P b = pairs_of (cfold f_voter_add (cfold (f_add (pm_of_list ps0) true alloc) target [])
                                          (cfold (f_pro target) (pm_of_list ps0) []))).
  { unfold joint_P. rewrite Hadd, F14. reflexivity. }
  assert (HD : joint_D b = pairs_of (cfold f_voter_rem (cfold (f_rem target true) (pm_of_list ps0) [])
                                          (cfold (f_dem target true) (pm_of_list ps0) []))).
  { unfold joint_D. rewrite Hrem, F15. reflexivity. }
  rewrite Hadd in Haz.
  rewrite HP, HD, Hadd, Hrem in Hpc |- *.
  set (add := cfold (f_add (pm_of_list ps0) true alloc) target []) in *.
  set (rem := cfold (f_rem target true) (pm_of_list ps0) []) in *.
  set (P := pairs_of (cfold f_voter_add add (cfold (f_pro target) (pm_of_list ps0) []))) in *.
  set (D := pairs_of (cfold f_voter_rem rem (cfold (f_dem target true) (pm_of_list ps0) []))) in *.
  (* ids of the origin *)
  assert (Hps0z : forall q st, lk ps0 st = Some q -> pid q <> 0).
  { intros q st Hq. unfold region_ids_nonzero in Hidz. cbn [peers] in Hidz. rewrite forallb_forall in Hidz.
    specialize (Hidz q (proj1 (lk_Some _ _ _ Hq))). apply negb_true_iff, Z.eqb_neq in Hidz. exact Hidz. }
  (* ids of everything in ps1 = origin ++ learners of the adds *)
  assert (Hps1z : forall st q, lk (ps0 ++ map learner_of add) st = Some q -> pid q <> 0).
  { intros st q Hq. rewrite lk_app in Hq. destruct (lk ps0 st) as [q0|] eqn:E0.
    - inversion Hq; subst q0. eapply Hps0z; eauto.
    - apply lk_Some in Hq as [Hin _]. apply in_map_iff in Hin as (a & <- & Ha). cbn. apply Haz. exact Ha. }
  destruct (joint_plan_syntactic (b_light b) add P D rem m (b_origin_leader b) (joint_tl b)) as (B & Z & Tdy).
  - apply add_nd; assumption.
  - apply rem_nd; assumption.
  - (* adds go to free stores, removals are origin peers *)
    intros a p Ha Hp E.
    assert (Hfree : lk ps0 (pstore a) = None) by (eapply HA_fresh; eauto).
    assert (Hrnd : ND rem) by (apply rem_nd; assumption).
    pose proof (proj1 (pm_In_get _ _ Hrnd) Hp) as Hr. unfold rem in Hr. rewrite rem_get in Hr by assumption.
    rewrite <- E in Hr. rewrite Hfree in Hr. discriminate.
  - (* a removed store is not promoted *)
    intros p Hp. destruct (in_fst (pstore p) P) eqn:E; [|reflexivity]. exfalso.
    unfold in_fst in E. apply existsb_exists in E as (x & Hx & Hs). apply Z.eqb_eq in Hs.
    assert (Hl4 : lk (post_joint P D (ps0 ++ map learner_of add)) (pstore p) = Some (Peer (pstore p) (pid p) Learner)) by (eapply HR_char; eauto).
    assert (Hl1 : lk (ps0 ++ map learner_of add) (fst x) = Some (Peer (fst x) (snd x) Learner)) by (eapply HP_char; eauto).
    unfold post_joint in Hl4. rewrite lk_map in Hl4 by apply leave_role_store. rewrite lk_map in Hl4 by (intros q; apply enter_role_store).
    rewrite <- Hs in Hl4. rewrite Hl1 in Hl4. cbn [option_map] in Hl4.
    unfold enter_role in Hl4. cbn [pstore pid] in Hl4. fold P in Hl4. rewrite (memst_true _ P x Hx eq_refl) in Hl4. cbn in Hl4. discriminate.
  - exact Haz.
  - apply forallb_forall. intros x Hx. apply negb_true_iff, Z.eqb_neq.
    assert (Hl1 : lk (ps0 ++ map learner_of add) (fst x) = Some (Peer (fst x) (snd x) Learner)) by (eapply HP_char; eauto). apply (Hps1z _ _ Hl1).
  - apply forallb_forall. intros x Hx. apply negb_true_iff, Z.eqb_neq.
    assert (Hl1 : lk (ps0 ++ map learner_of add) (fst x) = Some (Peer (fst x) (snd x) Voter)) by (eapply HD_char; eauto). apply (Hps1z _ _ Hl1).
  - apply (tidy_monotone (goal_of b) _ [] (Region ps0 l0 cv rg) None); auto.
Qed.
