(* C09 — the plans of the builder's NON-joint path (buildStepsWithoutJointConsensus) never lower what an earlier
   step counts in ConfVerChanged, in general: an invariant of the loop (every emitted step's store has no work left
   that could undo it) gives the syntactic criterion of proof/C09_Tidy.v. *)
From Coq Require Import String Sorting.Sorted.
From PDV Require Import lib.Base gen.Gen_C08 gen.Gen_C09 model.C08_Steps model.C08_Builder model.C09_OpCtl
     proof.C08_ListFacts proof.C08_PmapFacts proof.C08_SimPhases proof.C08_JointScript proof.C08_PrepareFacts
     proof.C08_JointBuild proof.C08_JointFacts proof.C08_JointMain
     proof.C08_NjPhases proof.C08_StepSpec proof.C08_NjSteps proof.C08_NjPlans proof.C08_NjApply proof.C08_Skel proof.C08_NjMain
     proof.C09_CountProof proof.C09_OwnGeneral proof.C09_Tidy proof.C09_BuilderMono.
Local Open Scope list_scope.
Local Open Scope Z_scope.

(* nothing is pending on the store *)
Definition Quiet (b : bstate) (st : Z) : Prop :=
  pm_get (b_add b) st = None /\ pm_get (b_remove b) st = None /\ pm_get (b_promote b) st = None /\ pm_get (b_demote b) st = None.

(* an emitted step is settled: what is still pending cannot touch what it counts *)
Definition Settled (b : bstate) (x : step) : Prop :=
  match x with
  | TransferLeader _ _ => True
  | AddLearner st _ | AddLightLearner st _ | PromoteLearner st _ | DemoteFollower st _ => Quiet b st
  | RemovePeer st id =>
      id <> 0 /\ pm_get (b_remove b) st = None /\ pm_get (b_promote b) st = None /\ pm_get (b_demote b) st = None
      /\ forall a, pm_get (b_add b) st = Some a -> is_learner a = true /\ pid a <> id
  | _ => False
  end.

(* the next step works on something that is pending *)
Definition Busy (b : bstate) (s : step) : Prop :=
  match s with
  | TransferLeader _ _ => True
  | AddLearner st id | AddLightLearner st id => exists a, pm_get (b_add b) st = Some a /\ pid a = id
  | PromoteLearner st _ => pm_get (b_promote b) st <> None
  | DemoteFollower st _ => pm_get (b_demote b) st <> None
  | RemovePeer st _ => pm_get (b_remove b) st <> None
  | _ => False
  end.

Record NjM (b : bstate) : Prop := {
  m_settled : forall x, In x (b_steps b) -> Settled b x;
  m_ids : forallb step_ids_nonzero (b_steps b) = true;
  m_tidy : tidy_from [] (b_steps b) = true;
  m_cur : forall st o, pm_get (b_cur b) st = Some o -> pid o <> 0;
  m_add : forall a, In a (b_add b) -> pid a <> 0
}.

Definition Shrink (b b' : bstate) : Prop := forall st,
  (pm_get (b_add b') st = None \/ pm_get (b_add b') st = pm_get (b_add b) st)
  /\ (pm_get (b_remove b') st = None \/ pm_get (b_remove b') st = pm_get (b_remove b) st)
  /\ (pm_get (b_promote b') st = None \/ pm_get (b_promote b') st = pm_get (b_promote b) st)
  /\ (pm_get (b_demote b') st = None \/ pm_get (b_demote b') st = pm_get (b_demote b) st).

Lemma quiet_shrink b b' st : Shrink b b' -> Quiet b st -> Quiet b' st.
Proof.
  intros H (A & R & P & D). destruct (H st) as ([A'|A'] & [R'|R'] & [P'|P'] & [D'|D']); unfold Quiet; repeat split; congruence.
Qed.

Lemma settled_shrink b b' x : Shrink b b' -> Settled b x -> Settled b' x.
Proof.
  intros H S. destruct x; cbn [Settled] in *; try exact S; try (eapply quiet_shrink; eassumption).
  destruct S as (Z0 & R & P & D & A).
  match type of R with pm_get _ ?st = None => destruct (H st) as (A' & [R'|R'] & [P'|P'] & [D'|D']) end.
  all: split; [exact Z0|split; [congruence|split; [congruence|split; [congruence|]]]].
  all: intros a Ha; destruct A' as [A'|A']; [congruence|apply A; congruence].
Qed.

Lemma shrink_refl b b' :
  b_add b' = b_add b -> b_remove b' = b_remove b -> b_promote b' = b_promote b -> b_demote b' = b_demote b -> Shrink b b'.
Proof. intros E1 E2 E3 E4 st. rewrite E1, E2, E3, E4. auto. Qed.

Lemma compat_transfer x f t : compat x (TransferLeader f t) = true.
Proof. destruct x; reflexivity. Qed.

Lemma compat_new b x s : Settled b x -> Busy b s -> compat x s = true.
Proof.
  intros S B. destruct x; cbn [Settled] in S; try contradiction; try reflexivity.
  all: destruct s; cbn [Busy] in B; try contradiction; try reflexivity.
  all: cbn [compat step_store].
  all: match goal with |- negb (?a =? ?c) || _ = true => destruct (a =? c) eqn:E; [|reflexivity]; apply Z.eqb_eq in E; subst; cbn [negb orb] end.
  all: try (destruct S as (A & R & P & D); solve [destruct B as (a & Ha & _); congruence | contradiction]).
  all: try (destruct S as (Z0 & R & P & D & A); try contradiction).
  all: destruct B as (a & Ha & Hid); destruct (A a Ha) as [_ Hne]; apply andb_true_iff; split; apply negb_true_iff, Z.eqb_neq; congruence.
Qed.

(* the promotion that completes the addition of a voter *)
Lemma compat_new_voter b x a :
  Settled b x -> pm_get (b_add b) (pstore a) = Some a -> is_learner a = false ->
  compat x (PromoteLearner (pstore a) (pid a)) = true.
Proof.
  intros S Ha Hl. destruct x; cbn [Settled] in S; try contradiction; try reflexivity.
  all: cbn [compat step_store].
  all: match goal with |- negb (?u =? ?c) || _ = true => destruct (u =? c) eqn:E; [|reflexivity]; apply Z.eqb_eq in E; subst; cbn [negb orb] end.
  all: try (destruct S as (A & _); congruence).
  destruct S as (_ & _ & _ & _ & A). destruct (A a Ha) as [C _]. congruence.
Qed.

Lemma NjM_same b b' :
  b_steps b' = b_steps b -> b_cur b' = b_cur b -> b_add b' = b_add b -> b_remove b' = b_remove b ->
  b_promote b' = b_promote b -> b_demote b' = b_demote b -> NjM b -> NjM b'.
Proof.
  intros E1 E2 E3 E4 E5 E6 [M1 M2 M3 M4 M5]. constructor; rewrite ?E1, ?E2, ?E3; try assumption.
  intros x Hx. apply (settled_shrink b b'); [apply shrink_refl; assumption|apply M1; exact Hx].
Qed.

(* appending steps *)
Lemma njm_extend b b' ss :
  b_steps b' = b_steps b ++ ss -> Shrink b b' ->
  (forall s, In s ss -> Settled b' s) ->
  forallb step_ids_nonzero ss = true ->
  tidy_from (b_steps b) ss = true ->
  (forall st o, pm_get (b_cur b') st = Some o -> pid o <> 0) ->
  (forall a, In a (b_add b') -> pid a <> 0) ->
  NjM b -> NjM b'.
Proof.
  intros E Sh Hs Hz Ht Hc Ha [M1 M2 M3 M4 M5]. constructor; try assumption.
  - intros x Hx. rewrite E in Hx. apply in_app_or in Hx as [Hx|Hx]; [apply (settled_shrink b b' x Sh), M1; exact Hx|apply Hs; exact Hx].
  - rewrite E, forallb_app, M2, Hz. reflexivity.
  - rewrite E, tidy_from_app, M3. cbn [app andb]. exact Ht.
Qed.

Lemma njm_transfer b to : NjM b -> NjM (exec_transfer b to).
Proof.
  intros M. apply (njm_extend b _ [TransferLeader (b_cur_leader b) to]); try reflexivity; try exact M.
  - apply shrink_refl; reflexivity.
  - intros s [<-|[]]. exact I.
  - rewrite tidy_from_one. apply forallb_forall. intros x _. apply compat_transfer.
  - apply (m_cur _ M).
  - apply (m_add _ M).
Qed.

Lemma pm_del_In (m : pmap) st a : In a (pm_del m st) -> In a m.
Proof. unfold pm_del. intros H. apply filter_In in H. tauto. Qed.

Section Steps.
  Variables (T : pmap) (g : goal) (r0 : region).

  Lemma njm_add b a :
    PInv T b -> pm_get (b_add b) (pstore a) = Some a -> pm_get (b_cur b) (pstore a) = None ->
    NjM b -> NjM (exec_add b a).
  Proof.
    intros P Ha Hc M. destruct P as [P1 P2 P3 P4 P5 P6].
    set (st := pstore a) in *.
    pose proof (P6 st) as Q. unfold look, PIat in Q. rewrite Hc, Ha in Q.
    destruct Q as (Qp & Qd & Qr & Qa & Qf & Qc).
    destruct (Qa a eq_refl) as (_ & Hnz & Hro & Hp0 & Hd0 & _).
    assert (Hr0 : pm_get (b_remove b) st = None).
    { destruct (pm_get (b_remove b) st) as [x|] eqn:E; [|reflexivity]. destruct (Qr x eq_refl) as (C & _). discriminate. }
    assert (Hin : In a (b_add b)) by (apply (lk_Some _ _ _ Ha)).
    assert (Hida : pid a <> 0) by (apply (m_add _ M); exact Hin).
    assert (Hq : Quiet (exec_add b a) st).
    { unfold Quiet. cbn [exec_add upd_exec b_add b_remove b_promote b_demote]. rewrite (get_del _ _ _ P2). fold st.
      rewrite Z.eqb_refl. auto. }
    assert (Hsh : Shrink b (exec_add b a)).
    { intros s. cbn [exec_add upd_exec b_add b_remove b_promote b_demote]. rewrite (get_del _ _ _ P2). fold st.
      destruct (s =? st); auto. }
    assert (Hz : negb (pid a =? 0) = true) by (apply negb_true_iff, Z.eqb_neq; exact Hida).
    set (s1 := if b_light b then AddLightLearner st (pid a) else AddLearner st (pid a)).
    assert (Hc1 : forallb (fun x => compat x s1) (b_steps b) = true).
    { apply forallb_forall. intros x Hx. apply (compat_new b); [apply (m_settled _ M); exact Hx|].
      unfold s1. destruct (b_light b); cbn [Busy]; exists a; auto. }
    apply (njm_extend b _ (if is_learner a then [s1] else [s1; PromoteLearner st (pid a)])); try exact M; try exact Hsh.
    - cbn [exec_add upd_exec b_steps]. fold st. fold s1. reflexivity.
    - intros s Hs. destruct (is_learner a); unfold s1 in Hs; destruct (b_light b); cbn [In] in Hs;
        repeat match goal with H : _ \/ _ |- _ => destruct H as [H|H] end; try contradiction; subst s; exact Hq.
    - destruct (is_learner a); unfold s1; destruct (b_light b); cbn [forallb step_ids_nonzero]; rewrite Hz; reflexivity.
    - destruct (is_learner a) eqn:El.
      + rewrite tidy_from_one. exact Hc1.
      + cbn [tidy_from]. rewrite Hc1. cbn [andb]. rewrite andb_true_r.
        rewrite forallb_app. apply andb_true_iff. split.
        * apply forallb_forall. intros x Hx. apply (compat_new_voter b); [apply (m_settled _ M); exact Hx|exact Ha|exact El].
        * unfold s1. destruct (b_light b); cbn [forallb compat step_store]; rewrite Z.eqb_refl; reflexivity.
    - intros s o. cbn [exec_add upd_exec b_cur]. rewrite get_set. fold st. destruct (s =? st).
      + intros H; inversion H; subst o. exact Hida.
      + apply (m_cur _ M).
    - intros a' H'. cbn [exec_add upd_exec b_add] in H'. apply pm_del_In in H'. apply (m_add _ M). exact H'.
  Qed.

  Lemma njm_promote b n :
    PInv T b -> pm_get (b_promote b) (pstore n) = Some n -> NjM b -> NjM (exec_promote b n).
  Proof.
    intros P Hn M. destruct P as [P1 P2 P3 P4 P5 P6].
    set (st := pstore n) in *.
    pose proof (P6 st) as Q. unfold look, PIat in Q. rewrite Hn in Q.
    destruct Q as (Qp & Qd & Qr & Qa & Qf & Qc).
    destruct (Qp n eq_refl) as (o & Ho & Hro & En). rewrite Ho in *.
    assert (Ha0 : pm_get (b_add b) st = None).
    { destruct (pm_get (b_add b) st) as [x|] eqn:E; [|reflexivity]. destruct (Qa x eq_refl) as (_ & _ & _ & C & _). discriminate. }
    assert (Hr0 : pm_get (b_remove b) st = None).
    { destruct (pm_get (b_remove b) st) as [x|] eqn:E; [|reflexivity]. destruct (Qr x eq_refl) as (_ & C & _). discriminate. }
    assert (Hd0 : pm_get (b_demote b) st = None).
    { destruct (pm_get (b_demote b) st) as [x|] eqn:E; [|reflexivity]. destruct (Qd x eq_refl) as (o' & Ho' & Hro' & _).
      inversion Ho'; subst o'. congruence. }
    assert (Hid : pid n <> 0) by (rewrite En; cbn [pid]; apply (m_cur _ M st o Ho)).
    apply (njm_extend b _ [PromoteLearner st (pid n)]); try exact M; try reflexivity.
    - intros s. cbn [exec_promote upd_exec b_add b_remove b_promote b_demote]. rewrite (get_del _ _ _ P4). fold st. destruct (s =? st); auto.
    - intros s [<-|[]]. unfold Settled, Quiet. cbn [exec_promote upd_exec b_add b_remove b_promote b_demote].
      rewrite (get_del _ _ _ P4). fold st. rewrite Z.eqb_refl. auto.
    - cbn [forallb step_ids_nonzero]. rewrite (proj2 (Z.eqb_neq _ _) Hid). reflexivity.
    - rewrite tidy_from_one. apply forallb_forall. intros x Hx. apply (compat_new b); [apply (m_settled _ M); exact Hx|].
      cbn [Busy]. congruence.
    - intros s o'. cbn [exec_promote upd_exec b_cur]. rewrite get_set. fold st. destruct (s =? st).
      + intros H; inversion H; subst o'. exact Hid.
      + apply (m_cur _ M).
    - apply (m_add _ M).
  Qed.

  Lemma njm_demote b n :
    PInv T b -> pm_get (b_demote b) (pstore n) = Some n -> NjM b -> NjM (exec_demote b n).
  Proof.
    intros P Hn M. destruct P as [P1 P2 P3 P4 P5 P6].
    set (st := pstore n) in *.
    pose proof (P6 st) as Q. unfold look, PIat in Q. rewrite Hn in Q.
    destruct Q as (Qp & Qd & Qr & Qa & Qf & Qc).
    destruct (Qd n eq_refl) as (o & Ho & Hro & En). rewrite Ho in *.
    assert (Ha0 : pm_get (b_add b) st = None).
    { destruct (pm_get (b_add b) st) as [x|] eqn:E; [|reflexivity]. destruct (Qa x eq_refl) as (_ & _ & _ & _ & C & _). discriminate. }
    assert (Hr0 : pm_get (b_remove b) st = None).
    { destruct (pm_get (b_remove b) st) as [x|] eqn:E; [|reflexivity]. destruct (Qr x eq_refl) as (_ & _ & C). discriminate. }
    assert (Hp0 : pm_get (b_promote b) st = None).
    { destruct (pm_get (b_promote b) st) as [x|] eqn:E; [|reflexivity]. destruct (Qp x eq_refl) as (o' & Ho' & Hro' & _).
      inversion Ho'; subst o'. congruence. }
    assert (Hid : pid n <> 0) by (rewrite En; cbn [pid]; apply (m_cur _ M st o Ho)).
    apply (njm_extend b _ [DemoteFollower st (pid n)]); try exact M; try reflexivity.
    - intros s. cbn [exec_demote upd_exec b_add b_remove b_promote b_demote]. rewrite (get_del _ _ _ P5). fold st. destruct (s =? st); auto.
    - intros s [<-|[]]. unfold Settled, Quiet. cbn [exec_demote upd_exec b_add b_remove b_promote b_demote].
      rewrite (get_del _ _ _ P5). fold st. rewrite Z.eqb_refl. auto.
    - cbn [forallb step_ids_nonzero]. rewrite (proj2 (Z.eqb_neq _ _) Hid). reflexivity.
    - rewrite tidy_from_one. apply forallb_forall. intros x Hx. apply (compat_new b); [apply (m_settled _ M); exact Hx|].
      cbn [Busy]. congruence.
    - intros s o'. cbn [exec_demote upd_exec b_cur]. rewrite get_set. fold st. destruct (s =? st).
      + intros H; inversion H; subst o'. exact Hid.
      + apply (m_cur _ M).
    - apply (m_add _ M).
  Qed.

  Lemma njm_remove b r x :
    Sim g r0 b r -> PInv T b -> pm_get (b_remove b) (pstore x) = Some x -> NjM b -> NjM (exec_remove b x).
  Proof.
    intros S P Hx M. destruct S as [S1 S2 S3 S4 S5 S6]. destruct P as [P1 P2 P3 P4 P5 P6].
    set (st := pstore x) in *.
    pose proof (P6 st) as Q. unfold look, PIat in Q. rewrite Hx in Q.
    destruct Q as (Qp & Qd & Qr & Qa & Qf & Qc).
    destruct (Qr x eq_refl) as (Hc & Hp0 & Hd0). rewrite Hc, Hp0, Hd0 in *.
    assert (Hid : pid x <> 0) by (apply (m_cur _ M st x Hc)).
    apply (njm_extend b _ [RemovePeer st (pid x)]); try exact M; try reflexivity.
    - intros s. cbn [exec_remove upd_exec b_add b_remove b_promote b_demote]. rewrite (get_del _ _ _ P3). fold st. destruct (s =? st); auto.
    - intros s [<-|[]]. cbn [Settled exec_remove upd_exec b_add b_remove b_promote b_demote].
      rewrite (get_del _ _ _ P3). fold st. rewrite Z.eqb_refl.
      split; [exact Hid|split; [reflexivity|split; [exact Hp0|split; [exact Hd0|]]]].
      intros a Ha. destruct (Qa a Ha) as (_ & _ & _ & _ & _ & [C|[_ Hl]]); [discriminate|].
      split; [unfold is_learner; rewrite Hl; reflexivity|].
      intros E. assert (Hinx : In (pid x) (map pid (peers r))).
      { apply in_map. apply (lk_Some (peers r) st x). rewrite S4. exact Hc. }
      assert (Hina : In (pid a) (map pid (b_add b))) by (apply in_map; apply (lk_Some _ _ _ Ha)).
      rewrite E in Hina. clear - S6 Hinx Hina.
      induction (map pid (peers r)) as [|y l IH]; [contradiction|]. cbn [app] in S6. inversion S6 as [|y0 l0 Hn Hd]; subst y0 l0.
      destruct Hinx as [->|Hinx]; [apply Hn; apply in_or_app; right; exact Hina|apply IH; assumption].
    - rewrite tidy_from_one. apply forallb_forall. intros y Hy. apply (compat_new b); [apply (m_settled _ M); exact Hy|].
      cbn [Busy]. congruence.
    - intros s o'. cbn [exec_remove upd_exec b_cur]. rewrite (get_del _ _ _ P1). fold st. destruct (s =? st); [discriminate|apply (m_cur _ M)].
    - apply (m_add _ M).
  Qed.
End Steps.

(* ---------- the six stages of one loop round ---------- *)
Section Round.
  Variables (T : pmap) (g : goal) (r0 : region).

  Lemma njm_kinds b kl kr : NjM b -> NjM (set_kinds b kl kr).
  Proof. apply NjM_same; reflexivity. Qed.

  Lemma njm_stage_transfer b l : NjM b -> NjM (maybe_transfer b l).
  Proof.
    intros M. unfold maybe_transfer. destruct (negb (l =? 0) && negb (l =? b_cur_leader b)); [|exact M].
    apply njm_kinds, njm_transfer. exact M.
  Qed.

  Lemma apply_plan_okm b r p :
    Sim g r0 b r -> PInv T b -> PlanOK g b r p -> NjM b -> NjM (apply_plan b p).
  Proof.
    intros S P [Ka Kadd Kpro Kdem Krem Kl Kv] M. rewrite apply_plan_eq.
    destruct (stage_transfer T g r0 b r (lba p) S P Ka) as (r1 & S1 & P1 & V1 & L1 & Ec1 & Ea1 & Er1 & Ep1 & Ed1).
    pose proof (njm_stage_transfer b (lba p) M) as M1.
    set (b1 := maybe_transfer b (lba p)) in *.
    assert (H2 : forall a, p_add p = Some a -> pm_get (b_add b1) (pstore a) = Some a /\ pm_get (b_cur b1) (pstore a) = None).
    { intros a Ha. rewrite Ea1, Ec1. apply Kadd. exact Ha. }
    destruct (stage_add T g r0 b1 r1 (p_add p) S1 P1 H2) as (r2 & S2 & P2 & V2 & L2 & Ec2 & Er2 & Ep2 & Ed2 & El2).
    assert (M2 : NjM (do_add b1 (p_add p))).
    { destruct (p_add p) as [a|]; cbn [do_add]; [|exact M1]. destruct (H2 a eq_refl) as [Ha Hc].
      apply njm_kinds. apply (njm_add T b1 a P1 Ha Hc M1). }
    set (b2 := do_add b1 (p_add p)) in *.
    assert (H3 : forall x, p_promote p = Some x -> pm_get (b_promote b2) (pstore x) = Some x).
    { intros x Hx. rewrite Ep2, Ep1. apply Kpro. exact Hx. }
    destruct (stage_promote T g r0 b2 r2 (p_promote p) S2 P2 H3) as (r3 & S3 & P3 & V3 & L3 & Ec3 & Er3 & Ed3 & El3).
    assert (M3 : NjM (do_promote b2 (p_promote p))).
    { destruct (p_promote p) as [x|]; cbn [do_promote]; [|exact M2]. apply (njm_promote T b2 x P2 (H3 x eq_refl) M2). }
    set (b3 := do_promote b2 (p_promote p)) in *.
    assert (H4 : lbr p = 0 \/ exists q, pm_get (b_cur b3) (lbr p) = Some q /\ prole q = Voter).
    { destruct Kl as [(Z0 & _)|(Nz & _ & _ & Hc)]; [left; exact Z0|right].
      rewrite Ec3, Ec2, Ec1.
      assert (Hprole : forall x, p_promote p = Some x -> prole x = Voter /\ exists o, pm_get (b_cur b) (pstore x) = Some o).
      { intros x Hx. pose proof (pi_at _ _ P (pstore x)) as Q. unfold look, PIat in Q. rewrite (Kpro x Hx) in Q.
        destruct Q as (Qp & _). destruct (Qp x eq_refl) as (o & Ho & _ & En). split; [rewrite En; reflexivity|eauto]. }
      destruct Hc as [(q & Hq & Hro)|[(x & Hx & Hs)|(a & Ha & Hs & Hro)]].
      - destruct (p_promote p) as [x|] eqn:Epr.
        + rewrite get_set. destruct (lbr p =? pstore x) eqn:E1.
          * exists x. split; [reflexivity|]. apply (Hprole x eq_refl).
          * destruct (p_add p) as [a|] eqn:Ead.
            -- rewrite get_set. destruct (lbr p =? pstore a) eqn:E2.
               ++ apply Z.eqb_eq in E2. destruct (Kadd a eq_refl) as [_ C]. rewrite <- E2, Hq in C. discriminate.
               ++ eauto.
            -- eauto.
        + destruct (p_add p) as [a|] eqn:Ead.
          * rewrite get_set. destruct (lbr p =? pstore a) eqn:E2.
            -- apply Z.eqb_eq in E2. destruct (Kadd a eq_refl) as [_ C]. rewrite <- E2, Hq in C. discriminate.
            -- eauto.
          * eauto.
      - rewrite Hx. rewrite get_set, <- Hs, Z.eqb_refl. exists x. split; [reflexivity|]. apply (Hprole x Hx).
      - rewrite Ha. destruct (p_promote p) as [x|] eqn:Epr.
        + rewrite get_set. destruct (lbr p =? pstore x) eqn:E1.
          * exists x. split; [reflexivity|]. apply (Hprole x eq_refl).
          * rewrite get_set, <- Hs, Z.eqb_refl. eauto.
        + rewrite get_set, <- Hs, Z.eqb_refl. eauto. }
    destruct (stage_transfer T g r0 b3 r3 (lbr p) S3 P3 H4) as (r4 & S4 & P4 & V4 & L4 & Ec4 & Ea4 & Er4 & Ep4 & Ed4).
    pose proof (njm_stage_transfer b3 (lbr p) M3) as M4.
    set (b4 := maybe_transfer b3 (lbr p)) in *.
    assert (Hv4 : voters_new (peers r4) = voters_new (peers r) + up p) by (unfold up; lia).
    assert (Hlead : forall x, (p_demote p = Some x \/ p_remove p = Some x) -> leader r4 <> pstore x).
    { intros x Hx. destruct Kl as [(Z0 & D0 & R0)|(Nz & N1 & N2 & _)].
      - destruct Hx as [Hx|Hx]; congruence.
      - rewrite L4. destruct (lbr p =? 0) eqn:E; [apply Z.eqb_eq in E; contradiction|].
        destruct Hx as [Hx|Hx]; [rewrite Hx in N1|rewrite Hx in N2]; cbn [ostore] in *; assumption. }
    assert (H5 : forall x, p_demote p = Some x -> pm_get (b_demote b4) (pstore x) = Some x /\ leader r4 <> pstore x).
    { intros x Hx. split; [rewrite Ed4, Ed3, Ed2, Ed1; apply Kdem; exact Hx|apply Hlead; left; exact Hx]. }
    assert (Hv5 : g_min_voters g + b2z (is_some (p_demote p)) <= voters_new (peers r4)).
    { rewrite Hv4. unfold down in Kv. pose proof (b2z_nonneg (match p_remove p with Some x => new_voter x | None => false end)). lia. }
    destruct (stage_demote T g r0 b4 r4 (p_demote p) S4 P4 H5 Hv5) as (r5 & S5 & P5 & V5 & L5 & Er5).
    assert (M5 : NjM (do_demote b4 (p_demote p))).
    { destruct (p_demote p) as [x|]; cbn [do_demote]; [|exact M4]. apply (njm_demote T b4 x P4 (proj1 (H5 x eq_refl)) M4). }
    set (b5 := do_demote b4 (p_demote p)) in *.
    assert (H6 : forall x, p_remove p = Some x -> pm_get (b_remove b5) (pstore x) = Some x).
    { intros x Hx. rewrite Er5, Er4, Er3, Er2, Er1; apply Krem; exact Hx. }
    destruct (p_remove p) as [x|]; cbn [do_remove]; [|exact M5].
    apply njm_kinds. apply (njm_remove T g r0 b5 r5 x S5 P5 (H6 x eq_refl) M5).
  Qed.
End Round.

(* ---------- the loop ---------- *)
Section Loop.
  Variables (T : pmap) (g : goal) (r0 : region).
  Hypothesis HTs : PSorted T.
  Hypothesis HTnj : NJ T.
  Hypothesis HTv : g_min_voters g <= voters_new T.

  Lemma loop_okm : forall fuel b r bF,
    Sim g r0 b r -> PInv T b -> NjM b -> nonjoint_loop fuel b = BOk bF -> NjM bF.
  Proof.
    induction fuel as [|f IH]; intros b r bF S P M H; cbn [nonjoint_loop] in H.
    - destruct (Nat.eqb (pending b) 0) eqn:E; [|discriminate]. inversion H; subst bF. exact M.
    - destruct (Nat.eqb (pending b) 0) eqn:E.
      + inversion H; subst bF. exact M.
      + destruct (plan_is_empty (peer_plan b)) eqn:Ee; [discriminate|].
        pose proof (peer_plan_spec b Ee) as K.
        pose proof (plan_kind_ok T g r0 HTs HTnj HTv b r (peer_plan b) S P K) as OK.
        destruct (apply_plan_ok T g r0 b r (peer_plan b) S P OK) as (r' & S' & P').
        pose proof (apply_plan_okm T g r0 b r (peer_plan b) S P OK M) as M'.
        exact (IH _ _ _ S' P' M' H).
  Qed.
End Loop.

(* the non-joint path emits neither ChangePeerV2 step *)
Lemma settled_bracketed b : forall l, (forall x, In x l -> Settled b x) -> bracketed None l = true.
Proof.
  induction l as [|s l IH]; intros H; [reflexivity|]. cbn [bracketed].
  assert (Hs : Settled b s) by (apply H; left; reflexivity).
  destruct s; cbn [Settled] in Hs; try contradiction; cbn [br_ok br_next andb]; apply IH; intros x Hx; apply H; right; exact Hx.
Qed.

(* ---------- the theorem ---------- *)
Theorem builder_nonjoint_monotone_pf i b ss kl kr :
  nodup_stores (peers (i_region i)) = true ->
  is_in_joint (i_region i) = false ->
  (exists lp, get_store_peer (i_region i) (leader (i_region i)) = Some lp /\ prole lp = Voter) ->
  region_ids_nonzero (i_region i) = true -> (forall a, In a (b_add b) -> pid a <> 0) ->
  prepared i = Some b -> b_use_joint b = false ->
  NoDup (map pid (peers (i_region i)) ++ map pid (b_add b)) ->
  build i = Built ss kl kr ->
  monotone_from [] (i_region i) ss = true.
Proof.
  intros Hnd Hnj Hlead Hidz Haz Hprep Huj Hids Hbuild.
  pose proof (plan_ok_check _ _ _ (builder_nonjoint_plan_ok_general_pf i b ss kl kr Hnd Hnj Hlead Hprep Huj Hids Hbuild)) as Hpc.
  assert (Hnd' := Hnd). assert (Hnj' := Hnj).
  destruct Hlead as (lp & Hlp & Hlrole).
  destruct (i_region i) as [ps0 l0 cv rg] eqn:Er. cbn [peers leader] in *.
  apply nodup_stores_ND in Hnd. unfold is_in_joint in Hnj. cbn [peers] in Hnj. apply NJ_of_not_joint in Hnj.
  unfold get_store_peer in Hlp; cbn [peers] in Hlp. fold (lk ps0 l0) in Hlp.
  unfold prepared in Hprep. unfold build in Hbuild.
  destruct (new_builder i) as [b0|] eqn:Enb; [|discriminate].
  destruct (api_ops b0 (i_ops i)) as [b1|] eqn:Eapi; [|discriminate].
  rewrite Hprep in Hbuild. rewrite Huj in Hbuild.
  assert (I0 : ApiInv ps0 l0 (i_cluster i) b0).
  { pose proof (new_builder_inv i b0 Enb) as X. rewrite Er in X. cbn [peers leader] in X. apply X; assumption. }
  pose proof (api_ops_inv _ _ _ _ _ _ I0 Eapi) as [A1 A2 A3 A4 A5 A6 A7].
  assert (Hnz0 : forall p, In p ps0 -> pstore p <> 0).
  { intros p Hp. unfold new_builder in Enb. rewrite Er in Enb. cbn [peers] in Enb.
    destruct (existsb (fun p => pstore p =? 0) ps0) eqn:E; [discriminate|].
    destruct (pstore p =? 0) eqn:E0; [|apply Z.eqb_neq; exact E0].
    assert (X : existsb (fun p => pstore p =? 0) ps0 = true) by (apply existsb_exists; exists p; auto). congruence. }
  assert (N0 : TNz b0).
  { intros p Hp. apply Hnz0. unfold new_builder in Enb. rewrite Er in Enb. cbn [peers leader] in Enb.
    destruct (existsb (fun p => pstore p =? 0) ps0); [discriminate|].
    destruct (negb (is_some (pm_get (pm_of_list ps0) l0))); [discriminate|].
    destruct (negb (i_skip_joint_check i) && is_in_joint (Region ps0 l0 cv rg)); [discriminate|].
    inversion Enb; subst b0. cbn in Hp. apply pm_of_list_In. exact Hp. }
  pose proof (api_ops_nz _ _ _ N0 Eapi) as N1.
  pose proof (prepare_build_spec _ _ _ Hprep) as PF.
  destruct PF as [F1 F2 F3 F4 F5 F6 F7 F8 F9 F10 F11 F12 F13 F14 F15 F16 F17 F18 F19].
  set (T := b_target b1) in *. set (alloc := i_alloc i) in *.
  set (g := goal_of b) in *. set (r0 := Region ps0 l0 cv rg) in *.
  assert (HTv : g_min_voters g <= voters_new T).
  { unfold g, goal_of; cbn [g_min_voters]. rewrite F4. fold T. lia. }
  assert (S0 : Sim g r0 b r0).
  { constructor.
    - intros rest. rewrite F11. reflexivity.
    - constructor.
      + exact Hnd.
      + exists lp. split; [exact Hlp|]. unfold is_learner. rewrite Hlrole. reflexivity.
      + unfold g, goal_of; cbn [g_min_voters peers r0]. rewrite F2, A1. unfold voters_old at 1, voters_new at 1.
        rewrite !(countb_pm_of_list _ _ Hnd). fold (voters_old ps0) (voters_new ps0). lia.
      + unfold g, goal_of; cbn [g_min_voters peers r0]. rewrite F2, A1. unfold voters_old at 1, voters_new at 1.
        rewrite !(countb_pm_of_list _ _ Hnd). fold (voters_old ps0) (voters_new ps0). lia.
    - exact Hnj.
    - intros st. cbn [peers r0]. rewrite F9, A1. symmetry. apply pm_of_list_get. exact Hnd.
    - cbn [leader r0]. rewrite F10, A2. reflexivity.
    - exact Hids. }
  assert (P0 : PInv T b).
  { constructor.
    - rewrite F9, A1. apply pm_of_list_sorted.
    - rewrite F16. apply cfold_sorted. constructor.
    - rewrite F13. apply cfold_sorted. constructor.
    - rewrite F14. apply cfold_sorted. constructor.
    - rewrite F15. apply cfold_sorted. constructor.
    - intros st. unfold look. rewrite F9, F16, F13, F14, F15, A1. fold T alloc.
      rewrite (pm_of_list_get _ _ Hnd).
      apply initial_at; auto. }
  assert (M0 : NjM b).
  { constructor.
    - rewrite F11. intros x [].
    - rewrite F11. reflexivity.
    - rewrite F11. reflexivity.
    - intros st o Ho. rewrite F9, A1, (pm_of_list_get _ _ Hnd) in Ho.
      unfold region_ids_nonzero in Hidz. cbn [peers] in Hidz. rewrite forallb_forall in Hidz.
      specialize (Hidz o (proj1 (lk_Some _ _ _ Ho))). apply negb_true_iff, Z.eqb_neq in Hidz. exact Hidz.
    - exact Haz. }
  unfold build_nonjoint in Hbuild.
  destruct (nonjoint_loop (pending b) b) as [bF| |] eqn:Eloop; [|discriminate|discriminate].
  pose proof (loop_okm T g r0 A6 A7 HTv _ _ _ _ S0 P0 M0 Eloop) as MF.
  cbv zeta in Hbuild.
  match type of Hbuild with (match (match b_steps ?B3 with _ => _ end) with _ => _ end) = _ =>
    set (b3 := B3) in *;
    assert (Hss : ss = b_steps b3) by (destruct (b_steps b3) eqn:Es; [discriminate|inversion Hbuild; congruence]) end.
  assert (M2 : NjM (set_target_leader_if_not_exist bF)).
  { unfold set_target_leader_if_not_exist. destruct (negb (b_tleader bF =? 0)); [exact MF|].
    eapply NjM_same; [..|exact MF]; reflexivity. }
  assert (M3 : NjM b3).
  { unfold b3. match goal with |- NjM (if ?c then _ else _) => destruct c end; [|exact M2].
    apply njm_kinds, njm_transfer. exact M2. }
  rewrite Hss in Hpc |- *.
  apply (tidy_monotone g _ [] r0 None); auto.
  - apply (settled_bracketed b3). apply (m_settled _ M3).
  - apply (m_ids _ M3).
  - apply (m_tidy _ M3).
Qed.
