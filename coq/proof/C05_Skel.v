(* Structural obligations tying model/C05_TsoGlobal.v to the code as it is now (gen/Gen_C05.v is regenerated on every run). *)
From Coq Require Import ZArith.
From PDV Require Import lib.Skel gen.Gen_C05.
(* WriteTSO / SetTSO go through timestampOracle.resetUserTimestamp: its error branches (the max-gap-reset-ts refusal a Global
   write-back must not swallow) are pinned by the C01 skeleton obligations *)
From PDV Require proof.C01_Skel.

(* Global GenerateTSO: Check; without dc-locations plain getTS WITH the manager's suffix bits (they never shrink: the width the
   allocator's earlier answers were differentiated with is kept when the last dc-location disappears); otherwise under syncMu, every attempt with a fresh skipCheck = false: estimate, SyncMaxTS(check), fall back to a larger collected maximum (+count, overflow bump) and SyncMaxTS(skipCheck), persist when memory is behind, Check, differentiate *)
Lemma skel_gta_GenerateTSO_ok : skel_gta_GenerateTSO =
  [Call "Check"; IfE "!gta.leadership.Check()" [Ret] []; Call "GetClusterDCLocations"; Assign "dcLocationMap" ":= gta.allocatorManager.GetClusterDCLocations()"; IfE "len(dcLocationMap) == 0" [Call "getTS(gta.leadership, count, gta.allocatorManager.GetSuffixBits())"; Ret] []; Lock "gta.syncMu"; DeferUnlock "gta.syncMu"; Call "GetClusterDCLocations"; Assign "dcLocationMap" "= gta.allocatorManager.GetClusterDCLocations()"; ForE [Assign "skipCheck" "var zero"; Assign "estimatedMaxTSO" "var zero"; Call "estimateMaxTS"; Assign "estimatedMaxTSO" "= gta.estimateMaxTS(count, suffixBits)"; IfE "err != nil" [Cont] []; IfE "shouldRetry" [Cont] []; Call "SyncMaxTS"; IfE "err != nil" [Cont] []; Call "CompareTimestamp"; IfE "!skipCheck && tsoutil.CompareTimestamp(&globalTSOResp, estimatedMaxTSO) > 0" [Assign "estimatedMaxTSO.Logical" "+= int64(count)"; Call "precheckLogical"; IfE "!gta.precheckLogical(estimatedMaxTSO, suffixBits)" [Assign "estimatedMaxTSO.Physical" "+= UpdateTimestampGuard.Milliseconds()"; Assign "estimatedMaxTSO.Logical" "= int64(count)"] []; Assign "skipCheck" "= true"] []; Call "CompareTimestamp"; Call "getCurrentTSO"; IfE "err != nil" [Cont] []; Call "CompareTimestamp"; IfE "tsoutil.CompareTimestamp(currentGlobalTSO, &globalTSOResp) < 0" [Call "resetUserTimestamp"; IfE "err != nil" [Cont] []] []; Call "Check"; IfE "!gta.leadership.Check()" [Ret] []; Call "differentiateLogical"; Assign "globalTSOResp.Logical" "= gta.timestampOracle.differentiateLogical(globalTSOResp.GetLogical(), suffixBits)"; Ret]; Ret].
Proof. reflexivity. Qed.

Lemma skel_gta_estimateMaxTS_ok : skel_gta_estimateMaxTS =
  [Call "generateTSO"; IfE "physical == 0" [Ret] []; Assign "estimatedMaxTSO" ":= &pdpb.Timestamp{ Physical: physical + time.Since(lastUpdateTime).Milliseconds() + 2*gta.getSyncRTT(), Logical: logical, }"; Call "precheckLogical"; IfE "!gta.precheckLogical(estimatedMaxTSO, suffixBits)" [Ret] []; Ret].
Proof. reflexivity. Qed.

(* SyncMaxTS: a loop of syncMaxRetryCount rounds WITHOUT an early exit after a successful round (model: sync_passes rounds always run) *)
Lemma skel_gta_SyncMaxTS_ok : skel_gta_SyncMaxTS =
  [ForE [ForE [IfE "err != nil" [Ret] []; IfE "allocatorLeader.GetMemberId() == 0" [Ret] []]; ForE [IfE "len(allocator.GetClientUrls()) < 1" [Cont] []; DeferE [Ret]]; ForE [IfE "err != nil" [Ret] []; GoE [Call "SyncMaxTS"; IfE "syncMaxTSResp.err != nil" [Ret] []]]; Call "Wait"; ForE [IfE "len(errList) != 0" [Brk] []; IfE "resp.rpcRes == nil" [Ret] []; IfE "skipCheck" [IfE "resp.rpcRes.GetMaxLocalTs() != nil" [Ret] []] [Call "CompareTimestamp"]]; IfE "len(errList) != 0" [Ret] []; Call "checkSyncedDCs"; IfE "!ok" [IfE "i < syncMaxRetryCount-1" [Call "ClusterDCLocationChecker"; Cont] []; Ret] []]; Ret].
Proof. reflexivity. Qed.

Lemma skel_gta_precheckLogical_ok : skel_gta_precheckLogical =
  [DeferE [IfE "globalTSOOverflowFlag" [Assign "maxTSO.Logical" "= maxLogical"] []]; IfE "maxTSO.GetPhysical() == 0" [Ret] []; Call "differentiateLogical"; IfE "differentiatedLogical >= maxLogical" [Ret] []; Ret].
Proof. reflexivity. Qed.

(* SyncMaxTS handler: without skipCheck read every held allocator, answer a larger-or-equal maximum (+1 logical on equality), otherwise (and with skipCheck) WriteTSO to each *)
Lemma skel_handler_SyncMaxTS_ok : skel_handler_SyncMaxTS =
  [IfE "err != nil" [Ret] []; IfE "tsoAllocatorManager.GetClusterDCLocationsNumber() == 0" [Ret] []; Call "GetHoldingLocalAllocatorLeaders"; IfE "err != nil" [Ret] []; Call "GetSkipCheck"; IfE "!request.GetSkipCheck()" [ForE [Call "IsAllocatorLeader"; IfE "!allocator.IsAllocatorLeader()" [Cont] []; Call "GetCurrentTSO"; IfE "err != nil" [Ret] []; Call "CompareTimestamp"; IfE "tsoutil.CompareTimestamp(currentLocalTSO, maxLocalTS) > 0" [Assign "maxLocalTS" "= currentLocalTSO"] []]; DeferE [IfE "!mockLocalAllocatorLeaderChangeFlag" [Assign "maxLocalTS" "= nil"] []]; IfE "maxLocalTS == nil" [Ret] []; IfE "request.GetMaxTs() == nil" [Ret] []; Call "CompareTimestamp"; IfE "cmpResult >= 0" [IfE "cmpResult == 0" [Assign "maxLocalTS.Logical" "+= 1"] []; Ret] []] []; ForE [Call "IsAllocatorLeader"; IfE "!allocator.IsAllocatorLeader()" [Cont] []; Call "WriteTSO"; IfE "err != nil" [Ret] []]; Ret].
Proof. reflexivity. Qed.

Lemma skel_lta_WriteTSO_ok : skel_lta_WriteTSO =
  [Call "GetCurrentTSO"; IfE "err != nil" [Assign "return" "err"; Ret] []; Call "CompareTimestamp"; IfE "tsoutil.CompareTimestamp(currentTSO, maxTS) >= 0" [Assign "return" "nil"; Ret] []; Call "resetUserTimestamp"; Assign "return" "lta.timestampOracle.resetUserTimestamp(lta.leadership, tsoutil.GenerateTS(maxTS), true)"; Ret].
Proof. reflexivity. Qed.

Lemma skel_lta_GenerateTSO_ok : skel_lta_GenerateTSO =
  [Call "Check"; IfE "!lta.leadership.Check()" [Assign "return" "pdpb.Timestamp{}, errs.ErrGenerateTimestamp.FastGenByArgs(fmt.Sprintf(""requested pd %s of %s allocator"", errs.NotLeaderErr, lta.timestampOracle.dcLocation))"; Ret] []; Call "GetSuffixBits"; Call "getTS"; Assign "return" "lta.timestampOracle.getTS(lta.leadership, count, lta.allocatorManager.GetSuffixBits())"; Ret].
Proof. reflexivity. Qed.

Lemma skel_getOrCreateLocalTSOSuffix_ok : skel_getOrCreateLocalTSOSuffix =
  [Call "getDCLocationSuffixMapFromEtcd"; IfE "err != nil" [Ret] []; ForE [IfE "curDCLocation == dcLocation" [Ret] []; IfE "suffix > maxSuffix" [Assign "maxSuffix" "= suffix"] []]; Assign "maxSuffix" "++"; Call "Commit"; IfE "err != nil" [Ret] []; IfE "!txnResp.Succeeded" [Ret] []; Ret].
Proof. reflexivity. Qed.

Lemma consts_ok : (maxLogical = 2 ^ 18 /\ syncMaxRetryCount = 2 /\ MaxSuffixBits = 4)%Z.
Proof. repeat split; reflexivity. Qed.

Lemma differentiate_src_ok : src_differentiateLogical = "{ return rawLogical<<suffixBits + int64(t.suffix) }".
Proof. reflexivity. Qed.

Lemma cal_suffix_bits_src_ok : src_CalSuffixBits = "{ return int(math.Ceil(math.Log2(float64(maxSuffix + 1)))) }".
Proof. reflexivity. Qed.

(* the suffix of a new dc-location is created by a create-if-absent txn *)
Lemma suffix_cmp_ok : cmps_getOrCreateLocalTSOSuffix = ["clientv3.CreateRevision(localTSOSuffixKey) = 0"].
Proof. reflexivity. Qed.

(* the client side of a batch (C05_client_batch_values is stated for exactly this formula) *)
Lemma client_formula_ok :
  src_addLogical = "{ return logical + count<<suffixBits }" /\
  client_first_logical = ["firstLogical := addLogical(logical, -count+1, suffixBits)"].
Proof. split; reflexivity. Qed.

(* ---- joins, moves, suffix width (model/C05_Join.v): the functions the labels JCheckLeader / JCheckFollower / JStart stand for ---- *)
Lemma skel_am_GetMaxLocalTSO_ok : skel_am_GetMaxLocalTSO =
  [Call "GetClusterDCLocations"; ForE [Call "getAllocatorGroup"; IfE "!ok" [Call "delete"; Cont] []; Call "GetAllocatorLeader"; IfE "!isLocal || localAllocator.GetAllocatorLeader().GetMemberId() == 0" [Call "delete"] []]; Assign "maxTSO" ":= &pdpb.Timestamp{}"; Call "GetAllocator"; IfE "err != nil" [Ret] []; Lock "?.syncMu"; DeferUnlock "?.syncMu"; IfE "len(clusterDCLocations) > 0" [Call "SyncMaxTS"; IfE "err != nil" [Ret] []] []; Call "getCurrentTSO"; Call "CompareTimestamp"; IfE "err == nil && tsoutil.CompareTimestamp(currentGlobalTSO, maxTSO) > 0" [Assign "maxTSO" "= currentGlobalTSO"] []; Ret].
Proof. reflexivity. Qed.
Lemma skel_am_campaignAllocatorLeader_ok : skel_am_campaignAllocatorLeader =
  [Call "CampaignAllocatorLeader"; IfE "err != nil" [Ret] []; Call "Initialize"; IfE "err != nil" [Ret] []; IfE "dcLocationInfo.GetMaxTs().GetPhysical() != 0" [Call "WriteTSO"; IfE "err != nil" [Ret] []] []; Call "compareAndSetMaxSuffix"; Call "EnableAllocatorLeader"; ForE [SwitchE [[IfE "!allocator.IsAllocatorLeader()" [Ret] []]; [Ret]]]].
Proof. reflexivity. Qed.
(* the periodic checker (only once a PD leader is known) and the refresh a new PD leader runs before its Global allocator
   serves (no such proviso) share one body: read the dc-locations from etcd; the PD leader assigns missing suffixes, every
   other member adopts the largest suffix in etcd; a read error is reported to the caller *)
Lemma skel_am_ClusterDCLocationChecker_ok : skel_am_ClusterDCLocationChecker =
  [IfE "am.member.GetLeader() == nil" [Ret] []; Call "checkClusterDCLocations"].
Proof. reflexivity. Qed.
Lemma skel_am_RefreshClusterDCLocations_ok : skel_am_RefreshClusterDCLocations = [Call "checkClusterDCLocations"; Ret].
Proof. reflexivity. Qed.
Lemma skel_am_checkClusterDCLocations_ok : skel_am_checkClusterDCLocations =
  [Call "GetClusterDCLocationsFromEtcd"; IfE "err != nil" [Ret] []; Lock "am.mu"; ForE [IfE "!ok" [Call "delete"] []]; Call "IsLeader"; IfE "am.member.IsLeader()" [ForE [IfE "info.Suffix > 0" [Cont] []; Call "getOrCreateLocalTSOSuffix"; IfE "err != nil" [Cont] []; IfE "suffix > am.mu.maxSuffix" [Assign "am.mu.maxSuffix" "= suffix"] []; Assign "am.mu.clusterDCLocations[dcLocation].Suffix" "= suffix"]] [Call "getMaxLocalTSOSuffix"; Assign "maxSuffix" ":= am.getMaxLocalTSOSuffix()"; IfE "err != nil" [ForE [Call "delete"]; Unlock "am.mu"; Ret] [IfE "maxSuffix > am.mu.maxSuffix" [Assign "am.mu.maxSuffix" "= maxSuffix"] []]]; Unlock "am.mu"; Ret].
Proof. reflexivity. Qed.
Lemma skel_am_compareAndSetMaxSuffix_ok : skel_am_compareAndSetMaxSuffix =
  [Lock "am.mu"; DeferUnlock "am.mu"; IfE "suffix > am.mu.maxSuffix" [Assign "am.mu.maxSuffix" "= suffix"] []].
Proof. reflexivity. Qed.
Lemma skel_am_GetSuffixBits_ok : skel_am_GetSuffixBits =
  [RLock "am.mu"; DeferRUnlock "am.mu"; Ret].
Proof. reflexivity. Qed.
Lemma skel_handler_GetDCLocationInfo_ok : skel_handler_GetDCLocationInfo =
  [IfE "err != nil" [Ret] []; Call "IsLeader"; IfE "!s.member.IsLeader()" [Ret] []; Call "GetDCLocationInfo"; IfE "!ok" [Call "ClusterDCLocationChecker"; Ret] []; Call "GetMaxLocalTSO"; Assign "resp.MaxTs" "= am.GetMaxLocalTSO(ctx)"; IfE "err != nil" [Ret] []; Ret].
Proof. reflexivity. Qed.

(* a dc-location that has lost its members: the patrol drops the allocator group in memory (allocator and leadership reset,
   loop cancelled, map entry deleted) and removes nothing from etcd - neither the suffix of the dc-location (the model's
   suffix store only grows: C05_suffix_stable_injective) nor its stored window (the returning allocator starts above it) *)
Lemma skel_am_allocatorPatroller_ok : skel_am_allocatorPatroller =
  [ForE [DeferE [Ret]; IfE "slice.NoneOf(allocatorGroups, func(i int) bool { return allocatorGroups[i].dcLocation == dcLocation })" [Call "SetUpAllocator"] []]; ForE [IfE "!exist" [Call "deleteAllocatorGroup"] []]].
Proof. reflexivity. Qed.

Lemma skel_am_deleteAllocatorGroup_ok : skel_am_deleteAllocatorGroup =
  [Lock "am.mu"; DeferUnlock "am.mu"; IfE "exist" [Call "Reset"; Call "Reset"; Call "cancel"; Call "delete"] []].
Proof. reflexivity. Qed.

(* every step of the protocol compares (physical, logical) lexicographically on the values as they are; the model's ts order
   (ts_max, tle) is that order - in particular no composed 64-bit value is compared: the logical part of a memory may exceed
   18 bits between an overflowing request and the next tick *)
Lemma src_CompareTimestamp_ok : src_CompareTimestamp =
  "{ if tsoOne.GetPhysical() > tsoTwo.GetPhysical() || (tsoOne.GetPhysical() == tsoTwo.GetPhysical() && tsoOne.GetLogical() > tsoTwo.GetLogical()) { return 1 } if tsoOne.GetPhysical() == tsoTwo.GetPhysical() && tsoOne.GetLogical() == tsoTwo.GetLogical() { return 0 } return -1 }".
Proof. reflexivity. Qed.

(* the election loop of a Local TSO Allocator: a leader record that exists is watched until it goes away - nobody deletes or
   campaigns over the live record of another member, whatever the next-leader key says (it only decides who may campaign
   once there is no leader); a dc-location the PD leader knows without a suffix postpones the campaign *)
Lemma skel_am_allocatorLeaderLoop_ok : skel_am_allocatorLeaderLoop =
  [ForE [SwitchE [[Ret]; []]; Call "CheckAllocatorLeader"; IfE "checkAgain" [Cont] []; IfE "allocatorLeader != nil" [Call "WatchAllocatorLeader"] []; Call "getNextLeaderID"; IfE "err != nil" [Cont] []; IfE "nextLeader != 0" [IfE "nextLeader != am.member.ID()" [Cont] []] []; Call "getDCLocationInfoFromLeader"; IfE "err != nil" [Call "longSleep"; IfE "!longSleep(ctx, time.Second)" [Ret] []; Cont] []; IfE "!ok || dcLocationInfo.Suffix <= 0 || dcLocationInfo.MaxTs == nil" [Call "longSleep"; IfE "!longSleep(ctx, checkStep)" [Ret] []; Cont] []; Call "campaignAllocatorLeader"]].
Proof. reflexivity. Qed.
