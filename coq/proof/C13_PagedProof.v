(* C13 — the paged prefix scan returns every key of the range exactly once, for every ascending key
   list and every page size >= 1.  The step that carries the proof is `next_key_succ`: last ++ [0] is the
   immediate successor of `last` in the byte-string order — what Gen_C13.load_next_key must say. *)
From Coq Require Import Sorting.Sorted.
From PDV Require Import lib.Base lib.C12_Order lib.C13_Map gen.Gen_C13 model.C13_Rules model.C13_Paged proof.C13_RulesProof.
Local Open Scope list_scope.

(* k < last ++ [0]  <->  k <= last *)
Lemma next_key_succ l : forall k, key_ltb k (next_key l) = negb (key_ltb l k).
Proof.
  unfold next_key, key_ltb, key_cmp.
  induction l as [|a l IH]; intros [|b t]; cbn.
  - reflexivity.
  - destruct (N.compare_spec b 0) as [E|E|E]; cbn.
    + subst. destruct t; reflexivity.
    + lia.
    + reflexivity.
  - reflexivity.
  - rewrite (N.compare_antisym b a). destruct (N.compare b a); cbn; [apply IH|reflexivity|reflexivity].
Qed.

Lemma filter_none' {A} (f : A -> bool) l : (forall x, In x l -> f x = false) -> filter f l = [].
Proof.
  induction l as [|x r IH]; intros H; cbn; [reflexivity|].
  rewrite (H x (or_introl eq_refl)). apply IH. intros y Hy; apply H; right; exact Hy.
Qed.
Lemma filter_all' {A} (f : A -> bool) l : (forall x, In x l -> f x = true) -> filter f l = l.
Proof.
  induction l as [|x r IH]; intros H; cbn; [reflexivity|].
  rewrite (H x (or_introl eq_refl)). f_equal. apply IH. intros y Hy; apply H; right; exact Hy.
Qed.

Lemma filter_filter_and' {A} (f g : A -> bool) l : filter g (filter f l) = filter (fun x => g x && f x) l.
Proof.
  induction l as [|x r IH]; cbn; [reflexivity|]. destruct (f x); cbn; [destruct (g x); cbn; rewrite IH; reflexivity|rewrite andb_false_r; exact IH].
Qed.

Lemma firstn_all_short {A} n (l : list A) : (length (firstn n l) < n)%nat -> firstn n l = l.
Proof.
  revert l; induction n as [|n IH]; intros l H; [cbn in H; lia|].
  destruct l as [|x r]; [reflexivity|]. cbn in *. f_equal. apply IH. lia.
Qed.

Lemma last_key_app l x : last_key (l ++ [x]) = Some x.
Proof. induction l as [|y r IH]; [reflexivity|]. cbn. destruct (r ++ [x]) eqn:E; [destruct r; discriminate|]. exact IH. Qed.

Lemma last_key_In l x : last_key l = Some x -> exists pre, l = pre ++ [x].
Proof.
  induction l as [|y r IH]; [discriminate|]. destruct r as [|z r'].
  - cbn. intros H; inversion H; subst. exists []. reflexivity.
  - intros H. destruct (IH H) as [pre E]. exists (y :: pre). cbn. rewrite <- E. reflexivity.
Qed.

(* in a strictly ascending list: the elements greater than the last of the first n are the rest *)
Lemma filter_gt_split (pre : list key) x rest :
  StronglySorted key_lt (pre ++ x :: rest) ->
  filter (fun k => key_ltb x k) (pre ++ x :: rest) = rest.
Proof.
  intros S. rewrite filter_app. cbn [filter].
  assert (Hx : key_ltb x x = false) by (unfold key_ltb; rewrite key_cmp_refl; reflexivity). rewrite Hx.
  assert (Hpre : filter (fun k => key_ltb x k) pre = []).
  { apply filter_none'. intros y Hy.
    assert (L : key_lt y x) by (apply (ssorted_app_rel key_lt pre (x :: rest) S y x Hy); left; reflexivity).
    unfold key_ltb. unfold key_lt in L. rewrite (g_anti _ good_key y x), L. reflexivity. }
  rewrite Hpre. cbn. apply ssorted_app_r in S. inversion S as [|? ? _ F]; subst. rewrite Forall_forall in F.
  apply filter_all'. intros y Hy. apply key_ltb_lt. apply F; exact Hy.
Qed.

Lemma filter_sorted_lt (f : key -> bool) l : StronglySorted key_lt l -> StronglySorted key_lt (filter f l).
Proof.
  induction 1 as [|x r S IH F]; cbn; [constructor|]. destruct (f x); [|exact IH].
  constructor; [exact IH|]. rewrite Forall_forall in *. intros y Hy. apply filter_In in Hy as [Hy _]. apply F; exact Hy.
Qed.

Theorem paged_complete limit : (1 <= limit)%nat -> forall fuel lo hi keys,
  StronglySorted key_lt keys ->
  (length (filter (in_range lo hi) keys) < fuel)%nat ->
  paged fuel limit lo hi keys = Some (filter (in_range lo hi) keys).
Proof.
  intros Hl. induction fuel as [|fuel IH]; intros lo hi keys Sk Hf; [lia|].
  cbn [paged]. unfold load_range. destruct limit as [|n]; [lia|].
  set (F := filter (in_range lo hi) keys) in *.
  destruct (Nat.ltb_spec (length (firstn (S n) F)) (S n)) as [Hs|Hs].
  - rewrite firstn_all_short by exact Hs. reflexivity.
  - assert (Hlen : length (firstn (S n) F) = S n) by (pose proof (firstn_le_length (S n) F); rewrite firstn_length in *; lia).
    destruct (last_key (firstn (S n) F)) as [l|] eqn:El.
    2:{ destruct (firstn (S n) F) as [|y r] eqn:E; [discriminate|]. exfalso. clear -El.
        revert y El. induction r as [|z r IH]; intros y El; [discriminate|]. apply (IH z). exact El. }
    destruct (last_key_In _ _ El) as [pre Epre].
    assert (EF : F = pre ++ l :: skipn (S n) F).
    { rewrite <- (firstn_skipn (S n) F) at 1. rewrite Epre, <- app_assoc. reflexivity. }
    assert (SF : StronglySorted key_lt F) by (apply filter_sorted_lt; exact Sk).
    assert (Hin : In l F) by (rewrite EF; apply in_or_app; right; left; reflexivity).
    apply filter_In in Hin as [_ Hrange]. unfold in_range in Hrange. apply andb_true_iff in Hrange as [Hlo Hhi].
    assert (Enext : filter (in_range (next_key l) hi) keys = skipn (S n) F).
    { rewrite <- (filter_gt_split pre l (skipn (S n) F)) by (rewrite <- EF; exact SF). rewrite <- EF.
      unfold F. rewrite filter_filter_and'. apply filter_ext. intros k. unfold in_range.
      rewrite next_key_succ, negb_involutive.
      destruct (key_ltb l k) eqn:Elk; cbn [andb]; [|reflexivity].
      (* lo <= l < k *)
      assert (key_ltb k lo = false).
      { apply negb_true_iff in Hlo. unfold key_ltb in *.
        destruct (key_cmp k lo) eqn:E1; try reflexivity. exfalso.
        destruct (key_cmp l lo) eqn:E2; try discriminate;
          destruct (key_cmp l k) eqn:E3; try discriminate.
        - apply key_cmp_eq in E2. subst lo. rewrite (g_anti _ good_key l k), E3 in E1. discriminate.
        - assert (X : key_cmp lo l = Lt) by (apply (g_gt_lt _ good_key); exact E2).
          pose proof (g_trans _ good_key k lo l Lt E1 X) as Y. rewrite (g_anti _ good_key l k), E3 in Y. discriminate. }
      rewrite H. reflexivity. }
    rewrite IH; [| exact Sk |].
    + rewrite Enext. cbn [option_map]. f_equal. apply firstn_skipn.
    + rewrite Enext. rewrite skipn_length. rewrite firstn_length in Hlen. lia.
Qed.

Lemma filter_len_le {A} (f : A -> bool) l : (length (filter f l) <= length l)%nat.
Proof. induction l as [|x r IH]; cbn; [lia|]. destruct (f x); cbn; lia. Qed.

(* the page size the code uses (regenerated constant) is a legal one *)
Lemma page_limit_pos : (1 <= page_limit)%nat.
Proof. vm_compute. lia. Qed.

(* LoadRangeByPrefix returns every key of [prefix, GetPrefixRangeEnd(prefix)) exactly once, in order *)
Theorem load_range_by_prefix_complete prefix keys :
  StronglySorted key_lt keys ->
  load_range_by_prefix prefix keys = Some (filter (in_range prefix (prefix_end prefix)) keys).
Proof.
  intros S. unfold load_range_by_prefix. apply (paged_complete page_limit page_limit_pos); [exact S|].
  pose proof (filter_len_le (in_range prefix (prefix_end prefix)) keys). lia.
Qed.

(* ... and that range is "has the prefix" (prefixes whose last byte is below 0xff, as rules/ and rule_group/) *)
Lemma prefix_end_snoc q b : (b <? 255)%N = true -> prefix_end (q ++ [b]) = q ++ [(b + 1)%N].
Proof.
  intros H. unfold prefix_end. rewrite rev_app_distr. cbn. rewrite H. cbn. rewrite rev_involutive. reflexivity.
Qed.

Lemma prefix_range q : forall b k, in_range (q ++ [b]) (q ++ [(b + 1)%N]) k = is_prefix (q ++ [b]) k.
Proof.
  unfold in_range, key_ltb, key_cmp.
  induction q as [|a q IH]; intros b k.
  - destruct k as [|c t]; cbn; [reflexivity|].
    destruct (N.compare_spec c b) as [E|E|E]; cbn.
    + subst c. rewrite N.eqb_refl. cbn. destruct t; cbn; (destruct (N.compare_spec b (b + 1)) as [X|X|X]; try lia; reflexivity).
    + destruct (N.eqb_spec b c); [lia|reflexivity].
    + destruct (N.eqb_spec b c); [lia|]. cbn.
      destruct (N.compare_spec c (b + 1)) as [X|X|X]; cbn; try lia; try reflexivity. destruct t; reflexivity.
  - destruct k as [|c t]; cbn; [reflexivity|].
    destruct (N.compare_spec c a) as [E|E|E]; cbn.
    + subst c. rewrite N.eqb_refl. cbn. apply IH.
    + destruct (N.eqb_spec a c); [lia|reflexivity].
    + destruct (N.eqb_spec a c); [lia|reflexivity].
Qed.

Theorem load_by_prefix_all_with_prefix q b keys :
  (b <? 255)%N = true -> StronglySorted key_lt keys ->
  load_range_by_prefix (q ++ [b]) keys = Some (filter (is_prefix (q ++ [b])) keys).
Proof.
  intros Hb S. rewrite load_range_by_prefix_complete by exact S. rewrite prefix_end_snoc by exact Hb.
  f_equal. apply filter_ext. intros k. apply prefix_range.
Qed.

(* why the seeded successor is wrong: GetPrefixRangeEnd(last) is not the successor of last — every key that
   extends `last` lies strictly between them *)
Example prefix_end_is_not_the_successor :
  let l := [1]%N in let k := [1; 0]%N in
  key_ltb l k = true /\ key_ltb k (prefix_end l) = true /\ key_ltb k (next_key l) = false.
Proof. vm_compute. repeat split. Qed.
