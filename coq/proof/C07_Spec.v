(* C07 — the model equals the linear-scan specification: invariant over operation lists and
   one lemma per query method. *)
From Coq Require Import Permutation Sorting.Sorted.
From PDV Require Import lib.Base lib.C07_Key gen.Gen_C07 model.C07_BTreeSpec model.C07_Region
  proof.C07_Sorted proof.C07_Tree proof.C07_RegionProof.
Local Open Scope Z_scope.

Definition wf_op (o : rop) : Prop := match o with OSet r => wf_region r = true | _ => True end.
Definition spec_of (ops : list rop) : spec := fold_left spec_step ops [].
Definition state_of (ops : list rop) : rinfo := ri_state ri_empty ops.

(* the abstraction relation: the specification's region list is the main tree's item list up to order *)
Definition Rel (l : spec) (st : rinfo) : Prop := Inv st /\ Permutation l (items (tree st)).

Lemma Inv_empty : Inv ri_empty.
Proof.
  split; [|split].
  - split; [reflexivity|]. split; [|reflexivity]. intros f s. destruct f; reflexivity.
  - split; [constructor|]. intros id r. cbn. tauto.
  - split; [apply ds_nil|]. split; [constructor|]. intros x [].
Qed.

Lemma trees_rep_items st T : trees_rep st T -> items (tree st) = T.
Proof. intros (H & _). rewrite H. reflexivity. Qed.

Lemma Inv_intro st T : trees_rep st T -> regs_rep (regs st) T -> good T -> Inv st.
Proof. intros H1 H2 H3. pose proof (trees_rep_items _ _ H1) as E. unfold Inv. rewrite E. auto. Qed.

Lemma Rel_set l st r : Rel l st -> wf_region r = true ->
  Rel (spec_set l r) (fst (set_region st r)) /\
  snd (set_region st r) = displaced (items (tree st)) r.
Proof.
  intros [(HT & HR & G) P] W. destruct (set_region_rep st _ r HT HR G W) as (A & B & C).
  split; [|exact C]. split.
  - eapply Inv_intro; eauto. apply spec_tree_good; auto.
  - rewrite (trees_rep_items _ _ A). unfold spec_set. fold (keep r).
    rewrite <- spec_tree_perm. constructor. apply Permutation_filter, P.
Qed.

Lemma Rel_remove l st id x : Rel l st -> get_region st id = Some x ->
  Rel (spec_remove l id) (remove_region st x).
Proof.
  intros [(HT & HR & G) P] GS. apply (regs_rep_get _ _ _ _ HR) in GS as [Hx Eid].
  destruct (remove_region_rep st _ x HT HR G Hx) as (A & B & C). split.
  - eapply Inv_intro; eauto.
  - rewrite (trees_rep_items _ _ A). unfold spec_remove.
    rewrite (filter_ext_in' (fun y => negb (same x y)) (fun y => negb (r_id y =? id)) (items (tree st))).
    + apply Permutation_filter, P.
    + intros y Hy. rewrite <- Eid, (id_vs_same _ _ _ G Hx Hy). reflexivity.
Qed.

Lemma Rel_remove_none l st id : Rel l st -> get_region st id = None -> spec_remove l id = l.
Proof.
  intros [(HT & HR & G) P] GN. unfold spec_remove. apply filter_true_id. intros y Hy.
  apply negb_true_iff, Z.eqb_neq. apply (regs_rep_get_none _ _ _ HR GN). eapply Permutation_in; eauto.
Qed.

Lemma ri_step_query st o : (forall r, o <> OSet r) -> (forall id, o <> ORemove id) -> fst (ri_step st o) = st.
Proof.
  intros H1 H2. destruct o as [r|id|id0|k|k|ks ke lim|r|r|sto| |sto| |f sto ks ke dr|f sto rs]; try reflexivity; cbn.
  - exfalso; eapply H1; reflexivity.
  - exfalso; eapply H2; reflexivity.
  - destruct (all_some _); reflexivity.
  - destruct (random_one _ _ _ _); reflexivity.
  - destruct (random_many _ _); reflexivity.
Qed.

Lemma Rel_step l st o : Rel l st -> wf_op o -> Rel (spec_step l o) (fst (ri_step st o)).
Proof.
  intros R W. destruct o as [r|id|id0|k|k|ks ke lim|r|r|sto| |sto| |f sto ks ke dr|f sto rs]; try (rewrite ri_step_query by (intros; discriminate); exact R).
  - cbn in W. destruct (Rel_set l st r R W) as [R' _]. cbn.
    destruct (set_region st r) as [st' ov]. cbn in R'. destruct (bad st'); exact R'.
  - cbn. destruct (get_region st id) as [x|] eqn:GS; cbn.
    + eapply Rel_remove; eauto.
    + rewrite (Rel_remove_none _ _ _ R GS). exact R.
Qed.

Theorem Rel_run ops : Forall wf_op ops -> Rel (spec_of ops) (state_of ops).
Proof.
  unfold spec_of, state_of.
  assert (G : forall ops l st, Rel l st -> Forall wf_op ops -> Rel (fold_left spec_step ops l) (ri_state st ops)).
  { clear ops. induction ops as [|o ops IH]; intros l st R F; cbn; [exact R|].
    inversion F; subst. apply IH; [apply Rel_step; auto|auto]. }
  apply G. split; [apply Inv_empty|reflexivity].
Qed.

(* ------------------------------------------------------------------------------------------ *)
(* consequences of Rel                                                                          *)
Section Queries.
  Variables (l : spec) (st : rinfo).
  Hypothesis R : Rel l st.
  Let T := items (tree st).

  Lemma q_ds : ds T. Proof. destruct R as [(_ & _ & (D & _)) _]. exact D. Qed.
  Lemma q_perm : Permutation l T. Proof. destruct R as [_ P]. exact P. Qed.
  Lemma q_ids : NoDup (map r_id T). Proof. destruct R as [(_ & _ & (_ & N & _)) _]. exact N. Qed.
  Lemma q_tree : tree st = RT T (sum_size T). Proof. destruct R as [((H & _) & _) _]. exact H. Qed.
  Lemma q_regs : regs_rep (regs st) T. Proof. destruct R as [(_ & H & _) _]. exact H. Qed.
  Lemma q_fam f s : fam_of st f s = RT (filter (has_role f s) T) (sum_size (filter (has_role f s) T)).
  Proof. destruct R as [((_ & H & _) & _) _]. apply H. Qed.

  Lemma q_in x : In x l <-> In x T.
  Proof. split; apply Permutation_in; [apply q_perm | symmetry; apply q_perm]. Qed.

  Lemma q_sorted_filter p : sort_regions (filter p l) = filter p T.
  Proof. apply sort_regions_unique; [apply Permutation_filter, q_perm | apply ssorted_filter, ds_ssorted, q_ds]. Qed.

  Lemma q_get x : In x T -> get_region st (r_id x) = Some x.
  Proof. intros Hx. apply (regs_rep_get _ _ _ _ q_regs). auto. Qed.

  (* number of indexed regions = number of cached regions = number of current regions *)
  Lemma q_len : length (regs st) = length T /\ length T = length l.
  Proof.
    split.
    - rewrite <- (map_length snd). apply Permutation_length. apply regs_rep_perm; [apply q_regs|apply q_ids].
    - symmetry. apply Permutation_length, q_perm.
  Qed.

  Lemma q_total : total_size (tree st) = sum_size l.
  Proof.
    rewrite q_tree, (sum_size_perm _ _ q_perm). unfold total_size, rt_len. cbn [items total].
    destruct T; reflexivity.
  Qed.

  Lemma q_fam_items f s : items (fam_of st f s) = spec_fam l f s.
  Proof. rewrite q_fam. unfold spec_fam. rewrite q_sorted_filter. reflexivity. Qed.

  Lemma q_fam_len f s : rt_len (fam_of st f s) = Z.of_nat (length (spec_fam l f s)).
  Proof. unfold rt_len. rewrite q_fam_items. reflexivity. Qed.

  Lemma q_fam_total f s : total_size (fam_of st f s) = sum_size (spec_fam l f s).
  Proof.
    unfold spec_fam. rewrite q_sorted_filter, q_fam. unfold total_size, rt_len. cbn [items total].
    destruct (filter (has_role f s) T); reflexivity.
  Qed.

  (* lookup by key *)
  Lemma find_unique {A} (p : A -> bool) (L : list A) x :
    In x L -> p x = true -> (forall y, In y L -> p y = true -> y = x) -> List.find p L = Some x.
  Proof.
    induction L as [|a L IH]; intros Hx Px U; [destruct Hx|]. cbn.
    destruct (p a) eqn:Pa; [f_equal; apply U; [left; reflexivity|exact Pa]|].
    destruct Hx as [->|Hx]; [congruence|]. apply IH; auto. intros y Hy; apply U; right; exact Hy.
  Qed.
  Lemma find_none' {A} (p : A -> bool) (L : list A) : (forall y, In y L -> p y = false) -> List.find p L = None.
  Proof.
    induction L as [|a L IH]; intros H; cbn; [reflexivity|]. rewrite (H a (or_introl eq_refl)).
    apply IH. intros y Hy; apply H; right; exact Hy.
  Qed.

  Lemma q_search k : search_region st k = spec_search l k.
  Proof.
    unfold search_region, spec_search. rewrite q_tree.
    destruct (search (RT T (sum_size T)) k) as [x|] eqn:S.
    - apply (search_spec _ _ _ _ q_ds) in S as [Hx C]. cbn. rewrite (q_get x Hx). symmetry.
      apply find_unique; [apply q_in, Hx|exact C|].
      intros y Hy Cy. apply q_in in Hy. eapply ds_contains_unique; eauto using q_ds.
    - cbn. symmetry. apply find_none'. intros y Hy. apply q_in in Hy. eapply search_none; eauto using q_ds.
  Qed.

  (* overlap query *)
  Lemma q_overlaps r : valid_range r = true -> get_overlaps (tree st) r = spec_overlaps l r.
  Proof.
    intros V. rewrite q_tree, (get_overlaps_spec _ _ _ q_ds V). unfold spec_overlaps. rewrite q_sorted_filter. reflexivity.
  Qed.

  (* range scan with limit *)
  Definition before_key (e : key) (x : region) : bool := is_nil e || key_ltb (r_start x) e.

  Lemma stop_is_not_before e x : negb (is_nil e) && key_leb e (r_start x) = negb (before_key e x).
  Proof.
    unfold before_key. destruct (is_nil_spec e); cbn; [reflexivity|].
    destruct (key_leb_spec e (r_start x)), (key_ltb_spec (r_start x) e); try reflexivity; exfalso; korder.
  Qed.

  Lemma scan_take_spec e lim L : (forall x, In x L -> In x T) -> ssorted L ->
    forall n, 0 <= n -> (0 < lim -> n <= lim) ->
    scan_take st e lim n L =
      map Some (if 0 <? lim then firstn (Z.to_nat (lim - n)) (filter (before_key e) L) else filter (before_key e) L).
  Proof.
    intros HL S. induction L as [|x L IH]; intros n Hn Hl; cbn [scan_take].
    - cbn. destruct (0 <? lim); [rewrite firstn_nil|]; reflexivity.
    - apply ssorted_inv in S as [S1 S2]. rewrite Forall_forall in S2.
      assert (HL' : forall y, In y L -> In y T) by (intros y Hy; apply HL; right; exact Hy).
      rewrite stop_is_not_before. cbn [filter].
      destruct (before_key e x) eqn:BK; cbn [negb].
      + rewrite (q_get x (HL x (or_introl eq_refl))).
        destruct (0 <? lim) eqn:L0; cbn [andb].
        * apply Z.ltb_lt in L0. destruct (lim <=? n) eqn:L1.
          -- apply Z.leb_le in L1. assert (E0 : lim - n = 0) by (specialize (Hl L0); lia). rewrite E0. reflexivity.
          -- apply Z.leb_gt in L1. rewrite (IH HL' S1 (n + 1)) by lia.
             replace (Z.to_nat (lim - n)) with (Datatypes.S (Z.to_nat (lim - (n + 1)))) by lia. reflexivity.
        * rewrite (IH HL' S1 (n + 1)) by lia. reflexivity.
      + rewrite (filter_false_nil (before_key e) L).
        * destruct (0 <? lim); [rewrite firstn_nil|]; reflexivity.
        * intros y Hy. specialize (S2 y Hy). unfold before_key, slt in *.
          destruct (is_nil_spec e); [discriminate|]. cbn in *.
          destruct (key_ltb_spec (r_start x) e); [discriminate|].
          destruct (key_ltb_spec (r_start y) e); [exfalso; korder|reflexivity].
  Qed.

  Lemma q_scan s e lim : scan st s e lim = map Some (spec_scan l s e lim).
  Proof.
    unfold scan. rewrite q_tree, (scan_range_spec _ _ _ q_ds).
    rewrite scan_take_spec; try lia.
    - unfold spec_scan. rewrite q_sorted_filter. rewrite filter_filter, Z.sub_0_r.
      rewrite (filter_ext_in' (fun x => ends_after s x && before_key e x) (scan_pred s e) T); [reflexivity|].
      intros x _. unfold ends_after, before_key, scan_pred. apply andb_comm.
    - intros x Hx. apply filter_In in Hx. tauto.
    - apply ssorted_filter, ds_ssorted, q_ds.
  Qed.

  Lemma q_all_some {A} (L : list A) : all_some (map Some L) = Some L.
  Proof. induction L as [|a L IH]; cbn; [reflexivity|]. rewrite IH. reflexivity. Qed.
End Queries.

(* ------------------------------------------------------------------------------------------ *)
(* the statements of props/C07.v                                                                *)
Definition valid_op (o : rop) : Prop := match o with OSet r => valid_range r = true | _ => True end.

Theorem tree_eq_map_pf ops : Forall wf_op ops ->
  length (regs (state_of ops)) = length (items (tree (state_of ops))) /\
  length (items (tree (state_of ops))) = length (spec_of ops) /\
  NoDup (map r_id (items (tree (state_of ops)))).
Proof.
  intros W. pose proof (Rel_run ops W) as R. destruct (q_len _ _ R) as [A B].
  split; [exact A|]. split; [exact B|apply (q_ids _ _ R)].
Qed.

Theorem tree_sorted_disjoint_pf ops : Forall wf_op ops -> ds (items (tree (state_of ops))).
Proof. intros W. apply (q_ds _ _ (Rel_run ops W)). Qed.

Theorem total_size_exact_pf ops : Forall wf_op ops ->
  total_size (tree (state_of ops)) = sum_size (spec_of ops) /\
  forall f s, total_size (fam_of (state_of ops) f s) = sum_size (spec_fam (spec_of ops) f s).
Proof. intros W. pose proof (Rel_run ops W) as R. split; [apply (q_total _ _ R)|apply (q_fam_total _ _ R)]. Qed.

Theorem subtrees_exact_pf ops : Forall wf_op ops ->
  forall f s, items (fam_of (state_of ops) f s) = spec_fam (spec_of ops) f s /\
              rt_len (fam_of (state_of ops) f s) = Z.of_nat (length (spec_fam (spec_of ops) f s)).
Proof. intros W f s. pose proof (Rel_run ops W) as R. split; [apply (q_fam_items _ _ R)|apply (q_fam_len _ _ R)]. Qed.

Theorem search_is_linear_scan_pf ops : Forall wf_op ops ->
  forall k, search_region (state_of ops) k = spec_search (spec_of ops) k.
Proof. intros W k. apply (q_search _ _ (Rel_run ops W)). Qed.

Theorem scan_range_is_linear_scan_pf ops : Forall wf_op ops ->
  forall s e lim, scan (state_of ops) s e lim = map Some (spec_scan (spec_of ops) s e lim).
Proof. intros W s e lim. apply (q_scan _ _ (Rel_run ops W)). Qed.

Theorem overlaps_is_linear_scan_pf ops : Forall wf_op ops ->
  forall r, valid_range r = true -> get_overlaps (tree (state_of ops)) r = spec_overlaps (spec_of ops) r.
Proof. intros W r V. apply (q_overlaps _ _ (Rel_run ops W) r V). Qed.

Theorem get_region_is_cached_pf ops : Forall wf_op ops ->
  forall id, get_region (state_of ops) id = List.find (fun r => r_id r =? id) (spec_of ops).
Proof.
  intros W id. pose proof (Rel_run ops W) as R.
  destruct (get_region (state_of ops) id) as [x|] eqn:GS.
  - apply (regs_rep_get _ _ _ _ (q_regs _ _ R)) in GS as [Hx E]. symmetry. apply find_unique.
    + apply (q_in _ _ R), Hx.
    + apply Z.eqb_eq, E.
    + intros y Hy Ey. apply Z.eqb_eq in Ey. apply (q_in _ _ R) in Hy.
      apply (nodup_ids_eq _ _ _ (q_ids _ _ R) Hy Hx). congruence.
  - symmetry. apply find_none'. intros y Hy. apply (q_in _ _ R) in Hy. apply Z.eqb_neq.
    apply (regs_rep_get_none _ _ _ (q_regs _ _ R) GS y Hy).
Qed.

(* the regions SetRegion reports as displaced are the cached regions of other ids that overlap, in key order *)
Theorem set_region_displaces_pf ops : Forall wf_op ops -> forall r, wf_region r = true ->
  snd (set_region (state_of ops) r) =
  sort_regions (filter (fun x => negb (r_id x =? r_id r) && overlaps x r) (spec_of ops)).
Proof.
  intros W r WR. pose proof (Rel_run ops W) as R. destruct (Rel_set _ _ r R WR) as [_ E].
  rewrite E. unfold displaced. symmetry. apply (q_sorted_filter _ _ R).
Qed.

(* the two excluded input classes: the full statements are false on the model (and on the code) *)
Definition subtrees_exact_full : Prop :=
  forall ops, Forall valid_op ops ->
  forall f s, rt_len (fam_of (state_of ops) f s) = Z.of_nat (length (spec_fam (spec_of ops) f s)).

Definition total_size_exact_full : Prop :=
  forall ops, Forall valid_op ops ->
  forall f s, total_size (fam_of (state_of ops) f s) = sum_size (spec_fam (spec_of ops) f s).

Definition witness_foreign_pending : list rop :=
  [OSet (Region 1 (K [97]) (K [99]) [Peer 101 1 false; Peer 102 2 false; Peer 103 3 false] 101 [Peer 109 4 false] 10 1 1 1 1);
   ORemove 1].

Definition witness_shared_store : list rop :=
  [OSet (Region 1 (K [97]) (K [99]) [Peer 101 1 false; Peer 102 2 false; Peer 103 2 false] 101 [] 10 1 1 1 1);
   OSet (Region 1 (K [97]) (K [99]) [Peer 101 1 false; Peer 102 2 false; Peer 103 2 false] 101 [] 30 1 1 1 2)].

Lemma witness_foreign_valid : Forall valid_op witness_foreign_pending.
Proof. repeat constructor. Qed.
Lemma witness_shared_valid : Forall valid_op witness_shared_store.
Proof. repeat constructor. Qed.

Theorem subtrees_exact_refuted_pf : ~ subtrees_exact_full.
Proof.
  intros H. specialize (H witness_foreign_pending witness_foreign_valid FPending 4). vm_compute in H. discriminate.
Qed.

Theorem total_size_exact_refuted_pf : ~ total_size_exact_full.
Proof.
  intros H. specialize (H witness_shared_store witness_shared_valid FFollower 2). vm_compute in H. discriminate.
Qed.
