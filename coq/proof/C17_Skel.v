(* C17 - structural obligations on the code as it is now (regenerated gen/Gen_C17.v).  The model in
   model/C17_Storage.v was written against exactly these bodies: the two paging loops (start key, exclusive end
   key built from math.MaxUint64, `nextID = id + 1`, the `len(res) < limit` exit, the halve-and-retry branch), the
   write-back batch of RegionStorage (SaveRegion / flush / FlushRegion / Close), deleteRegion going straight to the
   kv, the dispatch on useRegionStorage, and the end-exclusive LoadRange of the three backends. *)
From PDV Require Import lib.Skel gen.Gen_C17.
From Coq Require Import ZArith.

Lemma c_minKVRangeLimit_ok : minKVRangeLimit = 100%Z. Proof. reflexivity. Qed.
Lemma c_maxKVRangeLimit_ok : maxKVRangeLimit = 10000%Z. Proof. reflexivity. Qed.
Lemma c_defaultBatchSize_ok : defaultBatchSize = 100%Z. Proof. reflexivity. Qed.
Lemma c_key_pads_ok : store_key_pad = 20%Z /\ region_key_pad = 20%Z /\ leader_weight_key_pad = 20%Z /\ region_weight_key_pad = 20%Z.
Proof. repeat split. Qed.

Lemma src_storePath_ok : src_storePath =
  ["return path.Join(clusterPath, ""s"", fmt.Sprintf(""%020d"", storeID))"].
Proof. reflexivity. Qed.

Lemma src_regionPath_ok : src_regionPath =
  ["return path.Join(clusterPath, ""r"", fmt.Sprintf(""%020d"", regionID))"].
Proof. reflexivity. Qed.

Lemma src_storeLeaderWeightPath_ok : src_storeLeaderWeightPath =
  ["return path.Join(schedulePath, ""store_weight"", fmt.Sprintf(""%020d"", storeID), ""leader"")"].
Proof. reflexivity. Qed.

Lemma src_storeRegionWeightPath_ok : src_storeRegionWeightPath =
  ["return path.Join(schedulePath, ""store_weight"", fmt.Sprintf(""%020d"", storeID), ""region"")"].
Proof. reflexivity. Qed.

Lemma skel_LoadStores_ok : skel_LoadStores =
  [Assign "nextID" ":= uint64(0)"; Call "storePath"; Assign "endKey" ":= s.storePath(math.MaxUint64) + ""\x00"""; ForE [Call "storePath"; Assign "key" ":= s.storePath(nextID)"; Call "LoadRange"; Assign "res" ":= s.LoadRange(key, endKey, minKVRangeLimit)"; IfE "err != nil" [Ret] []; ForE [Call "Unmarshal"; IfE "err != nil" [Ret] []; Call "loadFloatWithDefaultValue"; IfE "err != nil" [Ret] []; Call "loadFloatWithDefaultValue"; IfE "err != nil" [Ret] []; Call "NewStoreInfo"; Assign "nextID" "= store.GetId() + 1"; Call "f"]; IfE "len(res) < minKVRangeLimit || nextID == 0" [Ret] []]].
Proof. reflexivity. Qed.

Lemma skel_loadRegions_ok : skel_loadRegions =
  [Assign "nextID" ":= uint64(0)"; Call "regionPath"; Assign "endKey" ":= regionPath(math.MaxUint64) + ""\x00"""; Assign "rangeLimit" ":= maxKVRangeLimit"; ForE [Call "regionPath"; Assign "startKey" ":= regionPath(nextID)"; Call "LoadRange"; Assign "res" ":= kv.LoadRange(startKey, endKey, rangeLimit)"; IfE "err != nil" [Assign "rangeLimit" "/= 2"; Ret] []; ForE [Call "Unmarshal"; IfE "err != nil" [Ret] []; Call "DecryptRegion"; IfE "err != nil" [Ret] []; Assign "nextID" "= region.GetId() + 1"; Call "NewRegionInfo"; Call "f"; Assign "overlaps" ":= f(NewRegionInfo(region, nil))"; ForE [Call "deleteRegion"; IfE "err != nil" [Ret] []]]; IfE "len(res) < rangeLimit || nextID == 0" [Ret] []]].
Proof. reflexivity. Qed.

Lemma src_loadRegions_retry_ok : src_loadRegions_retry =
  ["if rangeLimit /= 2; rangeLimit >= minKVRangeLimit { continue }"; "return err"].
Proof. reflexivity. Qed.

Lemma skel_loadFloatWithDefaultValue_ok : skel_loadFloatWithDefaultValue =
  [Call "Load"; Assign "res" ":= s.Load(path)"; IfE "err != nil" [Ret] []; IfE "res == """"" [Ret] []; IfE "err != nil" [Ret] []; Ret].
Proof. reflexivity. Qed.

Lemma src_rs_SaveRegion_ok : src_rs_SaveRegion =
  ["region, err := encryption.EncryptRegion(region, s.encryptionKeyManager)"; "if err != nil { return err }"; "s.mu.Lock()"; "defer s.mu.Unlock()"; "if s.cacheSize < s.batchSize-1 { s.batchRegions[regionPath(region.GetId())] = region s.cacheSize++ s.flushTime = time.Now().Add(s.flushRate) return nil }"; "s.batchRegions[regionPath(region.GetId())] = region"; "err = s.flush()"; "if err != nil { return err }"; "return nil"].
Proof. reflexivity. Qed.

Lemma src_rs_flush_ok : src_rs_flush =
  ["if err := s.SaveRegions(s.batchRegions); err != nil { return err }"; "s.cacheSize = 0"; "s.batchRegions = make(map[string]*metapb.Region, s.batchSize)"; "return nil"].
Proof. reflexivity. Qed.

Lemma src_rs_FlushRegion_ok : src_rs_FlushRegion =
  ["s.mu.Lock()"; "defer s.mu.Unlock()"; "return s.flush()"].
Proof. reflexivity. Qed.

Lemma src_rs_Close_ok : src_rs_Close =
  ["err := s.FlushRegion()"; "if err != nil { log.Error(""meet error before close the region storage"", errs.ZapError(err)) }"; "s.regionStorageCancel()"; "err = s.LeveldbKV.Close()"; "if err != nil { return errs.ErrLevelDBClose.Wrap(err).GenWithStackByArgs() }"; "return nil"].
Proof. reflexivity. Qed.

Lemma src_deleteRegion_ok : src_deleteRegion =
  ["return kv.Remove(regionPath(region.GetId()))"].
Proof. reflexivity. Qed.

Lemma src_SaveRegion_ok : src_SaveRegion =
  ["if atomic.LoadInt32(&s.useRegionStorage) > 0 { return s.regionStorage.SaveRegion(region) }"; "return saveRegion(s.Base, s.encryptionKeyManager, region)"].
Proof. reflexivity. Qed.

Lemma src_DeleteRegion_ok : src_DeleteRegion =
  ["if atomic.LoadInt32(&s.useRegionStorage) > 0 { return deleteRegion(s.regionStorage, region) }"; "return deleteRegion(s.Base, region)"].
Proof. reflexivity. Qed.

Lemma src_LoadRegions_ok : src_LoadRegions =
  ["if atomic.LoadInt32(&s.useRegionStorage) > 0 { return loadRegions(s.regionStorage, s.encryptionKeyManager, f) }"; "return loadRegions(s.Base, s.encryptionKeyManager, f)"].
Proof. reflexivity. Qed.

Lemma src_LoadRegionsOnce_ok : src_LoadRegionsOnce =
  ["if atomic.LoadInt32(&s.useRegionStorage) == 0 { return loadRegions(s.Base, s.encryptionKeyManager, f) }"; "s.mu.Lock()"; "defer s.mu.Unlock()"; "if s.regionLoaded == 0 { if err := loadRegions(s.regionStorage, s.encryptionKeyManager, f); err != nil { return err } s.regionLoaded = 1 }"; "return nil"].
Proof. reflexivity. Qed.

Lemma src_Flush_ok : src_Flush =
  ["if s.regionStorage != nil { return s.regionStorage.FlushRegion() }"; "return nil"].
Proof. reflexivity. Qed.

Lemma src_Close_ok : src_Close =
  ["if s.regionStorage != nil { err := s.regionStorage.Close() if err != nil { return err } }"; "return nil"].
Proof. reflexivity. Qed.

Lemma src_SaveStore_ok : src_SaveStore =
  ["return saveProto(s.Base, s.storePath(store.GetId()), store)"].
Proof. reflexivity. Qed.

Lemma src_DeleteStore_ok : src_DeleteStore =
  ["id := store.GetId()"; "oldLeader, err := s.Load(s.storeLeaderWeightPath(id))"; "if err != nil { return err }"; "oldRegion, err := s.Load(s.storeRegionWeightPath(id))"; "if err != nil { return err }"; "err = s.Remove(s.storeLeaderWeightPath(id))"; "if err == nil { err = s.Remove(s.storeRegionWeightPath(id)) }"; "if err == nil { err = s.Remove(s.storePath(id)) }"; "if err != nil { s.restoreWeight(s.storeLeaderWeightPath(id), oldLeader) s.restoreWeight(s.storeRegionWeightPath(id), oldRegion) }"; "return err"].
Proof. reflexivity. Qed.

Lemma src_SaveStoreWeight_ok : src_SaveStoreWeight =
  ["oldLeader, err := s.Load(s.storeLeaderWeightPath(storeID))"; "if err != nil { return err }"; "oldRegion, err := s.Load(s.storeRegionWeightPath(storeID))"; "if err != nil { return err }"; "leaderValue := strconv.FormatFloat(leader, 'f', -1, 64)"; "regionValue := strconv.FormatFloat(region, 'f', -1, 64)"; "err = s.Save(s.storeLeaderWeightPath(storeID), leaderValue)"; "if err == nil { err = s.Save(s.storeRegionWeightPath(storeID), regionValue) }"; "if err != nil { s.restoreWeight(s.storeLeaderWeightPath(storeID), oldLeader) s.restoreWeight(s.storeRegionWeightPath(storeID), oldRegion) }"; "return err"].
Proof. reflexivity. Qed.

Lemma src_mem_LoadRange_ok : src_mem_LoadRange =
  ["kv.RLock()"; "defer kv.RUnlock()"; "keys := make([]string, 0, limit)"; "values := make([]string, 0, limit)"; "kv.tree.AscendRange(memoryKVItem{key, """"}, memoryKVItem{endKey, """"}, func(item btree.Item) bool { keys = append(keys, item.(memoryKVItem).key) values = append(values, item.(memoryKVItem).value) if limit > 0 { return len(keys) < limit } return true })"; "return keys, values, nil"].
Proof. reflexivity. Qed.

Lemma src_etcd_LoadRange_ok : src_etcd_LoadRange =
  ["key = strings.Join([]string{kv.rootPath, key}, ""/"")"; "endKey = strings.Join([]string{kv.rootPath, endKey}, ""/"")"; "withRange := clientv3.WithRange(endKey)"; "withLimit := clientv3.WithLimit(int64(limit))"; "resp, err := etcdutil.EtcdKVGet(kv.client, key, withRange, withLimit)"; "if err != nil { return nil, nil, err }"; "keys := make([]string, 0, len(resp.Kvs))"; "values := make([]string, 0, len(resp.Kvs))"; "for _, item := range resp.Kvs { keys = append(keys, strings.TrimPrefix(strings.TrimPrefix(string(item.Key), kv.rootPath), ""/"")) values = append(values, string(item.Value)) }"; "return keys, values, nil"].
Proof. reflexivity. Qed.

Lemma src_leveldb_LoadRange_ok : src_leveldb_LoadRange =
  ["iter := kv.NewIterator(&util.Range{Start: []byte(startKey), Limit: []byte(endKey)}, nil)"; "keys := make([]string, 0, limit)"; "values := make([]string, 0, limit)"; "count := 0"; "for iter.Next() { if limit > 0 && count >= limit { break } keys = append(keys, string(iter.Key())) values = append(values, string(iter.Value())) count++ }"; "iter.Release()"; "return keys, values, nil"].
Proof. reflexivity. Qed.
