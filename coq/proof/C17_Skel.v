(* C17 - structural obligations on the code as it is now (regenerated gen/Gen_C17.v).  The model in
   model/C17_Storage.v was written against exactly these bodies: the two paging loops (start key, exclusive end
   key built from math.MaxUint64, `nextID = id + 1`, the `len(res) < limit` exit, the halve-and-retry branch), the
   write-back batch of RegionStorage (SaveRegion / flush / FlushRegion / Close), deleteRegion going straight to the
   kv, the dispatch on useRegionStorage, and the end-exclusive LoadRange of the three backends. *)
From PDV Require Import lib.Skel gen.Gen_C17.
From Coq Require Import ZArith.

Lemma c_minKVRangeLimit_ok : minKVRangeLimit = 100%Z. Proof. reflexivity. Qed.
Lemma c_maxKVRangeLimit_ok : maxKVRangeLimit = 10000%Z. Proof. reflexivity. Qed.
Lemma c_defaultBatchSize_ok : defaultBatchSize = 100%Z. Proof. reflexivity. Qed.
Lemma c_key_pads_ok : store_key_pad = 20%Z /\ region_key_pad = 20%Z /\ leader_weight_key_pad = 20%Z /\ region_weight_key_pad = 20%Z.
Proof. repeat split. Qed.

Lemma src_storePath_ok : src_storePath =
  ["return path.Join(clusterPath, ""s"", fmt.Sprintf(""%020d"", v1))"].
Proof. reflexivity. Qed.

Lemma src_regionPath_ok : src_regionPath =
  ["return path.Join(clusterPath, ""r"", fmt.Sprintf(""%020d"", v0))"].
Proof. reflexivity. Qed.

Lemma src_storeLeaderWeightPath_ok : src_storeLeaderWeightPath =
  ["return path.Join(schedulePath, ""store_weight"", fmt.Sprintf(""%020d"", v1), ""leader"")"].
Proof. reflexivity. Qed.

Lemma src_storeRegionWeightPath_ok : src_storeRegionWeightPath =
  ["return path.Join(schedulePath, ""store_weight"", fmt.Sprintf(""%020d"", v1), ""region"")"].
Proof. reflexivity. Qed.

Lemma skel_LoadStores_ok : skel_LoadStores =
  [Assign "v3" ":= uint64(0)"; Call "storePath"; Assign "v4" ":= v0.storePath(math.MaxUint64) + ""\x00"""; ForE [Call "storePath"; Assign "v5" ":= v0.storePath(v3)"; Call "LoadRange"; Assign "v6" ":= v0.LoadRange(v5, v4, minKVRangeLimit)"; Assign "v7" ":= v0.LoadRange(v5, v4, minKVRangeLimit)"; IfE "v7 != nil" [Ret] []; ForE [Assign "v9" ":= &metapb.Store{}"; Call "Unmarshal"; Assign "v10" ":= v9.Unmarshal([]byte(v8))"; IfE "v10 != nil" [Ret] []; Call "loadFloatWithDefaultValue"; Assign "v11" ":= v0.loadFloatWithDefaultValue(v0.storeLeaderWeightPath(v9.GetId()), 1.0)"; Assign "v12" ":= v0.loadFloatWithDefaultValue(v0.storeLeaderWeightPath(v9.GetId()), 1.0)"; IfE "v12 != nil" [Ret] []; Call "loadFloatWithDefaultValue"; Assign "v13" ":= v0.loadFloatWithDefaultValue(v0.storeRegionWeightPath(v9.GetId()), 1.0)"; Assign "v12" ":= v0.loadFloatWithDefaultValue(v0.storeRegionWeightPath(v9.GetId()), 1.0)"; IfE "v12 != nil" [Ret] []; Call "NewStoreInfo"; Assign "v14" ":= NewStoreInfo(v9, SetLeaderWeight(v11), SetRegionWeight(v13))"; Assign "v3" "= v9.GetId() + 1"]; IfE "len(v6) < minKVRangeLimit || v3 == 0" [Ret] []]].
Proof. reflexivity. Qed.

Lemma skel_loadRegions_ok : skel_loadRegions =
  [Assign "v4" ":= uint64(0)"; Call "regionPath"; Assign "v5" ":= regionPath(math.MaxUint64) + ""\x00"""; Assign "v6" ":= maxKVRangeLimit"; ForE [Call "regionPath"; Assign "v7" ":= regionPath(v4)"; Call "LoadRange"; Assign "v8" ":= v0.LoadRange(v7, v5, v6)"; Assign "v9" ":= v0.LoadRange(v7, v5, v6)"; IfE "v9 != nil" [Assign "v6" "/= 2"; Ret] []; ForE [Assign "v11" ":= &metapb.Region{}"; Call "Unmarshal"; Assign "v12" ":= v11.Unmarshal([]byte(v10))"; IfE "v12 != nil" [Ret] []; Call "DecryptRegion"; Assign "v9" "= encryption.DecryptRegion(v11, v1)"; IfE "v9 != nil" [Ret] []; Assign "v4" "= v11.GetId() + 1"; Call "NewRegionInfo"; Assign "v13" ":= v2(NewRegionInfo(v11, nil))"; ForE [Call "deleteRegion"; Assign "v15" ":= deleteRegion(v0, v14.GetMeta())"; IfE "v15 != nil" [Ret] []]]; IfE "len(v8) < v6 || v4 == 0" [Ret] []]].
Proof. reflexivity. Qed.

Lemma src_loadRegions_retry_ok : src_loadRegions_retry =
  ["if v6 /= 2; v6 >= minKVRangeLimit { continue }"; "return v9"].
Proof. reflexivity. Qed.

Lemma skel_loadFloatWithDefaultValue_ok : skel_loadFloatWithDefaultValue =
  [Call "Load"; Assign "v3" ":= v0.Load(v1)"; Assign "v4" ":= v0.Load(v1)"; IfE "v4 != nil" [Ret] []; IfE "v3 == """"" [Ret] []; Assign "v5" ":= strconv.ParseFloat(v3, 64)"; Assign "v4" ":= strconv.ParseFloat(v3, 64)"; IfE "v4 != nil" [Ret] []; Ret].
Proof. reflexivity. Qed.

Lemma src_rs_SaveRegion_ok : src_rs_SaveRegion =
  ["v1, v2 := encryption.EncryptRegion(v1, v0.encryptionKeyManager)"; "if v2 != nil { return v2 }"; "v0.mu.Lock()"; "defer v0.mu.Unlock()"; "if v0.cacheSize < v0.batchSize-1 { v0.batchRegions[regionPath(v1.GetId())] = v1 v0.cacheSize++ v0.flushTime = time.Now().Add(v0.flushRate) return nil }"; "v0.batchRegions[regionPath(v1.GetId())] = v1"; "v2 = v0.flush()"; "if v2 != nil { return v2 }"; "return nil"].
Proof. reflexivity. Qed.

Lemma src_rs_flush_ok : src_rs_flush =
  ["if v1 := v0.SaveRegions(v0.batchRegions); v1 != nil { return v1 }"; "v0.cacheSize = 0"; "v0.batchRegions = make(map[string]*metapb.Region, v0.batchSize)"; "return nil"].
Proof. reflexivity. Qed.

Lemma src_rs_FlushRegion_ok : src_rs_FlushRegion =
  ["v0.mu.Lock()"; "defer v0.mu.Unlock()"; "return v0.flush()"].
Proof. reflexivity. Qed.

Lemma src_rs_Close_ok : src_rs_Close =
  ["v1 := v0.FlushRegion()"; "if v1 != nil { }"; "v0.regionStorageCancel()"; "v1 = v0.LeveldbKV.Close()"; "if v1 != nil { return errs.ErrLevelDBClose.Wrap(v1).GenWithStackByArgs() }"; "return nil"].
Proof. reflexivity. Qed.

Lemma src_deleteRegion_ok : src_deleteRegion =
  ["return v0.Remove(regionPath(v1.GetId()))"].
Proof. reflexivity. Qed.

Lemma src_SaveRegion_ok : src_SaveRegion =
  ["if atomic.LoadInt32(&v0.useRegionStorage) > 0 { return v0.regionStorage.SaveRegion(v1) }"; "return saveRegion(v0.Base, v0.encryptionKeyManager, v1)"].
Proof. reflexivity. Qed.

Lemma src_DeleteRegion_ok : src_DeleteRegion =
  ["if atomic.LoadInt32(&v0.useRegionStorage) > 0 { return deleteRegion(v0.regionStorage, v1) }"; "return deleteRegion(v0.Base, v1)"].
Proof. reflexivity. Qed.

Lemma src_LoadRegions_ok : src_LoadRegions =
  ["if atomic.LoadInt32(&v0.useRegionStorage) > 0 { return loadRegions(v0.regionStorage, v0.encryptionKeyManager, v1) }"; "return loadRegions(v0.Base, v0.encryptionKeyManager, v1)"].
Proof. reflexivity. Qed.

Lemma src_LoadRegionsOnce_ok : src_LoadRegionsOnce =
  ["if atomic.LoadInt32(&v0.useRegionStorage) == 0 { return loadRegions(v0.Base, v0.encryptionKeyManager, v1) }"; "v0.mu.Lock()"; "defer v0.mu.Unlock()"; "if v0.regionLoaded == 0 { if v3 := loadRegions(v0.regionStorage, v0.encryptionKeyManager, v1); v3 != nil { return v3 } v0.regionLoaded = 1 }"; "return nil"].
Proof. reflexivity. Qed.

Lemma src_Flush_ok : src_Flush =
  ["if v0.regionStorage != nil { return v0.regionStorage.FlushRegion() }"; "return nil"].
Proof. reflexivity. Qed.

Lemma src_Close_ok : src_Close =
  ["if v0.regionStorage != nil { v1 := v0.regionStorage.Close() if v1 != nil { return v1 } }"; "return nil"].
Proof. reflexivity. Qed.

Lemma src_SaveStore_ok : src_SaveStore =
  ["return saveProto(v0.Base, v0.storePath(v1.GetId()), v1)"].
Proof. reflexivity. Qed.

Lemma src_DeleteStore_ok : src_DeleteStore =
  ["v2 := v1.GetId()"; "v3, v4 := v0.Load(v0.storeLeaderWeightPath(v2))"; "if v4 != nil { return v4 }"; "v5, v4 := v0.Load(v0.storeRegionWeightPath(v2))"; "if v4 != nil { return v4 }"; "v4 = v0.Remove(v0.storeLeaderWeightPath(v2))"; "if v4 == nil { v4 = v0.Remove(v0.storeRegionWeightPath(v2)) }"; "if v4 == nil { v4 = v0.Remove(v0.storePath(v2)) }"; "if v4 != nil { v0.restoreWeight(v0.storeLeaderWeightPath(v2), v3) v0.restoreWeight(v0.storeRegionWeightPath(v2), v5) }"; "return v4"].
Proof. reflexivity. Qed.

Lemma src_SaveStoreWeight_ok : src_SaveStoreWeight =
  ["v4, v5 := v0.Load(v0.storeLeaderWeightPath(v1))"; "if v5 != nil { return v5 }"; "v6, v5 := v0.Load(v0.storeRegionWeightPath(v1))"; "if v5 != nil { return v5 }"; "v7 := strconv.FormatFloat(v2, 'f', -1, 64)"; "v8 := strconv.FormatFloat(v3, 'f', -1, 64)"; "v5 = v0.Save(v0.storeLeaderWeightPath(v1), v7)"; "if v5 == nil { v5 = v0.Save(v0.storeRegionWeightPath(v1), v8) }"; "if v5 != nil { v0.restoreWeight(v0.storeLeaderWeightPath(v1), v4) v0.restoreWeight(v0.storeRegionWeightPath(v1), v6) }"; "return v5"].
Proof. reflexivity. Qed.

Lemma src_CheckAndPutLoadedRegion_ok : src_CheckAndPutLoadedRegion =
  ["v3 := v0.CheckAndPutRegion(v1)"; "if len(v3) == 1 && v3[0] == v1 { if v4 := v0.GetRegion(v1.GetID()); v4 != nil { if v5 := v2(v4.GetMeta()); v5 != nil { } return nil } }"; "v6 := v3[:0:0]"; "for _, v7 := range v3 { if v7.GetID() <= v1.GetID() { v6 = append(v6, v7) } }"; "return v6"].
Proof. reflexivity. Qed.

Lemma src_mem_LoadRange_ok : src_mem_LoadRange =
  ["v0.RLock()"; "defer v0.RUnlock()"; "v4 := make([]string, 0, v3)"; "v5 := make([]string, 0, v3)"; "v0.tree.AscendRange(memoryKVItem{v1, """"}, memoryKVItem{v2, """"}, func(v6 btree.Item) bool { v4 = append(v4, v6.(memoryKVItem).key) v5 = append(v5, v6.(memoryKVItem).value) if v3 > 0 { return len(v4) < v3 } return true })"; "return v4, v5, nil"].
Proof. reflexivity. Qed.

Lemma src_etcd_LoadRange_ok : src_etcd_LoadRange =
  ["v1 = strings.Join([]string{v0.rootPath, v1}, ""/"")"; "v2 = strings.Join([]string{v0.rootPath, v2}, ""/"")"; "v4 := clientv3.WithRange(v2)"; "v5 := clientv3.WithLimit(int64(v3))"; "v6, v7 := etcdutil.EtcdKVGet(v0.client, v1, v4, v5)"; "if v7 != nil { return nil, nil, v7 }"; "v8 := make([]string, 0, len(v6.Kvs))"; "v9 := make([]string, 0, len(v6.Kvs))"; "for _, v10 := range v6.Kvs { v8 = append(v8, strings.TrimPrefix(strings.TrimPrefix(string(v10.Key), v0.rootPath), ""/"")) v9 = append(v9, string(v10.Value)) }"; "return v8, v9, nil"].
Proof. reflexivity. Qed.

Lemma src_leveldb_LoadRange_ok : src_leveldb_LoadRange =
  ["v4 := v0.NewIterator(&util.Range{Start: []byte(v1), Limit: []byte(v2)}, nil)"; "v5 := make([]string, 0, v3)"; "v6 := make([]string, 0, v3)"; "v7 := 0"; "for v4.Next() { if v3 > 0 && v7 >= v3 { break } v5 = append(v5, string(v4.Key())) v6 = append(v6, string(v4.Value())) v7++ }"; "v4.Release()"; "return v5, v6, nil"].
Proof. reflexivity. Qed.

Lemma src_LoadClusterInfo_load_callback_ok : src_LoadClusterInfo_load_callback =
  ["func(v10 *core.RegionInfo) []*core.RegionInfo { return v0.core.CheckAndPutLoadedRegion(v10, v0.storage.SaveRegion) }"].
Proof. reflexivity. Qed.

Lemma src_StartSyncWithLeader_load_callback_ok : src_StartSyncWithLeader_load_callback =
  ["func(v4 *core.RegionInfo) []*core.RegionInfo { return v0.server.GetBasicCluster().CheckAndPutLoadedRegion(v4, v0.server.GetStorage().SaveRegion) }"].
Proof. reflexivity. Qed.
