(* C08 — the hypothesis "peer ids pairwise distinct" of the non-joint theorem, tied to the id allocator:
   if every NEW peer reaches the builder without an id (the obligation peer_ids_ok of proof/C08_Skel.v: no call site
   outside the builder invents one), every peer the plan adds carries the id b.cluster.AllocID() returned for its
   store; so distinct, fresh allocator answers give pairwise distinct ids. *)
From Coq Require Import String Sorting.Sorted.
From PDV Require Import lib.Base gen.Gen_C08 model.C08_Steps model.C08_Builder
     proof.C08_ListFacts proof.C08_PmapFacts proof.C08_SimPhases proof.C08_PrepareFacts proof.C08_JointMain proof.C08_NjMain.
Local Open Scope list_scope.
Local Open Scope Z_scope.

(* the calls hand in new peers (stores the origin has no peer on) without an id *)
Definition op_unnamed (origin : pmap) (o : bop) : Prop :=
  match o with
  | OAddPeer p => pm_get origin (pstore p) = None -> pid p = 0
  | OSetPeers ps => forall p, In p ps -> pm_get origin (pstore p) = None -> pid p = 0
  | _ => True
  end.

Definition TUnnamed (b : bstate) : Prop :=
  forall p, In p (b_target b) -> pm_get (b_origin b) (pstore p) = None -> pid p = 0.

Lemma api_op_unnamed b o b' : TUnnamed b -> op_unnamed (b_origin b) o -> api_op b o = Some b' -> TUnnamed b' /\ b_origin b' = b_origin b.
Proof.
  intros N U H. destruct o; cbn [api_op op_unnamed] in *.
  - destruct ((pstore p =? 0) || in_joint p || is_some (pm_get (b_target b) (pstore p))); [discriminate|].
    inversion H; subst b'; clear H. split; [|reflexivity]. intros x Hx. cbn in *. apply pm_set_In in Hx as [->|Hx]; [exact U|apply N; exact Hx].
  - destruct (negb (is_some (pm_get (b_target b) st)) || (b_tleader b =? st)); [discriminate|].
    inversion H; subst b'; clear H. split; [|reflexivity]. intros x Hx. cbn in *. apply N. unfold pm_del in Hx. apply filter_In in Hx. tauto.
  - destruct (pm_get (b_target b) st) as [p|] eqn:Ep; [|discriminate].
    destruct (negb (is_learner p) || memz st (b_unhealthy b)); [discriminate|].
    inversion H; subst b'; clear H. split; [|reflexivity]. intros x Hx. cbn in *. apply pm_set_In in Hx as [->|Hx]; [|apply N; exact Hx].
    cbn. apply N. apply (lk_Some _ _ _ Ep).
  - destruct (pm_get (b_target b) st) as [p|] eqn:Ep; [|discriminate].
    destruct (is_learner p); [discriminate|].
    inversion H; subst b'; clear H. split; [|reflexivity]. intros x Hx. cbn in *. apply pm_set_In in Hx as [->|Hx]; [|apply N; exact Hx].
    cbn. apply N. apply (lk_Some _ _ _ Ep).
  - destruct (pm_get (b_target b) st) as [p|]; [|discriminate].
    destruct (is_learner p || memz st (b_unhealthy b)); [discriminate|].
    inversion H; subst b'; clear H. split; [exact N|reflexivity].
  - destruct (existsb (fun p => (pstore p =? 0) || in_joint p) ps); [discriminate|].
    inversion H; subst b'; clear H. split; [|reflexivity]. intros x Hx. cbn in *. apply pm_of_list_In in Hx. apply U. exact Hx.
  - destruct (1 <? Z.of_nat (length (filter (fun e => xrole_eqb (snd e) XLeader) rs))); [discriminate|].
    destruct (Nat.eqb _ 0); [discriminate|].
    inversion H; subst b'; clear H. split; [exact N|reflexivity].
  - inversion H; subst b'; clear H. split; [exact N|reflexivity].
  - inversion H; subst b'; clear H. split; [exact N|reflexivity].
Qed.

Lemma api_ops_unnamed : forall os b b', TUnnamed b -> Forall (op_unnamed (b_origin b)) os -> api_ops b os = Some b' ->
  TUnnamed b' /\ b_origin b' = b_origin b.
Proof.
  induction os as [|o os IH]; intros b b' N U H; cbn [api_ops] in H; [inversion H; subst; auto|].
  inversion U as [|? ? U1 U2]; subst. destruct (api_op b o) as [b1|] eqn:E; [|discriminate].
  destruct (api_op_unnamed _ _ _ N U1 E) as [N1 E1]. rewrite <- E1 in U2.
  destruct (IH _ _ N1 U2 H) as [N2 E2]. split; [exact N2|congruence].
Qed.

(* every peer the plan adds carries the allocator's answer for its store *)
Theorem added_ids_are_allocated i b :
  ND (peers (i_region i)) ->
  Forall (op_unnamed (pm_of_list (peers (i_region i)))) (i_ops i) ->
  prepared i = Some b ->
  forall a, In a (b_add b) -> pid a = alloc_of (i_alloc i) (pstore a).
Proof.
  intros Hnd U Hprep a Ha. unfold prepared in Hprep.
  destruct (new_builder i) as [b0|] eqn:Enb; [|discriminate].
  destruct (api_ops b0 (i_ops i)) as [b1|] eqn:Eapi; [|discriminate].
  assert (E0 : b_origin b0 = pm_of_list (peers (i_region i)) /\ b_target b0 = b_origin b0).
  { unfold new_builder in Enb. destruct (existsb _ _); [discriminate|]. destruct (negb _); [discriminate|].
    destruct (negb (i_skip_joint_check i) && _); [discriminate|]. inversion Enb; subst b0. cbn. auto. }
  destruct E0 as [Eo Et].
  assert (N0 : TUnnamed b0).
  { intros p Hp Hn. rewrite Et in Hp. exfalso.
    assert (X : pm_get (b_origin b0) (pstore p) = Some p).
    { apply lk_In; [rewrite Eo; apply PSorted_ND, pm_of_list_sorted|exact Hp]. }
    congruence. }
  rewrite <- Eo in U.
  destruct (api_ops_unnamed _ _ _ N0 U Eapi) as [N1 E1].
  pose proof (prepare_build_spec _ _ _ Hprep) as PF. destruct PF as [_ _ _ _ _ _ _ _ _ _ _ _ _ _ _ F16 _ _ _].
  rewrite F16 in Ha.
  (* the conditional insertion fold only inserts values of f_add *)
  assert (G : forall l m, (forall x, In x m -> pid x = alloc_of (i_alloc i) (pstore x)) ->
              (forall n, In n l -> In n (b_target b1)) ->
              forall x, In x (cfold (f_add (b_origin b1) (b_allow_demote b1) (i_alloc i)) l m) -> pid x = alloc_of (i_alloc i) (pstore x)).
  { unfold cfold. induction l as [|n l IH]; intros m Hm Hl x Hx; cbn [fold_left] in Hx; [apply Hm; exact Hx|].
    apply (IH _) in Hx; [exact Hx| |intros n' Hn'; apply Hl; right; exact Hn'].
    intros y Hy. destruct (f_add (b_origin b1) (b_allow_demote b1) (i_alloc i) n) as [v|] eqn:Ef; [|apply Hm; exact Hy].
    apply pm_set_In in Hy as [->|Hy]; [|apply Hm; exact Hy].
    unfold f_add in Ef. destruct (negb (is_some (pm_get (b_origin b1) (pstore n))) || _) eqn:Ec; [|discriminate].
    inversion Ef; subst v. destruct (pm_get (b_origin b1) (pstore n)) as [o|] eqn:Eo1; cbn [is_some].
    - rewrite orb_true_r. reflexivity.
    - rewrite (N1 n (Hl n (or_introl eq_refl)) Eo1). cbn. reflexivity. }
  apply (G (b_target b1) []); [intros x []|auto|exact Ha].
Qed.

(* hence: fresh, pairwise distinct allocator answers make the ids pairwise distinct *)
Theorem alloc_gives_distinct_ids i b :
  ND (peers (i_region i)) ->
  Forall (op_unnamed (pm_of_list (peers (i_region i)))) (i_ops i) ->
  prepared i = Some b ->
  NoDup (map pid (peers (i_region i))) ->
  (forall st, ~ In (alloc_of (i_alloc i) st) (map pid (peers (i_region i)))) ->
  (forall s1 s2, In s1 (map pstore (b_add b)) -> In s2 (map pstore (b_add b)) -> s1 <> s2 ->
                 alloc_of (i_alloc i) s1 <> alloc_of (i_alloc i) s2) ->
  NoDup (map pid (peers (i_region i)) ++ map pid (b_add b)).
Proof.
  intros Hnd U Hprep Hids Hfresh Hinj.
  pose proof (added_ids_are_allocated i b Hnd U Hprep) as Hal.
  (* toAdd has one peer per store *)
  assert (Hadd_nd : ND (b_add b)).
  { unfold prepared in Hprep. destruct (new_builder i); [|discriminate]. destruct (api_ops b0 (i_ops i)); [|discriminate].
    pose proof (prepare_build_spec _ _ _ Hprep) as PF. destruct PF as [_ _ _ _ _ _ _ _ _ _ _ _ _ _ _ F16 _ _ _].
    rewrite F16. apply PSorted_ND, cfold_sorted. constructor. }
  assert (Hadd_ids : NoDup (map pid (b_add b))).
  { revert Hal Hinj Hadd_nd. generalize (b_add b) as l. induction l as [|a l IH]; intros Hal Hinj Hn; cbn [map]; [constructor|].
    unfold ND in Hn. cbn [map] in Hn. inversion Hn as [|x0 l0 Hn1 Hn2]; subst x0 l0. constructor.
    - intros C. apply in_map_iff in C as (a' & Ea & Hin').
      rewrite (Hal a (or_introl eq_refl)), (Hal a' (or_intror Hin')) in Ea.
      apply (Hinj (pstore a') (pstore a)); [right; apply in_map; exact Hin'|left; reflexivity| |exact Ea].
      intros E. apply Hn1. rewrite <- E. apply in_map. exact Hin'.
    - apply IH; [intros x Hx; apply Hal; right; exact Hx|intros s1 s2 H1 H2; apply Hinj; right; assumption|exact Hn2]. }
  clear Hadd_nd. induction (map pid (peers (i_region i))) as [|x l IH] in Hids, Hfresh |- *; cbn [app]; [exact Hadd_ids|].
  inversion Hids as [|x0 l0 Hn1 Hn2]; subst x0 l0. constructor.
  - intros C. apply in_app_or in C as [C|C]; [contradiction|].
    apply in_map_iff in C as (a & Ea & Hin). rewrite (Hal a Hin) in Ea. apply (Hfresh (pstore a)). left. symmetry. exact Ea.
  - apply IH; [exact Hn2|]. intros st C. apply (Hfresh st). right. exact C.
Qed.
