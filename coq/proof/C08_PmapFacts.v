(* C08 — facts about the builder's store-indexed maps (sorted association lists). *)
From Coq Require Import String Sorting.Sorted.
From PDV Require Import lib.Base gen.Gen_C08 model.C08_Steps model.C08_Builder proof.C08_ListFacts.
Local Open Scope list_scope.
Local Open Scope Z_scope.

Lemma pm_get_lk m st : pm_get m st = lk m st.
Proof. reflexivity. Qed.

Lemma pm_get_set m p st : pm_get (pm_set m p) st = if pstore p =? st then Some p else pm_get m st.
Proof.
  unfold pm_get. induction m as [|q r IH]; cbn [pm_set find].
  - unfold on_store. destruct (pstore p =? st); reflexivity.
  - destruct (pstore p <? pstore q) eqn:E1.
    + cbn [find]. unfold on_store at 1. destruct (pstore p =? st); reflexivity.
    + destruct (pstore p =? pstore q) eqn:E2.
      * cbn [find]. unfold on_store at 1. destruct (pstore p =? st) eqn:E3; [reflexivity|].
        apply Z.eqb_eq in E2. unfold on_store at 2. rewrite <- E2, E3. reflexivity.
      * cbn [find]. destruct (on_store st q) eqn:E4.
        -- apply on_store_true in E4. destruct (pstore p =? st) eqn:E3; [|reflexivity].
           apply Z.eqb_eq in E3. rewrite E3, E4, Z.eqb_refl in E2. discriminate.
        -- exact IH.
Qed.

Lemma pm_get_del m st s : ND m -> pm_get (pm_del m st) s = if s =? st then None else pm_get m s.
Proof.
  intros H. unfold pm_get, pm_del. change (find (on_store s) (filter (fun q => negb (on_store st q)) m)) with (lk (filter (fun q => negb (on_store st q)) m) s).
  rewrite lk_filter by exact H. fold (lk m s). destruct (lk m s) as [p|] eqn:E; [|destruct (s =? st); reflexivity].
  apply lk_Some in E as [_ E]. unfold on_store. rewrite E. rewrite (Z.eqb_sym s st). destruct (st =? s); reflexivity.
Qed.

(* sortedness *)
Definition plt (a b : peer) : Prop := pstore a < pstore b.
Definition PSorted (m : pmap) : Prop := StronglySorted plt m.

Lemma PSorted_ND m : PSorted m -> ND m.
Proof.
  unfold PSorted, ND. induction 1 as [|p r Hs IH Hall]; cbn [map]; constructor; [|exact IH].
  intros C. apply in_map_iff in C as (q & Hq & Hin). rewrite Forall_forall in Hall. specialize (Hall q Hin). unfold plt in Hall. lia.
Qed.

Lemma pm_set_In m p x : In x (pm_set m p) -> x = p \/ In x m.
Proof.
  induction m as [|q r IH]; cbn [pm_set]; intros H.
  - destruct H as [H|[]]; auto.
  - destruct (pstore p <? pstore q); [destruct H as [H|H]; auto|].
    destruct (pstore p =? pstore q); [destruct H as [H|H]; [auto|right; right; exact H]|].
    destruct H as [H|H]; [right; left; exact H|]. destruct (IH H); auto. right. right. assumption.
Qed.

Lemma pm_set_sorted m p : PSorted m -> PSorted (pm_set m p).
Proof.
  unfold PSorted. induction 1 as [|q r Hs IH Hall]; cbn [pm_set].
  - constructor; constructor.
  - destruct (pstore p <? pstore q) eqn:E1.
    + apply Z.ltb_lt in E1. constructor; [constructor; assumption|].
      constructor; [exact E1|]. rewrite Forall_forall in *. intros x Hx. specialize (Hall x Hx). unfold plt in *. lia.
    + apply Z.ltb_ge in E1. destruct (pstore p =? pstore q) eqn:E2.
      * apply Z.eqb_eq in E2. constructor; [exact Hs|]. rewrite Forall_forall in *. intros x Hx. specialize (Hall x Hx). unfold plt in *. lia.
      * apply Z.eqb_neq in E2. constructor; [exact IH|]. rewrite Forall_forall in *. intros x Hx.
        apply pm_set_In in Hx as [->|Hx]; [unfold plt; lia|apply Hall; exact Hx].
Qed.

Lemma fold_pm_set_sorted l : forall m, PSorted m -> PSorted (fold_left pm_set l m).
Proof. induction l as [|p r IH]; intros m H; cbn [fold_left]; [exact H|]. apply IH, pm_set_sorted, H. Qed.

Lemma pm_of_list_sorted l : PSorted (pm_of_list l).
Proof. apply fold_pm_set_sorted. constructor. Qed.

Lemma fold_pm_set_get l : forall m st, ND l ->
  pm_get (fold_left pm_set l m) st = match lk l st with Some p => Some p | None => pm_get m st end.
Proof.
  induction l as [|p r IH]; intros m st H; cbn [fold_left]; [reflexivity|].
  unfold ND in H. cbn [map] in H. inversion H as [|? ? Hn Hd]; subst.
  rewrite IH by exact Hd. unfold lk at 2. cbn [find]. fold (lk r st). unfold on_store at 1.
  destruct (lk r st) as [q|] eqn:E.
  - destruct (pstore p =? st) eqn:E2; [|reflexivity].
    apply Z.eqb_eq in E2. apply lk_Some in E as [E3 E4]. exfalso. apply Hn. rewrite E2, <- E4. apply in_map. exact E3.
  - rewrite pm_get_set. destruct (pstore p =? st); reflexivity.
Qed.

Lemma pm_of_list_get l st : ND l -> pm_get (pm_of_list l) st = lk l st.
Proof. intros H. unfold pm_of_list. rewrite fold_pm_set_get by exact H. destruct (lk l st); reflexivity. Qed.

(* counting is insensitive to the order *)
Lemma countb_pm_set_fresh (f : peer -> bool) m p : lk m (pstore p) = None -> countb f (pm_set m p) = countb f m + b2z (f p).
Proof.
  unfold countb. induction m as [|q r IH]; cbn [pm_set]; intros H.
  - cbn. destruct (f p); cbn; lia.
  - unfold lk in H. cbn [find] in H. destruct (on_store (pstore p) q) eqn:E; [discriminate|].
    unfold on_store in E. destruct (pstore p <? pstore q).
    + cbn [filter]. destruct (f p); cbn [length b2z]; lia.
    + rewrite (Z.eqb_sym (pstore p) (pstore q)), E. cbn [filter]. specialize (IH H).
      destruct (f q); cbn [length]; lia.
Qed.

Lemma countb_pm_of_list (f : peer -> bool) l : ND l -> countb f (pm_of_list l) = countb f l.
Proof.
  intros H. unfold pm_of_list.
  assert (G : forall l m, ND l -> (forall p, In p l -> lk m (pstore p) = None) -> countb f (fold_left pm_set l m) = countb f m + countb f l).
  { clear l H. induction l as [|p r IH]; intros m Hnd Hfresh; cbn [fold_left].
    - unfold countb. cbn [filter length]. lia.
    - unfold ND in Hnd. cbn [map] in Hnd. inversion Hnd as [|? ? Hn Hd]; subst.
      rewrite IH; [| exact Hd |].
      + rewrite countb_pm_set_fresh by (apply Hfresh; left; reflexivity).
        unfold countb at 4. cbn [filter]. destruct (f p); cbn [length b2z]; unfold countb; lia.
      + intros q Hq. rewrite <- pm_get_lk, pm_get_set. destruct (pstore p =? pstore q) eqn:E.
        * apply Z.eqb_eq in E. exfalso. apply Hn. rewrite E. apply in_map. exact Hq.
        * apply Hfresh. right. exact Hq. }
  rewrite G; [|exact H|intros; reflexivity]. unfold countb. cbn [filter length]. lia.
Qed.

(* membership in a sorted map *)
Lemma pm_In_get m p : ND m -> (In p m <-> pm_get m (pstore p) = Some p).
Proof.
  intros H. split; [apply lk_In; exact H|]. intros E. apply (lk_Some _ _ _ E).
Qed.

Lemma pairs_of_In m st id : In (st, id) (pairs_of m) <-> exists p, In p m /\ pstore p = st /\ pid p = id.
Proof.
  unfold pairs_of. rewrite in_map_iff. split.
  - intros (p & E & Hin). inversion E; subst. eauto.
  - intros (p & Hin & <- & <-). eauto.
Qed.

Lemma pairs_of_fst m : map fst (pairs_of m) = map pstore m.
Proof. unfold pairs_of. rewrite map_map. reflexivity. Qed.
