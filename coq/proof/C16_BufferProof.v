(* C16 — the ring buffer of history_buffer.go refines the log specification (aspec) of
   model/C16_Syncer.v: same observations for every operation sequence, any capacity. *)
From Coq Require Import ZifyBool ZifyNat.
From PDV Require Import lib.Base gen.Gen_C16 model.C16_Syncer.
Local Open Scope Z_scope.
Local Open Scope list_scope.

(* side conditions on the regenerated constants *)
Lemma flush_count_is_100 : Gen_C16.defaultFlushCount = 100.
Proof. reflexivity. Qed.
Lemma flush_every_pos : 0 < @flush_every.
Proof. reflexivity. Qed.
Lemma batch_size_pos : 0 < Gen_C16.maxSyncRegionBatchSize.
Proof. reflexivity. Qed.
Lemma history_size_pos : 0 < Gen_C16.defaultHistoryBufferSize.
Proof. reflexivity. Qed.

(* x mod n for 0 <= x < 2n, the only shape the buffer produces *)
Lemma mod_wrap x n : 0 <= x < 2 * n -> x mod n = if x <? n then x else x - n.
Proof.
  intros Hx. destruct (x <? n) eqn:E.
  - apply Z.mod_small. lia.
  - assert (Hn : 0 < n) by lia.
    replace x with ((x - n) + 1 * n) at 1 by lia.
    rewrite Z.mod_add by lia. apply Z.mod_small. lia.
Qed.

(* a ring position, kept as an atom for lia *)
Definition posn (hd sz k : Z) : Z := (hd + k) mod sz.

Inductive Box (P : Prop) : Prop := box : P -> Box P.
Lemma unbox P : Box P -> P. Proof. intros [H]; exact H. Qed.

Ltac ifs :=
  repeat (match goal with H : context [if ?c then _ else _] |- _ => revert H end);
  repeat (match goal with |- context [if ?c then _ else _] => destruct c eqn:? end);
  intros.

Section Refine.
  Context {A : Type}.
  Implicit Types (s : bstate A) (a : aspec A) (h : hbuf A).

  Definition zlen (a : aspec A) : Z := Z.of_nat (length (a_log a)).

  Record Rel s a : Prop := {
    r_size  : size (buf s) = a_cap a + 1;
    r_cap   : 1 <= a_cap a;
    r_head  : 0 <= head (buf s) < size (buf s);
    r_tail  : 0 <= tail (buf s) < size (buf s);
    r_index : index (buf s) = a_next a;
    r_len   : blen (buf s) = Z.min (a_cap a) (zlen a);
    r_elems : forall k, 0 <= k < blen (buf s) ->
                recs (buf s) (posn (head (buf s)) (size (buf s)) k) =
                nth_error (a_log a) (Z.to_nat (zlen a - blen (buf s) + k));
    r_flush : flushc (buf s) = a_flush a;
    r_kv    : kvv s = a_kv a
  }.

  Lemma new_size_ge2 cap : 2 <= new_size cap.
  Proof. unfold new_size. destruct (cap + 1 <? 2) eqn:E; lia. Qed.

  Lemma rel_new cap ok kv : Rel (BS (new_buf cap ok kv) kv) (AS (reload_index ok kv) [] (new_cap cap) flush_every kv).
  Proof.
    pose proof (new_size_ge2 cap) as H2.
    constructor; unfold new_cap, a_next, zlen, blen, distance_to_tail; cbn; try lia; try reflexivity.
  Qed.

  Lemma rel_init cap : Rel (binit cap) (ainit cap).
  Proof. apply (rel_new cap true None). Qed.

  (* (head + blen) mod size = tail *)
  Lemma head_plus_len h : 0 <= head h < size h -> 0 <= tail h < size h ->
    posn (head h) (size h) (blen h) = tail h.
  Proof.
    intros Hh Ht. unfold posn, blen, distance_to_tail.
    destruct (tail h <? head h) eqn:E; rewrite mod_wrap by lia.
    - destruct (head h + (tail h + size h - head h) <? size h) eqn:E2; lia.
    - destruct (head h + (tail h - head h) <? size h) eqn:E2; lia.
  Qed.

  Lemma blen_bounds h : 0 <= head h < size h -> 0 <= tail h < size h -> 0 <= blen h < size h.
  Proof. intros Hh Ht. unfold blen, distance_to_tail. destruct (tail h <? head h) eqn:E; lia. Qed.

  (* positions inside the occupied part are pairwise different and different from the tail *)
  Lemma pos_inj h k1 k2 : 0 <= head h < size h -> 0 <= k1 < size h -> 0 <= k2 < size h ->
    posn (head h) (size h) k1 = posn (head h) (size h) k2 -> k1 = k2.
  Proof.
    intros Hh H1 H2. unfold posn. rewrite !mod_wrap by lia.
    destruct (head h + k1 <? size h) eqn:E1; destruct (head h + k2 <? size h) eqn:E2; lia.
  Qed.

  Lemma nth_error_snoc_lt (l : list A) r i : (i < length l)%nat -> nth_error (l ++ [r]) i = nth_error l i.
  Proof. intros H. apply nth_error_app1. exact H. Qed.
  Lemma nth_error_snoc_eq (l : list A) r i : i = length l -> nth_error (l ++ [r]) i = Some r.
  Proof. intros ->. rewrite nth_error_app2 by lia. rewrite Nat.sub_diag. reflexivity. Qed.

  (* ---------------- Record ---------------- *)
  (* pure arithmetic of the head/tail update, kept away from the big context *)
  Lemma record_arith (hd tl sz cap n L : Z) :
    sz = cap + 1 -> 1 <= cap -> 0 <= hd < sz -> 0 <= tl < sz -> 0 <= n ->
    L = (if tl <? hd then tl + sz - hd else tl - hd) -> L = Z.min cap n ->
    forall tl1 hd1, tl1 = (tl + 1) mod sz -> hd1 = (if tl1 =? hd then (hd + 1) mod sz else hd) ->
    0 <= hd1 < sz /\ 0 <= tl1 < sz /\
    (if tl1 <? hd1 then tl1 + sz - hd1 else tl1 - hd1) = Z.min cap (n + 1) /\
    (forall k, 0 <= k < Z.min cap (n + 1) ->
       posn hd1 sz k = posn hd sz (k + (if L =? cap then 1 else 0))).
  Proof.
    intros Hsz Hcap Hh Ht Hn HL Hlen tl1 hd1 Ht1 Hh1.
    rewrite mod_wrap in Ht1 by lia. rewrite (mod_wrap (hd + 1)) in Hh1 by lia.
    assert (Hb : 0 <= hd1 < sz /\ 0 <= tl1 < sz) by (subst tl1 hd1; ifs; lia).
    split; [tauto|]. split; [tauto|]. split.
    - subst tl1 hd1. ifs; lia.
    - intros k Hk. unfold posn. rewrite !mod_wrap by (subst tl1 hd1; ifs; lia). subst tl1 hd1. ifs; lia.
  Qed.

  Lemma idx_arith (L cap n k : Z) : L = Z.min cap n -> 1 <= cap -> 0 <= n -> 0 <= k < Z.min cap (n + 1) ->
    0 <= k + (if L =? cap then 1 else 0) <= L /\
    n + 1 - Z.min cap (n + 1) + k = n - L + (k + (if L =? cap then 1 else 0)).
  Proof. intros HL Hc Hn Hk. destruct (L =? cap) eqn:E; lia. Qed.

  Lemma rel_record s a r ok : Rel s a ->
    Rel (record s r ok) (fst (arun_op a (ORecord r ok))).
  Proof.
    intros [Hsz Hcap Hh Ht Hidx Hlen Hel Hfl Hkv].
    pose proof (head_plus_len (buf s) Hh Ht) as Hhl.
    pose proof (blen_bounds (buf s) Hh Ht) as Hbl.
    assert (Hn : 0 <= zlen a) by (unfold zlen; lia).
    remember ((tail (buf s) + 1) mod size (buf s)) as tail1 eqn:Etl.
    remember (if tail1 =? head (buf s) then (head (buf s) + 1) mod size (buf s) else head (buf s)) as head1 eqn:Ehd.
    destruct (record_arith (head (buf s)) (tail (buf s)) (size (buf s)) (a_cap a) (zlen a) (blen (buf s))
                Hsz Hcap Hh Ht Hn eq_refl Hlen tail1 head1 Etl Ehd) as (Hh1b & Ht1b & Hlen1 & Hpos).
    apply box in Etl. apply box in Ehd.
    assert (Hzl : Z.of_nat (length (a_log a ++ [r])) = zlen a + 1).
    { rewrite app_length. cbn. unfold zlen. lia. }
    assert (Hel1 : forall k, 0 <= k < Z.min (a_cap a) (zlen a + 1) ->
              upd (recs (buf s)) (tail (buf s)) (Some r) (posn head1 (size (buf s)) k) =
              nth_error (a_log a ++ [r]) (Z.to_nat (zlen a + 1 - Z.min (a_cap a) (zlen a + 1) + k))).
    { intros k Hk. unfold upd. rewrite (Hpos k Hk).
      set (k' := k + (if blen (buf s) =? a_cap a then 1 else 0)).
      assert (Hk' : 0 <= k' <= blen (buf s) /\ zlen a + 1 - Z.min (a_cap a) (zlen a + 1) + k = zlen a - blen (buf s) + k').
      { unfold k'. apply idx_arith; assumption. }
      clearbody k'. destruct Hk' as [Hk1 Hk2]. rewrite Hk2.
      destruct (Z.eq_dec k' (blen (buf s))) as [Ek|Ek].
      - rewrite Ek, Hhl, Z.eqb_refl. symmetry. apply nth_error_snoc_eq. unfold zlen in *. lia.
      - assert (Hne : posn (head (buf s)) (size (buf s)) k' <> tail (buf s)).
        { rewrite <- Hhl. intros Heq. apply pos_inj in Heq; lia. }
        apply Z.eqb_neq in Hne. rewrite Hne.
        rewrite Hel by lia. apply eq_sym, nth_error_snoc_lt. unfold zlen in *. lia. }
    apply unbox in Etl. apply unbox in Ehd. unfold record, arun_op. rewrite <- Etl, <- Ehd, Hfl. clear Etl Ehd Hpos Hel.
    destruct (a_flush a - 1 <=? 0) eqn:EF; cbn [fst].
    - constructor; cbn [buf kvv size head tail index flushc recs a_cap a_log a_flush a_kv a_base];
        unfold blen, distance_to_tail, a_next, zlen;
        cbn [buf kvv size head tail index flushc recs a_cap a_log a_flush a_kv a_base];
        rewrite ?Hzl; try assumption; try reflexivity.
      + unfold a_next, zlen in *. lia.
      + intros k Hk. rewrite Hlen1 in *. apply Hel1. exact Hk.
      + unfold a_next, zlen in *. rewrite Hidx, Hkv. destruct ok; reflexivity.
    - constructor; cbn [buf kvv size head tail index flushc recs a_cap a_log a_flush a_kv a_base];
        unfold blen, distance_to_tail, a_next, zlen;
        cbn [buf kvv size head tail index flushc recs a_cap a_log a_flush a_kv a_base];
        rewrite ?Hzl; try assumption; try reflexivity.
      + unfold a_next, zlen in *. lia.
      + intros k Hk. rewrite Hlen1 in *. apply Hel1. exact Hk.
  Qed.

  (* ---------------- RecordsFrom ---------------- *)
  Fixpoint zseq (j : Z) (d : nat) : list Z := match d with O => [] | S d' => j :: zseq (j + 1) d' end.

  Lemma collect_spec h : 0 <= head h < size h -> 0 <= tail h < size h ->
    forall d j fuel, 0 <= j -> j + Z.of_nat d = blen h -> (d <= fuel)%nat ->
      collect fuel h (posn (head h) (size h) j) =
      Some (map (fun k => recs h (posn (head h) (size h) k)) (zseq j d)).
  Proof.
    intros Hh Ht. pose proof (head_plus_len h Hh Ht) as Hhl. pose proof (blen_bounds h Hh Ht) as Hbl.
    induction d as [|d IH]; intros j fuel Hj Hd Hf.
    - assert (j = blen h) by lia. subst j. rewrite Hhl.
      destruct fuel; cbn [collect]; rewrite Z.eqb_refl; reflexivity.
    - destruct fuel as [|fuel]; [lia|].
      cbn [collect zseq map].
      assert (Hne : posn (head h) (size h) j <> tail h).
      { rewrite <- Hhl. intros Heq. apply pos_inj in Heq; lia. }
      apply Z.eqb_neq in Hne. rewrite Hne.
      assert (Hnext : (posn (head h) (size h) j + 1) mod size h = posn (head h) (size h) (j + 1)).
      { unfold posn. clear Hne Hhl IH. rewrite (mod_wrap (head h + j)) by lia.
        destruct (head h + j <? size h) eqn:E1.
        - f_equal. lia.
        - rewrite !mod_wrap by lia.
          destruct (head h + j - size h + 1 <? size h) eqn:E2; destruct (head h + (j + 1) <? size h) eqn:E3; lia. }
      rewrite Hnext. rewrite (IH (j + 1) fuel) by lia. reflexivity.
  Qed.

  Lemma map_nth_skipn (l : list A) : forall d c j, 0 <= c + j -> (Z.to_nat (c + j) + d = length l)%nat ->
    map (fun k => nth_error l (Z.to_nat (c + k))) (zseq j d) = map Some (skipn (Z.to_nat (c + j)) l).
  Proof.
    induction d as [|d IH]; intros c j H0 Hd.
    - cbn [zseq map]. rewrite skipn_all2 by lia. reflexivity.
    - cbn [zseq map].
      destruct (nth_error l (Z.to_nat (c + j))) as [x|] eqn:E.
      2:{ apply nth_error_None in E. lia. }
      rewrite (IH c (j + 1)) by lia.
      replace (Z.to_nat (c + (j + 1))) with (S (Z.to_nat (c + j))) by lia.
      clear IH Hd. revert E. generalize (Z.to_nat (c + j)) as m. clear.
      intros m; revert l; induction m as [|m IHm]; intros [|y l] E; cbn in *; try discriminate.
      + inversion E; reflexivity.
      + apply IHm. exact E.
  Qed.

  Lemma first_index_rel s a : Rel s a -> first_index (buf s) = a_first a.
  Proof.
    intros [Hsz Hcap Hh Ht Hidx Hlen Hel Hfl Hkv]. unfold first_index, a_first. rewrite Hidx, Hlen.
    unfold a_next, zlen. lia.
  Qed.

  Lemma records_from_rel s a i : Rel s a -> records_from (buf s) i = Some (a_records_from a i).
  Proof.
    intros R. pose proof (first_index_rel s a R) as Hfi.
    destruct R as [Hsz Hcap Hh Ht Hidx Hlen Hel Hfl Hkv].
    pose proof (blen_bounds (buf s) Hh Ht) as Hbl.
    unfold records_from, a_records_from, next_index. rewrite Hfi, Hidx.
    destruct ((i <? a_next a) && (a_first a <=? i)) eqn:E.
    - replace ((a_first a <=? i) && (i <? a_next a)) with true by (symmetry; lia).
      assert (Hi : a_first a <= i < a_next a) by lia.
      set (j := i - a_first a).
      assert (Hj : 0 <= j < blen (buf s)).
      { unfold j, a_first, a_next in *. rewrite Hlen. unfold zlen. lia. }
      change ((head (buf s) + (i - a_first a)) mod size (buf s)) with (posn (head (buf s)) (size (buf s)) j).
      rewrite (collect_spec (buf s) Hh Ht (Z.to_nat (blen (buf s) - j)) j) by lia.
      f_equal.
      rewrite (map_ext_in _ (fun k => nth_error (a_log a) (Z.to_nat ((zlen a - blen (buf s)) + k)))).
      2:{ intros k Hk. apply Hel.
          assert (G : forall d j0 k0, In k0 (zseq j0 d) -> j0 <= k0 < j0 + Z.of_nat d).
          { clear. induction d as [|d IH]; intros j0 k0 Hin; cbn in Hin; [contradiction|].
            destruct Hin as [<-|Hin]; [lia|]. apply IH in Hin. lia. }
          apply G in Hk. lia. }
      rewrite map_nth_skipn.
      + f_equal. f_equal. unfold j, a_first, a_next in *. rewrite Hlen. unfold zlen. lia.
      + unfold zlen in *. lia.
      + unfold zlen in *. lia.
    - replace ((a_first a <=? i) && (i <? a_next a)) with false by (symmetry; lia).
      reflexivity.
  Qed.

  (* ---------------- the simulation, one operation ---------------- *)
  Lemma sim_step s a o : Rel s a ->
    Rel (fst (brun_op s o)) (fst (arun_op a o)) /\ snd (brun_op s o) = snd (arun_op a o).
  Proof.
    intros R. destruct o as [r ok|i|i rok| | |cap ok].
    - split; [apply rel_record; exact R|].
      cbn [brun_op arun_op snd]. destruct (a_flush a - 1 <=? 0); reflexivity.
    - cbn [brun_op arun_op fst snd]. rewrite (records_from_rel s a i R). split; [exact R|reflexivity].
    - cbn [brun_op arun_op fst snd]. split; [|reflexivity].
      destruct R as [Hsz Hcap Hh Ht Hidx Hlen Hel Hfl Hkv].
      constructor; unfold reset_with_index, blen, distance_to_tail, a_next, zlen; cbn; try lia; try assumption; try reflexivity.
      rewrite Hkv. reflexivity.
    - cbn [brun_op arun_op fst snd]. split; [exact R|]. unfold next_index. rewrite (r_index _ _ R). reflexivity.
    - cbn [brun_op arun_op fst snd]. split; [exact R|]. rewrite (first_index_rel _ _ R). reflexivity.
    - cbn [brun_op arun_op fst snd]. unfold restart. rewrite (r_kv _ _ R). split; [apply rel_new|reflexivity].
  Qed.

  Lemma sim_run ops : forall s a, Rel s a ->
    run brun_op s ops = run arun_op a ops /\ Rel (run_state brun_op s ops) (run_state arun_op a ops).
  Proof.
    induction ops as [|o ops IH]; intros s a R; cbn [run run_state]; [split; [reflexivity|exact R]|].
    destruct (sim_step s a o R) as [R' Ho].
    destruct (brun_op s o) as [s' b] eqn:Es. destruct (arun_op a o) as [a' b'] eqn:Ea.
    cbn [fst snd] in *. subst b'. destruct (IH s' a' R') as [Hr HR]. split; [f_equal; exact Hr|exact HR].
  Qed.

  (* ---------------- statements ---------------- *)
  Theorem ring_refines_log cap ops :
    run brun_op (binit cap) ops = run (@arun_op A) (ainit cap) ops.
  Proof. exact (proj1 (sim_run ops _ _ (rel_init cap))). Qed.

  Theorem records_from_exact_pf cap ops i :
    let s := run_state brun_op (binit cap) ops in
    let a := run_state (@arun_op A) (ainit cap) ops in
    next_index (buf s) = a_next a /\ first_index (buf s) = a_first a /\
    (a_first a <= i < a_next a ->
       records_from (buf s) i = Some (map Some (skipn (Z.to_nat (i - a_base a)) (a_log a)))) /\
    (~ (a_first a <= i < a_next a) -> records_from (buf s) i = Some []).
  Proof.
    intros s a. pose proof (proj2 (sim_run ops _ _ (rel_init cap))) as R. fold s a in R.
    split; [exact (r_index _ _ R)|]. split; [exact (first_index_rel _ _ R)|].
    rewrite (records_from_rel s a i R). unfold a_records_from. split; intros H.
    - replace ((a_first a <=? i) && (i <? a_next a)) with true by (symmetry; lia). reflexivity.
    - replace ((a_first a <=? i) && (i <? a_next a)) with false by (symmetry; lia). reflexivity.
  Qed.

  (* what the log specification itself says, independent of any ring: the window is the last
     min(cap, |log|) indexes, the answer has one entry per index from i to the newest, in order *)
  Lemma a_records_from_length a i : a_first a <= i < a_next a ->
    Z.of_nat (length (a_records_from a i)) = a_next a - i.
  Proof.
    intros H. unfold a_records_from. replace ((a_first a <=? i) && (i <? a_next a)) with true by (symmetry; lia).
    rewrite map_length, skipn_length. unfold a_first, a_next in *. lia.
  Qed.
  Lemma a_records_from_nth a i k : a_first a <= i < a_next a -> 0 <= k ->
    nth_error (a_records_from a i) (Z.to_nat k) =
    option_map Some (nth_error (a_log a) (Z.to_nat (i + k - a_base a))).
  Proof.
    intros H Hk. unfold a_records_from. replace ((a_first a <=? i) && (i <? a_next a)) with true by (symmetry; lia).
    rewrite nth_error_map. f_equal.
    assert (G : forall (l : list A) m q, nth_error (skipn m l) q = nth_error l (m + q)).
    { clear. intros l m; revert l; induction m as [|m IH]; intros [|x l] q; cbn; auto. destruct q; reflexivity. }
    rewrite G. f_equal. unfold a_first, a_next in *. lia.
  Qed.
  Lemma a_window_size a : 0 <= a_cap a -> a_next a - a_first a = Z.min (a_cap a) (zlen a).
  Proof. unfold a_first, a_next, zlen. lia. Qed.

  (* ---------------- restart lag ---------------- *)
  Definition kv0 (k : option Z) : Z := match k with Some v => v | None => 0 end.

  Fixpoint faultfree (ops : list (bop A)) : bool :=
    match ops with
    | [] => true
    | ORecord _ ok :: r => ok && faultfree r
    | ORestart _ ok :: r => ok && faultfree r
    | OReset _ ok :: r => ok && faultfree r
    | _ :: r => faultfree r
    end.
  Definition LagInv (a : aspec A) : Prop :=
    1 <= a_flush a <= flush_every /\ a_next a = kv0 (a_kv a) + (flush_every - a_flush a).

  Lemma lag_init cap : LagInv (ainit cap).
  Proof. unfold LagInv, ainit, a_next, flush_every; cbn. rewrite flush_count_is_100. lia. Qed.

  Lemma lag_step a o : LagInv a -> faultfree [o] = true -> LagInv (fst (arun_op a o)).
  Proof.
    intros [Hf Hn] Hff. pose proof flush_every_pos as Hp.
    destruct o as [r ok|i|i ok| | |cap ok]; cbn [arun_op fst]; try (split; assumption).
    - cbn in Hff. rewrite andb_true_r in Hff. subst ok.
      destruct (a_flush a - 1 <=? 0) eqn:E; unfold LagInv, a_next in *; cbn [fst a_flush a_kv a_base a_log kv0];
        rewrite ?app_length; cbn [length]; lia.
    - cbn in Hff. rewrite andb_true_r in Hff. subst ok.
      unfold LagInv, a_next; cbn [fst a_flush a_kv a_base a_log length kv0]. lia.
    - cbn in Hff. rewrite andb_true_r in Hff. subst ok.
      unfold LagInv, a_next, reload_index; cbn [fst a_flush a_kv a_base a_log length]. destruct (a_kv a); cbn [kv0]; lia.
  Qed.

  Lemma lag_run ops : forall a, LagInv a -> faultfree ops = true -> LagInv (run_state arun_op a ops).
  Proof.
    induction ops as [|o ops IH]; intros a I Hff; cbn [run_state]; [exact I|].
    apply IH.
    - apply lag_step; [exact I|].
      destruct o; cbn in *; try reflexivity; apply andb_true_iff in Hff as [-> _]; reflexivity.
    - destruct o; cbn in Hff; try exact Hff; apply andb_true_iff in Hff as [_ H]; exact H.
  Qed.

  (* the next index after a restart is above the old next index minus the flush interval, for every fault-free
     history (ResetWithIndex persists the index it sets) *)
  Theorem restart_index_lag_pf cap ops cap' :
    faultfree ops = true ->
    let s := run_state brun_op (binit cap) ops in
    next_index (buf (restart s cap' true)) > next_index (buf s) - Gen_C16.defaultFlushCount.
  Proof.
    intros Hff s. pose proof (proj2 (sim_run ops _ _ (rel_init cap))) as R. fold s in R.
    pose proof (lag_run ops _ (lag_init cap) Hff) as [Hf Hn].
    unfold next_index. rewrite (r_index _ _ R), Hn. unfold restart; cbn [buf new_buf index].
    rewrite (r_kv _ _ R). unfold reload_index, flush_every, kv0 in *.
    destruct (a_kv (run_state arun_op (ainit cap) ops)); lia.
  Qed.
  Theorem restart_index_lag_100 cap ops cap' :
    faultfree ops = true ->
    let s := run_state brun_op (binit cap) ops in
    next_index (buf (restart s cap' true)) >= next_index (buf s) - 100.
  Proof.
    intros Hf s. pose proof (restart_index_lag_pf cap ops cap' Hf) as H. fold s in H.
    rewrite flush_count_is_100 in H. apply Z.le_ge. apply Z.lt_le_incl. apply Z.gt_lt. exact H.
  Qed.
  (* ---- the exact bound when the storage write of a flush fails: 100 more per failed flush ---- *)
  (* resets persist and restarts load; the save a Record may trigger is arbitrary *)
  Fixpoint ctl_ok (ops : list (bop A)) : bool :=
    match ops with
    | [] => true
    | OReset _ ok :: r => ok && ctl_ok r
    | ORestart _ ok :: r => ok && ctl_ok r
    | _ :: r => ctl_ok r
    end.

  Definition gstep (a : aspec A) (g : Z) (o : bop A) : Z :=
    match o with
    | ORecord _ ok => if a_flush a - 1 <=? 0 then (if ok then 0 else g + 1) else g
    | OReset _ _ | ORestart _ _ => 0
    | _ => g
    end.
  (* the number of flushes whose storage write failed since the last successful persist *)
  Fixpoint failed_flushes (a : aspec A) (g : Z) (ops : list (bop A)) : Z :=
    match ops with [] => g | o :: r => failed_flushes (fst (arun_op a o)) (gstep a g o) r end.

  Definition LagInvG (a : aspec A) (g : Z) : Prop :=
    1 <= a_flush a <= flush_every /\ 0 <= g /\
    a_next a = kv0 (a_kv a) + (flush_every - a_flush a) + flush_every * g.

  Lemma lagg_step a g o : LagInvG a g -> ctl_ok [o] = true -> LagInvG (fst (arun_op a o)) (gstep a g o).
  Proof.
    intros (Hf & Hg & Hn) Hc. pose proof flush_every_pos as Hp.
    destruct o as [r ok|i|i ok| | |cap ok]; cbn [arun_op fst gstep]; try exact (conj Hf (conj Hg Hn)).
    - destruct (a_flush a - 1 <=? 0) eqn:E; destruct ok; unfold LagInvG, a_next in *;
        cbn [fst a_flush a_kv a_base a_log kv0]; rewrite ?app_length; cbn [length]; nia.
    - destruct ok; [|discriminate Hc].
      unfold LagInvG, a_next; cbn [fst a_flush a_kv a_base a_log length kv0]. lia.
    - destruct ok; [|discriminate Hc].
      unfold LagInvG, a_next, reload_index; cbn [fst a_flush a_kv a_base a_log length]. destruct (a_kv a); cbn [kv0]; lia.
  Qed.

  Lemma lagg_run ops : forall a g, LagInvG a g -> ctl_ok ops = true ->
    LagInvG (run_state arun_op a ops) (failed_flushes a g ops).
  Proof.
    induction ops as [|o ops IH]; intros a g I Hc; cbn [run_state failed_flushes]; [exact I|].
    apply IH.
    - apply lagg_step; [exact I|]. destruct o; cbn in *; try reflexivity; apply andb_true_iff in Hc as [-> _]; reflexivity.
    - destruct o; cbn in Hc; try exact Hc; apply andb_true_iff in Hc as [_ H]; exact H.
  Qed.

  Theorem restart_index_lag_faulty_pf cap ops cap' :
    ctl_ok ops = true ->
    let s := run_state brun_op (binit cap) ops in
    let g := failed_flushes (ainit cap) 0 ops in
    0 <= g /\ next_index (buf (restart s cap' true)) > next_index (buf s) - 100 * (1 + g).
  Proof.
    intros Hc s g. pose proof (proj2 (sim_run ops _ _ (rel_init cap))) as R. fold s in R.
    assert (I0 : LagInvG (ainit cap) 0).
    { unfold LagInvG, ainit, a_next, flush_every; cbn. rewrite flush_count_is_100. lia. }
    pose proof (lagg_run ops _ 0 I0 Hc) as (Hf & Hg & Hn). fold g in Hg, Hn.
    split; [exact Hg|].
    unfold next_index. rewrite (r_index _ _ R), Hn. unfold restart; cbn [buf new_buf index].
    rewrite (r_kv _ _ R). unfold reload_index, flush_every, kv0 in *. rewrite flush_count_is_100 in *.
    destruct (a_kv (run_state arun_op (ainit cap) ops)); lia.
  Qed.
End Refine.
