(* C16 — the ring buffer of history_buffer.go refines the log specification (aspec) of
   model/C16_Syncer.v: same observations for every operation sequence, any capacity. *)
From Coq Require Import ZifyBool ZifyNat.
From PDV Require Import lib.Base gen.Gen_C16 model.C16_Syncer.
Local Open Scope Z_scope.
Local Open Scope list_scope.

(* side conditions on the regenerated constants *)
Lemma flush_count_is_100 : Gen_C16.defaultFlushCount = 100.
Proof. reflexivity. Qed.
Lemma flush_every_pos : 0 < @flush_every.
Proof. reflexivity. Qed.
Lemma batch_size_pos : 0 < Gen_C16.maxSyncRegionBatchSize.
Proof. reflexivity. Qed.
Lemma history_size_pos : 0 < Gen_C16.defaultHistoryBufferSize.
Proof. reflexivity. Qed.

(* x mod n for 0 <= x < 2n, the only shape the buffer produces *)
Lemma mod_wrap x n : 0 <= x < 2 * n -> x mod n = if x <? n then x else x - n.
Proof.
  intros Hx. destruct (x <? n) eqn:E.
  - apply Z.mod_small. lia.
  - assert (Hn : 0 < n) by lia.
    replace x with ((x - n) + 1 * n) at 1 by lia.
    rewrite Z.mod_add by lia. apply Z.mod_small. lia.
Qed.

Ltac ifs := repeat (match goal with
  | |- context [if ?c then _ else _] => destruct c eqn:?
  | H : context [if ?c then _ else _] |- _ => destruct c eqn:?
  end).

Section Refine.
  Context {A : Type}.
  Implicit Types (s : bstate A) (a : aspec A) (h : hbuf A).

  Definition zlen (a : aspec A) : Z := Z.of_nat (length (a_log a)).

  Record Rel s a : Prop := {
    r_size  : size (buf s) = a_cap a + 1;
    r_cap   : 1 <= a_cap a;
    r_head  : 0 <= head (buf s) < size (buf s);
    r_tail  : 0 <= tail (buf s) < size (buf s);
    r_index : index (buf s) = a_next a;
    r_len   : blen (buf s) = Z.min (a_cap a) (zlen a);
    r_elems : forall k, 0 <= k < blen (buf s) ->
                recs (buf s) ((head (buf s) + k) mod size (buf s)) =
                nth_error (a_log a) (Z.to_nat (zlen a - blen (buf s) + k));
    r_flush : flushc (buf s) = a_flush a;
    r_kv    : kvv s = a_kv a
  }.

  Lemma new_size_ge2 cap : 2 <= new_size cap.
  Proof. unfold new_size. destruct (cap + 1 <? 2) eqn:E; lia. Qed.

  Lemma rel_new cap ok kv : Rel (BS (new_buf cap ok kv) kv) (AS (reload_index ok kv) [] (new_cap cap) flush_every kv).
  Proof.
    pose proof (new_size_ge2 cap) as H2.
    constructor; unfold new_cap, a_next, zlen, blen, distance_to_tail; cbn; try lia; try reflexivity.
  Qed.

  Lemma rel_init cap : Rel (binit cap) (ainit cap).
  Proof. apply (rel_new cap true None). Qed.

  (* (head + blen) mod size = tail *)
  Lemma head_plus_len h : 0 <= head h < size h -> 0 <= tail h < size h ->
    (head h + blen h) mod size h = tail h.
  Proof.
    intros Hh Ht. unfold blen, distance_to_tail.
    destruct (tail h <? head h) eqn:E; rewrite mod_wrap by lia.
    - destruct (head h + (tail h + size h - head h) <? size h) eqn:E2; lia.
    - destruct (head h + (tail h - head h) <? size h) eqn:E2; lia.
  Qed.

  Lemma blen_bounds h : 0 <= head h < size h -> 0 <= tail h < size h -> 0 <= blen h < size h.
  Proof. intros Hh Ht. unfold blen, distance_to_tail. destruct (tail h <? head h) eqn:E; lia. Qed.

  (* positions inside the occupied part are pairwise different and different from the tail *)
  Lemma pos_inj h k1 k2 : 0 <= head h < size h -> 0 <= k1 < size h -> 0 <= k2 < size h ->
    (head h + k1) mod size h = (head h + k2) mod size h -> k1 = k2.
  Proof.
    intros Hh H1 H2. rewrite !mod_wrap by lia.
    destruct (head h + k1 <? size h) eqn:E1; destruct (head h + k2 <? size h) eqn:E2; lia.
  Qed.

  Lemma nth_error_snoc_lt (l : list A) r i : (i < length l)%nat -> nth_error (l ++ [r]) i = nth_error l i.
  Proof. intros H. apply nth_error_app1. exact H. Qed.
  Lemma nth_error_snoc_eq (l : list A) r i : i = length l -> nth_error (l ++ [r]) i = Some r.
  Proof. intros ->. rewrite nth_error_app2 by lia. rewrite Nat.sub_diag. reflexivity. Qed.

  (* ---------------- Record ---------------- *)
  Lemma rel_record s a r ok : Rel s a ->
    Rel (record s r ok) (fst (arun_op a (ORecord r ok))).
  Proof.
    intros [Hsz Hcap Hh Ht Hidx Hlen Hel Hfl Hkv].
    pose proof (head_plus_len (buf s) Hh Ht) as Hhl.
    pose proof (blen_bounds (buf s) Hh Ht) as Hbl.
    set (h := buf s) in *. set (sz := size h) in *. set (L := blen h) in *.
    set (n := zlen a) in *.
    assert (Hn : 0 <= n) by (unfold n, zlen; lia).
    (* the new head / tail / length, independently of the flush branch *)
    set (tail1 := (tail h + 1) mod sz).
    set (head1 := if tail1 =? head h then (head h + 1) mod sz else head h).
    assert (Htail1 : tail1 = if tail h + 1 <? sz then tail h + 1 else 0).
    { unfold tail1. rewrite mod_wrap by lia. destruct (tail h + 1 <? sz) eqn:E; lia. }
    assert (HL : L = if tail h <? head h then tail h + sz - head h else tail h - head h) by reflexivity.
    assert (Hfull : tail1 = head h <-> L = a_cap a).
    { rewrite Htail1, HL. destruct (tail h + 1 <? sz) eqn:E1; destruct (tail h <? head h) eqn:E2; lia. }
    assert (Hhead1 : head1 = if L =? a_cap a then (if head h + 1 <? sz then head h + 1 else 0) else head h).
    { unfold head1. destruct (tail1 =? head h) eqn:E.
      - apply Z.eqb_eq in E. apply Hfull in E. rewrite (proj2 (Z.eqb_eq _ _) E).
        rewrite mod_wrap by lia. destruct (head h + 1 <? sz) eqn:E4; lia.
      - apply Z.eqb_neq in E. destruct (L =? a_cap a) eqn:E2; [|reflexivity].
        apply Z.eqb_eq in E2. apply Hfull in E2. contradiction. }
    assert (Hlen1 : (if tail1 <? head1 then tail1 + sz - head1 else tail1 - head1) = Z.min (a_cap a) (n + 1)).
    { rewrite Hhead1, Htail1. clear Hhead1 Htail1 Hfull Hel. ifs; lia. }
    assert (Hel1 : forall k, 0 <= k < Z.min (a_cap a) (n + 1) ->
              upd (recs h) (tail h) (Some r) ((head1 + k) mod sz) =
              nth_error (a_log a ++ [r]) (Z.to_nat (n + 1 - Z.min (a_cap a) (n + 1) + k))).
    { intros k Hk. unfold upd.
      destruct (Z.eq_dec L (a_cap a)) as [EL|EL].
      - (* full: the oldest record is dropped *)
        assert (Hh1 : head1 = if head h + 1 <? sz then head h + 1 else 0).
        { rewrite Hhead1. replace (L =? a_cap a) with true by lia. reflexivity. }
        assert (Hpos : (head1 + k) mod sz = (head h + (k + 1)) mod sz).
        { rewrite Hh1. rewrite !mod_wrap by (ifs; lia). ifs; lia. }
        rewrite Hpos.
        destruct (Z.eq_dec (k + 1) L) as [Ek|Ek].
        + rewrite Ek, Hhl, Z.eqb_refl. symmetry. apply nth_error_snoc_eq. unfold n, zlen in *. lia.
        + assert (Hne : (head h + (k + 1)) mod sz <> tail h).
          { rewrite <- Hhl. intros Heq. apply pos_inj in Heq; lia. }
          apply Z.eqb_neq in Hne. rewrite Hne.
          rewrite Hel by lia. rewrite nth_error_snoc_lt by (unfold n, zlen in *; lia).
          f_equal. lia.
      - (* room left: nothing is dropped *)
        assert (Hh1 : head1 = head h).
        { rewrite Hhead1. replace (L =? a_cap a) with false by lia. reflexivity. }
        rewrite Hh1.
        destruct (Z.eq_dec k L) as [Ek|Ek].
        + rewrite Ek, Hhl, Z.eqb_refl. symmetry. apply nth_error_snoc_eq. unfold n, zlen in *. lia.
        + assert (Hne : (head h + k) mod sz <> tail h).
          { rewrite <- Hhl. intros Heq. apply pos_inj in Heq; lia. }
          apply Z.eqb_neq in Hne. rewrite Hne.
          rewrite Hel by lia. rewrite nth_error_snoc_lt by (unfold n, zlen in *; lia).
          f_equal. lia. }
    assert (Hh1b : 0 <= head1 < sz).
    { rewrite Hhead1. destruct (L =? a_cap a) eqn:E0; destruct (head h + 1 <? sz) eqn:E; lia. }
    assert (Ht1b : 0 <= tail1 < sz).
    { rewrite Htail1. destruct (tail h + 1 <? sz) eqn:E; lia. }
    assert (Hzl : Z.of_nat (length (a_log a ++ [r])) = n + 1).
    { rewrite app_length. cbn. unfold n, zlen. lia. }
    unfold record, arun_op. fold h. fold sz. fold tail1. fold head1.
    rewrite Hfl.
    destruct (a_flush a - 1 <=? 0) eqn:EF; cbn [fst].
    - constructor; cbn [buf kvv size head tail index flushc recs a_cap a_log a_flush a_kv a_base];
        unfold blen, distance_to_tail, a_next, zlen;
        cbn [buf kvv size head tail index flushc recs a_cap a_log a_flush a_kv a_base];
        fold sz; rewrite ?Hzl; try assumption; try reflexivity.
      + unfold a_next in Hidx. fold h in Hidx. fold n in Hidx. unfold zlen in *. lia.
      + intros k Hk. rewrite Hlen1 in *. apply Hel1. exact Hk.
      + unfold a_next in Hidx. fold h in Hidx. rewrite Hidx, Hkv. fold n. unfold zlen in *.
        destruct ok; reflexivity.
    - constructor; cbn [buf kvv size head tail index flushc recs a_cap a_log a_flush a_kv a_base];
        unfold blen, distance_to_tail, a_next, zlen;
        cbn [buf kvv size head tail index flushc recs a_cap a_log a_flush a_kv a_base];
        fold sz; rewrite ?Hzl; try assumption; try reflexivity.
      + unfold a_next in Hidx. fold h in Hidx. fold n in Hidx. unfold zlen in *. lia.
      + intros k Hk. rewrite Hlen1 in *. apply Hel1. exact Hk.
  Qed.

  (* ---------------- RecordsFrom ---------------- *)
  Fixpoint zseq (j : Z) (d : nat) : list Z := match d with O => [] | S d' => j :: zseq (j + 1) d' end.

  Lemma collect_spec h : 0 <= head h < size h -> 0 <= tail h < size h ->
    forall d j fuel, 0 <= j -> j + Z.of_nat d = blen h -> (d <= fuel)%nat ->
      collect fuel h ((head h + j) mod size h) =
      Some (map (fun k => recs h ((head h + k) mod size h)) (zseq j d)).
  Proof.
    intros Hh Ht. pose proof (head_plus_len h Hh Ht) as Hhl. pose proof (blen_bounds h Hh Ht) as Hbl.
    induction d as [|d IH]; intros j fuel Hj Hd Hf.
    - assert (j = blen h) by lia. subst j. rewrite Hhl.
      destruct fuel; cbn [collect]; rewrite Z.eqb_refl; reflexivity.
    - destruct fuel as [|fuel]; [lia|].
      cbn [collect zseq map].
      assert (Hne : (head h + j) mod size h <> tail h).
      { rewrite <- Hhl. intros Heq. apply pos_inj in Heq; lia. }
      apply Z.eqb_neq in Hne. rewrite Hne.
      assert (Hnext : ((head h + j) mod size h + 1) mod size h = (head h + (j + 1)) mod size h).
      { rewrite (mod_wrap (head h + j)) by lia.
        destruct (head h + j <? size h) eqn:E1.
        - f_equal. lia.
        - rewrite !mod_wrap by lia.
          destruct (head h + j - size h + 1 <? size h) eqn:E2; destruct (head h + (j + 1) <? size h) eqn:E3; lia. }
      rewrite Hnext. rewrite (IH (j + 1) fuel) by lia. reflexivity.
  Qed.

  Lemma map_nth_skipn (l : list A) : forall d c j, 0 <= c + j -> Z.to_nat (c + j) + d = length l ->
    map (fun k => nth_error l (Z.to_nat (c + k))) (zseq j d) = map Some (skipn (Z.to_nat (c + j)) l).
  Proof.
    induction d as [|d IH]; intros c j H0 Hd.
    - cbn [zseq map]. rewrite skipn_all2 by lia. reflexivity.
    - cbn [zseq map].
      destruct (nth_error l (Z.to_nat (c + j))) as [x|] eqn:E.
      2:{ apply nth_error_None in E. lia. }
      rewrite (IH c (j + 1)) by lia.
      replace (Z.to_nat (c + (j + 1))) with (S (Z.to_nat (c + j))) by lia.
      clear IH Hd. revert E. generalize (Z.to_nat (c + j)) as m. clear.
      intros m; revert l; induction m as [|m IHm]; intros [|y l] E; cbn in *; try discriminate.
      + inversion E; reflexivity.
      + apply IHm. exact E.
  Qed.

  Lemma first_index_rel s a : Rel s a -> first_index (buf s) = a_first a.
  Proof.
    intros [Hsz Hcap Hh Ht Hidx Hlen Hel Hfl Hkv]. unfold first_index, a_first. rewrite Hidx, Hlen.
    unfold a_next, zlen. lia.
  Qed.

  Lemma records_from_rel s a i : Rel s a -> records_from (buf s) i = Some (a_records_from a i).
  Proof.
    intros R. pose proof (first_index_rel s a R) as Hfi.
    destruct R as [Hsz Hcap Hh Ht Hidx Hlen Hel Hfl Hkv].
    pose proof (blen_bounds (buf s) Hh Ht) as Hbl.
    unfold records_from, a_records_from, next_index. rewrite Hfi, Hidx.
    destruct ((i <? a_next a) && (a_first a <=? i)) eqn:E.
    - replace ((a_first a <=? i) && (i <? a_next a)) with true by (symmetry; lia).
      assert (Hi : a_first a <= i < a_next a) by lia.
      set (j := i - a_first a).
      assert (Hj : 0 <= j < blen (buf s)).
      { unfold j, a_first, a_next in *. rewrite Hlen. unfold zlen. lia. }
      rewrite (collect_spec (buf s) Hh Ht (Z.to_nat (blen (buf s) - j)) j) by lia.
      f_equal.
      rewrite (map_ext_in _ (fun k => nth_error (a_log a) (Z.to_nat ((zlen a - blen (buf s)) + k)))).
      2:{ intros k Hk. apply Hel.
          assert (G : forall d j0 k0, In k0 (zseq j0 d) -> j0 <= k0 < j0 + Z.of_nat d).
          { clear. induction d as [|d IH]; intros j0 k0 Hin; cbn in Hin; [contradiction|].
            destruct Hin as [<-|Hin]; [lia|]. apply IH in Hin. lia. }
          apply G in Hk. lia. }
      rewrite map_nth_skipn.
      + f_equal. f_equal. unfold j, a_first, a_next in *. rewrite Hlen. unfold zlen. lia.
      + unfold zlen. lia.
      + unfold zlen in *. lia.
    - replace ((a_first a <=? i) && (i <? a_next a)) with false by (symmetry; lia).
      reflexivity.
  Qed.

  (* ---------------- the simulation, one operation ---------------- *)
  Lemma sim_step s a o : Rel s a ->
    Rel (fst (brun_op s o)) (fst (arun_op a o)) /\ snd (brun_op s o) = snd (arun_op a o).
  Proof.
    intros R. destruct o as [r ok|i|i| | |cap ok].
    - split; [apply rel_record; exact R|].
      cbn [brun_op arun_op snd]. destruct (a_flush a - 1 <=? 0); reflexivity.
    - cbn [brun_op arun_op fst snd]. rewrite (records_from_rel s a i R). split; [exact R|reflexivity].
    - cbn [brun_op arun_op fst snd]. split; [|reflexivity].
      destruct R as [Hsz Hcap Hh Ht Hidx Hlen Hel Hfl Hkv].
      constructor; unfold reset_with_index, blen, distance_to_tail, a_next, zlen; cbn; try lia; try assumption; try reflexivity.
    - cbn [brun_op arun_op fst snd]. split; [exact R|]. unfold next_index. rewrite (r_index _ _ R). reflexivity.
    - cbn [brun_op arun_op fst snd]. split; [exact R|]. rewrite (first_index_rel _ _ R). reflexivity.
    - cbn [brun_op arun_op fst snd]. unfold restart. rewrite (r_kv _ _ R). split; [apply rel_new|reflexivity].
  Qed.

  Lemma sim_run ops : forall s a, Rel s a ->
    run brun_op s ops = run arun_op a ops /\ Rel (run_state brun_op s ops) (run_state arun_op a ops).
  Proof.
    induction ops as [|o ops IH]; intros s a R; cbn [run run_state]; [split; [reflexivity|exact R]|].
    destruct (sim_step s a o R) as [R' Ho].
    destruct (brun_op s o) as [s' b] eqn:Es. destruct (arun_op a o) as [a' b'] eqn:Ea.
    cbn [fst snd] in *. subst b'. destruct (IH s' a' R') as [Hr HR]. split; [f_equal; exact Hr|exact HR].
  Qed.

  (* ---------------- statements ---------------- *)
  Theorem ring_refines_log cap ops :
    run brun_op (binit cap) ops = run (@arun_op A) (ainit cap) ops.
  Proof. exact (proj1 (sim_run ops _ _ (rel_init cap))). Qed.

  Theorem records_from_exact_pf cap ops i :
    let s := run_state brun_op (binit cap) ops in
    let a := run_state (@arun_op A) (ainit cap) ops in
    next_index (buf s) = a_next a /\ first_index (buf s) = a_first a /\
    (a_first a <= i < a_next a ->
       records_from (buf s) i = Some (map Some (skipn (Z.to_nat (i - a_base a)) (a_log a)))) /\
    (~ (a_first a <= i < a_next a) -> records_from (buf s) i = Some []).
  Proof.
    intros s a. pose proof (proj2 (sim_run ops _ _ (rel_init cap))) as R. fold s a in R.
    split; [exact (r_index _ _ R)|]. split; [exact (first_index_rel _ _ R)|].
    rewrite (records_from_rel s a i R). unfold a_records_from. split; intros H.
    - replace ((a_first a <=? i) && (i <? a_next a)) with true by (symmetry; lia). reflexivity.
    - replace ((a_first a <=? i) && (i <? a_next a)) with false by (symmetry; lia). reflexivity.
  Qed.

  (* what the log specification itself says, independent of any ring: the window is the last
     min(cap, |log|) indexes, the answer has one entry per index from i to the newest, in order *)
  Lemma a_records_from_length a i : a_first a <= i < a_next a ->
    Z.of_nat (length (a_records_from a i)) = a_next a - i.
  Proof.
    intros H. unfold a_records_from. replace ((a_first a <=? i) && (i <? a_next a)) with true by (symmetry; lia).
    rewrite map_length, skipn_length. unfold a_first, a_next in *. lia.
  Qed.
  Lemma a_records_from_nth a i k : a_first a <= i < a_next a -> 0 <= k ->
    nth_error (a_records_from a i) (Z.to_nat k) =
    option_map Some (nth_error (a_log a) (Z.to_nat (i + k - a_base a))).
  Proof.
    intros H Hk. unfold a_records_from. replace ((a_first a <=? i) && (i <? a_next a)) with true by (symmetry; lia).
    rewrite nth_error_map. f_equal.
    assert (G : forall (l : list A) m q, nth_error (skipn m l) q = nth_error l (m + q)).
    { clear. intros l m; revert l; induction m as [|m IH]; intros [|x l] q; cbn; auto. destruct q; reflexivity. }
    rewrite G. f_equal. unfold a_first, a_next in *. lia.
  Qed.
  Lemma a_window_size a : 0 <= a_cap a -> a_next a - a_first a = Z.min (a_cap a) (zlen a).
  Proof. unfold a_first, a_next, zlen. lia. Qed.

  (* ---------------- restart lag ---------------- *)
  Definition kv0 (k : option Z) : Z := match k with Some v => v | None => 0 end.

  Fixpoint faultfree (ops : list (bop A)) : bool :=
    match ops with
    | [] => true
    | ORecord _ ok :: r => ok && faultfree r
    | ORestart _ ok :: r => ok && faultfree r
    | _ :: r => faultfree r
    end.
  Fixpoint noreset (ops : list (bop A)) : bool :=
    match ops with [] => true | OReset _ :: _ => false | _ :: r => noreset r end.

  Definition LagInv (a : aspec A) : Prop :=
    1 <= a_flush a <= flush_every /\ a_next a = kv0 (a_kv a) + (flush_every - a_flush a).

  Lemma lag_init cap : LagInv (ainit cap).
  Proof. unfold LagInv, ainit, a_next, flush_every; cbn. rewrite flush_count_is_100. lia. Qed.

  Lemma lag_step a o : LagInv a -> faultfree [o] = true -> noreset [o] = true -> LagInv (fst (arun_op a o)).
  Proof.
    intros [Hf Hn] Hff Hnr. pose proof flush_every_pos as Hp.
    destruct o as [r ok|i|i| | |cap ok]; cbn [arun_op fst]; try (split; assumption); try discriminate.
    - cbn in Hff. rewrite andb_true_r in Hff. subst ok.
      destruct (a_flush a - 1 <=? 0) eqn:E; unfold LagInv, a_next in *; cbn [a_flush a_kv a_base a_log kv0];
        rewrite app_length; cbn [length]; lia.
    - cbn in Hff. rewrite andb_true_r in Hff. subst ok.
      unfold LagInv, a_next, reload_index; cbn [a_flush a_kv a_base a_log length]. destruct (a_kv a); cbn [kv0]; lia.
  Qed.

  Lemma lag_run ops : forall a, LagInv a -> faultfree ops = true -> noreset ops = true ->
    LagInv (run_state arun_op a ops).
  Proof.
    induction ops as [|o ops IH]; intros a I Hff Hnr; cbn [run_state]; [exact I|].
    apply IH.
    - apply lag_step; [exact I| |].
      + destruct o; cbn in *; try reflexivity; apply andb_true_iff in Hff as [-> _]; reflexivity.
      + destruct o; cbn in *; try reflexivity; discriminate.
    - destruct o; cbn in Hff; try exact Hff; apply andb_true_iff in Hff as [_ H]; exact H.
    - destruct o; cbn in Hnr; try exact Hnr; discriminate.
  Qed.

  Theorem restart_index_lag_pf cap ops cap' :
    faultfree ops = true -> noreset ops = true ->
    let s := run_state brun_op (binit cap) ops in
    next_index (buf (restart s cap' true)) > next_index (buf s) - Gen_C16.defaultFlushCount.
  Proof.
    intros Hff Hnr s. pose proof (proj2 (sim_run ops _ _ (rel_init cap))) as R. fold s in R.
    pose proof (lag_run ops _ (lag_init cap) Hff Hnr) as [Hf Hn].
    unfold next_index. rewrite (r_index _ _ R), Hn. unfold restart; cbn [buf new_buf index].
    rewrite (r_kv _ _ R). unfold reload_index, flush_every, kv0 in *.
    destruct (a_kv (run_state arun_op (ainit cap) ops)); lia.
  Qed.
End Refine.
