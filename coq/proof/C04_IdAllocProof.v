From PDV Require Import lib.Base gen.Gen_C04 model.C04_IdAlloc.
Local Open Scope Z_scope.

(* side condition on the constant the translator regenerates from server/id/id.go *)
Lemma step_pos : 0 < step_sz.
Proof. reflexivity. Qed.

Fixpoint decr_per_inst (l : list issue) : Prop :=
  match l with
  | [] => True
  | u :: r => (forall v, In v r -> by_inst v = by_inst u -> id_of v < id_of u) /\ decr_per_inst r
  end.

Record Inv (s : state) : Prop := {
  inv_base   : forall i x, insts s i = Some x -> 0 <= base x <= endv x /\ endv x <= stored s;
  inv_disj   : forall i j x y, i <> j -> insts s i = Some x -> insts s j = Some y ->
                 endv x <= base y \/ endv y <= base x;
  inv_issued : forall u, In u (issued s) -> forall i x, insts s i = Some x ->
                 id_of u <= base x \/ endv x < id_of u;
  inv_own    : forall u, In u (issued s) -> forall x, insts s (by_inst u) = Some x -> id_of u <= base x;
  inv_nodup  : NoDup (map id_of (issued s));
  inv_le     : forall u, In u (issued s) -> id_of u <= stored_then u /\ id_of u <= stored s /\ 0 < id_of u;
  inv_sorted : decr_per_inst (issued s);
  inv_issuer : forall u, In u (issued s) -> (by_inst u < nexti s)%nat;
  inv_fresh  : forall i, (nexti s <= i)%nat -> insts s i = None;
  inv_snap   : 0 <= stored s
}.

Lemma inv_init : Inv init.
Proof.
  constructor; unfold stored; cbn; intros; try discriminate; try contradiction; try constructor; try lia; auto.
Qed.

Lemma optZ_eqb_eq a b : optZ_eqb a b = true -> a = b.
Proof.
  destruct a, b; cbn; try discriminate; auto. intros H; apply Z.eqb_eq in H; congruence.
Qed.

Ltac eqb_cases :=
  repeat match goal with
  | H : context [Nat.eqb ?a ?b] |- _ => destruct (Nat.eqb_spec a b); subst
  | |- context [Nat.eqb ?a ?b] => destruct (Nat.eqb_spec a b); subst
  end.

Ltac inj_some :=
  repeat match goal with
  | H : Some _ = Some _ |- _ => inversion H; subst; clear H
  | H : None = Some _ |- _ => discriminate H
  | H : Some _ = None |- _ => discriminate H
  end.

Ltac base_facts lem := repeat match goal with H : insts _ _ = Some _ |- _ => apply lem in H end.
Ltac clauses := constructor; unfold stored; cbn;
  [ intros j y Hy | intros j1 j2 y1 y2 Hne H1 H2 | intros u Hu j y Hy | intros u Hu y Hy
  | idtac | intros u Hu | idtac | intros u Hu | intros j Hj | idtac ].

Lemma inv_new s m s' : Inv s -> step s (LNew m) = Some s' -> Inv s'.
Proof.
  intros I H; cbn in H; inj_some. destruct I. unfold stored in *.
  clauses.
  - eqb_cases; inj_some; cbn; [lia | eauto].
  - eqb_cases; inj_some; cbn; try contradiction; eauto; base_facts inv_base0; lia.
  - eqb_cases; inj_some; cbn; [|eauto].
    destruct (inv_le0 _ Hu) as (_ & _ & ?); lia.
  - eqb_cases; inj_some; cbn; [|eauto].
    specialize (inv_issuer0 _ Hu); lia.
  - assumption.
  - eauto.
  - assumption.
  - specialize (inv_issuer0 _ Hu); lia.
  - eqb_cases; [lia|]. apply inv_fresh0; lia.
  - assumption.
Qed.

Lemma inv_setleader s o s' : Inv s -> step s (LSetLeader o) = Some s' -> Inv s'.
Proof. intros I H; cbn in H; inj_some. destruct I; constructor; unfold stored in *; cbn; auto. Qed.

Lemma inv_get s i k s' : Inv s -> step s (LGet i k) = Some s' -> Inv s'.
Proof.
  intros I H; cbn in H.
  destruct (insts s i) as [x|] eqn:Ex; [|discriminate].
  destruct (pending x) eqn:Ep; [discriminate|].
  assert (s' = set_inst s i (Inst (mem x) (base x) (endv x) (Some (alloc_id s, k)))) as ->.
  { destruct k; [destruct (base x =? endv x); inj_some; reflexivity | inj_some; reflexivity]. }
  clear H. destruct I. unfold stored in *.
  clauses; auto.
  - eqb_cases; inj_some; cbn; eauto.
  - eqb_cases; inj_some; cbn; eauto.
  - eqb_cases; inj_some; cbn; eauto.
  - eqb_cases; inj_some; cbn; eauto.
  - eqb_cases; [|auto]. rewrite inv_fresh0 in Ex; [discriminate|assumption].
Qed.

Lemma inv_fast s i s' : Inv s -> step s (LAllocFast i) = Some s' -> Inv s'.
Proof.
  intros I H; cbn in H.
  destruct (insts s i) as [x|] eqn:Ex; [|discriminate].
  destruct (pending x) eqn:Ep; [discriminate|].
  destruct (base x =? endv x) eqn:Eb; [discriminate|]. apply Z.eqb_neq in Eb.
  inj_some. destruct I. unfold stored in *.
  destruct (inv_base0 _ _ Ex) as [Hb1 Hb2].
  clauses.
  - eqb_cases; inj_some; cbn; [lia | eauto].
  - eqb_cases; inj_some; cbn; try contradiction; eauto;
      match goal with H : insts s _ = Some _ |- _ =>
        first [destruct (inv_disj0 _ _ _ _ Hne Ex H) | destruct (inv_disj0 _ _ _ _ Hne H Ex)] end; lia.
  - destruct Hu as [<-|Hu]; cbn.
    + eqb_cases; inj_some; cbn; [lia|].
      match goal with Hn : _ <> _ |- _ => destruct (inv_disj0 _ _ _ _ Hn Hy Ex) end; lia.
    + eqb_cases; inj_some; cbn; [|eauto].
      destruct (inv_issued0 _ Hu _ _ Ex); lia.
  - destruct Hu as [<-|Hu]; cbn in *.
    + eqb_cases; inj_some; cbn; [lia|contradiction].
    + eqb_cases; inj_some; cbn; [|eauto].
      specialize (inv_own0 _ Hu _ Ex); lia.
  - constructor; [|assumption].
    intros Hin; apply in_map_iff in Hin as (u & Hu & Hin).
    destruct (inv_issued0 _ Hin _ _ Ex); lia.
  - destruct Hu as [<-|Hu]; cbn; [lia | eauto].
  - split; [|assumption]. cbn. intros v Hv Hby.
    specialize (inv_own0 _ Hv). rewrite Hby in inv_own0. specialize (inv_own0 _ Ex); lia.
  - destruct Hu as [<-|Hu]; cbn; [|auto].
    destruct (Nat.lt_ge_cases i (nexti s)); [assumption|].
    rewrite inv_fresh0 in Ex; [discriminate|assumption].
  - eqb_cases; [|auto]. rewrite inv_fresh0 in Ex; [discriminate|assumption].
  - assumption.
Qed.

Lemma inv_txn s i o s' : Inv s -> step s (LTxn i o) = Some s' -> Inv s'.
Proof.
  intros I H; cbn in H.
  destruct (insts s i) as [x|] eqn:Ex; [|discriminate].
  destruct (pending x) as [[snap k]|] eqn:Ep; [|discriminate].
  pose proof step_pos as Hpos.
  destruct I. unfold stored in *. destruct (inv_base0 _ _ Ex) as [Hb1 Hb2].
  assert (Hi : (i < nexti s)%nat).
  { destruct (Nat.lt_ge_cases i (nexti s)); [assumption|].
    rewrite inv_fresh0 in Ex; [discriminate|assumption]. }
  destruct (cmp_ok s x snap) eqn:Ec.
  - (* comparisons hold: snapshot equals the stored value *)
    unfold cmp_ok in Ec. apply andb_true_iff in Ec as [Ec _]. apply optZ_eqb_eq in Ec.
    subst snap. set (A := match alloc_id s with Some v => v | None => 0 end) in *.
    destruct o; cbn in H.
    + (* Ok: acknowledged *)
      destruct k; inj_some.
      * (* from Alloc: window (A, A+step], first id A+1 issued *)
        clauses.
        -- eqb_cases; inj_some; cbn; [lia|]. destruct (inv_base0 _ _ Hy); lia.
        -- eqb_cases; inj_some; cbn; try contradiction; eauto; base_facts inv_base0; lia.
        -- destruct Hu as [<-|Hu]; cbn.
           ++ eqb_cases; inj_some; cbn; [lia|]. destruct (inv_base0 _ _ Hy); lia.
           ++ eqb_cases; inj_some; cbn; [|eauto].
              destruct (inv_le0 _ Hu) as (_ & ? & _); lia.
        -- destruct Hu as [<-|Hu]; cbn in *.
           ++ eqb_cases; inj_some; cbn; [lia|contradiction].
           ++ eqb_cases; inj_some; cbn; [|eauto].
              destruct (inv_le0 _ Hu) as (_ & ? & _); lia.
        -- constructor; [|assumption].
           intros Hin; apply in_map_iff in Hin as (u & Hu & Hin).
           destruct (inv_le0 _ Hin) as (_ & ? & _); lia.
        -- destruct Hu as [<-|Hu]; cbn; [lia|].
           destruct (inv_le0 _ Hu) as (? & ? & ?); lia.
        -- split; [|assumption]. cbn. intros v Hv _.
           destruct (inv_le0 _ Hv) as (_ & ? & _); lia.
        -- destruct Hu as [<-|Hu]; cbn; auto.
        -- eqb_cases; [lia|auto].
        -- lia.
      * (* from Rebase *)
        clauses.
        -- eqb_cases; inj_some; cbn; [lia|]. destruct (inv_base0 _ _ Hy); lia.
        -- eqb_cases; inj_some; cbn; try contradiction; eauto; base_facts inv_base0; lia.
        -- eqb_cases; inj_some; cbn; [|eauto].
           destruct (inv_le0 _ Hu) as (_ & ? & _); lia.
        -- eqb_cases; inj_some; cbn; [|eauto].
           destruct (inv_le0 _ Hu) as (_ & ? & _); lia.
        -- assumption.
        -- destruct (inv_le0 _ Hu) as (? & ? & ?); lia.
        -- assumption.
        -- auto.
        -- eqb_cases; [lia|auto].
        -- lia.
    + (* ErrNotApplied *)
      inj_some. clauses; auto.
      * eqb_cases; inj_some; cbn; eauto.
      * eqb_cases; inj_some; cbn; eauto.
      * eqb_cases; inj_some; cbn; eauto.
      * eqb_cases; inj_some; cbn; eauto.
      * eqb_cases; [lia|auto].
    + (* ErrApplied: the store moved, the instance did not *)
      inj_some. clauses; auto.
      * eqb_cases; inj_some; cbn; [lia|]. destruct (inv_base0 _ _ Hy); lia.
      * eqb_cases; inj_some; cbn; eauto.
      * eqb_cases; inj_some; cbn; eauto.
      * eqb_cases; inj_some; cbn; eauto.
      * destruct (inv_le0 _ Hu) as (? & ? & ?); lia.
      * eqb_cases; [lia|auto].
      * lia.
  - (* a comparison failed: nothing is applied, nothing acknowledged *)
    assert (s' = State (alloc_id s) (leader s)
                  (fun j => if Nat.eqb j i then Some (Inst (mem x) (base x) (endv x) None) else insts s j)
                  (nexti s) (issued s)) as ->.
    { destruct o; cbn in H; inj_some; reflexivity. }
    clauses; auto.
    * eqb_cases; inj_some; cbn; eauto.
    * eqb_cases; inj_some; cbn; eauto.
    * eqb_cases; inj_some; cbn; eauto.
    * eqb_cases; inj_some; cbn; eauto.
    * eqb_cases; [lia|auto].
Qed.

Theorem inv_step s l s' : Inv s -> step s l = Some s' -> Inv s'.
Proof.
  destruct l; intros I H.
  - eapply inv_fast; eauto.
  - eapply inv_get; eauto.
  - eapply inv_txn; eauto.
  - eapply inv_new; eauto.
  - eapply inv_setleader; eauto.
Qed.

Theorem inv_exec ls : Inv (exec step init ls).
Proof. apply invariant_exec; [exact inv_step | exact inv_init]. Qed.

(* ---------- the four statements ---------- *)
Lemma ids_nodup_pf ls : NoDup (map id_of (issued (exec step init ls))).
Proof. apply inv_nodup, inv_exec. Qed.

Lemma ids_increasing_pf ls : decr_per_inst (issued (exec step init ls)).
Proof. apply inv_sorted, inv_exec. Qed.

Lemma id_le_persisted_pf ls u : In u (issued (exec step init ls)) -> id_of u <= stored_then u.
Proof. intros H; apply (inv_le _ (inv_exec ls) _ H). Qed.

(* the stored bound only grows, so "stored before the id was returned" is meaningful *)
Lemma stored_mono_step s l s' : step s l = Some s' -> stored s <= stored s'.
Proof.
  pose proof step_pos as Hpos.
  destruct l; cbn; intros H.
  - destruct (insts s i) as [x|]; [|discriminate]. destruct (pending x); [discriminate|].
    destruct (base x =? endv x); inj_some; cbn; unfold stored; cbn; lia.
  - destruct (insts s i) as [x|]; [|discriminate]. destruct (pending x); [discriminate|].
    destruct k; [destruct (base x =? endv x)|]; inj_some; unfold stored; cbn; lia.
  - destruct (insts s i) as [x|]; [|discriminate]. destruct (pending x) as [[snap k]|]; [|discriminate].
    destruct (cmp_ok s x snap) eqn:Ec.
    + unfold cmp_ok in Ec. apply andb_true_iff in Ec as [Ec _]. apply optZ_eqb_eq in Ec.
      assert (Hs : (match snap with Some v => v | None => 0 end) = stored s)
        by (unfold stored; rewrite Ec; reflexivity).
      destruct o, k; cbn in H; inj_some; unfold stored at 2; cbn; lia.
    + destruct o, k; cbn in H; inj_some; unfold stored; cbn; lia.
  - inj_some; unfold stored; cbn; lia.
  - inj_some; unfold stored; cbn; lia.
Qed.

Definition window_of (s : state) (i : nat) : option (Z * Z) :=
  match insts s i with Some x => Some (base x, endv x) | None => None end.

Lemma loser_cannot_extend_pf s i o s' x snap k :
  step s (LTxn i o) = Some s' -> insts s i = Some x -> pending x = Some (snap, k) ->
  (leader s <> Some (mem x) \/ alloc_id s <> snap) ->
  alloc_id s' = alloc_id s /\ window_of s' i = window_of s i /\ issued s' = issued s.
Proof.
  intros H Ex Ep Hl. cbn in H. rewrite Ex, Ep in H.
  assert (Ec : cmp_ok s x snap = false).
  { unfold cmp_ok. destruct (optZ_eqb (alloc_id s) snap) eqn:E1; [|reflexivity].
    destruct (optZ_eqb (leader s) (Some (mem x))) eqn:E2; [|reflexivity].
    apply optZ_eqb_eq in E1, E2. destruct Hl; congruence. }
  rewrite Ec in H. unfold window_of. rewrite Ex.
  destruct o; cbn in H; inj_some; cbn; rewrite Nat.eqb_refl; auto.
Qed.
