(* C03 -> C01: every run of the election model is a run of the leadership environment the timestamp
   model assumes (model/C03_Env.v), with  owner := the member named by the stored record  and
   valid m := Member.IsLeader() of m (lease not expired locally and cached "leader = me").
   The only fact about the election model that is needed is its inductive invariant (leader_owns_key):
   that is exactly hypothesis E2 of DESIGN.md section 3. *)
From Coq Require Import NArith Lia Bool Arith.
From PDV Require Import lib.Base model.C03_Leader model.C03_Env proof.C03_LeaderProof.

Definition env_of (s : state) : env := Env (key_value s) (fun m => is_leader s m).

Definition label_members (l : label) : list nat :=
  match l with
  | LTick _ | LExpire _ | LEnvPut _ _ => []
  | LGrantStart m _ | LGrantDone m _ | LCampaignTxn m _ _ | LKeepStart m | LKeepDone m | LReset m _
  | LObserve m | LDeleteKey m _ _ | LWrite m _ _ _ | LCrash m | LServe m => [m]
  end.

Definition touched (ls : list label) : list nat := flat_map label_members ls.

Definition memb (m : nat) (l : list nat) : bool := existsb (Nat.eqb m) l.

Lemma memb_in m l : memb m l = true <-> In m l.
Proof.
  unfold memb. rewrite existsb_exists. split.
  - intros (x & Hx & E). apply Nat.eqb_eq in E. subst. exact Hx.
  - intros H. exists m. split; [exact H | apply Nat.eqb_refl].
Qed.

(* ---------------- members a run never mentions keep their initial memory ---------------- *)

Lemma upd_other {A} (f : nat -> A) i x j : j <> i -> upd f i x j = f j.
Proof. intros H. unfold upd. destruct (Nat.eqb j i) eqn:E; [apply Nat.eqb_eq in E; contradiction | reflexivity]. Qed.

Lemma mems_revoke s l : mems (revoke s l) = mems s.
Proof. reflexivity. Qed.

Lemma mems_do_close_other s m r j : j <> m -> mems (do_close s m r) j = mems s j.
Proof.
  intros H. unfold do_close.
  destruct (lease_id (lease (mems s m))); [destruct r|]; rewrite ?mems_revoke; cbn; apply upd_other; exact H.
Qed.

Lemma step_other s l s' j : step s l = Some s' -> ~ In j (label_members l) -> mems s' j = mems s j.
Proof.
  intros H N.
  destruct l; cbn [label_members In] in N; cbn [step] in H.
  - inversion H; reflexivity.
  - assert (j <> m) by (intros Hjm; apply N; left; symmetry; exact Hjm).
    destruct (lease (mems s m)); try discriminate; destruct (won (mems s m)); try discriminate;
      inversion H; cbn; apply upd_other; assumption.
  - assert (j <> m) by (intros Hjm; apply N; left; symmetry; exact Hjm).
    destruct (lease (mems s m)); try discriminate. destruct (g_start (mems s m)) as [[st ttl]|]; try discriminate.
    destruct ok; inversion H; cbn; apply upd_other; assumption.
  - assert (j <> m) by (intros Hjm; apply N; left; symmetry; exact Hjm).
    destruct (lease (mems s m)) as [| |id e|]; try discriminate.
    destruct (campaigning (mems s m)); try discriminate.
    match type of H with (if ?c then _ else _) = _ => destruct c end; inversion H.
    + cbn. apply upd_other; assumption.
    + rewrite mems_do_close_other by assumption. reflexivity.
  - assert (j <> m) by (intros Hjm; apply N; left; symmetry; exact Hjm).
    destruct (lease (mems s m)); try discriminate. destruct (won (mems s m)); try discriminate.
    inversion H; cbn; apply upd_other; assumption.
  - assert (j <> m) by (intros Hjm; apply N; left; symmetry; exact Hjm).
    destruct (lease (mems s m)) as [| |id e|]; try discriminate; [|inversion H; reflexivity].
    destruct (ka_start (mems s m)); try discriminate.
    destruct (leases s id) as [[e' ttl]|].
    + match type of H with (if ?c then _ else _) = _ => destruct c end; inversion H; cbn; apply upd_other; assumption.
    + inversion H; cbn; apply upd_other; assumption.
  - destruct (leases s l) as [[e t]|]; try discriminate.
    match type of H with (if ?c then _ else _) = _ => destruct c end; inversion H. reflexivity.
  - assert (j <> m) by (intros Hjm; apply N; left; symmetry; exact Hjm).
    destruct (lease (mems s m)); try discriminate; inversion H; apply mems_do_close_other; assumption.
  - assert (j <> m) by (intros Hjm; apply N; left; symmetry; exact Hjm).
    destruct (won (mems s m)); try discriminate. inversion H; cbn; apply upd_other; assumption.
  - assert (j <> m) by (intros Hjm; apply N; left; symmetry; exact Hjm).
    destruct (saw (mems s m)) as [kv|]; try discriminate.
    destruct (negb (won (mems s m))); try discriminate.
    destruct o; destruct (lease (mems s m));
      try (inversion H; cbn; apply upd_other; assumption);
      (match type of H with (if ?c then _ else _) = _ => destruct c end; inversion H;
       [rewrite mems_do_close_other by assumption|]; cbn; apply upd_other; assumption).
  - inversion H; reflexivity.
  - inversion H; reflexivity.
  - assert (j <> m) by (intros Hjm; apply N; left; symmetry; exact Hjm). inversion H; cbn; apply upd_other; assumption.
  - destruct (is_leader s m); try discriminate. inversion H; reflexivity.
Qed.

Lemma untouched_mem0 ls j : ~ In j (touched ls) -> forall s, mems s j = mem0 -> mems (exec step s ls) j = mem0.
Proof.
  induction ls as [|l r IH]; intros N s H; cbn [exec]; [exact H|].
  cbn [touched flat_map] in N. rewrite in_app_iff in N.
  destruct (step s l) as [s'|] eqn:E.
  - apply IH; [tauto|]. rewrite (step_other _ _ _ _ E); [exact H | tauto].
  - apply IH; [tauto | exact H].
Qed.

Lemma untouched_not_leader ls j : ~ In j (touched ls) -> is_leader (exec step init ls) j = false.
Proof.
  intros N. unfold is_leader. rewrite (untouched_mem0 ls j N init eq_refl). reflexivity.
Qed.

(* ---------------- running blocks of environment labels ---------------- *)

Lemma eexec_app e l1 l2 : eexec e (l1 ++ l2) = match eexec e l1 with Some e1 => eexec e1 l2 | None => None end.
Proof.
  revert e; induction l1 as [|l r IH]; intros e; cbn [eexec app]; [reflexivity|].
  destruct (estep e l); [apply IH | reflexivity].
Qed.

Lemma eexec_offs l : forall e, exists e1, eexec e (map EValidOff l) = Some e1 /\ eowner e1 = eowner e /\
  forall m, evalid e1 m = evalid e m && negb (memb m l).
Proof.
  induction l as [|x r IH]; intros e; cbn [map eexec estep].
  - exists e. repeat split. intros m. cbn. rewrite andb_true_r. reflexivity.
  - destruct (IH (Env (eowner e) (eupd (evalid e) x false))) as (e1 & H1 & H2 & H3).
    exists e1. split; [exact H1|]. split; [exact H2|].
    intros m. rewrite H3. cbn [evalid memb existsb]. unfold eupd, memb.
    destruct (Nat.eqb m x); cbn; rewrite ?andb_false_r; reflexivity.
Qed.

Lemma eexec_ons l o : forall e, eowner e = Some o -> (forall m, In m l -> m = o) ->
  exists e1, eexec e (map EValidOn l) = Some e1 /\ eowner e1 = eowner e /\
  forall m, evalid e1 m = evalid e m || memb m l.
Proof.
  induction l as [|x r IH]; intros e Ho Hall; cbn [map eexec estep].
  - exists e. repeat split. intros m. cbn. rewrite orb_false_r. reflexivity.
  - assert (x = o) by (apply Hall; left; reflexivity). subst x.
    rewrite Ho. rewrite Nat.eqb_refl.
    destruct (IH (Env (Some o) (eupd (evalid e) o true))) as (e1 & H1 & H2 & H3);
      [reflexivity | intros m Hm; apply Hall; right; exact Hm |].
    exists e1. split; [exact H1|]. split; [rewrite H2; cbn; congruence|].
    intros m. rewrite H3. cbn [evalid memb existsb]. unfold eupd, memb.
    destruct (Nat.eqb m o); cbn; rewrite ?orb_true_r; reflexivity.
Qed.

(* ---------------- the environment labels of one step ---------------- *)

Definition optnat_eq (a b : option nat) : bool :=
  match a, b with Some x, Some y => Nat.eqb x y | None, None => true | _, _ => false end.

Lemma optnat_eq_true a b : optnat_eq a b = true -> a = b.
Proof. destruct a, b; cbn; intros H; try discriminate; [apply Nat.eqb_eq in H; subst|]; reflexivity. Qed.

Definition offs (s s' : state) (ms : list nat) := filter (fun m => is_leader s m && negb (is_leader s' m)) ms.
Definition ons (s s' : state) (ms : list nat) := filter (fun m => negb (is_leader s m) && is_leader s' m) ms.

Definition changes (s s' : state) : list elabel :=
  if optnat_eq (key_value s) (key_value s') then []
  else (match key_value s with Some _ => [EOwnerGone] | None => [] end)
       ++ (match key_value s' with Some m => [EElect m; EValidOff m] | None => [] end).

(* who stopped believing; the record changes hands (a new owner starts as "not believing" and is switched on
   by the last block when it does); who (the owner only) believes again *)
Definition tr (s s' : state) (ms : list nat) : list elabel :=
  map EValidOff (offs s s' ms) ++ changes s s' ++ map EValidOn (ons s s' ms).

Lemma leader_is_owner s m : Inv s -> is_leader s m = true -> key_value s = Some m.
Proof.
  intros I H. destruct (leader_owns_key _ _ I H) as (id & e & et & _ & K & _).
  unfold key_value. rewrite K. reflexivity.
Qed.

Lemma memb_filter f m l : memb m (filter f l) = memb m l && f m.
Proof.
  unfold memb. induction l as [|x r IH]; cbn [filter existsb]; [reflexivity|].
  destruct (f x) eqn:Fx; cbn [existsb]; rewrite IH;
    destruct (Nat.eqb m x) eqn:E; cbn [orb andb]; try reflexivity;
    apply Nat.eqb_eq in E; subst; rewrite Fx; rewrite ?andb_false_r; reflexivity.
Qed.

Lemma tr_ok e s s' ms :
  Inv s -> Inv s' ->
  (forall m, memb m ms = false -> is_leader s m = false /\ is_leader s' m = false) ->
  env_eq e (env_of s) ->
  exists e', eexec e (tr s s' ms) = Some e' /\ env_eq e' (env_of s').
Proof.
  intros I I' Hun [Eo Ev]. cbn in Eo, Ev.
  unfold tr. rewrite eexec_app.
  destruct (eexec_offs (offs s s' ms) e) as (e1 & X1 & O1 & V1). rewrite X1.
  rewrite eexec_app.
  (* the record changes hands *)
  assert (exists e2, eexec e1 (changes s s') = Some e2 /\ eowner e2 = key_value s' /\
            (forall m, evalid e2 m = true -> evalid e1 m = true) /\
            (key_value s = key_value s' -> forall m, evalid e2 m = evalid e1 m)) as (e2 & X2 & O2 & V2 & V2').
  { unfold changes. destruct (optnat_eq (key_value s) (key_value s')) eqn:Eq.
    - apply optnat_eq_true in Eq. exists e1. cbn. split; [reflexivity|]. split; [congruence | auto].
    - assert (G : exists eg, eexec e1 (match key_value s with Some _ => [EOwnerGone] | None => [] end) = Some eg /\
                   eowner eg = None /\ evalid eg = evalid e1).
      { destruct (key_value s) as [mo|] eqn:Ks.
        - cbn [eexec estep]. rewrite O1, Eo.
          assert (Hoff : evalid e1 mo = false).
          { rewrite V1, Ev. unfold offs. rewrite memb_filter.
            destruct (is_leader s mo) eqn:L; [|reflexivity].
            destruct (memb mo ms) eqn:Mm; [|destruct (Hun mo Mm) as [L2 _]; congruence].
            destruct (is_leader s' mo) eqn:L'; [|reflexivity].
            exfalso. apply (leader_is_owner _ _ I') in L'. rewrite L' in Eq. cbn in Eq. rewrite Nat.eqb_refl in Eq. discriminate. }
          rewrite Hoff. exists (Env None (evalid e1)). repeat split.
        - exists e1. cbn. repeat split. rewrite O1, Eo. reflexivity. }
      destruct G as (eg & XG & OG & VG).
      assert (Hne : key_value s = key_value s' -> False).
      { intros Hk. rewrite Hk in Eq. destruct (key_value s'); cbn in Eq; [rewrite Nat.eqb_refl in Eq|]; discriminate. }
      rewrite eexec_app, XG.
      destruct (key_value s') as [mn|] eqn:Ks'.
      + cbn [eexec estep]. rewrite OG. cbn [eowner evalid]. eexists. split; [reflexivity|]. cbn. split; [reflexivity|].
        split; [|intros Hk; destruct (Hne Hk)].
        intros m. unfold eupd. destruct (Nat.eqb m mn) eqn:E; [discriminate|].
        rewrite VG. auto.
      + exists eg. cbn. split; [reflexivity|]. split; [exact OG|].
        split; [intros m; rewrite VG; auto | intros Hk; destruct (Hne Hk)]. }
  rewrite X2.
  assert (Hons : forall m, In m (ons s s' ms) -> key_value s' = Some m).
  { intros m Hm. unfold ons in Hm. apply filter_In in Hm as [_ L]. apply andb_true_iff in L as [_ L].
    apply leader_is_owner; assumption. }
  assert (exists e4, eexec e2 (map EValidOn (ons s s' ms)) = Some e4 /\ eowner e4 = eowner e2 /\
            forall m, evalid e4 m = evalid e2 m || memb m (ons s s' ms)) as (e4 & X4 & O4 & V4).
  { destruct (ons s s' ms) as [|x r] eqn:Eons.
    - exists e2. cbn. repeat split. intros m. rewrite orb_false_r. reflexivity.
    - assert (Kx : key_value s' = Some x) by (apply Hons; left; reflexivity).
      apply (eexec_ons (x :: r) x); [rewrite O2; exact Kx|].
      intros m Hm. apply Hons in Hm. congruence. }
  exists e4. split; [exact X4|]. split.
  - cbn. rewrite O4, O2. reflexivity.
  - intros m. cbn. rewrite V4. unfold ons. rewrite memb_filter.
    destruct (is_leader s' m) eqn:L'.
    + destruct (memb m ms) eqn:Mm; [|destruct (Hun m Mm) as [_ L2]; congruence].
      destruct (is_leader s m) eqn:L; cbn; [|rewrite orb_true_r; reflexivity].
      rewrite orb_false_r.
      (* leader before and after: the record is m's in both states, nothing changed hands *)
      rewrite V2' by (rewrite (leader_is_owner _ _ I L), (leader_is_owner _ _ I' L'); reflexivity).
      rewrite V1, Ev, L. unfold offs. rewrite memb_filter, L, L'. cbn. rewrite andb_false_r. reflexivity.
    + rewrite andb_false_r, andb_false_r, orb_false_r.
      destruct (evalid e2 m) eqn:E2; [|reflexivity].
      exfalso. apply V2 in E2. rewrite V1, Ev in E2. unfold offs in E2. rewrite memb_filter in E2. rewrite L' in E2.
      destruct (is_leader s m) eqn:L; [|discriminate].
      destruct (memb m ms) eqn:Mm; cbn in E2; [discriminate|].
      destruct (Hun m Mm) as [L2 _]. congruence.
Qed.

(* ---------------- the refinement ---------------- *)

Fixpoint trace_from (s : state) (ls : list label) (ms : list nat) : list elabel :=
  match ls with
  | [] => []
  | l :: r => match step s l with
              | Some s' => tr s s' ms ++ trace_from s' r ms
              | None => trace_from s r ms
              end
  end.

(* the environment labels of a whole run of the election model *)
Definition env_trace (ls : list label) : list elabel := trace_from init ls (nodup Nat.eq_dec (touched ls)).

Lemma mem0_not_leader s m : mems s m = mem0 -> is_leader s m = false.
Proof. intros H. unfold is_leader. rewrite H. reflexivity. Qed.

Lemma trace_from_ok ms : forall ls s e,
  Inv2 s ->
  (forall m, memb m ms = false -> mems s m = mem0) ->
  (forall m, In m (touched ls) -> memb m ms = true) ->
  env_eq e (env_of s) ->
  exists e', eexec e (trace_from s ls ms) = Some e' /\ env_eq e' (env_of (exec step s ls)).
Proof.
  induction ls as [|l r IH]; intros s e I Hun Hin He; cbn [trace_from exec eexec].
  - exists e. split; [reflexivity | exact He].
  - cbn [touched flat_map] in Hin.
    assert (Hr : forall m, In m (touched r) -> memb m ms = true).
    { intros m Hm. apply Hin. apply in_app_iff. right. exact Hm. }
    destruct (step s l) as [s'|] eqn:E.
    + assert (I' : Inv2 s') by (eapply inv_step; eauto).
      assert (Hun' : forall m, memb m ms = false -> mems s' m = mem0).
      { intros m Mm. rewrite (step_other _ _ _ _ E); [apply Hun; exact Mm|].
        intros Hm. assert (memb m ms = true) by (apply Hin; apply in_app_iff; left; exact Hm). congruence. }
      destruct (tr_ok e s s' ms (proj1 I) (proj1 I')) as (e1 & X1 & H1); [|exact He|].
      { intros m Mm. split; apply mem0_not_leader; [apply Hun | apply Hun']; exact Mm. }
      destruct (IH s' e1 I' Hun' Hr H1) as (e2 & X2 & H2).
      exists e2. split; [|exact H2]. rewrite eexec_app, X1. exact X2.
    + apply IH; assumption.
Qed.

(* Every run of the election model, projected to (owner of the record, who believes to lead), is a run of the
   leadership environment: each label of env_trace is enabled when it is taken. *)
Theorem election_refines_environment ls :
  exists e, eexec env0 (env_trace ls) = Some e /\ env_eq e (env_of (exec step init ls)).
Proof.
  unfold env_trace. apply trace_from_ok.
  - split; [exact inv_init | exact sawown_init].
  - intros m _. reflexivity.
  - intros m Hm. apply memb_in. apply nodup_In. exact Hm.
  - split; [reflexivity | intros m; reflexivity].
Qed.

(* the environment's own invariant, read back on the election model: E2 *)
Corollary believing_member_owns_record ls m :
  is_leader (exec step init ls) m = true -> key_value (exec step init ls) = Some m.
Proof. apply leader_is_owner. apply inv_exec. Qed.
