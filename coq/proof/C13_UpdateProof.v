(* C13 — proofs about the update path of model/C13_Rules.v: what an accepted update leaves in the
   storage is exactly what is served (rule contents, non-default groups).                      *)
From Coq Require Import String Permutation Sorting.Sorted.
From PDV Require Import lib.Base lib.C12_Order gen.Gen_C13 model.C13_Rules proof.C13_RulesProof.
Local Open Scope list_scope.

(* ---------- association lists ---------- *)
Lemma filter_twice {A} (f : A -> bool) l : filter f (filter f l) = filter f l.
Proof.
  induction l as [|x r IH]; cbn; [reflexivity|]. destruct (f x) eqn:E; cbn; rewrite ?E, IH; reflexivity.
Qed.

Definition map_vals {K V W} (f : V -> W) (m : list (K * V)) : list (K * W) := map (fun kv => (fst kv, f (snd kv))) m.

Lemma map_vals_mset {K V W} (cmp : K -> K -> comparison) (f : V -> W) k v m :
  map_vals f (mset cmp k v m) = mset cmp k (f v) (map_vals f m).
Proof.
  unfold map_vals. induction m as [|[k' v'] r IH]; cbn; [reflexivity|].
  destruct (cmp k k'); cbn; [reflexivity|reflexivity|]. rewrite IH. reflexivity.
Qed.
Lemma map_vals_mdel {K V W} (cmp : K -> K -> comparison) (f : V -> W) k m :
  map_vals f (mdel cmp k m) = mdel cmp k (map_vals f m).
Proof.
  unfold map_vals. induction m as [|[k' v'] r IH]; cbn; [reflexivity|].
  destruct (cmp k k'); cbn; try reflexivity; rewrite IH; reflexivity.
Qed.

Definition ksorted {V} (m : list (id * V)) : Prop := StronglySorted (fun a b => key_lt (fst a) (fst b)) m.

Lemma mset_In {V} k (v : V) m x : In x (mset key_cmp k v m) -> x = (k, v) \/ In x m.
Proof.
  induction m as [|[k' v'] r IH]; cbn; [intros [H|[]]; left; symmetry; exact H|].
  destruct (key_cmp k k'); cbn.
  - intros [H|H]; [left; symmetry; exact H|right; right; exact H].
  - intros [H|H]; [left; symmetry; exact H|right; exact H].
  - intros [H|H]; [right; left; exact H|]. destruct (IH H) as [E|E]; [left; exact E|right; right; exact E].
Qed.
Lemma mset_sorted {V} k (v : V) m : ksorted m -> ksorted (mset key_cmp k v m).
Proof.
  induction 1 as [|[k' v'] r S IH F]; cbn; [repeat constructor|].
  rewrite Forall_forall in F.
  destruct (key_cmp k k') eqn:E.
  - apply key_cmp_eq in E. subst k'. constructor; [exact S|]. rewrite Forall_forall. exact F.
  - constructor; [constructor; [exact S|rewrite Forall_forall; exact F]|].
    rewrite Forall_forall. intros x [<-|Hx]; [exact E|]. cbn. eapply key_lt_trans; [exact E|apply (F x Hx)].
  - constructor; [exact IH|]. rewrite Forall_forall. intros x Hx. apply mset_In in Hx as [->|Hx]; [|apply F; exact Hx].
    cbn. apply (g_gt_lt _ good_key). exact E.
Qed.
Lemma mset_lt_all {V} k (v : V) m : (forall x, In x m -> key_lt k (fst x)) -> mset key_cmp k v m = (k, v) :: m.
Proof.
  destruct m as [|[k' v'] r]; cbn; [reflexivity|]. intros H.
  pose proof (H (k', v') (or_introl eq_refl)) as E. cbn in E. unfold key_lt in E. rewrite E. reflexivity.
Qed.
Lemma mdel_lt_all {V} k (m : list (id * V)) : (forall x, In x m -> key_lt k (fst x)) -> mdel key_cmp k m = m.
Proof.
  induction m as [|[k' v'] r IH]; cbn; [reflexivity|]. intros H.
  pose proof (H (k', v') (or_introl eq_refl)) as E. cbn in E. unfold key_lt in E. rewrite E.
  f_equal. apply IH. intros x Hx. apply H. right; exact Hx.
Qed.
Lemma filter_sorted {V} (p : id * V -> bool) m : ksorted m -> ksorted (filter p m).
Proof.
  induction 1 as [|x r S IH F]; cbn; [constructor|]. destruct (p x); [|exact IH].
  constructor; [exact IH|]. rewrite Forall_forall in *. intros y Hy. apply filter_In in Hy as [Hy _]. apply F; exact Hy.
Qed.

Definition nd (kg : id * group) : bool := negb (is_default (snd kg)).

Lemma filter_nd_mset k g m :
  ksorted m ->
  filter nd (mset key_cmp k g m) =
  if is_default g then mdel key_cmp k (filter nd m) else mset key_cmp k g (filter nd m).
Proof.
  assert (Ng : forall k g, nd (k, g) = negb (is_default g)) by reflexivity.
  induction 1 as [|[k' g'] r S IH F]; [cbn; rewrite Ng; destruct (is_default g); reflexivity|].
  rewrite Forall_forall in F. cbn [mset].
  assert (Hr : forall x, In x (filter nd r) -> key_lt k' (fst x)).
  { intros x Hx. apply filter_In in Hx as [Hx _]. apply (F x Hx). }
  destruct (key_cmp k k') eqn:E.
  - apply key_cmp_eq in E. subst k'. cbn [filter]. rewrite !Ng.
    destruct (is_default g) eqn:Dg; destruct (is_default g') eqn:Dg'; cbn [negb].
    + rewrite (mdel_lt_all k (filter nd r) Hr). reflexivity.
    + cbn [mdel]. rewrite key_cmp_refl. reflexivity.
    + rewrite (mset_lt_all k g (filter nd r) Hr). reflexivity.
    + cbn [mset]. rewrite key_cmp_refl. reflexivity.
  - assert (Hall : forall x, In x (filter nd ((k', g') :: r)) -> key_lt k (fst x)).
    { intros x Hx. apply filter_In in Hx as [[<-|Hx] _]; [exact E|]. eapply key_lt_trans; [exact E|apply (F x Hx)]. }
    change (filter nd ((k, g) :: (k', g') :: r)) with (if nd (k, g) then (k, g) :: filter nd ((k', g') :: r) else filter nd ((k', g') :: r)).
    rewrite Ng. destruct (is_default g) eqn:Dg; cbn [negb].
    + symmetry. apply mdel_lt_all. exact Hall.
    + symmetry. apply mset_lt_all. exact Hall.
  - cbn [filter]. rewrite IH, !Ng.
    destruct (is_default g'); cbn [negb]; [reflexivity|].
    destruct (is_default g); cbn [mdel mset]; rewrite E; reflexivity.
Qed.

(* adding a default group for an id that has none does not show among the non-default groups *)
Lemma filter_nd_add_default gid m :
  gget gid m = None -> filter nd (mset key_cmp gid (default_group gid) m) = filter nd m.
Proof.
  unfold gget. induction m as [|[k' g'] r IH]; cbn; [reflexivity|].
  destruct (key_cmp gid k') eqn:E; [discriminate| |].
  - intros _. cbn. reflexivity.
  - intros H. cbn. rewrite (IH H). reflexivity.
Qed.

(* ---------- storage mirrors the served configuration ---------- *)
Definition sv (r : rule) : sval := SVRule (set_group r None).

Record mirrors (c : config) (s : storage) : Prop := {
  mi_rules : s_rules s = map_vals sv (c_rules c);
  mi_groups : s_groups s = filter nd (c_groups c);
  mi_sorted : ksorted (c_groups c)
}.

Lemma sv_set_group r g : sv (set_group r g) = sv r.
Proof. destruct r; reflexivity. Qed.

Lemma config_adjust_facts c :
  ksorted (c_groups c) ->
  map_vals sv (c_rules (config_adjust c)) = map_vals sv (c_rules c) /\
  filter nd (c_groups (config_adjust c)) = filter nd (c_groups c) /\
  ksorted (c_groups (config_adjust c)).
Proof.
  intros S. unfold config_adjust. cbn [c_rules c_groups].
  set (g0 := filter (fun kg => negb (is_default (snd kg))) (c_groups c)).
  assert (S0 : ksorted g0) by (apply filter_sorted; exact S).
  assert (F0 : filter nd g0 = filter nd (c_groups c)).
  { subst g0. change (fun kg : id * group => negb (is_default (snd kg))) with nd. apply filter_twice. }
  split; [|].
  - unfold map_vals. rewrite map_map. apply map_ext. intros [k r]. cbn. rewrite sv_set_group. reflexivity.
  - clearbody g0. rewrite <- F0. clear F0.
    generalize dependent g0. induction (c_rules c) as [|[k r] rest IH]; intros g0 S0; cbn [fold_left]; [split; [reflexivity|exact S0]|].
    cbn [snd]. destruct (gget (r_gid r) g0) eqn:E.
    + apply IH; exact S0.
    + destruct (IH (mset key_cmp (r_gid r) (default_group (r_gid r)) g0)) as [A B]; [apply mset_sorted; exact S0|].
      split; [|exact B]. rewrite A. apply filter_nd_add_default. exact E.
Qed.

Lemma patch_adjust_mirror c p :
  map_vals sv (c_rules (fst (patch_adjust c p))) = map_vals sv (c_rules c) /\
  c_groups (fst (patch_adjust c p)) = c_groups c.
Proof.
  unfold patch_adjust. cbn [fst c_rules c_groups]. split; [|reflexivity].
  unfold map_vals. rewrite map_map. apply map_ext. intros [k r]. cbn [fst snd].
  destruct (mget pair_cmp k (m_rules p)); cbn [fst snd]; [reflexivity|]. rewrite sv_set_group. reflexivity.
Qed.

Lemma commit_rules_mirror l : forall rules s_r,
  s_r = map_vals sv rules ->
  s_rules (fold_left (fun s kr => apply_rule_write kr s) l (Storage s_r [])) =
  map_vals sv (fold_left (fun m (kr : (id * id) * option rule) =>
                            match snd kr with None => mdel pair_cmp (fst kr) m | Some r => mset pair_cmp (fst kr) r m end) l rules).
Proof.
  induction l as [|[k [r|]] rest IH]; intros rules s_r E; cbn [fold_left]; [exact E| |].
  - unfold apply_rule_write at 2. cbn [snd fst s_rules s_groups].
    apply IH. rewrite E, map_vals_mset. reflexivity.
  - unfold apply_rule_write at 2. cbn [snd fst s_rules s_groups].
    apply IH. rewrite E, map_vals_mdel. reflexivity.
Qed.

Lemma rule_writes_keep_groups l : forall s, s_groups (fold_left (fun s kr => apply_rule_write kr s) l s) = s_groups s.
Proof.
  induction l as [|[k [r|]] rest IH]; intros s; cbn [fold_left]; [reflexivity| |]; rewrite IH; reflexivity.
Qed.
Lemma rule_writes_rules l : forall s, s_rules (fold_left (fun s kr => apply_rule_write kr s) l s) =
                                      s_rules (fold_left (fun s kr => apply_rule_write kr s) l (Storage (s_rules s) [])).
Proof.
  induction l as [|[k [r|]] rest IH]; intros s; cbn [fold_left]; [reflexivity| |]; rewrite IH; symmetry; rewrite IH; reflexivity.
Qed.
Lemma group_writes_keep_rules l : forall s, s_rules (fold_left (fun s kg => apply_group_write kg s) l s) = s_rules s.
Proof.
  induction l as [|[k g] rest IH]; intros s; cbn [fold_left]; [reflexivity|]. rewrite IH.
  unfold apply_group_write. destruct (is_default (snd (k, g))); reflexivity.
Qed.

Lemma commit_groups_mirror l : forall G s,
  ksorted G -> s_groups s = filter nd G ->
  s_groups (fold_left (fun s kg => apply_group_write kg s) l s) =
  filter nd (fold_left (fun m (kg : id * group) => mset key_cmp (fst kg) (snd kg) m) l G) /\
  ksorted (fold_left (fun m (kg : id * group) => mset key_cmp (fst kg) (snd kg) m) l G).
Proof.
  induction l as [|[k g] rest IH]; intros G s S E; cbn [fold_left]; [split; assumption|].
  apply IH; [apply mset_sorted; exact S|].
  cbn [fst snd]. rewrite (filter_nd_mset k g G S). unfold apply_group_write. cbn [snd fst].
  destruct (is_default g); cbn [s_groups]; rewrite E; reflexivity.
Qed.

(* an accepted update: what is in the storage afterwards is exactly what is served afterwards *)
Theorem accepted_update_mirrors m s p order m' s' ok :
  mirrors (m_conf m) s ->
  try_commit m s p order None = (m', s', None, ok) ->
  mirrors (m_conf m') s'.
Proof.
  intros [M1 M2 M3] H. unfold try_commit in H.
  pose proof (patch_adjust_mirror (m_conf m) p) as [A1 A2].
  destruct (patch_adjust (m_conf m) p) as [c1 p1]. cbn [fst] in *.
  destruct (build_rule_list (patch_view c1 p1)) as [be|rl]; [inversion H|].
  unfold save_patch in H.
  destruct (save_writes (patch_trim c1 p1) order 1 None s []) as [[s_along failed] ok1].
  destruct failed; [inversion H|]. inversion H; subst. clear H. cbn [m_conf].
  set (p2 := patch_trim c1 p1).
  unfold patch_commit.
  match goal with |- context [config_adjust (Config ?r ?g)] => set (rules' := r); set (groups' := g) end.
  assert (G : s_groups (save_all p2 s) = filter nd groups' /\ ksorted groups').
  { unfold save_all. apply commit_groups_mirror; [rewrite A2; exact M3|].
    rewrite rule_writes_keep_groups, A2. exact M2. }
  destruct G as [G1 G2].
  destruct (config_adjust_facts (Config rules' groups') G2) as (F1 & F2 & F3). cbn [c_rules c_groups] in *.
  constructor.
  - rewrite F1. unfold save_all. rewrite group_writes_keep_rules, rule_writes_rules.
    apply commit_rules_mirror. rewrite M1, A1. reflexivity.
  - rewrite F2. exact G1.
  - exact F3.
Qed.

(* a rejected or failed update leaves the mirror intact when the storage was not written (rejection);
   after a failed save the storage is ahead of the served state until the update is retried *)
Theorem rejected_update_mirrors m s p order f m' s' ok :
  mirrors (m_conf m) s ->
  try_commit m s p order f = (m', s', Some EBuild, ok) ->
  mirrors (m_conf m') s'.
Proof.
  intros [M1 M2 M3] H. unfold try_commit in H.
  pose proof (patch_adjust_mirror (m_conf m) p) as [A1 A2].
  destruct (patch_adjust (m_conf m) p) as [c1 p1]. cbn [fst] in *.
  assert (S1 : ksorted (c_groups c1)) by (rewrite A2; exact M3).
  destruct (config_adjust_facts c1 S1) as (F1 & F2 & F3).
  destruct (build_rule_list (patch_view c1 p1)) as [be|rl].
  - inversion H; subst. cbn [m_conf].
    constructor; [rewrite F1, A1; exact M1|rewrite F2, A2; exact M2|exact F3].
  - destruct (save_patch (patch_trim c1 p1) order f s) as [[s1 failed] ok1]. destruct failed; inversion H.
Qed.

(* the first start: an empty storage *)
Lemma initialize_empty_mirrors mr m s' :
  initialize (Storage [] []) mr = (inl m, s') -> mirrors (m_conf m) s'.
Proof.
  unfold initialize, load_repairs. cbn [load_rules s_rules fold_left filter la_rules la_save la_delete s_groups].
  destruct (build_rule_list _) as [e|rl] eqn:B; intros H; inversion H; subst. cbn [m_conf].
  constructor; cbn; try reflexivity. repeat constructor.
Qed.

(* every history that starts PD on an empty storage and then only issues updates without storage
   faults (any kind, accepted or rejected, any admissible write order) keeps storage = served *)
Definition fault_free_update (o : op) : bool :=
  match o with OUpdate _ None _ | ORetry _ _ => true | _ => false end.

Definition st_mirrors (st : state) : Prop :=
  match st_live st with Some m => mirrors (m_conf m) (st_store st) | None => True end.

Lemma save_writes_no_fault p' o : forall n s seen, snd (fst (save_writes p' o n None s seen)) = false.
Proof.
  induction o as [|x r IH]; intros n s seen; cbn; [reflexivity|].
  destruct (existsb (wref_eqb x) seen); [reflexivity|].
  destruct x; cbn; destruct (mget _ _ _); cbn; try reflexivity; apply IH.
Qed.

Lemma step_update_mirrors st u w : st_mirrors st -> st_mirrors (fst (step_update st u None w)).
Proof.
  unfold st_mirrors, step_update. intros Hst.
  destruct (st_live st) as [m|] eqn:El; [|cbn; rewrite El; exact I].
  destruct (make_patch (m_conf m) u) as [p|]; [|cbn; rewrite El; exact Hst].
  destruct (try_commit m (st_store st) p w None) as [[[m' s'] e] ok] eqn:Et. cbn [fst st_live st_store].
  destruct e as [e|].
  - assert (e = EBuild \/ e = EStorage).
    { unfold try_commit in Et. destruct (patch_adjust (m_conf m) p) as [c1 p1].
      destruct (build_rule_list (patch_view c1 p1)); [inversion Et; left; reflexivity|].
      destruct (save_patch (patch_trim c1 p1) w None (st_store st)) as [[? failed] ?].
      destruct failed; inversion Et. right; reflexivity. }
    destruct H as [->| ->].
    + eapply rejected_update_mirrors; eauto.
    + exfalso. unfold try_commit in Et. destruct (patch_adjust (m_conf m) p) as [c1 p1].
      destruct (build_rule_list (patch_view c1 p1)); [inversion Et|].
      unfold save_patch in Et.
      pose proof (save_writes_no_fault (patch_trim c1 p1) w 1%nat (st_store st) []) as NF.
      destruct (save_writes (patch_trim c1 p1) w 1 None (st_store st) []) as [[? failed] ?]. cbn in NF. subst failed.
      inversion Et.
  - eapply accepted_update_mirrors; eauto.
Qed.

Theorem fault_free_history_mirrors mr ups :
  forallb fault_free_update ups = true ->
  st_mirrors (run_state step init_state (ORestart mr :: ups)).
Proof.
  intros Hff. cbn [run_state].
  assert (E0 : fst (step init_state (ORestart mr)) =
               match initialize (Storage [] []) mr with
               | (inl m, s') => State (Some m) s'
               | (inr _, s') => State None s'
               end).
  { unfold step. cbn [st_store init_state]. destruct (initialize (Storage [] []) mr) as [[m|e] s']; reflexivity. }
  rewrite E0. clear E0.
  assert (G : forall ups st, forallb fault_free_update ups = true -> st_mirrors st -> st_mirrors (run_state step st ups)).
  { clear. induction ups as [|o rest IH]; intros st Hff Hst; [exact Hst|].
    cbn in Hff. apply andb_true_iff in Hff as [Ho Hrest]. cbn [run_state]. apply IH; [exact Hrest|].
    destruct o as [| u f w | u w | | | |]; try discriminate.
    - destruct f; [discriminate|]. apply step_update_mirrors; exact Hst.
    - apply step_update_mirrors; exact Hst. }
  apply G; [exact Hff|].
  destruct (initialize (Storage [] []) mr) as [[m0|e] s0] eqn:Ei; unfold st_mirrors; cbn [st_live st_store]; [|exact I].
  eapply initialize_empty_mirrors; exact Ei.
Qed.

Theorem storage_mirrors_served_pf mr ups :
  forallb fault_free_update ups = true ->
  match st_live (run_state step init_state (ORestart mr :: ups)) with
  | Some m => let s := st_store (run_state step init_state (ORestart mr :: ups)) in
              s_rules s = map_vals sv (c_rules (m_conf m)) /\
              s_groups s = filter nd (c_groups (m_conf m))
  | None => True
  end.
Proof.
  intros H. pose proof (fault_free_history_mirrors mr ups H) as M. unfold st_mirrors in M.
  destruct (st_live (run_state step init_state (ORestart mr :: ups))); [|exact I].
  destruct M as [M1 M2 _]. split; assumption.
Qed.
