(* C09 — structural obligations on operator_controller.go / operator.go / status_tracker.go /
   heartbeat_streams.go as they are now (regenerated gen/Gen_C09.v). The model uses the generated
   matrix and comparison functions directly; these lemmas pin the comparisons and the control skeletons
   the model was written against. *)
From Coq Require Import ZArith.
From PDV Require Import lib.Skel gen.Gen_C09.
Local Open Scope Z_scope.

(* admission compares both epoch components for (in)equality *)
Lemma epoch_version_cmp_ok : forall a b, epoch_mismatch_GetVersion a b = negb (a =? b).
Proof. reflexivity. Qed.
Lemma epoch_confver_cmp_ok : forall a b, epoch_mismatch_GetConfVer a b = negb (a =? b).
Proof. reflexivity. Qed.

(* stale test: strictly more conf_ver change than the steps account for *)
Lemma stale_cmp_ok : forall a b, stale_cmp_gt a b = (b <? a).
Proof. reflexivity. Qed.
Lemma stale_cmp_src_ok : stale_cmp_src =
  "((region.GetRegionEpoch()).GetConfVer() - (op.RegionEpoch()).GetConfVer()) > op.ConfVerChanged(region)".
Proof. reflexivity. Qed.

Lemma higher_priority_ok : forall a b, higher_priority a b = (b <? a).
Proof. reflexivity. Qed.
Lemma waiting_full_ok : forall a b, waiting_full a b = (b <=? a).
Proof. reflexivity. Qed.

Lemma expire_and_wait_times : OperatorExpireTime = 3000000000 /\ FastOperatorWaitTime = 10000000000 /\ SlowOperatorWaitTime = 600000000000.
Proof. repeat split; reflexivity. Qed.

(* the only writer of the status is toLocked, guarded by the matrix *)
Lemma skel_toLocked_ok : skel_trk_toLocked =
  [IfE "dst < statusCount && validTrans[trk.current][dst]" [Assign "trk.current" "= dst"; Call "setTime"; Ret] []; Ret].
Proof. reflexivity. Qed.
Lemma skel_CheckExpired_ok : skel_trk_CheckExpired =
  [Lock "trk.rw"; DeferUnlock "trk.rw"; SwitchE [[Call "Since"; IfE "time.Since(trk.reachTimes[CREATED]) < exp" [Ret] []; Call "toLocked"; Ret]]; Ret].
Proof. reflexivity. Qed.
Lemma skel_CheckTimeout_ok : skel_trk_CheckTimeout =
  [Lock "trk.rw"; DeferUnlock "trk.rw"; SwitchE [[Call "Since"; IfE "time.Since(trk.reachTimes[STARTED]) < wait" [Ret] []; Call "toLocked"; Ret]]; Ret].
Proof. reflexivity. Qed.

Lemma skel_op_Check_ok : skel_op_Check =
  [Call "IsEnd"; IfE "o.IsEnd()" [Ret] []; DeferE [Call "CheckTimeout"]; Call "LoadInt32"; Assign "local1" ":= atomic.LoadInt32(&o.currentStep)"; ForE [Call "IsFinish"; IfE "o.steps[int(local1)].IsFinish(region)" [Call "StoreInt32"] [Ret]; Assign "local1" "++"]; Ret].
Proof. reflexivity. Qed.
Lemma skel_op_ConfVerChanged_ok : skel_op_ConfVerChanged =
  [Call "LoadInt32"; Assign "local1" ":= atomic.LoadInt32(&o.currentStep)"; IfE "local1 == int32(len(o.steps))" [Assign "local1" "--"] []; ForE [Call "ConfVerChanged"; Assign "total" "+= each#v(o.steps[0 : local1+1]).ConfVerChanged(region)"]; Ret].
Proof. reflexivity. Qed.
Lemma skel_op_CheckSuccess_ok : skel_op_CheckSuccess =
  [Call "LoadInt32"; IfE "atomic.LoadInt32(&o.currentStep) >= int32(len(o.steps))" [Call "To"; Ret] []; Ret].
Proof. reflexivity. Qed.
Lemma skel_op_CheckTimeout_ok : skel_op_CheckTimeout =
  [Call "CheckSuccess"; IfE "o.CheckSuccess()" [Ret] []; IfE "o.kind&OpRegion != 0" [Call "CheckTimeout"; Ret] []; Call "CheckTimeout"; Ret].
Proof. reflexivity. Qed.

Lemma skel_Dispatch_ok : skel_oc_Dispatch =
  [Call "GetOperator"; IfE "(oc.GetOperator(region.GetID())) != nil" [Call "Check"; Call "Status"; SwitchE [[Call "checkStaleOperator"; IfE "source == DispatchFromHeartBeat && oc.checkStaleOperator((oc.GetOperator(region.GetID())), ((oc.GetOperator(region.GetID())).Check(region)), region)" [Ret] []; Call "SendScheduleCommand"]; [Call "pushHistory"; Call "RemoveOperator"; IfE "oc.RemoveOperator((oc.GetOperator(region.GetID())))" [Call "PromoteWaitingOperator"] []]; [Call "RemoveOperator"; IfE "oc.RemoveOperator((oc.GetOperator(region.GetID())))" [Call "PromoteWaitingOperator"] []]; [Call "removeOperatorWithoutBury"; IfE "oc.removeOperatorWithoutBury((oc.GetOperator(region.GetID())))" [Call "Status"; Call "Cancel"; Call "buryOperator"; Call "PromoteWaitingOperator"] []]]] []].
Proof. reflexivity. Qed.

Lemma skel_AddOperator_ok : skel_oc_AddOperator =
  [Lock "oc"; DeferUnlock "oc"; Call "exceedStoreLimitLocked"; Call "checkAddOperator"; IfE "oc.exceedStoreLimitLocked(ops...) || !oc.checkAddOperator(ops...)" [ForE [Call "Cancel"; Call "buryOperator"]; Ret] []; ForE [Call "addOperatorLocked"; IfE "!oc.addOperatorLocked(each#v(ops))" [Ret] []]; Ret].
Proof. reflexivity. Qed.

Lemma skel_addOperatorLocked_ok : skel_oc_addOperatorLocked =
  [IfE "(oc.operators[(op.RegionID())])#1" [Call "removeOperatorLocked"; Call "Replace"; Call "buryOperator"] []; Call "Start"; IfE "!op.Start()" [Call "Status"; Ret] []; Call "GetRegion"; IfE "(oc.cluster.GetRegion(op.RegionID())) != nil" [Call "Check"; IfE "local1 != nil" [Call "SendScheduleCommand"] []] []; Ret].
Proof. reflexivity. Qed.

Lemma skel_RemoveOperator_ok : skel_oc_RemoveOperator =
  [Lock "oc"; Call "removeOperatorLocked"; Unlock "oc"; IfE "(oc.removeOperatorLocked(op))" [Call "Cancel"; Call "buryOperator"] []; Ret].
Proof. reflexivity. Qed.

Lemma skel_buryOperator_ok : skel_oc_buryOperator =
  [Call "Status"; Call "IsEndStatus"; IfE "!operator.IsEndStatus((op.Status()))" [Call "Status"; Call "Cancel"] []; Call "Put"].
Proof. reflexivity. Qed.

Lemma skel_PromoteWaitingOperator_ok : skel_oc_PromoteWaitingOperator =
  [Lock "oc"; DeferUnlock "oc"; ForE [Call "GetOperator"; IfE "local1 == nil" [Ret] []; Call "exceedStoreLimitLocked"; Call "checkAddOperator"; IfE "oc.exceedStoreLimitLocked(local1...) || !oc.checkAddOperator(local1...)" [ForE [Call "Cancel"; Call "buryOperator"]] []]; ForE [Call "addOperatorLocked"]].
Proof. reflexivity. Qed.

(* SendMsg: nothing without a leader; region id, region epoch and the leader are stamped on the command *)
Lemma skel_SendMsg_ok : skel_SendMsg =
  [Call "GetLeader"; IfE "region.GetLeader() == nil" [Ret] []; Assign "msg.Header" "= &pdpb.ResponseHeader{ClusterId: s.clusterID}"; Assign "msg.RegionId" "= region.GetID()"; Assign "msg.RegionEpoch" "= region.GetRegionEpoch()"; Call "GetLeader"; Assign "msg.TargetPeer" "= region.GetLeader()"].
Proof. reflexivity. Qed.

(* the push loop: a vanished region's operator is removed, cancelled (if it still can be) and ALWAYS buried;
   GetOpInfluence moves running operators to TIMEOUT / SUCCESS without removing them *)
Lemma skel_pollNeedDispatchRegion_ok : skel_oc_pollNeedDispatchRegion =
  [Lock "oc"; DeferUnlock "oc"; IfE "oc.opNotifierQueue.Len() == 0" [Ret] []; Call "Pop"; IfE "!(oc.operators[((heap.Pop(&oc.opNotifierQueue).(*operatorWithTime)).op.RegionID())])#1 || (oc.operators[((heap.Pop(&oc.opNotifierQueue).(*operatorWithTime)).op.RegionID())])#0 == nil" [Ret] []; Call "GetRegion"; IfE "r == nil" [Call "removeOperatorLocked"; Call "Cancel"; Call "buryOperator"; Ret] []; Call "Check"; IfE "((oc.operators[((heap.Pop(&oc.opNotifierQueue).(*operatorWithTime)).op.RegionID())])#0.Check(r)) == nil" [Ret] []; Call "Before"; IfE "(time.Now()).Before((heap.Pop(&oc.opNotifierQueue).(*operatorWithTime)).time)" [Call "Push"; Ret] []; Call "getNextPushOperatorTime"; Call "Push"; Ret].
Proof. reflexivity. Qed.
Lemma skel_PushOperators_ok : skel_oc_PushOperators =
  [ForE [Call "pollNeedDispatchRegion"; IfE "!(oc.pollNeedDispatchRegion())#1" [Brk] []; IfE "(oc.pollNeedDispatchRegion())#0 == nil" [Cont] []; Call "Dispatch"]].
Proof. reflexivity. Qed.
Lemma skel_GetOpInfluence_ok : skel_oc_GetOpInfluence =
  [RLock "oc"; DeferRUnlock "oc"; ForE [Call "CheckTimeout"; Call "CheckSuccess"; IfE "!each#v(oc.operators).CheckTimeout() && !each#v(oc.operators).CheckSuccess()" [Call "GetRegion"] []]; Ret].
Proof. reflexivity. Qed.

(* who changes the running set, and which entry points the controller has: addOperatorLocked and removeOperatorLocked are
   the modelled writers (SetOperator is the test-only setter of operator_controller.go, "only used for test"); a new writer -
   an admin "cancel all", a recovery path - has to cancel, bury and record under the lock like they do, and a new
   exported method is an entry point neither the driver nor the model knows *)
Lemma running_set_writers_ok : running_set_writers = ["addOperatorLocked"; "removeOperatorLocked"; "SetOperator"].
Proof. reflexivity. Qed.
Lemma controller_entry_points_ok : controller_entry_points =
  ["AddOperator"; "AddWaitingOperator"; "Ctx"; "Dispatch"; "ExceedStoreLimit"; "GetCluster"; "GetFastOpInfluence"; "GetHistory"; "GetLeaderSchedulePolicy"; "GetOpInfluence"; "GetOperator"; "GetOperatorStatus"; "GetOperators"; "GetWaitingOperators"; "OperatorCount"; "PromoteWaitingOperator"; "PruneHistory"; "PushOperators"; "RemoveOperator"; "SendScheduleCommand"; "SetOperator"].
Proof. reflexivity. Qed.

(* the gRPC layer above the controller: Server.RegionHeartbeat drops a heartbeat before RaftCluster.HandleRegionHeartbeat
   (cache update + Dispatch: the stale test) only when it is forwarded to another member, names no leader, no region id or no
   peers, or when processing it failed - never because of its report interval or flow fields *)
Lemma heartbeat_skip_conditions_ok : heartbeat_skip_conditions =
  ["!s.isLocalRequest(forwardedHost)"; "region.GetLeader() == nil"; "region.GetID() == 0"; "len(region.GetPeers()) == 0"; "err != nil"].
Proof. reflexivity. Qed.
