(* C07 — classifyVoterAndLearner sorts the voters and the learners with sort.Sort(peerSlice) (by peer id).  The model
   uses a stable insertion sort (what sort.Sort does below 12 elements).  When the peer ids of a region are distinct
   - they come from PD's id allocator - the result does not depend on the algorithm at all: it is THE sorted
   permutation.  So the model is faithful for any number of peers, relying only on the contract of sort.Sort
   (the result is a permutation of the input, sorted by Less). *)
From Coq Require Import Permutation Sorting.Sorted.
From PDV Require Import lib.Base lib.C07_Key model.C07_BTreeSpec model.C07_Region proof.C07_RegionProof.
Local Open Scope Z_scope.

Definition id_le (a b : peer) : Prop := p_id a <= p_id b.

Lemma ins_peer_in p l x : In x (ins_peer p l) <-> x = p \/ In x l.
Proof.
  induction l as [|y l IH]; cbn; [intuition|]. destruct (p_id p <? p_id y); cbn; [intuition|]. rewrite IH. intuition.
Qed.

Lemma ins_peer_sorted p l : StronglySorted id_le l -> StronglySorted id_le (ins_peer p l).
Proof.
  induction l as [|y l IH]; intros S; cbn; [constructor; [constructor|constructor]|].
  inversion S as [|? ? S' F]; subst. destruct (Z.ltb_spec (p_id p) (p_id y)) as [L|G].
  - constructor; [exact S|]. constructor; [unfold id_le; lia|].
    rewrite Forall_forall in *. intros z Hz. specialize (F z Hz). unfold id_le in *. lia.
  - constructor; [apply IH, S'|]. rewrite Forall_forall in *. intros z Hz. apply ins_peer_in in Hz as [->|Hz]; [unfold id_le; lia|auto].
Qed.

Theorem sort_peers_sorted l : StronglySorted id_le (sort_peers l).
Proof.
  unfold sort_peers. assert (G : forall acc, StronglySorted id_le acc -> StronglySorted id_le (fold_left (fun acc p => ins_peer p acc) l acc)).
  { induction l as [|p l IH]; intros acc S; cbn; [exact S|]. apply IH, ins_peer_sorted, S. }
  apply G. constructor.
Qed.

Lemma sorted_perm_unique (l1 : list peer) : forall l2,
  NoDup (map p_id l1) -> StronglySorted id_le l1 -> StronglySorted id_le l2 -> Permutation l1 l2 -> l1 = l2.
Proof.
  induction l1 as [|a r1 IH]; intros l2 N S1 S2 P.
  - apply Permutation_nil in P. congruence.
  - destruct l2 as [|b r2]; [apply Permutation_sym, Permutation_nil in P; discriminate|].
    inversion S1 as [|? ? S1' F1]; subst. inversion S2 as [|? ? S2' F2]; subst. inversion N as [|? ? NA N']; subst.
    assert (E : a = b).
    { assert (Hb : In b (a :: r1)) by (eapply Permutation_in; [apply Permutation_sym, P|left; reflexivity]).
      assert (Ha : In a (b :: r2)) by (eapply Permutation_in; [exact P|left; reflexivity]).
      destruct Hb as [E|Hb]; [exact E|]. destruct Ha as [E|Ha]; [auto|].
      rewrite Forall_forall in F1, F2. pose proof (F1 b Hb) as L1. pose proof (F2 a Ha) as L2. unfold id_le in *.
      exfalso. apply NA. assert (EQ : p_id a = p_id b) by lia. rewrite EQ. apply in_map, Hb. }
    subst b. f_equal. apply IH; auto. eapply Permutation_cons_inv; eauto.
Qed.

(* any sorting procedure that returns a sorted permutation returns what the model computes *)
Theorem sort_peers_unique l l' : NoDup (map p_id l) -> Permutation l l' -> StronglySorted id_le l' -> l' = sort_peers l.
Proof.
  intros N P S. symmetry. apply sorted_perm_unique.
  - eapply Permutation_NoDup; [|exact N]. apply Permutation_map, sort_peers_perm.
  - apply sort_peers_sorted.
  - exact S.
  - eapply Permutation_trans; [apply Permutation_sym, sort_peers_perm|exact P].
Qed.
