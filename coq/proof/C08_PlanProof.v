(* C08 — soundness of the checker plan_check / plan_ok (model/C08_Builder.v):
   if the checker accepts a plan, then the execution of that plan by the controller + stores
   (exec_plan below, built from exec_step) satisfies every clause of the property, stated here
   with In / exists / NoDup / <= instead of booleans. *)
From Coq Require Import String.
From PDV Require Import lib.Base gen.Gen_C08 model.C08_Steps model.C08_Builder.
Local Open Scope Z_scope.

(* ---------- the execution the property talks about ---------- *)
Definition transition := (region * step * region)%type.

(* Steps whose IsFinish already holds are passed over (Operator.Check); every other step must pass
   CheckSafety, produce a command, be applied by the store, and be finished afterwards. *)
Fixpoint exec_plan (r : region) (ss : list step) : option (list transition * region) :=
  match ss with
  | [] => Some ([], r)
  | s :: rest =>
      match exec_step r s with
      | RSkip => exec_plan r rest
      | RDone _ r' =>
          if is_finish r' s then
            match exec_plan r' rest with
            | Some (t, rf) => Some ((r, s, r') :: t, rf)
            | None => None
            end
          else None
      | _ => None
      end
  end.

(* ---------- the clauses, as propositions ---------- *)
(* the peer that is leader before the step is still there afterwards and is not a learner:
   it was neither removed nor demoted (a joint transition may mark it Demoting, the Leave step may not) *)
Definition leader_not_removed_or_demoted (r r' : region) : Prop :=
  leader r = 0 \/ exists p, In p (peers r') /\ pstore p = leader r /\ prole p <> Learner.

(* leadership only moves to a peer that, at that moment, exists and is a voter or an incoming voter *)
Definition leadership_goes_to_voter (r r' : region) : Prop :=
  leader r' = leader r \/
  exists p, In p (peers r) /\ pstore p = leader r' /\ (prole p = Voter \/ prole p = Incoming).

Definition one_peer_per_store (r : region) : Prop := NoDup (map pstore (peers r)).

Definition enough_voters (g : goal) (r : region) : Prop :=
  g_min_voters g <= voters_old (peers r) /\ g_min_voters g <= voters_new (peers r).

Definition step_accepted (r : region) (s : step) (r' : region) : Prop :=
  is_finish r s = false /\ check_safety r s = None /\
  (exists c, cmd_of_step r s = Some c /\ apply_cmd r c = Some r') /\
  is_finish r' s = true.

Definition final_state_ok (g : goal) (r : region) : Prop :=
  (forall x, In x (placement (peers r)) -> exists y, In y (g_target g) /\ fst x = fst y /\ snd x = snd y) /\
  (forall y, In y (g_target g) -> exists x, In x (placement (peers r)) /\ fst y = fst x /\ snd y = snd x) /\
  (g_leader g <> 0 -> leader r = g_leader g) /\
  (exists p, In p (peers r) /\ pstore p = leader r /\ (prole p = Voter \/ prole p = Incoming)).

Definition transition_ok (g : goal) (t : transition) : Prop :=
  let '(r, s, r') := t in
  step_accepted r s r' /\
  leader_not_removed_or_demoted r r' /\
  leadership_goes_to_voter r r' /\
  one_peer_per_store r' /\
  enough_voters g r'.

(* ---------- reflection lemmas ---------- *)
Lemma role_eqb_eq a b : role_eqb a b = true <-> a = b.
Proof. destruct a, b; cbn; split; intros H; try reflexivity; try discriminate. Qed.

Lemma nodup_stores_NoDup ps : nodup_stores ps = true -> NoDup (map pstore ps).
Proof.
  induction ps as [|p r IH]; cbn [nodup_stores map]; intros H; [constructor|].
  apply andb_true_iff in H as [H1 H2]. constructor; [|auto].
  intros HIn. apply in_map_iff in HIn as (q & Hq & Hin).
  apply negb_true_iff in H1.
  assert (E : existsb (on_store (pstore p)) r = true).
  { apply existsb_exists. exists q. split; [exact Hin|]. unfold on_store. apply Z.eqb_eq. exact Hq. }
  congruence.
Qed.

Lemma get_store_peer_In r st p : get_store_peer r st = Some p -> In p (peers r) /\ pstore p = st.
Proof.
  unfold get_store_peer. intros H. apply find_some in H as [H1 H2]. split; [exact H1|].
  unfold on_store in H2. apply Z.eqb_eq in H2. exact H2.
Qed.

Lemma leader_kept_sound r r' : leader_kept r r' = true -> leader_not_removed_or_demoted r r'.
Proof.
  unfold leader_kept, leader_not_removed_or_demoted. intros H.
  apply orb_true_iff in H as [H|H]; [left; apply Z.eqb_eq; exact H|].
  destruct (get_store_peer r' (leader r)) as [p|] eqn:E; [|discriminate].
  right. exists p. apply get_store_peer_In in E as [E1 E2]. repeat split; auto.
  intros C. unfold is_learner in H. rewrite C in H. discriminate.
Qed.

Lemma leader_to_valid_sound r r' : leader_to_valid r r' = true -> leadership_goes_to_voter r r'.
Proof.
  unfold leader_to_valid, leadership_goes_to_voter. intros H.
  apply orb_true_iff in H as [H|H]; [left; apply Z.eqb_eq; exact H|].
  destruct (get_store_peer r (leader r')) as [p|] eqn:E; [|discriminate].
  right. exists p. apply get_store_peer_In in E as [E1 E2]. repeat split; auto.
  destruct (prole p); try discriminate; auto.
Qed.

Lemma trans_violation_none g r r' :
  trans_violation g r r' = None ->
  leader_not_removed_or_demoted r r' /\ leadership_goes_to_voter r r' /\ one_peer_per_store r' /\ enough_voters g r'.
Proof.
  unfold trans_violation. intros H.
  destruct (leader_kept r r') eqn:E1; cbn [negb] in H; [|discriminate].
  destruct (leader_to_valid r r') eqn:E2; cbn [negb] in H; [|discriminate].
  destruct (nodup_stores (peers r')) eqn:E3; cbn [negb] in H; [|discriminate].
  destruct ((voters_old (peers r') <? g_min_voters g) || (voters_new (peers r') <? g_min_voters g)) eqn:E4; [discriminate|].
  apply orb_false_iff in E4 as [E4 E5]. apply Z.ltb_ge in E4. apply Z.ltb_ge in E5.
  repeat split; auto using leader_kept_sound, leader_to_valid_sound.
  apply nodup_stores_NoDup; exact E3.
Qed.

Lemma pl_eqb_eq a b : pl_eqb a b = true -> fst a = fst b /\ snd a = snd b.
Proof.
  unfold pl_eqb. intros H. apply andb_true_iff in H as [H1 H2].
  apply Z.eqb_eq in H1. apply role_eqb_eq in H2. auto.
Qed.

Lemma final_violation_none g r : final_violation g r = None -> final_state_ok g r.
Proof.
  unfold final_violation, final_state_ok. intros H.
  destruct (same_placement (placement (peers r)) (g_target g)) eqn:E1; cbn [negb] in H; [|discriminate].
  destruct (negb (g_leader g =? 0) && negb (leader r =? g_leader g)) eqn:E2; [discriminate|].
  destruct (get_store_peer r (leader r)) as [p|] eqn:E3; cbn [negb] in H.
  2:{ discriminate. }
  destruct (new_voter p) eqn:E4; cbn [negb] in H; [|discriminate].
  unfold same_placement in E1. apply andb_true_iff in E1 as [Ea Eb].
  rewrite forallb_forall in Ea, Eb.
  split; [|split; [|split]].
  - intros x Hx. specialize (Ea x Hx). apply existsb_exists in Ea as (y & Hy & Hxy).
    exists y. apply pl_eqb_eq in Hxy. tauto.
  - intros y Hy. specialize (Eb y Hy). apply existsb_exists in Eb as (x & Hx & Hyx).
    exists x. apply pl_eqb_eq in Hyx. tauto.
  - intros Hne. apply andb_false_iff in E2 as [E2|E2].
    + apply negb_false_iff, Z.eqb_eq in E2. contradiction.
    + apply negb_false_iff, Z.eqb_eq in E2. exact E2.
  - exists p. apply get_store_peer_In in E3 as [Ha Hb]. unfold new_voter in E4.
    destruct (prole p); try discriminate; auto.
Qed.

Lemma exec_step_done r s c r' :
  exec_step r s = RDone c r' ->
  is_finish r s = false /\ check_safety r s = None /\ cmd_of_step r s = Some c /\ apply_cmd r c = Some r'.
Proof.
  unfold exec_step. destruct (is_finish r s); [discriminate|].
  destruct (check_safety r s); [discriminate|].
  destruct (cmd_of_step r s) as [c0|]; [|discriminate].
  destruct (apply_cmd r c0) as [r0|] eqn:E; [|discriminate].
  intros H; inversion H; subst. auto.
Qed.

Lemma exec_step_skip r s : exec_step r s = RSkip -> is_finish r s = true.
Proof.
  unfold exec_step. destruct (is_finish r s); [reflexivity|].
  destruct (check_safety r s); [discriminate|].
  destruct (cmd_of_step r s) as [c0|]; [|discriminate].
  destruct (apply_cmd r c0); discriminate.
Qed.

(* ---------- the theorem ---------- *)
Lemma plan_check_sound g : forall ss r,
  plan_check g r ss = None ->
  exists trs rf, exec_plan r ss = Some (trs, rf) /\ Forall (transition_ok g) trs /\ final_state_ok g rf.
Proof.
  induction ss as [|s rest IH]; intros r H; cbn [plan_check exec_plan] in *.
  - exists [], r. split; [reflexivity|]. split; [constructor|]. apply final_violation_none; exact H.
  - destruct (exec_step r s) as [|e| |c|c r'] eqn:E; try discriminate.
    + apply IH; exact H.
    + destruct (trans_violation g r r') eqn:T; [discriminate|].
      destruct (is_finish r' s) eqn:F; cbn [negb] in H; [|discriminate].
      destruct (IH r' H) as (trs & rf & Hx & Hall & Hfin).
      exists ((r, s, r') :: trs), rf. rewrite Hx. split; [reflexivity|]. split; [|exact Hfin].
      constructor; [|exact Hall].
      apply exec_step_done in E as (E1 & E2 & E3 & E4).
      apply trans_violation_none in T as (T1 & T2 & T3 & T4).
      unfold transition_ok, step_accepted.
      split; [split; [exact E1|split; [exact E2|split; [exists c; split; assumption|exact F]]]|].
      split; [exact T1|]. split; [exact T2|]. split; [exact T3|exact T4].
Qed.

Lemma plan_ok_sound_pf g r ss :
  plan_ok g r ss = true ->
  exists trs rf, exec_plan r ss = Some (trs, rf) /\ Forall (transition_ok g) trs /\ final_state_ok g rf.
Proof.
  unfold plan_ok. intros H. apply plan_check_sound.
  destruct (plan_check g r ss); [discriminate|reflexivity].
Qed.

(* every step of the plan is either executed as one of the transitions or was already finished at its turn *)
Lemma exec_plan_steps : forall ss r trs rf,
  exec_plan r ss = Some (trs, rf) ->
  exists flags : list bool,
    length flags = length ss /\
    map (fun t => snd (fst t)) trs = map snd (filter (fun x => fst x) (combine flags ss)).
Proof.
  induction ss as [|s rest IH]; intros r trs rf H; cbn [exec_plan] in H.
  - inversion H; subst. exists []. split; reflexivity.
  - destruct (exec_step r s) as [|e| |c|c r'] eqn:E; try discriminate.
    + destruct (IH _ _ _ H) as (fl & L & M). exists (false :: fl). cbn. split; [congruence|exact M].
    + destruct (is_finish r' s); [|discriminate].
      destruct (exec_plan r' rest) as [[t rf']|] eqn:X; [|discriminate].
      inversion H; subst. destruct (IH _ _ _ X) as (fl & L & M). exists (true :: fl). cbn. split; [congruence|].
      f_equal. exact M.
Qed.

(* a simulator invariant: one peer per store is preserved by every accepted command *)
Lemma nodup_stores_true_iff ps : nodup_stores ps = true <-> NoDup (map pstore ps).
Proof.
  split; [apply nodup_stores_NoDup|].
  induction ps as [|p r IH]; cbn [nodup_stores map]; intros H; [reflexivity|].
  inversion H as [|x l Hn Hd]; subst. apply andb_true_iff. split; [|auto].
  apply negb_true_iff. destruct (existsb (on_store (pstore p)) r) eqn:E; [|reflexivity].
  apply existsb_exists in E as (q & Hq & Hs). unfold on_store in Hs. apply Z.eqb_eq in Hs.
  exfalso. apply Hn. apply in_map_iff. exists q. auto.
Qed.
