(* C07 — lemmas about the ordered-list specification L0 on lists sorted by region start key:
   on such lists every btree operation is a `filter`, which is the normal form the L1/L2 proofs use. *)
From Coq Require Import Permutation Sorting.Sorted.
From PDV Require Import lib.Base lib.C07_Key gen.Gen_C07 model.C07_BTreeSpec model.C07_Region.
Local Open Scope Z_scope.

Definition slt (x y : region) : Prop := klt (r_start x) (r_start y).
Definition ssorted (T : list region) : Prop := StronglySorted slt T.
Definition same (r x : region) : bool := key_eqb (r_start x) (r_start r).

Lemma rlt_spec x y : reflect (slt x y) (rlt x y).
Proof. unfold rlt, slt. apply key_ltb_spec. Qed.

Ltac rreflect :=
  unfold same, rlt, slt in *; kreflect.

Lemma ssorted_inv x T : ssorted (x :: T) -> ssorted T /\ Forall (slt x) T.
Proof. intros H; inversion H; subst; auto. Qed.

Lemma ssorted_cons x T : ssorted T -> Forall (slt x) T -> ssorted (x :: T).
Proof. intros; constructor; auto. Qed.

Lemma ssorted_filter p T : ssorted T -> ssorted (filter p T).
Proof.
  induction T as [|x T IH]; intros H; cbn; [constructor|].
  apply ssorted_inv in H as [H1 H2]. destruct (p x); [|auto].
  apply ssorted_cons; [auto|]. rewrite Forall_forall in *. intros y Hy. apply filter_In in Hy as [Hy _]. auto.
Qed.

Lemma ssorted_app_inv T1 T2 : ssorted (T1 ++ T2) ->
  ssorted T1 /\ ssorted T2 /\ (forall x y, In x T1 -> In y T2 -> slt x y).
Proof.
  induction T1 as [|a T1 IH]; cbn; intros H.
  - repeat split; [constructor|exact H|intros x y []].
  - apply ssorted_inv in H as [H1 H2]. destruct (IH H1) as (A & B & C).
    rewrite Forall_forall in H2. repeat split; auto.
    + apply ssorted_cons; [exact A|]. rewrite Forall_forall. intros y Hy. apply H2. apply in_or_app; auto.
    + intros x y [<-|Hx] Hy; [apply H2; apply in_or_app; auto | auto].
Qed.

Lemma ssorted_in_eq T x y : ssorted T -> In x T -> In y T -> r_start x = r_start y -> x = y.
Proof.
  induction T as [|a T IH]; intros H Hx Hy E; [destruct Hx|].
  apply ssorted_inv in H as [H1 H2]. rewrite Forall_forall in H2.
  destruct Hx as [<-|Hx], Hy as [<-|Hy]; auto.
  - specialize (H2 _ Hy). unfold slt in H2. rewrite E in H2. exfalso; korder.
  - specialize (H2 _ Hx). unfold slt in H2. rewrite E in H2. exfalso; korder.
Qed.

Lemma Permutation_filter {A} (p : A -> bool) l1 l2 : Permutation l1 l2 -> Permutation (filter p l1) (filter p l2).
Proof.
  induction 1; cbn; try reflexivity.
  - destruct (p x); [constructor|]; assumption.
  - destruct (p x), (p y); try reflexivity; try (constructor; reflexivity); try apply perm_swap.
  - etransitivity; eauto.
Qed.

Lemma filter_ext_in' {A} (p q : A -> bool) l : (forall x, In x l -> p x = q x) -> filter p l = filter q l.
Proof.
  induction l as [|a l IH]; intros H; cbn; [reflexivity|].
  rewrite (H a (or_introl eq_refl)). rewrite IH; [reflexivity|]. intros x Hx; apply H; right; exact Hx.
Qed.

Lemma filter_filter {A} (p q : A -> bool) l : filter p (filter q l) = filter (fun x => q x && p x) l.
Proof.
  induction l as [|a l IH]; cbn; [reflexivity|]. destruct (q a); cbn; [destruct (p a)|]; rewrite IH; reflexivity.
Qed.

Lemma filter_true_id {A} (p : A -> bool) l : (forall x, In x l -> p x = true) -> filter p l = l.
Proof.
  induction l as [|a l IH]; intros H; cbn; [reflexivity|].
  rewrite (H a (or_introl eq_refl)). f_equal. apply IH. intros x Hx; apply H; right; exact Hx.
Qed.

Lemma filter_false_nil {A} (p : A -> bool) l : (forall x, In x l -> p x = false) -> filter p l = [].
Proof.
  induction l as [|a l IH]; intros H; cbn; [reflexivity|].
  rewrite (H a (or_introl eq_refl)). apply IH. intros x Hx; apply H; right; exact Hx.
Qed.

(* ---- take_while / ascend / descend as filters ---- *)
Definition prefix_closed (p : region -> bool) : Prop :=
  forall x y, slt x y -> p y = true -> p x = true.

Lemma take_while_filter p T : ssorted T -> prefix_closed p -> take_while p T = filter p T.
Proof.
  intros H PC. induction T as [|x T IH]; cbn; [reflexivity|].
  apply ssorted_inv in H as [H1 H2]. destruct (p x) eqn:E; [f_equal; auto|].
  symmetry. apply filter_false_nil. rewrite Forall_forall in H2. intros y Hy.
  destruct (p y) eqn:Ey; [|reflexivity]. rewrite (PC _ _ (H2 _ Hy) Ey) in E. discriminate.
Qed.

Lemma ascend_ge_filter p T : ssorted T -> l0_ascend_ge rlt p T = filter (fun x => negb (rlt x p)) T.
Proof.
  intros H. induction T as [|x T IH]; cbn; [reflexivity|].
  apply ssorted_inv in H as [H1 H2]. destruct (rlt x p) eqn:E; cbn; [auto|].
  f_equal. symmetry. rewrite Forall_forall in H2.
  clear IH H1. induction T as [|y T IH]; cbn; [reflexivity|].
  assert (Hy : rlt y p = false).
  { specialize (H2 y (or_introl eq_refl)). rreflect; try reflexivity; try discriminate. exfalso; korder. }
  rewrite Hy; cbn. f_equal. apply IH. intros z Hz; apply H2; right; exact Hz.
Qed.

Lemma descend_acc_take p l acc :
  l0_descend_le_acc rlt p l acc = rev (take_while (fun x => negb (rlt p x)) l) ++ acc.
Proof.
  revert acc; induction l as [|x l IH]; intros acc; cbn; [reflexivity|].
  destruct (rlt p x); cbn; [reflexivity|]. rewrite IH, <- app_assoc. reflexivity.
Qed.

Lemma descend_le_filter p T : ssorted T -> l0_descend_le rlt p T = rev (filter (fun x => negb (rlt p x)) T).
Proof.
  intros H. unfold l0_descend_le. rewrite descend_acc_take, app_nil_r. f_equal.
  apply take_while_filter; [exact H|].
  intros x y S Hy. rreflect; try reflexivity; try discriminate. exfalso; korder.
Qed.

(* ---- delete / insert ---- *)
Lemma l0_delete_filter x T : ssorted T ->
  fst (l0_delete rlt x T) = filter (fun y => negb (same x y)) T.
Proof.
  intros H. induction T as [|a T IH]; cbn; [reflexivity|].
  apply ssorted_inv in H as [H1 H2].
  destruct (rlt a x) eqn:E1.
  - destruct (l0_delete rlt x T) as [T' o] eqn:ED. cbn in *. rewrite (IH H1).
    replace (same x a) with false; [reflexivity|]. rreflect; try reflexivity; try discriminate. exfalso; korder.
  - rewrite Forall_forall in H2.
    assert (R : filter (fun y => negb (same x y)) T = T).
    { clear IH H1. induction T as [|b T IH]; cbn; [reflexivity|].
      specialize (H2 b (or_introl eq_refl)) as Hb.
      replace (same x b) with false; [cbn; f_equal; apply IH; intros z Hz; apply H2; right; exact Hz|].
      rreflect; try reflexivity; try discriminate. exfalso; korder. }
    destruct (rlt x a) eqn:E2; cbn.
    + replace (same x a) with false; [cbn; rewrite R; reflexivity|].
      rreflect; try reflexivity; try discriminate. exfalso; korder.
    + replace (same x a) with true; [cbn; rewrite R; reflexivity|].
      rreflect; try reflexivity; try discriminate. exfalso; korder.
Qed.

Lemma l0_insert_ins r T : (forall x, In x T -> same r x = false) ->
  l0_insert rlt r T = (ins_region r T, None).
Proof.
  induction T as [|a T IH]; intros H; cbn; [reflexivity|].
  destruct (rlt r a) eqn:E1; [reflexivity|].
  assert (Ha := H a (or_introl eq_refl)).
  replace (rlt a r) with true.
  - rewrite IH; [reflexivity|]. intros x Hx; apply H; right; exact Hx.
  - rreflect; try reflexivity; try discriminate. exfalso; korder.
Qed.

Lemma ins_region_in r T x : In x (ins_region r T) <-> x = r \/ In x T.
Proof.
  induction T as [|a T IH]; cbn; [intuition|].
  destruct (rlt r a); cbn; [intuition|]. rewrite IH. intuition.
Qed.

Lemma ins_region_sorted r T : ssorted T -> (forall x, In x T -> same r x = false) -> ssorted (ins_region r T).
Proof.
  induction T as [|a T IH]; intros H NE; cbn.
  - apply ssorted_cons; constructor.
  - apply ssorted_inv in H as [H1 H2].
    destruct (rlt r a) eqn:E.
    + apply ssorted_cons; [apply ssorted_cons; auto|].
      rewrite Forall_forall in *. intros y [<-|Hy]; [rreflect; auto; discriminate|].
      specialize (H2 _ Hy). rreflect; try discriminate. korder.
    + apply ssorted_cons.
      * apply IH; [exact H1|]. intros x Hx; apply NE; right; exact Hx.
      * rewrite Forall_forall in *. intros y Hy. apply ins_region_in in Hy as [->|Hy]; [|auto].
        specialize (NE a (or_introl eq_refl)). rreflect; try discriminate. korder.
Qed.

Lemma ins_region_perm r T : Permutation (r :: T) (ins_region r T).
Proof.
  induction T as [|a T IH]; cbn; [reflexivity|].
  destruct (rlt r a); [reflexivity|]. rewrite perm_swap. constructor. exact IH.
Qed.

(* inserting between: the sorted list with r at its place *)
Lemma ins_region_middle r T1 T2 :
  (forall x, In x T1 -> slt x r) -> (forall y, In y T2 -> slt r y) ->
  ins_region r (T1 ++ T2) = T1 ++ r :: T2.
Proof.
  intros H1 H2. induction T1 as [|a T1 IH]; cbn.
  - destruct T2 as [|b T2]; cbn; [reflexivity|].
    specialize (H2 b (or_introl eq_refl)). destruct (rlt_spec r b); [reflexivity|contradiction].
  - specialize (H1 a (or_introl eq_refl)) as Ha.
    destruct (rlt_spec r a) as [L|_]; [unfold slt in *; exfalso; korder|].
    f_equal. apply IH. intros x Hx; apply H1; right; exact Hx.
Qed.

Lemma ins_region_filter_same r T : ssorted T -> In r T ->
  ins_region r (filter (fun y => negb (same r y)) T) = T.
Proof.
  intros H Hr. apply in_split in Hr as (T1 & T2 & ->).
  apply ssorted_app_inv in H as (A & B & C).
  apply ssorted_inv in B as [B1 B2]. rewrite Forall_forall in B2.
  rewrite filter_app. cbn. replace (same r r) with true by (unfold same; destruct (key_eqb_spec (r_start r) (r_start r)); congruence).
  cbn.
  assert (F1 : filter (fun y => negb (same r y)) T1 = T1).
  { apply filter_true_id. intros x Hx. specialize (C x r Hx (or_introl eq_refl)).
    rreflect; try reflexivity. exfalso; korder. }
  assert (F2 : filter (fun y => negb (same r y)) T2 = T2).
  { apply filter_true_id. intros x Hx. specialize (B2 x Hx).
    rreflect; try reflexivity. exfalso; korder. }
  rewrite F1, F2. apply ins_region_middle; [intros x Hx; apply C; [exact Hx|left; reflexivity] | exact B2].
Qed.

(* the sorted permutation is unique *)
Lemma sort_regions_unique l T : Permutation l T -> ssorted T -> sort_regions l = T.
Proof.
  revert T; induction l as [|x l IH]; intros T P S.
  - apply Permutation_nil in P. subst; reflexivity.
  - change (sort_regions (x :: l)) with (ins_region x (sort_regions l)).
    assert (Hx : In x T) by (eapply Permutation_in; [exact P|left; reflexivity]).
    apply in_split in Hx as (T1 & T2 & ->).
    apply Permutation_cons_app_inv in P.
    apply ssorted_app_inv in S as (A & B & C).
    apply ssorted_inv in B as [B1 B2]. rewrite Forall_forall in B2.
    rewrite (IH (T1 ++ T2)); [| exact P |].
    + apply ins_region_middle; [intros y Hy; apply C; [exact Hy|left; reflexivity] | exact B2].
    + clear -A B1 C. induction T1 as [|a T1 IH]; cbn; [exact B1|].
      apply ssorted_inv in A as [A1 A2]. apply ssorted_cons.
      * apply IH; [exact A1|]. intros x0 y0 Hx0 Hy0; apply C; [right; exact Hx0|exact Hy0].
      * rewrite Forall_forall in *. intros y Hy. apply in_app_or in Hy as [Hy|Hy]; [auto|].
        specialize (C a y (or_introl eq_refl)). apply C. right; exact Hy.
Qed.

(* rank = number of smaller items *)
Lemma l0_rank_filter p T : ssorted T -> l0_rank rlt p T = length (filter (fun x => rlt x p) T).
Proof.
  intros H. induction T as [|a T IH]; cbn; [reflexivity|].
  apply ssorted_inv in H as [H1 H2]. destruct (rlt a p) eqn:E; cbn; [rewrite IH; auto|].
  rewrite filter_false_nil; [reflexivity|]. rewrite Forall_forall in H2. intros x Hx. specialize (H2 x Hx).
  rreflect; try reflexivity; try discriminate. exfalso; korder.
Qed.

Lemma l0_get_spec p T : ssorted T ->
  l0_get rlt p T = List.find (fun x => same p x) T.
Proof.
  intros H. induction T as [|a T IH]; cbn; [reflexivity|].
  apply ssorted_inv in H as [H1 H2].
  destruct (rlt a p) eqn:E1.
  - replace (same p a) with false; [auto|]. rreflect; try reflexivity; try discriminate. exfalso; korder.
  - destruct (rlt p a) eqn:E2.
    + replace (same p a) with false by (rreflect; try reflexivity; try discriminate; exfalso; korder).
      symmetry. rewrite Forall_forall in H2. clear IH H1.
      induction T as [|b T IH]; cbn; [reflexivity|].
      replace (same p b) with false; [apply IH; intros z Hz; apply H2; right; exact Hz|].
      specialize (H2 b (or_introl eq_refl)). rreflect; try reflexivity; try discriminate. exfalso; korder.
    + replace (same p a) with true; [reflexivity|]. rreflect; try reflexivity; try discriminate. exfalso; korder.
Qed.
