(* C08 — the transcribed CheckSafety / IsFinish of step.go imply what the property asks of them
   (spec_safe / spec_done of model/C08_Steps.v), for every step kind, every region with one peer per
   store and every step naming non-zero peer ids.  The driver's step monitor evaluates the
   IMPLEMENTATION's answers against the same two predicates. *)
From Coq Require Import String.
From PDV Require Import lib.Base gen.Gen_C08 model.C08_Steps proof.C08_ListFacts.
Local Open Scope string_scope.
Local Open Scope list_scope.
Local Open Scope Z_scope.

(* ---------- lookups ---------- *)
Section Lookups.
  Variable r : region.
  Hypothesis Hnd : ND (peers r).

  Lemma voter_some st p : get_store_voter r st = Some p -> get_store_peer r st = Some p /\ is_learner p = false.
  Proof.
    rewrite get_store_voter_lk by exact Hnd. rewrite get_store_peer_lk.
    destruct (lk (peers r) st) as [q|]; [|discriminate]. destruct (is_learner q) eqn:E; [discriminate|].
    intros H; inversion H; subst. auto.
  Qed.

  Lemma voter_none st : get_store_voter r st = None ->
    get_store_peer r st = None \/ exists p, get_store_peer r st = Some p /\ is_learner p = true.
  Proof.
    rewrite get_store_voter_lk by exact Hnd. rewrite get_store_peer_lk.
    destruct (lk (peers r) st) as [q|]; [|auto]. destruct (is_learner q) eqn:E; [|discriminate]. intros _. right. eauto.
  Qed.

  Lemma learner_some st p : get_store_learner r st = Some p -> get_store_peer r st = Some p /\ is_learner p = true.
  Proof.
    rewrite get_store_learner_lk by exact Hnd. rewrite get_store_peer_lk.
    destruct (lk (peers r) st) as [q|]; [|discriminate]. destruct (is_learner q) eqn:E; [|discriminate].
    intros H; inversion H; subst. auto.
  Qed.

  Lemma peer_voter st p : get_store_peer r st = Some p -> is_learner p = false -> get_store_voter r st = Some p.
  Proof. rewrite get_store_voter_lk by exact Hnd. rewrite get_store_peer_lk. intros -> ->. reflexivity. Qed.

  Lemma peer_learner st p : get_store_peer r st = Some p -> is_learner p = true -> get_store_learner r st = Some p.
  Proof. rewrite get_store_learner_lk by exact Hnd. rewrite get_store_peer_lk. intros -> ->. reflexivity. Qed.

  Lemma peer_not_learner st p : get_store_peer r st = Some p -> is_learner p = false -> get_store_learner r st = None.
  Proof. rewrite get_store_learner_lk by exact Hnd. rewrite get_store_peer_lk. intros -> ->. reflexivity. Qed.
End Lookups.

Lemma is_learner_role p : is_learner p = true <-> prole p = Learner.
Proof. unfold is_learner. destruct (prole p); cbn; split; intros H; try reflexivity; discriminate. Qed.

Lemma pairs_nonzero l x : pair_ids_nonzero l = true -> In x l -> snd x <> 0.
Proof. unfold pair_ids_nonzero. rewrite forallb_forall. intros H Hin. specialize (H x Hin). apply negb_true_iff, Z.eqb_neq in H. exact H. Qed.

Lemma get_store_peer_store r st p : get_store_peer r st = Some p -> pstore p = st.
Proof. unfold get_store_peer. intros H. apply find_some in H as [_ H]. apply Z.eqb_eq in H. exact H. Qed.

(* ---------- the scans of ChangePeerV2Enter/Leave.CheckSafety ---------- *)
Definition is_jin (c : jcls) : bool := match c with JIn => true | _ => false end.
Definition is_jout (c : jcls) : bool := match c with JOut => true | _ => false end.

Lemma scan_pairs_inr r cls tl : forall l acc acc',
  scan_pairs r cls tl l acc = inr acc' ->
  (forall x, In x l -> oid (get_store_peer r (fst x)) = snd x /\
                       (cls (orole (get_store_peer r (fst x))) = JIn \/ cls (orole (get_store_peer r (fst x))) = JOut))
  /\ fst (fst acc') = (fst (fst acc) || existsb (fun x => is_jin (cls (orole (get_store_peer r (fst x))))) l)
  /\ snd (fst acc') = (snd (fst acc) || existsb (fun x => is_jout (cls (orole (get_store_peer r (fst x))))) l)
  /\ snd acc' = (snd acc || existsb (fun x => is_jin (cls (orole (get_store_peer r (fst x)))) && tl
                                             && (ostore (get_store_peer r (fst x)) =? leader r)) l).
Proof.
  induction l as [|x rest IH]; intros acc acc' H; cbn [scan_pairs] in H.
  - inversion H; subst. cbn [existsb]. rewrite !orb_false_r. split; [intros ? []|repeat split; reflexivity].
  - destruct (negb (oid (get_store_peer r (fst x)) =? snd x)) eqn:Eid; [discriminate|].
    apply negb_false_iff, Z.eqb_eq in Eid.
    destruct (cls (orole (get_store_peer r (fst x)))) eqn:Ec; [discriminate| |].
    + destruct acc as [[ij nj] dl]. apply IH in H as (H1 & H2 & H3 & H4). cbn [fst snd] in *.
      split; [|split; [|split]].
      * intros y [<-|Hy]; [split; [exact Eid|left; exact Ec]|apply H1; exact Hy].
      * rewrite H2. cbn [existsb]. rewrite Ec. cbn [is_jin]. rewrite orb_true_r. reflexivity.
      * rewrite H3. cbn [existsb]. rewrite Ec. cbn [is_jout orb]. reflexivity.
      * rewrite H4. cbn [existsb]. rewrite Ec. cbn [is_jin andb]. rewrite orb_assoc. reflexivity.
    + destruct acc as [[ij nj] dl]. apply IH in H as (H1 & H2 & H3 & H4). cbn [fst snd] in *.
      split; [|split; [|split]].
      * intros y [<-|Hy]; [split; [exact Eid|right; exact Ec]|apply H1; exact Hy].
      * rewrite H2. cbn [existsb]. rewrite Ec. cbn [is_jin orb]. reflexivity.
      * rewrite H3. cbn [existsb]. rewrite Ec. cbn [is_jout]. rewrite orb_true_r. reflexivity.
      * rewrite H4. cbn [existsb]. rewrite Ec. cbn [is_jin andb orb]. reflexivity.
Qed.

Lemma existsb_all {A} (f : A -> bool) l : l <> [] -> (forall x, In x l -> f x = true) -> existsb f l = true.
Proof. destruct l as [|x r]; [congruence|]. intros _ H. cbn. rewrite (H x (or_introl eq_refl)). reflexivity. Qed.

Lemma existsb_none {A} (f : A -> bool) l : (forall x, In x l -> f x = false) -> existsb f l = false.
Proof.
  induction l as [|x r IH]; intros H; cbn; [reflexivity|]. rewrite (H x (or_introl eq_refl)). apply IH.
  intros y Hy. apply H. right. exact Hy.
Qed.

Lemma existsb_false_all {A} (f : A -> bool) l : existsb f l = false -> forall x, In x l -> f x = false.
Proof.
  induction l as [|y r IH]; intros H x Hx; [destruct Hx|].
  cbn in H. apply orb_false_iff in H as [H1 H2]. destruct Hx as [<-|Hx]; [exact H1|apply IH; assumption].
Qed.

Lemma count_joint_zero r : count_joint r = 0 -> is_in_joint r = false.
Proof.
  unfold count_joint, is_in_joint. induction (peers r) as [|p l IH]; cbn [filter existsb]; [reflexivity|].
  destruct (in_joint p); cbn [length orb]; [lia|exact IH].
Qed.

(* ---------- one scanned list, in terms of entry_is ---------- *)
(* cls sends exactly role ri to JIn and exactly role ro to JOut *)
Definition cls_roles (cls : role -> jcls) (ri ro : role) : Prop :=
  forall x, (cls x = JIn -> x = ri) /\ (cls x = JOut -> x = ro).

Lemma cls_enter_promote : cls_roles enter_promote_cls Incoming Learner.
Proof. intros []; cbn; split; intros H; try discriminate; reflexivity. Qed.
Lemma cls_enter_demote : cls_roles enter_demote_cls Demoting Voter.
Proof. intros []; cbn; split; intros H; try discriminate; reflexivity. Qed.
Lemma cls_leave_promote : cls_roles leave_promote_cls Incoming Voter.
Proof. intros []; cbn; split; intros H; try discriminate; reflexivity. Qed.
Lemma cls_leave_demote : cls_roles leave_demote_cls Demoting Learner.
Proof. intros []; cbn; split; intros H; try discriminate; reflexivity. Qed.

Lemma role_eqb_refl a : role_eqb a a = true.
Proof. destruct a; reflexivity. Qed.

Section Scan.
  Variables (r : region) (cls : role -> jcls) (ri ro : role) (tl : bool).
  Hypothesis Hcls : cls_roles cls ri ro.

  Lemma scan_entries l acc acc' :
    pair_ids_nonzero l = true -> scan_pairs r cls tl l acc = inr acc' ->
    forallb (entry_is r (one_of ro ri)) l = true
    /\ (fst (fst acc') = true -> fst (fst acc) = true \/ exists x, In x l /\ entry_is r (is_role ri) x = true)
    /\ (fst (fst acc') = false -> forall x, In x l -> entry_is r (is_role ro) x = true)
    /\ (snd (fst acc') = false -> forall x, In x l -> entry_is r (is_role ri) x = true)
    /\ (l <> [] -> fst (fst acc') = true \/ snd (fst acc') = true)
    /\ (snd acc' = false -> tl = true -> snd (fst acc') = false -> forall x, In x l -> (fst x =? leader r) = false).
  Proof.
    intros Hz Hs. apply scan_pairs_inr in Hs as (H1 & H2 & H3 & H4).
    assert (E : forall x, In x l -> exists p, get_store_peer r (fst x) = Some p /\ pid p = snd x /\
                                     ((cls (prole p) = JIn /\ prole p = ri) \/ (cls (prole p) = JOut /\ prole p = ro))).
    { intros x Hx. destruct (H1 x Hx) as (Hid & Hc).
      destruct (get_store_peer r (fst x)) as [p|] eqn:Ep; [|cbn in Hid; exfalso; apply (pairs_nonzero l x Hz Hx); congruence].
      exists p. cbn [oid orole] in *. repeat split; auto.
      destruct (Hcls (prole p)) as [A B]. destruct Hc as [Hc|Hc]; [left|right]; auto. }
    split; [|split; [|split; [|split; [|split]]]].
    - rewrite forallb_forall. intros x Hx. destruct (E x Hx) as (p & Ep & Hid & Hc). unfold entry_is. rewrite Ep, Hid, Z.eqb_refl.
      unfold one_of. destruct Hc as [[_ ->]|[_ ->]]; rewrite role_eqb_refl; cbn; [apply orb_true_r|reflexivity].
    - intros Ht. rewrite H2 in Ht. apply orb_true_iff in Ht as [Ht|Ht]; [left; exact Ht|right].
      apply existsb_exists in Ht as (x & Hx & Hj). exists x. split; [exact Hx|].
      destruct (E x Hx) as (p & Ep & Hid & Hc). rewrite Ep in Hj. cbn [orole] in Hj. unfold entry_is. rewrite Ep, Hid, Z.eqb_refl.
      destruct Hc as [[_ ->]|[Hc _]]; [unfold is_role; rewrite role_eqb_refl; reflexivity|rewrite Hc in Hj; discriminate].
    - intros Hf x Hx. rewrite H2 in Hf. apply orb_false_iff in Hf as [_ Hf].
      pose proof (existsb_false_all _ _ Hf x Hx) as Hj. destruct (E x Hx) as (p & Ep & Hid & Hc).
      cbn beta in Hj. rewrite Ep in Hj. cbn [orole] in Hj. unfold entry_is. rewrite Ep, Hid, Z.eqb_refl.
      destruct Hc as [[Hc _]|[_ ->]]; [rewrite Hc in Hj; discriminate|unfold is_role; rewrite role_eqb_refl; reflexivity].
    - intros Hf x Hx. rewrite H3 in Hf. apply orb_false_iff in Hf as [_ Hf].
      pose proof (existsb_false_all _ _ Hf x Hx) as Hj. destruct (E x Hx) as (p & Ep & Hid & Hc).
      cbn beta in Hj. rewrite Ep in Hj. cbn [orole] in Hj. unfold entry_is. rewrite Ep, Hid, Z.eqb_refl.
      destruct Hc as [[_ ->]|[Hc _]]; [unfold is_role; rewrite role_eqb_refl; reflexivity|rewrite Hc in Hj; discriminate].
    - intros Hne. destruct l as [|x rest]; [congruence|]. destruct (E x (or_introl eq_refl)) as (p & Ep & _ & Hc).
      rewrite H2, H3. cbn [existsb]. rewrite Ep. cbn [orole].
      destruct Hc as [[Hc _]|[Hc _]]; rewrite Hc; cbn; [left; apply orb_true_r|right; apply orb_true_r].
    - intros Hf -> Hnj x Hx. rewrite H4 in Hf. apply orb_false_iff in Hf as [_ Hf].
      rewrite H3 in Hnj. apply orb_false_iff in Hnj as [_ Hnj].
      pose proof (existsb_false_all _ _ Hf x Hx) as Hj. pose proof (existsb_false_all _ _ Hnj x Hx) as Ho.
      cbn beta in Hj, Ho. destruct (E x Hx) as (p & Ep & Hid & Hc).
      rewrite Ep in Hj, Ho. cbn [orole ostore] in Hj, Ho. rewrite (get_store_peer_store _ _ _ Ep) in Hj.
      destruct Hc as [[Hc _]|[Hc _]]; rewrite Hc in *; cbn in Hj, Ho; [exact Hj|discriminate Ho].
  Qed.
End Scan.

Lemma forallb_and {A} (f g : A -> bool) l : forallb f l = true -> forallb g l = true -> forallb (fun x => f x && g x) l = true.
Proof. rewrite !forallb_forall. intros F G x Hx. rewrite (F x Hx), (G x Hx). reflexivity. Qed.

Lemma forallb_of {A} (f : A -> bool) l : (forall x, In x l -> f x = true) -> forallb f l = true.
Proof. intros H. apply forallb_forall. exact H. Qed.

(* the verdict over both scanned lists *)
Section Verdict.
  Variables (r : region) (c1 c2 : role -> jcls) (i1 o1 i2 o2 : role) (tl : bool).
  Hypothesis H1 : cls_roles c1 i1 o1.
  Hypothesis H2 : cls_roles c2 i2 o2.

  Lemma verdict_spec pl dv acc1 acc2 :
    pair_ids_nonzero pl = true -> pair_ids_nonzero dv = true ->
    scan_pairs r c1 false pl (false, false, false) = inr acc1 ->
    scan_pairs r c2 tl dv acc1 = inr acc2 ->
    joint_verdict r (length pl + length dv) acc2 = None ->
    forallb (entry_is r (one_of o1 i1)) pl = true /\ forallb (entry_is r (one_of o2 i2)) dv = true
    /\ (match pl, dv with [], [] => True | _, _ => False end
        \/ (forallb (entry_is r (is_role o1)) pl = true /\ forallb (entry_is r (is_role o2)) dv = true /\ count_joint r = 0)
        \/ (forallb (entry_is r (is_role i1)) pl = true /\ forallb (entry_is r (is_role i2)) dv = true
            /\ count_joint r = Z.of_nat (length pl + length dv)
            /\ (tl = true -> forall x, In x dv -> (fst x =? leader r) = false))).
  Proof.
    intros Z1 Z2 S1 S2 Hv.
    destruct (scan_entries r c1 i1 o1 false H1 pl _ _ Z1 S1) as (A1 & A2 & A3 & A4 & A5 & _).
    destruct (scan_entries r c2 i2 o2 tl H2 dv _ _ Z2 S2) as (B1 & B2 & B3 & B4 & B5 & B6).
    cbn [fst snd] in A2, A3, A4, A5.
    split; [exact A1|]. split; [exact B1|].
    destruct acc1 as [[ij1 nj1] dl1]. destruct acc2 as [[ij nj] dl]. cbn [fst snd] in *.
    (* flags only grow from the first list to the second *)
    pose proof (scan_pairs_inr r c2 tl dv _ _ S2) as (_ & G2 & G3 & G4). cbn [fst snd] in G2, G3, G4.
    pose proof (scan_pairs_inr r c1 false pl _ _ S1) as (_ & F2 & F3 & F4). cbn [fst snd] in F2, F3, F4.
    unfold joint_verdict in Hv.
    destruct (nj && ij) eqn:E1; [discriminate|].
    destruct (nj && negb (count_joint r =? 0)) eqn:E2; [discriminate|].
    destruct (ij && negb (count_joint r =? Z.of_nat (length pl + length dv))) eqn:E3; [discriminate|].
    destruct dl eqn:E4; [discriminate|].
    destruct ij eqn:Eij, nj eqn:Enj.
    - cbn in E1. discriminate.
    - (* all in *) right. right.
      assert (C : count_joint r = Z.of_nat (length pl + length dv))
        by (cbn [andb] in E3; apply negb_false_iff, Z.eqb_eq in E3; exact E3).
      assert (N1 : nj1 = false) by (symmetry in G3; apply orb_false_iff in G3 as [Q _]; exact Q).
      split; [apply forallb_of; apply A4; exact N1|].
      split; [apply forallb_of; apply B4; reflexivity|].
      split; [exact C|]. intros T. apply (B6 eq_refl T eq_refl).
    - (* all out *) right. left.
      assert (C : count_joint r = 0) by (cbn [andb] in E2; apply negb_false_iff, Z.eqb_eq in E2; exact E2).
      assert (N1 : ij1 = false) by (symmetry in G2; apply orb_false_iff in G2 as [Q _]; exact Q).
      split; [apply forallb_of; apply A3; exact N1|].
      split; [apply forallb_of; apply B3; reflexivity|exact C].
    - (* no flag: both lists are empty *) left.
      assert (N1 : ij1 = false) by (symmetry in G2; apply orb_false_iff in G2 as [Q _]; exact Q).
      assert (N2 : nj1 = false) by (symmetry in G3; apply orb_false_iff in G3 as [Q _]; exact Q).
      destruct pl as [|x pl'].
      + destruct dv as [|y dv']; [exact I|]. exfalso.
        destruct B5 as [Q|Q]; [discriminate|discriminate Q|discriminate Q].
      + exfalso. destruct A5 as [Q|Q]; [discriminate|congruence|congruence].
  Qed.
End Verdict.

Lemma role_eqb_sym a b : role_eqb a b = role_eqb b a.
Proof. destruct a, b; reflexivity. Qed.

Lemma empty_pair_match (pl dv : list (Z * Z)) :
  match pl, dv with [], [] => True | _, _ => False end -> (match pl, dv with [], [] => true | _, _ => false end) = true.
Proof. destruct pl, dv; intros H; try contradiction; reflexivity. Qed.

(* ---------- CheckSafety ---------- *)
Theorem check_safety_sound r s :
  ND (peers r) -> step_ids_nonzero s = true -> check_safety r s = None -> spec_safe r s = true.
Proof.
  intros Hnd Hz Hs.
  destruct s as [f t|st id|st id|st id|st id|st id|st id|st id|pl dv|pl dv|pa tr|fr]; cbn [step_ids_nonzero] in Hz;
    cbn [check_safety spec_safe] in *; try reflexivity.
  - destruct (get_store_peer r t) as [p|]; [|discriminate]. destruct (is_learner p); [discriminate|reflexivity].
  - destruct (get_store_peer r st) as [p|]; [|reflexivity]. destruct (pid p =? id); [reflexivity|discriminate].
  - destruct (get_store_peer r st) as [p|]; [|reflexivity]. destruct (pid p =? id); [|discriminate].
    cbn [negb andb] in *. destruct (is_learner p); [reflexivity|discriminate].
  - destruct (get_store_peer r st) as [p|]; [|reflexivity]. destruct (pid p =? id); [reflexivity|discriminate].
  - destruct (get_store_peer r st) as [p|]; [|reflexivity]. destruct (pid p =? id); [|discriminate].
    cbn [negb andb] in *. destruct (is_learner p); [reflexivity|discriminate].
  - apply negb_true_iff, Z.eqb_neq in Hz. unfold entry_is. cbn [fst snd].
    destruct (get_store_peer r st) as [p|]; cbn [oid] in *.
    + destruct (pid p =? id); [reflexivity|discriminate].
    + destruct (0 =? id) eqn:E; [apply Z.eqb_eq in E; congruence|discriminate].
  - apply negb_true_iff, Z.eqb_neq in Hz. unfold entry_is. cbn [fst snd].
    destruct (get_store_peer r st) as [p|] eqn:Ep; cbn [oid] in *.
    + destruct (pid p =? id) eqn:E1; [|discriminate]. cbn [negb andb] in *.
      destruct (pid p =? leader_id r) eqn:E2; [discriminate|].
      destruct (st =? leader r) eqn:E3; [|reflexivity]. destruct (leader r =? 0) eqn:E4; [reflexivity|].
      exfalso. apply Z.eqb_eq in E3. subst st. unfold leader_id in E2. rewrite E4, Ep in E2. cbn [oid] in E2.
      rewrite Z.eqb_refl in E2. discriminate.
    + destruct (0 =? id) eqn:E; [apply Z.eqb_eq in E; congruence|discriminate].
  - destruct (st =? leader r); [discriminate|reflexivity].
  - (* Enter *)
    apply andb_true_iff in Hz as [Z1 Z2].
    destruct (scan_pairs r enter_promote_cls false pl (false, false, false)) as [e|acc1] eqn:S1; [discriminate|].
    destruct (scan_pairs r enter_demote_cls false dv acc1) as [e|acc2] eqn:S2; [discriminate|].
    destruct (verdict_spec r _ _ _ _ _ _ false cls_enter_promote cls_enter_demote pl dv acc1 acc2 Z1 Z2 S1 S2 Hs)
      as (A & B & [C|[(C1 & C2 & C3)|(C1 & C2 & C3 & _)]]).
    + rewrite A, B, (empty_pair_match _ _ C). reflexivity.
    + rewrite A, B, C1, C2, C3. cbn. rewrite orb_true_r. reflexivity.
    + rewrite A, B, C1, C2, C3, Z.eqb_refl. cbn. rewrite !orb_true_r. reflexivity.
  - (* Leave *)
    apply andb_true_iff in Hz as [Z1 Z2].
    destruct (scan_pairs r leave_promote_cls false pl (false, false, false)) as [e|acc1] eqn:S1; [discriminate|].
    destruct (scan_pairs r leave_demote_cls true dv acc1) as [e|acc2] eqn:S2; [discriminate|].
    destruct (verdict_spec r _ _ _ _ _ _ true cls_leave_promote cls_leave_demote pl dv acc1 acc2 Z1 Z2 S1 S2 Hs)
      as (A & B & [C|[(C1 & C2 & C3)|(C1 & C2 & C3 & C4)]]).
    + rewrite A, B, (empty_pair_match _ _ C). reflexivity.
    + rewrite A, B, C1, C2, C3. cbn. rewrite orb_true_r. reflexivity.
    + rewrite A, B, C1, C2, C3, Z.eqb_refl.
      assert (L : forallb (fun x => negb (fst x =? leader r)) dv = true).
      { apply forallb_of. intros x Hx. rewrite (C4 eq_refl x Hx). reflexivity. }
      rewrite L. cbn. rewrite !orb_true_r. reflexivity.
Qed.

(* ---------- IsFinish ---------- *)
Theorem is_finish_sound r s :
  ND (peers r) -> step_ids_nonzero s = true -> is_finish r s = true -> spec_done r s = true.
Proof.
  intros Hnd Hz Hf.
  assert (V : forall st id, match get_store_voter r st with Some p => pid p =? id | None => false end = true ->
                            entry_is r (fun ro => negb (role_eqb ro Learner)) (st, id) = true).
  { intros st id H. destruct (get_store_voter r st) as [p|] eqn:Ev; [|discriminate].
    destruct (voter_some r Hnd _ _ Ev) as [Ep Hl]. unfold entry_is. cbn [fst snd]. rewrite Ep, H. unfold is_learner in Hl. rewrite Hl. reflexivity. }
  assert (L : forall st id, match get_store_learner r st with Some p => pid p =? id | None => false end = true ->
                            entry_is r (is_role Learner) (st, id) = true).
  { intros st id H. destruct (get_store_learner r st) as [p|] eqn:Ev; [|discriminate].
    destruct (learner_some r Hnd _ _ Ev) as [Ep Hl]. unfold entry_is. cbn [fst snd]. rewrite Ep, H. unfold is_role. rewrite role_eqb_sym. exact Hl. }
  destruct s as [f t|st id|st id|st id|st id|st id|st id|st id|pl dv|pl dv|pa tr|fr]; cbn [step_ids_nonzero] in Hz;
    cbn [is_finish spec_done] in *; try reflexivity; try exact Hf; try (apply V; exact Hf); try (apply L; exact Hf).
  - (* Enter *)
    apply andb_true_iff in Hz as [Z1 Z2]. apply andb_true_iff in Hf as [F1 F2]. rewrite forallb_forall in F1, F2.
    apply andb_true_iff. split; apply forallb_of; intros x Hx.
    + specialize (F1 x Hx). cbn zeta in F1. apply andb_true_iff in F1 as [E1 E2]. apply Z.eqb_eq in E1.
      destruct (get_store_voter r (fst x)) as [p|] eqn:Ev; [|cbn in E1; exfalso; apply (pairs_nonzero pl x Z1 Hx); congruence].
      destruct (voter_some r Hnd _ _ Ev) as [Ep _]. cbn [oid orole] in *. unfold entry_is. rewrite Ep, E1, Z.eqb_refl.
      unfold is_role. rewrite role_eqb_sym. exact E2.
    + specialize (F2 x Hx). cbn zeta in F2. apply andb_true_iff in F2 as [E1 E2]. apply Z.eqb_eq in E1.
      destruct (get_store_voter r (fst x)) as [p|] eqn:Ev; [|cbn in E1; exfalso; apply (pairs_nonzero dv x Z2 Hx); congruence].
      destruct (voter_some r Hnd _ _ Ev) as [Ep _]. cbn [oid orole] in *. unfold entry_is. rewrite Ep, E1, Z.eqb_refl.
      unfold is_role. rewrite role_eqb_sym. exact E2.
  - (* Leave *)
    apply andb_true_iff in Hz as [Z1 Z2]. apply andb_true_iff in Hf as [Hf F3]. apply andb_true_iff in Hf as [F1 F2].
    rewrite forallb_forall in F1, F2. rewrite F3, andb_true_r.
    apply andb_true_iff. split; apply forallb_of; intros x Hx.
    + specialize (F1 x Hx). cbn zeta in F1. apply andb_true_iff in F1 as [E1 E2]. apply Z.eqb_eq in E1.
      destruct (get_store_voter r (fst x)) as [p|] eqn:Ev; [|cbn in E1; exfalso; apply (pairs_nonzero pl x Z1 Hx); congruence].
      destruct (voter_some r Hnd _ _ Ev) as [Ep _]. cbn [oid orole] in *. unfold entry_is. rewrite Ep, E1, Z.eqb_refl.
      unfold is_role. rewrite role_eqb_sym. exact E2.
    + specialize (F2 x Hx). unfold dv_finished in F2. destruct x as [st id]. cbn [fst snd] in *. apply L. exact F2.
Qed.

(* ---------- pending peers ---------- *)
Lemma is_finish_p_nil r s : is_finish_p [] r s = is_finish r s.
Proof. unfold is_finish_p. destruct s; cbn [existsb negb]; rewrite andb_true_r; reflexivity. Qed.

Lemma is_finish_p_sound pend r s : is_finish_p pend r s = true -> is_finish r s = true.
Proof. unfold is_finish_p. intros H. apply andb_true_iff in H. tauto. Qed.

(* a step held back by a pending peer: it is an add step whose peer is already there; its precondition holds, nothing
   is sent again, and ConfVerChanged already counts it - the operator only waits *)
Lemma pending_only_waits pend r s :
  ND (peers r) -> is_finish r s = true -> is_finish_p pend r s = false ->
  (exists st id, (s = AddPeer st id \/ s = AddLearner st id \/ s = AddLightPeer st id \/ s = AddLightLearner st id) /\ In id pend)
  /\ check_safety r s = None /\ cmd_of_step r s = None /\ conf_ver_changed r s = 1.
Proof.
  intros Hnd Hf Hp. unfold is_finish_p in Hp. rewrite Hf in Hp. cbn [andb] in Hp.
  assert (Hin : forall id, negb (existsb (Z.eqb id) pend) = false -> In id pend).
  { intros id H. apply negb_false_iff, existsb_exists in H as (x & Hx & E). apply Z.eqb_eq in E. subst x. exact Hx. }
  destruct s as [f t|st id|st id|st id|st id|st id|st id|st id|pl dv|pl dv|pa tr|fr]; try discriminate Hp;
    cbn [is_finish check_safety cmd_of_step conf_ver_changed] in *.
  - destruct (get_store_voter r st) as [p|] eqn:Ev; [|discriminate]. destruct (voter_some r Hnd _ _ Ev) as [Ep _].
    rewrite Ep. cbn [is_some oid]. rewrite Hf. cbn. repeat split; eauto 10.
  - destruct (get_store_learner r st) as [p|] eqn:Ev; [|discriminate]. destruct (learner_some r Hnd _ _ Ev) as [Ep Hl].
    rewrite Ep. cbn [is_some oid]. rewrite Hf, Hl. cbn. repeat split; eauto 10.
  - destruct (get_store_voter r st) as [p|] eqn:Ev; [|discriminate]. destruct (voter_some r Hnd _ _ Ev) as [Ep _].
    rewrite Ep. cbn [is_some oid]. rewrite Hf. cbn. repeat split; eauto 10.
  - destruct (get_store_learner r st) as [p|] eqn:Ev; [|discriminate]. destruct (learner_some r Hnd _ _ Ev) as [Ep Hl].
    rewrite Ep. cbn [is_some oid]. rewrite Hf, Hl. cbn. repeat split; eauto 10.
Qed.
