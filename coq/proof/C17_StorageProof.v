(* C17 — LoadStores / LoadRegions return what the save/delete history left in storage; the write-back batch of
   RegionStorage; pruning into an empty cache. Built on proof/C17_PagingProof.v. *)
From Coq Require Import ZifyBool ZifyNat.
From PDV Require Import lib.Base lib.C17_Map gen.Gen_C17 model.C17_Storage proof.C17_PagingProof.
Local Open Scope Z_scope.
Local Open Scope list_scope.

(* side conditions on the regenerated constants *)
Lemma store_limit_pos : 1 <= store_limit. Proof. discriminate. Qed.
Lemma region_min_pos : 1 <= region_limit_min. Proof. discriminate. Qed.
Lemma region_limit0_pos : 1 <= region_limit0. Proof. discriminate. Qed.
Lemma limits_ordered : region_limit_min <= region_limit0. Proof. discriminate. Qed.
Lemma batch_size_pos : 1 <= batch_size. Proof. discriminate. Qed.

(* ---------- generic consequences of page_loop_spec ---------- *)
Lemma todo_from_zero {V} (m : amap V) : sorted_from 0 m -> todo m 0 = filter (fun p => fst p <? range_end) m.
Proof. intros H. unfold todo. apply (filter_all_from 0 range_end m 0 H). lia. Qed.

Lemma filter_all_below {V} (m : amap V) : (forall k v, In (k, v) m -> k < two64) ->
  filter (fun p => fst p <? range_end) m = m.
Proof.
  intros Hb. induction m as [|[k v] r IH]; cbn [filter]; [reflexivity|]. cbn [fst].
  assert (k < two64) by (apply (Hb k v); left; reflexivity).
  replace (k <? range_end) with true by (symmetry; unfold range_end; lia).
  f_equal. apply IH; intros k' v' Hin; apply (Hb k' v'); right; exact Hin.
Qed.

(* a LoadRange that never fails never makes the loop give up *)
Lemma never_fails_not_failed {V C} (cb : C -> Z * V -> C * list Z) min_limit :
  forall fuel m next limit call c acc,
    fst (fst (fst (page_loop never_fails cb no_rw min_limit fuel m next limit call c acc))) <> RFailed.
Proof.
  induction fuel as [|fuel IH]; intros m next limit call c acc; cbn [page_loop]; [discriminate|].
  unfold never_fails at 1.
  destruct (fold_left (step_item cb no_rw) (range m next range_end limit) (m, c, next)) as [[m' c'] next'].
  destruct ((Z.of_nat (length (range m next range_end limit)) <? limit) || (next' =? 0)); [discriminate|apply IH].
Qed.

(* the collecting callback changes neither the storage nor anything else *)
Lemma no_cb_final {V} (items m : amap V) : final no_cb m tt items = (m, tt).
Proof.
  unfold final. revert m. generalize 0 as nx. induction items as [|it items IH]; intros nx m; cbn [fold_left]; [reflexivity|].
  rewrite step_item_eq. cbn [no_cb fst snd fold_left]. apply IH.
Qed.

Definition Jtrue {C} : C -> Z -> Prop := fun _ _ => True.

Lemma filter_len_le {X} (f : X -> bool) (l : list X) : (length (filter f l) <= length l)%nat.
Proof. induction l as [|x l IH]; cbn; [lia|]. destruct (f x); cbn; lia. Qed.

Lemma fuel_enough {V} (m : amap V) next limit :
  (length (todo m next) + Z.to_nat (Z.log2 limit) < fuel_for m limit)%nat.
Proof.
  unfold fuel_for, todo. pose proof (filter_len_le (in_range next range_end) m). lia.
Qed.

(* LoadStores *)
Theorem load_stores_spec (m : amap Z) : sorted_from 0 m ->
  load_stores m = (RDone, filter (fun p => fst p <? range_end) m).
Proof.
  intros Hs. unfold load_stores.
  pose proof (page_loop_spec never_fails no_cb store_limit store_limit_pos Jtrue
                (fun _ _ _ _ _ => I) (fun _ _ _ => conj (fun d (H : In d []) => match H with end) I)
                (fuel_for m store_limit) m 0 store_limit O tt [] 0 Hs ltac:(lia) I store_limit_pos
                (fuel_enough m 0 store_limit)) as P.
  cbv zeta in P.
  pose proof (never_fails_not_failed no_cb store_limit (fuel_for m store_limit) m 0 store_limit O tt []) as NF.
  destruct (page_loop never_fails no_cb no_rw store_limit (fuel_for m store_limit) m 0 store_limit O tt []) as [[[st acc] m'] c'].
  cbn [fst snd] in P, NF. destruct P as (P1 & P2 & _).
  destruct st; try contradiction. destruct (P2 eq_refl) as [A _]. cbn [app] in A.
  rewrite A, todo_from_zero by exact Hs. reflexivity.
Qed.

(* loadRegions with the collecting callback, under any LoadRange fault pattern *)
Theorem load_regions_collect_spec fails (m : amap rv) : sorted_from 0 m ->
  let res := load_regions fails no_cb m tt in
  fst (fst (fst res)) <> RDiverged /\
  (fst (fst (fst res)) = RDone ->
     snd (fst (fst res)) = filter (fun p => fst p <? range_end) m /\ snd (fst res) = m) /\
  sorted_from 0 (snd (fst res)).
Proof.
  intros Hs res.
  pose proof (page_loop_spec fails no_cb region_limit_min region_min_pos Jtrue
                (fun _ _ _ _ _ => I) (fun _ _ _ => conj (fun d (H : In d []) => match H with end) I)
                (fuel_for m region_limit0) m 0 region_limit0 O tt [] 0 Hs ltac:(lia) I region_limit0_pos
                (fuel_enough m 0 region_limit0)) as P.
  cbv zeta in P. fold (load_regions fails no_cb m tt) in P. fold res in P.
  destruct P as (P1 & P2 & P3). split; [exact P1|]. split; [|exact P3].
  intros Hd. destruct (P2 Hd) as [A B]. cbn [app] in A. rewrite A, todo_from_zero by exact Hs.
  split; [reflexivity|]. rewrite no_cb_final in B. congruence.
Qed.

(* the limit chain: limit, limit/2, ... while the half is still >= min *)
Section Chain.
  Variable min_limit floor : Z.
  Inductive Chain : Z -> Prop :=
  | chain_base : Chain floor
  | chain_step l : min_limit <= l / 2 -> Chain (l / 2) -> Chain l.

  Lemma small_pages_never_give_up {V C} (fails : nat -> amap V -> bool) (cb : C -> Z * V -> C * list Z) :
    0 <= floor ->
    (forall call page, Z.of_nat (length page) <= floor -> fails call page = false) ->
    forall fuel m next limit call c acc, Chain limit ->
      fst (fst (fst (page_loop fails cb no_rw min_limit fuel m next limit call c acc))) <> RFailed.
  Proof.
    intros Hfl Hsmall. induction fuel as [|fuel IH]; intros m next limit call c acc Hc; cbn [page_loop]; [discriminate|].
    destruct (fails call (range m next range_end limit)) eqn:Ef.
    - destruct Hc as [|l Hmin Hc].
      + (* at the floor: the page has at most `floor` items, so it cannot have failed *)
        exfalso. rewrite Hsmall in Ef; [discriminate|].
        unfold range. rewrite firstn_length. lia.
      + rewrite (proj2 (Z.leb_le _ _) Hmin). apply IH. exact Hc.
    - destruct (fold_left (step_item cb no_rw) (range m next range_end limit) (m, c, next)) as [[m' c'] next'].
      destruct ((Z.of_nat (length (range m next range_end limit)) <? limit) || (next' =? 0)); [discriminate|apply IH; exact Hc].
  Qed.
End Chain.

(* the chain of the code as it is: 10000, 5000, 2500, 1250, 625, 312, 156 (78 < 100 ends it) *)
Lemma region_limit_chain : Chain region_limit_min 156 region_limit0.
Proof.
  repeat (apply chain_step; [vm_compute; discriminate|]); vm_compute (_ / _).
  apply chain_base.
Qed.

(* ---------- state invariant: every namespace is a strictly increasing list of non-negative ids ---------- *)
Record SInv (s : sstate) : Prop := {
  i_stores : sorted_from 0 (stores s); i_lw : sorted_from 0 (lweight s); i_rw : sorted_from 0 (rweight s);
  i_base : sorted_from 0 (base_r s); i_ldb : sorted_from 0 (ldb s); i_batch : sorted_from 0 (batch s)
}.

Definition op_ok (o : op) : Prop :=
  match o with
  | OSaveStore id _ | ODeleteStore id | OSaveWeight id _ _ | OSaveRegion id _ | ODeleteRegion id
  | OSaveStoreF id _ _ | ODeleteStoreF id _ | OSaveWeightF id _ _ _ _ | OSaveRegionF id _ _ | ODeleteRegionF id _ => 0 <= id < two64
  | _ => True
  end.

Lemma put_sorted0 {V} (m : amap V) k v : sorted_from 0 m -> 0 <= k -> sorted_from 0 (put m k v).
Proof. intros H Hk. pose proof (put_sorted 0 m k v H) as P. rewrite Z.min_l in P by lia. exact P. Qed.

Lemma flush_fold_sorted (b : amap rv) : forall l, sorted_from 0 l -> sorted_from 0 b ->
  sorted_from 0 (fold_left (fun m it => put m (fst it) (snd it)) b l).
Proof.
  induction b as [|[k v] b IH]; intros l Hl Hb; cbn [fold_left]; [exact Hl|].
  destruct Hb as [Hk Hb]. apply IH; [apply put_sorted0; [exact Hl|exact Hk]|].
  eapply sorted_from_weaken; [|exact Hb]. lia.
Qed.

Lemma filter_sorted {V} (f : Z * V -> bool) : forall (m : amap V) lo, sorted_from lo m -> sorted_from lo (filter f m).
Proof.
  induction m as [|[k v] r IH]; intros lo H; cbn [filter]; [exact I|]. destruct H as [H1 H2].
  destruct (f (k, v)); [split; [exact H1|apply IH; exact H2]|].
  eapply sorted_from_weaken; [|apply IH; exact H2]. lia.
Qed.

Lemma inv_flush s : SInv s -> SInv (flush_batch s).
Proof.
  intros [H1 H2 H3 H4 H5 H6]. constructor; cbn [flush_batch stores lweight rweight base_r ldb batch]; try assumption.
  - apply flush_fold_sorted; assumption.
  - exact I.
Qed.

(* the cache callback deletes only ids it has been shown *)
Definition Jcache (c : cache) (b : Z) : Prop := forall o, In o c -> fst o < b.
Lemma Jcache_mono c b b' : Jcache c b -> b <= b' -> Jcache c b'.
Proof. intros H Hb o Ho. specialize (H o Ho). lia. Qed.
Lemma Jcache_step c it : Jcache c (fst it) ->
  (forall d, In d (snd (check_and_put c it)) -> d <= fst it) /\ Jcache (fst (check_and_put c it)) (fst it + 1).
Proof.
  intros H. unfold check_and_put. destruct (accepts c it); cbn [fst snd].
  - split.
    + intros d Hd. apply in_map_iff in Hd as (o & <- & Ho). unfold evicted in Ho. apply filter_In in Ho as [Ho _].
      specialize (H o Ho). lia.
    + intros o [<-|Ho]; [lia|]. apply filter_In in Ho as [Ho _]. specialize (H o Ho). lia.
  - split.
    + intros d [<-|[]]. lia.
    + intros o Ho. specialize (H o Ho). lia.
Qed.

Lemma load_cache_sorted fails (m : amap rv) : sorted_from 0 m ->
  sorted_from 0 (snd (fst (load_regions fails check_and_put m []))).
Proof.
  intros Hs.
  pose proof (page_loop_spec fails check_and_put region_limit_min region_min_pos Jcache Jcache_mono Jcache_step
                (fuel_for m region_limit0) m 0 region_limit0 O [] [] 0 Hs ltac:(lia)
                (fun o (H : In o []) => match H with end) region_limit0_pos (fuel_enough m 0 region_limit0)) as P.
  cbv zeta in P. exact (proj2 (proj2 P)).
Qed.

Lemma inv_set_regions s rs m : SInv s -> sorted_from 0 m -> SInv (set_regions s rs m).
Proof. intros [H1 H2 H3 H4 H5 H6] Hm. destruct rs; constructor; cbn; assumption. Qed.

Lemma inv_collect s : SInv s -> SInv (fst (collect_regions s)).
Proof.
  intros I. unfold collect_regions.
  pose proof (load_regions_collect_spec (faults_of s (use_rs s)) (regions_of s (use_rs s))) as P.
  assert (Hs : sorted_from 0 (regions_of s (use_rs s))) by (destruct I; unfold regions_of; destruct (use_rs s); assumption).
  specialize (P Hs). cbv zeta in P. destruct P as (_ & _ & P3).
  destruct (load_regions (faults_of s (use_rs s)) no_cb (regions_of s (use_rs s)) tt) as [[[st acc] m'] c'].
  cbn [fst snd] in *. apply inv_set_regions; assumption.
Qed.

Lemma inv_save_region s id v : SInv s -> 0 <= id < two64 -> SInv (fst (save_region s id v)).
Proof.
  intros I Ho. pose proof I as [H1 H2 H3 H4 H5 H6]. unfold save_region.
  destruct (use_rs s).
  - destruct (cache_size s <? batch_size - 1).
    + constructor; cbn; try assumption. apply put_sorted0; [assumption|lia].
    + apply inv_flush. constructor; cbn; try assumption. apply put_sorted0; [assumption|lia].
  - constructor; cbn; try assumption. apply put_sorted0; [assumption|lia].
Qed.

Lemma inv_delete_region s id : SInv s -> SInv (fst (delete_region s id)).
Proof.
  intros I. pose proof I as [H1 H2 H3 H4 H5 H6]. unfold delete_region.
  destruct (use_rs s); cbn [fst].
  - constructor; cbn; try assumption; apply del_sorted; assumption.
  - apply inv_set_regions; [exact I|]. apply del_sorted. assumption.
Qed.

(* the loop keeps the namespace id-sorted and non-negative for ANY callback and rewrite hook (needed where the callback
   is not known to delete only behind the scan: loads over a warm cache) *)
Lemma fold_step_sorted0 {V C} (cb : C -> Z * V -> C * list Z) (rw : C -> Z * V -> option V) :
  forall (p : amap V) m c nx, (forall k v, In (k, v) p -> 0 <= k) -> sorted_from 0 m ->
    sorted_from 0 (fst (fst (fold_left (step_item cb rw) p (m, c, nx)))).
Proof.
  induction p as [|[k v] p IH]; intros m c nx Hp Hs; cbn [fold_left]; [exact Hs|].
  unfold step_item at 2. destruct (cb c (k, v)) as [c' dels]. cbn [fst].
  apply IH; [intros k' v' H; apply (Hp k' v'); right; exact H|].
  destruct (rw c (k, v)); [apply put_sorted0; [apply dels_sorted; exact Hs|apply (Hp k v); left; reflexivity]|apply dels_sorted; exact Hs].
Qed.

Lemma fold_step_next_nonneg {V C} (cb : C -> Z * V -> C * list Z) (rw : C -> Z * V -> option V) :
  forall (p : amap V) m c nx, 0 <= nx -> 0 <= snd (fold_left (step_item cb rw) p (m, c, nx)).
Proof.
  induction p as [|[k v] p IH]; intros m c nx Hn; cbn [fold_left]; [exact Hn|].
  unfold step_item at 2. destruct (cb c (k, v)) as [c' dels]. apply IH.
  unfold next_id. apply Z.mod_pos_bound. reflexivity.
Qed.

Lemma range_keys_nonneg {V} (m : amap V) next limit k v : 0 <= next -> In (k, v) (range m next range_end limit) -> 0 <= k.
Proof.
  intros Hn Hin. unfold range in Hin.
  assert (In (k, v) (filter (in_range next range_end) m)).
  { clear - Hin. revert Hin. generalize (Z.to_nat limit) as n. generalize (filter (in_range next range_end) m) as l.
    induction l as [|x l IH]; intros [|n] H; cbn [firstn] in H; try contradiction.
    destruct H as [->|H]; [left; reflexivity|right; apply (IH n); exact H]. }
  apply filter_In in H as [_ H]. unfold in_range in H. cbn [fst] in H. lia.
Qed.

Lemma page_loop_sorted0 {V C} fails (cb : C -> Z * V -> C * list Z) (rw : C -> Z * V -> option V) min_limit :
  forall fuel m next limit call c acc, sorted_from 0 m -> 0 <= next ->
    sorted_from 0 (snd (fst (page_loop fails cb rw min_limit fuel m next limit call c acc))).
Proof.
  induction fuel as [|fuel IH]; intros m next limit call c acc Hs Hn; cbn [page_loop]; [exact Hs|].
  destruct (fails call (range m next range_end limit)).
  - destruct (min_limit <=? limit / 2); [apply IH; assumption|exact Hs].
  - pose proof (fold_step_sorted0 cb rw (range m next range_end limit) m c next
                  (fun k v H => range_keys_nonneg m next limit k v Hn H) Hs) as S.
    pose proof (fold_step_next_nonneg cb rw (range m next range_end limit) m c next Hn) as N.
    destruct (fold_left (step_item cb rw) (range m next range_end limit) (m, c, next)) as [[m' c'] next'].
    cbn [fst snd] in S, N.
    destruct ((Z.of_nat (length (range m next range_end limit)) <? limit) || (next' =? 0)); [exact S|apply IH; assumption].
Qed.

Lemma inv_load_once s : SInv s -> SInv (fst (load_once s)).
Proof.
  intros I. unfold load_once.
  destruct (use_rs s) eqn:Ers; [|apply inv_collect; exact I].
  destruct (loaded_once s); [exact I|].
  pose proof (inv_collect s I) as IC. destruct (collect_regions s) as [s' b]. cbn [fst] in IC.
  destruct b as [| |st l| | | |]; try exact IC. destruct st; try exact IC.
  destruct IC as [C1 C2 C3 C4 C5 C6]. constructor; cbn; assumption.
Qed.

Lemma inv_load_into_cache s : SInv s -> SInv (fst (load_into_cache s)).
Proof.
  intros I. pose proof I as [H1 H2 H3 H4 H5 H6]. unfold load_into_cache.
  pose proof (load_cache_sorted (faults_of s (use_rs s)) (regions_of s (use_rs s))) as P.
  assert (Hs : sorted_from 0 (regions_of s (use_rs s))) by (unfold regions_of; destruct (use_rs s); assumption).
  specialize (P Hs).
  destruct (load_regions (faults_of s (use_rs s)) check_and_put (regions_of s (use_rs s)) []) as [[[st acc] m'] c'].
  cbn [fst snd] in *. pose proof (inv_set_regions s (use_rs s) m' I P) as [S1 S2 S3 S4 S5 S6].
  destruct (use_rs s); [|constructor; assumption].
  constructor; cbn [stores lweight rweight base_r ldb batch]; try assumption.
  apply filter_sorted. exact S6.
Qed.

Lemma inv_step s o : SInv s -> op_ok o -> SInv (fst (run_op s o)).
Proof.
  intros I Ho. pose proof I as [H1 H2 H3 H4 H5 H6].
  destruct o; cbn [run_op op_ok] in *.
  - constructor; cbn; try assumption. apply put_sorted0; [assumption|lia].
  - constructor; cbn; try assumption; apply del_sorted; assumption.
  - constructor; cbn; try assumption; apply put_sorted0; solve [assumption|lia].
  - destruct (load_stores (stores s)); exact I.
  - apply inv_save_region; assumption.
  - apply inv_delete_region; assumption.
  - apply inv_flush. exact I.
  - constructor; cbn; assumption.
  - constructor; cbn; try assumption; try exact Logic.I.
  - cbn [fst]. pose proof (inv_flush s I) as [F1 F2 F3 F4 F5 F6]. constructor; cbn; try assumption; try exact Logic.I.
  - constructor; cbn; assumption.
  - apply inv_collect. exact I.
  - apply inv_load_once. exact I.
  - apply inv_load_into_cache. exact I.
  - destruct applied; cbn [fst]; [|exact I]. constructor; cbn; try assumption. apply put_sorted0; [assumption|lia].
  - destruct applied; cbn [fst]; [|exact I]. constructor; cbn; try assumption. apply del_sorted; assumption.
  - exact I.
  - destruct (use_rs s) eqn:Ers; [apply inv_save_region; assumption|].
    destruct applied; cbn [fst]; [|exact I]. constructor; cbn; try assumption. apply put_sorted0; [assumption|lia].
  - destruct (use_rs s) eqn:Ers; [apply inv_delete_region; assumption|].
    destruct applied; cbn [fst]; [|exact I]. constructor; cbn; try assumption. apply del_sorted; assumption.
  - apply inv_flush. exact I.
  - cbn [fst]. destruct written.
    + pose proof (inv_flush s I) as [F1 F2 F3 F4 F5 F6]. constructor; cbn; try assumption; try exact Logic.I.
    + constructor; cbn; try assumption; try exact Logic.I.
  - destruct (use_rs s && loaded_once s); [exact I|].
    pose proof (inv_load_into_cache s I) as IC. destruct (load_into_cache s) as [s' b]. cbn [fst] in IC.
    destruct b as [| | |st l c a| | |]; try exact IC. destruct st; try exact IC.
    destruct (use_rs s'); [|exact IC]. destruct IC as [C1 C2 C3 C4 C5 C6]. constructor; cbn; assumption.
  - assert (Hs : sorted_from 0 (regions_of s (use_rs s))) by (unfold regions_of; destruct (use_rs s); assumption).
    pose proof (page_loop_sorted0 (faults_of s (use_rs s)) put_loaded rw_loaded region_limit_min
                  (fuel_for (regions_of s (use_rs s)) region_limit0) (regions_of s (use_rs s)) 0 region_limit0 O cached [] Hs ltac:(lia)) as P.
    destruct (page_loop _ _ _ _ _ _ _ _ _ _ _) as [[[st acc] m'] c']. cbn [fst snd] in *.
    apply inv_set_regions; assumption.
  - exact I.
  - destruct (lookup (regions_of s (use_rs s)) bad); [|apply inv_load_once; exact I].
    destruct (use_rs s && loaded_once s); exact I.
Qed.

Lemma inv_init : SInv sinit.
Proof. constructor; exact I. Qed.

Fixpoint ops_ok (ops : list op) : Prop := match ops with [] => True | o :: r => op_ok o /\ ops_ok r end.

Lemma inv_run ops : forall s, SInv s -> ops_ok ops -> SInv (run_state run_op s ops).
Proof.
  induction ops as [|o ops IH]; intros s I Hok; cbn [run_state]; [exact I|].
  destruct Hok as [Ho Hok]. apply IH; [apply inv_step; assumption|exact Hok].
Qed.

(* ---------- what the history asks for: plain map semantics ---------- *)
Definition fupd {X} (f : Z -> option X) (k : Z) (v : option X) : Z -> option X := fun j => if j =? k then v else f j.

(* which key of the three store namespaces an operation writes, and what (None = removes it); an errored write
   counts iff it was applied *)
Definition store_eff (o : op) : option (Z * option Z) :=
  match o with
  | OSaveStore id p | OSaveStoreF id p true => Some (id, Some p)
  | ODeleteStore id | ODeleteStoreF id true => Some (id, None)
  | _ => None
  end.
Definition lw_eff (o : op) : option (Z * option Z) :=
  match o with
  | OSaveWeight id l _ => Some (id, Some l)
  | ODeleteStore id => Some (id, None)
  | _ => None
  end.
Definition rw_eff (o : op) : option (Z * option Z) :=
  match o with
  | OSaveWeight id _ r => Some (id, Some r)
  | ODeleteStore id => Some (id, None)
  | _ => None
  end.
Definition apply_eff (f : Z -> option Z) (e : option (Z * option Z)) : Z -> option Z :=
  match e with Some (id, v) => fupd f id v | None => f end.
Definition store_want (f : Z -> option Z) (o : op) : Z -> option Z := apply_eff f (store_eff o).
Definition lw_want (f : Z -> option Z) (o : op) : Z -> option Z := apply_eff f (lw_eff o).
Definition rw_want (f : Z -> option Z) (o : op) : Z -> option Z := apply_eff f (rw_eff o).

Definition store_part (s : sstate) := (stores s, lweight s, rweight s).

Lemma set_regions_frame s rs m : store_part (set_regions s rs m) = store_part s.
Proof. destruct rs; reflexivity. Qed.
Lemma collect_frame s : store_part (fst (collect_regions s)) = store_part s.
Proof.
  unfold collect_regions. destruct (load_regions _ _ _ _) as [[[st acc] m'] c']. cbn [fst]. apply set_regions_frame.
Qed.
Lemma save_region_frame s id v : store_part (fst (save_region s id v)) = store_part s.
Proof. unfold save_region. destruct (use_rs s); [destruct (cache_size s <? batch_size - 1)|]; reflexivity. Qed.
Lemma delete_region_frame s id : store_part (fst (delete_region s id)) = store_part s.
Proof. unfold delete_region. destruct (use_rs s); [reflexivity|cbn [fst]; apply set_regions_frame]. Qed.

Lemma load_once_frame s : store_part (fst (load_once s)) = store_part s.
Proof.
  unfold load_once. destruct (use_rs s); [|apply collect_frame]. destruct (loaded_once s); [reflexivity|].
  pose proof (collect_frame s) as F. destruct (collect_regions s) as [s' b]. cbn [fst] in *.
  destruct b as [| |st l| | | |]; try exact F. destruct st; exact F.
Qed.

Lemma load_into_cache_frame s : store_part (fst (load_into_cache s)) = store_part s.
Proof.
  unfold load_into_cache. destruct (load_regions _ _ _ _) as [[[st acc] m'] c']. cbn [fst].
  pose proof (set_regions_frame s (use_rs s) m') as F. destruct (use_rs s); exact F.
Qed.

Definition eff_map (m : amap Z) (e : option (Z * option Z)) : amap Z :=
  match e with Some (id, Some v) => put m id v | Some (id, None) => del m id | None => m end.

(* every operation changes the three store namespaces exactly by its effects *)
Lemma store_step s o :
  store_part (fst (run_op s o)) = (eff_map (stores s) (store_eff o), eff_map (lweight s) (lw_eff o), eff_map (rweight s) (rw_eff o)).
Proof.
  destruct o; cbn [run_op store_eff lw_eff rw_eff eff_map]; try reflexivity.
  - destruct (load_stores (stores s)); reflexivity.
  - apply save_region_frame.
  - apply delete_region_frame.
  - apply collect_frame.
  - apply load_once_frame.
  - apply load_into_cache_frame.
  - destruct applied; reflexivity.
  - destruct applied; reflexivity.
  - destruct (use_rs s); [apply save_region_frame|]. destruct applied; reflexivity.
  - destruct (use_rs s); [apply delete_region_frame|]. destruct applied; reflexivity.
  - destruct written; reflexivity.
  - destruct (use_rs s && loaded_once s); [reflexivity|].
    pose proof (load_into_cache_frame s) as F. destruct (load_into_cache s) as [s' b]. cbn [fst] in *.
    destruct b as [| | |st l c a| | |]; try exact F. destruct st; try exact F. destruct (use_rs s'); exact F.
  - destruct (page_loop _ _ _ _ _ _ _ _ _ _ _) as [[[st acc] m'] c']. cbn [fst]. apply set_regions_frame.
  - destruct (lookup (regions_of s (use_rs s)) bad); [|apply load_once_frame]. destruct (use_rs s && loaded_once s); reflexivity.
Qed.

Lemma lookup_eff m e j : sorted_from 0 m -> lookup (eff_map m e) j = apply_eff (lookup m) e j.
Proof.
  intros Hs. destruct e as [[id [v|]]|]; cbn [eff_map apply_eff]; unfold fupd.
  - apply (lookup_put 0). exact Hs.
  - apply (lookup_del 0). exact Hs.
  - reflexivity.
Qed.

Lemma apply_eff_ext (f g : Z -> option Z) e : (forall j, f j = g j) -> forall j, apply_eff f e j = apply_eff g e j.
Proof. intros H j. destruct e as [[id v]|]; cbn [apply_eff]; unfold fupd; [destruct (j =? id); [reflexivity|apply H]|apply H]. Qed.

Lemma stores_follow ops : forall s f fl fr, SInv s -> ops_ok ops ->
  (forall id, lookup (stores s) id = f id) -> (forall id, lookup (lweight s) id = fl id) -> (forall id, lookup (rweight s) id = fr id) ->
  let s' := run_state run_op s ops in
  (forall id, lookup (stores s') id = fold_left store_want ops f id) /\
  (forall id, lookup (lweight s') id = fold_left lw_want ops fl id) /\
  (forall id, lookup (rweight s') id = fold_left rw_want ops fr id).
Proof.
  induction ops as [|o ops IH]; intros s f fl fr I Hok Hf Hl Hr; cbn [run_state fold_left]; [auto|].
  destruct Hok as [Ho Hok]. pose proof I as [H1 H2 H3 _ _ _].
  pose proof (store_step s o) as E. unfold store_part in E. injection E as E1 E2 E3.
  apply IH; [apply inv_step; assumption|exact Hok| | |]; intros j.
  - rewrite E1, lookup_eff by exact H1. unfold store_want. apply apply_eff_ext. exact Hf.
  - rewrite E2, lookup_eff by exact H2. unfold lw_want. apply apply_eff_ext. exact Hl.
  - rewrite E3, lookup_eff by exact H3. unfold rw_want. apply apply_eff_ext. exact Hr.
Qed.

(* ---------- stores: what LoadStores hands to its callback ---------- *)
Definition decorate (s : sstate) (it : Z * Z) : Z * Z * Z * Z :=
  (fst it, snd it, weight_of (lweight s) (fst it), weight_of (rweight s) (fst it)).

Theorem load_stores_obs s : SInv s ->
  snd (run_op s OLoadStores) = BStores RDone (map (decorate s) (filter (fun p => fst p <? range_end) (stores s))).
Proof. intros I. cbn [run_op]. rewrite load_stores_spec by (apply (i_stores s I)). reflexivity. Qed.

Definition no_want : Z -> option Z := fun _ => None.

Theorem stores_are_what_history_left ops : ops_ok ops ->
  let s := run_state run_op sinit ops in
  SInv s /\
  (forall id, lookup (stores s) id = fold_left store_want ops no_want id) /\
  (forall id, lookup (lweight s) id = fold_left lw_want ops no_want id) /\
  (forall id, lookup (rweight s) id = fold_left rw_want ops no_want id).
Proof.
  intros Hok s. split; [apply inv_run; [exact inv_init|exact Hok]|].
  apply (stores_follow ops sinit no_want no_want no_want inv_init Hok); intros id; reflexivity.
Qed.

(* membership in a sorted map = lookup *)
Lemma in_lookup {V} (m : amap V) lo k v : sorted_from lo m -> (In (k, v) m <-> lookup m k = Some v).
Proof.
  revert lo; induction m as [|[k' v'] r IH]; intros lo Hs; cbn [In lookup].
  - split; [contradiction|discriminate].
  - destruct Hs as [H1 H2]. destruct (k =? k') eqn:E.
    + apply Z.eqb_eq in E; subst k'. split.
      * intros [Eq|Hin]; [inversion Eq; reflexivity|]. apply (sorted_from_In _ _ _ _ H2) in Hin. lia.
      * intros Eq; inversion Eq; subst. left; reflexivity.
    + destruct (k <? k') eqn:E2.
      * split; [|discriminate]. intros [Eq|Hin]; [inversion Eq; subst; lia|].
        apply (sorted_from_In _ _ _ _ H2) in Hin. lia.
      * rewrite <- (IH _ H2). split; [intros [Eq|Hin]; [inversion Eq; subst; lia|exact Hin]|intros Hin; right; exact Hin].
  Qed.

(* ---------- regions, direct backend (Storage.Base) ---------- *)
Lemma no_cb_fold {V} (p : amap V) : forall m nx, fst (fold_left (step_item no_cb no_rw) p (m, tt, nx)) = (m, tt).
Proof. induction p as [|it p IH]; intros m nx; cbn [fold_left]; [reflexivity|]. rewrite step_item_eq. cbn. apply IH. Qed.

Lemma no_cb_keeps_map {V} (fails : nat -> amap V -> bool) min_limit : forall fuel m next limit call acc,
  snd (fst (page_loop fails no_cb no_rw min_limit fuel m next limit call tt acc)) = m.
Proof.
  induction fuel as [|fuel IH]; intros m next limit call acc; cbn [page_loop]; [reflexivity|].
  destruct (fails call (range m next range_end limit)).
  - destruct (min_limit <=? limit / 2); [apply IH|reflexivity].
  - pose proof (no_cb_fold (range m next range_end limit) m next) as F.
    destruct (fold_left (step_item no_cb no_rw) (range m next range_end limit) (m, tt, next)) as [[m' c'] next'].
    cbn [fst] in F. inversion F; subst m' c'.
    destruct ((Z.of_nat (length (range m next range_end limit)) <? limit) || (next' =? 0)); [reflexivity|apply IH].
Qed.

Lemma collect_keeps_regions s :
  base_r (fst (collect_regions s)) = base_r s /\ ldb (fst (collect_regions s)) = ldb s /\
  batch (fst (collect_regions s)) = batch s /\ cache_size (fst (collect_regions s)) = cache_size s /\
  use_rs (fst (collect_regions s)) = use_rs s.
Proof.
  unfold collect_regions, load_regions.
  pose proof (no_cb_keeps_map (faults_of s (use_rs s)) region_limit_min (fuel_for (regions_of s (use_rs s)) region_limit0)
                (regions_of s (use_rs s)) 0 region_limit0 O []) as K.
  destruct (page_loop _ _ _ _ _ _ _ _ _ _ _) as [[[st acc] m'] c']. cbn [fst snd] in K. subst m'.
  unfold set_regions, regions_of. destruct (use_rs s); cbn; auto.
Qed.

(* which region id an operation writes on the direct backend, and what; an errored write counts iff it was applied *)
Definition region_eff (o : op) : option (Z * option rv) :=
  match o with
  | OSaveRegion id v | OSaveRegionF id v true => Some (id, Some v)
  | ODeleteRegion id | ODeleteRegionF id true => Some (id, None)
  | _ => None
  end.
Definition region_want (f : Z -> option rv) (o : op) : Z -> option rv :=
  match region_eff o with Some (id, v) => fupd f id v | None => f end.
Definition no_rwant : Z -> option rv := fun _ => None.

(* histories without backend switches, crashes and pruning loads; the timed flush may fire anywhere, writes of the
   store namespaces may fail *)
Definition plain_op (o : op) : bool :=
  match o with OSwitch _ | OCrash | OLoadIntoCache | OSaveRegionF _ _ _ | ODeleteRegionF _ _ | OCrashInFlush _ | OLoadOnceCorrupt _ | OLoadOnceIntoCache | OLoadWarm _ => false | _ => true end.
Definition plain_ops (ops : list op) : bool := forallb plain_op ops.
(* the direct backend also admits failing region writes *)
Definition direct_op (o : op) : bool :=
  plain_op o || match o with OSaveRegionF _ _ _ | ODeleteRegionF _ _ => true | _ => false end.
Definition direct_ops (ops : list op) : bool := forallb direct_op ops.

Lemma plain_is_direct ops : plain_ops ops = true -> direct_ops ops = true.
Proof.
  induction ops as [|o r IH]; cbn [plain_ops direct_ops forallb]; [reflexivity|]. intros H.
  apply andb_true_iff in H as [H1 H2]. unfold direct_op. rewrite H1. cbn [orb andb]. apply IH. exact H2.
Qed.

Lemma direct_step s o : direct_op o = true -> use_rs s = false ->
  use_rs (fst (run_op s o)) = false /\
  base_r (fst (run_op s o)) = match region_eff o with
                               | Some (id, Some v) => put (base_r s) id v
                               | Some (id, None) => del (base_r s) id
                               | None => base_r s
                               end.
Proof.
  intros Hp Hrs. destruct (collect_keeps_regions s) as (C1 & _ & _ & _ & C5).
  destruct o; try discriminate; cbn [run_op region_eff]; unfold save_region, delete_region, load_once; rewrite ?Hrs; cbn [fst];
    try (destruct (load_stores (stores s))); try destruct applied; try destruct stage; unfold set_regions, regions_of, flush_batch;
    rewrite ?C1, ?C5, ?Hrs;
    split; first [reflexivity | exact Hrs | cbn; first [reflexivity | exact Hrs]].
Qed.

Lemma direct_follow ops : forall s f, SInv s -> ops_ok ops -> direct_ops ops = true -> use_rs s = false ->
  (forall id, lookup (base_r s) id = f id) ->
  let s' := run_state run_op s ops in
  use_rs s' = false /\ forall id, lookup (base_r s') id = fold_left region_want ops f id.
Proof.
  induction ops as [|o ops IH]; intros s f I Hok Hp Hrs Hf; cbn [run_state fold_left]; [auto|].
  destruct Hok as [Ho Hok]. cbn [direct_ops forallb] in Hp. apply andb_true_iff in Hp as [Hpo Hp].
  pose proof (i_base s I) as Hb. destruct (direct_step s o Hpo Hrs) as [D1 D2].
  apply IH; [apply inv_step; assumption|exact Hok|exact Hp|exact D1|].
  intros id. rewrite D2. unfold region_want. destruct (region_eff o) as [[id0 [v|]]|]; [| |apply Hf].
  - rewrite (lookup_put 0) by exact Hb. unfold fupd. destruct (id =? id0); [reflexivity|apply Hf].
  - rewrite (lookup_del 0) by exact Hb. unfold fupd. destruct (id =? id0); [reflexivity|apply Hf].
Qed.

Theorem direct_load_obs s : SInv s -> use_rs s = false -> budget s = None ->
  snd (run_op s OLoadRegions) = BRegions RDone (filter (fun p => fst p <? range_end) (base_r s)).
Proof.
  intros I Hrs Hb. cbn [run_op]. unfold collect_regions. rewrite Hrs. cbn [faults_of regions_of].
  rewrite Hb. change (over_budget None) with (@never_fails rv).
  pose proof (load_regions_collect_spec never_fails (base_r s) (i_base s I)) as P. cbv zeta in P.
  pose proof (never_fails_not_failed (@no_cb rv) region_limit_min (fuel_for (base_r s) region_limit0) (base_r s) 0 region_limit0 O tt []) as NF.
  fold (load_regions never_fails no_cb (base_r s) tt) in NF.
  destruct (load_regions never_fails no_cb (base_r s) tt) as [[[st acc] m'] c']. cbn [fst snd] in *.
  destruct P as (P1 & P2 & _). destruct st; try contradiction. destruct (P2 eq_refl) as [A _]. rewrite A. reflexivity.
Qed.

(* with a byte budget: the load never loops for ever; if it finishes it is complete; and it does finish whenever
   every page of at most 156 items (the end of the limit chain 10000, 5000, ..., 156) fits the budget *)
Theorem direct_load_budget_obs s : SInv s -> use_rs s = false ->
  (exists st l, snd (run_op s OLoadRegions) = BRegions st l /\ st <> RDiverged /\
                (st = RDone -> l = filter (fun p => fst p <? range_end) (base_r s))) /\
  ((forall page, Z.of_nat (length page) <= 156 -> over_budget (budget s) O page = false) ->
   snd (run_op s OLoadRegions) = BRegions RDone (filter (fun p => fst p <? range_end) (base_r s))).
Proof.
  intros I Hrs. cbn [run_op]. unfold collect_regions. rewrite Hrs. cbn [faults_of regions_of].
  pose proof (load_regions_collect_spec (over_budget (budget s)) (base_r s) (i_base s I)) as P. cbv zeta in P.
  pose proof (small_pages_never_give_up region_limit_min 156 (over_budget (budget s)) (@no_cb rv) ltac:(lia)) as G.
  unfold load_regions in *.
  destruct (page_loop (over_budget (budget s)) no_cb no_rw region_limit_min (fuel_for (base_r s) region_limit0)
                      (base_r s) 0 region_limit0 O tt []) as [[[st acc] m'] c'] eqn:E. cbn [fst snd] in *.
  destruct P as (P1 & P2 & _). split.
  - exists st, acc. split; [reflexivity|]. split; [exact P1|]. intros Hd. exact (proj1 (P2 Hd)).
  - intros Hsmall.
    assert (Hs : forall call page, Z.of_nat (length page) <= 156 -> over_budget (budget s) call page = false).
    { intros call page Hl. exact (Hsmall page Hl). }
    specialize (G Hs (fuel_for (base_r s) region_limit0) (base_r s) 0 region_limit0 O tt [] region_limit_chain).
    rewrite E in G. cbn [fst] in G.
    destruct st; try contradiction. rewrite (proj1 (P2 eq_refl)). reflexivity.
Qed.

(* ---------- regions, RegionStorage backend (leveldb + write-back batch) ---------- *)
Definition overlay (s : sstate) (id : Z) : option rv :=
  match lookup (batch s) id with Some v => Some v | None => lookup (ldb s) id end.

Lemma lookup_flush_fold (b : amap rv) : forall lo l, sorted_from 0 l -> sorted_from lo b -> 0 <= lo -> forall id,
  lookup (fold_left (fun m it => put m (fst it) (snd it)) b l) id =
  match lookup b id with Some v => Some v | None => lookup l id end.
Proof.
  induction b as [|[k v] b IH]; intros lo l Hl Hb Hlo id; cbn [fold_left]; [reflexivity|].
  destruct Hb as [Hk Hb]. cbn [fst snd].
  rewrite (IH (k + 1) (put l k v) (put_sorted0 l k v Hl ltac:(lia)) Hb ltac:(lia) id).
  rewrite (lookup_put 0) by exact Hl. cbn [lookup].
  destruct (id =? k) eqn:E.
  - apply Z.eqb_eq in E; subst id. rewrite (lookup_below (k + 1) b k Hb) by lia. reflexivity.
  - destruct (id <? k) eqn:E2; [|reflexivity].
    rewrite (lookup_below (k + 1) b id Hb) by lia. reflexivity.
Qed.

Lemma overlay_flush s : SInv s -> forall id, overlay (flush_batch s) id = overlay s id.
Proof.
  intros I id. unfold overlay. cbn [flush_batch batch ldb lookup].
  apply (lookup_flush_fold (batch s) 0 (ldb s) (i_ldb s I) (i_batch s I)). lia.
Qed.

(* every operation of a plain history keeps `leveldb overlaid by the batch` equal to what the history asks for;
   DeleteRegion removes the id from both (RegionStorage.Remove, 8a5de01) *)
Lemma rs_step s o f : SInv s -> op_ok o -> plain_op o = true -> use_rs s = true ->
  (forall id, overlay s id = f id) ->
  use_rs (fst (run_op s o)) = true /\ forall id, overlay (fst (run_op s o)) id = region_want f o id.
Proof.
  intros I Ho Hp Hrs Hf. pose proof I as [_ _ _ _ H5 H6].
  destruct (collect_keeps_regions s) as (_ & C2 & C3 & _ & C5).
  destruct o; try discriminate; cbn [run_op]; unfold region_want; cbn [region_eff]; unfold save_region, delete_region, load_once;
    rewrite ?Hrs; cbn [fst].
  - split; [first [exact Hrs|reflexivity]|exact Hf].
  - split; [first [exact Hrs|reflexivity]|exact Hf].
  - split; [first [exact Hrs|reflexivity]|exact Hf].
  - destruct (load_stores (stores s)); split; [first [exact Hrs|reflexivity]|exact Hf].
  - (* SaveRegion: buffered, or buffered and flushed *)
    cbn [op_ok] in Ho.
    assert (Hput : forall j, lookup (put (batch s) id v) j = if j =? id then Some v else lookup (batch s) j).
    { intros j. apply (lookup_put 0). exact H6. }
    destruct (cache_size s <? batch_size - 1); cbn [fst].
    + split; [first [exact Hrs|reflexivity]|]. intros j. unfold overlay, fupd. cbn [batch ldb]. rewrite Hput.
      destruct (j =? id); [reflexivity|apply Hf].
    + split; [first [exact Hrs|reflexivity]|]. intros j.
      rewrite overlay_flush.
      * unfold overlay, fupd. cbn [batch ldb]. rewrite Hput. destruct (j =? id); [reflexivity|apply Hf].
      * constructor; cbn; try apply I. apply put_sorted0; [exact H6|lia].
  - (* DeleteRegion: the pending entry and the leveldb entry *)
    split; [first [exact Hrs|reflexivity]|].
    intros j. unfold overlay, fupd. cbn [batch ldb].
    rewrite (lookup_del 0) by exact H6. rewrite (lookup_del 0) by exact H5.
    destruct (j =? id) eqn:E; [reflexivity|apply Hf].
  - split; [first [exact Hrs|reflexivity]|]. intros j. rewrite overlay_flush by exact I. apply Hf.
  - split; [first [exact Hrs|reflexivity]|]. intros j. rewrite <- (Hf j), <- (overlay_flush s I j). reflexivity.
  - split; [first [exact Hrs|reflexivity]|exact Hf].
  - rewrite C5. split; [first [exact Hrs|reflexivity]|]. intros j. unfold overlay. rewrite C2, C3. apply Hf.
  - destruct (loaded_once s); cbn [fst]; [split; [first [exact Hrs|reflexivity]|exact Hf]|].
    destruct (collect_regions s) as [s' b] eqn:E. cbn [fst] in C2, C3, C5.
    assert (G : use_rs s' = true /\ forall j, overlay s' j = f j).
    { split; [rewrite C5; exact Hrs|]. intros j. unfold overlay. rewrite C2, C3. apply Hf. }
    destruct b as [| |st l| | | |]; try exact G. destruct st; exact G.
  - destruct applied; split; first [exact Hrs|reflexivity|exact Hf].
  - destruct applied; split; first [exact Hrs|reflexivity|exact Hf].
  - split; [first [exact Hrs|reflexivity]|exact Hf].
  - (* the timed background flush *)
    split; [first [exact Hrs|reflexivity]|]. intros j. rewrite overlay_flush by exact I. apply Hf.
  - (* a flush whose leveldb write fails: nothing changes, the batch is kept *)
    split; [first [exact Hrs|reflexivity]|exact Hf].
Qed.

Lemma rs_follow ops : forall s f, SInv s -> ops_ok ops -> plain_ops ops = true -> use_rs s = true ->
  (forall id, overlay s id = f id) ->
  let s' := run_state run_op s ops in
  use_rs s' = true /\ SInv s' /\ forall id, overlay s' id = fold_left region_want ops f id.
Proof.
  induction ops as [|o ops IH]; intros s f I Hok Hp Hrs Hf; cbn [run_state fold_left]; [auto|].
  destruct Hok as [Ho Hok]. cbn [plain_ops forallb] in Hp. apply andb_true_iff in Hp as [Hpo Hp].
  destruct (rs_step s o f I Ho Hpo Hrs Hf) as [R1 R2].
  apply IH; [apply inv_step; assumption|exact Hok|exact Hp|exact R1|exact R2].
Qed.

Definition srs : sstate := fst (run_op sinit (OSwitch true)).

Theorem rs_load_obs s : SInv s -> use_rs s = true ->
  snd (run_op s OLoadRegions) = BRegions RDone (filter (fun p => fst p <? range_end) (ldb s)).
Proof.
  intros I Hrs. cbn [run_op]. unfold collect_regions. rewrite Hrs. cbn [faults_of regions_of].
  pose proof (load_regions_collect_spec never_fails (ldb s) (i_ldb s I)) as P. cbv zeta in P.
  pose proof (never_fails_not_failed (@no_cb rv) region_limit_min (fuel_for (ldb s) region_limit0) (ldb s) 0 region_limit0 O tt []) as NF.
  fold (load_regions never_fails no_cb (ldb s) tt) in NF.
  destruct (load_regions never_fails no_cb (ldb s) tt) as [[[st acc] m'] c']. cbn [fst snd] in *.
  destruct P as (P1 & P2 & _). destruct st; try contradiction. destruct (P2 eq_refl) as [A _]. rewrite A. reflexivity.
Qed.

(* a crash between two batches loses exactly the unflushed batch: leveldb is untouched *)
Theorem crash_keeps_flushed s : ldb (fst (run_op s OCrash)) = ldb s /\ batch (fst (run_op s OCrash)) = [] /\
                                base_r (fst (run_op s OCrash)) = base_r s.
Proof. repeat split. Qed.

(* ---------- ids that a valid history leaves behind are uint64 ---------- *)
Lemma store_eff_bound o id v : op_ok o -> store_eff o = Some (id, v) -> id < two64.
Proof.
  intros Ho E. destruct o; cbn [store_eff] in E; try discriminate; try destruct applied; try discriminate;
    inversion E; subst; unfold op_ok in Ho; lia.
Qed.
Lemma region_eff_bound o id v : op_ok o -> region_eff o = Some (id, v) -> id < two64.
Proof.
  intros Ho E. destruct o; cbn [region_eff] in E; try discriminate; try destruct applied; try discriminate;
    inversion E; subst; unfold op_ok in Ho; lia.
Qed.

Lemma store_want_bound ops : forall f, ops_ok ops -> (forall k v, f k = Some v -> k < two64) ->
  forall k v, fold_left store_want ops f k = Some v -> k < two64.
Proof.
  induction ops as [|o r IH]; intros f Ho Hf k0 v0 E; cbn [fold_left] in E; [exact (Hf _ _ E)|].
  destruct Ho as [Ho Hr]. apply (IH (store_want f o) Hr) with (v := v0); [|exact E].
  intros k1 v1 E1. unfold store_want, apply_eff in E1. destruct (store_eff o) as [[id v]|] eqn:Ee; [|exact (Hf _ _ E1)].
  unfold fupd in E1. destruct (k1 =? id) eqn:Ek; [|exact (Hf _ _ E1)].
  apply Z.eqb_eq in Ek. subst k1. exact (store_eff_bound o id v Ho Ee).
Qed.
Lemma region_want_bound ops : forall f, ops_ok ops -> (forall k v, f k = Some v -> k < two64) ->
  forall k v, fold_left region_want ops f k = Some v -> k < two64.
Proof.
  induction ops as [|o r IH]; intros f Ho Hf k0 v0 E; cbn [fold_left] in E; [exact (Hf _ _ E)|].
  destruct Ho as [Ho Hr]. apply (IH (region_want f o) Hr) with (v := v0); [|exact E].
  intros k1 v1 E1. unfold region_want in E1. destruct (region_eff o) as [[id v]|] eqn:Ee; [|exact (Hf _ _ E1)].
  unfold fupd in E1. destruct (k1 =? id) eqn:Ek; [|exact (Hf _ _ E1)].
  apply Z.eqb_eq in Ek. subst k1. exact (region_eff_bound o id v Ho Ee).
Qed.

Lemma all_pass {V} (m : amap V) (f : Z -> option V) : sorted_from 0 m -> (forall id, lookup m id = f id) ->
  (forall k v, f k = Some v -> k < two64) -> filter (fun p => fst p <? range_end) m = m.
Proof.
  intros Hs Hl Hb. apply filter_all_below. intros k v Hin. apply (in_lookup m 0 k v Hs) in Hin.
  rewrite Hl in Hin. exact (Hb k v Hin).
Qed.

(* ---------- the statements of props/C17.v ---------- *)
(* stores: after any history LoadStores returns every store saved and not deleted, exactly once, in id order, with
   the weights last saved (default 1.0) *)
Theorem load_returns_each_saved_once_pf :
  forall ops, ops_ok ops ->
    let s := run_state run_op sinit ops in
    snd (run_op s OLoadStores) = BStores RDone (map (decorate s) (stores s)) /\
    sorted_from 0 (stores s) /\
    (forall id, lookup (lweight s) id = fold_left lw_want ops no_want id) /\
    (forall id, lookup (rweight s) id = fold_left rw_want ops no_want id) /\
    forall id p, fold_left store_want ops no_want id = Some p <->
                 In (id, p, weight_of (lweight s) id, weight_of (rweight s) id) (map (decorate s) (stores s)).
Proof.
  intros ops Hok s. destruct (stores_are_what_history_left ops Hok) as (I & A & B & C). fold s in I, A, B, C.
  pose proof (i_stores s I) as Hs.
  assert (Hall : filter (fun p => fst p <? range_end) (stores s) = stores s).
  { apply (all_pass (stores s) _ Hs A). apply (store_want_bound ops no_want Hok). intros k v E; discriminate. }
  split; [rewrite load_stores_obs by exact I; rewrite Hall; reflexivity|]. split; [exact Hs|].
  split; [exact B|]. split; [exact C|].
  intros id p. rewrite <- A, <- (in_lookup _ 0 _ _ Hs). split.
  - intros Hin. apply in_map_iff. exists (id, p). split; [reflexivity|exact Hin].
  - intros Hin. apply in_map_iff in Hin as ([k v] & E & Hin). unfold decorate in E. cbn [fst snd] in E.
    inversion E; subst. exact Hin.
Qed.

(* regions, direct backend, any byte budget *)
Theorem load_regions_direct_pf :
  forall ops, ops_ok ops -> direct_ops ops = true ->
    let s := run_state run_op sinit ops in
    (forall id, lookup (base_r s) id = fold_left region_want ops no_rwant id) /\
    sorted_from 0 (base_r s) /\
    (exists st l, snd (run_op s OLoadRegions) = BRegions st l /\ st <> RDiverged /\ (st = RDone -> l = base_r s)) /\
    ((forall page, Z.of_nat (length page) <= 156 -> over_budget (budget s) O page = false) ->
     snd (run_op s OLoadRegions) = BRegions RDone (base_r s)).
Proof.
  intros ops Hok Hp s.
  pose proof (inv_run ops sinit inv_init Hok) as I. fold s in I.
  destruct (direct_follow ops sinit no_rwant inv_init Hok Hp eq_refl (fun id => eq_refl)) as [D1 D2]. fold s in D1, D2.
  assert (Hall : filter (fun p => fst p <? range_end) (base_r s) = base_r s).
  { apply (all_pass (base_r s) _ (i_base s I) D2). apply (region_want_bound ops no_rwant Hok). intros k v E; discriminate. }
  destruct (direct_load_budget_obs s I D1) as [B1 B2]. rewrite Hall in B1, B2.
  split; [exact D2|]. split; [apply (i_base s I)|]. split; [exact B1|exact B2].
Qed.

(* regions, RegionStorage backend: once Flush has returned, leveldb holds exactly what the history saved and did not
   delete, and a load returns it *)
Theorem flush_makes_durable_pf :
  forall ops, ops_ok ops -> plain_ops ops = true ->
    let s := run_state run_op srs (ops ++ [OFlush]) in
    batch s = [] /\
    (forall id, lookup (ldb s) id = fold_left region_want ops no_rwant id) /\
    sorted_from 0 (ldb s) /\
    snd (run_op s OLoadRegions) = BRegions RDone (ldb s).
Proof.
  intros ops Hok Hp s.
  assert (I0 : SInv srs) by (constructor; exact I).
  destruct (rs_follow ops srs no_rwant I0 Hok Hp eq_refl (fun id => eq_refl)) as (R1 & R2 & R3).
  assert (Es : s = flush_batch (run_state run_op srs ops)).
  { unfold s. clear. generalize srs. induction ops as [|o ops IH]; intros s0; cbn [app run_state]; [reflexivity|apply IH]. }
  assert (L : forall id, lookup (ldb s) id = fold_left region_want ops no_rwant id).
  { intros id. rewrite Es, <- R3, <- (overlay_flush _ R2 id). unfold overlay. reflexivity. }
  assert (Is : SInv s) by (rewrite Es; apply inv_flush; exact R2).
  assert (Rs : use_rs s = true) by (rewrite Es; exact R1).
  split; [rewrite Es; reflexivity|]. split; [exact L|]. split; [apply (i_ldb s Is)|].
  rewrite (rs_load_obs s Is Rs). f_equal.
  apply (all_pass (ldb s) _ (i_ldb s Is) L). apply (region_want_bound ops no_rwant Hok). intros k v E; discriminate.
Qed.

(* a stop of the process inside a flush: leveldb holds either everything the batch carried or nothing of it *)
Theorem crash_in_flush_atomic s written : SInv s ->
  let s' := fst (run_op s (OCrashInFlush written)) in
  batch s' = [] /\ base_r s' = base_r s /\
  forall id, lookup (ldb s') id = if written then overlay s id else lookup (ldb s) id.
Proof.
  intros I s'. unfold s'. cbn [run_op fst]. destruct written; cbn [batch base_r ldb flush_batch].
  - split; [reflexivity|]. split; [reflexivity|]. intros id.
    pose proof (overlay_flush s I id) as O. unfold overlay in O at 1. cbn [flush_batch batch ldb lookup] in O. exact O.
  - repeat split.
Qed.

(* ---------- LoadRegionsOnce: the once-flag is set only after a successful load ---------- *)
Lemma load_once_obs s : SInv s -> use_rs s = true -> loaded_once s = false ->
  snd (load_once s) = BRegions RDone (filter (fun p => fst p <? range_end) (ldb s)) /\
  loaded_once (fst (load_once s)) = true /\ ldb (fst (load_once s)) = ldb s.
Proof.
  intros I Hrs Hl. unfold load_once. rewrite Hrs, Hl.
  pose proof (rs_load_obs s I Hrs) as O. cbn [run_op] in O.
  destruct (collect_keeps_regions s) as (_ & C2 & _).
  destruct (collect_regions s) as [s' b]. cbn [fst snd] in *. subst b. cbn [fst snd loaded_once ldb]. auto.
Qed.

(* a first LoadRegionsOnce that fails half-way (an unreadable value) delivers the regions below the bad one, leaves
   the flag unset and the storage untouched; the retry then delivers everything; only after that success later calls
   are skipped *)
Theorem load_once_retry_pf s bad : SInv s -> use_rs s = true -> loaded_once s = false ->
  lookup (ldb s) bad <> None ->
  let s1 := fst (run_op s (OLoadOnceCorrupt bad)) in
  snd (run_op s (OLoadOnceCorrupt bad)) = BRegions RFailed (filter (fun p => fst p <? bad) (ldb s)) /\
  s1 = s /\
  snd (run_op s1 OLoadOnce) = BRegions RDone (filter (fun p => fst p <? range_end) (ldb s)) /\
  snd (run_op (fst (run_op s1 OLoadOnce)) OLoadOnce) = BSkipped.
Proof.
  intros I Hrs Hl Hbad s1. unfold s1. cbn [run_op]. unfold regions_of. rewrite Hrs, Hl.
  destruct (lookup (ldb s) bad) eqn:E; [|contradiction]. cbn [andb fst snd].
  split; [reflexivity|]. split; [reflexivity|].
  destruct (load_once_obs s I Hrs Hl) as (O1 & O2 & _). split; [exact O1|].
  unfold load_once at 1.
  assert (Hrs' : use_rs (fst (load_once s)) = true).
  { unfold load_once. rewrite Hrs, Hl. destruct (collect_keeps_regions s) as (_ & _ & _ & _ & C5).
    destruct (collect_regions s) as [s' b]. cbn [fst] in *.
    destruct b as [| |[] l| | | |]; cbn [fst use_rs]; rewrite ?C5; exact Hrs. }
  rewrite Hrs', O2. reflexivity.
Qed.

(* ---------- loading over a warm cache: the record of a served region is brought up to date, never deleted ---------- *)
Definition all_behind (c : cache) (r : Z * rv) : Prop := forall o, In o c -> fst o <= fst r.
Lemma filter_id_all {A} (f : A -> bool) l : (forall x, In x l -> f x = true) -> filter f l = l.
Proof.
  induction l as [|a l IH]; intros H; [reflexivity|]. cbn [filter]. rewrite (H a (or_introl eq_refl)).
  f_equal. apply IH. intros x Hx. apply H. right. exact Hx.
Qed.
Lemma put_loaded_behind c r : all_behind c r -> accepts c r = true -> put_loaded c r = check_and_put c r.
Proof.
  intros Hb Ha. unfold put_loaded. rewrite Ha. unfold check_and_put. rewrite Ha. cbn [fst snd]. f_equal.
  apply filter_id_all. intros id Hid. apply in_map_iff in Hid. destruct Hid as [o [<- Ho]].
  unfold evicted in Ho. apply filter_In in Ho. destruct Ho as [Ho _]. apply Z.leb_le. exact (Hb o Ho).
Qed.
Lemma put_loaded_cold c r : all_behind c r -> find_id c (fst r) = None -> put_loaded c r = check_and_put c r /\ rw_loaded c r = None.
Proof.
  intros Hb H. split.
  - destruct (accepts c r) eqn:Ha; [exact (put_loaded_behind c r Hb Ha)|].
    unfold put_loaded, check_and_put. rewrite Ha, H. reflexivity.
  - unfold rw_loaded. rewrite H. destruct (accepts c r); reflexivity.
Qed.
Lemma put_loaded_accepted c r : all_behind c r -> accepts c r = true -> put_loaded c r = check_and_put c r /\ rw_loaded c r = None.
Proof. intros Hb H. split; [exact (put_loaded_behind c r Hb H)|]. unfold rw_loaded. rewrite H. reflexivity. Qed.

(* whatever the cache holds, the callback never asks the load to delete a record it has not reached yet *)
Lemma put_loaded_deletes_behind_pf c r id : In id (snd (put_loaded c r)) -> id <= fst r.
Proof.
  unfold put_loaded. destruct (accepts c r).
  - cbn [snd]. intros H. apply filter_In in H. destruct H as [_ H]. apply Z.leb_le. exact H.
  - destruct (find_id c (fst r)); cbn [snd In]; intros H; [contradiction|]. destruct H as [<-|[]]. lia.
Qed.
(* ... and it differs from CheckAndPutRegion's answer only by those ids *)
Lemma put_loaded_cache_pf c r : accepts c r = true ->
  fst (put_loaded c r) = fst (check_and_put c r) /\
  forall id, In id (snd (check_and_put c r)) -> id <= fst r -> In id (snd (put_loaded c r)).
Proof.
  intros Ha. unfold put_loaded. rewrite Ha. cbn [fst snd]. split; [reflexivity|].
  intros id Hi Hle. apply filter_In. split; [exact Hi|]. apply Z.leb_le. exact Hle.
Qed.

(* the step of the load for a record that the cache rejects while it holds a region of the same id *)
Theorem stale_record_is_rewritten_pf (m : amap rv) (c : cache) k v v' nx :
  sorted_from 0 m -> accepts c (k, v) = false -> find_id c k = Some v' ->
  let r := step_item put_loaded rw_loaded (m, c, nx) (k, v) in
  snd (fst r) = c /\ lookup (fst (fst r)) k = Some v' /\ forall j, j <> k -> lookup (fst (fst r)) j = lookup m j.
Proof.
  intros Hs Ha Hf r. subst r. unfold step_item, put_loaded, rw_loaded. cbn [fst]. rewrite Ha, Hf. cbn [fold_left fst snd].
  split; [reflexivity|]. split.
  - rewrite (lookup_put 0) by exact Hs. rewrite Z.eqb_refl. reflexivity.
  - intros j Hj. rewrite (lookup_put 0) by exact Hs. replace (j =? k) with false by (symmetry; lia). reflexivity.
Qed.

(* the audit's history in the model: region 1 is cached with conf_ver 6 (its save failed), the record has conf_ver 5; the
   member is elected again and reloads over its warm cache: the record is rewritten, storage and cache agree *)
Lemma reelected_leader_example :
  let r1 := RV 0 100 5 5 30 in let r1' := RV 0 100 6 5 30 in let r2 := RV 100 0 5 5 30 in
  let ops := [OSaveRegion 1 r1; OSaveRegion 2 r2; OSaveRegionF 1 r1' false; OLoadWarm [(1, r1'); (2, r2)]] in
  last (run run_op sinit ops) BUnit = BCache RDone [(1, r1); (2, r2)] [(1, r1'); (2, r2)] [(1, r1'); (2, r2)].
Proof. vm_compute. reflexivity. Qed.

(* a cache that lags behind the shared store: region 5 = [10,40) is cached; during another leader's term it was split and the
   left half merged away, the store holds 1 = [10,20) and 5 = [20,40), both newer. The member is elected again and reloads:
   record 1 pushes the cached 5 out, record 5 is then read (it sits in the same page) and cached. Its record must stay. *)
Lemma lagging_cache_example :
  let old5 := RV 10 40 1 5 28 in let r1 := RV 10 20 1 6 28 in let r5 := RV 20 40 1 6 28 in
  let ops := [OSaveRegion 5 old5; OSaveRegion 1 r1; OSaveRegion 5 r5; OLoadWarm [(5, old5)]; OLoadRegions] in
  skipn 3 (run run_op sinit ops) = [BCache RDone [(1, r1); (5, r5)] [(1, r1); (5, r5)] [(1, r1); (5, r5)]; BRegions RDone [(1, r1); (5, r5)]].
Proof. vm_compute. reflexivity. Qed.
(* with the callback as it was before dc3cb19 the same load leaves region 5 served and without a record *)
Lemma lagging_cache_eager_witness :
  let old5 := RV 10 40 1 5 28 in let r1 := RV 10 20 1 6 28 in let r5 := RV 20 40 1 6 28 in
  let m := [(1, r1); (5, r5)] in
  let res := page_loop never_fails put_loaded_eager rw_loaded region_limit_min (fuel_for m region_limit0) m 0 region_limit0 O [(5, old5)] [] in
  fst (fst (fst res)) = RDone /\ snd (fst res) = [(1, r1)] /\ find_id (snd res) 5 = Some r5.
Proof. vm_compute. repeat split; reflexivity. Qed.
