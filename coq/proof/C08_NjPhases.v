(* C08 — how plan_check moves through the steps the non-joint build path emits (promote, demote,
   removal of any peer), under explicit preconditions; general in the number of peers.
   Add-learner and transfer-leader are in proof/C08_SimPhases.v. *)
From Coq Require Import String.
From PDV Require Import lib.Base gen.Gen_C08 model.C08_Steps model.C08_Builder proof.C08_ListFacts proof.C08_SimPhases.
Local Open Scope list_scope.
Local Open Scope Z_scope.

(* ---------- counting under the two in-place edits ---------- *)
Lemma replace_absent ps st p : ~ In st (map pstore ps) -> replace_peer ps st p = ps.
Proof.
  unfold replace_peer. induction ps as [|q r IH]; intros H; cbn [map]; [reflexivity|].
  cbn [map] in H. destruct (on_store st q) eqn:E.
  - apply on_store_true in E. exfalso. apply H. left. exact E.
  - f_equal. apply IH. intros C. apply H. right. exact C.
Qed.

Lemma remove_absent ps st : ~ In st (map pstore ps) -> remove_store ps st = ps.
Proof.
  unfold remove_store. induction ps as [|q r IH]; intros H; cbn [filter]; [reflexivity|].
  cbn [map] in H. destruct (on_store st q) eqn:E.
  - apply on_store_true in E. exfalso. apply H. left. exact E.
  - cbn [negb]. f_equal. apply IH. intros C. apply H. right. exact C.
Qed.

Lemma countb_cons {A} (f : A -> bool) x l : countb f (x :: l) = b2z (f x) + countb f l.
Proof. unfold countb. cbn [filter]. destruct (f x); cbn [length b2z]; lia. Qed.

Lemma countb_replace (f : peer -> bool) ps st old p :
  ND ps -> lk ps st = Some old -> countb f (replace_peer ps st p) = countb f ps - b2z (f old) + b2z (f p).
Proof.
  unfold ND, lk. induction ps as [|q r IH]; intros Hnd Hl; cbn [find] in Hl; [discriminate|].
  cbn [map] in Hnd. inversion Hnd as [|? ? Hn Hd]; subst.
  unfold replace_peer. cbn [map]. fold (replace_peer r st p). destruct (on_store st q) eqn:E.
  - inversion Hl; subst q. apply on_store_true in E. rewrite replace_absent by (rewrite <- E; exact Hn).
    rewrite !countb_cons. lia.
  - rewrite !countb_cons. rewrite (IH Hd Hl). lia.
Qed.

Lemma countb_remove (f : peer -> bool) ps st old :
  ND ps -> lk ps st = Some old -> countb f (remove_store ps st) = countb f ps - b2z (f old).
Proof.
  unfold ND, lk. induction ps as [|q r IH]; intros Hnd Hl; cbn [find] in Hl; [discriminate|].
  cbn [map] in Hnd. inversion Hnd as [|? ? Hn Hd]; subst.
  unfold remove_store. cbn [filter]. fold (remove_store r st). destruct (on_store st q) eqn:E; cbn [negb].
  - inversion Hl; subst q. apply on_store_true in E. rewrite remove_absent by (rewrite <- E; exact Hn).
    rewrite countb_cons. lia.
  - rewrite !countb_cons. rewrite (IH Hd Hl). lia.
Qed.

(* outside a joint state the two voter counts coincide *)
Lemma NJ_voters ps : NJ ps -> voters_old ps = voters_new ps.
Proof.
  intros H. unfold voters_old, voters_new. apply countb_ext. intros p Hp.
  destruct (H p Hp) as [R|R]; unfold old_voter, new_voter; rewrite R; reflexivity.
Qed.

Lemma NJ_replace ps st p : NJ ps -> (prole p = Voter \/ prole p = Learner) -> NJ (replace_peer ps st p).
Proof.
  intros H Hp q Hq. unfold replace_peer in Hq. apply in_map_iff in Hq as (x & <- & Hx).
  destruct (on_store st x); [exact Hp|apply H; exact Hx].
Qed.

Lemma lk_remove_store ps st s : ND ps -> lk (remove_store ps st) s = if s =? st then None else lk ps s.
Proof.
  intros Hnd. unfold remove_store. rewrite lk_filter by exact Hnd.
  destruct (lk ps s) as [p|] eqn:E; [|destruct (s =? st); reflexivity].
  apply lk_Some in E as [_ E]. unfold on_store. rewrite E. rewrite (Z.eqb_sym s st). destruct (st =? s); reflexivity.
Qed.

(* ================= PromoteLearner ================= *)
Lemma pc_promote g r st id rest :
  Inv g r -> NJ (peers r) -> lk (peers r) st = Some (Peer st id Learner) ->
  let r' := set_peers r (replace_peer (peers r) st (Peer st id Voter)) 1 in
  plan_check g r (PromoteLearner st id :: rest) = plan_check g r' rest /\ Inv g r' /\ NJ (peers r')
  /\ voters_new (peers r') = voters_new (peers r) + 1.
Proof.
  intros I Hnj Hp r'. destruct I as [Hnd Hld Ho Hn].
  assert (Hnd' : ND (peers r')) by (apply ND_replace; [reflexivity|exact Hnd]).
  assert (Hlk' : forall s, lk (peers r') s = if s =? st then Some (Peer st id Voter) else lk (peers r) s).
  { intros s. unfold r'; cbn [peers set_peers]. rewrite lk_replace by reflexivity. rewrite Hp. reflexivity. }
  assert (Hnj' : NJ (peers r')) by (apply NJ_replace; [exact Hnj|left; reflexivity]).
  assert (Hvn : voters_new (peers r') = voters_new (peers r) + 1).
  { unfold r', voters_new; cbn [peers set_peers]. rewrite (countb_replace _ _ _ _ _ Hnd Hp). cbn. lia. }
  assert (Hvo : voters_old (peers r') = voters_old (peers r) + 1).
  { rewrite (NJ_voters _ Hnj'), (NJ_voters _ Hnj). exact Hvn. }
  assert (Hld' : LeaderOK r').
  { destruct Hld as (p & Hl & Hll). unfold LeaderOK. change (leader r') with (leader r). rewrite Hlk'.
    destruct (leader r =? st) eqn:E; [exists (Peer st id Voter); split; reflexivity|exists p; auto]. }
  split; [|split; [constructor; auto; lia|split; [exact Hnj'|exact Hvn]]].
  cbn [plan_check]. unfold exec_step. cbn [is_finish check_safety cmd_of_step].
  rewrite (get_store_voter_lk r st Hnd), Hp. cbn [is_learner prole role_eqb].
  unfold get_store_peer. fold (lk (peers r) st). rewrite Hp. cbn [oid pid]. rewrite Z.eqb_refl. cbn [negb].
  unfold add_node, apply_cmd, is_in_joint. rewrite (NJ_not_joint _ Hnj). unfold apply_change. cbn [pstore pid].
  fold (lk (peers r) st). rewrite Hp. cbn [pid prole]. rewrite Z.eqb_refl. cbn [negb]. fold r'.
  rewrite trans_ok; [| | |exact Hnd'|lia|lia].
  - cbn [is_finish]. rewrite (get_store_voter_lk r' st Hnd'), Hlk', Z.eqb_refl. cbn. rewrite Z.eqb_refl. reflexivity.
  - apply leader_kept_same_lk; [exact Hld|]. intros p Hpl. rewrite Hlk'.
    destruct (leader r =? st) eqn:E; [exists (Peer st id Voter); split; [reflexivity|auto]|exists p; auto].
  - apply leader_to_valid_same. reflexivity.
Qed.

(* ================= DemoteFollower ================= *)
(* peer ids are pairwise distinct: the demoted peer's id is not the leader's *)
Lemma pc_demote g r st id rest :
  Inv g r -> NJ (peers r) -> NoDup (map pid (peers r)) -> leader r <> 0 ->
  lk (peers r) st = Some (Peer st id Voter) -> leader r <> st ->
  g_min_voters g + 1 <= voters_new (peers r) ->
  let r' := set_peers r (replace_peer (peers r) st (Peer st id Learner)) 1 in
  plan_check g r (DemoteFollower st id :: rest) = plan_check g r' rest /\ Inv g r' /\ NJ (peers r')
  /\ voters_new (peers r') = voters_new (peers r) - 1.
Proof.
  intros I Hnj Hids Hl0 Hp Hne Hmin r'. destruct I as [Hnd Hld Ho Hn].
  assert (Hnd' : ND (peers r')) by (apply ND_replace; [reflexivity|exact Hnd]).
  assert (Hlk' : forall s, lk (peers r') s = if s =? st then Some (Peer st id Learner) else lk (peers r) s).
  { intros s. unfold r'; cbn [peers set_peers]. rewrite lk_replace by reflexivity. rewrite Hp. reflexivity. }
  assert (Hnj' : NJ (peers r')) by (apply NJ_replace; [exact Hnj|right; reflexivity]).
  assert (Hvn : voters_new (peers r') = voters_new (peers r) - 1).
  { unfold r', voters_new; cbn [peers set_peers]. rewrite (countb_replace _ _ _ _ _ Hnd Hp). cbn. lia. }
  assert (Hvo : voters_old (peers r') = voters_old (peers r) - 1).
  { rewrite (NJ_voters _ Hnj'), (NJ_voters _ Hnj). exact Hvn. }
  assert (Hld' : LeaderOK r').
  { destruct Hld as (p & Hl & Hll). unfold LeaderOK. change (leader r') with (leader r). rewrite Hlk'.
    destruct (leader r =? st) eqn:E; [apply Z.eqb_eq in E; contradiction|exists p; auto]. }
  pose proof (NJ_voters _ Hnj) as Veq.
  split; [|split; [constructor; auto; lia|split; [exact Hnj'|exact Hvn]]].
  cbn [plan_check]. unfold exec_step. cbn [is_finish check_safety cmd_of_step].
  rewrite (get_store_learner_lk r st Hnd), Hp. cbn [is_learner prole role_eqb].
  unfold get_store_peer. fold (lk (peers r) st). rewrite Hp. cbn [oid pid]. rewrite Z.eqb_refl. cbn [negb].
  (* the leader's peer is another peer, hence has another id *)
  assert (Hlid : (id =? leader_id r) = false).
  { destruct Hld as (lp & Hlp & _). unfold leader_id. destruct (leader r =? 0) eqn:E0; [apply Z.eqb_eq in E0; contradiction|].
    unfold get_store_peer. fold (lk (peers r) (leader r)). rewrite Hlp. cbn [oid]. apply Z.eqb_neq. intros C.
    apply lk_Some in Hlp as [Hin1 Hs1]. apply lk_Some in Hp as [Hin2 Hs2].
    assert (X : lp = Peer st id Voter).
    { clear - Hids Hin1 Hin2 C. induction (peers r) as [|q l IH]; [contradiction|].
      cbn [map] in Hids. inversion Hids as [|x0 l0 Hn Hd]; subst x0 l0.
      destruct Hin1 as [<-|H1], Hin2 as [E2|H2].
      - exact E2.
      - exfalso. apply Hn. rewrite <- C. change id with (pid (Peer st id Voter)). apply in_map. exact H2.
      - exfalso. apply Hn. subst q. cbn [pid]. rewrite C. apply in_map. exact H1.
      - apply IH; assumption. }
    subst lp. cbn in Hs1. congruence. }
  rewrite Hlid.
  unfold add_learner_node, apply_cmd, is_in_joint. rewrite (NJ_not_joint _ Hnj). unfold apply_change. cbn [pstore pid].
  fold (lk (peers r) st). rewrite Hp. cbn [pid prole]. rewrite Z.eqb_refl. cbn [negb andb].
  destruct (st =? leader r) eqn:E; [apply Z.eqb_eq in E; congruence|]. fold r'.
  rewrite trans_ok; [| | |exact Hnd'|lia|lia].
  - cbn [is_finish]. rewrite (get_store_learner_lk r' st Hnd'), Hlk', Z.eqb_refl. cbn. rewrite Z.eqb_refl. reflexivity.
  - apply leader_kept_same_lk; [exact Hld|]. intros p Hpl. rewrite Hlk'.
    destruct (leader r =? st) eqn:E2; [apply Z.eqb_eq in E2; contradiction|exists p; auto].
  - apply leader_to_valid_same. reflexivity.
Qed.

(* ================= RemovePeer, of a voter or a learner ================= *)
Lemma pc_remove g r st id ro rest :
  Inv g r -> NJ (peers r) -> lk (peers r) st = Some (Peer st id ro) -> leader r <> st ->
  g_min_voters g + b2z (new_voter (Peer st id ro)) <= voters_new (peers r) ->
  let r' := set_peers r (remove_store (peers r) st) 1 in
  plan_check g r (RemovePeer st id :: rest) = plan_check g r' rest /\ Inv g r' /\ NJ (peers r')
  /\ voters_new (peers r') = voters_new (peers r) - b2z (new_voter (Peer st id ro)).
Proof.
  intros I Hnj Hp Hne Hmin r'. destruct I as [Hnd Hld Ho Hn].
  assert (Hnd' : ND (peers r')) by (apply ND_filter; exact Hnd).
  assert (Hlk' : forall s, lk (peers r') s = if s =? st then None else lk (peers r) s).
  { intros s. unfold r'; cbn [peers set_peers]. apply lk_remove_store. exact Hnd. }
  assert (Hnj' : NJ (peers r')).
  { intros p Hin. apply Hnj. unfold r', remove_store in Hin; cbn in Hin. apply filter_In in Hin. tauto. }
  assert (Hvn : voters_new (peers r') = voters_new (peers r) - b2z (new_voter (Peer st id ro))).
  { unfold r', voters_new; cbn [peers set_peers]. apply (countb_remove _ _ _ _ Hnd Hp). }
  assert (Hvo : voters_old (peers r') = voters_old (peers r) - b2z (new_voter (Peer st id ro))).
  { rewrite (NJ_voters _ Hnj'), (NJ_voters _ Hnj). exact Hvn. }
  pose proof (NJ_voters _ Hnj) as Veq.
  assert (Hld' : LeaderOK r').
  { destruct Hld as (p & Hl & Hll). exists p. split; [|exact Hll]. change (leader r') with (leader r). rewrite Hlk'.
    destruct (leader r =? st) eqn:E; [apply Z.eqb_eq in E; contradiction|exact Hl]. }
  split; [|split; [constructor; auto; lia|split; [exact Hnj'|exact Hvn]]].
  cbn [plan_check]. unfold exec_step. cbn [is_finish check_safety cmd_of_step].
  unfold get_store_peer. fold (lk (peers r) st). rewrite Hp. cbn [is_some negb].
  destruct (st =? leader r) eqn:E; [apply Z.eqb_eq in E; congruence|].
  unfold apply_cmd, is_in_joint. rewrite (NJ_not_joint _ Hnj). unfold apply_change. cbn [pstore].
  fold (lk (peers r) st). rewrite Hp. unfold peer_eqb; cbn [pstore pid prole]. rewrite !Z.eqb_refl.
  assert (Er : role_eqb ro ro = true) by (destruct ro; reflexivity). rewrite Er. cbn [andb negb].
  rewrite E. cbn [andb]. fold r'.
  rewrite trans_ok; [| | |exact Hnd'|lia|lia].
  - cbn [is_finish]. unfold get_store_peer. fold (lk (peers r') st). rewrite Hlk', Z.eqb_refl. reflexivity.
  - apply leader_kept_same_lk; [exact Hld|]. intros p Hpl. exists p. split; [|auto]. rewrite Hlk'.
    destruct (leader r =? st) eqn:E2; [apply Z.eqb_eq in E2; contradiction|exact Hpl].
  - apply leader_to_valid_same. reflexivity.
Qed.
