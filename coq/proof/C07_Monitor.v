(* C07 — the monitor evaluated on the model's own trace never fires inside the domain: every observation of the
   model equals what the linear-scan specification expects.  This links the boolean property the check evaluates
   on implementation traces (model/C07_Region.v: ri_monitor_from / spec_expect) to the theorems. *)
From Coq Require Import Permutation Sorting.Sorted String.
From PDV Require Import lib.Base lib.C07_Key gen.Gen_C07 model.C07_BTreeSpec model.C07_Region
  proof.C07_Sorted proof.C07_Tree proof.C07_RegionProof proof.C07_Spec proof.C07_Spec2.
Local Open Scope Z_scope.

Lemma ref_eqb_refl a : ref_eqb a a = true.
Proof. unfold ref_eqb. rewrite !Z.eqb_refl. reflexivity. Qed.
Lemma refs_eqb_refl l : refs_eqb l l = true.
Proof. unfold refs_eqb. induction l as [|a l IH]; cbn; [reflexivity|]. rewrite ref_eqb_refl, IH. reflexivity. Qed.
Lemma oref_eqb_refl o : oref_eqb o o = true.
Proof. destruct o; cbn; [apply ref_eqb_refl|reflexivity]. Qed.
Lemma zlist_eqb_refl l : zlist_eqb l l = true.
Proof. induction l as [|a l IH]; cbn; [reflexivity|]. rewrite Z.eqb_refl, IH. reflexivity. Qed.

(* the operations the theorem speaks about: everything except the two whose model observation is a set *)
Definition plain_op (o : rop) : Prop := match o with OAll | ORandN _ _ _ => False | _ => True end.

Section Expect.
  Variables (l : spec) (st : rinfo).
  Hypothesis R : Rel l st.
  Local Notation T := (items (tree st)).

  Lemma q_get_region id : get_region st id = List.find (fun r => r_id r =? id) l.
  Proof.
    destruct (get_region st id) as [x|] eqn:GS.
    - apply (regs_rep_get _ _ _ _ (q_regs _ _ R)) in GS as [Hx E]. symmetry. apply find_unique.
      + apply (q_in _ _ R), Hx.
      + apply Z.eqb_eq, E.
      + intros y Hy Ey. apply Z.eqb_eq in Ey. apply (q_in _ _ R) in Hy.
        apply (nodup_ids_eq _ _ _ (q_ids _ _ R) Hy Hx). congruence.
    - symmetry. apply find_none'. intros y Hy. apply (q_in _ _ R) in Hy. apply Z.eqb_neq.
      apply (regs_rep_get_none _ _ _ (q_regs _ _ R) GS y Hy).
  Qed.

  Lemma nil_klt e : e <> [] -> klt [] e.
  Proof. destruct e; [contradiction|reflexivity]. Qed.

  Lemma scan_ranges_fam f s : scan_ranges (fam_of st f s) = spec_fam l f s.
  Proof.
    rewrite <- (q_fam_items _ _ R f s), (q_fam _ _ R f s). unfold scan_ranges, rt_len. cbn [items].
    destruct (filter (has_role f s) T) as [|a F] eqn:E; [reflexivity|].
    replace (Z.of_nat (length (a :: F)) =? 0) with false by (symmetry; apply Z.eqb_neq; cbn; lia).
    rewrite <- E. rewrite scan_range_spec by (apply ds_filter, (q_ds _ _ R)).
    apply filter_true_id. intros x Hx. apply filter_In in Hx as [Hx _].
    pose proof (ds_valid _ _ (q_ds _ _ R) Hx) as V. apply validP_cases in V.
    unfold ends_after. destruct (is_nil_spec (r_end x)) as [|NE]; [reflexivity|]. cbn.
    destruct (key_ltb_spec [] (r_end x)) as [|NL]; [reflexivity|]. exfalso. apply NL, nil_klt, NE.
  Qed.

  Lemma random_one_total L a b s e dr : random_one (RT L a) s e dr = random_one (RT L b) s e dr.
  Proof. reflexivity. Qed.

  Lemma expect_ok o e : wf_op o -> plain_op o -> spec_expect l o = Some e -> robs_eqb e (snd (ri_step st o)) = true.
  Proof.
    intros W P E. destruct o as [r|id|id0|k|k|ks ke lim|r|r|sto| |sto| |f sto ks ke dr|f sto rs]; cbn in P; try contradiction; cbn [spec_expect] in E.
    - (* OSet *)
      cbn in W. destruct (Rel_set l st r R W) as [[(_ & _ & _) _] EO].
      pose proof (Rel_set l st r R W) as [[((_ & _ & B) & _) _] _].
      cbn [ri_step]. destruct (set_region st r) as [st' ov]. cbn [fst snd] in *. rewrite B. cbn [snd].
      inversion E; subst e. rewrite EO. unfold displaced. rewrite (q_sorted_filter _ _ R). apply refs_eqb_refl.
    - inversion E; subst e. cbn [ri_step]. destruct (get_region st id); reflexivity.
    - inversion E; subst e. cbn. rewrite q_get_region. apply oref_eqb_refl.
    - inversion E; subst e. cbn. rewrite (q_search _ _ R). apply oref_eqb_refl.
    - inversion E; subst e. cbn. rewrite (q_search_prev _ _ R). apply oref_eqb_refl.
    - inversion E; subst e. cbn [ri_step]. rewrite (q_scan _ _ R), q_all_some. cbn. apply refs_eqb_refl.
    - destruct (valid_range r) eqn:V; [|discriminate]. inversion E; subst e. cbn.
      rewrite (q_overlaps _ _ R r V). apply refs_eqb_refl.
    - cbn [ri_step]. rewrite (q_adjacent _ _ R r). destruct (spec_adjacent l r) as [p n]. inversion E; subst e. cbn.
      rewrite !oref_eqb_refl. reflexivity.
    - inversion E; subst e. cbn [ri_step snd].
      change (leaders st sto) with (fam_of st FLeader sto). change (followers st sto) with (fam_of st FFollower sto).
      change (learners st sto) with (fam_of st FLearner sto). change (pendings st sto) with (fam_of st FPending sto).
      rewrite !(q_fam_len _ _ R), !(q_fam_total _ _ R). apply zlist_eqb_refl.
    - inversion E; subst e. cbn [ri_step snd]. destruct (q_len _ _ R) as [L1 L2].
      unfold avg_size. rewrite (q_total _ _ R). unfold rt_len. rewrite L1, L2. apply zlist_eqb_refl.
    - inversion E; subst e. cbn [ri_step snd]. unfold store_regions.
      change (leaders st sto) with (fam_of st FLeader sto). change (followers st sto) with (fam_of st FFollower sto).
      change (learners st sto) with (fam_of st FLearner sto). rewrite !scan_ranges_fam. apply refs_eqb_refl.
    - cbn [ri_step]. rewrite (q_fam _ _ R f sto), <- (q_sorted_filter _ _ R (has_role f sto)).
      fold (spec_fam l f sto). rewrite (random_one_total _ _ 0).
      destruct (random_one (RT (spec_fam l f sto) 0) ks ke dr) as [o|]; [|discriminate].
      inversion E; subst e. cbn. apply oref_eqb_refl.
  Qed.
End Expect.

Theorem monitor_silent_on_model ops : forall l st, Rel l st -> Forall wf_op ops -> Forall plain_op ops ->
  ri_monitor_from l ops (ri_run st ops) = None.
Proof.
  induction ops as [|o ops IH]; intros l st R W P; [reflexivity|].
  inversion W as [|? ? Wo W']; subst. inversion P as [|? ? Po P']; subst.
  cbn [ri_run]. destruct (ri_step st o) as [st' b] eqn:S. cbn [ri_monitor_from].
  pose proof (Rel_step l st o R Wo) as R'. rewrite S in R'. cbn [fst] in R'.
  destruct (spec_expect l o) as [e|] eqn:E.
  - pose proof (expect_ok l st R o e Wo Po E) as OK. rewrite S in OK. cbn [snd] in OK. rewrite OK. apply IH; auto.
  - apply IH; auto.
Qed.

Theorem monitor_silent_pf ops : Forall wf_op ops -> Forall plain_op ops ->
  ri_monitor_from [] ops (ri_run ri_empty ops) = None.
Proof. apply monitor_silent_on_model. split; [apply Inv_empty|reflexivity]. Qed.
