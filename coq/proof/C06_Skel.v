(* C06 — structural obligations on the code as it is now (regenerated gen/Gen_C06.v).
   model/C06_Heartbeat.v was written against exactly this skeleton of processRegionHeartbeat (the position of
   c.Lock(), of the second PreCheckPutRegion, of PutRegion and of the storage writes justify its three kinds of
   labels) and against these bodies of PreCheckPutRegion / getRelevantRegions / the region storage functions.
   The cache part is the C07 model: the bodies of the functions it transcribes are re-extracted into Gen_C06.v
   and tied here to the same literal text as in proof/C07_Skel.v, so that `bin/check C06` alone notices an edit. *)
From Coq Require Import ZArith List String.
From PDV Require Import lib.Skel gen.Gen_C06.
Import ListNotations.
Open Scope string_scope.

(* the batch flushes itself at the defaultBatchSize-th save; the model's counter uses the same constant *)
Lemma batch_size_pos : (1 < Gen_C06.defaultBatchSize)%Z.
Proof. vm_compute. reflexivity. Qed.

Lemma c06_degree_ok : (2 <= Gen_C06.defaultBTreeDegree)%Z.
Proof. vm_compute. discriminate. Qed.

Lemma skel_processRegionHeartbeat_ok : Gen_C06.skel_processRegionHeartbeat =
  [RLock "c"; Assign "storage" ":= c.storage"; Assign "coreCluster" ":= c.core"; RUnlock "c"; Call "PreCheckPutRegion"; Assign "origin" ":= coreCluster.PreCheckPutRegion(region)"; IfE "err != nil" [Ret] []; IfE "origin == nil" [Assign "saveKV" "= true"; Assign "saveCache" "= true"; Assign "isNew" "= true"] [Call "GetRegionEpoch"; Call "GetRegionEpoch"; IfE "r.GetVersion() > o.GetVersion()" [Assign "saveKV" "= true"; Assign "saveCache" "= true"] []; IfE "r.GetConfVer() > o.GetConfVer()" [Assign "saveKV" "= true"; Assign "saveCache" "= true"] []; IfE "region.GetLeader().GetId() != origin.GetLeader().GetId()" [IfE "origin.GetLeader().GetId() == 0" [Assign "isNew" "= true"] []; Assign "saveCache" "= true"; Assign "needSync" "= true"] []; Call "SortedPeersStatsEqual"; IfE "!core.SortedPeersStatsEqual(region.GetDownPeers(), origin.GetDownPeers())" [Assign "saveCache" "= true"; Assign "needSync" "= true"] []; Call "SortedPeersEqual"; IfE "!core.SortedPeersEqual(region.GetPendingPeers(), origin.GetPendingPeers())" [Assign "saveCache" "= true"; Assign "needSync" "= true"] []; IfE "len(region.GetPeers()) != len(origin.GetPeers())" [Assign "saveKV" "= true"; Assign "saveCache" "= true"] []; IfE "region.GetApproximateSize() != origin.GetApproximateSize() || region.GetApproximateKeys() != origin.GetApproximateKeys()" [Assign "saveCache" "= true"] []; IfE "region.GetRoundBytesWritten() != origin.GetRoundBytesWritten() || region.GetRoundBytesRead() != origin.GetRoundBytesRead()" [Assign "saveCache" "= true"; Assign "needSync" "= true"] []; IfE "region.GetReplicationStatus().GetState() != replication_modepb.RegionReplicationState_UNKNOWN && (region.GetReplicationStatus().GetState() != origin.GetReplicationStatus().GetState() || region.GetReplicationStatus().GetStateId() != origin.GetReplicationStatus().GetStateId())" [Assign "saveCache" "= true"] []]; IfE "!saveKV && !saveCache && !isNew" [Ret] []; Lock "c"; IfE "saveCache" [Call "PreCheckPutRegion"; IfE "err != nil" [Unlock "c"; Ret] []; Call "PutRegion"; Assign "overlaps" "= c.core.PutRegion(region)"; ForE [IfE "c.regionStats != nil" [Call "ClearDefunctRegion"] []; Call "ClearDefunctRegion"]; ForE [Call "updateStoreStatusLocked"]] []; IfE "isNew" [Call "collect"] []; IfE "c.regionStats != nil" [Call "Observe"] []; Unlock "c"; IfE "storage != nil" [ForE [Call "DeleteRegion"]; IfE "saveKV" [Call "SaveRegion"] []] []; Ret].
Proof. reflexivity. Qed.

(* server/core/region_tree.go: (regionTree).length, body *)
Lemma src_tree_length_ok : Gen_C06.src_tree_length =
  "{ if t == nil { return 0 } return t.tree.Len() }".
Proof. reflexivity. Qed.

(* server/core/region_tree.go: (regionTree).getOverlaps, body *)
Lemma src_tree_getOverlaps_ok : Gen_C06.src_tree_getOverlaps =
  "{ item := &regionItem{region: region} result := t.find(region) if result == nil { result = item } var overlaps []*RegionInfo t.tree.AscendGreaterOrEqual(result, func(i btree.Item) bool { over := i.(*regionItem) if len(region.GetEndKey()) > 0 && bytes.Compare(region.GetEndKey(), over.region.GetStartKey()) <= 0 { return false } overlaps = append(overlaps, over.region) return true }) return overlaps }".
Proof. reflexivity. Qed.

(* server/core/region_tree.go: (regionTree).update, body *)
Lemma src_tree_update_ok : Gen_C06.src_tree_update =
  "{ region := item.region t.totalSize += region.approximateSize overlaps := t.getOverlaps(region) for _, old := range overlaps { log.Debug(""overlapping region"", zap.Uint64(""region-id"", old.GetID()), logutil.ZapRedactStringer(""delete-region"", RegionToHexMeta(old.GetMeta())), logutil.ZapRedactStringer(""update-region"", RegionToHexMeta(region.GetMeta()))) t.tree.Delete(&regionItem{old}) t.totalSize -= old.approximateSize } t.tree.ReplaceOrInsert(item) return overlaps }".
Proof. reflexivity. Qed.

(* server/core/region_tree.go: (regionTree).updateStat, body *)
Lemma src_tree_updateStat_ok : Gen_C06.src_tree_updateStat =
  "{ t.totalSize += region.approximateSize t.totalSize -= origin.approximateSize }".
Proof. reflexivity. Qed.

(* server/core/region_tree.go: (regionTree).remove, body *)
Lemma src_tree_remove_ok : Gen_C06.src_tree_remove =
  "{ if t.length() == 0 { return nil } result := t.find(region) if result == nil || result.region.GetID() != region.GetID() { return nil } t.totalSize -= region.approximateSize return t.tree.Delete(result) }".
Proof. reflexivity. Qed.

(* server/core/region_tree.go: (regionTree).search, body *)
Lemma src_tree_search_ok : Gen_C06.src_tree_search =
  "{ region := &RegionInfo{meta: &metapb.Region{StartKey: regionKey}} result := t.find(region) if result == nil { return nil } return result.region }".
Proof. reflexivity. Qed.

(* server/core/region_tree.go: (regionTree).searchPrev, body *)
Lemma src_tree_searchPrev_ok : Gen_C06.src_tree_searchPrev =
  "{ curRegion := &RegionInfo{meta: &metapb.Region{StartKey: regionKey}} curRegionItem := t.find(curRegion) if curRegionItem == nil { return nil } prevRegionItem, _ := t.getAdjacentRegions(curRegionItem.region) if prevRegionItem == nil { return nil } if !bytes.Equal(prevRegionItem.region.GetEndKey(), curRegionItem.region.GetStartKey()) { return nil } return prevRegionItem.region }".
Proof. reflexivity. Qed.

(* server/core/region_tree.go: (regionTree).find, body *)
Lemma src_tree_find_ok : Gen_C06.src_tree_find =
  "{ item := &regionItem{region: region} var result *regionItem t.tree.DescendLessOrEqual(item, func(i btree.Item) bool { result = i.(*regionItem) return false }) if result == nil || !result.Contains(region.GetStartKey()) { return nil } return result }".
Proof. reflexivity. Qed.

(* server/core/region_tree.go: (regionTree).scanRange, body *)
Lemma src_tree_scanRange_ok : Gen_C06.src_tree_scanRange =
  "{ region := &RegionInfo{meta: &metapb.Region{StartKey: startKey}} startItem := t.find(region) if startItem == nil { startItem = &regionItem{region: &RegionInfo{meta: &metapb.Region{StartKey: startKey}}} } t.tree.AscendGreaterOrEqual(startItem, func(item btree.Item) bool { return f(item.(*regionItem).region) }) }".
Proof. reflexivity. Qed.

(* server/core/region_tree.go: (regionTree).scanRanges, body *)
Lemma src_tree_scanRanges_ok : Gen_C06.src_tree_scanRanges =
  "{ if t.length() == 0 { return nil } var res []*RegionInfo t.scanRange([]byte(""""), func(region *RegionInfo) bool { res = append(res, region) return true }) return res }".
Proof. reflexivity. Qed.

(* server/core/region_tree.go: (regionTree).getAdjacentRegions, body *)
Lemma src_tree_getAdjacentRegions_ok : Gen_C06.src_tree_getAdjacentRegions =
  "{ item := &regionItem{region: &RegionInfo{meta: &metapb.Region{StartKey: region.GetStartKey()}}} var prev, next *regionItem t.tree.AscendGreaterOrEqual(item, func(i btree.Item) bool { if bytes.Equal(item.region.GetStartKey(), i.(*regionItem).region.GetStartKey()) { return true } next = i.(*regionItem) return false }) t.tree.DescendLessOrEqual(item, func(i btree.Item) bool { if bytes.Equal(item.region.GetStartKey(), i.(*regionItem).region.GetStartKey()) { return true } prev = i.(*regionItem) return false }) return prev, next }".
Proof. reflexivity. Qed.

(* server/core/region_tree.go: (regionTree).RandomRegion, body *)
Lemma src_tree_RandomRegion_ok : Gen_C06.src_tree_RandomRegion =
  "{ if t.length() == 0 { return nil } if len(ranges) == 0 { ranges = []KeyRange{NewKeyRange("""", """")} } for _, i := range rand.Perm(len(ranges)) { var endIndex int startKey, endKey := ranges[i].StartKey, ranges[i].EndKey startRegion, startIndex := t.tree.GetWithIndex(&regionItem{region: &RegionInfo{meta: &metapb.Region{StartKey: startKey}}}) if len(endKey) != 0 { _, endIndex = t.tree.GetWithIndex(&regionItem{region: &RegionInfo{meta: &metapb.Region{StartKey: endKey}}}) } else { endIndex = t.tree.Len() } if startIndex != 0 && startRegion == nil && t.tree.GetAt(startIndex-1).(*regionItem).Contains(startKey) { startIndex-- } if endIndex <= startIndex { if len(endKey) > 0 && bytes.Compare(startKey, endKey) > 0 { log.Error(""wrong range keys"", logutil.ZapRedactString(""start-key"", string(HexRegionKey(startKey))), logutil.ZapRedactString(""end-key"", string(HexRegionKey(endKey))), errs.ZapError(errs.ErrWrongRangeKeys)) } continue } index := rand.Intn(endIndex-startIndex) + startIndex region := t.tree.GetAt(index).(*regionItem).region if isInvolved(region, startKey, endKey) { return region } } return nil }".
Proof. reflexivity. Qed.

(* server/core/region_tree.go: (regionTree).TotalSize, body *)
Lemma src_tree_TotalSize_ok : Gen_C06.src_tree_TotalSize =
  "{ if t.length() == 0 { return 0 } return t.totalSize }".
Proof. reflexivity. Qed.

(* server/core/region_tree.go: ().newRegionTree, body *)
Lemma src_newRegionTree_ok : Gen_C06.src_newRegionTree =
  "{ return &regionTree{ tree: btree.New(defaultBTreeDegree), totalSize: 0, } }".
Proof. reflexivity. Qed.

(* server/core/region.go: (RegionsInfo).GetRegion, body *)
Lemma src_ri_GetRegion_ok : Gen_C06.src_ri_GetRegion =
  "{ if item := r.regions.Get(regionID); item != nil { return item.region } return nil }".
Proof. reflexivity. Qed.

(* server/core/region.go: (RegionsInfo).SetRegion, body *)
Lemma src_ri_SetRegion_ok : Gen_C06.src_ri_SetRegion =
  "{ var item *regionItem // Pointer to the *RegionInfo of this ID. var origin *RegionInfo // This is the original region information of this ID. var rangeChanged bool // This Region is new, or its range has changed. var peersChanged bool // This Region is new, or its peers have changed, including leader-change/pending/down. if item = r.regions.Get(region.GetID()); item != nil { origin = item.region rangeChanged = !bytes.Equal(origin.GetStartKey(), region.GetStartKey()) || !bytes.Equal(origin.GetEndKey(), region.GetEndKey()) if rangeChanged { r.tree.remove(origin) peersChanged = true } else { peersChanged = r.shouldRemoveFromSubTree(region, origin) } if peersChanged { r.removeRegionFromSubTree(origin) } item.region = region } else { rangeChanged = true peersChanged = true item = r.regions.AddNew(region) } if !rangeChanged { r.tree.updateStat(origin, region) } else { overlaps = r.tree.update(item) for _, old := range overlaps { r.RemoveRegion(r.GetRegion(old.GetID())) } } if !peersChanged { r.updateSubTreeStat(origin, region) } else { for _, peer := range region.GetVoters() { storeID := peer.GetStoreId() if peer.GetId() == region.leader.GetId() { store, ok := r.leaders[storeID] if !ok { store = newRegionTree() r.leaders[storeID] = store } store.update(item) } else { store, ok := r.followers[storeID] if !ok { store = newRegionTree() r.followers[storeID] = store } store.update(item) } } for _, peer := range region.GetLearners() { storeID := peer.GetStoreId() store, ok := r.learners[storeID] if !ok { store = newRegionTree() r.learners[storeID] = store } store.update(item) } for _, peer := range region.GetPendingPeers() { storeID := peer.GetStoreId() store, ok := r.pendingPeers[storeID] if !ok { store = newRegionTree() r.pendingPeers[storeID] = store } store.update(item) } } return }".
Proof. reflexivity. Qed.

(* server/core/region.go: (RegionsInfo).updateSubTreeStat, body *)
Lemma src_ri_updateSubTreeStat_ok : Gen_C06.src_ri_updateSubTreeStat =
  "{ for _, peer := range region.GetVoters() { storeID := peer.GetStoreId() if peer.GetId() == region.leader.GetId() { if tree, ok := r.leaders[storeID]; ok { tree.updateStat(origin, region) } } else { if tree, ok := r.followers[storeID]; ok { tree.updateStat(origin, region) } } } for _, peer := range region.GetLearners() { if tree, ok := r.learners[peer.GetStoreId()]; ok { tree.updateStat(origin, region) } } for _, peer := range region.GetPendingPeers() { if tree, ok := r.pendingPeers[peer.GetStoreId()]; ok { tree.updateStat(origin, region) } } }".
Proof. reflexivity. Qed.

(* server/core/region.go: (RegionsInfo).GetOverlaps, body *)
Lemma src_ri_GetOverlaps_ok : Gen_C06.src_ri_GetOverlaps =
  "{ return r.tree.getOverlaps(region) }".
Proof. reflexivity. Qed.

(* server/core/region.go: (RegionsInfo).RemoveRegion, body *)
Lemma src_ri_RemoveRegion_ok : Gen_C06.src_ri_RemoveRegion =
  "{ r.tree.remove(region) r.regions.Delete(region.GetID()) r.removeRegionFromSubTree(region) }".
Proof. reflexivity. Qed.

(* server/core/region.go: (RegionsInfo).removeRegionFromSubTree, body *)
Lemma src_ri_removeRegionFromSubTree_ok : Gen_C06.src_ri_removeRegionFromSubTree =
  "{ for _, peer := range region.meta.GetPeers() { storeID := peer.GetStoreId() r.leaders[storeID].remove(region) r.followers[storeID].remove(region) r.learners[storeID].remove(region) r.pendingPeers[storeID].remove(region) } }".
Proof. reflexivity. Qed.

(* server/core/region.go: (RegionsInfo).SearchRegion, body *)
Lemma src_ri_SearchRegion_ok : Gen_C06.src_ri_SearchRegion =
  "{ region := r.tree.search(regionKey) if region == nil { return nil } return r.GetRegion(region.GetID()) }".
Proof. reflexivity. Qed.

(* server/core/region.go: (RegionsInfo).SearchPrevRegion, body *)
Lemma src_ri_SearchPrevRegion_ok : Gen_C06.src_ri_SearchPrevRegion =
  "{ region := r.tree.searchPrev(regionKey) if region == nil { return nil } return r.GetRegion(region.GetID()) }".
Proof. reflexivity. Qed.

(* server/core/region.go: (RegionsInfo).ScanRange, body *)
Lemma src_ri_ScanRange_ok : Gen_C06.src_ri_ScanRange =
  "{ var res []*RegionInfo r.tree.scanRange(startKey, func(region *RegionInfo) bool { if len(endKey) > 0 && bytes.Compare(region.GetStartKey(), endKey) >= 0 { return false } if limit > 0 && len(res) >= limit { return false } res = append(res, r.GetRegion(region.GetID())) return true }) return res }".
Proof. reflexivity. Qed.

(* server/core/region.go: (RegionsInfo).GetAdjacentRegions, body *)
Lemma src_ri_GetAdjacentRegions_ok : Gen_C06.src_ri_GetAdjacentRegions =
  "{ p, n := r.tree.getAdjacentRegions(region) var prev, next *RegionInfo if p != nil && bytes.Equal(p.region.GetEndKey(), region.GetStartKey()) { prev = r.GetRegion(p.region.GetID()) } if n != nil && bytes.Equal(region.GetEndKey(), n.region.GetStartKey()) { next = r.GetRegion(n.region.GetID()) } return prev, next }".
Proof. reflexivity. Qed.

(* server/core/region.go: (RegionsInfo).GetAverageRegionSize, body *)
Lemma src_ri_GetAverageRegionSize_ok : Gen_C06.src_ri_GetAverageRegionSize =
  "{ if r.tree.length() == 0 { return 0 } return r.tree.TotalSize() / int64(r.tree.length()) }".
Proof. reflexivity. Qed.

(* server/core/region.go: (RegionsInfo).GetStoreRegions, body *)
Lemma src_ri_GetStoreRegions_ok : Gen_C06.src_ri_GetStoreRegions =
  "{ regions := make([]*RegionInfo, 0, r.GetStoreRegionCount(storeID)) if leaders, ok := r.leaders[storeID]; ok { regions = append(regions, leaders.scanRanges()...) } if followers, ok := r.followers[storeID]; ok { regions = append(regions, followers.scanRanges()...) } if learners, ok := r.learners[storeID]; ok { regions = append(regions, learners.scanRanges()...) } return regions }".
Proof. reflexivity. Qed.

(* server/core/region.go: (RegionsInfo).GetStoreLeaderCount, body *)
Lemma src_ri_GetStoreLeaderCount_ok : Gen_C06.src_ri_GetStoreLeaderCount =
  "{ return r.leaders[storeID].length() }".
Proof. reflexivity. Qed.

(* server/core/region.go: (RegionsInfo).GetStoreFollowerCount, body *)
Lemma src_ri_GetStoreFollowerCount_ok : Gen_C06.src_ri_GetStoreFollowerCount =
  "{ return r.followers[storeID].length() }".
Proof. reflexivity. Qed.

(* server/core/region.go: (RegionsInfo).GetStoreLearnerCount, body *)
Lemma src_ri_GetStoreLearnerCount_ok : Gen_C06.src_ri_GetStoreLearnerCount =
  "{ return r.learners[storeID].length() }".
Proof. reflexivity. Qed.

(* server/core/region.go: (RegionsInfo).GetStorePendingPeerCount, body *)
Lemma src_ri_GetStorePendingPeerCount_ok : Gen_C06.src_ri_GetStorePendingPeerCount =
  "{ return r.pendingPeers[storeID].length() }".
Proof. reflexivity. Qed.

(* server/core/region.go: (RegionsInfo).GetStoreLeaderRegionSize, body *)
Lemma src_ri_GetStoreLeaderRegionSize_ok : Gen_C06.src_ri_GetStoreLeaderRegionSize =
  "{ return r.leaders[storeID].TotalSize() }".
Proof. reflexivity. Qed.

(* server/core/region.go: (RegionsInfo).GetStoreFollowerRegionSize, body *)
Lemma src_ri_GetStoreFollowerRegionSize_ok : Gen_C06.src_ri_GetStoreFollowerRegionSize =
  "{ return r.followers[storeID].TotalSize() }".
Proof. reflexivity. Qed.

(* server/core/region.go: (RegionsInfo).GetStoreLearnerRegionSize, body *)
Lemma src_ri_GetStoreLearnerRegionSize_ok : Gen_C06.src_ri_GetStoreLearnerRegionSize =
  "{ return r.learners[storeID].TotalSize() }".
Proof. reflexivity. Qed.

(* server/core/region.go: (RegionsInfo).RandLeaderRegion, body *)
Lemma src_ri_RandLeaderRegion_ok : Gen_C06.src_ri_RandLeaderRegion =
  "{ return r.leaders[storeID].RandomRegion(ranges) }".
Proof. reflexivity. Qed.

(* server/core/region.go: (RegionsInfo).RandFollowerRegion, body *)
Lemma src_ri_RandFollowerRegion_ok : Gen_C06.src_ri_RandFollowerRegion =
  "{ return r.followers[storeID].RandomRegion(ranges) }".
Proof. reflexivity. Qed.

(* server/core/region.go: (RegionsInfo).RandLearnerRegion, body *)
Lemma src_ri_RandLearnerRegion_ok : Gen_C06.src_ri_RandLearnerRegion =
  "{ return r.learners[storeID].RandomRegion(ranges) }".
Proof. reflexivity. Qed.

(* server/core/region.go: (RegionsInfo).RandPendingRegion, body *)
Lemma src_ri_RandPendingRegion_ok : Gen_C06.src_ri_RandPendingRegion =
  "{ return r.pendingPeers[storeID].RandomRegion(ranges) }".
Proof. reflexivity. Qed.

(* server/core/region.go: (RegionsInfo).Len, body *)
Lemma src_ri_Len_ok : Gen_C06.src_ri_Len =
  "{ return r.regions.Len() }".
Proof. reflexivity. Qed.

(* server/core/region.go: (RegionsInfo).TreeLen, body *)
Lemma src_ri_TreeLen_ok : Gen_C06.src_ri_TreeLen =
  "{ return r.tree.length() }".
Proof. reflexivity. Qed.

(* server/core/region_tree.go: (regionItem).Less, body *)
Lemma src_item_Less_ok : Gen_C06.src_item_Less =
  "{ left := r.region.GetStartKey() right := other.(*regionItem).region.GetStartKey() return bytes.Compare(left, right) < 0 }".
Proof. reflexivity. Qed.

(* server/core/region_tree.go: (regionItem).Contains, body *)
Lemma src_item_Contains_ok : Gen_C06.src_item_Contains =
  "{ start, end := r.region.GetStartKey(), r.region.GetEndKey() return bytes.Compare(key, start) >= 0 && (len(end) == 0 || bytes.Compare(key, end) < 0) }".
Proof. reflexivity. Qed.

(* server/core/region.go: ().isInvolved, body *)
Lemma src_isInvolved_ok : Gen_C06.src_isInvolved =
  "{ return bytes.Compare(region.GetStartKey(), startKey) >= 0 && (len(endKey) == 0 || (len(region.GetEndKey()) > 0 && bytes.Compare(region.GetEndKey(), endKey) <= 0)) }".
Proof. reflexivity. Qed.

(* server/core/region.go: (RegionsInfo).shouldRemoveFromSubTree, body *)
Lemma src_shouldRemoveFromSubTree_ok : Gen_C06.src_shouldRemoveFromSubTree =
  "{ return origin.leader.GetId() != region.leader.GetId() || !SortedPeersEqual(origin.GetVoters(), region.GetVoters()) || !SortedPeersEqual(origin.GetLearners(), region.GetLearners()) || !SortedPeersEqual(origin.GetPendingPeers(), region.GetPendingPeers()) }".
Proof. reflexivity. Qed.

(* server/core/region.go: ().SortedPeersEqual, body *)
Lemma src_SortedPeersEqual_ok : Gen_C06.src_SortedPeersEqual =
  "{ if len(peersA) != len(peersB) { return false } for i, peerA := range peersA { peerB := peersB[i] if peerA.GetStoreId() != peerB.GetStoreId() || peerA.GetId() != peerB.GetId() { return false } } return true }".
Proof. reflexivity. Qed.

(* server/core/region.go: (peerSlice).Less, body *)
Lemma src_peerSlice_Less_ok : Gen_C06.src_peerSlice_Less =
  "{ return s[i].GetId() < s[j].GetId() }".
Proof. reflexivity. Qed.

(* server/core/region.go: ().classifyVoterAndLearner, body *)
Lemma src_classifyVoterAndLearner_ok : Gen_C06.src_classifyVoterAndLearner =
  "{ learners := make([]*metapb.Peer, 0, 1) voters := make([]*metapb.Peer, 0, len(region.meta.Peers)) for _, p := range region.meta.Peers { if IsLearner(p) { learners = append(learners, p) } else { voters = append(voters, p) } } sort.Sort(peerSlice(learners)) sort.Sort(peerSlice(voters)) region.learners = learners region.voters = voters }".
Proof. reflexivity. Qed.

(* server/core/region.go: (regionMap).AddNew, body *)
Lemma src_regionMap_AddNew_ok : Gen_C06.src_regionMap_AddNew =
  "{ item := &regionItem{region: region} rm[region.GetID()] = item return item }".
Proof. reflexivity. Qed.

(* server/core/region.go: (regionMap).Get, body *)
Lemma src_regionMap_Get_ok : Gen_C06.src_regionMap_Get =
  "{ return rm[id] }".
Proof. reflexivity. Qed.

(* server/core/region.go: (regionMap).Delete, body *)
Lemma src_regionMap_Delete_ok : Gen_C06.src_regionMap_Delete =
  "{ delete(rm, id) }".
Proof. reflexivity. Qed.

(* server/core/basic_cluster.go: (BasicCluster).getRelevantRegions, body *)
Lemma src_bc_getRelevantRegions_ok : Gen_C06.src_bc_getRelevantRegions =
  "{ bc.RLock() defer bc.RUnlock() origin = bc.Regions.GetRegion(region.GetID()) if origin == nil || !bytes.Equal(origin.GetStartKey(), region.GetStartKey()) || !bytes.Equal(origin.GetEndKey(), region.GetEndKey()) { overlaps = bc.Regions.GetOverlaps(region) } return }".
Proof. reflexivity. Qed.

(* server/core/basic_cluster.go: (BasicCluster).PreCheckPutRegion, body *)
Lemma src_bc_PreCheckPutRegion_ok : Gen_C06.src_bc_PreCheckPutRegion =
  "{ origin, overlaps := bc.getRelevantRegions(region) for _, item := range overlaps { if region.GetRegionEpoch().GetVersion() < item.GetRegionEpoch().GetVersion() { return nil, errRegionIsStale(region.GetMeta(), item.GetMeta()) } } if origin == nil { return nil, nil } r := region.GetRegionEpoch() o := origin.GetRegionEpoch() isTermBehind := region.GetTerm() > 0 && region.GetTerm() < origin.GetTerm() if isTermBehind || r.GetVersion() < o.GetVersion() || r.GetConfVer() < o.GetConfVer() { return origin, errRegionIsStale(region.GetMeta(), origin.GetMeta()) } return origin, nil }".
Proof. reflexivity. Qed.

(* server/core/basic_cluster.go: (BasicCluster).PutRegion, body *)
Lemma src_bc_PutRegion_ok : Gen_C06.src_bc_PutRegion =
  "{ bc.Lock() defer bc.Unlock() return bc.Regions.SetRegion(region) }".
Proof. reflexivity. Qed.

(* server/core/region_storage.go: (RegionStorage).SaveRegion, body *)
Lemma src_rs_SaveRegion_ok : Gen_C06.src_rs_SaveRegion =
  "{ region, err := encryption.EncryptRegion(region, s.encryptionKeyManager) if err != nil { return err } s.mu.Lock() defer s.mu.Unlock() if s.cacheSize < s.batchSize-1 { s.batchRegions[regionPath(region.GetId())] = region s.cacheSize++ s.flushTime = time.Now().Add(s.flushRate) return nil } s.batchRegions[regionPath(region.GetId())] = region err = s.flush() if err != nil { return err } return nil }".
Proof. reflexivity. Qed.

(* server/core/region_storage.go: (RegionStorage).FlushRegion, body *)
Lemma src_rs_FlushRegion_ok : Gen_C06.src_rs_FlushRegion =
  "{ s.mu.Lock() defer s.mu.Unlock() return s.flush() }".
Proof. reflexivity. Qed.

(* server/core/region_storage.go: (RegionStorage).flush, body *)
Lemma src_rs_flush_ok : Gen_C06.src_rs_flush =
  "{ if err := s.SaveRegions(s.batchRegions); err != nil { return err } s.cacheSize = 0 s.batchRegions = make(map[string]*metapb.Region, s.batchSize) return nil }".
Proof. reflexivity. Qed.

(* server/core/region_storage.go: (RegionStorage).Remove, body -- model: delete_region on the write-back backend
   = drop the pending entry of the batch (cacheSize untouched), then the leveldb key *)
Lemma src_rs_Remove_ok : Gen_C06.src_rs_Remove =
  "{ s.mu.Lock() defer s.mu.Unlock() delete(s.batchRegions, key) return s.LeveldbKV.Remove(key) }".
Proof. reflexivity. Qed.

(* server/core/region_storage.go: ().deleteRegion, body *)
Lemma src_rs_deleteRegion_ok : Gen_C06.src_rs_deleteRegion =
  "{ return kv.Remove(regionPath(region.GetId())) }".
Proof. reflexivity. Qed.

(* server/core/storage.go: (Storage).SaveRegion, body *)
Lemma src_st_SaveRegion_ok : Gen_C06.src_st_SaveRegion =
  "{ if atomic.LoadInt32(&s.useRegionStorage) > 0 { return s.regionStorage.SaveRegion(region) } return saveRegion(s.Base, s.encryptionKeyManager, region) }".
Proof. reflexivity. Qed.

(* server/core/storage.go: (Storage).DeleteRegion, body *)
Lemma src_st_DeleteRegion_ok : Gen_C06.src_st_DeleteRegion =
  "{ if atomic.LoadInt32(&s.useRegionStorage) > 0 { return deleteRegion(s.regionStorage, region) } return deleteRegion(s.Base, region) }".
Proof. reflexivity. Qed.

(* server/core/storage.go: (Storage).LoadRegion, body *)
Lemma src_st_LoadRegion_ok : Gen_C06.src_st_LoadRegion =
  "{ if atomic.LoadInt32(&s.useRegionStorage) > 0 { return loadRegion(s.regionStorage, s.encryptionKeyManager, regionID, region) } return loadRegion(s.Base, s.encryptionKeyManager, regionID, region) }".
Proof. reflexivity. Qed.

(* server/core/storage.go: (Storage).Flush, body *)
Lemma src_st_Flush_ok : Gen_C06.src_st_Flush =
  "{ if s.regionStorage != nil { return s.regionStorage.FlushRegion() } return nil }".
Proof. reflexivity. Qed.

(* server/core/region.go: ().RegionFromHeartbeat, body *)
Lemma src_RegionFromHeartbeat_ok : Gen_C06.src_RegionFromHeartbeat =
  "{ regionSize := heartbeat.GetApproximateSize() / (1 << 20) if regionSize < EmptyRegionApproximateSize { regionSize = EmptyRegionApproximateSize } region := &RegionInfo{ term: heartbeat.GetTerm(), meta: heartbeat.GetRegion(), leader: heartbeat.GetLeader(), downPeers: heartbeat.GetDownPeers(), pendingPeers: heartbeat.GetPendingPeers(), writtenBytes: heartbeat.GetBytesWritten(), writtenKeys: heartbeat.GetKeysWritten(), readBytes: heartbeat.GetBytesRead(), readKeys: heartbeat.GetKeysRead(), approximateSize: int64(regionSize), approximateKeys: int64(heartbeat.GetApproximateKeys()), interval: heartbeat.GetInterval(), replicationStatus: heartbeat.GetReplicationStatus(), QueryStats: heartbeat.GetQueryStats(), } for _, opt := range opts { opt(region) } if region.writtenKeys >= ImpossibleFlowSize || region.writtenBytes >= ImpossibleFlowSize { region.writtenKeys = 0 region.writtenBytes = 0 } if region.readKeys >= ImpossibleFlowSize || region.readBytes >= ImpossibleFlowSize { region.readKeys = 0 region.readBytes = 0 } sort.Sort(peerStatsSlice(region.downPeers)) sort.Sort(peerSlice(region.pendingPeers)) classifyVoterAndLearner(region) return region }".
Proof. reflexivity. Qed.
