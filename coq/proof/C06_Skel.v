(* C06 — structural obligations on the code as it is now (regenerated gen/Gen_C06.v).
   model/C06_Heartbeat.v was written against exactly this skeleton of processRegionHeartbeat (the position of
   c.Lock(), of the second PreCheckPutRegion, of PutRegion and of the storage writes justify its three kinds of
   labels) and against these bodies of PreCheckPutRegion / getRelevantRegions / the region storage functions.
   The cache part is the C07 model: the bodies of the functions it transcribes are re-extracted into Gen_C06.v
   and tied here to the same literal text as in proof/C07_Skel.v, so that `bin/check C06` alone notices an edit. *)
From Coq Require Import ZArith List String.
From PDV Require Import lib.Skel gen.Gen_C06.
Import ListNotations.
Open Scope string_scope.

(* the batch flushes itself at the defaultBatchSize-th save; the model's counter uses the same constant *)
Lemma batch_size_pos : (1 < Gen_C06.defaultBatchSize)%Z.
Proof. vm_compute. reflexivity. Qed.

Lemma c06_degree_ok : (2 <= Gen_C06.defaultBTreeDegree)%Z.
Proof. vm_compute. discriminate. Qed.

Lemma skel_processRegionHeartbeat_ok : Gen_C06.skel_processRegionHeartbeat =
  [RLock "v0"; Assign "v2" ":= v0.storage"; Assign "v3" ":= v0.core"; Assign "v4" ":= v0.hotStat"; RUnlock "v0"; Call "PreCheckPutRegion"; Assign "v5" ":= v3.PreCheckPutRegion(v1)"; Assign "v6" ":= v3.PreCheckPutRegion(v1)"; IfE "v6 != nil" [Ret] []; Assign "v7" ":= v1.GetInterval()"; Assign "v8" ":= v7.GetEndTimestamp() - v7.GetStartTimestamp()"; ForE [Assign "v10" ":= core.NewPeerInfo(v9, v1.GetWriteLoads(), v8)"]; IfE "v5 == nil" [Assign "v11" "= true"; Assign "v12" "= true"; Assign "v13" "= true"] [Call "GetRegionEpoch"; Assign "v15" ":= v1.GetRegionEpoch()"; Call "GetRegionEpoch"; Assign "v16" ":= v5.GetRegionEpoch()"; IfE "v15.GetVersion() > v16.GetVersion()" [Assign "v11" "= true"; Assign "v12" "= true"] []; IfE "v15.GetConfVer() > v16.GetConfVer()" [Assign "v11" "= true"; Assign "v12" "= true"] []; IfE "v1.GetLeader().GetId() != v5.GetLeader().GetId()" [IfE "v5.GetLeader().GetId() == 0" [Assign "v13" "= true"] []; Assign "v12" "= true"; Assign "v14" "= true"] []; IfE "v1.GetTerm() > v5.GetTerm()" [Assign "v12" "= true"] []; Call "SortedPeersStatsEqual"; IfE "!core.SortedPeersStatsEqual(v1.GetDownPeers(), v5.GetDownPeers())" [Assign "v12" "= true"; Assign "v14" "= true"] []; Call "SortedPeersEqual"; IfE "!core.SortedPeersEqual(v1.GetPendingPeers(), v5.GetPendingPeers())" [Assign "v12" "= true"; Assign "v14" "= true"] []; IfE "len(v1.GetPeers()) != len(v5.GetPeers())" [Assign "v11" "= true"; Assign "v12" "= true"] []; IfE "v1.GetApproximateSize() != v5.GetApproximateSize() || v1.GetApproximateKeys() != v5.GetApproximateKeys()" [Assign "v12" "= true"] []; IfE "v1.GetRoundBytesWritten() != v5.GetRoundBytesWritten() || v1.GetRoundBytesRead() != v5.GetRoundBytesRead()" [Assign "v12" "= true"; Assign "v14" "= true"] []; IfE "v1.GetReplicationStatus().GetState() != replication_modepb.RegionReplicationState_UNKNOWN && (v1.GetReplicationStatus().GetState() != v5.GetReplicationStatus().GetState() || v1.GetReplicationStatus().GetStateId() != v5.GetReplicationStatus().GetStateId())" [Assign "v12" "= true"] []]; IfE "!v11 && !v12 && !v13" [Ret] []; Lock "v0"; IfE "v12" [Call "PreCheckPutRegion"; Assign "v18" ":= v0.core.PreCheckPutRegion(v1)"; IfE "v18 != nil" [Unlock "v0"; Ret] []; Call "PutRegion"; Assign "v17" "= v0.core.PutRegion(v1)"; ForE [IfE "v0.regionStats != nil" [Call "ClearDefunctRegion"] []; Call "ClearDefunctRegion"]; Assign "v20" ":= make(map[uint64]struct{})"; ForE [Call "updateStoreStatusLocked"]] []; IfE "v13" [Call "collect"] []; IfE "v0.regionStats != nil" [Call "Observe"] []; Assign "v24" ":= v0.changedRegions"; Unlock "v0"; IfE "v2 != nil" [ForE [Call "DeleteRegion"; Assign "v26" ":= v2.DeleteRegion(v25.GetMeta())"]; IfE "v11" [Call "SaveRegion"; Assign "v27" ":= v2.SaveRegion(v1.GetMeta())"] []] []; Ret].
Proof. reflexivity. Qed.

(* server/core/region_tree.go: (regionTree).length, body *)
Lemma src_tree_length_ok : Gen_C06.src_tree_length =
  "{ if v0 == nil { return 0 } return v0.tree.Len() }".
Proof. reflexivity. Qed.

(* server/core/region_tree.go: (regionTree).getOverlaps, body *)
Lemma src_tree_getOverlaps_ok : Gen_C06.src_tree_getOverlaps =
  "{ v2 := &regionItem{region: v1} v3 := v0.find(v1) if v3 == nil { v3 = v2 } var v4 []*RegionInfo v0.tree.AscendGreaterOrEqual(v3, func(v5 btree.Item) bool { v6 := v5.(*regionItem) if len(v1.GetEndKey()) > 0 && bytes.Compare(v1.GetEndKey(), v6.region.GetStartKey()) <= 0 { return false } v4 = append(v4, v6.region) return true }) return v4 }".
Proof. reflexivity. Qed.

(* server/core/region_tree.go: (regionTree).update, body *)
Lemma src_tree_update_ok : Gen_C06.src_tree_update =
  "{ v2 := v1.region v0.totalSize += v2.approximateSize v3 := v0.getOverlaps(v2) for _, v4 := range v3 { v0.tree.Delete(&regionItem{v4}) v0.totalSize -= v4.approximateSize } v0.tree.ReplaceOrInsert(v1) return v3 }".
Proof. reflexivity. Qed.

(* server/core/region_tree.go: (regionTree).updateStat, body *)
Lemma src_tree_updateStat_ok : Gen_C06.src_tree_updateStat =
  "{ v0.totalSize += v2.approximateSize v0.totalSize -= v1.approximateSize }".
Proof. reflexivity. Qed.

(* server/core/region_tree.go: (regionTree).remove, body *)
Lemma src_tree_remove_ok : Gen_C06.src_tree_remove =
  "{ if v0.length() == 0 { return nil } v2 := v0.find(v1) if v2 == nil || v2.region.GetID() != v1.GetID() { return nil } v0.totalSize -= v1.approximateSize return v0.tree.Delete(v2) }".
Proof. reflexivity. Qed.

(* server/core/region_tree.go: (regionTree).search, body *)
Lemma src_tree_search_ok : Gen_C06.src_tree_search =
  "{ v2 := &RegionInfo{meta: &metapb.Region{StartKey: v1}} v3 := v0.find(v2) if v3 == nil { return nil } return v3.region }".
Proof. reflexivity. Qed.

(* server/core/region_tree.go: (regionTree).searchPrev, body *)
Lemma src_tree_searchPrev_ok : Gen_C06.src_tree_searchPrev =
  "{ v2 := &RegionInfo{meta: &metapb.Region{StartKey: v1}} v3 := v0.find(v2) if v3 == nil { return nil } v4, _ := v0.getAdjacentRegions(v3.region) if v4 == nil { return nil } if !bytes.Equal(v4.region.GetEndKey(), v3.region.GetStartKey()) { return nil } return v4.region }".
Proof. reflexivity. Qed.

(* server/core/region_tree.go: (regionTree).find, body *)
Lemma src_tree_find_ok : Gen_C06.src_tree_find =
  "{ v2 := &regionItem{region: v1} var v3 *regionItem v0.tree.DescendLessOrEqual(v2, func(v4 btree.Item) bool { v3 = v4.(*regionItem) return false }) if v3 == nil || !v3.Contains(v1.GetStartKey()) { return nil } return v3 }".
Proof. reflexivity. Qed.

(* server/core/region_tree.go: (regionTree).scanRange, body *)
Lemma src_tree_scanRange_ok : Gen_C06.src_tree_scanRange =
  "{ v3 := &RegionInfo{meta: &metapb.Region{StartKey: v1}} v4 := v0.find(v3) if v4 == nil { v4 = &regionItem{region: &RegionInfo{meta: &metapb.Region{StartKey: v1}}} } v0.tree.AscendGreaterOrEqual(v4, func(v5 btree.Item) bool { return v2(v5.(*regionItem).region) }) }".
Proof. reflexivity. Qed.

(* server/core/region_tree.go: (regionTree).scanRanges, body *)
Lemma src_tree_scanRanges_ok : Gen_C06.src_tree_scanRanges =
  "{ if v0.length() == 0 { return nil } var v1 []*RegionInfo v0.scanRange([]byte(""""), func(v2 *RegionInfo) bool { v1 = append(v1, v2) return true }) return v1 }".
Proof. reflexivity. Qed.

(* server/core/region_tree.go: (regionTree).getAdjacentRegions, body *)
Lemma src_tree_getAdjacentRegions_ok : Gen_C06.src_tree_getAdjacentRegions =
  "{ v2 := &regionItem{region: &RegionInfo{meta: &metapb.Region{StartKey: v1.GetStartKey()}}} var v3, v4 *regionItem v0.tree.AscendGreaterOrEqual(v2, func(v5 btree.Item) bool { if bytes.Equal(v2.region.GetStartKey(), v5.(*regionItem).region.GetStartKey()) { return true } v4 = v5.(*regionItem) return false }) v0.tree.DescendLessOrEqual(v2, func(v6 btree.Item) bool { if bytes.Equal(v2.region.GetStartKey(), v6.(*regionItem).region.GetStartKey()) { return true } v3 = v6.(*regionItem) return false }) return v3, v4 }".
Proof. reflexivity. Qed.

(* server/core/region_tree.go: (regionTree).RandomRegion, body *)
Lemma src_tree_RandomRegion_ok : Gen_C06.src_tree_RandomRegion =
  "{ if v0.length() == 0 { return nil } if len(v1) == 0 { v1 = []KeyRange{NewKeyRange("""", """")} } for _, v2 := range rand.Perm(len(v1)) { var v3 int v4, v5 := v1[v2].StartKey, v1[v2].EndKey v6, v7 := v0.tree.GetWithIndex(&regionItem{region: &RegionInfo{meta: &metapb.Region{StartKey: v4}}}) if len(v5) != 0 { _, v3 = v0.tree.GetWithIndex(&regionItem{region: &RegionInfo{meta: &metapb.Region{StartKey: v5}}}) } else { v3 = v0.tree.Len() } if v7 != 0 && v6 == nil && v0.tree.GetAt(v7-1).(*regionItem).Contains(v4) { v7-- } if v3 <= v7 { if len(v5) > 0 && bytes.Compare(v4, v5) > 0 { } continue } v8 := rand.Intn(v3-v7) + v7 v9 := v0.tree.GetAt(v8).(*regionItem).region if isInvolved(v9, v4, v5) { return v9 } } return nil }".
Proof. reflexivity. Qed.

(* server/core/region_tree.go: (regionTree).TotalSize, body *)
Lemma src_tree_TotalSize_ok : Gen_C06.src_tree_TotalSize =
  "{ if v0.length() == 0 { return 0 } return v0.totalSize }".
Proof. reflexivity. Qed.

(* server/core/region_tree.go: ().newRegionTree, body *)
Lemma src_newRegionTree_ok : Gen_C06.src_newRegionTree =
  "{ return &regionTree{ tree: btree.New(defaultBTreeDegree), totalSize: 0, } }".
Proof. reflexivity. Qed.

(* server/core/region.go: (RegionsInfo).GetRegion, body *)
Lemma src_ri_GetRegion_ok : Gen_C06.src_ri_GetRegion =
  "{ if v2 := v0.regions.Get(v1); v2 != nil { return v2.region } return nil }".
Proof. reflexivity. Qed.

(* server/core/region.go: (RegionsInfo).SetRegion, body *)
Lemma src_ri_SetRegion_ok : Gen_C06.src_ri_SetRegion =
  "{ var v3 *regionItem // Pointer to the *RegionInfo of this ID. var v4 *RegionInfo // This is the original region information of this ID. var v5 bool // This Region is new, or its range has changed. var v6 bool // This Region is new, or its peers have changed, including leader-change/pending/down. if v3 = v0.regions.Get(v1.GetID()); v3 != nil { v4 = v3.region v5 = !bytes.Equal(v4.GetStartKey(), v1.GetStartKey()) || !bytes.Equal(v4.GetEndKey(), v1.GetEndKey()) if v5 { v0.tree.remove(v4) v6 = true } else { v6 = v0.shouldRemoveFromSubTree(v1, v4) } if v6 { v0.removeRegionFromSubTree(v4) } v3.region = v1 } else { v5 = true v6 = true v3 = v0.regions.AddNew(v1) } if !v5 { v0.tree.updateStat(v4, v1) } else { v2 = v0.tree.update(v3) for _, v7 := range v2 { v0.RemoveRegion(v0.GetRegion(v7.GetID())) } } if !v6 { v0.updateSubTreeStat(v4, v1) } else { for _, v8 := range v1.GetVoters() { v9 := v8.GetStoreId() if v8.GetId() == v1.leader.GetId() { v10, v11 := v0.leaders[v9] if !v11 { v10 = newRegionTree() v0.leaders[v9] = v10 } v10.update(v3) } else { v12, v13 := v0.followers[v9] if !v13 { v12 = newRegionTree() v0.followers[v9] = v12 } v12.update(v3) } } for _, v14 := range v1.GetLearners() { v15 := v14.GetStoreId() v16, v17 := v0.learners[v15] if !v17 { v16 = newRegionTree() v0.learners[v15] = v16 } v16.update(v3) } for _, v18 := range v1.GetPendingPeers() { v19 := v18.GetStoreId() v20, v21 := v0.pendingPeers[v19] if !v21 { v20 = newRegionTree() v0.pendingPeers[v19] = v20 } v20.update(v3) } } return }".
Proof. reflexivity. Qed.

(* server/core/region.go: (RegionsInfo).updateSubTreeStat, body *)
Lemma src_ri_updateSubTreeStat_ok : Gen_C06.src_ri_updateSubTreeStat =
  "{ for _, v3 := range v2.GetVoters() { v4 := v3.GetStoreId() if v3.GetId() == v2.leader.GetId() { if v5, v6 := v0.leaders[v4]; v6 { v5.updateStat(v1, v2) } } else { if v7, v8 := v0.followers[v4]; v8 { v7.updateStat(v1, v2) } } } for _, v9 := range v2.GetLearners() { if v10, v11 := v0.learners[v9.GetStoreId()]; v11 { v10.updateStat(v1, v2) } } for _, v12 := range v2.GetPendingPeers() { if v13, v14 := v0.pendingPeers[v12.GetStoreId()]; v14 { v13.updateStat(v1, v2) } } }".
Proof. reflexivity. Qed.

(* server/core/region.go: (RegionsInfo).GetOverlaps, body *)
Lemma src_ri_GetOverlaps_ok : Gen_C06.src_ri_GetOverlaps =
  "{ return v0.tree.getOverlaps(v1) }".
Proof. reflexivity. Qed.

(* server/core/region.go: (RegionsInfo).RemoveRegion, body *)
Lemma src_ri_RemoveRegion_ok : Gen_C06.src_ri_RemoveRegion =
  "{ v0.tree.remove(v1) v0.regions.Delete(v1.GetID()) v0.removeRegionFromSubTree(v1) }".
Proof. reflexivity. Qed.

(* server/core/region.go: (RegionsInfo).removeRegionFromSubTree, body *)
Lemma src_ri_removeRegionFromSubTree_ok : Gen_C06.src_ri_removeRegionFromSubTree =
  "{ for _, v2 := range v1.meta.GetPeers() { v3 := v2.GetStoreId() v0.leaders[v3].remove(v1) v0.followers[v3].remove(v1) v0.learners[v3].remove(v1) v0.pendingPeers[v3].remove(v1) } }".
Proof. reflexivity. Qed.

(* server/core/region.go: (RegionsInfo).SearchRegion, body *)
Lemma src_ri_SearchRegion_ok : Gen_C06.src_ri_SearchRegion =
  "{ v2 := v0.tree.search(v1) if v2 == nil { return nil } return v0.GetRegion(v2.GetID()) }".
Proof. reflexivity. Qed.

(* server/core/region.go: (RegionsInfo).SearchPrevRegion, body *)
Lemma src_ri_SearchPrevRegion_ok : Gen_C06.src_ri_SearchPrevRegion =
  "{ v2 := v0.tree.searchPrev(v1) if v2 == nil { return nil } return v0.GetRegion(v2.GetID()) }".
Proof. reflexivity. Qed.

(* server/core/region.go: (RegionsInfo).ScanRange, body *)
Lemma src_ri_ScanRange_ok : Gen_C06.src_ri_ScanRange =
  "{ var v4 []*RegionInfo v0.tree.scanRange(v1, func(v5 *RegionInfo) bool { if len(v2) > 0 && bytes.Compare(v5.GetStartKey(), v2) >= 0 { return false } if v3 > 0 && len(v4) >= v3 { return false } v4 = append(v4, v0.GetRegion(v5.GetID())) return true }) return v4 }".
Proof. reflexivity. Qed.

(* server/core/region.go: (RegionsInfo).GetAdjacentRegions, body *)
Lemma src_ri_GetAdjacentRegions_ok : Gen_C06.src_ri_GetAdjacentRegions =
  "{ v2, v3 := v0.tree.getAdjacentRegions(v1) var v4, v5 *RegionInfo if v2 != nil && bytes.Equal(v2.region.GetEndKey(), v1.GetStartKey()) { v4 = v0.GetRegion(v2.region.GetID()) } if v3 != nil && bytes.Equal(v1.GetEndKey(), v3.region.GetStartKey()) { v5 = v0.GetRegion(v3.region.GetID()) } return v4, v5 }".
Proof. reflexivity. Qed.

(* server/core/region.go: (RegionsInfo).GetAverageRegionSize, body *)
Lemma src_ri_GetAverageRegionSize_ok : Gen_C06.src_ri_GetAverageRegionSize =
  "{ if v0.tree.length() == 0 { return 0 } return v0.tree.TotalSize() / int64(v0.tree.length()) }".
Proof. reflexivity. Qed.

(* server/core/region.go: (RegionsInfo).GetStoreRegions, body *)
Lemma src_ri_GetStoreRegions_ok : Gen_C06.src_ri_GetStoreRegions =
  "{ v2 := make([]*RegionInfo, 0, v0.GetStoreRegionCount(v1)) if v3, v4 := v0.leaders[v1]; v4 { v2 = append(v2, v3.scanRanges()...) } if v5, v6 := v0.followers[v1]; v6 { v2 = append(v2, v5.scanRanges()...) } if v7, v8 := v0.learners[v1]; v8 { v2 = append(v2, v7.scanRanges()...) } return v2 }".
Proof. reflexivity. Qed.

(* server/core/region.go: (RegionsInfo).GetStoreLeaderCount, body *)
Lemma src_ri_GetStoreLeaderCount_ok : Gen_C06.src_ri_GetStoreLeaderCount =
  "{ return v0.leaders[v1].length() }".
Proof. reflexivity. Qed.

(* server/core/region.go: (RegionsInfo).GetStoreFollowerCount, body *)
Lemma src_ri_GetStoreFollowerCount_ok : Gen_C06.src_ri_GetStoreFollowerCount =
  "{ return v0.followers[v1].length() }".
Proof. reflexivity. Qed.

(* server/core/region.go: (RegionsInfo).GetStoreLearnerCount, body *)
Lemma src_ri_GetStoreLearnerCount_ok : Gen_C06.src_ri_GetStoreLearnerCount =
  "{ return v0.learners[v1].length() }".
Proof. reflexivity. Qed.

(* server/core/region.go: (RegionsInfo).GetStorePendingPeerCount, body *)
Lemma src_ri_GetStorePendingPeerCount_ok : Gen_C06.src_ri_GetStorePendingPeerCount =
  "{ return v0.pendingPeers[v1].length() }".
Proof. reflexivity. Qed.

(* server/core/region.go: (RegionsInfo).GetStoreLeaderRegionSize, body *)
Lemma src_ri_GetStoreLeaderRegionSize_ok : Gen_C06.src_ri_GetStoreLeaderRegionSize =
  "{ return v0.leaders[v1].TotalSize() }".
Proof. reflexivity. Qed.

(* server/core/region.go: (RegionsInfo).GetStoreFollowerRegionSize, body *)
Lemma src_ri_GetStoreFollowerRegionSize_ok : Gen_C06.src_ri_GetStoreFollowerRegionSize =
  "{ return v0.followers[v1].TotalSize() }".
Proof. reflexivity. Qed.

(* server/core/region.go: (RegionsInfo).GetStoreLearnerRegionSize, body *)
Lemma src_ri_GetStoreLearnerRegionSize_ok : Gen_C06.src_ri_GetStoreLearnerRegionSize =
  "{ return v0.learners[v1].TotalSize() }".
Proof. reflexivity. Qed.

(* server/core/region.go: (RegionsInfo).RandLeaderRegion, body *)
Lemma src_ri_RandLeaderRegion_ok : Gen_C06.src_ri_RandLeaderRegion =
  "{ return v0.leaders[v1].RandomRegion(v2) }".
Proof. reflexivity. Qed.

(* server/core/region.go: (RegionsInfo).RandFollowerRegion, body *)
Lemma src_ri_RandFollowerRegion_ok : Gen_C06.src_ri_RandFollowerRegion =
  "{ return v0.followers[v1].RandomRegion(v2) }".
Proof. reflexivity. Qed.

(* server/core/region.go: (RegionsInfo).RandLearnerRegion, body *)
Lemma src_ri_RandLearnerRegion_ok : Gen_C06.src_ri_RandLearnerRegion =
  "{ return v0.learners[v1].RandomRegion(v2) }".
Proof. reflexivity. Qed.

(* server/core/region.go: (RegionsInfo).RandPendingRegion, body *)
Lemma src_ri_RandPendingRegion_ok : Gen_C06.src_ri_RandPendingRegion =
  "{ return v0.pendingPeers[v1].RandomRegion(v2) }".
Proof. reflexivity. Qed.

(* server/core/region.go: (RegionsInfo).Len, body *)
Lemma src_ri_Len_ok : Gen_C06.src_ri_Len =
  "{ return v0.regions.Len() }".
Proof. reflexivity. Qed.

(* server/core/region.go: (RegionsInfo).TreeLen, body *)
Lemma src_ri_TreeLen_ok : Gen_C06.src_ri_TreeLen =
  "{ return v0.tree.length() }".
Proof. reflexivity. Qed.

(* server/core/region_tree.go: (regionItem).Less, body *)
Lemma src_item_Less_ok : Gen_C06.src_item_Less =
  "{ v2 := v0.region.GetStartKey() v3 := v1.(*regionItem).region.GetStartKey() return bytes.Compare(v2, v3) < 0 }".
Proof. reflexivity. Qed.

(* server/core/region_tree.go: (regionItem).Contains, body *)
Lemma src_item_Contains_ok : Gen_C06.src_item_Contains =
  "{ v2, v3 := v0.region.GetStartKey(), v0.region.GetEndKey() return bytes.Compare(v1, v2) >= 0 && (len(v3) == 0 || bytes.Compare(v1, v3) < 0) }".
Proof. reflexivity. Qed.

(* server/core/region.go: ().isInvolved, body *)
Lemma src_isInvolved_ok : Gen_C06.src_isInvolved =
  "{ return bytes.Compare(v0.GetStartKey(), v1) >= 0 && (len(v2) == 0 || (len(v0.GetEndKey()) > 0 && bytes.Compare(v0.GetEndKey(), v2) <= 0)) }".
Proof. reflexivity. Qed.

(* server/core/region.go: (RegionsInfo).shouldRemoveFromSubTree, body *)
Lemma src_shouldRemoveFromSubTree_ok : Gen_C06.src_shouldRemoveFromSubTree =
  "{ return v2.leader.GetId() != v1.leader.GetId() || !SortedPeersEqual(v2.GetVoters(), v1.GetVoters()) || !SortedPeersEqual(v2.GetLearners(), v1.GetLearners()) || !SortedPeersEqual(v2.GetPendingPeers(), v1.GetPendingPeers()) }".
Proof. reflexivity. Qed.

(* server/core/region.go: ().SortedPeersEqual, body *)
Lemma src_SortedPeersEqual_ok : Gen_C06.src_SortedPeersEqual =
  "{ if len(v0) != len(v1) { return false } for v2, v3 := range v0 { v4 := v1[v2] if v3.GetStoreId() != v4.GetStoreId() || v3.GetId() != v4.GetId() { return false } } return true }".
Proof. reflexivity. Qed.

(* server/core/region.go: (peerSlice).Less, body *)
Lemma src_peerSlice_Less_ok : Gen_C06.src_peerSlice_Less =
  "{ return v0[v1].GetId() < v0[v2].GetId() }".
Proof. reflexivity. Qed.

(* server/core/region.go: ().classifyVoterAndLearner, body *)
Lemma src_classifyVoterAndLearner_ok : Gen_C06.src_classifyVoterAndLearner =
  "{ v1 := make([]*metapb.Peer, 0, 1) v2 := make([]*metapb.Peer, 0, len(v0.meta.Peers)) for _, v3 := range v0.meta.Peers { if IsLearner(v3) { v1 = append(v1, v3) } else { v2 = append(v2, v3) } } sort.Sort(peerSlice(v1)) sort.Sort(peerSlice(v2)) v0.learners = v1 v0.voters = v2 }".
Proof. reflexivity. Qed.

(* server/core/region.go: (regionMap).AddNew, body *)
Lemma src_regionMap_AddNew_ok : Gen_C06.src_regionMap_AddNew =
  "{ v2 := &regionItem{region: v1} v0[v1.GetID()] = v2 return v2 }".
Proof. reflexivity. Qed.

(* server/core/region.go: (regionMap).Get, body *)
Lemma src_regionMap_Get_ok : Gen_C06.src_regionMap_Get =
  "{ return v0[v1] }".
Proof. reflexivity. Qed.

(* server/core/region.go: (regionMap).Delete, body *)
Lemma src_regionMap_Delete_ok : Gen_C06.src_regionMap_Delete =
  "{ delete(v0, v1) }".
Proof. reflexivity. Qed.

(* server/core/basic_cluster.go: (BasicCluster).getRelevantRegions, body *)
Lemma src_bc_getRelevantRegions_ok : Gen_C06.src_bc_getRelevantRegions =
  "{ v0.RLock() defer v0.RUnlock() v2 = v0.Regions.GetRegion(v1.GetID()) if v2 == nil || !bytes.Equal(v2.GetStartKey(), v1.GetStartKey()) || !bytes.Equal(v2.GetEndKey(), v1.GetEndKey()) { v3 = v0.Regions.GetOverlaps(v1) } return }".
Proof. reflexivity. Qed.

(* server/core/basic_cluster.go: (BasicCluster).PreCheckPutRegion, body *)
Lemma src_bc_PreCheckPutRegion_ok : Gen_C06.src_bc_PreCheckPutRegion =
  "{ v2, v3 := v0.getRelevantRegions(v1) for _, v4 := range v3 { if v1.GetRegionEpoch().GetVersion() < v4.GetRegionEpoch().GetVersion() { return nil, errRegionIsStale(v1.GetMeta(), v4.GetMeta()) } } if v2 == nil { return nil, nil } v5 := v1.GetRegionEpoch() v6 := v2.GetRegionEpoch() v7 := v1.GetTerm() > 0 && v1.GetTerm() < v2.GetTerm() if v7 || v5.GetVersion() < v6.GetVersion() || v5.GetConfVer() < v6.GetConfVer() { return v2, errRegionIsStale(v1.GetMeta(), v2.GetMeta()) } return v2, nil }".
Proof. reflexivity. Qed.

(* server/core/basic_cluster.go: (BasicCluster).PutRegion, body *)
Lemma src_bc_PutRegion_ok : Gen_C06.src_bc_PutRegion =
  "{ v0.Lock() defer v0.Unlock() if v1.term == 0 { if v2 := v0.Regions.GetRegion(v1.GetID()); v2 != nil { v1.term = v2.term } } return v0.Regions.SetRegion(v1) }".
Proof. reflexivity. Qed.

(* server/core/region_storage.go: (RegionStorage).SaveRegion, body *)
Lemma src_rs_SaveRegion_ok : Gen_C06.src_rs_SaveRegion =
  "{ v1, v2 := encryption.EncryptRegion(v1, v0.encryptionKeyManager) if v2 != nil { return v2 } v0.mu.Lock() defer v0.mu.Unlock() if v0.cacheSize < v0.batchSize-1 { v0.batchRegions[regionPath(v1.GetId())] = v1 v0.cacheSize++ v0.flushTime = time.Now().Add(v0.flushRate) return nil } v0.batchRegions[regionPath(v1.GetId())] = v1 v2 = v0.flush() if v2 != nil { return v2 } return nil }".
Proof. reflexivity. Qed.

(* server/core/region_storage.go: (RegionStorage).FlushRegion, body *)
Lemma src_rs_FlushRegion_ok : Gen_C06.src_rs_FlushRegion =
  "{ v0.mu.Lock() defer v0.mu.Unlock() return v0.flush() }".
Proof. reflexivity. Qed.

(* server/core/region_storage.go: (RegionStorage).flush, body *)
Lemma src_rs_flush_ok : Gen_C06.src_rs_flush =
  "{ if v1 := v0.SaveRegions(v0.batchRegions); v1 != nil { return v1 } v0.cacheSize = 0 v0.batchRegions = make(map[string]*metapb.Region, v0.batchSize) return nil }".
Proof. reflexivity. Qed.

(* server/core/region_storage.go: (RegionStorage).Remove, body -- model: delete_region on the write-back backend
   = drop the pending entry of the batch (cacheSize untouched), then the leveldb key *)
Lemma src_rs_Remove_ok : Gen_C06.src_rs_Remove =
  "{ v0.mu.Lock() defer v0.mu.Unlock() delete(v0.batchRegions, v1) return v0.LeveldbKV.Remove(v1) }".
Proof. reflexivity. Qed.

(* server/core/region_storage.go: ().deleteRegion, body *)
Lemma src_rs_deleteRegion_ok : Gen_C06.src_rs_deleteRegion =
  "{ return v0.Remove(regionPath(v1.GetId())) }".
Proof. reflexivity. Qed.

(* server/core/storage.go: (Storage).SaveRegion, body *)
Lemma src_st_SaveRegion_ok : Gen_C06.src_st_SaveRegion =
  "{ if atomic.LoadInt32(&v0.useRegionStorage) > 0 { return v0.regionStorage.SaveRegion(v1) } return saveRegion(v0.Base, v0.encryptionKeyManager, v1) }".
Proof. reflexivity. Qed.

(* server/core/storage.go: (Storage).DeleteRegion, body *)
Lemma src_st_DeleteRegion_ok : Gen_C06.src_st_DeleteRegion =
  "{ if atomic.LoadInt32(&v0.useRegionStorage) > 0 { return deleteRegion(v0.regionStorage, v1) } return deleteRegion(v0.Base, v1) }".
Proof. reflexivity. Qed.

(* server/core/storage.go: (Storage).LoadRegion, body *)
Lemma src_st_LoadRegion_ok : Gen_C06.src_st_LoadRegion =
  "{ if atomic.LoadInt32(&v0.useRegionStorage) > 0 { return loadRegion(v0.regionStorage, v0.encryptionKeyManager, v1, v2) } return loadRegion(v0.Base, v0.encryptionKeyManager, v1, v2) }".
Proof. reflexivity. Qed.

(* server/core/storage.go: (Storage).Flush, body *)
Lemma src_st_Flush_ok : Gen_C06.src_st_Flush =
  "{ if v0.regionStorage != nil { return v0.regionStorage.FlushRegion() } return nil }".
Proof. reflexivity. Qed.

(* server/core/region.go: ().RegionFromHeartbeat, body *)
Lemma src_RegionFromHeartbeat_ok : Gen_C06.src_RegionFromHeartbeat =
  "{ v2 := v0.GetApproximateSize() / (1 << 20) if v2 < EmptyRegionApproximateSize { v2 = EmptyRegionApproximateSize } v3 := &RegionInfo{ term: v0.GetTerm(), meta: v0.GetRegion(), leader: v0.GetLeader(), downPeers: v0.GetDownPeers(), pendingPeers: v0.GetPendingPeers(), writtenBytes: v0.GetBytesWritten(), writtenKeys: v0.GetKeysWritten(), readBytes: v0.GetBytesRead(), readKeys: v0.GetKeysRead(), approximateSize: int64(v2), approximateKeys: int64(v0.GetApproximateKeys()), interval: v0.GetInterval(), replicationStatus: v0.GetReplicationStatus(), QueryStats: v0.GetQueryStats(), } for _, v4 := range v1 { v4(v3) } if v3.writtenKeys >= ImpossibleFlowSize || v3.writtenBytes >= ImpossibleFlowSize { v3.writtenKeys = 0 v3.writtenBytes = 0 } if v3.readKeys >= ImpossibleFlowSize || v3.readBytes >= ImpossibleFlowSize { v3.readKeys = 0 v3.readBytes = 0 } sort.Sort(peerStatsSlice(v3.downPeers)) sort.Sort(peerSlice(v3.pendingPeers)) classifyVoterAndLearner(v3) return v3 }".
Proof. reflexivity. Qed.

(* server/core/basic_cluster.go: (BasicCluster).ScanRange, body *)
Lemma src_bc_ScanRange_ok : Gen_C06.src_bc_ScanRange =
  "{ v0.RLock() defer v0.RUnlock() return v0.Regions.ScanRange(v1, v2, v3) }".
Proof. reflexivity. Qed.

(* server/core/basic_cluster.go: (BasicCluster).CheckAndPutRegion, body *)
Lemma src_bc_CheckAndPutRegion_ok : Gen_C06.src_bc_CheckAndPutRegion =
  "{ v2, v3 := v0.PreCheckPutRegion(v1) if v3 != nil { return []*RegionInfo{v1} } return v0.PutRegion(v1) }".
Proof. reflexivity. Qed.

(* server/core/basic_cluster.go: (BasicCluster).CheckAndPutLoadedRegion, body *)
Lemma src_bc_CheckAndPutLoadedRegion_ok : Gen_C06.src_bc_CheckAndPutLoadedRegion =
  "{ v3 := v0.CheckAndPutRegion(v1) if len(v3) == 1 && v3[0] == v1 { if v4 := v0.GetRegion(v1.GetID()); v4 != nil { if v5 := v2(v4.GetMeta()); v5 != nil { } return nil } } v6 := v3[:0:0] for _, v7 := range v3 { if v7.GetID() <= v1.GetID() { v6 = append(v6, v7) } } return v6 }".
Proof. reflexivity. Qed.

(* server/server.go: (Server).createRaftCluster, body *)
Lemma src_server_createRaftCluster_ok : Gen_C06.src_server_createRaftCluster =
  "{ if v0.cluster.IsRunning() { return nil } return v0.cluster.Start(v0) }".
Proof. reflexivity. Qed.

(* ---- the ways into the region cache: every call site (outside tests) of the functions that write it.  The drivers go through
   processRegionHeartbeat / PutRegion / CheckAndPutLoadedRegion / DropCacheRegion; a new admin, recovery or feature path (or a second
   call in a listed function) changes one of these lists ---- *)
Lemma cache_writer_sites_PutRegion_ok : Gen_C06.cache_writer_sites_PutRegion =
  ["pkg/mock/mockcluster/mockcluster.go:AddLeaderRegion"; "pkg/mock/mockcluster/mockcluster.go:AddLeaderRegionWithRange"; "pkg/mock/mockcluster/mockcluster.go:AddLeaderRegionWithWriteInfo"; "pkg/mock/mockcluster/mockcluster.go:AddRegionLeaderWithReadInfo"; "pkg/mock/mockcluster/mockcluster.go:AddRegionWithLearner"; "pkg/mock/mockcluster/mockcluster.go:AddRegionWithPeerReadInfo"; "pkg/mock/mockcluster/mockcluster.go:AddRegionWithReadInfo"; "pkg/mock/mockcluster/mockcluster.go:LoadRegion"; "pkg/mock/mockcluster/mockcluster.go:PutRegionStores"; "server/cluster/cluster.go:processRegionHeartbeat"; "server/cluster/cluster.go:putRegion"; "server/core/basic_cluster.go:CheckAndPutRegion"; "server/schedule/test_util.go:ApplyOperator"].
Proof. reflexivity. Qed.
Lemma cache_writer_sites_CheckAndPutRegion_ok : Gen_C06.cache_writer_sites_CheckAndPutRegion =
  ["server/core/basic_cluster.go:CheckAndPutLoadedRegion"; "server/region_syncer/client.go:StartSyncWithLeader"].
Proof. reflexivity. Qed.
Lemma cache_writer_sites_CheckAndPutLoadedRegion_ok : Gen_C06.cache_writer_sites_CheckAndPutLoadedRegion =
  ["server/cluster/cluster.go:LoadClusterInfo"; "server/region_syncer/client.go:StartSyncWithLeader"].
Proof. reflexivity. Qed.
Lemma cache_writer_sites_SetRegion_ok : Gen_C06.cache_writer_sites_SetRegion =
  ["server/core/basic_cluster.go:PutRegion"; "server/schedule/range_cluster.go:GenRangeCluster"].
Proof. reflexivity. Qed.
Lemma cache_writer_sites_RemoveRegion_ok : Gen_C06.cache_writer_sites_RemoveRegion =
  ["server/cluster/cluster.go:DropCacheRegion"; "server/core/basic_cluster.go:RemoveRegion"; "server/core/region.go:SetRegion"].
Proof. reflexivity. Qed.
Lemma cache_writer_sites_DropCacheRegion_ok : Gen_C06.cache_writer_sites_DropCacheRegion =
  ["server/api/admin.go:HandleDropCacheRegion"].
Proof. reflexivity. Qed.
