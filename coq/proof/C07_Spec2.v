(* C07 — Pass B: adjacent regions, previous region, candidates of random picks. *)
From Coq Require Import Permutation Sorting.Sorted.
From PDV Require Import lib.Base lib.C07_Key gen.Gen_C07 model.C07_BTreeSpec model.C07_Region
  proof.C07_Sorted proof.C07_Tree proof.C07_RegionProof proof.C07_Spec.
Local Open Scope Z_scope.

Lemma find_as_filter {A} (q : A -> bool) l : List.find q l = hd_error (filter q l).
Proof. induction l as [|a l IH]; cbn; [reflexivity|]. destruct (q a); [reflexivity|exact IH]. Qed.

Lemma filter_rev {A} (q : A -> bool) l : filter q (rev l) = rev (filter q l).
Proof.
  induction l as [|a l IH]; cbn; [reflexivity|]. rewrite filter_app, IH. cbn. destruct (q a); cbn; [reflexivity|apply app_nil_r].
Qed.

(* first / last element of a filtered sorted list *)
Lemma hd_filter_sorted g T x : ssorted T -> hd_error (filter g T) = Some x ->
  In x T /\ g x = true /\ forall y, In y T -> g y = true -> y = x \/ slt x y.
Proof.
  intros S H. pose proof (ssorted_filter g _ S) as SF.
  destruct (filter g T) as [|a F] eqn:E; [discriminate|]. inversion H; subst a.
  assert (Hx : In x (filter g T)) by (rewrite E; left; reflexivity).
  apply filter_In in Hx as [Hx Gx]. split; [exact Hx|]. split; [exact Gx|].
  intros y Hy Gy. assert (HyF : In y (filter g T)) by (apply filter_In; auto). rewrite E in HyF.
  destruct HyF as [->|HyF]; [left; reflexivity|]. right.
  apply ssorted_inv in SF as [_ SF]. rewrite Forall_forall in SF. auto.
Qed.

Lemma last_filter_sorted g T x : ssorted T -> hd_error (rev (filter g T)) = Some x ->
  In x T /\ g x = true /\ forall y, In y T -> g y = true -> y = x \/ slt y x.
Proof.
  intros S H. pose proof (ssorted_filter g _ S) as SF.
  destruct (rev (filter g T)) as [|a F] eqn:E; [discriminate|]. inversion H; subst a.
  apply rev_cons_last in E.
  assert (Hx : In x (filter g T)) by (rewrite E; apply in_or_app; right; left; reflexivity).
  apply filter_In in Hx as [Hx Gx]. split; [exact Hx|]. split; [exact Gx|].
  intros y Hy Gy. assert (HyF : In y (filter g T)) by (apply filter_In; auto). rewrite E in HyF, SF.
  apply ssorted_app_inv in SF as (_ & _ & SF).
  apply in_app_or in HyF as [HyF|[->|[]]]; [right; apply SF; [exact HyF|left; reflexivity]|left; reflexivity].
Qed.

Lemma hd_filter_none {A} (g : A -> bool) T : hd_error (filter g T) = None -> forall y, In y T -> g y = false.
Proof.
  intros H y Hy. destruct (g y) eqn:G; [|reflexivity].
  assert (In y (filter g T)) by (apply filter_In; auto). destruct (filter g T); [destruct H0|discriminate].
Qed.

Lemma last_filter_none {A} (g : A -> bool) T : hd_error (rev (filter g T)) = None -> forall y, In y T -> g y = false.
Proof.
  intros H y Hy. destruct (g y) eqn:G; [|reflexivity].
  assert (In y (rev (filter g T))) by (apply in_rev; rewrite rev_involutive; apply filter_In; auto).
  destruct (rev (filter g T)); [destruct H0|discriminate].
Qed.

(* getAdjacentRegions on a sorted list *)
Definition after_start (r x : region) : bool := key_ltb (r_start r) (r_start x).
Definition before_start (r x : region) : bool := key_ltb (r_start x) (r_start r).

Lemma get_adjacent_spec T tot r : ssorted T ->
  get_adjacent (RT T tot) r = (hd_error (rev (filter (before_start r) T)), hd_error (filter (after_start r) T)).
Proof.
  intros S. unfold get_adjacent. cbn [items].
  rewrite (descend_le_filter _ _ S), (ascend_ge_filter _ _ S), !find_as_filter, filter_rev, !filter_filter. f_equal.
  - f_equal. f_equal. apply filter_ext_in'. intros x _. unfold before_start, rlt. cbn.
    destruct (key_ltb_spec (r_start r) (r_start x)), (key_eqb_spec (r_start r) (r_start x)), (key_ltb_spec (r_start x) (r_start r));
      cbn; try reflexivity; exfalso; korder.
  - f_equal. apply filter_ext_in'. intros x _. unfold after_start, rlt. cbn.
    destruct (key_ltb_spec (r_start x) (r_start r)), (key_eqb_spec (r_start r) (r_start x)), (key_ltb_spec (r_start r) (r_start x));
      cbn; try reflexivity; exfalso; korder.
Qed.

Section Queries2.
  Variables (l : spec) (st : rinfo).
  Hypothesis R : Rel l st.
  Local Notation T := (items (tree st)).

  Let D : ds T := q_ds _ _ R.
  Let S : ssorted T := ds_ssorted _ D.

  (* the previous region in key order ends exactly where r starts *)
  Lemma prev_unique r x : In x T -> before_start r x = true -> key_eqb (r_end x) (r_start r) = true ->
    forall y, In y T -> negb (is_nil (r_end y)) && key_eqb (r_end y) (r_start r) && key_ltb (r_start y) (r_start r) = true -> y = x.
  Proof.
    intros Hx Bx Ex y Hy C. apply andb_true_iff in C as [C C3]. apply andb_true_iff in C as [C1 C2].
    destruct (key_eqb_spec (r_end x) (r_start r)) as [E1|]; [|discriminate].
    destruct (key_eqb_spec (r_end y) (r_start r)) as [E2|]; [|discriminate].
    unfold before_start in Bx. destruct (key_ltb_spec (r_start x) (r_start r)) as [L1|]; [|discriminate].
    destruct (key_ltb_spec (r_start y) (r_start r)) as [L2|]; [|discriminate].
    destruct (ds_pairs _ _ _ D Hy Hx) as [E|[[N L]|[N L]]]; [exact E| |].
    - exfalso. rewrite E2 in L. korder.
    - exfalso. rewrite E1 in L. korder.
  Qed.

  Lemma q_adjacent r : adjacent st r = spec_adjacent l r.
  Proof.
    unfold adjacent, spec_adjacent. rewrite (q_tree _ _ R). rewrite (get_adjacent_spec _ _ _ S). f_equal.
    - (* prev *)
      destruct (hd_error (rev (filter (before_start r) T))) as [x|] eqn:HP.
      + destruct (last_filter_sorted _ _ _ S HP) as (Hx & Bx & LAST).
        destruct (key_eqb (r_end x) (r_start r)) eqn:E.
        * rewrite (q_get _ _ R x Hx). symmetry. apply find_unique.
          -- apply (q_in _ _ R), Hx.
          -- rewrite E. unfold before_start in Bx. rewrite Bx.
             destruct (is_nil_spec (r_end x)) as [EN|]; [|reflexivity]. exfalso.
             destruct (key_eqb_spec (r_end x) (r_start r)) as [E1|]; [|discriminate].
             destruct (key_ltb_spec (r_start x) (r_start r)) as [L1|]; [|discriminate]. rewrite <- E1, EN in L1. apply (not_klt_nil _ L1).
          -- intros y Hy C. apply (q_in _ _ R) in Hy. eapply prev_unique; eauto.
        * symmetry. apply find_none'. intros y Hy. apply (q_in _ _ R) in Hy.
          destruct (negb (is_nil (r_end y)) && key_eqb (r_end y) (r_start r) && key_ltb (r_start y) (r_start r)) eqn:C; [|reflexivity].
          exfalso. apply andb_true_iff in C as [C C3]. apply andb_true_iff in C as [C1 C2].
          destruct (LAST y Hy C3) as [->|L]; [congruence|].
          destruct (key_eqb_spec (r_end y) (r_start r)) as [E2|]; [|discriminate].
          destruct (ds_pairs _ _ _ D Hy Hx) as [->|[[N L']|[N L']]]; [unfold slt in L; korder| |].
          -- unfold before_start in Bx. destruct (key_ltb_spec (r_start x) (r_start r)) as [L1|]; [|discriminate]. rewrite E2 in L'. korder.
          -- pose proof (ds_valid _ _ D Hx) as Vx. apply validP_cases in Vx as [Vx|Vx]; [contradiction|]. unfold slt in L. korder.
      + symmetry. apply find_none'. intros y Hy. apply (q_in _ _ R) in Hy.
        pose proof (last_filter_none _ _ HP y Hy) as B. unfold before_start in B. rewrite B. apply andb_false_r.
    - (* next *)
      destruct (hd_error (filter (after_start r) T)) as [x|] eqn:HN.
      + destruct (hd_filter_sorted _ _ _ S HN) as (Hx & Ax & FIRST).
        unfold after_start in Ax.
        assert (NOBETWEEN : existsb (fun y => key_ltb (r_start r) (r_start y) && key_ltb (r_start y) (r_start x)) l = false).
        { destruct (existsb _ l) eqn:X; [|reflexivity]. exfalso. apply existsb_exists in X as (y & Hy & C).
          apply (q_in _ _ R) in Hy. apply andb_true_iff in C as [C1 C2].
          destruct (FIRST y Hy C1) as [->|L].
          - destruct (key_ltb_spec (r_start x) (r_start x)) as [L|]; [korder|discriminate].
          - destruct (key_ltb_spec (r_start y) (r_start x)) as [L2|]; [|discriminate]. unfold slt in L. korder. }
        destruct (key_eqb (r_end r) (r_start x)) eqn:E.
        * rewrite (q_get _ _ R x Hx). symmetry. apply find_unique.
          -- apply (q_in _ _ R), Hx.
          -- rewrite E, Ax, NOBETWEEN. reflexivity.
          -- intros y Hy C. apply (q_in _ _ R) in Hy as HyT. apply andb_true_iff in C as [C C3]. apply andb_true_iff in C as [C1 C2].
             destruct (FIRST y HyT C2) as [E'|L]; [exact E'|]. exfalso.
             apply negb_true_iff in C3. assert (existsb (fun x0 => key_ltb (r_start r) (r_start x0) && key_ltb (r_start x0) (r_start y)) l = true); [|congruence].
             apply existsb_exists. exists x. split; [apply (q_in _ _ R), Hx|]. rewrite Ax. cbn.
             destruct (key_ltb_spec (r_start x) (r_start y)); [reflexivity|contradiction].
        * symmetry. apply find_none'. intros y Hy. apply (q_in _ _ R) in Hy as HyT.
          destruct (key_eqb (r_end r) (r_start y) && key_ltb (r_start r) (r_start y) && _) eqn:C; [|reflexivity].
          exfalso. apply andb_true_iff in C as [C C3]. apply andb_true_iff in C as [C1 C2].
          destruct (FIRST y HyT C2) as [->|L]; [congruence|].
          apply negb_true_iff in C3. assert (existsb (fun x0 => key_ltb (r_start r) (r_start x0) && key_ltb (r_start x0) (r_start y)) l = true); [|congruence].
          apply existsb_exists. exists x. split; [apply (q_in _ _ R), Hx|]. rewrite Ax. cbn.
          destruct (key_ltb_spec (r_start x) (r_start y)); [reflexivity|contradiction].
      + symmetry. apply find_none'. intros y Hy. apply (q_in _ _ R) in Hy.
        pose proof (hd_filter_none _ _ HN y Hy) as A. unfold after_start in A. rewrite A. rewrite andb_false_r. reflexivity.
  Qed.

  (* previous-region lookup *)
  Lemma q_search_prev k : search_prev_region st k = spec_prev l k.
  Proof.
    unfold search_prev_region, spec_prev. rewrite <- (q_search _ _ R k). unfold search_region, search_prev.
    rewrite (q_tree _ _ R). unfold search.
    destruct (find (RT T (sum_size T)) (tmp k)) as [cur|] eqn:F; [|reflexivity].
    apply find_some in F as [Hc Cc]; [|exact D]. cbn [back]. rewrite (q_get _ _ R cur Hc).
    rewrite (get_adjacent_spec _ _ _ S). cbn [fst].
    destruct (hd_error (rev (filter (before_start cur) T))) as [x|] eqn:HP.
    - destruct (last_filter_sorted _ _ _ S HP) as (Hx & Bx & LAST).
      destruct (key_eqb (r_end x) (r_start cur)) eqn:E.
      + cbn [back]. rewrite (q_get _ _ R x Hx). symmetry. apply find_unique.
        * apply (q_in _ _ R), Hx.
        * rewrite E. destruct (is_nil_spec (r_end x)) as [EN|]; [|reflexivity]. exfalso.
          destruct (key_eqb_spec (r_end x) (r_start cur)) as [E1|]; [|discriminate].
          unfold before_start in Bx. destruct (key_ltb_spec (r_start x) (r_start cur)) as [L1|]; [|discriminate].
          rewrite <- E1, EN in L1. apply (not_klt_nil _ L1).
        * intros y Hy C. apply (q_in _ _ R) in Hy. apply andb_true_iff in C as [C1 C2].
          apply (prev_unique cur x Hx Bx E y Hy). rewrite C1, C2. cbn.
          destruct (key_eqb_spec (r_end y) (r_start cur)) as [E2|]; [|discriminate].
          pose proof (ds_valid _ _ D Hy) as Vy. apply validP_cases in Vy as [Vy|Vy].
          -- apply negb_true_iff in C1. destruct (is_nil_spec (r_end y)); [discriminate|contradiction].
          -- rewrite E2 in Vy. destruct (key_ltb_spec (r_start y) (r_start cur)); [reflexivity|contradiction].
      + cbn [back]. symmetry. apply find_none'. intros y Hy. apply (q_in _ _ R) in Hy.
        destruct (negb (is_nil (r_end y)) && key_eqb (r_end y) (r_start cur)) eqn:C; [|reflexivity]. exfalso.
        apply andb_true_iff in C as [C1 C2]. destruct (key_eqb_spec (r_end y) (r_start cur)) as [E2|]; [|discriminate].
        pose proof (ds_valid _ _ D Hy) as Vy. apply validP_cases in Vy as [Vy|Vy].
        * apply negb_true_iff in C1. destruct (is_nil_spec (r_end y)); [discriminate|contradiction].
        * assert (By : before_start cur y = true).
          { unfold before_start. rewrite E2 in Vy. destruct (key_ltb_spec (r_start y) (r_start cur)); [reflexivity|contradiction]. }
          assert (y = x); [|subst y; destruct (key_eqb_spec (r_end x) (r_start cur)); [discriminate|contradiction]].
          destruct (LAST y Hy By) as [->|L]; [reflexivity|]. exfalso.
          destruct (ds_pairs _ _ _ D Hy Hx) as [->|[[N L']|[N L']]].
          -- unfold slt in L. korder.
          -- unfold before_start in Bx. destruct (key_ltb_spec (r_start x) (r_start cur)) as [L1|]; [|discriminate]. rewrite E2 in L'. korder.
          -- pose proof (ds_valid _ _ D Hx) as Vx. apply validP_cases in Vx as [Vx|Vx]; [contradiction|]. unfold slt in L. korder.
    - cbn [back]. symmetry. apply find_none'. intros y Hy. apply (q_in _ _ R) in Hy.
      destruct (negb (is_nil (r_end y)) && key_eqb (r_end y) (r_start cur)) eqn:C; [|reflexivity]. exfalso.
      apply andb_true_iff in C as [C1 C2]. destruct (key_eqb_spec (r_end y) (r_start cur)) as [E2|]; [|discriminate].
      pose proof (ds_valid _ _ D Hy) as Vy. apply validP_cases in Vy as [Vy|Vy].
      + apply negb_true_iff in C1. destruct (is_nil_spec (r_end y)); [discriminate|contradiction].
      + pose proof (last_filter_none _ _ HP y Hy) as B. unfold before_start in B.
        rewrite E2 in Vy. destruct (key_ltb_spec (r_start y) (r_start cur)); [discriminate|contradiction].
  Qed.
End Queries2.

(* ------------------------------------------------------------------------------------------ *)
(* random picks: the sampled index interval contains every candidate, and only regions of the tree *)
Lemma filter_length_le {A} (p q : A -> bool) l : (forall y, In y l -> p y = true -> q y = true) ->
  (length (filter p l) <= length (filter q l))%nat.
Proof.
  induction l as [|a l IH]; intros H; cbn; [lia|].
  assert (IH' := IH (fun y Hy => H y (or_intror Hy))).
  destruct (p a) eqn:Pa; [rewrite (H a (or_introl eq_refl) Pa); cbn; lia|]. destruct (q a); cbn; lia.
Qed.

Lemma filter_length_lt {A} (p q : A -> bool) l x : (forall y, In y l -> p y = true -> q y = true) ->
  In x l -> p x = false -> q x = true -> (length (filter p l) < length (filter q l))%nat.
Proof.
  induction l as [|a l IH]; intros H Hx Px Qx; [destruct Hx|]. cbn.
  assert (H' : forall y, In y l -> p y = true -> q y = true) by (intros y Hy; apply H; right; exact Hy).
  destruct Hx as [->|Hx].
  - rewrite Px, Qx. cbn. pose proof (filter_length_le p q l H'). lia.
  - specialize (IH H' Hx Px Qx). destruct (p a) eqn:Pa; [rewrite (H a (or_introl eq_refl) Pa); cbn; lia|]. destruct (q a); cbn; lia.
Qed.

Lemma nth_rank T x : ssorted T -> In x T -> nth_error T (length (filter (fun y => rlt y x) T)) = Some x.
Proof.
  intros S Hx. apply in_split in Hx as (T1 & T2 & ->).
  apply ssorted_app_inv in S as (A & B & C). apply ssorted_inv in B as [B1 B2]. rewrite Forall_forall in B2.
  rewrite filter_app. cbn.
  replace (rlt x x) with false by (destruct (rlt_spec x x) as [L|]; [unfold slt in L; exfalso; korder|reflexivity]).
  rewrite (filter_true_id _ T1), (filter_false_nil _ T2), app_nil_r.
  - rewrite nth_error_app2 by lia. rewrite Nat.sub_diag. reflexivity.
  - intros y Hy. specialize (B2 y Hy). destruct (rlt_spec y x) as [L|]; [unfold slt in *; exfalso; korder|reflexivity].
  - intros y Hy. specialize (C y x Hy (or_introl eq_refl)). destruct (rlt_spec y x); [reflexivity|contradiction].
Qed.

Lemma involved_iff x s e :
  involved x s e = true <-> kle s (r_start x) /\ (e = [] \/ (r_end x <> [] /\ kle (r_end x) e)).
Proof.
  unfold involved. rewrite andb_true_iff, orb_true_iff, andb_true_iff, negb_true_iff.
  destruct (key_leb_spec s (r_start x)), (is_nil_spec e), (is_nil_spec (r_end x)), (key_leb_spec (r_end x) e);
    intuition congruence.
Qed.

Lemma rank_tmp k L : ssorted L ->
  l0_rank rlt (tmp k) L = length (filter (fun y => key_ltb (r_start y) k) L).
Proof. intros S. rewrite (l0_rank_filter _ _ S). reflexivity. Qed.

(* every region of the tree that lies inside [s, e) sits at an index of the sampled interval *)
Theorem random_complete L tot s e x : ds L -> In x L -> involved x s e = true ->
  let '(si, ei) := rand_interval (RT L tot) s e in
  exists d, 0 <= d < ei - si /\ l0_get_at (si + d) L = Some x.
Proof.
  intros D Hx IV. pose proof (ds_ssorted _ D) as S. apply involved_iff in IV as [I1 I2].
  pose proof (ds_valid _ _ D Hx) as Vx. apply validP_cases in Vx.
  unfold rand_interval, l0_get_with_index. cbn [items].
  set (si0 := Z.of_nat (l0_rank rlt (tmp s) L)).
  set (ix := Z.of_nat (length (filter (fun y => rlt y x) L))).
  assert (NTH : nth_error L (Z.to_nat ix) = Some x) by (unfold ix; rewrite Nat2Z.id; apply nth_rank; auto).
  assert (LEN : ix < Z.of_nat (length L)).
  { unfold ix. apply inj_lt. apply nth_error_Some. rewrite nth_rank; auto. discriminate. }
  assert (LO : si0 <= ix).
  { unfold si0, ix. rewrite (rank_tmp _ _ S). apply inj_le. apply filter_length_le. intros y _ Hy.
    unfold rlt. destruct (key_ltb_spec (r_start y) s) as [L1|]; [|discriminate].
    destruct (key_ltb_spec (r_start y) (r_start x)); [reflexivity|exfalso; korder]. }
  set (ei := if is_nil e then rt_len (RT L tot) else Z.of_nat (snd (l0_get rlt (tmp e) L, l0_rank rlt (tmp e) L))).
  assert (HI : ix < ei).
  { unfold ei. destruct (is_nil_spec e) as [En|En]; [exact LEN|]. cbn [snd].
    destruct I2 as [E|[N2 L2]]; [contradiction|]. destruct Vx as [Vx|Vx]; [contradiction|].
    unfold ix. rewrite (rank_tmp _ _ S). apply inj_lt. apply (filter_length_lt _ _ L x); auto.
    - intros y _ Hy. unfold rlt in Hy. destruct (key_ltb_spec (r_start y) (r_start x)) as [L1|]; [|discriminate].
      destruct (key_ltb_spec (r_start y) e); [reflexivity|exfalso; korder].
    - destruct (rlt_spec x x) as [L1|]; [unfold slt in L1; exfalso; korder|reflexivity].
    - destruct (key_ltb_spec (r_start x) e); [reflexivity|exfalso; korder]. }
  set (si := if negb (si0 =? 0) && _ && _ then si0 - 1 else si0).
  assert (SI : si <= si0) by (unfold si; destruct (negb (si0 =? 0) && _ && _); lia).
  assert (SI0 : 0 <= si).
  { unfold si. destruct (negb (si0 =? 0)) eqn:Z0; cbn [andb].
    - apply negb_true_iff, Z.eqb_neq in Z0. assert (0 <= si0) by (unfold si0; lia). destruct (_ && _); lia.
    - unfold si0. lia. }
  exists (ix - si). split; [lia|]. replace (si + (ix - si)) with ix by lia.
  unfold l0_get_at. replace (ix <? 0) with false by (symmetry; apply Z.ltb_ge; unfold ix; lia). exact NTH.
Qed.

(* whatever index is drawn, a non-nil pick is a region of the tree that lies inside the range *)
Theorem random_sound t s e draws x : random_one t s e draws = Some (Some x) ->
  In x (items t) /\ involved x s e = true.
Proof.
  unfold random_one. destruct (rt_len t =? 0); [discriminate|].
  destruct (rand_interval t s e) as [si ei]. destruct (ei <=? si); [discriminate|].
  destruct (nth_error draws _) as [d|]; [|discriminate].
  unfold l0_get_at. destruct (si + d <? 0); [discriminate|].
  destruct (nth_error (items t) (Z.to_nat (si + d))) as [y|] eqn:N; [|discriminate].
  destruct (involved y s e) eqn:IV; intros H; inversion H; subst. split; [eapply nth_error_In; eauto|exact IV].
Qed.

Theorem random_many_sound t ranges x : In x (snd (random_many t ranges)) ->
  In x (items t) /\ exists se, In se ranges /\ involved x (fst se) (snd se) = true.
Proof.
  unfold random_many. destruct (rt_len t =? 0); [intros []|]. cbn [snd].
  intros H. apply in_flat_map in H as (c & Hc & H). apply in_map_iff in Hc as (se & <- & Hse).
  apply in_flat_map in H as ([[i y] b] & Hy & H). cbn in H. destruct b; [|destruct H].
  destruct H as [<-|[]]. unfold rand_cands in Hy. destruct (rand_interval t (fst se) (snd se)) as [si ei].
  destruct (ei <=? si); [destruct Hy|]. apply in_flat_map in Hy as (j & _ & Hy).
  unfold l0_get_at in Hy. destruct (j <? 0); [destruct Hy|].
  destruct (nth_error (items t) (Z.to_nat j)) as [z|] eqn:N; [|destruct Hy].
  destruct Hy as [E|[]]. inversion E; subst. split; [eapply nth_error_In; eauto|]. exists se. auto.
Qed.

(* ------------------------------------------------------------------------------------------ *)
(* closed forms for props/C07.v                                                                 *)
Theorem adjacent_is_linear_scan_pf ops : Forall wf_op ops ->
  forall r, adjacent (state_of ops) r = spec_adjacent (spec_of ops) r.
Proof. intros W r. apply (q_adjacent _ _ (Rel_run ops W)). Qed.

Theorem search_prev_is_linear_scan_pf ops : Forall wf_op ops ->
  forall k, search_prev_region (state_of ops) k = spec_prev (spec_of ops) k.
Proof. intros W k. apply (q_search_prev _ _ (Rel_run ops W)). Qed.

Theorem random_pick_sound_pf ops : Forall wf_op ops ->
  forall f s ks ke draws x, random_one (fam_of (state_of ops) f s) ks ke draws = Some (Some x) ->
  In x (spec_rand_cands (spec_of ops) f s ks ke).
Proof.
  intros W f s ks ke draws x H. pose proof (Rel_run ops W) as R.
  apply random_sound in H as [Hx IV]. unfold spec_rand_cands. apply filter_In. split; [|exact IV].
  rewrite <- (q_fam_items _ _ R). exact Hx.
Qed.

Theorem random_many_sound_pf ops : Forall wf_op ops ->
  forall f s ranges x, In x (snd (random_many (fam_of (state_of ops) f s) ranges)) ->
  exists se, In se ranges /\ In x (spec_rand_cands (spec_of ops) f s (fst se) (snd se)).
Proof.
  intros W f s ranges x H. pose proof (Rel_run ops W) as R.
  apply random_many_sound in H as [Hx (se & Hse & IV)]. exists se. split; [exact Hse|].
  unfold spec_rand_cands. apply filter_In. split; [|exact IV]. rewrite <- (q_fam_items _ _ R). exact Hx.
Qed.

Theorem random_pick_complete_pf ops : Forall wf_op ops ->
  forall f s ks ke x, In x (spec_rand_cands (spec_of ops) f s ks ke) ->
  let '(si, ei) := rand_interval (fam_of (state_of ops) f s) ks ke in
  exists d, 0 <= d < ei - si /\ l0_get_at (si + d) (items (fam_of (state_of ops) f s)) = Some x.
Proof.
  intros W f s ks ke x H. pose proof (Rel_run ops W) as R.
  unfold spec_rand_cands in H. apply filter_In in H as [Hx IV]. rewrite <- (q_fam_items _ _ R) in Hx.
  rewrite (q_fam _ _ R) in *. cbn [items] in *.
  apply random_complete; auto. apply ds_filter, (q_ds _ _ R).
Qed.
