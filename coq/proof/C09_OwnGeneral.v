(* C09 — own_steps_never_stale in general (any plan, any number of peers): along the execution of a plan the
   C08 checker accepts, every heartbeat finds conf_ver(region) - conf_ver(operator) <= Operator.ConfVerChanged,
   so checkStaleOperator keeps the operator - provided no step of the plan lowers what an EARLIER step counts
   in ConfVerChanged (a plan that undoes its own steps is judged stale: witness in props/C09.v).
   Core: an applied step raises conf_ver by exactly its nominal amount and counts exactly that afterwards. *)
From Coq Require Import String.
From PDV Require Import lib.Base gen.Gen_C08 gen.Gen_C09 model.C08_Steps model.C08_Builder model.C09_OpCtl
     proof.C08_ListFacts proof.C08_StepSpec proof.C09_Skel proof.C09_CountProof proof.C09_StaleProof.
Local Open Scope list_scope.
Local Open Scope Z_scope.

Definition cvc_sum (r : region) (l : list step) : Z := fold_left (fun acc s => acc + conf_ver_changed r s) l 0.

Definition joint_lists_nonempty (s : step) : bool :=
  match s with
  | ChangePeerV2Enter pl dv | ChangePeerV2Leave pl dv => negb (Nat.eqb (length pl + length dv) 0)
  | _ => true
  end.
Definition wf_step (s : step) : bool := step_ids_nonzero s && joint_lists_nonempty s.

(* applying a step never lowers what an earlier (passed) step counts; applied steps name non-zero peer ids and,
   for joint steps, at least one peer *)
Fixpoint monotone_from (done : list step) (r : region) (ss : list step) : bool :=
  match ss with
  | [] => true
  | s :: rest =>
      match exec_step r s with
      | RSkip => monotone_from (done ++ [s]) r rest
      | RDone _ r' => wf_step s && forallb (fun x => conf_ver_changed r x <=? conf_ver_changed r' x) done && monotone_from (done ++ [s]) r' rest
      | _ => true
      end
  end.

(* what every heartbeat of the closed loop sees: cursor after `done`, current unfinished step s, region r *)
Fixpoint heartbeats_fine (cv0 : Z) (done : list step) (r : region) (ss : list step) : bool :=
  match ss with
  | [] => true
  | s :: rest =>
      match exec_step r s with
      | RSkip => heartbeats_fine cv0 (done ++ [s]) r rest
      | RDone _ r' => (conf_ver r - cv0 <=? cvc_sum r (done ++ [s])) && safe r s && heartbeats_fine cv0 (done ++ [s]) r' rest
      | _ => false
      end
  end.

(* ---------- sums ---------- *)
Lemma cvc_sum_from r l a : fold_left (fun acc s => acc + conf_ver_changed r s) l a = a + cvc_sum r l.
Proof.
  unfold cvc_sum. revert a. induction l as [|s l IH]; intros a; cbn [fold_left]; [lia|].
  rewrite IH, (IH (0 + conf_ver_changed r s)). lia.
Qed.

Lemma cvc_sum_snoc r l s : cvc_sum r (l ++ [s]) = cvc_sum r l + conf_ver_changed r s.
Proof. unfold cvc_sum at 1. rewrite fold_left_app. cbn [fold_left]. fold (cvc_sum r l). reflexivity. Qed.

Lemma cvc_sum_mono r r' l :
  forallb (fun x => conf_ver_changed r x <=? conf_ver_changed r' x) l = true -> cvc_sum r l <= cvc_sum r' l.
Proof.
  induction l as [|s l IH] using rev_ind; intros H; [unfold cvc_sum; cbn; lia|].
  rewrite forallb_app in H. apply andb_true_iff in H as [H1 H2]. cbn [forallb] in H2. rewrite andb_true_r in H2. apply Z.leb_le in H2.
  rewrite !cvc_sum_snoc. specialize (IH H1). lia.
Qed.

(* ---------- an applied step: conf_ver moves by its nominal amount, and the step counts that much afterwards ---------- *)
Lemma exec_done r s c r' : exec_step r s = RDone c r' ->
  is_finish r s = false /\ check_safety r s = None /\ cmd_of_step r s = Some c /\ apply_cmd r c = Some r'.
Proof.
  unfold exec_step. destruct (is_finish r s); [discriminate|]. destruct (check_safety r s); [discriminate|].
  destruct (cmd_of_step r s) as [c0|]; [|discriminate]. destruct (apply_cmd r c0) as [r1|] eqn:E; [|discriminate].
  intros H; inversion H; subst. auto.
Qed.

Lemma simple_change_cv r t p r' : apply_cmd r (CChangePeer t (Some p)) = Some r' -> conf_ver r' = conf_ver r + 1.
Proof.
  unfold apply_cmd. destruct (is_in_joint r); [discriminate|]. destruct (apply_change false (leader r) (peers r) (t, p)); [|discriminate].
  intros H; inversion H; subst. reflexivity.
Qed.

Lemma count_joint_pos r : is_in_joint r = true -> 0 < count_joint r.
Proof.
  unfold is_in_joint, count_joint. induction (peers r) as [|p l IH]; cbn [existsb filter]; [discriminate|].
  destruct (in_joint p); cbn [orb length]; [lia|exact IH].
Qed.

Lemma step_accounting r s c r' :
  ND (peers r) -> ND (peers r') -> wf_step s = true ->
  exec_step r s = RDone c r' -> is_finish r' s = true ->
  conf_ver r' = conf_ver r + nominal s /\ conf_ver_changed r' s = nominal s.
Proof.
  intros Hnd Hnd' Hwf He Hf. apply andb_true_iff in Hwf as [Hz Hne].
  destruct (exec_done _ _ _ _ He) as (Hnf & Hs & Hc & Ha).
  destruct s as [f t|st id|st id|st id|st id|st id|st id|st id|pl dv|pl dv|pa tr|fr];
    cbn [cmd_of_step nominal conf_ver_changed is_finish] in *.
  - (* transfer *) inversion Hc; subst c. unfold apply_cmd in Ha. destruct (get_store_peer r t) as [p|]; [|discriminate].
    destruct (get_store_peer r (pstore p)) as [q|]; [|discriminate]. destruct (negb (pid q =? pid p) || is_learner q); [discriminate|].
    inversion Ha; subst r'. cbn. split; [lia|reflexivity].
  - destruct (is_some (get_store_peer r st)); [discriminate|]. inversion Hc; subst c. split; [apply (simple_change_cv _ _ _ _ Ha)|].
    destruct (get_store_voter r' st) as [p|]; [|discriminate]. cbn [oid]. rewrite Hf. reflexivity.
  - destruct (is_some (get_store_peer r st)); [discriminate|]. inversion Hc; subst c. split; [apply (simple_change_cv _ _ _ _ Ha)|].
    destruct (get_store_learner r' st) as [p|] eqn:El; [|discriminate]. destruct (learner_some r' Hnd' _ _ El) as [Ep _].
    rewrite Ep. cbn [oid]. rewrite Hf. reflexivity.
  - destruct (is_some (get_store_peer r st)); [discriminate|]. inversion Hc; subst c. split; [apply (simple_change_cv _ _ _ _ Ha)|].
    destruct (get_store_voter r' st) as [p|]; [|discriminate]. cbn [oid]. rewrite Hf. reflexivity.
  - destruct (is_some (get_store_peer r st)); [discriminate|]. inversion Hc; subst c. split; [apply (simple_change_cv _ _ _ _ Ha)|].
    destruct (get_store_learner r' st) as [p|] eqn:El; [|discriminate]. destruct (learner_some r' Hnd' _ _ El) as [Ep _].
    rewrite Ep. cbn [oid]. rewrite Hf. reflexivity.
  - inversion Hc; subst c. split; [apply (simple_change_cv _ _ _ _ Ha)|].
    destruct (get_store_voter r' st) as [p|]; [|discriminate]. cbn [oid]. rewrite Hf. reflexivity.
  - inversion Hc; subst c. split; [apply (simple_change_cv _ _ _ _ Ha)|].
    destruct (get_store_learner r' st) as [p|]; [|discriminate]. cbn [oid]. rewrite Hf. reflexivity.
  - (* remove *) inversion Hc; subst c. destruct (get_store_peer r st) as [p|]; [|discriminate Ha].
    split; [apply (simple_change_cv _ _ _ _ Ha)|].
    destruct (get_store_peer r' st); [discriminate|]. reflexivity.
  - (* enter *) inversion Hc; subst c. cbn [joint_lists_nonempty] in Hne.
    assert (Hlen : length (v2_request pl dv) = (length pl + length dv)%nat) by (unfold v2_request; rewrite app_length, !map_length; reflexivity).
    split.
    + destruct (v2_request pl dv) as [|x cs] eqn:Ev.
      * cbn [length] in Hlen. rewrite <- Hlen in Hne. discriminate.
      * unfold apply_cmd in Ha. destruct (is_in_joint r); [discriminate|].
        destruct (apply_changes true (leader r) (peers r) (x :: cs)); [|discriminate].
        inversion Ha; subst r'. cbn [conf_ver set_peers]. rewrite <- Hlen. reflexivity.
    + match goal with |- (if ?c then _ else _) = _ => assert (Hc' : c = true); [|rewrite Hc'; reflexivity] end.
      apply andb_true_iff in Hf as [F1 F2]. rewrite forallb_forall in F1, F2.
      apply andb_true_iff; split; apply forallb_forall; intros x Hx.
      * specialize (F1 x Hx). cbn zeta in *. apply andb_true_iff in F1 as [A B].
        rewrite A. destruct (get_store_voter r' (fst x)) as [p|]; cbn [orole is_voter_or_incoming] in *; [|discriminate].
        destruct (prole p); try discriminate. reflexivity.
      * specialize (F2 x Hx). cbn zeta in *. apply andb_true_iff in F2 as [A B].
        rewrite A. destruct (get_store_voter r' (fst x)) as [p|]; cbn [orole is_some is_learner_or_demoting andb negb orb] in *; [|reflexivity].
        destruct (prole p); try discriminate. reflexivity.
  - (* leave *) inversion Hc; subst c. cbn [joint_lists_nonempty] in Hne. apply andb_true_iff in Hz as [Z1 Z2].
    unfold apply_cmd in Ha. destruct (is_in_joint r) eqn:Ej; cbn [negb] in Ha; [|discriminate].
    match type of Ha with (if ?c then _ else _) = _ => destruct c end; [discriminate|]. inversion Ha; subst r'. cbn [conf_ver set_peers].
    (* CheckSafety forces the region's joint peers to be exactly the step's entries *)
    assert (Hcount : count_joint r = Z.of_nat (length pl + length dv)).
    { pose proof (check_safety_sound r (ChangePeerV2Leave pl dv) Hnd) as X. cbn [step_ids_nonzero] in X.
      rewrite Z1, Z2 in X. specialize (X eq_refl Hs). cbn [spec_safe] in X.
      apply andb_true_iff in X as [_ X]. apply orb_true_iff in X as [X|X]; [apply orb_true_iff in X as [X|X]|].
      - destruct pl, dv; cbn in Hne; try discriminate X. discriminate Hne.
      - apply andb_true_iff in X as [_ X]. apply Z.eqb_eq in X. pose proof (count_joint_pos r Ej). lia.
      - apply andb_true_iff in X as [X _]. apply andb_true_iff in X as [_ X]. apply Z.eqb_eq in X. exact X. }
    split; [lia|].
    match goal with |- (if ?c then _ else _) = _ => assert (Hc' : c = true); [|rewrite Hc'; reflexivity] end.
    apply andb_true_iff in Hf as [Hf F3]. apply andb_true_iff in Hf as [F1 F2]. rewrite forallb_forall in F2.
    apply andb_true_iff; split; [exact F1|]. apply forallb_forall. intros x Hx.
    specialize (F2 x Hx). unfold dv_finished in F2. unfold dv_changed.
    destruct (get_store_learner _ (fst x)) as [p|]; [|discriminate]. cbn [oid]. rewrite F2. cbn. rewrite andb_false_r. reflexivity.
  - (* merge *) destruct pa; [discriminate|]. inversion Hc; subst c. cbn in Ha. inversion Ha; subst r'. cbn. split; [lia|reflexivity].
  - inversion Hc; subst c. cbn in Ha. inversion Ha; subst r'. cbn. split; [lia|reflexivity].
Qed.

(* ---------- the theorem ---------- *)
Lemma plan_check_cons g r s rest : plan_check g r (s :: rest) = None ->
  (exec_step r s = RSkip /\ plan_check g r rest = None)
  \/ exists c r', exec_step r s = RDone c r' /\ nodup_stores (peers r') = true /\ is_finish r' s = true /\ plan_check g r' rest = None.
Proof.
  cbn [plan_check]. destruct (exec_step r s) as [|e| |c|c r'] eqn:E; try discriminate.
  - intros H. left. auto.
  - intros H. right. exists c, r'. destruct (trans_violation g r r') eqn:Et; [discriminate|].
    destruct (is_finish r' s) eqn:Ef; cbn [negb] in H; [|discriminate]. repeat split; auto.
    unfold trans_violation in Et. destruct (negb (leader_kept r r')); [discriminate|]. destruct (negb (leader_to_valid r r')); [discriminate|].
    destruct (nodup_stores (peers r')); [reflexivity|discriminate].
Qed.

Theorem heartbeats_fine_general g : forall ss done r cv0,
  nodup_stores (peers r) = true ->
  plan_check g r ss = None -> monotone_from done r ss = true ->
  conf_ver r - cv0 <= cvc_sum r done ->
  heartbeats_fine cv0 done r ss = true.
Proof.
  induction ss as [|s rest IH]; intros done r cv0 Hnd Hpc Hmono Hinv; [reflexivity|].
  cbn [heartbeats_fine monotone_from] in *.
  pose proof (cvc_le_nominal r s) as [Hc0 _].
  destruct (plan_check_cons g r s rest Hpc) as [(E & Hrest)|(c & r' & E & Hnd' & Hf & Hrest)]; rewrite E in *.
  - apply IH; auto. rewrite cvc_sum_snoc. lia.
  - apply andb_true_iff in Hmono as [M1 M2]. apply andb_true_iff in M1 as [Hw M1].
    destruct (exec_done _ _ _ _ E) as (_ & Hs & _ & _).
    destruct (step_accounting r s c r' (proj1 (nodup_stores_ND _) Hnd) (proj1 (nodup_stores_ND _) Hnd') Hw E Hf) as [Acv Acc].
    apply andb_true_iff. split; [apply andb_true_iff; split|].
    + apply Z.leb_le. rewrite cvc_sum_snoc. lia.
    + unfold safe. rewrite Hs. reflexivity.
    + apply IH; auto. rewrite cvc_sum_snoc, Acc. pose proof (cvc_sum_mono r r' done M1). lia.
Qed.

(* ---------- what it means for the controller's stale test ---------- *)
Lemma check_stale_keeps c o s r :
  check_safety r s = None -> 0 <= conf_ver r - o_cv o -> conf_ver r - o_cv o <= op_conf_ver_changed o r ->
  check_stale c o s r = (c, false).
Proof.
  intros Hs H0 Hle. unfold check_stale. rewrite Hs. cbn [is_some].
  rewrite stale_cmp_ok.
  assert (Hm : (conf_ver r - o_cv o) mod two64 <= conf_ver r - o_cv o) by (apply Z.mod_le; [exact H0|reflexivity]).
  destruct ((op_conf_ver_changed o r) <? ((conf_ver r - o_cv o) mod two64)) eqn:E; [apply Z.ltb_lt in E; lia|reflexivity].
Qed.

(* Operator.ConfVerChanged of an operator whose cursor stands on the step after `done` *)
Lemma op_cvc_is_sum o r done s rest :
  o_steps o = done ++ s :: rest -> o_cur o = length done -> op_conf_ver_changed o r = cvc_sum r (done ++ [s]).
Proof.
  intros Hst Hcur. unfold op_conf_ver_changed, cvc_sum. rewrite Hst, Hcur.
  assert (E : Nat.eqb (length done) (length (done ++ s :: rest)) = false).
  { apply Nat.eqb_neq. rewrite app_length. cbn [length]. lia. }
  rewrite E. f_equal.
  replace (done ++ s :: rest) with ((done ++ [s]) ++ rest) by (rewrite <- app_assoc; reflexivity).
  replace (S (length done)) with (length (done ++ [s]) + 0)%nat by (rewrite app_length; cbn; lia).
  rewrite firstn_app_2. cbn [firstn]. rewrite app_nil_r. reflexivity.
Qed.
