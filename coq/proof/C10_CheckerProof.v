(* C10 — proofs about the set-valued checker model (model/C10_Checker.v).
   Every statement quantifies over ALL inputs: cluster (any list of stores with any combination of the
   predicates the filters read and any labels), region, configuration, rule fit. *)
From PDV Require Import lib.C10_Cluster gen.Gen_C10 model.C10_Checker proof.C10_Tables.
Local Open Scope list_scope.
Local Open Scope Z_scope.

(* ---------- what passing the two StoreStateFilter values of SelectStoreToAdd means ---------- *)
Lemma first_filter_facts s :
  sft Gen_C10.sel_add_first_flags s = true ->
  cond_raw isTombstone s = false /\ cond_raw isOffline s = false /\ cond_raw isDown s = false.
Proof.
  intros H. unfold sft in H.
  repeat split; eapply sf_target_excludes;
    try exact H; try exact region_target_row; try exact first_flags_guards;
    try exact rt_tombstone; try exact rt_offline; try exact rt_down;
    apply first_keeps; cbn; tauto.
Qed.

Lemma strict_filter_facts s :
  sft Gen_C10.sel_add_strict_flags s = true ->
  cond_raw isTombstone s = false /\ cond_raw isOffline s = false /\ cond_raw isDown s = false /\
  cond_raw isDisconnected s = false /\ cond_raw isBusy s = false /\ cond_raw exceedAddLimit s = false /\
  cond_raw tooManySnapshots s = false /\ cond_raw tooManyPendingPeers s = false.
Proof.
  intros H. unfold sft in H.
  repeat split; eapply sf_target_excludes;
    try exact H; try exact region_target_row; try exact strict_flags_guards;
    try exact rt_tombstone; try exact rt_offline; try exact rt_down; try exact rt_disconnected; try exact rt_busy;
    try exact rt_add_limit; try exact rt_snapshots; try exact rt_pending;
    apply strict_keeps.
Qed.

(* ---------- add_target_good ---------- *)
Record good_target (stg : strategy) (stores : list store) (r : region) (coloc : list store) (extra : store -> bool) (s : store) : Prop := {
  gt_known : In s stores;
  gt_up : sst s = SUp;                         (* neither offline nor tombstone *)
  gt_not_down : s_down s = false;
  gt_connected : s_disc s = false;
  gt_not_busy : s_busy s = false;
  gt_space : s_low s = false;
  gt_fresh : ~ In (sid s) (stores_of (peers r));  (* holds no peer of the region *)
  gt_ordinary : special_use s = false;
  gt_isolation : st_labels stg <> [] -> st_iso stg <> 0 -> isolation_pass (st_labels stg) (st_iso stg) coloc s = true;
  gt_constraints : st_extra stg s = true;      (* the rule's label constraints *)
  gt_extra : extra s = true;                   (* the location improver, when given *)
  gt_limits : s_noadd s = false /\ s_snap s = false /\ s_pend s = false
}.

Theorem add_target_good stg stores r coloc extra s :
  In s (select_to_add stg stores r coloc extra) -> good_target stg stores r coloc extra s.
Proof.
  unfold select_to_add. intros H.
  apply filter_In in H as [H Hstrict]. apply filter_In in H as [H _]. apply filter_In in H as [Hin Hf].
  unfold first_filters in Hf.
  repeat (apply andb_true_iff in Hf as [Hf ?]).
  rename H into Hstx, H0 into Hext, H1 into Hiso, H2 into Hfirst, H3 into Hsp, H4 into Hlow.
  destruct (strict_filter_facts s Hstrict) as (T & O & D & Dc & B & A & Sn & Pe).
  cbn [cond_raw] in *.
  constructor; auto.
  - destruct (sst s); try discriminate; reflexivity.
  - apply negb_true_iff in Hlow. exact Hlow.
  - apply negb_true_iff in Hf. intros Hin2. apply memZ_In in Hin2. congruence.
  - apply negb_true_iff in Hsp. exact Hsp.
  - intros Hl Hi. destruct (st_labels stg) eqn:El; [contradiction|].
    destruct (st_iso stg =? 0) eqn:Ei; [apply Z.eqb_eq in Ei; contradiction|]. exact Hiso.
Qed.

(* ---------- the cascade ---------- *)
Lemma cascade_Forall (P : res -> Prop) stages :
  P None -> Forall (Forall P) stages -> Forall P (cascade stages).
Proof.
  intros HN. induction stages as [|s rest IH]; intros H; cbn [cascade].
  - constructor; [exact HN|constructor].
  - inversion H as [|? ? Hs Hr]; subst. apply Forall_flat_map. eapply Forall_impl; [|exact Hs].
    intros [x|] Hx; [constructor; [exact Hx|constructor]|]. apply IH. exact Hr.
Qed.

Lemma cascade_None s rest : In None (cascade (s :: rest)) -> In None s /\ In None (cascade rest).
Proof.
  cbn [cascade]. intros H. apply in_flat_map in H as (x & Hx & H). destruct x as [x|].
  - cbn in H. destruct H as [H|[]]. discriminate.
  - split; [exact Hx|exact H].
Qed.

Lemma cascade_nonempty stages : Forall (fun s => s <> []) stages -> cascade stages <> [].
Proof.
  induction stages as [|s rest IH]; intros H; cbn [cascade]; [discriminate|].
  inversion H as [|? ? Hs Hr]; subst. destruct s as [|x s]; [contradiction|].
  cbn [flat_map]. destruct x as [x|]; [discriminate|].
  intros E. apply app_eq_nil in E as [E _]. exact (IH Hr E).
Qed.

Lemma guard_op_some ok st o st' o' : guard_op ok st o = Some (st', o') -> ok = true /\ st = st' /\ o = o'.
Proof. unfold guard_op. destruct ok; [|discriminate]. intros H; inversion H; auto. Qed.

(* ---------- what every result of the replica checker satisfies ---------- *)
Definition target_selected (inp : input) (t : Z) : Prop :=
  exists stg coloc extra s, In s (select_to_add stg (i_stores inp) (i_region inp) coloc extra) /\ sid s = t.

Definition replica_res_ok (inp : input) (x : res) : Prop :=
  match x with
  | Some (_, AAdd t lrn) => target_selected inp t /\ lrn = false
  | Some (_, AReplace old t lrn) => target_selected inp t /\ In old (stores_of (peers (i_region inp))) /\ lrn = false
  | Some (_, ARemove s) => max_replicas (i_cfg inp) < voter_count (i_region inp) /\ In s (stores_of (peers (i_region inp)))
  | _ => True
  end.

Lemma replace_feasible_old inp old new l : replace_feasible inp old new l = true -> In old (stores_of (peers (i_region inp))).
Proof.
  unfold replace_feasible. intros H. repeat (apply andb_true_iff in H as [H ?]). apply memZ_In. assumption.
Qed.
Lemma remove_feasible_in inp st : remove_feasible inp st = true -> In st (stores_of (peers (i_region inp))).
Proof.
  unfold remove_feasible. intros H. repeat (apply andb_true_iff in H as [H ?]). apply memZ_In. assumption.
Qed.

Lemma fix_peer_ok inp st s1 s2 : Forall (replica_res_ok inp) (fix_peer inp st s1 s2).
Proof.
  unfold fix_peer. destruct fix_peer_op_ok as [Eop _]. rewrite Eop. cbn [cmp_eval].
  destruct (max_replicas (i_cfg inp) <? voter_count (i_region inp)) eqn:E.
  - constructor; [|constructor]. destruct (guard_op _ _ _) as [[st' o]|] eqn:G; [|exact I].
    apply guard_op_some in G as (G & _ & <-). cbn. split; [apply Z.ltb_lt; exact E|apply remove_feasible_in; exact G].
  - destruct (select_to_fix _ _ _ _ _) as [|t ts] eqn:Es; [constructor; [exact I|constructor]|].
    apply Forall_forall. intros x Hx. apply in_map_iff in Hx as (t' & <- & Ht).
    destruct (guard_op _ _ _) as [[st' o]|] eqn:G; [|exact I].
    apply guard_op_some in G as (G & _ & <-). cbn. repeat split.
    + unfold select_to_fix in Es. do 4 eexists. split; [rewrite Es; exact Ht|reflexivity].
    + eapply replace_feasible_old; exact G.
Qed.

Lemma check_down_ok inp ds : Forall (replica_res_ok inp) (check_down inp ds).
Proof.
  induction ds as [|[p secs] rest IH]; cbn [check_down]; [constructor; [exact I|constructor]|].
  destruct (find_store _ _); [|constructor; [exact I|constructor]].
  destruct (s_down s && secs); [apply fix_peer_ok|exact IH].
Qed.

Lemma check_offline_ok inp ps : Forall (replica_res_ok inp) (check_offline inp ps).
Proof.
  induction ps as [|p rest IH]; cbn [check_offline]; [constructor; [exact I|constructor]|].
  destruct (find_store _ _); [|constructor; [exact I|constructor]].
  destruct (is_up s); [exact IH|apply fix_peer_ok].
Qed.

Ltac none_case := constructor; [exact I|constructor].

Lemma replica_stage_ok inp name : Forall (replica_res_ok inp) (run_replica_stage inp name).
Proof.
  unfold run_replica_stage.
  destruct (String.eqb name "checkDownPeer").
  { destruct (en_remove_down _); [apply check_down_ok|none_case]. }
  destruct (String.eqb name "checkOfflinePeer").
  { destruct (en_replace_offline _); [|none_case]. destruct (filter is_learner _); [apply check_offline_ok|none_case]. }
  destruct (String.eqb name "checkMakeUpReplica").
  { destruct (en_make_up _); [|none_case]. destruct (cmp_eval _ _ _); [none_case|].
    destruct (select_to_add _ _ _ _ _) as [|t ts] eqn:Es; [none_case|].
    apply Forall_forall. intros x Hx. apply in_map_iff in Hx as (t' & <- & Ht).
    destruct (guard_op _ _ _) as [[st' o]|] eqn:G; [|exact I].
    apply guard_op_some in G as (G & _ & <-). cbn. split; [|reflexivity].
    do 4 eexists. split; [rewrite Es; exact Ht|reflexivity]. }
  destruct (String.eqb name "checkRemoveExtraReplica").
  { destruct (en_remove_extra _); [|none_case].
    destruct remove_extra_op_ok as [Eop _]. rewrite Eop. cbn [cmp_eval].
    destruct (voter_count (i_region inp) <=? max_replicas (i_cfg inp)) eqn:E; [none_case|].
    destruct (select_to_remove _ _) as [|o os]; [none_case|].
    apply Forall_forall. intros x Hx. apply in_map_iff in Hx as (o' & <- & Ho).
    destruct (guard_op _ _ _) as [[st' a]|] eqn:G; [|exact I].
    apply guard_op_some in G as (G & _ & <-). cbn. split; [apply Z.leb_gt in E; lia|apply remove_feasible_in; exact G]. }
  destruct (String.eqb name "checkLocationReplacement").
  { destruct (en_location _); [|none_case].
    destruct (select_to_remove _ _) as [|o os]; [none_case|].
    apply Forall_flat_map. apply Forall_forall. intros o' Ho.
    destruct (select_to_improve _ _ _ _ _) as [|t ts] eqn:Es; [none_case|].
    apply Forall_forall. intros x Hx. apply in_map_iff in Hx as (t' & <- & Ht).
    destruct (guard_op _ _ _) as [[st' a]|] eqn:G; [|exact I].
    apply guard_op_some in G as (G & _ & <-). cbn. repeat split.
    - unfold select_to_improve in Es. do 4 eexists. split; [rewrite Es; exact Ht|reflexivity].
    - eapply replace_feasible_old; exact G. }
  constructor; [exact I|constructor].
Qed.

Theorem replica_check_ok inp : Forall (replica_res_ok inp) (replica_check inp).
Proof.
  unfold replica_check. apply cascade_Forall; [exact I|].
  apply Forall_forall. intros s Hs. apply in_map_iff in Hs as (name & <- & _). apply replica_stage_ok.
Qed.

(* ---------- what every result of the rule checker satisfies ---------- *)
Definition rule_res_ok (inp : input) (x : res) : Prop :=
  match x with
  | Some (_, AAdd t _) => target_selected inp t
  | Some (_, AReplace old t _) => target_selected inp t /\ In old (stores_of (peers (i_region inp)))
  | Some (_, ARemove s) =>
      (exists o rest, fit_orphans (i_fit inp) = o :: rest /\ p_store o = s)
      /\ forallb rf_satisfied (fit_rules (i_fit inp)) = true
      /\ In s (stores_of (peers (i_region inp)))
  | _ => True
  end.

Lemma rule_replace_ok inp rf p st : Forall (rule_res_ok inp) (rule_replace inp rf p st).
Proof.
  unfold rule_replace. destruct (select_to_fix _ _ _ _ _) as [|t ts] eqn:Es; [none_case|].
  apply Forall_forall. intros x Hx. apply in_map_iff in Hx as (t' & <- & Ht).
  destruct (guard_op _ _ _) as [[st' a]|] eqn:G; [|exact I].
  apply guard_op_some in G as (G & _ & <-). cbn. split.
  - unfold select_to_fix in Es. do 4 eexists. split; [rewrite Es; exact Ht|reflexivity].
  - eapply replace_feasible_old; exact G.
Qed.

Lemma better_location_ok inp rf : Forall (rule_res_ok inp) (better_location inp rf).
Proof.
  unfold better_location. destruct (ru_labels _); [none_case|]. destruct (ru_count _ <=? 1); [none_case|].
  destruct (select_to_remove _ _) as [|o os]; [none_case|].
  apply Forall_flat_map. apply Forall_forall. intros o' Ho.
  destruct (select_to_improve _ _ _ _ _) as [|t ts] eqn:Es; [none_case|].
  apply Forall_forall. intros x Hx. apply in_map_iff in Hx as (t' & <- & Ht).
  destruct (guard_op _ _ _) as [[st' a]|] eqn:G; [|exact I].
  apply guard_op_some in G as (G & _ & <-). cbn. split.
  - unfold select_to_improve in Es. do 4 eexists. split; [rewrite Es; exact Ht|reflexivity].
  - eapply replace_feasible_old; exact G.
Qed.

Lemma loose_loop_ok inp rf ps : Forall (rule_res_ok inp) (loose_loop inp rf ps).
Proof.
  induction ps as [|p rest IH]; cbn [loose_loop]; [apply better_location_ok|].
  destruct (fix_loose inp rf p) as [[st o]| |] eqn:E; [|none_case|exact IH].
  constructor; [|constructor]. unfold fix_loose in E.
  destruct (leader (i_region inp)); [|discriminate].
  repeat match type of E with
  | (if ?c then _ else _) = _ => destruct c
  | match ?c with _ => _ end = _ => destruct c
  end; inversion E; subst; exact I.
Qed.

Lemma fix_rule_peer_ok inp rf : Forall (rule_res_ok inp) (fix_rule_peer inp rf).
Proof.
  unfold fix_rule_peer. destruct (_ <? _).
  - destruct (select_to_add _ _ _ _ _) as [|t ts] eqn:Es; [none_case|].
    apply Forall_forall. intros x Hx. apply in_map_iff in Hx as (t' & <- & Ht).
    destruct (guard_op _ _ _) as [[st' a]|] eqn:G; [|exact I].
    apply guard_op_some in G as (G & _ & <-). cbn.
    do 4 eexists. split; [rewrite Es; exact Ht|reflexivity].
  - destruct (first_unexpected _ _) as [[p st]|]; [apply rule_replace_ok|].
    apply loose_loop_ok.
Qed.

Lemma fix_orphan_ok inp : Forall (rule_res_ok inp) (fix_orphan inp).
Proof.
  unfold fix_orphan. destruct (fit_orphans _) as [|o rest] eqn:Eo; [none_case|].
  destruct (forallb rf_satisfied _) eqn:Es; [|none_case].
  constructor; [|constructor]. destruct (guard_op _ _ _) as [[st' a]|] eqn:G; [|exact I].
  apply guard_op_some in G as (G & _ & <-). cbn. repeat split.
  - exists o, rest. split; [exact Eo|reflexivity].
  - exact Es.
  - apply remove_feasible_in; exact G.
Qed.

Theorem rule_check_ok inp : Forall (rule_res_ok inp) (rule_check inp).
Proof.
  unfold rule_check. destruct (fit_rules (i_fit inp)) as [|rf rfs] eqn:E.
  - destruct (_ && _); (constructor; [exact I|constructor]).
  - apply cascade_Forall; [exact I|]. constructor; [apply fix_orphan_ok|].
    apply Forall_forall. intros s Hs. apply in_map_iff in Hs as (rf' & <- & _). apply fix_rule_peer_ok.
Qed.

(* ---------- CheckerController.CheckRegion ---------- *)
Lemma then_Forall (P : res -> Prop) a b : Forall P a -> Forall P b -> Forall P (then_ a b).
Proof.
  intros Ha Hb. unfold then_. apply Forall_flat_map. eapply Forall_impl; [|exact Ha].
  intros [x|] Hx; [constructor; [exact Hx|constructor]|exact Hb].
Qed.

Definition any_res_ok (inp : input) (x : res) : Prop := replica_res_ok inp x \/ rule_res_ok inp x.

Lemma merge_stage_ok inp : Forall (any_res_ok inp) (merge_stage inp).
Proof.
  unfold merge_stage. destruct (merge_ready inp); [|constructor; [left; exact I|constructor]].
  destruct (merge_target inp) as [t|]; [|constructor; [left; exact I|constructor]].
  destruct (_ <? _); [constructor; [left; exact I|constructor]|].
  destruct (_ || _); [constructor; [left; exact I|constructor]|].
  destruct (region_match _ _); repeat (constructor; try (left; exact I)).
Qed.

Theorem controller_check_ok inp : Forall (any_res_ok inp) (controller_check inp).
Proof.
  unfold controller_check. apply then_Forall.
  - unfold joint_stage. destruct (_ && _); (constructor; [left; exact I|constructor]).
  - apply then_Forall; [|apply merge_stage_ok].
    destruct (rules_enabled (i_cfg inp)).
    + eapply Forall_impl; [|apply rule_check_ok]. intros x Hx; right; exact Hx.
    + apply then_Forall.
      * unfold learner_stage. destruct (filter _ _); [constructor; [left; exact I|constructor]|].
        destruct (region_ok inp); (constructor; [left; exact I|constructor]).
      * eapply Forall_impl; [|apply replica_check_ok]. intros x Hx; left; exact Hx.
Qed.

(* ---------- the statement-level corollaries ---------- *)
(* every store an admissible operator adds a peer on is a good target *)
Theorem checker_targets_good inp st t :
  (exists lrn, In (Some (st, AAdd t lrn)) (model_check inp)) \/ (exists old lrn, In (Some (st, AReplace old t lrn)) (model_check inp)) ->
  exists stg coloc extra s, sid s = t /\ good_target stg (i_stores inp) (i_region inp) coloc extra s.
Proof.
  intros H.
  assert (T : target_selected inp t).
  { unfold model_check in H. destruct (i_entry inp).
    - pose proof (replica_check_ok inp) as F. rewrite Forall_forall in F.
      destruct H as [(lrn & H)|(old & lrn & H)]; specialize (F _ H); cbn in F; tauto.
    - pose proof (rule_check_ok inp) as F. rewrite Forall_forall in F.
      destruct H as [(lrn & H)|(old & lrn & H)]; specialize (F _ H); cbn in F; tauto.
    - pose proof (controller_check_ok inp) as F. rewrite Forall_forall in F.
      destruct H as [(lrn & H)|(old & lrn & H)]; specialize (F _ H); destruct F as [F|F]; cbn in F; tauto. }
  destruct T as (stg & coloc & extra & s & Hs & <-).
  exists stg, coloc, extra, s. split; [reflexivity|]. apply add_target_good. exact Hs.
Qed.

(* the peer count is lowered only with a surplus of voters (replica checker) ... *)
Theorem replica_removes_only_surplus inp st s :
  In (Some (st, ARemove s)) (replica_check inp) -> max_replicas (i_cfg inp) < voter_count (i_region inp).
Proof.
  intros H. pose proof (replica_check_ok inp) as F. rewrite Forall_forall in F. specialize (F _ H). cbn in F. tauto.
Qed.

(* ... or when every rule is satisfied and the peer is the (first) orphan (rule checker) *)
Theorem rule_removes_only_orphans inp st s :
  In (Some (st, ARemove s)) (rule_check inp) ->
  (exists o rest, fit_orphans (i_fit inp) = o :: rest /\ p_store o = s) /\ forallb rf_satisfied (fit_rules (i_fit inp)) = true.
Proof.
  intros H. pose proof (rule_check_ok inp) as F. rewrite Forall_forall in F. specialize (F _ H). cbn in F. tauto.
Qed.

(* ... and when the fit is a partition of the peers (fit_wf, judged by the monitor on every case) the removed orphan is held by no rule *)
Lemma nodup_app_disjoint (a b : list Z) x : NoDup (a ++ b) -> In x a -> In x b -> False.
Proof.
  induction a as [|y a IH]; cbn; intros N Ha Hb; [contradiction|].
  inversion N as [|? ? Hn N']; subst. destruct Ha as [->|Ha].
  - apply Hn. apply in_or_app. right. exact Hb.
  - exact (IH N' Ha Hb).
Qed.

Theorem rule_removal_not_held inp st s :
  fit_wf (i_region inp) (i_fit inp) = true ->
  In (Some (st, ARemove s)) (rule_check inp) ->
  exists o, In o (fit_orphans (i_fit inp)) /\ p_store o = s /\
            forall rf, In rf (fit_rules (i_fit inp)) -> ~ In (p_id o) (map p_id (rf_peers rf)).
Proof.
  intros W H. destruct (rule_removes_only_orphans _ _ _ H) as [(o & rest & E & Hs) _].
  exists o. split; [rewrite E; left; reflexivity|]. split; [exact Hs|].
  intros rf Hrf Hin. unfold fit_wf in W. apply andb_prop in W as [W _]. apply andb_prop in W as [W _].
  apply nodupZb_NoDup in W. unfold fit_ids in W.
  apply (nodup_app_disjoint _ _ (p_id o) W).
  - apply in_flat_map. exists rf. split; assumption.
  - rewrite E. left. reflexivity.
Qed.

(* the monitor judges the fit first: a silent monitor on a rule-checker case means the fit it was given is a partition, so the
   hypothesis of rule_removal_not_held is one the check establishes on every case *)
Lemma monitor_silent_fit_wf c :
  monitor c = None -> fit_judged (fst c) = true -> fit_wf (i_region (fst c)) (i_fit (fst c)) = true.
Proof.
  unfold monitor. intros H J. rewrite J in H. cbn in H.
  destruct (fit_wf (i_region (fst c)) (i_fit (fst c))); [reflexivity|discriminate].
Qed.

Theorem monitor_silent_removal_not_held inp impl st s :
  monitor (inp, impl) = None -> fit_judged inp = true ->
  In (Some (st, ARemove s)) (rule_check inp) ->
  exists o, In o (fit_orphans (i_fit inp)) /\ p_store o = s /\
            forall rf, In rf (fit_rules (i_fit inp)) -> ~ In (p_id o) (map p_id (rf_peers rf)).
Proof.
  intros M J H. apply (rule_removal_not_held inp st s); [|exact H].
  exact (monitor_silent_fit_wf (inp, impl) M J).
Qed.

(* through CheckRegion: one of the two justifications *)
Theorem controller_removes_only_justified inp st s :
  In (Some (st, ARemove s)) (controller_check inp) ->
  max_replicas (i_cfg inp) < voter_count (i_region inp)
  \/ ((exists o rest, fit_orphans (i_fit inp) = o :: rest /\ p_store o = s) /\ forallb rf_satisfied (fit_rules (i_fit inp)) = true).
Proof.
  intros H. pose proof (controller_check_ok inp) as F. rewrite Forall_forall in F. specialize (F _ H).
  destruct F as [F|F]; cbn in F; tauto.
Qed.

(* a merge is proposed only when the merge checker is active, the region is small, healthy, fully replicated and not hot, the
   chosen neighbour is adjacent / mergeable, healthy, fully replicated, not hot and not too large, neither is in a joint state,
   and no checker in front of it had anything to repair (each of them admits "no operator") *)
Lemma then_in_some a b x : In (Some x) (then_ a b) -> In (Some x) a \/ (In None a /\ In (Some x) b).
Proof.
  unfold then_. intros H. apply in_flat_map in H as (y & Hy & H). destruct y as [y|].
  - cbn in H. destruct H as [H|[]]. left. rewrite <- H. exact Hy.
  - right. split; assumption.
Qed.

Lemma merge_stage_some inp o :
  In (Some (StMerge, o)) (merge_stage inp) ->
  merge_ready inp = true /\ exists t, merge_target inp = Some t /\ n_size t <= max_target_region_size
    /\ in_joint (peers (i_region inp)) = false /\ in_joint (n_peers t) = false.
Proof.
  unfold merge_stage. destruct (merge_ready inp); [|cbn; intros [H|[]]; discriminate].
  destruct (merge_target inp) as [t|]; [|cbn; intros [H|[]]; discriminate].
  destruct (max_target_region_size <? n_size t) eqn:E1; [cbn; intros [H|[]]; discriminate|].
  destruct (in_joint (peers (i_region inp)) || in_joint (n_peers t)) eqn:E2; [cbn; intros [H|[]]; discriminate|].
  intros _. split; [reflexivity|]. exists t. apply orb_false_iff in E2 as [J1 J2]. apply Z.ltb_ge in E1.
  repeat split; assumption.
Qed.

Lemma merge_target_ok_in inp t : merge_target inp = Some t -> merge_target_ok inp t = true.
Proof.
  unfold merge_target.
  set (t1 := match me_next (i_menv inp) with
             | Some n => if merge_target_ok inp n then Some n else None
             | None => None end).
  assert (T1 : forall x, t1 = Some x -> merge_target_ok inp x = true).
  { unfold t1. intros x. destruct (me_next (i_menv inp)) as [n|]; [|discriminate].
    destruct (merge_target_ok inp n) eqn:E; [|discriminate]. intros H; inversion H; subst; exact E. }
  destruct (me_prev (i_menv inp)) as [p|]; [|apply T1].
  destruct (negb (me_one_way (i_menv inp)) && merge_target_ok inp p) eqn:Ep; [|apply T1].
  apply andb_true_iff in Ep as [_ Ep].
  destruct t1 as [x|] eqn:Et.
  - destruct (me_next (i_menv inp)) as [n|].
    + destruct (n_size p <? n_size n); intros H; inversion H; subst; [exact Ep|apply T1; reflexivity].
    + intros H; inversion H; subst; exact Ep.
  - intros H; inversion H; subst; exact Ep.
Qed.

Definition front_check (inp : input) : list res :=
  if rules_enabled (i_cfg inp) then rule_check inp else then_ (learner_stage inp) (replica_check inp).

(* where an operator of CheckRegion comes from: the merge checker speaks only when the joint-state checker AND the repair
   checkers in front of it allow "no operator" *)
Theorem controller_origin inp x :
  In (Some x) (controller_check inp) ->
  In (Some x) (joint_stage inp)
  \/ (In None (joint_stage inp) /\ (In (Some x) (front_check inp) \/ (In None (front_check inp) /\ In (Some x) (merge_stage inp)))).
Proof.
  unfold controller_check. intros H. apply then_in_some in H as [H|[HN H]]; [left; exact H|right].
  split; [exact HN|]. apply then_in_some in H as [H|[HN2 H]]; [left; exact H|right; split; assumption].
Qed.

Theorem merge_only_when_settled inp o :
  In (Some (StMerge, o)) (merge_stage inp) ->
  me_on (i_menv inp) = true /\ region_healthy inp = true /\ region_replicated inp = true /\ me_hot (i_menv inp) = false
  /\ exists t, merge_target inp = Some t /\ merge_target_ok inp t = true /\ n_size t <= max_target_region_size
     /\ in_joint (peers (i_region inp)) = false /\ in_joint (n_peers t) = false.
Proof.
  intros H. apply merge_stage_some in H as (R & t & Ht & Hs & J1 & J2).
  unfold merge_ready in R. repeat (apply andb_true_iff in R as [R ?]).
  repeat split; try assumption.
  - apply negb_true_iff. assumption.
  - exists t. repeat split; try assumption. apply merge_target_ok_in. exact Ht.
Qed.

(* the replica checker proposes nothing but add / remove / replace of a region store *)
Theorem replica_replace_old_in_region inp st old t lrn :
  In (Some (st, AReplace old t lrn)) (replica_check inp) -> In old (stores_of (peers (i_region inp))) /\ lrn = false.
Proof.
  intros H. pose proof (replica_check_ok inp) as F. rewrite Forall_forall in F. specialize (F _ H). cbn in F. tauto.
Qed.

(* ---------- repair_proposed_when_possible ---------- *)
Lemma stage_nonempty_fix inp st a b : fix_peer inp st a b <> [].
Proof.
  unfold fix_peer. destruct (cmp_eval _ _ _); [discriminate|]. destruct (select_to_fix _ _ _ _ _); discriminate.
Qed.
Lemma check_down_nonempty inp ds : check_down inp ds <> [].
Proof.
  induction ds as [|[p secs] rest IH]; cbn [check_down]; [discriminate|].
  destruct (find_store _ _); [|discriminate]. destruct (s_down s && secs); [apply stage_nonempty_fix|exact IH].
Qed.
Lemma check_offline_nonempty inp ps : check_offline inp ps <> [].
Proof.
  induction ps as [|p rest IH]; cbn [check_offline]; [discriminate|].
  destruct (find_store _ _); [|discriminate]. destruct (is_up s); [exact IH|apply stage_nonempty_fix].
Qed.

Lemma flat_map_nonempty {A B} (f : A -> list B) a l : f a <> [] -> flat_map f (a :: l) <> [].
Proof. cbn. intros H E. apply app_eq_nil in E as [E _]. contradiction. Qed.

Lemma replica_stage_nonempty inp name : run_replica_stage inp name <> [].
Proof.
  unfold run_replica_stage.
  destruct (String.eqb name "checkDownPeer").
  { destruct (en_remove_down _); [apply check_down_nonempty|discriminate]. }
  destruct (String.eqb name "checkOfflinePeer").
  { destruct (en_replace_offline _); [|discriminate]. destruct (filter is_learner _); [apply check_offline_nonempty|discriminate]. }
  destruct (String.eqb name "checkMakeUpReplica").
  { destruct (en_make_up _); [|discriminate]. destruct (cmp_eval _ _ _); [discriminate|]. destruct (select_to_add _ _ _ _ _); discriminate. }
  destruct (String.eqb name "checkRemoveExtraReplica").
  { destruct (en_remove_extra _); [|discriminate]. destruct (cmp_eval _ _ _); [discriminate|]. destruct (select_to_remove _ _); discriminate. }
  destruct (String.eqb name "checkLocationReplacement").
  { destruct (en_location _); [|discriminate]. destruct (select_to_remove _ _) as [|o os]; [discriminate|].
    apply flat_map_nonempty. destruct (select_to_improve _ _ _ _ _); discriminate. }
  discriminate.
Qed.

Lemma replica_check_nonempty inp : replica_check inp <> [].
Proof.
  unfold replica_check. apply cascade_nonempty. apply Forall_forall. intros s Hs.
  apply in_map_iff in Hs as (name & <- & _). apply replica_stage_nonempty.
Qed.

(* a region with fewer peers than max-replicas for which SelectStoreToAdd has a candidate always gets an
   operator: no admissible answer of the model is "none" (whatever the earlier stages of the cascade do) *)
Theorem repair_proposed_when_possible inp :
  i_entry inp = EReplica ->
  repair_required inp = true ->
  (forall s, In s (i_stores inp) -> sid s <> 0) ->
  ~ In None (replica_check inp) /\ replica_check inp <> [].
Proof.
  intros He Hr Hids. split; [|apply replica_check_nonempty].
  unfold repair_required, eff_entry in Hr. rewrite He in Hr.
  apply andb_true_iff in Hr as [Hr Hsel]. apply andb_true_iff in Hr as [Hr Hcnt]. apply andb_true_iff in Hr as [Hen Hok].
  unfold replica_check. rewrite replica_order_ok. cbn [map].
  intros HN.
  apply cascade_None in HN as [_ HN]. apply cascade_None in HN as [_ HN]. apply cascade_None in HN as [HN _].
  change (run_replica_stage inp "checkMakeUpReplica") with
    (if en_make_up (i_cfg inp) then
       if cmp_eval Gen_C10.make_up_skip_op (peer_count (i_region inp)) (max_replicas (i_cfg inp)) then [None]
       else match select_to_add (replica_strategy (i_cfg inp)) (i_stores inp) (i_region inp) (region_stores (i_stores inp) (i_region inp)) (fun _ => true) with
            | [] => [None]
            | ts => map (fun t => guard_op (add_feasible inp (sid t)) StMakeUp (AAdd (sid t) false)) ts
            end
     else [None]) in HN.
  rewrite Hen in HN. destruct make_up_op_ok as [Eop _]. rewrite Eop in HN. cbn [cmp_eval] in HN.
  apply Z.ltb_lt in Hcnt.
  destruct (max_replicas (i_cfg inp) <=? peer_count (i_region inp)) eqn:E; [apply Z.leb_le in E; lia|].
  destruct (select_to_add _ _ _ _ _) as [|t ts] eqn:Es; [discriminate|].
  apply in_map_iff in HN as (t' & G & Ht).
  assert (Hg : good_target (replica_strategy (i_cfg inp)) (i_stores inp) (i_region inp)
                 (region_stores (i_stores inp) (i_region inp)) (fun _ => true) t').
  { apply add_target_good. rewrite Es. exact Ht. }
  unfold guard_op in G. destruct (add_feasible inp (sid t')) eqn:F; [discriminate|].
  unfold add_feasible in F. rewrite Hok in F. cbn [andb] in F.
  destruct Hg. apply andb_false_iff in F as [F|F].
  - apply negb_false_iff in F. apply Z.eqb_eq in F. exact (Hids _ gt_known0 F).
  - apply negb_false_iff in F. apply memZ_In in F. contradiction.
Qed.

(* non-vacuity: a cluster on which the hypotheses hold and the model demands "add a peer on store 4" *)
Definition ex_store (id z : Z) : store := Store id SUp false false false false false false false false false false [(1, (z, 0))].
Definition ex_input : input :=
  Input (Config 3 [1] 1 true true true true true false true [])
        [ex_store 1 10; ex_store 2 11; ex_store 3 10; ex_store 4 12]
        (Region [Peer 101 1 Voter; Peer 102 2 Voter] (Some (Peer 101 1 Voter)) [] [])
        (Fit [] []) EReplica (MEnv false 0 false false false false None None).
Example repair_example :
  repair_required ex_input = true /\ replica_check ex_input = [Some (StMakeUp, AAdd 4 false)].
Proof. split; vm_compute; reflexivity. Qed.

(* ---------- the same for the rule checker ---------- *)
Lemma cascade_None_all stages : In None (cascade stages) -> Forall (fun s => In None s) stages.
Proof.
  induction stages as [|s rest IH]; intros H; [constructor|].
  apply cascade_None in H as [H1 H2]. constructor; [exact H1|apply IH; exact H2].
Qed.

Theorem rule_repair_proposed_when_possible inp :
  i_entry inp = ERule ->
  repair_required inp = true ->
  (forall s, In s (i_stores inp) -> sid s <> 0) ->
  ~ In None (rule_check inp).
Proof.
  intros He Hr Hids. unfold repair_required, eff_entry in Hr. rewrite He in Hr.
  apply andb_true_iff in Hr as [Hok Hex]. apply existsb_exists in Hex as (rf & Hrf & Hc).
  apply andb_true_iff in Hc as [Hlt Hsel].
  unfold rule_check. destruct (fit_rules (i_fit inp)) as [|rf0 rfs] eqn:E; [contradiction|].
  intros HN. apply cascade_None_all in HN. inversion HN as [|? ? _ HN']; subst.
  rewrite Forall_forall in HN'. specialize (HN' (fix_rule_peer inp rf) (in_map _ _ _ Hrf)).
  unfold fix_rule_peer in HN'. rewrite Hlt in HN'.
  destruct (select_to_add _ _ _ _ _) as [|t ts] eqn:Es; [discriminate|].
  apply in_map_iff in HN' as (t' & G & Ht).
  assert (Hg : good_target (rule_strategy (rf_rule rf)) (i_stores inp) (i_region inp)
                 (rule_stores (i_stores inp) rf) (fun _ => true) t').
  { apply add_target_good. rewrite Es. exact Ht. }
  unfold guard_op in G. destruct (add_feasible inp (sid t')) eqn:F; [discriminate|].
  unfold add_feasible in F. rewrite Hok in F. cbn [andb] in F.
  destruct Hg. apply andb_false_iff in F as [F|F].
  - apply negb_false_iff in F. apply Z.eqb_eq in F. exact (Hids _ gt_known0 F).
  - apply negb_false_iff in F. apply memZ_In in F. contradiction.
Qed.
