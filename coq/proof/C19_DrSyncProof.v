(* C19 — proofs about model/C19_DrSync.v. *)
From Coq Require Import String Ascii.
From PDV Require Import lib.Base gen.Gen_C19 model.C19_DrSync.
Local Open Scope string_scope.
Local Open Scope Z_scope.

Ltac inv H := inversion H; subst; clear H.

(* side condition on the constant the translator regenerates: a positive scan batch (0 would mean "no limit") *)
Lemma batch_pos : 0 < Gen_C19.regionScanBatchSize.
Proof. reflexivity. Qed.

(* ---------- the switch: AllocID ; replicate file ; save ; publish ---------- *)
Lemma wr_cases f i : wr f i = (true, true) \/ wr f i = (false, false) \/ wr f i = (true, false).
Proof.
  unfold wr. destruct (f_save f) as [[j k]|]; [|auto]. destruct (Nat.eqb j i); [destruct k|]; auto.
Qed.

Definition same_cursor (s s' : state) : Prop :=
  cur_key s' = cur_key s /\ cur_cnt s' = cur_cnt s /\ chain s' = chain s.

Lemma switch_spec s t f i s' ok :
  switch s t f i = (s', ok) ->
  cfg s' = cfg s /\ regions s' = regions s /\ stores s' = stores s /\ bsz s' = bsz s /\
  next_id s <= next_id s' /\ (forall x, In x (files s) -> In x (files s')) /\
  (ok = true -> served s' = Some (Status t (next_id s)) /\ stored s' = Some (Status t (next_id s)) /\
                used s' = next_id s :: used s /\
                (t = SyncRecover -> cur_key s' = "" /\ cur_cnt s' = 0 /\ chain s' = []) /\
                (t <> SyncRecover -> same_cursor s s')) /\
  (ok = false -> served s' = served s /\ used s' = used s /\ same_cursor s s' /\ dr_total s' = dr_total s /\
                 tot s' = tot s /\ synced s' = synced s /\
                 (stored s' = stored s \/ (stored s' = Some (Status t (next_id s)) /\ next_id s' = next_id s + 1))).
Proof.
  unfold switch. destruct (alloc_fails f i).
  { intros H; inv H. repeat split; auto; try lia; discriminate. }
  destruct (wr_cases f i) as [E|[E|E]]; rewrite E.
  - destruct t; intros H; inv H; cbn; repeat split; auto; try lia; try discriminate; intros; try congruence; try contradiction; auto.
  - intros H; inv H; cbn. repeat split; auto; try lia; discriminate.
  - intros H; inv H; cbn. repeat split; auto; try lia; discriminate.
Qed.

Lemma switch_ok_spec s t f i s' :
  switch s t f i = (s', true) ->
  next_id s' = next_id s + 1 /\ files s' = Status t (next_id s) :: files s /\ snd (wr f i) = true.
Proof.
  unfold switch. destruct (alloc_fails f i); [discriminate|].
  destruct (wr f i) as [a b]. destruct b; [|discriminate]. destruct t; intros H; inv H; cbn; auto.
Qed.

(* "a failed persist leaves the served state unchanged" *)
Lemma failed_persist_keeps_state_pf s t f i : snd (wr f i) = false -> served (fst (switch s t f i)) = served s.
Proof.
  intros H. destruct (switch s t f i) as [s' ok] eqn:E.
  assert (ok = false).
  { destruct ok; [|reflexivity]. destruct (switch_ok_spec _ _ _ _ _ E) as (_&_&W). congruence. }
  subst ok. destruct (switch_spec _ _ _ _ _ _ E) as (_&_&_&_&_&_&_&F). destruct (F eq_refl) as (A&_). exact A.
Qed.
(* ... and so does a failed AllocID *)
Lemma failed_alloc_keeps_everything_pf s t f i : alloc_fails f i = true -> switch s t f i = (s, false).
Proof. unfold switch. intros ->. reflexivity. Qed.

(* "persisted (and offered to all members) before it is served" at the one place where a status is published *)
Lemma publish_spec_pf s t f i s' :
  switch s t f i = (s', true) ->
  exists st, served s' = Some st /\ stored s' = Some st /\ hd_error (files s') = Some st /\
             st = Status t (next_id s) /\ snd (wr f i) = true.
Proof.
  intros H. destruct (switch_spec _ _ _ _ _ _ H) as (_&_&_&_&_&_&T&_). destruct (T eq_refl) as (A&B&_).
  destruct (switch_ok_spec _ _ _ _ _ H) as (_&Fl&W).
  exists (Status t (next_id s)). rewrite Fl. repeat split; auto.
Qed.

Lemma update_config_failed_pf s c f s' : update_config s c f = (s', false) -> served s' = served s /\ cfg s' = cfg s.
Proof.
  unfold update_config.
  destruct (negb (cf_dr (cfg s)) && cf_dr c)%bool.
  - destruct (switch (set_cfg s c) SyncRecover f 0) as [s1 ok] eqn:E. destruct ok; intros H; inv H.
    destruct (switch_spec _ _ _ _ _ _ E) as (_&_&_&_&_&_&_&F). destruct (F eq_refl) as (A&_). cbn. split; [exact A|reflexivity].
  - destruct (cf_dr (cfg s) && cf_dr c && negb (String.eqb (cf_label (cfg s)) (cf_label c)))%bool.
    + destruct (switch (set_cfg s c) Async f 0) as [s1 ok] eqn:E. destruct ok; intros H; inv H.
      destruct (switch_spec _ _ _ _ _ _ E) as (_&_&_&_&_&_&_&F). destruct (F eq_refl) as (A&_). cbn. split; [exact A|reflexivity].
    + discriminate.
Qed.

(* ---------- tick, decomposed ---------- *)
Definition dp (s : state) := count_down (cf_label (cfg s)) (stores s) Primary.
Definition dd (s : state) := count_down (cf_label (cfg s)) (stores s) Dr.
Definition cs_of (s : state) := can_sync (cfg s) (dp s) (dd s).
Definition hm_of (s : state) := has_majority (cfg s) (dp s) (dd s).

Definition tick1 (s : state) (f : fault) : state * nat :=
  if negb (cs_of s) && hm_of s && negb (in_state s Async) && async_ok s
  then (fst (switch s Async f 0), 1%nat) else (s, 0%nat).
Definition tick2 (s : state) (s1 : state) (n1 : nat) (f : fault) : state * nat :=
  if cs_of s && in_state s1 Async then (fst (switch s1 SyncRecover f n1), S n1) else (s1, n1).
Definition progress_figures (s3 : state) : state :=
  State (cfg s3) (served s3) (stored s3) (files s3) (next_id s3) (cur_key s3) (cur_cnt s3)
        (dr_total s3) (cur_cnt s3) (dr_total s3) (regions s3) (stores s3) (bsz s3) (clk s3) (chain s3) (used s3).
Definition tick3 (s2 : state) (n2 : nat) (f : fault) : state :=
  if in_state s2 SyncRecover then
    let s3 := update_progress s2 in
    if finished s3 then fst (switch s3 Sync f n2) else progress_figures s3
  else s2.

Lemma tick_decomp s f :
  tick s f = if negb (cf_dr (cfg s)) then s else
             let '(s1, n1) := tick1 s f in let '(s2, n2) := tick2 s s1 n1 f in tick3 s2 n2 f.
Proof. reflexivity. Qed.

(* what the scan leaves alone *)
Lemma progress_loop_frame fuel : forall s,
  let s' := progress_loop fuel s in
  cfg s' = cfg s /\ served s' = served s /\ stored s' = stored s /\ files s' = files s /\ next_id s' = next_id s /\
  regions s' = regions s /\ stores s' = stores s /\ used s' = used s /\ bsz s' = bsz s.
Proof.
  induction fuel as [|n IH]; intros s; cbn [progress_loop]; [repeat split|].
  destruct (negb (key_empty (cur_key s)) || (cur_cnt s =? 0))%bool; [|repeat split].
  destruct (scan (regions s) (cur_key s) (bsz s)) as [|r0 rest] eqn:Eb; [repeat split|].
  destruct (walk (cur_id s) (cur_key s) (cur_cnt s) (chain s) (r0 :: rest)) as [[[k c] passed] hit].
  destruct hit; [cbn; repeat split|].
  match goal with |- context [progress_loop n ?x] => specialize (IH x) end.
  cbn zeta in IH. destruct IH as (A&B&C&D&E&F&G&H&I). cbn in *. repeat split; assumption.
Qed.

Lemma in_state_served s s' d : served s' = served s -> in_state s' d = in_state s d.
Proof. unfold in_state, cur_state. intros ->. reflexivity. Qed.

Lemma in_state_excl s a b : in_state s a = true -> in_state s b = true -> a = b.
Proof.
  unfold in_state, cur_state. destruct (served s) as [x|]; cbn; [|discriminate].
  destruct (st_state x), a, b; cbn; intros; try discriminate; reflexivity.
Qed.

Lemma in_state_switch_ok s t f i s' d : switch s t f i = (s', true) -> in_state s' d = dstate_eqb t d.
Proof.
  intros H. destruct (switch_spec _ _ _ _ _ _ H) as (_&_&_&_&_&_&T&_). destruct (T eq_refl) as (A&_).
  unfold in_state, cur_state. rewrite A. reflexivity.
Qed.
Lemma in_state_switch_fail s t f i s' d : switch s t f i = (s', false) -> in_state s' d = in_state s d.
Proof.
  intros H. destruct (switch_spec _ _ _ _ _ _ H) as (_&_&_&_&_&_&_&F). destruct (F eq_refl) as (A&_).
  apply in_state_served; exact A.
Qed.

Lemma dstate_eqb_eq a b : dstate_eqb a b = true <-> a = b.
Proof. destruct a, b; cbn; split; intros; try discriminate; reflexivity. Qed.

(* ---------- statement 1: to async only when a dc lost all its replicas, a majority can be up, the timeout passed ---------- *)
Theorem async_only_when_pf s f :
  in_state s Async = false -> in_state (tick s f) Async = true ->
  cs_of s = false /\ hm_of s = true /\ async_ok s = true.
Proof.
  intros H0 H1. rewrite tick_decomp in H1.
  destruct (negb (cf_dr (cfg s))); [congruence|].
  unfold tick1 in H1.
  destruct (negb (cs_of s) && hm_of s && negb (in_state s Async) && async_ok s)%bool eqn:C1.
  - apply andb_true_iff in C1 as [C1 Ca]. apply andb_true_iff in C1 as [C1 _]. apply andb_true_iff in C1 as [Cc Ch].
    apply negb_true_iff in Cc. auto.
  - (* no switch to async in this tick: the state cannot end up async *)
    exfalso. unfold tick2 in H1. rewrite H0, andb_false_r in H1. unfold tick3 in H1.
    destruct (in_state s SyncRecover) eqn:Er; [|congruence].
    destruct (finished (update_progress s)).
    + destruct (switch (update_progress s) Sync f 0) as [s4 ok] eqn:E4. cbn [fst] in H1.
      destruct ok.
      * rewrite (in_state_switch_ok _ _ _ _ _ _ E4) in H1. discriminate.
      * rewrite (in_state_switch_fail _ _ _ _ _ _ E4) in H1.
        pose proof (progress_loop_frame (S (length (regions s))) s) as (_&B&_). fold (update_progress s) in B.
        rewrite (in_state_served _ _ _ B) in H1. congruence.
    + assert (B : served (progress_figures (update_progress s)) = served s).
      { cbn. pose proof (progress_loop_frame (S (length (regions s))) s) as (_&B&_). exact B. }
      rewrite (in_state_served _ _ _ B) in H1. congruence.
Qed.

(* ---------- statement 2: async -> sync_recover only when both dcs have fewer failed stores than replicas ---------- *)
Theorem recover_only_when_pf s f :
  in_state s SyncRecover = false -> in_state (tick s f) SyncRecover = true ->
  cs_of s = true /\ in_state s Async = true.
Proof.
  intros H0 H1. rewrite tick_decomp in H1.
  destruct (negb (cf_dr (cfg s))); [congruence|].
  destruct (tick1 s f) as [s1 n1] eqn:E1. destruct (tick2 s s1 n1 f) as [s2 n2] eqn:E2.
  (* step 1 never produces sync_recover *)
  assert (A1 : in_state s1 SyncRecover = false /\ (cs_of s = true -> s1 = s)).
  { unfold tick1 in E1. destruct (negb (cs_of s) && hm_of s && negb (in_state s Async) && async_ok s)%bool eqn:C1.
    - apply andb_true_iff in C1 as [C1 _]. apply andb_true_iff in C1 as [C1 _]. apply andb_true_iff in C1 as [Cc _].
      apply negb_true_iff in Cc. inv E1. split; [|congruence].
      destruct (switch s Async f 0) as [s4 ok] eqn:E4. cbn [fst]. destruct ok.
      + rewrite (in_state_switch_ok _ _ _ _ _ _ E4). reflexivity.
      + rewrite (in_state_switch_fail _ _ _ _ _ _ E4). exact H0.
    - inv E1. split; [exact H0|reflexivity]. }
  destruct A1 as [A1 A1'].
  unfold tick2 in E2. destruct (cs_of s && in_state s1 Async)%bool eqn:C2.
  - apply andb_true_iff in C2 as [Cc Ca]. split; [exact Cc|]. rewrite (A1' Cc) in Ca. exact Ca.
  - (* no switch to sync_recover: step 3 does nothing *)
    inv E2. exfalso. unfold tick3 in H1. rewrite A1 in H1. congruence.
Qed.

(* ---------- statement 3: sync only after a full, contiguous scan under the current state id ---------- *)
Definition good (sid : Z) (r : region) : Prop := r_sid r = sid /\ r_int r = true.
(* l (oldest first) leads from key a to key b without a gap *)
Fixpoint path (l : list region) (a b : string) : Prop :=
  match l with
  | [] => a = b
  | r :: t => r_start r = a /\ path t (r_end r) b
  end.
Lemma path_app l1 : forall a b r, path l1 a b -> r_start r = b -> path (l1 ++ [r]) a (r_end r).
Proof.
  induction l1 as [|x t IH]; intros a b r H Hr; cbn in *.
  - subst. split; reflexivity.
  - destruct H as [H1 H2]. split; [exact H1|]. eapply IH; eauto.
Qed.

Definition scan_inv (s : state) : Prop :=
  in_state s SyncRecover = true ->
  path (rev (chain s)) "" (cur_key s) /\ Forall (good (cur_id s)) (chain s) /\ cur_cnt s = Z.of_nat (length (chain s)).

Lemma walk_spec sid : forall batch k c passed k' c' passed' hit,
  walk sid k c passed batch = (k', c', passed', hit) ->
  path (rev passed) "" k -> Forall (good sid) passed -> c = Z.of_nat (length passed) ->
  path (rev passed') "" k' /\ Forall (good sid) passed' /\ c' = Z.of_nat (length passed') /\
  (forall r, In r passed' -> In r passed \/ In r batch).
Proof.
  induction batch as [|r t IH]; intros k c passed k' c' passed' hit H P G C; cbn [walk] in H.
  - inv H. repeat split; auto.
  - destruct (recovered sid r k) eqn:Er.
    + unfold recovered in Er. apply andb_true_iff in Er as [Er Ei]. apply andb_true_iff in Er as [Ek Es].
      apply String.eqb_eq in Ek. apply Z.eqb_eq in Es.
      destruct (IH _ _ _ _ _ _ _ H) as (A&B&D&E).
      * cbn [rev]. eapply path_app; eauto.
      * constructor; [split; auto|exact G].
      * cbn [length]. rewrite Nat2Z.inj_succ. lia.
      * repeat split; auto. intros x Hx. destruct (E x Hx) as [[<-|Hp]|Hb]; [right; left; reflexivity|left; exact Hp|right; right; exact Hb].
    + inv H. repeat split; auto.
Qed.

Lemma In_firstn {A} (x : A) : forall n l, In x (firstn n l) -> In x l.
Proof.
  induction n as [|n IH]; intros l; cbn; [contradiction|].
  destruct l as [|a l]; cbn; [contradiction|]. intros [H|H]; [left; exact H|right; apply IH; exact H].
Qed.

Lemma scan_subset l k n r : In r (scan l k n) -> In r l.
Proof.
  unfold scan. intros H.
  assert (D : forall l, In r (drop_before k l) -> In r l).
  { induction l0 as [|x t IH]; cbn; [auto|]. destruct (before_key k x); [intros Hx; right; auto|auto]. }
  destruct n; [apply D; exact H|]. apply D. eapply In_firstn; exact H.
Qed.

Lemma progress_loop_inv fuel : forall s,
  path (rev (chain s)) "" (cur_key s) -> Forall (good (cur_id s)) (chain s) -> cur_cnt s = Z.of_nat (length (chain s)) ->
  let s' := progress_loop fuel s in
  path (rev (chain s')) "" (cur_key s') /\ Forall (good (cur_id s)) (chain s') /\ cur_cnt s' = Z.of_nat (length (chain s')) /\
  (forall r, In r (chain s') -> In r (chain s) \/ In r (regions s)).
Proof.
  induction fuel as [|n IH]; intros s P G C; cbn [progress_loop]; [repeat split; auto|].
  destruct (negb (key_empty (cur_key s)) || (cur_cnt s =? 0))%bool; [|repeat split; auto].
  destruct (scan (regions s) (cur_key s) (bsz s)) as [|r0 rest] eqn:Eb; [repeat split; auto|].
  destruct (walk (cur_id s) (cur_key s) (cur_cnt s) (chain s) (r0 :: rest)) as [[[k c] passed] hit] eqn:Ew.
  destruct (walk_spec _ _ _ _ _ _ _ _ _ Ew P G C) as (A&B&D&E).
  assert (Esub : forall r, In r passed -> In r (chain s) \/ In r (regions s)).
  { intros r Hr. destruct (E r Hr) as [Hp|Hb]; [left; exact Hp|right]. rewrite <- Eb in Hb. eapply scan_subset; exact Hb. }
  destruct hit; [cbn; repeat split; auto|].
  match goal with |- context [progress_loop n ?x] => specialize (IH x) end.
  cbn [chain cur_key cur_cnt cur_id served regions] in IH. unfold cur_id in *. cbn [served] in IH.
  destruct (IH A B D) as (A'&B'&D'&E'). repeat split; auto.
  intros r Hr. destruct (E' r Hr) as [Hp|Hb]; [apply Esub; exact Hp|right; exact Hb].
Qed.

(* the scan only ever appends regions that are in the cache of this very tick *)
Lemma update_progress_inv s :
  scan_inv s -> in_state s SyncRecover = true ->
  let s' := update_progress s in
  path (rev (chain s')) "" (cur_key s') /\ Forall (good (cur_id s)) (chain s') /\ cur_cnt s' = Z.of_nat (length (chain s')) /\
  (forall r, In r (chain s') -> In r (chain s) \/ In r (regions s)).
Proof. intros I H. destruct (I H) as (P&G&C). apply progress_loop_inv; assumption. Qed.

Lemma finished_spec s : finished s = true -> cur_key s = "" /\ 0 < cur_cnt s.
Proof.
  unfold finished, key_empty. intros H. apply andb_true_iff in H as [A B]. apply String.eqb_eq in A. split; [exact A|lia].
Qed.

(* a switch keeps / establishes the scan invariant *)
Lemma switch_scan_inv s t f i s' ok : switch s t f i = (s', ok) -> scan_inv s -> scan_inv s'.
Proof.
  intros H I. destruct (switch_spec _ _ _ _ _ _ H) as (_&_&_&_&_&_&T&F). destruct ok.
  - destruct (T eq_refl) as (A&_&_&Rz&_). intros Hr.
    rewrite (in_state_switch_ok _ _ _ _ _ _ H) in Hr. apply dstate_eqb_eq in Hr. subst t.
    destruct (Rz eq_refl) as (Z1&Z2&Z3). rewrite Z1, Z2, Z3. cbn. repeat split. constructor.
  - destruct (F eq_refl) as (A&_&(B1&B2&B3)&_). intros Hr.
    rewrite (in_state_switch_fail _ _ _ _ _ _ H) in Hr. destruct (I Hr) as (P&G&C).
    unfold cur_id. rewrite A, B1, B2, B3. auto.
Qed.

(* steps 1 and 2 of a tick: the invariant survives, the cache is untouched, and what the cursor has passed is kept or reset *)
Lemma tick12_spec s f s1 n1 s2 n2 :
  tick1 s f = (s1, n1) -> tick2 s s1 n1 f = (s2, n2) -> scan_inv s ->
  scan_inv s2 /\ regions s2 = regions s /\ (chain s2 = chain s \/ chain s2 = []) /\
  (in_state s Sync = false -> in_state s2 Sync = false) /\
  (in_state s SyncRecover = true -> in_state s2 SyncRecover = true -> cur_id s2 = cur_id s).
Proof.
  intros E1 E2 I.
  assert (A1 : scan_inv s1 /\ regions s1 = regions s /\ chain s1 = chain s /\
               (in_state s Sync = false -> in_state s1 Sync = false) /\
               (in_state s SyncRecover = true -> in_state s1 SyncRecover = true -> served s1 = served s)).
  { unfold tick1 in E1. destruct (negb (cs_of s) && hm_of s && negb (in_state s Async) && async_ok s)%bool; [|inv E1; auto 6].
    inv E1. destruct (switch s Async f 0) as [s4 ok] eqn:E4. cbn [fst].
    destruct (switch_spec _ _ _ _ _ _ E4) as (_&Rg&_&_&_&_&T&F).
    split; [eapply switch_scan_inv; eauto|]. split; [exact Rg|]. destruct ok.
    - destruct (T eq_refl) as (_&_&_&_&Sc). destruct (Sc ltac:(discriminate)) as (_&_&Ch). split; [exact Ch|].
      rewrite !(in_state_switch_ok _ _ _ _ _ _ E4). cbn. split; [reflexivity|discriminate].
    - destruct (F eq_refl) as (A&_&(_&_&Ch)&_). split; [exact Ch|].
      rewrite !(in_state_switch_fail _ _ _ _ _ _ E4). auto. }
  destruct A1 as (I1&Rg1&Ch1&Sy1&Sv1).
  unfold tick2 in E2. destruct (cs_of s && in_state s1 Async)%bool eqn:C2.
  - apply andb_true_iff in C2 as [Cs Ca]. inv E2.
    destruct (switch s1 SyncRecover f n1) as [s4 ok] eqn:E4. cbn [fst].
    destruct (switch_spec _ _ _ _ _ _ E4) as (_&Rg&_&_&_&_&T&F).
    split; [eapply switch_scan_inv; eauto|]. split; [congruence|]. destruct ok.
    + destruct (T eq_refl) as (_&_&_&Rz&_). destruct (Rz eq_refl) as (_&_&Z3). split; [right; exact Z3|].
      rewrite !(in_state_switch_ok _ _ _ _ _ _ E4). cbn. split; [reflexivity|].
      intros Hs _. exfalso. (* s was sync_recover, s1 async: then step 1 switched, but it needs "not can-sync" while step 2 needs it *)
      destruct (in_state s1 SyncRecover) eqn:X; [pose proof (in_state_excl _ _ _ X Ca); discriminate|].
      unfold tick1 in E1. destruct (negb (cs_of s) && hm_of s && negb (in_state s Async) && async_ok s)%bool eqn:C1.
      * apply andb_true_iff in C1 as [C1 _]. apply andb_true_iff in C1 as [C1 _]. apply andb_true_iff in C1 as [Cc _].
        apply negb_true_iff in Cc. congruence.
      * inv E1. congruence.
    + destruct (F eq_refl) as (A&_&(_&_&Ch)&_). split; [left; congruence|].
      rewrite !(in_state_switch_fail _ _ _ _ _ _ E4). split; [auto|].
      intros Hs Hr. unfold cur_id. rewrite A. rewrite (Sv1 Hs Hr). reflexivity.
  - inv E2. split; [exact I1|]. split; [exact Rg1|]. split; [left; exact Ch1|]. split; [exact Sy1|].
    intros Hs Hr. unfold cur_id. rewrite (Sv1 Hs Hr). reflexivity.
Qed.

(* step 3: sync is declared only on a finished scan *)
Lemma tick3_sync s2 n2 f :
  scan_inv s2 -> in_state s2 Sync = false -> in_state (tick3 s2 n2 f) Sync = true ->
  in_state s2 SyncRecover = true /\
  let ch := chain (tick3 s2 n2 f) in
  ch <> [] /\ path (rev ch) "" "" /\ Forall (good (cur_id s2)) ch /\ (forall r, In r ch -> In r (chain s2) \/ In r (regions s2)).
Proof.
  intros I H0 H1. unfold tick3 in *.
  destruct (in_state s2 SyncRecover) eqn:Hr; [|congruence]. split; [reflexivity|].
  destruct (update_progress_inv _ I Hr) as (P&G&C&E).
  pose proof (progress_loop_frame (S (length (regions s2))) s2) as (_&B&_). fold (update_progress s2) in B.
  destruct (finished (update_progress s2)) eqn:Ef.
  - destruct (finished_spec _ Ef) as [Fk Fc].
    destruct (switch (update_progress s2) Sync f n2) as [s5 ok5] eqn:E5. cbn [fst] in *.
    destruct (switch_spec _ _ _ _ _ _ E5) as (_&_&_&_&_&_&T5&F5).
    destruct ok5.
    + destruct (T5 eq_refl) as (_&_&_&_&Sc). destruct (Sc ltac:(discriminate)) as (_&_&Ch). rewrite Ch.
      repeat split; auto.
      * intros Hn. rewrite Hn in C. change (Z.of_nat (length (@nil region))) with 0 in C. lia.
      * rewrite Fk in P. exact P.
    + exfalso. rewrite (in_state_switch_fail _ _ _ _ _ _ E5), (in_state_served _ _ _ B) in H1. congruence.
  - exfalso. assert (B' : served (progress_figures (update_progress s2)) = served s2) by (cbn; exact B).
    rewrite (in_state_served _ _ _ B') in H1. congruence.
Qed.

(* the tick that declares sync: the regions passed under the sync_recover id form a gapless chain over the whole key
   space, each of them was in the cache (with integrity, under that id) at the tick that passed it *)
Theorem sync_only_after_full_scan_pf s f :
  scan_inv s -> in_state s Sync = false -> in_state (tick s f) Sync = true ->
  exists sid, let ch := chain (tick s f) in
    ch <> [] /\ path (rev ch) "" "" /\ Forall (good sid) ch /\
    (forall r, In r ch -> In r (chain s) \/ In r (regions s)) /\
    (in_state s SyncRecover = true -> sid = cur_id s).
Proof.
  intros I H0 H1. rewrite tick_decomp in *.
  destruct (negb (cf_dr (cfg s))); [congruence|].
  destruct (tick1 s f) as [s1 n1] eqn:E1. destruct (tick2 s s1 n1 f) as [s2 n2] eqn:E2.
  destruct (tick12_spec _ _ _ _ _ _ E1 E2 I) as (I2&Rg&Ch&Sy&Id).
  destruct (tick3_sync _ _ _ I2 (Sy H0) H1) as (Hr2&A&B&C&D).
  exists (cur_id s2). cbn zeta. split; [exact A|]. split; [exact B|]. split; [exact C|]. split.
  - intros r Hr. destruct (D r Hr) as [Hc|Hc]; [|right; congruence].
    destruct Ch as [Ch|Ch]; rewrite Ch in Hc; [left; exact Hc|contradiction].
  - intros Hs. apply Id; assumption.
Qed.

(* the invariant holds along every history *)
Lemma scan_inv_frame s s' :
  served s' = served s -> cur_key s' = cur_key s -> cur_cnt s' = cur_cnt s -> chain s' = chain s -> scan_inv s -> scan_inv s'.
Proof.
  intros A B C D I Hr. rewrite (in_state_served _ _ _ A) in Hr. destruct (I Hr) as (P&G&N).
  unfold cur_id. rewrite A, B, C, D. auto.
Qed.

Lemma scan_inv_tick s f : scan_inv s -> scan_inv (tick s f).
Proof.
  intros I. rewrite tick_decomp. destruct (negb (cf_dr (cfg s))); [exact I|].
  destruct (tick1 s f) as [s1 n1] eqn:E1. destruct (tick2 s s1 n1 f) as [s2 n2] eqn:E2.
  destruct (tick12_spec _ _ _ _ _ _ E1 E2 I) as (I2&_).
  unfold tick3. destruct (in_state s2 SyncRecover) eqn:Hr; [|exact I2].
  destruct (update_progress_inv _ I2 Hr) as (P&G&C&_).
  pose proof (progress_loop_frame (S (length (regions s2))) s2) as (_&B&_). fold (update_progress s2) in B.
  assert (I3 : scan_inv (update_progress s2)) by (intros _; unfold cur_id; rewrite B; auto).
  destruct (finished (update_progress s2)).
  - destruct (switch (update_progress s2) Sync f n2) as [s5 ok5] eqn:E5. cbn [fst]. eapply switch_scan_inv; eauto.
  - eapply scan_inv_frame; [| | | |exact I3]; reflexivity.
Qed.

Lemma scan_inv_step s o s' r : run_cmd s o = (s', r) -> scan_inv s -> scan_inv s'.
Proof.
  destruct o as [f|c f|l|rid sid integ|id down|dt|mid]; cbn [run_cmd]; intros H I.
  - inv H. apply scan_inv_tick; exact I.
  - unfold update_config in H.
    destruct (negb (cf_dr (cfg s)) && cf_dr c)%bool.
    + destruct (switch (set_cfg s c) SyncRecover f 0) as [s1 ok] eqn:E.
      assert (I1 : scan_inv s1) by (eapply switch_scan_inv; [exact E|eapply scan_inv_frame; [| | | |exact I]; reflexivity]).
      destruct ok; inv H; [exact I1|eapply scan_inv_frame; [| | | |exact I1]; reflexivity].
    + destruct (cf_dr (cfg s) && cf_dr c && negb (String.eqb (cf_label (cfg s)) (cf_label c)))%bool.
      * destruct (switch (set_cfg s c) Async f 0) as [s1 ok] eqn:E.
        assert (I1 : scan_inv s1) by (eapply switch_scan_inv; [exact E|eapply scan_inv_frame; [| | | |exact I]; reflexivity]).
        destruct ok; inv H; [exact I1|eapply scan_inv_frame; [| | | |exact I1]; reflexivity].
      * inv H. eapply scan_inv_frame; [| | | |exact I]; reflexivity.
  - inv H. eapply scan_inv_frame; [| | | |exact I]; reflexivity.
  - inv H. eapply scan_inv_frame; [| | | |exact I]; reflexivity.
  - inv H. eapply scan_inv_frame; [| | | |exact I]; reflexivity.
  - inv H. eapply scan_inv_frame; [| | | |exact I]; reflexivity.
  - inv H. eapply scan_inv_frame; [| | | |exact I]; reflexivity.
Qed.

Lemma scan_inv_boot c st id0 rs ss b : scan_inv (boot c st id0 rs ss b).
Proof.
  unfold boot. destruct (cf_dr c).
  - destruct st as [x|].
    + intros _. cbn. repeat split. constructor.
    + match goal with |- scan_inv (fst ?X) => destruct X as [s1 ok] eqn:E end. cbn [fst].
      eapply switch_scan_inv; [exact E|]. intros Hr. unfold in_state, cur_state in Hr. cbn in Hr. discriminate.
  - intros Hr. unfold in_state, cur_state in Hr. cbn in Hr. discriminate.
Qed.

Lemma run_op_state s o : fst (run_op s o) = fst (run_cmd s o).
Proof. unfold run_op. destruct (run_cmd s o); reflexivity. Qed.

Lemma scan_inv_run s ops : scan_inv s -> scan_inv (run_state run_op s ops).
Proof.
  revert s; induction ops as [|o r IH]; intros s I; cbn [run_state]; [exact I|].
  rewrite run_op_state. apply IH. destruct (run_cmd s o) as [s1 r1] eqn:E. cbn [fst]. eapply scan_inv_step; eauto.
Qed.

(* ---------- statements 4 and 5: fresh state ids; persisted and offered before served ---------- *)
(* every id that was ever published is below the allocator's next id and was published once; what is served has
   been persisted (storage holds it, or a newer status whose save was applied but reported failed) and was handed to
   the file replicater, unless it is the status loaded at start-up (st0) *)
Record id_inv (st0 : option status) (s : state) : Prop := {
  ii_lt : forall i, In i (used s) -> i < next_id s;
  ii_nodup : NoDup (used s);
  ii_served : forall x, served s = Some x -> In (st_id x) (used s);
  ii_stored_lt : forall y, stored s = Some y -> st_id y < next_id s;
  ii_persisted : forall x, served s = Some x ->
                   exists y, stored s = Some y /\ st_id x <= st_id y /\ (st_id x = st_id y -> x = y);
  ii_offered : forall x, served s = Some x -> In x (files s) \/ st0 = Some x
}.

Lemma id_inv_switch st0 s t f i s' ok : switch s t f i = (s', ok) -> id_inv st0 s -> id_inv st0 s'.
Proof.
  intros H I. destruct I as [L N Sv Sl P O].
  destruct (switch_spec _ _ _ _ _ _ H) as (_&_&_&_&Ni&Fl&T&F). destruct ok.
  - destruct (T eq_refl) as (A&B&U&_). destruct (switch_ok_spec _ _ _ _ _ H) as (Ni'&Fl'&_).
    constructor; rewrite ?Ni', ?U, ?A, ?B, ?Fl'.
    + intros j [<-|Hj]; [lia|specialize (L _ Hj); lia].
    + constructor; [|exact N]. intros Hin. specialize (L _ Hin). lia.
    + intros x Hx. inv Hx. left; reflexivity.
    + intros y Hy. inv Hy. cbn. lia.
    + intros x Hx. inv Hx. eexists; split; [reflexivity|]. split; [lia|auto].
    + intros x Hx. inv Hx. left; left; reflexivity.
  - destruct (F eq_refl) as (A&U&_&_&_&_&St). constructor; rewrite ?U, ?A.
    + intros j Hj. specialize (L _ Hj). lia.
    + exact N.
    + exact Sv.
    + intros y Hy. destruct St as [St|[St Nx]]; rewrite St in Hy; [specialize (Sl _ Hy); lia|inv Hy; cbn; lia].
    + intros x Hx. destruct (P x Hx) as (y&Ey&Le&Eq). destruct St as [St|[St Nx]]; rewrite St.
      * exists y; auto.
      * eexists; split; [reflexivity|]. cbn. specialize (Sl _ Ey). split; [lia|]. intros E. exfalso. lia.
    + intros x Hx. destruct (O x Hx) as [Hf|Hb]; [left; apply Fl; exact Hf|right; exact Hb].
Qed.

Lemma id_inv_frame st0 s s' :
  served s' = served s -> stored s' = stored s -> files s' = files s -> next_id s' = next_id s -> used s' = used s ->
  id_inv st0 s -> id_inv st0 s'.
Proof. intros A B C D E [L N Sv Sl P O]. constructor; rewrite ?A, ?B, ?C, ?D, ?E; assumption. Qed.

Lemma id_inv_tick st0 s f : id_inv st0 s -> id_inv st0 (tick s f).
Proof.
  intros I. rewrite tick_decomp. destruct (negb (cf_dr (cfg s))); [exact I|].
  assert (I1 : forall s1 n1, tick1 s f = (s1, n1) -> id_inv st0 s1).
  { intros s1 n1 E1. unfold tick1 in E1. destruct (negb (cs_of s) && hm_of s && negb (in_state s Async) && async_ok s)%bool; [|inv E1; exact I].
    inv E1. destruct (switch s Async f 0) as [s4 ok] eqn:E4. cbn [fst]. eapply id_inv_switch; eauto. }
  destruct (tick1 s f) as [s1 n1] eqn:E1. specialize (I1 _ _ eq_refl).
  assert (I2 : forall s2 n2, tick2 s s1 n1 f = (s2, n2) -> id_inv st0 s2).
  { intros s2 n2 E2. unfold tick2 in E2. destruct (cs_of s && in_state s1 Async)%bool; [|inv E2; exact I1].
    inv E2. destruct (switch s1 SyncRecover f n1) as [s4 ok] eqn:E4. cbn [fst]. eapply id_inv_switch; eauto. }
  destruct (tick2 s s1 n1 f) as [s2 n2] eqn:E2. specialize (I2 _ _ eq_refl).
  unfold tick3. destruct (in_state s2 SyncRecover); [|exact I2].
  pose proof (progress_loop_frame (S (length (regions s2))) s2) as (_&B&C&D&E&_&_&U&_). fold (update_progress s2) in *.
  assert (I3 : id_inv st0 (update_progress s2)) by (eapply id_inv_frame; [exact B|exact C|exact D|exact E|exact U|exact I2]).
  destruct (finished (update_progress s2)).
  - destruct (switch (update_progress s2) Sync f n2) as [s5 ok5] eqn:E5. cbn [fst]. eapply id_inv_switch; eauto.
  - eapply id_inv_frame; [| | | | |exact I3]; reflexivity.
Qed.

Lemma id_inv_step st0 s o s' r : run_cmd s o = (s', r) -> id_inv st0 s -> id_inv st0 s'.
Proof.
  destruct o as [f|c f|l|rid sid integ|id down|dt|mid]; cbn [run_cmd]; intros H I.
  - inv H. apply id_inv_tick; exact I.
  - unfold update_config in H.
    assert (I0 : id_inv st0 (set_cfg s c)) by (eapply id_inv_frame; [| | | | |exact I]; reflexivity).
    destruct (negb (cf_dr (cfg s)) && cf_dr c)%bool.
    + destruct (switch (set_cfg s c) SyncRecover f 0) as [s1 ok] eqn:E.
      assert (I1 : id_inv st0 s1) by (eapply id_inv_switch; eauto).
      destruct ok; inv H; [exact I1|eapply id_inv_frame; [| | | | |exact I1]; reflexivity].
    + destruct (cf_dr (cfg s) && cf_dr c && negb (String.eqb (cf_label (cfg s)) (cf_label c)))%bool.
      * destruct (switch (set_cfg s c) Async f 0) as [s1 ok] eqn:E.
        assert (I1 : id_inv st0 s1) by (eapply id_inv_switch; eauto).
        destruct ok; inv H; [exact I1|eapply id_inv_frame; [| | | | |exact I1]; reflexivity].
      * inv H. exact I0.
  - inv H. eapply id_inv_frame; [| | | | |exact I]; reflexivity.
  - inv H. eapply id_inv_frame; [| | | | |exact I]; reflexivity.
  - inv H. eapply id_inv_frame; [| | | | |exact I]; reflexivity.
  - inv H. eapply id_inv_frame; [| | | | |exact I]; reflexivity.
  - inv H. eapply id_inv_frame; [| | | | |exact I]; reflexivity.
Qed.

(* the allocator never hands out an id that is in use: at start-up the stored status carries an id below the next one *)
Definition boot_ok (st : option status) (id0 : Z) : Prop := forall y, st = Some y -> st_id y < id0.

Lemma id_inv_boot c st id0 rs ss b : boot_ok st id0 -> id_inv st (boot c st id0 rs ss b).
Proof.
  intros Hb. unfold boot.
  assert (I0 : id_inv st (State c None st [] id0 "" 0 0 0 0 rs ss b (Clock 0 0 []) [] (match st with Some x => [st_id x] | None => [] end))).
  { constructor; cbn.
    - intros i Hi. destruct st as [x|]; cbn in Hi; [destruct Hi as [<-|[]]; apply Hb; reflexivity|contradiction].
    - destruct st; repeat constructor; auto.
    - discriminate.
    - intros y Hy. apply Hb; exact Hy.
    - discriminate.
    - discriminate. }
  destruct (cf_dr c); [|exact I0].
  destruct st as [x|].
  - constructor; cbn.
    + intros i [<-|[]]. apply Hb; reflexivity.
    + repeat constructor; auto.
    + intros y Hy. inv Hy. left; reflexivity.
    + intros y Hy. inv Hy. apply Hb; reflexivity.
    + intros y Hy. inv Hy. exists y. split; [reflexivity|]. split; [lia|auto].
    + intros y Hy. right. exact Hy.
  - match goal with |- id_inv _ (fst ?X) => destruct X as [s1 ok] eqn:E end. cbn [fst]. eapply id_inv_switch; eauto.
Qed.

Lemma id_inv_run st0 s ops : id_inv st0 s -> id_inv st0 (run_state run_op s ops).
Proof.
  revert s; induction ops as [|o r IH]; intros s I; cbn [run_state]; [exact I|].
  rewrite run_op_state. apply IH. destruct (run_cmd s o) as [s1 r1] eqn:E. cbn [fst]. eapply id_inv_step; eauto.
Qed.

(* ---------- the statements over histories ---------- *)
Definition reach (b : bootp) (ops : list op) : state := run_state run_op (boot_of b) ops.

Theorem state_id_fresh_pf b ops :
  boot_ok (b_st b) (b_id0 b) ->
  NoDup (used (reach b ops)) /\ (forall x, served (reach b ops) = Some x -> In (st_id x) (used (reach b ops))) /\
  (forall i, In i (used (reach b ops)) -> i < next_id (reach b ops)).
Proof.
  intros Hb. pose proof (id_inv_run _ _ ops (id_inv_boot (b_cfg b) _ _ (b_regions b) (b_stores b) (b_batch b) Hb)) as [L N Sv _ _ _].
  unfold reach, boot_of. auto.
Qed.

(* a transition publishes the id the allocator hands out next: it is larger than every id ever published *)
Lemma switch_fresh_pf st0 s t f i s' :
  id_inv st0 s -> switch s t f i = (s', true) ->
  exists x, served s' = Some x /\ ~ In (st_id x) (used s) /\ (forall y, served s = Some y -> st_id y < st_id x).
Proof.
  intros [L N Sv _ _ _] H. destruct (switch_spec _ _ _ _ _ _ H) as (_&_&_&_&_&_&T&_). destruct (T eq_refl) as (A&_).
  eexists; split; [exact A|]. cbn. split.
  - intros Hin. specialize (L _ Hin). lia.
  - intros y Hy. apply L, Sv, Hy.
Qed.

Theorem persist_before_serve_pf b ops x :
  boot_ok (b_st b) (b_id0 b) -> served (reach b ops) = Some x ->
  (exists y, stored (reach b ops) = Some y /\ st_id x <= st_id y /\ (st_id x = st_id y -> x = y)) /\
  (In x (files (reach b ops)) \/ b_st b = Some x).
Proof.
  intros Hb Hx. pose proof (id_inv_run _ _ ops (id_inv_boot (b_cfg b) _ _ (b_regions b) (b_stores b) (b_batch b) Hb)) as [_ _ _ _ P O].
  unfold reach, boot_of in *. split; [apply P; exact Hx|apply O; exact Hx].
Qed.

Theorem sync_only_after_full_scan_history_pf b ops f :
  let s := reach b ops in
  in_state s Sync = false -> in_state (tick s f) Sync = true ->
  exists sid, let ch := chain (tick s f) in
    ch <> [] /\ path (rev ch) "" "" /\ Forall (good sid) ch /\
    (forall r, In r ch -> In r (chain s) \/ In r (regions s)) /\
    (in_state s SyncRecover = true -> sid = cur_id s).
Proof.
  intros s. apply sync_only_after_full_scan_pf. unfold s, reach, boot_of. apply scan_inv_run, scan_inv_boot.
Qed.

(* everything in the chain came out of the cache of the tick that passed it: along a history, a region enters the
   chain only at a tick, from that tick's cache *)
Lemma chain_origin_pf s o s' r0 r :
  run_cmd s o = (s', r0) -> scan_inv s -> In r (chain s') -> In r (chain s) \/ (In r (regions s) /\ exists f, o = OTick f).
Proof.
  destruct o as [f|c f|l|rid sid integ|id down|dt|mid]; cbn [run_cmd]; intros H I Hin.
  - inv H. rewrite tick_decomp in Hin. destruct (negb (cf_dr (cfg s))); [left; exact Hin|].
    destruct (tick1 s f) as [s1 n1] eqn:E1. destruct (tick2 s s1 n1 f) as [s2 n2] eqn:E2.
    destruct (tick12_spec _ _ _ _ _ _ E1 E2 I) as (I2&Rg&Ch&_&_).
    assert (G : In r (chain s2) \/ In r (regions s2)).
    { unfold tick3 in Hin. destruct (in_state s2 SyncRecover) eqn:Hr; [|left; exact Hin].
      destruct (update_progress_inv _ I2 Hr) as (_&_&_&E).
      destruct (finished (update_progress s2)).
      - destruct (switch (update_progress s2) Sync f n2) as [s5 ok5] eqn:E5. cbn [fst] in Hin.
        destruct (switch_spec _ _ _ _ _ _ E5) as (_&_&_&_&_&_&T5&F5).
        assert (Ch5 : chain s5 = chain (update_progress s2)).
        { destruct ok5; [destruct (T5 eq_refl) as (_&_&_&_&Sc); destruct (Sc ltac:(discriminate)) as (_&_&X); exact X
                       |destruct (F5 eq_refl) as (_&_&(_&_&X)&_); exact X]. }
        rewrite Ch5 in Hin. apply E; exact Hin.
      - cbn in Hin. apply E; exact Hin. }
    destruct G as [G|G]; [|right; split; [congruence|eauto]].
    destruct Ch as [Ch|Ch]; rewrite Ch in G; [left; exact G|contradiction].
  - left. unfold update_config in H.
    destruct (negb (cf_dr (cfg s)) && cf_dr c)%bool.
    + destruct (switch (set_cfg s c) SyncRecover f 0) as [s1 ok] eqn:E.
      destruct (switch_spec _ _ _ _ _ _ E) as (_&_&_&_&_&_&T&F).
      destruct ok; inv H.
      * destruct (T eq_refl) as (_&_&_&Rz&_). destruct (Rz eq_refl) as (_&_&Z3). rewrite Z3 in Hin. contradiction.
      * destruct (F eq_refl) as (_&_&(_&_&X)&_). cbn in Hin. rewrite X in Hin. exact Hin.
    + destruct (cf_dr (cfg s) && cf_dr c && negb (String.eqb (cf_label (cfg s)) (cf_label c)))%bool.
      * destruct (switch (set_cfg s c) Async f 0) as [s1 ok] eqn:E.
        destruct (switch_spec _ _ _ _ _ _ E) as (_&_&_&_&_&_&T&F).
        destruct ok; inv H.
        -- destruct (T eq_refl) as (_&_&_&_&Sc). destruct (Sc ltac:(discriminate)) as (_&_&X). rewrite X in Hin. exact Hin.
        -- destruct (F eq_refl) as (_&_&(_&_&X)&_). cbn in Hin. rewrite X in Hin. exact Hin.
      * inv H. exact Hin.
  - inv H. left; exact Hin.
  - inv H. left; exact Hin.
  - inv H. left; exact Hin.
  - inv H. left; exact Hin.
  - inv H. left; exact Hin.
Qed.

(* ====================================================================================================
   What IS guaranteed about the DR_STATE files (the file goes out before the storage save, its delivery error is dropped)
   ==================================================================================================== *)
(* every file names an id the allocator has already handed out (and not one from before this leader), and no two files name the same id *)
Record file_inv (lo : Z) (s : state) : Prop := {
  fi_lt : forall x, In x (files s) -> lo <= st_id x < next_id s;
  fi_nodup : NoDup (map st_id (files s));
  fi_lo : lo <= next_id s
}.
Lemma switch_files s t f i s' ok :
  switch s t f i = (s', ok) ->
  (files s' = files s /\ next_id s' = next_id s) \/ (files s' = Status t (next_id s) :: files s /\ next_id s' = next_id s + 1).
Proof.
  unfold switch. destruct (alloc_fails f i); [intros H; inv H; left; split; reflexivity|].
  destruct (wr f i) as [a [|]]; [destruct t|]; intros H; inv H; right; split; reflexivity.
Qed.
Lemma file_inv_switch lo s t f i s' ok : switch s t f i = (s', ok) -> file_inv lo s -> file_inv lo s'.
Proof.
  intros H [L N Lo]. destruct (switch_files _ _ _ _ _ _ H) as [[A B]|[A B]]; constructor; rewrite ?A, ?B; try assumption.
  - intros x [<-|Hx]; cbn; [lia|]. specialize (L x Hx). lia.
  - cbn. constructor; [|exact N]. intros Hin. apply in_map_iff in Hin as [y [Ey Hy]]. specialize (L y Hy). lia.
  - lia.
Qed.
Lemma file_inv_frame lo s s' : files s' = files s -> next_id s' = next_id s -> file_inv lo s -> file_inv lo s'.
Proof. intros A B [L N Lo]. constructor; rewrite ?A, ?B; assumption. Qed.
Lemma file_inv_tick lo s f : file_inv lo s -> file_inv lo (tick s f).
Proof.
  intros I. rewrite tick_decomp. destruct (negb (cf_dr (cfg s))); [exact I|].
  assert (I1 : forall s1 n1, tick1 s f = (s1, n1) -> file_inv lo s1).
  { intros s1 n1 E1. unfold tick1 in E1. destruct (negb (cs_of s) && hm_of s && negb (in_state s Async) && async_ok s)%bool; [|inv E1; exact I].
    inv E1. destruct (switch s Async f 0) as [s4 ok] eqn:E4. cbn [fst]. eapply file_inv_switch; eauto. }
  destruct (tick1 s f) as [s1 n1] eqn:E1. specialize (I1 _ _ eq_refl).
  assert (I2 : forall s2 n2, tick2 s s1 n1 f = (s2, n2) -> file_inv lo s2).
  { intros s2 n2 E2. unfold tick2 in E2. destruct (cs_of s && in_state s1 Async)%bool; [|inv E2; exact I1].
    inv E2. destruct (switch s1 SyncRecover f n1) as [s4 ok] eqn:E4. cbn [fst]. eapply file_inv_switch; eauto. }
  destruct (tick2 s s1 n1 f) as [s2 n2] eqn:E2. specialize (I2 _ _ eq_refl).
  unfold tick3. destruct (in_state s2 SyncRecover); [|exact I2].
  pose proof (progress_loop_frame (S (length (regions s2))) s2) as (_&_&_&D&E&_). fold (update_progress s2) in *.
  assert (I3 : file_inv lo (update_progress s2)) by (eapply file_inv_frame; [exact D|exact E|exact I2]).
  destruct (finished (update_progress s2)).
  - destruct (switch (update_progress s2) Sync f n2) as [s5 ok5] eqn:E5. cbn [fst]. eapply file_inv_switch; eauto.
  - eapply file_inv_frame; [| |exact I3]; reflexivity.
Qed.
Lemma file_inv_step lo s o s' r : run_cmd s o = (s', r) -> file_inv lo s -> file_inv lo s'.
Proof.
  destruct o as [f|c f|l|rid sid integ|id down|dt|mid]; cbn [run_cmd]; intros H I.
  - inv H. apply file_inv_tick; exact I.
  - unfold update_config in H.
    assert (I0 : file_inv lo (set_cfg s c)) by (eapply file_inv_frame; [| |exact I]; reflexivity).
    destruct (negb (cf_dr (cfg s)) && cf_dr c)%bool.
    + destruct (switch (set_cfg s c) SyncRecover f 0) as [s1 ok] eqn:E.
      assert (I1 : file_inv lo s1) by (eapply file_inv_switch; eauto).
      destruct ok; inv H; [exact I1|eapply file_inv_frame; [| |exact I1]; reflexivity].
    + destruct (cf_dr (cfg s) && cf_dr c && negb (String.eqb (cf_label (cfg s)) (cf_label c)))%bool.
      * destruct (switch (set_cfg s c) Async f 0) as [s1 ok] eqn:E.
        assert (I1 : file_inv lo s1) by (eapply file_inv_switch; eauto).
        destruct ok; inv H; [exact I1|eapply file_inv_frame; [| |exact I1]; reflexivity].
      * inv H. exact I0.
  - inv H. eapply file_inv_frame; [| |exact I]; reflexivity.
  - inv H. eapply file_inv_frame; [| |exact I]; reflexivity.
  - inv H. eapply file_inv_frame; [| |exact I]; reflexivity.
  - inv H. eapply file_inv_frame; [| |exact I]; reflexivity.
  - inv H. eapply file_inv_frame; [| |exact I]; reflexivity.
Qed.
Lemma file_inv_boot c st id0 rs ss b : file_inv id0 (boot c st id0 rs ss b).
Proof.
  unfold boot.
  assert (I0 : file_inv id0 (State c None st [] id0 "" 0 0 0 0 rs ss b (Clock 0 0 []) [] (match st with Some x => [st_id x] | None => [] end)))
    by (constructor; cbn; [contradiction|constructor|lia]).
  destruct (cf_dr c); [|exact I0]. destruct st as [x|].
  - constructor; cbn; [contradiction|constructor|lia].
  - match goal with |- file_inv _ (fst ?X) => destruct X as [s1 ok] eqn:E end. cbn [fst]. eapply file_inv_switch; eauto.
Qed.
Lemma file_inv_run lo s ops : file_inv lo s -> file_inv lo (run_state run_op s ops).
Proof.
  revert s; induction ops as [|o r IH]; intros s I; cbn [run_state]; [exact I|].
  rewrite run_op_state. apply IH. destruct (run_cmd s o) as [s1 r1] eqn:E. cbn [fst]. eapply file_inv_step; eauto.
Qed.

(* 1. a DR_STATE file never names a state id the allocator has not handed out, nor one from before this leader started *)
Theorem file_ids_allocated_pf b ops x :
  In x (files (reach b ops)) -> b_id0 b <= st_id x < next_id (reach b ops).
Proof.
  intros Hx. pose proof (file_inv_run _ _ ops (file_inv_boot (b_cfg b) (b_st b) (b_id0 b) (b_regions b) (b_stores b) (b_batch b))) as [L _ _].
  apply L. exact Hx.
Qed.
Lemma nodup_ids_eq (l : list status) x y : NoDup (map st_id l) -> In x l -> In y l -> st_id y = st_id x -> y = x.
Proof.
  induction l as [|a r IH]; intros N Hin Hy He; [contradiction|].
  cbn in N. inversion N as [|? ? Hn Nr]; subst.
  destruct Hin as [->|Hin], Hy as [->|Hy]; auto.
  - exfalso. apply Hn. apply in_map_iff. exists y. split; [exact He|exact Hy].
  - exfalso. apply Hn. apply in_map_iff. exists x. split; [symmetry; exact He|exact Hin].
Qed.
(* 2. no two files name the same id with different contents; in particular a member never holds a file for an id under which the
      leader serves a different state: the file that names the served id IS the served status *)
Theorem file_for_served_id_is_served_pf b ops x y :
  boot_ok (b_st b) (b_id0 b) ->
  served (reach b ops) = Some x -> In y (files (reach b ops)) -> st_id y = st_id x -> y = x.
Proof.
  intros Hb Hx Hy He.
  pose proof (file_inv_run _ _ ops (file_inv_boot (b_cfg b) (b_st b) (b_id0 b) (b_regions b) (b_stores b) (b_batch b))) as [L N _].
  pose proof (id_inv_run _ _ ops (id_inv_boot (b_cfg b) _ _ (b_regions b) (b_stores b) (b_batch b) Hb)) as [_ _ _ _ _ O].
  unfold reach, boot_of in *.
  destruct (O x Hx) as [Hin|Hb0].
  - eapply nodup_ids_eq; eauto.
  - (* x is the status this leader loaded at start-up: its id is below every file id *)
    specialize (Hb x Hb0). specialize (L y Hy). lia.
Qed.
Theorem files_have_distinct_ids_pf b ops x y :
  In x (files (reach b ops)) -> In y (files (reach b ops)) -> st_id y = st_id x -> y = x.
Proof.
  intros Hx Hy He.
  pose proof (file_inv_run _ _ ops (file_inv_boot (b_cfg b) (b_st b) (b_id0 b) (b_regions b) (b_stores b) (b_batch b))) as [_ N _].
  unfold reach, boot_of in *. eapply nodup_ids_eq; eauto.
Qed.
(* drCheckAsyncTimeout spelled out over the clock inputs *)
Theorem async_ok_spec_pf s :
  async_ok s = true <->
  cf_timeout (cfg s) = 0 \/
  ((forall id t, In (id, t) (c_members (clk s)) -> c_now (clk s) - t > cf_timeout (cfg s)) /\ c_now (clk s) - c_init (clk s) > cf_timeout (cfg s)).
Proof.
  unfold async_ok, async_ok_at. rewrite orb_true_iff, andb_true_iff, Z.eqb_eq, forallb_forall. split.
  - intros [H|[A B]]; [left; exact H|right]. split; [|lia]. intros id t Hin. specialize (A _ Hin). cbn in A. lia.
  - intros [H|[A B]]; [left; exact H|right]. split; [|lia]. intros [id t] Hin. specialize (A _ _ Hin). cbn. lia.
Qed.

(* the start-up rule (NewReplicationModeManager / loadDRAutoSync), as what it guarantees: a stored status is served as it is (no id is
   spent, no file goes out); without a stored status the manager starts in `sync` through the ordinary switch: the id is the
   allocator's next one, the status is in storage and was offered as a file before it is served *)
Theorem startup_rule_pf c st id0 rs ss b :
  cf_dr c = true ->
  match st with
  | Some x => served (boot c st id0 rs ss b) = Some x /\ stored (boot c st id0 rs ss b) = Some x /\
              files (boot c st id0 rs ss b) = [] /\ next_id (boot c st id0 rs ss b) = id0
  | None => served (boot c st id0 rs ss b) = Some (Status Sync id0) /\ stored (boot c st id0 rs ss b) = Some (Status Sync id0) /\
            files (boot c st id0 rs ss b) = [Status Sync id0] /\ next_id (boot c st id0 rs ss b) = id0 + 1
  end.
Proof. intros Hc. unfold boot. rewrite Hc. destruct st as [x|]; cbn; repeat split; reflexivity. Qed.

(* ====================================================================================================
   A new manager on the same storage (leader change), with a storage fault at the status load
   ==================================================================================================== *)
(* a failed load of the persisted status fails the creation and touches nothing at all *)
Theorem restart_failed_load_pf s f : cf_dr (cfg s) = true -> restart s true f = (s, RErr).
Proof. intros H. unfold restart. rewrite H. reflexivity. Qed.
(* a persisted status is served as it is: no id is allocated, no file goes out, nothing is saved *)
Theorem restart_serves_stored_pf s f x s' r :
  cf_dr (cfg s) = true -> stored s = Some x -> restart s false f = (s', r) ->
  r = ROk /\ served s' = Some x /\ stored s' = Some x /\ files s' = files s /\ next_id s' = next_id s /\ cur_key s' = "" /\ cur_cnt s' = 0.
Proof. intros H E. unfold restart. rewrite H, E. cbn. intros R; inv R. cbn. repeat split; auto. Qed.
(* the manager initialises itself (allocates an id, hands out a file) ONLY when the load succeeded and found nothing *)
Theorem restart_initialises_only_when_nothing_stored_pf s lf f s' r :
  restart s lf f = (s', r) -> (files s' <> files s \/ next_id s' <> next_id s \/ stored s' <> stored s) ->
  cf_dr (cfg s) = true /\ lf = false /\ stored s = None.
Proof.
  unfold restart. destruct (cf_dr (cfg s)); cbn [negb].
  2:{ intros H; inv H. cbn. intros [A|[A|A]]; exfalso; apply A; reflexivity. }
  destruct lf.
  { intros H; inv H. intros [A|[A|A]]; exfalso; apply A; reflexivity. }
  destruct (stored s) as [x|] eqn:E.
  { intros H; inv H. cbn. rewrite E. intros [A|[A|A]]; exfalso; apply A; reflexivity. }
  intros _ _. repeat split; reflexivity.
Qed.
