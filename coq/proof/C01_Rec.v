(* C01/C02 proofs, layer 3: the generated ranges. *)
From Coq Require Import ZArith List Bool Lia Sorted.
From PDV Require Import lib.Base gen.Gen_C01 model.C01_Tso proof.C01_Ctl proof.C01_Win.
Import ListNotations.
Local Open Scope Z_scope.

Arguments Z.shiftr : simpl never.
Arguments Z.land : simpl never.
Arguments Z.ones : simpl never.
Arguments Z.div : simpl never.
Arguments Z.mul : simpl never.
Arguments save_txn : simpl never.
Arguments set_physical : simpl never.
Arguments need_save : simpl never.
Arguments busy : simpl never.
Arguments has_pending : simpl never.
Arguments save_busy : simpl never.
Arguments locked : simpl never.

(* (P1, L1) <= (P2, L2) lexicographically *)
Definition le_pl (P1 L1 P2 L2 : Z) : Prop := P1 < P2 \/ (P1 = P2 /\ L1 <= L2).
Definition lt_pl (P1 L1 P2 L2 : Z) : Prop := P1 < P2 \/ (P1 = P2 /\ L1 < L2).

(* the whole range of r1 lies below the whole range of r2:  hi r1 < lo r2,  lo r = gL r - gcount r + 1 *)
Definition below (r1 r2 : rec) : Prop := le_pl (gP r1) (gL r1) (gP r2) (gL r2 - gcount r2).

Fixpoint ordered (l : list rec) : Prop :=
  match l with
  | [] => True
  | r2 :: b => (glegit r2 = true -> forall r1, In r1 b -> glegit r1 = true -> below r1 r2) /\ ordered b
  end.

Fixpoint tb_sorted (l : list rec) : Prop :=
  match l with
  | [] => True
  | r2 :: b => (forall r1, In r1 b -> (gtb r1 < gtb r2)%nat) /\ tb_sorted b
  end.

Definition ur_args (u : ur_st) : option (Z * Z) :=
  match u with RIdle => None | RChecked p l | RDeciding p l | RSaved p l => Some (p, l) end.

Record Rinv (s : state) : Prop := {
  r_e1  : forall r, In r (recs s) -> exists w, W s = Some w /\ gP r * ns_per_ms < w;
  r_e4  : forall r, In r (recs s) -> is_pending r = true -> owner s = Some (gm r) -> glegit r = true;
  r_g   : forall r te, In r (recs s) -> gst r = Granted te -> glegit r = true;
  r_e5  : forall m p, owner s = Some m -> phys (mems s m) = Some p ->
            forall r, In r (recs s) -> glegit r = true -> le_pl (gP r) (gL r) (ms p) (logical (mems s m));
  r_e5s : forall m n, owner s = Some m -> syn (mems s m) = SPendSet n ->
            forall r, In r (recs s) -> glegit r = true -> gP r < ms n;
  r_ur  : forall m up ul, ur_args (ur (mems s m)) = Some (up, ul) ->
            exists p, phys (mems s m) = Some p /\ lt_pl (ms p) (logical (mems s m)) (ms up) ul /\ 0 <= ul;
  r_log : forall m, 0 <= logical (mems s m);
  r_ord : ordered (recs s);
  r_cnt : forall r, In r (recs s) -> 0 < gcount r <= gL r;
  r_tb  : forall r, In r (recs s) -> (gtb r < clock s)%nat;
  r_te  : forall r te, In r (recs s) -> gst r = Granted te -> (gtb r < te)%nat /\ (te < clock s)%nat;
  r_srt : tb_sorted (recs s)
}.

Lemma rinv_init iv gap : Rinv (init iv gap).
Proof. constructor; cbn; intros; try contradiction; try discriminate; auto; lia. Qed.

Definition bump (s : state) : state :=
  State (W s) (owner s) (mems s) (recs s) (S (clock s)) (interval s) (gap_ms s).

(* frame: records and owner unchanged, window not lowered, memory of every member unchanged *)
Lemma rinv_ext s s' :
  Rinv s -> recs s' = recs s -> owner s' = owner s -> clock s' = clock s ->
  (W s' = W s \/ (opt_le (W s) (W s') /\ W s' <> None)) ->
  (forall m, phys (mems s' m) = phys (mems s m) /\ logical (mems s' m) = logical (mems s m) /\
             (forall n, syn (mems s' m) = SPendSet n -> syn (mems s m) = SPendSet n) /\
             (ur_args (ur (mems s' m)) = ur_args (ur (mems s m)) \/ ur_args (ur (mems s' m)) = None)) ->
  Rinv (bump s').
Proof.
  intros [E1 E4 G E5 E5s URA LOG ORD CNT TB TE SRT] HR HO HC HW HF.
  constructor; cbn; rewrite ?HR, ?HO, ?HC; auto.
  - intros r Hr. destruct (E1 _ Hr) as (w & Hw & Hlt).
    destruct HW as [->|(Hle & Hnn)]; [eauto|].
    rewrite Hw in Hle. destruct (W s') as [w'|]; [|contradiction]. cbn in Hle. exists w'. split; [reflexivity|lia].
  - intros m p Ho Hp r Hr Hl. destruct (HF m) as (F1 & F2 & _). rewrite F1 in Hp. rewrite F2. eapply E5; eauto.
  - intros m n Ho Hs. destruct (HF m) as (_ & _ & F3 & _). eapply E5s; eauto.
  - intros m up ul Hu. destruct (HF m) as (F1 & F2 & _ & [F4|F4]); rewrite F4 in Hu; [|discriminate].
    rewrite F1, F2. eapply URA; eauto.
  - intros m. destruct (HF m) as (_ & F2 & _). rewrite F2. apply LOG.
  - intros r Hr. specialize (TB _ Hr). lia.
  - intros r te Hr Hg. destruct (TE _ _ Hr Hg). lia.
Qed.

Lemma nspm_pos : 0 < ns_per_ms. Proof. reflexivity. Qed.
Lemma ms_mul x : ms (x * ns_per_ms) = x.
Proof. unfold ms. apply Z.div_mul. unfold ns_per_ms; lia. Qed.
Lemma ms_le p : ms p * ns_per_ms <= p.
Proof. unfold ms. rewrite Z.mul_comm. apply Z.mul_div_le. exact nspm_pos. Qed.
Lemma ms_mono a b : a <= b -> ms a <= ms b.
Proof. unfold ms. intros. apply Z.div_le_mono; [exact nspm_pos|assumption]. Qed.
Lemma ms_lower q a : q * ns_per_ms <= a -> q <= ms a.
Proof. unfold ms. intros. apply Z.div_le_lower_bound; [exact nspm_pos|lia]. Qed.

Lemma in_set_nth l i st r' :
  In r' (set_nth l i st) -> In r' l \/ exists r, nth_error l i = Some r /\ r' = set_status r st.
Proof.
  revert i; induction l as [|r0 t IH]; intros i; destruct i; cbn; try tauto.
  - intros [<-|H]; [right; eauto|left; auto].
  - intros [<-|H]; [left; auto|]. destruct (IH _ H) as [H1|H1]; [left; auto|right; exact H1].
Qed.

Lemma in_set_nth_strip l i st r' :
  In r' (set_nth l i st) -> exists r, In r l /\ gm r' = gm r /\ gP r' = gP r /\ gL r' = gL r /\ gcount r' = gcount r /\
                                      gtb r' = gtb r /\ glegit r' = glegit r /\ (gst r' = gst r \/ gst r' = st).
Proof.
  intros H. destruct (in_set_nth _ _ _ _ H) as [H1|(r & Hn & ->)].
  - exists r'. repeat split; auto.
  - exists r. split; [eapply nth_error_In; eauto|]. cbn. repeat split; auto.
Qed.

Lemma ordered_set_nth l i st : ordered l -> ordered (set_nth l i st).
Proof.
  revert i; induction l as [|r0 t IH]; intros i; destruct i; cbn; auto.
  - intros [H1 H2]. split; [|apply IH; exact H2].
    intros Hl r1 Hr1 Hl1. destruct (in_set_nth_strip _ _ _ _ Hr1) as (r & Hr & _ & EP & EL & _ & _ & ELg & _).
    unfold below. rewrite EP, EL. apply H1; auto. congruence.
Qed.

Lemma tb_sorted_set_nth l i st : tb_sorted l -> tb_sorted (set_nth l i st).
Proof.
  revert i; induction l as [|r0 t IH]; intros i; destruct i; cbn; auto.
  - intros [H1 H2]. split; [|apply IH; exact H2].
    intros r1 Hr1. destruct (in_set_nth_strip _ _ _ _ Hr1) as (r & Hr & _ & _ & _ & _ & ETb & _).
    rewrite ETb. apply H1; auto.
Qed.

Lemma has_pending_in s m r : In r (recs s) -> gm r = m -> is_pending r = true -> has_pending s m = true.
Proof.
  intros Hr Hm Hp. unfold has_pending. apply existsb_exists. exists r. split; [exact Hr|].
  rewrite Hm, Nat.eqb_refl, Hp. reflexivity.
Qed.

Lemma le_pl_trans_lt P1 L1 P2 L2 P3 L3 : le_pl P1 L1 P2 L2 -> lt_pl P2 L2 P3 L3 -> le_pl P1 L1 P3 L3.
Proof. unfold le_pl, lt_pl. lia. Qed.

Ltac inj :=
  repeat match goal with
  | H : Some _ = Some _ |- _ => inversion H; subst; clear H
  | H : (_, _) = (_, _) |- _ => inversion H; subst; clear H
  | H : None = Some _ |- _ => discriminate H
  | H : Some _ = None |- _ => discriminate H
  | H : true = false |- _ => discriminate H
  | H : false = true |- _ => discriminate H
  | H : SPendSet _ = SPendSet _ |- _ => inversion H; subst; clear H
  end.

Ltac ext_mem m :=
  let m' := fresh "m'" in
  intros m'; cbn; unfold upd_f; destruct (Nat.eqb_spec m' m); subst; cbn; repeat split; auto; try (intros; discriminate).

Lemma rinv_step0 s l s' :
  Ctl s -> Cfg s -> Win s -> Rinv s -> step0 s l = Some s' -> Rinv (bump s').
Proof.
  intros C G Wn I H. pose proof (wmono_step0 _ _ _ C G Wn H) as Hmono.
  pose proof I as [E1 E4 GR E5 E5s URA LOG ORD CNT TB TE SRT].
  pose proof C as [E2 NONE FL SYN UR PEND]. pose proof Wn as [D1 D1b D2 D3s D3u D3r D4 Du Dr Mx Su Sr Ls].
  pose proof guard_pos as Hgp. pose proof guard_ge_ms as Hgm. pose proof nspm_pos as Hnp. unfold Cfg in G.
  assert (Hsame : forall s1, recs s1 = recs s -> owner s1 = owner s -> clock s1 = clock s -> W s1 = W s ->
            (forall m, phys (mems s1 m) = phys (mems s m) /\ logical (mems s1 m) = logical (mems s m) /\
                       (forall n, syn (mems s1 m) = SPendSet n -> syn (mems s m) = SPendSet n) /\
                       (ur_args (ur (mems s1 m)) = ur_args (ur (mems s m)) \/ ur_args (ur (mems s1 m)) = None)) ->
            Rinv (bump s1)).
  { intros s1 H1 H2 H3 H4 H5. apply (rinv_ext s); auto. }
  destruct l; cbn in H.
  - (* LElect *)
    destruct (owner s) eqn:Eo; [discriminate|]. destruct (busy s m) eqn:Eb; [discriminate|]. inj.
    unfold busy in Eb. apply orb_false_iff in Eb as [Eb Ep]. apply negb_false_iff in Eb.
    apply andb_true_iff in Eb as [Eb Hiu]. apply andb_true_iff in Eb as [Eb Hiup]. apply andb_true_iff in Eb as [Hic His].
    assert (Hn : phys (mems s m) = None) by (apply NONE; destruct (ctl (mems s m)); try discriminate; reflexivity).
    constructor; cbn; unfold upd_f; auto.
    + intros r Hr Hp Ho. inversion Ho as [Hm]. rewrite (has_pending_in s m r Hr (eq_sym Hm) Hp) in Ep. discriminate.
    + intros m' p Ho. inversion Ho; subst m'. rewrite Nat.eqb_refl. cbn. rewrite Hn. discriminate.
    + intros m' n Ho. inversion Ho; subst m'. rewrite Nat.eqb_refl. cbn. destruct (syn (mems s m)); discriminate.
    + intros m'. destruct (Nat.eqb_spec m' m); subst; cbn; apply URA.
    + intros m'. destruct (Nat.eqb_spec m' m); subst; cbn; apply LOG.
    + intros r Hr. specialize (TB _ Hr). lia.
    + intros r te Hr Hg. destruct (TE _ _ Hr Hg). lia.
  - (* LValidOff *)
    inj. apply Hsame; auto. ext_mem m.
  - (* LValidOn *)
    destruct (is_owner s m || negb (busy s m)); [|discriminate]. inj. apply Hsame; auto. ext_mem m.
  - (* LOwnerGone *)
    destruct (owner s) as [m|] eqn:Eo; [|discriminate]. destruct (valid (mems s m)); [discriminate|]. inj.
    constructor; cbn; auto; try discriminate.
    + intros r Hr. specialize (TB _ Hr). lia.
    + intros r te Hr Hg. destruct (TE _ _ Hr Hg). lia.
  - (* LSyncLoad *)
    destruct (ctl (mems s m)) eqn:Ec; try discriminate. destruct (syn (mems s m)) eqn:Es; try discriminate.
    destruct (save_busy (mems s m)); [discriminate|]. inj. apply Hsame; auto. ext_mem m.
  - (* LSyncSave *)
    destruct (syn (mems s m)) as [|last|] eqn:Es; try discriminate.
    set (next := match last with Some l0 => if now - l0 <? guard then l0 + guard else now | None => now end) in *.
    set (t := next + interval s) in *.
    assert (Hnext : forall l0, last = Some l0 -> l0 + guard <= next).
    { intros l0 ->. subst next. destruct (now - l0 <? guard) eqn:E; [lia|]. apply Z.ltb_ge in E. lia. }
    pose proof (SYN m) as Hc. rewrite Es in Hc. specialize (Hc eq_refl).
    destruct (FL m) as [Hu Hr]; [rewrite Hc; reflexivity|].
    destruct (save_txn s m o t) as [s1 acked] eqn:Et.
    destruct (save_txn_cases s m o t) as [(Hs1 & Hack)|(Ho & Hs1 & Hack1 & Hack2 & Hna)]; rewrite Et in *; cbn in Hs1; subst s1.
    + cbn in Hack. subst acked. inj. apply Hsame; auto. ext_mem m.
    + destruct acked; inj.
      * (* acknowledged: the pending physical time is above every legit range generated so far *)
        cbn in Hmono.
        assert (HX : Rinv (State (W s) (owner s)
                 (upd_f (mems s) m (with_syn (with_saved (mems s m) t) (SPendSet next))) (recs s) (clock s) (interval s) (gap_ms s))).
        { constructor; cbn; unfold upd_f; auto.
          all: try solve [ intros m' p Ho' Hp r Hr' Hl; destruct (Nat.eqb_spec m' m); subst; cbn in *; eapply E5; eauto ].
          all: try solve [ intros m'; destruct (Nat.eqb_spec m' m); subst; cbn; apply URA ].
          all: try solve [ intros m'; destruct (Nat.eqb_spec m' m); subst; cbn; apply LOG ].
          intros m' n Ho' Hs r Hr' Hl. destruct (Nat.eqb_spec m' m); subst; cbn in *; [|eapply E5s; eauto]. inj.
          destruct (E1 _ Hr') as (w & Hw & Hlt). rewrite (D4 _ _ Ho Es) in Hw. specialize (Hnext _ Hw).
          assert (Hq : (gP r + 1) * ns_per_ms <= next) by lia. apply ms_lower in Hq. lia. }
        apply (rinv_ext _ _ HX); auto.
        all: try solve [ right; split; [exact Hmono|discriminate] ].
        all: try solve [ intros m'; cbn; repeat split; auto ].
      * (* applied but not acknowledged: only the window moved *)
        apply (rinv_ext s); auto.
        -- right. split; [exact Hmono|cbn; discriminate].
        -- ext_mem m.
  - (* LSyncSet *)
    destruct (syn (mems s m)) as [| |next] eqn:Es; try discriminate.
    destruct (locked (mems s m)) eqn:El; [discriminate|]. inj.
    pose proof (SYN m) as Hc. rewrite Es in Hc. specialize (Hc eq_refl).
    destruct (FL m) as [Hu Hr]; [rewrite Hc; reflexivity|].
    assert (Hn : phys (mems s m) = None) by (apply NONE; rewrite Hc; reflexivity).
    unfold set_physical. rewrite Hn. cbn.
    constructor; cbn; unfold upd_f; auto.
    + intros m' p Ho Hp r Hr' Hl. destruct (Nat.eqb_spec m' m); subst; cbn in *; [|eapply E5; eauto]. inj.
      left. eapply E5s; eauto.
    + intros m' n Ho Hs. destruct (Nat.eqb_spec m' m); subst; cbn in *; [discriminate|eapply E5s; eauto].
    + intros m' up ul. destruct (Nat.eqb_spec m' m); subst; cbn; [rewrite Hr; discriminate|apply URA].
    + intros m'. destruct (Nat.eqb_spec m' m); subst; cbn; [lia|apply LOG].
    + intros r Hr'. specialize (TB _ Hr'). lia.
    + intros r te Hr' Hg. destruct (TE _ _ Hr' Hg). lia.
  - (* LUpdRead *)
    destruct (upd (mems s m)) eqn:Eu; try discriminate.
    destruct (valid (mems s m) && negb (locked (mems s m))) eqn:Ev; [|discriminate].
    destruct (phys (mems s m)) as [p|] eqn:Ep; [|inj; apply Hsame; auto].
    destruct (guard <? now - p); [inj; apply Hsame; auto; ext_mem m|].
    destruct (_ <? logical (mems s m)); inj; apply Hsame; auto; ext_mem m.
  - (* LUpdDecide *)
    destruct (upd (mems s m)); try discriminate. destruct (save_busy (mems s m)); [discriminate|].
    destruct (need_save (refreshed (mems s m) (W s)) next); inj; apply Hsame; auto; ext_mem m.
  - (* LUpdSave *)
    destruct (upd (mems s m)) as [| |next|] eqn:Eu; try discriminate.
    set (t := next + interval s) in *.
    destruct (save_txn s m o t) as [s1 acked] eqn:Et.
    destruct (save_txn_cases s m o t) as [(Hs1 & Hack)|(Ho & Hs1 & Hack1 & Hack2 & Hna)]; rewrite Et in *; cbn in Hs1; subst s1.
    + cbn in Hack. subst acked. inj. apply Hsame; auto. ext_mem m.
    + destruct acked; inj; apply (rinv_ext s); auto; try (right; split; [exact Hmono|cbn; discriminate]); ext_mem m.
  - (* LUpdSet *)
    destruct (upd (mems s m)) as [| | |next] eqn:Eu; try discriminate.
    destruct (locked (mems s m)) eqn:El; [discriminate|]. inj.
    assert (Hri : ur (mems s m) = RIdle) by (unfold locked in El; destruct (ur (mems s m)); try discriminate; reflexivity).
    unfold set_physical. destruct (phys (mems s m)) as [p|] eqn:Ep.
    + destruct (0 <? ms next - ms p) eqn:Egt.
      * apply Z.ltb_lt in Egt.
        constructor; cbn; unfold upd_f; auto.
        -- intros m' p' Ho Hp r Hr' Hl. destruct (Nat.eqb_spec m' m); subst; cbn in *; [|eapply E5; eauto]. inj.
           specialize (E5 _ _ Ho Ep _ Hr' Hl). unfold le_pl in *. lia.
        -- intros m' n Ho Hs. destruct (Nat.eqb_spec m' m); subst; cbn in *; eapply E5s; eauto.
        -- intros m' up ul. destruct (Nat.eqb_spec m' m); subst; cbn; [rewrite Hri; discriminate|apply URA].
        -- intros m'. destruct (Nat.eqb_spec m' m); subst; cbn; [lia|apply LOG].
        -- intros r Hr'. specialize (TB _ Hr'). lia.
        -- intros r te Hr' Hg. destruct (TE _ _ Hr' Hg). lia.
      * apply Hsame; auto. ext_mem m.
    + apply Hsame; auto. ext_mem m.
  - (* LURBegin *)
    destruct (ur (mems s m)) eqn:Er; try discriminate.
    destruct (valid (mems s m)) eqn:Ev; [|inj; apply Hsame; auto].
    destruct (phys (mems s m)) as [p|] eqn:Ep; [|inj; apply Hsame; auto].
    destruct (Z.shiftr ts 18 - ms p <? 0) eqn:E1'; [inj; apply Hsame; auto|].
    destruct ((Z.shiftr ts 18 - ms p =? 0) && (Z.land ts (Z.ones 18) - logical (mems s m) <=? 0)) eqn:E2'; [inj; apply Hsame; auto|].
    destruct (gap_ms s <=? _); inj; [apply Hsame; auto|].
    apply Z.ltb_ge in E1'.
    constructor; cbn; unfold upd_f; auto.
    + intros m' p' Ho Hp. destruct (Nat.eqb_spec m' m); subst; cbn in *; eapply E5; eauto.
    + intros m' n Ho Hs. destruct (Nat.eqb_spec m' m); subst; cbn in *; eapply E5s; eauto.
    + intros m' up ul. destruct (Nat.eqb_spec m' m); subst; cbn; [|apply URA].
      intros Hx. inj. exists p. split; [exact Ep|]. rewrite ms_mul. split.
      * unfold lt_pl. apply andb_false_iff in E2' as [E2'|E2'].
        -- apply Z.eqb_neq in E2'. lia.
        -- apply Z.leb_gt in E2'. lia.
      * apply Z.land_nonneg. right. unfold Z.ones. cbn. lia.
    + intros m'. destruct (Nat.eqb_spec m' m); subst; cbn; apply LOG.
    + intros r Hr'. specialize (TB _ Hr'). lia.
    + intros r te Hr' Hg. destruct (TE _ _ Hr' Hg). lia.
  - (* LURDecide *)
    destruct (ur (mems s m)) as [|p l0| |] eqn:Er; try discriminate. destruct (save_busy (mems s m)); [discriminate|].
    destruct (need_save (refreshed (mems s m) (W s)) p); inj; apply Hsame; auto; ext_mem m; rewrite Er; auto.
  - (* LURSave *)
    destruct (ur (mems s m)) as [| |p l0|] eqn:Er; try discriminate.
    set (t := p + interval s) in *.
    destruct (save_txn s m o t) as [s1 acked] eqn:Et.
    destruct (save_txn_cases s m o t) as [(Hs1 & Hack)|(Ho & Hs1 & Hack1 & Hack2 & Hna)]; rewrite Et in *; cbn in Hs1; subst s1.
    + cbn in Hack. subst acked. inj. apply Hsame; auto. ext_mem m.
    + destruct acked; inj; apply (rinv_ext s); auto; try (right; split; [exact Hmono|cbn; discriminate]); ext_mem m; rewrite Er; auto.
  - (* LUREnd *)
    destruct (ur (mems s m)) as [| | |p l0] eqn:Er; try discriminate. inj.
    destruct (URA m p l0) as (p0 & Hp0 & Hlt & Hl0); [rewrite Er; reflexivity|].
    constructor; cbn; unfold upd_f; auto.
    + intros m' p' Ho Hp r Hr' Hl. destruct (Nat.eqb_spec m' m); subst; cbn in *; [|eapply E5; eauto]. inj.
      eapply le_pl_trans_lt; [eapply E5; eauto|exact Hlt].
    + intros m' n Ho Hs. destruct (Nat.eqb_spec m' m); subst; cbn in *; eapply E5s; eauto.
    + intros m' up ul. destruct (Nat.eqb_spec m' m); subst; cbn; [discriminate|apply URA].
    + intros m'. destruct (Nat.eqb_spec m' m); subst; cbn; [exact Hl0|apply LOG].
    + intros r Hr'. specialize (TB _ Hr'). lia.
    + intros r te Hr' Hg. destruct (TE _ _ Hr' Hg). lia.
  - (* LGen *)
    destruct (phys (mems s m)) as [p|] eqn:Ep; [|discriminate].
    destruct (negb (locked (mems s m)) && (0 <? count)) eqn:Ec; [|discriminate]. inj.
    apply andb_true_iff in Ec as [El Ecnt]. apply negb_true_iff in El. apply Z.ltb_lt in Ecnt.
    assert (Hri : ur (mems s m) = RIdle) by (unfold locked in El; destruct (ur (mems s m)); try discriminate; reflexivity).
    destruct (D2 _ _ Ep) as (sv & Hsv & Hlt). destruct (D1b _ _ Hsv) as (w & Hw & Hle).
    pose proof (ms_le p) as Hms. pose proof (LOG m) as Hlog.
    constructor; cbn; unfold upd_f.
    + intros r [<-|Hr']; cbn; [exists w; split; [exact Hw|lia]|apply E1; exact Hr'].
    + intros r [<-|Hr']; cbn; [intros _ Ho; apply is_owner_refl; exact Ho|apply E4; exact Hr'].
    + intros r te [<-|Hr']; cbn; [discriminate|apply GR; exact Hr'].
    + intros m' p' Ho Hp r [<-|Hr'] Hl; destruct (Nat.eqb_spec m' m); subst; cbn in *.
      * inj. right. split; [reflexivity|lia].
      * apply is_owner_true in Hl. congruence.
      * inj. specialize (E5 _ _ Ho Ep _ Hr' Hl). unfold le_pl in *. lia.
      * eapply E5; eauto.
    + intros m' n Ho Hs r [<-|Hr'] Hl; destruct (Nat.eqb_spec m' m); subst; cbn in *.
      * pose proof (SYN m) as Hc. rewrite Hs in Hc. specialize (Hc eq_refl).
        rewrite (NONE m) in Ep; [discriminate|rewrite Hc; reflexivity].
      * apply is_owner_true in Hl. congruence.
      * eapply E5s; eauto.
      * eapply E5s; eauto.
    + intros m' up ul. destruct (Nat.eqb_spec m' m); subst; cbn; [rewrite Hri; discriminate|apply URA].
    + intros m'. destruct (Nat.eqb_spec m' m); subst; cbn; [lia|apply LOG].
    + split; [|exact ORD]. cbn. intros Hl r1 Hr1 Hl1. apply is_owner_true in Hl.
      specialize (E5 _ _ Hl Ep _ Hr1 Hl1). unfold below, le_pl in *. cbn. lia.
    + intros r [<-|Hr']; cbn; [lia|apply CNT; exact Hr'].
    + intros r [<-|Hr']; cbn; [lia|]. specialize (TB _ Hr'). lia.
    + intros r te [<-|Hr'] Hg; cbn in *; [discriminate|]. destruct (TE _ _ Hr' Hg). lia.
    + split; [|exact SRT]. cbn. intros r1 Hr1. apply TB. exact Hr1.
  - (* LRespond *)
    destruct (nth_error (recs s) i) as [r0|] eqn:En; [|discriminate].
    destruct (Nat.eqb (gm r0) m && is_pending r0) eqn:Ec; [|discriminate]. inj.
    apply andb_true_iff in Ec as [Em Epd]. apply Nat.eqb_eq in Em.
    assert (Hin0 : In r0 (recs s)) by (eapply nth_error_In; eauto).
    set (st := if max_logical <=? gL r0 then Dropped else if valid (mems s m) then Granted (clock s) else Dropped).
    assert (Hgr : forall te, st = Granted te -> glegit r0 = true /\ te = clock s).
    { intros te Hst. subst st. destruct (max_logical <=? gL r0); [discriminate|].
      destruct (valid (mems s m)) eqn:Ev; [|discriminate]. inversion Hst. split; [|reflexivity].
      apply E4; auto. rewrite Em. apply E2; [exact Ev|]. unfold busy.
      rewrite (has_pending_in s m r0 Hin0 Em Epd). apply orb_true_r. }
    assert (Hnpd : st <> Pending) by (subst st; destruct (max_logical <=? gL r0); [discriminate|destruct (valid (mems s m)); discriminate]).
    clearbody st.
    constructor; cbn; [ | | | | |exact URA|exact LOG| | | | | ].
    + intros r Hr'. destruct (in_set_nth_strip _ _ _ _ Hr') as (r1 & Hr1 & _ & EP & _). rewrite EP. apply E1; exact Hr1.
    + intros r Hr' Hp Ho. destruct (in_set_nth_strip _ _ _ _ Hr') as (r1 & Hr1 & EM & _ & _ & _ & _ & ELg & [Est|Est]).
      * rewrite ELg. apply E4; auto; [unfold is_pending in *; rewrite <- Est; exact Hp|congruence].
      * exfalso. unfold is_pending in Hp. rewrite Est in Hp. destruct st; try discriminate. apply Hnpd; reflexivity.
    + intros r te Hr' Hg. destruct (in_set_nth _ _ _ _ Hr') as [Hr1|(r1 & Hn1 & ->)].
      * eapply GR; eauto.
      * cbn in Hg. rewrite En in Hn1. inversion Hn1; subst r1. cbn. destruct (Hgr _ Hg). assumption.
    + intros m' p Ho Hp r Hr' Hl. destruct (in_set_nth_strip _ _ _ _ Hr') as (r1 & Hr1 & _ & EP & EL & _ & _ & ELg & _).
      rewrite EP, EL. eapply E5; eauto; congruence.
    + intros m' n Ho Hs r Hr' Hl. destruct (in_set_nth_strip _ _ _ _ Hr') as (r1 & Hr1 & _ & EP & _ & _ & _ & ELg & _).
      rewrite EP. eapply E5s; eauto; congruence.
    + apply ordered_set_nth. exact ORD.
    + intros r Hr'. destruct (in_set_nth_strip _ _ _ _ Hr') as (r1 & Hr1 & _ & _ & EL & EC & _). rewrite EL, EC. apply CNT; exact Hr1.
    + intros r Hr'. destruct (in_set_nth_strip _ _ _ _ Hr') as (r1 & Hr1 & _ & _ & _ & _ & ET & _). rewrite ET. specialize (TB _ Hr1). lia.
    + intros r te Hr' Hg. destruct (in_set_nth _ _ _ _ Hr') as [Hr1|(r1 & Hn1 & ->)].
      * destruct (TE _ _ Hr1 Hg). lia.
      * cbn in Hg. rewrite En in Hn1. inversion Hn1; subst r1. cbn. destruct (Hgr _ Hg) as [_ ->]. specialize (TB _ Hin0). lia.
    + apply tb_sorted_set_nth. exact SRT.
  - (* LReset *)
    destruct (locked (mems s m)) eqn:El; [discriminate|]. inj.
    assert (Hri : ur (mems s m) = RIdle) by (unfold locked in El; destruct (ur (mems s m)); try discriminate; reflexivity).
    constructor; cbn; unfold upd_f; [exact E1|exact E4|exact GR| | | | |exact ORD|exact CNT| | |exact SRT].
    + intros m' p Ho Hp. destruct (Nat.eqb_spec m' m); subst; cbn in *; [discriminate|eapply E5; eauto].
    + intros m' n Ho Hs. destruct (Nat.eqb_spec m' m); subst; cbn in *; eapply E5s; eauto.
    + intros m' up ul. destruct (Nat.eqb_spec m' m); subst; cbn; [rewrite Hri; discriminate|apply URA].
    + intros m'. destruct (Nat.eqb_spec m' m); subst; cbn; [lia|apply LOG].
    + intros r Hr'. specialize (TB _ Hr'). lia.
    + intros r te Hr' Hg. destruct (TE _ _ Hr' Hg). lia.
  - (* LTermEnd *)
    destruct (locked (mems s m)) eqn:El; [discriminate|].
    assert (Hri : ur (mems s m) = RIdle) by (unfold locked in El; destruct (ur (mems s m)); try discriminate; reflexivity).
    destruct (ctl (mems s m)) eqn:Ectl; try discriminate; inj.
    all: (constructor; cbn; unfold upd_f; [exact E1|exact E4|exact GR| | | | |exact ORD|exact CNT| | |exact SRT]).
    all: try solve [ intros m' p Ho Hp; destruct (Nat.eqb_spec m' m); subst; cbn in *; [discriminate|eapply E5; eauto] ].
    all: try solve [ intros m' n Ho Hs; destruct (Nat.eqb_spec m' m); subst; cbn in *; eapply E5s; eauto ].
    all: try solve [ intros m' up ul; destruct (Nat.eqb_spec m' m); subst; cbn; [rewrite Hri; discriminate|apply URA] ].
    all: try solve [ intros m'; destruct (Nat.eqb_spec m' m); subst; cbn; [lia|apply LOG] ].
    all: try solve [ intros r Hr'; specialize (TB _ Hr'); lia ].
    all: try solve [ intros r te Hr' Hg; destruct (TE _ _ Hr' Hg); lia ].
  - (* LUpdAbort *)
    destruct (upd (mems s m)); try discriminate. destruct (save_busy (mems s m)); [discriminate|].
    destruct (unsure (mems s m)); [|discriminate]. inj. apply Hsame; auto; ext_mem m.
  - (* LURAbort *)
    destruct (ur (mems s m)) as [|p l0| |] eqn:Er; try discriminate. destruct (save_busy (mems s m)); [discriminate|].
    destruct (unsure (mems s m)); [|discriminate]. inj. apply Hsame; auto; ext_mem m; rewrite Er; auto.
Qed.
