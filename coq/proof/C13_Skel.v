(* Structural obligations on the code as it is now (regenerated gen/Gen_C13.v): model/C13_Rules.v was
   written against exactly these skeletons (where the validation, the storage writes and the in-memory
   commit sit in tryCommitPatch / savePatch / Initialize / the update entry points), the compareRule case
   table, the statement texts of the sweep, the lookups, prepareRulesForApply and the patch/config code. *)
From Coq Require Import ZArith NArith List String.
From PDV Require Import lib.Skel gen.Gen_C13.
Import ListNotations.
Open Scope string_scope.

Lemma skel_tryCommitPatch_ok : skel_tryCommitPatch =
  [Call "adjust"; Call "buildRuleList"; Assign "ruleList" ":= buildRuleList(patch)"; IfE "err != nil" [Call "adjust"; Ret] []; Call "trim"; Call "savePatch"; IfE "err != nil" [Call "adjust"; Ret] []; Call "commit"; Assign "m.ruleList" "= ruleList"; Ret].
Proof. reflexivity. Qed.

Lemma skel_savePatch_ok : skel_savePatch =
  [ForE [IfE "r == nil" [Call "DeleteRule"] [Call "SaveRule"]; IfE "err != nil" [Ret] []]; ForE [Call "isDefault"; IfE "g.isDefault()" [Call "DeleteRuleGroup"] [Call "SaveRuleGroup"]; IfE "err != nil" [Ret] []]; Ret].
Proof. reflexivity. Qed.

Lemma skel_Initialize_ok : skel_Initialize =
  [Lock "m"; DeferUnlock "m"; IfE "m.initialized" [Ret] []; Call "loadRules"; IfE "err != nil" [Ret] []; Call "loadGroups"; IfE "err != nil" [Ret] []; IfE "len(m.ruleConfig.rules) == 0" [Call "SaveRule"; IfE "err != nil" [Ret] []; Call "setRule"] []; Call "adjust"; Call "buildRuleList"; Assign "ruleList" ":= buildRuleList(m.ruleConfig)"; IfE "err != nil" [Ret] []; Assign "m.ruleList" "= ruleList"; Assign "m.initialized" "= true"; Ret].
Proof. reflexivity. Qed.

Lemma skel_loadRules_ok : skel_loadRules =
  [DeferE [IfE "err != nil" [Ret] []; Call "adjustRule"; IfE "err != nil" [Ret] []; IfE "ok" [Ret] []]; Call "LoadRules"; IfE "err != nil" [Ret] []; ForE [Call "SaveRule"; IfE "err != nil" [Ret] []]; ForE [Call "DeleteRule"; IfE "err != nil" [Ret] []]; Ret].
Proof. reflexivity. Qed.

Lemma skel_loadGroups_ok : skel_loadGroups =
  [DeferE [IfE "err != nil" [Ret] []]; Call "LoadRuleGroups"; Ret].
Proof. reflexivity. Qed.

Lemma skel_SetRule_ok : skel_SetRule =
  [Call "adjustRule"; IfE "err != nil" [Ret] []; Lock "m"; DeferUnlock "m"; Call "beginPatch"; Call "setRule"; Call "tryCommitPatch"; IfE "err != nil" [Ret] []; Ret].
Proof. reflexivity. Qed.

Lemma skel_DeleteRule_ok : skel_DeleteRule =
  [Lock "m"; DeferUnlock "m"; Call "beginPatch"; Call "deleteRule"; Call "tryCommitPatch"; IfE "err != nil" [Ret] []; Ret].
Proof. reflexivity. Qed.

Lemma skel_SetRules_ok : skel_SetRules =
  [Lock "m"; DeferUnlock "m"; Call "beginPatch"; ForE [Call "adjustRule"; IfE "err != nil" [Ret] []; Call "setRule"]; Call "tryCommitPatch"; IfE "err != nil" [Ret] []; Ret].
Proof. reflexivity. Qed.

Lemma skel_Batch_ok : skel_Batch =
  [ForE [SwitchE [[Call "adjustRule"; IfE "err != nil" [Ret] []]]]; Lock "m"; DeferUnlock "m"; Call "beginPatch"; ForE [SwitchE [[Call "setRule"]; [IfE "!t.DeleteByIDPrefix" [Call "deleteRule"] [DeferE [IfE "r.GroupID == t.GroupID && strings.HasPrefix(r.ID, t.ID)" [Call "deleteRule"] []]; Call "iterateRules"]]]]; Call "tryCommitPatch"; IfE "err != nil" [Ret] []; Ret].
Proof. reflexivity. Qed.

Lemma skel_SetRuleGroup_ok : skel_SetRuleGroup =
  [Lock "m"; DeferUnlock "m"; Call "beginPatch"; Call "setGroup"; Call "tryCommitPatch"; IfE "err != nil" [Ret] []; Ret].
Proof. reflexivity. Qed.

Lemma skel_DeleteRuleGroup_ok : skel_DeleteRuleGroup =
  [Lock "m"; DeferUnlock "m"; Call "beginPatch"; Call "deleteGroup"; Call "tryCommitPatch"; IfE "err != nil" [Ret] []; Ret].
Proof. reflexivity. Qed.

Lemma skel_SetAllGroupBundles_ok : skel_SetAllGroupBundles =
  [Lock "m"; DeferUnlock "m"; Call "beginPatch"; DeferE [ForE [IfE "g.ID == a" [Ret] []]; Ret]; ForE [IfE "override || matchID(k[0])" [Call "deleteRule"] []]; ForE [IfE "override || matchID(id)" [Call "deleteGroup"] []]; ForE [Call "setGroup"; ForE [Call "adjustRule"; IfE "err != nil" [Ret] []; Call "setRule"]]; Call "tryCommitPatch"; IfE "err != nil" [Ret] []; Ret].
Proof. reflexivity. Qed.

Lemma skel_SetGroupBundle_ok : skel_SetGroupBundle =
  [Lock "m"; DeferUnlock "m"; Call "beginPatch"; IfE "ok" [ForE [IfE "k[0] == group.ID" [Call "deleteRule"] []]] []; Call "setGroup"; ForE [Call "adjustRule"; IfE "err != nil" [Ret] []; Call "setRule"]; Call "tryCommitPatch"; IfE "err != nil" [Ret] []; Ret].
Proof. reflexivity. Qed.

Lemma skel_DeleteGroupBundle_ok : skel_DeleteGroupBundle =
  [Lock "m"; DeferUnlock "m"; DeferE [Ret]; IfE "regex" [IfE "err != nil" [Ret] []] []; Call "beginPatch"; ForE [IfE "matchID(k[0])" [Call "deleteRule"] []]; ForE [IfE "matchID(g.ID)" [Call "deleteGroup"] []]; Call "tryCommitPatch"; IfE "err != nil" [Ret] []; Ret].
Proof. reflexivity. Qed.

Lemma compare_rule_cases_ok : compare_rule_cases =
  ["a.groupIndex() < b.groupIndex() => return -1"; "a.groupIndex() > b.groupIndex() => return 1"; "a.GroupID < b.GroupID => return -1"; "a.GroupID > b.GroupID => return 1"; "a.Index < b.Index => return -1"; "a.Index > b.Index => return 1"; "a.ID < b.ID => return -1"; "a.ID > b.ID => return 1"; "default => return 0"].
Proof. reflexivity. Qed.

Lemma body_Rule_groupIndex_ok : body_Rule_groupIndex =
  ["if r.group != nil { return r.group.Index }"; "return 0"].
Proof. reflexivity. Qed.

Lemma body_RuleGroup_isDefault_ok : body_RuleGroup_isDefault =
  ["return g.Index == 0 && !g.Override"].
Proof. reflexivity. Qed.

Lemma body_prepareRulesForApply_ok : body_prepareRulesForApply =
  ["var res []*Rule"; "var i, j int"; "for i = 1; i < len(rules); i++ { if rules[j].GroupID != rules[i].GroupID { if rules[i].group != nil && rules[i].group.Override { res = res[:0] } else { res = append(res, rules[j:i]...) } j = i } if rules[i].Override { j = i } }"; "return append(res, rules[j:]...)"].
Proof. reflexivity. Qed.

Lemma body_sortRules_ok : body_sortRules =
  ["sort.Slice(rules, func(i, j int) bool { return compareRule(rules[i], rules[j]) < 0 })"].
Proof. reflexivity. Qed.

Lemma body_Rule_Key_ok : body_Rule_Key =
  ["return [2]string{r.GroupID, r.ID}"].
Proof. reflexivity. Qed.

Lemma body_Rule_StoreKey_ok : body_Rule_StoreKey =
  ["return hex.EncodeToString([]byte(r.GroupID)) + ""-"" + hex.EncodeToString([]byte(r.ID))"].
Proof. reflexivity. Qed.

Lemma body_sortedRules_insertRule_ok : body_sortedRules_insertRule =
  ["i := sort.Search(len(sr.rules), func(i int) bool { return compareRule(sr.rules[i], rule) > 0 })"; "if i == len(sr.rules) { sr.rules = append(sr.rules, rule) return }"; "sr.rules = append(sr.rules[:i+1], sr.rules[i:]...)"; "sr.rules[i] = rule"].
Proof. reflexivity. Qed.

Lemma body_sortedRules_deleteRule_ok : body_sortedRules_deleteRule =
  ["for i, r := range sr.rules { if r.Key() == rule.Key() { sr.rules = append(sr.rules[:i], sr.rules[i+1:]...) return } }"].
Proof. reflexivity. Qed.

Lemma body_checkApplyRules_ok : body_checkApplyRules =
  ["leaderCount := 0"; "voterCount := 0"; "for _, rule := range rules { if rule.Role == Leader { leaderCount += rule.Count } else if rule.Role == Voter { voterCount += rule.Count } if leaderCount > 1 { return errors.New(""multiple leader replicas"") } }"; "if (leaderCount + voterCount) < 1 { return errors.New(""needs at least one leader or voter"") }"; "return nil"].
Proof. reflexivity. Qed.

Lemma body_buildRuleList_ok : body_buildRuleList =
  ["var points []splitPoint"; "rules.iterateRules(func(r *Rule) { points = append(points, splitPoint{ typ: tStart, key: r.StartKey, rule: r, }) if len(r.EndKey) > 0 { points = append(points, splitPoint{ typ: tEnd, key: r.EndKey, rule: r, }) } })"; "if len(points) == 0 { return ruleList{}, errs.ErrBuildRuleList.FastGenByArgs(""no rule left"") }"; "sort.Slice(points, func(i, j int) bool { return bytes.Compare(points[i].key, points[j].key) < 0 })"; "if len(points[0].key) > 0 { return ruleList{}, errs.ErrBuildRuleList.FastGenByArgs(fmt.Sprintf(""no rule for range {%s, %s}"", """", strings.ToUpper(hex.EncodeToString(points[0].key)))) }"; "var rl ruleList"; "var sr sortedRules"; "for i, p := range points { switch p.typ { case tStart: sr.insertRule(p.rule) case tEnd: sr.deleteRule(p.rule) } if i == len(points)-1 || !bytes.Equal(p.key, points[i+1].key) { var endKey []byte if i != len(points)-1 { endKey = points[i+1].key } rr := sr.rules if len(rr) == 0 { return ruleList{}, errs.ErrBuildRuleList.FastGenByArgs(fmt.Sprintf(""no rule for range {%s, %s}"", strings.ToUpper(hex.EncodeToString(p.key)), strings.ToUpper(hex.EncodeToString(endKey)))) } if i != len(points)-1 { rr = append(rr[:0:0], rr...) } arr := prepareRulesForApply(rr) err := checkApplyRules(arr) if err != nil { return ruleList{}, errs.ErrBuildRuleList.FastGenByArgs(fmt.Sprintf(""%s for range {%s, %s}"", err, strings.ToUpper(hex.EncodeToString(p.key)), strings.ToUpper(hex.EncodeToString(endKey)))) } rl.ranges = append(rl.ranges, rangeRules{ startKey: p.key, rules: rr, applyRules: arr, }) } }"; "return rl, nil"].
Proof. reflexivity. Qed.

Lemma body_ruleList_getSplitKeys_ok : body_ruleList_getSplitKeys =
  ["var keys [][]byte"; "i := sort.Search(len(rl.ranges), func(i int) bool { return bytes.Compare(rl.ranges[i].startKey, start) > 0 })"; "for ; i < len(rl.ranges) && (len(end) == 0 || bytes.Compare(rl.ranges[i].startKey, end) < 0); i++ { keys = append(keys, rl.ranges[i].startKey) }"; "return keys"].
Proof. reflexivity. Qed.

Lemma body_ruleList_getRulesByKey_ok : body_ruleList_getRulesByKey =
  ["i := sort.Search(len(rl.ranges), func(i int) bool { return bytes.Compare(rl.ranges[i].startKey, key) > 0 })"; "if i == 0 { return nil }"; "return rl.ranges[i-1].rules"].
Proof. reflexivity. Qed.

Lemma body_ruleList_getRulesForApplyRegion_ok : body_ruleList_getRulesForApplyRegion =
  ["i := sort.Search(len(rl.ranges), func(i int) bool { return bytes.Compare(rl.ranges[i].startKey, start) > 0 })"; "if i == 0 || i != len(rl.ranges) && (len(end) == 0 || bytes.Compare(end, rl.ranges[i].startKey) > 0) { return nil }"; "return rl.ranges[i-1].applyRules"].
Proof. reflexivity. Qed.

Lemma body_ruleConfig_adjust_ok : body_ruleConfig_adjust =
  ["for id, g := range c.groups { if g.isDefault() { delete(c.groups, id) } }"; "for _, r := range c.rules { g := c.groups[r.GroupID] if g == nil { g = &RuleGroup{ID: r.GroupID} c.groups[r.GroupID] = g } r.group = g }"].
Proof. reflexivity. Qed.

Lemma body_ruleConfig_getGroup_ok : body_ruleConfig_getGroup =
  ["if g, ok := c.groups[id]; ok { return g }"; "return &RuleGroup{ID: id}"].
Proof. reflexivity. Qed.

Lemma body_ruleConfig_iterateRules_ok : body_ruleConfig_iterateRules =
  ["for _, r := range c.rules { f(r) }"].
Proof. reflexivity. Qed.

Lemma body_ruleConfigPatch_setRule_ok : body_ruleConfigPatch_setRule =
  ["p.mut.rules[r.Key()] = r"].
Proof. reflexivity. Qed.

Lemma body_ruleConfigPatch_deleteRule_ok : body_ruleConfigPatch_deleteRule =
  ["p.mut.rules[[2]string{group, id}] = nil"].
Proof. reflexivity. Qed.

Lemma body_ruleConfigPatch_getGroup_ok : body_ruleConfigPatch_getGroup =
  ["if g, ok := p.mut.groups[id]; ok { return g }"; "if g, ok := p.c.groups[id]; ok { return g }"; "return &RuleGroup{ID: id}"].
Proof. reflexivity. Qed.

Lemma body_ruleConfigPatch_setGroup_ok : body_ruleConfigPatch_setGroup =
  ["p.mut.groups[g.ID] = g"].
Proof. reflexivity. Qed.

Lemma body_ruleConfigPatch_deleteGroup_ok : body_ruleConfigPatch_deleteGroup =
  ["p.setGroup(&RuleGroup{ID: id})"].
Proof. reflexivity. Qed.

Lemma body_ruleConfigPatch_iterateRules_ok : body_ruleConfigPatch_iterateRules =
  ["for _, r := range p.mut.rules { if r != nil { f(r) } }"; "for _, r := range p.c.rules { if _, ok := p.mut.rules[r.Key()]; !ok { f(r) } }"].
Proof. reflexivity. Qed.

Lemma body_ruleConfigPatch_adjust_ok : body_ruleConfigPatch_adjust =
  ["p.iterateRules(func(r *Rule) { r.group = p.getGroup(r.GroupID) })"].
Proof. reflexivity. Qed.

Lemma body_ruleConfigPatch_trim_ok : body_ruleConfigPatch_trim =
  ["for key, rule := range p.mut.rules { if jsonEquals(rule, p.c.getRule(key)) { delete(p.mut.rules, key) } }"; "for id, group := range p.mut.groups { if jsonEquals(group, p.c.getGroup(id)) { delete(p.mut.groups, id) } }"].
Proof. reflexivity. Qed.

Lemma body_ruleConfigPatch_commit_ok : body_ruleConfigPatch_commit =
  ["for key, rule := range p.mut.rules { if rule == nil { delete(p.c.rules, key) } else { p.c.rules[key] = rule } }"; "for id, group := range p.mut.groups { p.c.groups[id] = group }"; "p.c.adjust()"].
Proof. reflexivity. Qed.

Lemma body_jsonEquals_ok : body_jsonEquals =
  ["aa, _ := json.Marshal(a)"; "bb, _ := json.Marshal(b)"; "return bytes.Equal(aa, bb)"].
Proof. reflexivity. Qed.

Lemma body_RuleManager_GetAllRules_ok : body_RuleManager_GetAllRules =
  ["m.RLock()"; "defer m.RUnlock()"; "rules := make([]*Rule, 0, len(m.ruleConfig.rules))"; "for _, r := range m.ruleConfig.rules { rules = append(rules, r) }"; "sortRules(rules)"; "return rules"].
Proof. reflexivity. Qed.

Lemma body_RuleManager_GetRuleGroups_ok : body_RuleManager_GetRuleGroups =
  ["m.RLock()"; "defer m.RUnlock()"; "groups := make([]*RuleGroup, 0, len(m.ruleConfig.groups))"; "for _, g := range m.ruleConfig.groups { groups = append(groups, g) }"; "sort.Slice(groups, func(i, j int) bool { return groups[i].Index < groups[j].Index || (groups[i].Index == groups[j].Index && groups[i].ID < groups[j].ID) })"; "return groups"].
Proof. reflexivity. Qed.

Lemma body_RuleManager_GetRulesByKey_ok : body_RuleManager_GetRulesByKey =
  ["m.RLock()"; "defer m.RUnlock()"; "return m.ruleList.getRulesByKey(key)"].
Proof. reflexivity. Qed.

Lemma body_RuleManager_GetRulesForApplyRegion_ok : body_RuleManager_GetRulesForApplyRegion =
  ["m.RLock()"; "defer m.RUnlock()"; "return m.ruleList.getRulesForApplyRegion(region.GetStartKey(), region.GetEndKey())"].
Proof. reflexivity. Qed.

Lemma body_RuleManager_GetSplitKeys_ok : body_RuleManager_GetSplitKeys =
  ["m.RLock()"; "defer m.RUnlock()"; "return m.ruleList.getSplitKeys(start, end)"].
Proof. reflexivity. Qed.

Lemma adjust_rule_checks_ok : adjust_rule_checks =
  ["err != nil"; "err != nil"; "len(r.EndKey) > 0 && bytes.Compare(r.EndKey, r.StartKey) <= 0"; "err != nil"; "err != nil"; "groupID != r.GroupID"; "r.GroupID == """""; "r.ID == """""; "!validateRole(r.Role)"; "r.Count <= 0"; "r.Role == Leader && r.Count > 1"; "!validateOp(c.Op)"; "len(stores) > 0 && !checkRule(r, stores)"].
Proof. reflexivity. Qed.

Lemma default_group_id_ok : default_group_id =
  [112;100]%N.
Proof. reflexivity. Qed.

Lemma default_rule_id_ok : default_rule_id =
  [100;101;102;97;117;108;116]%N.
Proof. reflexivity. Qed.

Lemma default_rule_role_ok : default_rule_role =
  "Voter".
Proof. reflexivity. Qed.

Lemma rules_path_ok : rules_path =
  "rules".
Proof. reflexivity. Qed.

Lemma rule_group_path_ok : rule_group_path =
  "rule_group".
Proof. reflexivity. Qed.

Lemma minKVRangeLimit_ok : minKVRangeLimit =
  (100)%Z.
Proof. reflexivity. Qed.

Lemma body_Storage_LoadRangeByPrefix_ok : body_Storage_LoadRangeByPrefix =
  ["nextKey := prefix"; "endKey := clientv3.GetPrefixRangeEnd(prefix)"; "for { keys, values, err := s.LoadRange(nextKey, endKey, minKVRangeLimit) if err != nil { return err } for i := range keys { f(strings.TrimPrefix(keys[i], prefix), values[i]) } if len(keys) < minKVRangeLimit { return nil } nextKey = keys[len(keys)-1] + ""\x00"" }"].
Proof. reflexivity. Qed.

Lemma body_memoryKV_LoadRange_ok : body_memoryKV_LoadRange =
  ["kv.RLock()"; "defer kv.RUnlock()"; "keys := make([]string, 0, limit)"; "values := make([]string, 0, limit)"; "kv.tree.AscendRange(memoryKVItem{key, """"}, memoryKVItem{endKey, """"}, func(item btree.Item) bool { keys = append(keys, item.(memoryKVItem).key) values = append(values, item.(memoryKVItem).value) if limit > 0 { return len(keys) < limit } return true })"; "return keys, values, nil"].
Proof. reflexivity. Qed.

Lemma body_etcdKVBase_LoadRange_ok : body_etcdKVBase_LoadRange =
  ["key = strings.Join([]string{kv.rootPath, key}, ""/"")"; "endKey = strings.Join([]string{kv.rootPath, endKey}, ""/"")"; "withRange := clientv3.WithRange(endKey)"; "withLimit := clientv3.WithLimit(int64(limit))"; "resp, err := etcdutil.EtcdKVGet(kv.client, key, withRange, withLimit)"; "if err != nil { return nil, nil, err }"; "keys := make([]string, 0, len(resp.Kvs))"; "values := make([]string, 0, len(resp.Kvs))"; "for _, item := range resp.Kvs { keys = append(keys, strings.TrimPrefix(strings.TrimPrefix(string(item.Key), kv.rootPath), ""/"")) values = append(values, string(item.Value)) }"; "return keys, values, nil"].
Proof. reflexivity. Qed.

Lemma load_next_key_ok : load_next_key =
  [":= prefix"; "= keys[len(keys)-1] + ""\x00"""].
Proof. reflexivity. Qed.

Lemma body_Storage_SaveRule_ok : body_Storage_SaveRule =
  ["return s.SaveJSON(rulesPath, ruleKey, rule)"].
Proof. reflexivity. Qed.

Lemma body_Storage_DeleteRule_ok : body_Storage_DeleteRule =
  ["return s.Remove(path.Join(rulesPath, ruleKey))"].
Proof. reflexivity. Qed.

Lemma body_Storage_LoadRules_ok : body_Storage_LoadRules =
  ["return s.LoadRangeByPrefix(rulesPath+""/"", f)"].
Proof. reflexivity. Qed.

Lemma body_Storage_SaveRuleGroup_ok : body_Storage_SaveRuleGroup =
  ["return s.SaveJSON(ruleGroupPath, groupID, group)"].
Proof. reflexivity. Qed.

Lemma body_Storage_DeleteRuleGroup_ok : body_Storage_DeleteRuleGroup =
  ["return s.Remove(path.Join(ruleGroupPath, groupID))"].
Proof. reflexivity. Qed.

Lemma body_Storage_LoadRuleGroups_ok : body_Storage_LoadRuleGroups =
  ["return s.LoadRangeByPrefix(ruleGroupPath+""/"", f)"].
Proof. reflexivity. Qed.
