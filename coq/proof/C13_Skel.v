(* Structural obligations on the code as it is now (regenerated gen/Gen_C13.v): model/C13_Rules.v was
   written against exactly these skeletons (where the validation, the storage writes and the in-memory
   commit sit in tryCommitPatch / savePatch / Initialize / the update entry points), the compareRule case
   table, the statement texts of the sweep, the lookups, prepareRulesForApply and the patch/config code. *)
From Coq Require Import ZArith NArith List String.
From PDV Require Import lib.Skel gen.Gen_C13.
Import ListNotations.
Open Scope string_scope.

Lemma skel_tryCommitPatch_ok : skel_tryCommitPatch =
  [Call "adjust"; Call "buildRuleList"; IfE "_v3 != nil" [Call "adjust"; Ret] []; Call "trim"; Call "savePatch"; IfE "_v3 != nil" [Call "adjust"; Ret] []; Call "commit"; Assign "_v0.ruleList" "= _v2"; Ret].
Proof. reflexivity. Qed.

Lemma skel_savePatch_ok : skel_savePatch =
  [ForE [IfE "_v4 == nil" [Call "DeleteRule"] [Call "SaveRule"]; IfE "_v2 != nil" [Ret] []]; ForE [Call "isDefault"; IfE "_v6.isDefault()" [Call "DeleteRuleGroup"] [Call "SaveRuleGroup"]; IfE "_v2 != nil" [Ret] []]; Ret].
Proof. reflexivity. Qed.

Lemma skel_Initialize_ok : skel_Initialize =
  [Lock "_v0"; DeferUnlock "_v0"; IfE "_v0.initialized" [Ret] []; Call "newRuleConfig"; Assign "_v0.ruleConfig" "= newRuleConfig()"; Call "loadRules"; IfE "_v3 != nil" [Ret] []; Call "loadGroups"; IfE "_v4 != nil" [Ret] []; IfE "len(_v0.ruleConfig.rules) == 0" [Call "SaveRule"; IfE "_v6 != nil" [Ret] []; Call "setRule"] []; Call "adjust"; Call "buildRuleList"; IfE "_v8 != nil" [Ret] []; Assign "_v0.ruleList" "= _v7"; Assign "_v0.initialized" "= true"; Ret].
Proof. reflexivity. Qed.

Lemma skel_loadRules_ok : skel_loadRules =
  [DeferE [IfE "_v7 != nil" [Ret] []; Call "adjustRuleContent"; IfE "_v8 != nil" [Ret] []; IfE "_v9" [Ret] []]; Call "LoadRules"; IfE "_v3 != nil" [Ret] []; ForE [Call "SaveRule"; IfE "_v3 != nil" [Ret] []]; ForE [Call "DeleteRule"; IfE "_v3 != nil" [Ret] []]; Ret].
Proof. reflexivity. Qed.

Lemma skel_loadGroups_ok : skel_loadGroups =
  [DeferE [IfE "_v4 != nil" [Ret] []]; Call "LoadRuleGroups"; Ret].
Proof. reflexivity. Qed.

Lemma skel_SetRule_ok : skel_SetRule =
  [Call "adjustRule"; IfE "_v2 != nil" [Ret] []; Lock "_v0"; DeferUnlock "_v0"; Call "beginPatch"; Call "setRule"; Call "tryCommitPatch"; IfE "_v4 != nil" [Ret] []; Ret].
Proof. reflexivity. Qed.

Lemma skel_DeleteRule_ok : skel_DeleteRule =
  [Lock "_v0"; DeferUnlock "_v0"; Call "beginPatch"; Call "deleteRule"; Call "tryCommitPatch"; IfE "_v4 != nil" [Ret] []; Ret].
Proof. reflexivity. Qed.

Lemma skel_SetRules_ok : skel_SetRules =
  [Lock "_v0"; DeferUnlock "_v0"; Call "beginPatch"; ForE [Call "adjustRule"; IfE "_v4 != nil" [Ret] []; Call "setRule"]; Call "tryCommitPatch"; IfE "_v5 != nil" [Ret] []; Ret].
Proof. reflexivity. Qed.

Lemma skel_Batch_ok : skel_Batch =
  [ForE [SwitchE [[Call "adjustRule"; IfE "_v3 != nil" [Ret] []]]]; Lock "_v0"; DeferUnlock "_v0"; Call "beginPatch"; ForE [SwitchE [[Call "setRule"]; [IfE "!_v5.DeleteByIDPrefix" [Call "deleteRule"] [DeferE [IfE "_v6.GroupID == _v5.GroupID && strings.HasPrefix(_v6.ID, _v5.ID)" [Call "deleteRule"] []]; Call "iterateRules"]]]]; Call "tryCommitPatch"; IfE "_v7 != nil" [Ret] []; Ret].
Proof. reflexivity. Qed.

Lemma skel_SetRuleGroup_ok : skel_SetRuleGroup =
  [Call "checkGroupID"; IfE "_v2 != nil" [Ret] []; Lock "_v0"; DeferUnlock "_v0"; Call "beginPatch"; Call "setGroup"; Call "tryCommitPatch"; IfE "_v4 != nil" [Ret] []; Ret].
Proof. reflexivity. Qed.

Lemma skel_DeleteRuleGroup_ok : skel_DeleteRuleGroup =
  [Lock "_v0"; DeferUnlock "_v0"; Call "beginPatch"; Call "deleteGroup"; Call "tryCommitPatch"; IfE "_v3 != nil" [Ret] []; Ret].
Proof. reflexivity. Qed.

Lemma skel_SetAllGroupBundles_ok : skel_SetAllGroupBundles =
  [ForE [Call "checkGroupID"; IfE "_v4 != nil" [Ret] []]; Lock "_v0"; DeferUnlock "_v0"; Call "beginPatch"; DeferE [ForE [IfE "_v8.ID == _v7" [Ret] []]; Ret]; ForE [IfE "_v2 || _v6(_v9[0])" [Call "deleteRule"] []]; ForE [IfE "_v2 || _v6(_v10)" [Call "deleteGroup"] []]; ForE [Call "setGroup"; ForE [Call "adjustRule"; IfE "_v13 != nil" [Ret] []; Call "setRule"]]; Call "tryCommitPatch"; IfE "_v14 != nil" [Ret] []; Ret].
Proof. reflexivity. Qed.

Lemma skel_SetGroupBundle_ok : skel_SetGroupBundle =
  [Call "checkGroupID"; IfE "_v2 != nil" [Ret] []; Lock "_v0"; DeferUnlock "_v0"; Call "beginPatch"; IfE "_v4" [ForE [IfE "_v5[0] == _v1.ID" [Call "deleteRule"] []]] []; Call "setGroup"; ForE [Call "adjustRule"; IfE "_v7 != nil" [Ret] []; Call "setRule"]; Call "tryCommitPatch"; IfE "_v8 != nil" [Ret] []; Ret].
Proof. reflexivity. Qed.

Lemma skel_DeleteGroupBundle_ok : skel_DeleteGroupBundle =
  [Lock "_v0"; DeferUnlock "_v0"; DeferE [Ret]; IfE "_v2" [IfE "_v6 != nil" [Ret] []] []; Call "beginPatch"; ForE [IfE "_v3(_v8[0])" [Call "deleteRule"] []]; ForE [IfE "_v3(_v9.ID)" [Call "deleteGroup"] []]; Call "tryCommitPatch"; IfE "_v10 != nil" [Ret] []; Ret].
Proof. reflexivity. Qed.

Lemma skel_GetRule_ok : skel_GetRule =
  [RLock "_v0"; DeferRUnlock "_v0"; Ret].
Proof. reflexivity. Qed.

Lemma skel_GetSplitKeys_ok : skel_GetSplitKeys =
  [RLock "_v0"; DeferRUnlock "_v0"; Ret].
Proof. reflexivity. Qed.

Lemma skel_GetAllRules_ok : skel_GetAllRules =
  [RLock "_v0"; DeferRUnlock "_v0"; Ret].
Proof. reflexivity. Qed.

Lemma skel_GetRulesByGroup_ok : skel_GetRulesByGroup =
  [RLock "_v0"; DeferRUnlock "_v0"; Ret].
Proof. reflexivity. Qed.

Lemma skel_GetRulesByKey_ok : skel_GetRulesByKey =
  [RLock "_v0"; DeferRUnlock "_v0"; Ret].
Proof. reflexivity. Qed.

Lemma skel_GetRulesForApplyRegion_ok : skel_GetRulesForApplyRegion =
  [RLock "_v0"; DeferRUnlock "_v0"; Ret].
Proof. reflexivity. Qed.

Lemma skel_GetRuleGroup_ok : skel_GetRuleGroup =
  [RLock "_v0"; DeferRUnlock "_v0"; Ret].
Proof. reflexivity. Qed.

Lemma skel_GetRuleGroups_ok : skel_GetRuleGroups =
  [RLock "_v0"; DeferRUnlock "_v0"; DeferE [Ret]; Ret].
Proof. reflexivity. Qed.

Lemma skel_GetAllGroupBundles_ok : skel_GetAllGroupBundles =
  [RLock "_v0"; DeferRUnlock "_v0"; DeferE [Ret]; Ret].
Proof. reflexivity. Qed.

Lemma skel_GetGroupBundle_ok : skel_GetGroupBundle =
  [RLock "_v0"; DeferRUnlock "_v0"; Ret].
Proof. reflexivity. Qed.

Lemma skel_IsInitialized_ok : skel_IsInitialized =
  [RLock "_v0"; DeferRUnlock "_v0"; Ret].
Proof. reflexivity. Qed.

Lemma skel_SetKeyType_ok : skel_SetKeyType =
  [Lock "_v0"; DeferUnlock "_v0"; Assign "_v0.keyType" "= _v1"; Ret].
Proof. reflexivity. Qed.

Lemma compare_rule_cases_ok : compare_rule_cases =
  ["_v0.groupIndex() < _v1.groupIndex() => return -1"; "_v0.groupIndex() > _v1.groupIndex() => return 1"; "_v0.GroupID < _v1.GroupID => return -1"; "_v0.GroupID > _v1.GroupID => return 1"; "_v0.Index < _v1.Index => return -1"; "_v0.Index > _v1.Index => return 1"; "_v0.ID < _v1.ID => return -1"; "_v0.ID > _v1.ID => return 1"; "default => return 0"].
Proof. reflexivity. Qed.

Lemma body_Rule_groupIndex_ok : body_Rule_groupIndex =
  ["if _v0.group != nil { return _v0.group.Index }"; "return 0"].
Proof. reflexivity. Qed.

Lemma body_RuleGroup_isDefault_ok : body_RuleGroup_isDefault =
  ["return _v0.Index == 0 && !_v0.Override"].
Proof. reflexivity. Qed.

Lemma body_prepareRulesForApply_ok : body_prepareRulesForApply =
  ["var _v1 []*Rule"; "var _v2, _v3 int"; "for _v2 = 1; _v2 < len(_v0); _v2++ { if _v0[_v3].GroupID != _v0[_v2].GroupID { if _v0[_v2].group != nil && _v0[_v2].group.Override { _v1 = _v1[:0] } else { _v1 = append(_v1, _v0[_v3:_v2]...) } _v3 = _v2 } if _v0[_v2].Override { _v3 = _v2 } }"; "return append(_v1, _v0[_v3:]...)"].
Proof. reflexivity. Qed.

Lemma body_sortRules_ok : body_sortRules =
  ["sort.Slice(_v0, func(_v1, _v2 int) bool { return compareRule(_v0[_v1], _v0[_v2]) < 0 })"].
Proof. reflexivity. Qed.

Lemma body_Rule_Key_ok : body_Rule_Key =
  ["return [2]string{_v0.GroupID, _v0.ID}"].
Proof. reflexivity. Qed.

Lemma body_Rule_StoreKey_ok : body_Rule_StoreKey =
  ["return hex.EncodeToString([]byte(_v0.GroupID)) + ""-"" + hex.EncodeToString([]byte(_v0.ID))"].
Proof. reflexivity. Qed.

Lemma body_sortedRules_insertRule_ok : body_sortedRules_insertRule =
  ["_v2 := sort.Search(len(_v0.rules), func(_v3 int) bool { return compareRule(_v0.rules[_v3], _v1) > 0 })"; "if _v2 == len(_v0.rules) { _v0.rules = append(_v0.rules, _v1) return }"; "_v0.rules = append(_v0.rules[:_v2+1], _v0.rules[_v2:]...)"; "_v0.rules[_v2] = _v1"].
Proof. reflexivity. Qed.

Lemma body_sortedRules_deleteRule_ok : body_sortedRules_deleteRule =
  ["for _v2, _v3 := range _v0.rules { if _v3.Key() == _v1.Key() { _v0.rules = append(_v0.rules[:_v2], _v0.rules[_v2+1:]...) return } }"].
Proof. reflexivity. Qed.

Lemma body_checkApplyRules_ok : body_checkApplyRules =
  ["_v1 := 0"; "_v2 := 0"; "for _, _v3 := range _v0 { if _v3.Role == Leader { _v1 += _v3.Count } else if _v3.Role == Voter { _v2 += _v3.Count } if _v1 > 1 { return errors.New(""multiple leader replicas"") } }"; "if (_v1 + _v2) < 1 { return errors.New(""needs at least one leader or voter"") }"; "return nil"].
Proof. reflexivity. Qed.

Lemma body_buildRuleList_ok : body_buildRuleList =
  ["var _v1 []splitPoint"; "_v0.iterateRules(func(_v2 *Rule) { _v1 = append(_v1, splitPoint{ typ: tStart, key: _v2.StartKey, rule: _v2, }) if len(_v2.EndKey) > 0 { _v1 = append(_v1, splitPoint{ typ: tEnd, key: _v2.EndKey, rule: _v2, }) } })"; "if len(_v1) == 0 { return ruleList{}, errs.ErrBuildRuleList.FastGenByArgs(""no rule left"") }"; "sort.Slice(_v1, func(_v3, _v4 int) bool { return bytes.Compare(_v1[_v3].key, _v1[_v4].key) < 0 })"; "if len(_v1[0].key) > 0 { return ruleList{}, errs.ErrBuildRuleList.FastGenByArgs(fmt.Sprintf(""no rule for range {%s, %s}"", """", strings.ToUpper(hex.EncodeToString(_v1[0].key)))) }"; "var _v5 ruleList"; "var _v6 sortedRules"; "for _v7, _v8 := range _v1 { switch _v8.typ { case tStart: _v6.insertRule(_v8.rule) case tEnd: _v6.deleteRule(_v8.rule) } if _v7 == len(_v1)-1 || !bytes.Equal(_v8.key, _v1[_v7+1].key) { var _v9 []byte if _v7 != len(_v1)-1 { _v9 = _v1[_v7+1].key } _v10 := _v6.rules if len(_v10) == 0 { return ruleList{}, errs.ErrBuildRuleList.FastGenByArgs(fmt.Sprintf(""no rule for range {%s, %s}"", strings.ToUpper(hex.EncodeToString(_v8.key)), strings.ToUpper(hex.EncodeToString(_v9)))) } if _v7 != len(_v1)-1 { _v10 = append(_v10[:0:0], _v10...) } _v11 := prepareRulesForApply(_v10) _v12 := checkApplyRules(_v11) if _v12 != nil { return ruleList{}, errs.ErrBuildRuleList.FastGenByArgs(fmt.Sprintf(""%s for range {%s, %s}"", _v12, strings.ToUpper(hex.EncodeToString(_v8.key)), strings.ToUpper(hex.EncodeToString(_v9)))) } _v5.ranges = append(_v5.ranges, rangeRules{ startKey: _v8.key, _v0: _v10, applyRules: _v11, }) } }"; "return _v5, nil"].
Proof. reflexivity. Qed.

Lemma body_ruleList_getSplitKeys_ok : body_ruleList_getSplitKeys =
  ["var _v3 [][]byte"; "_v4 := sort.Search(len(_v0.ranges), func(_v5 int) bool { return bytes.Compare(_v0.ranges[_v5].startKey, _v1) > 0 })"; "for ; _v4 < len(_v0.ranges) && (len(_v2) == 0 || bytes.Compare(_v0.ranges[_v4].startKey, _v2) < 0); _v4++ { _v3 = append(_v3, _v0.ranges[_v4].startKey) }"; "return _v3"].
Proof. reflexivity. Qed.

Lemma body_ruleList_getRulesByKey_ok : body_ruleList_getRulesByKey =
  ["_v2 := sort.Search(len(_v0.ranges), func(_v3 int) bool { return bytes.Compare(_v0.ranges[_v3].startKey, _v1) > 0 })"; "if _v2 == 0 { return nil }"; "return _v0.ranges[_v2-1].rules"].
Proof. reflexivity. Qed.

Lemma body_ruleList_getRulesForApplyRegion_ok : body_ruleList_getRulesForApplyRegion =
  ["_v3 := sort.Search(len(_v0.ranges), func(_v4 int) bool { return bytes.Compare(_v0.ranges[_v4].startKey, _v1) > 0 })"; "if _v3 == 0 || _v3 != len(_v0.ranges) && (len(_v2) == 0 || bytes.Compare(_v2, _v0.ranges[_v3].startKey) > 0) { return nil }"; "return _v0.ranges[_v3-1].applyRules"].
Proof. reflexivity. Qed.

Lemma body_ruleConfig_adjust_ok : body_ruleConfig_adjust =
  ["for _v1, _v2 := range _v0.groups { if _v2.isDefault() { delete(_v0.groups, _v1) } }"; "for _, _v3 := range _v0.rules { _v4 := _v0.groups[_v3.GroupID] if _v4 == nil { _v4 = &RuleGroup{ID: _v3.GroupID} _v0.groups[_v3.GroupID] = _v4 } _v3.group = _v4 }"].
Proof. reflexivity. Qed.

Lemma body_ruleConfig_getGroup_ok : body_ruleConfig_getGroup =
  ["if _v2, _v3 := _v0.groups[_v1]; _v3 { return _v2 }"; "return &RuleGroup{ID: _v1}"].
Proof. reflexivity. Qed.

Lemma body_ruleConfig_iterateRules_ok : body_ruleConfig_iterateRules =
  ["for _, _v2 := range _v0.rules { _v1(_v2) }"].
Proof. reflexivity. Qed.

Lemma body_ruleConfigPatch_setRule_ok : body_ruleConfigPatch_setRule =
  ["_v0.mut.rules[_v1.Key()] = _v1"].
Proof. reflexivity. Qed.

Lemma body_ruleConfigPatch_deleteRule_ok : body_ruleConfigPatch_deleteRule =
  ["_v0.mut.rules[[2]string{_v1, _v2}] = nil"].
Proof. reflexivity. Qed.

Lemma body_ruleConfigPatch_getGroup_ok : body_ruleConfigPatch_getGroup =
  ["if _v2, _v3 := _v0.mut.groups[_v1]; _v3 { return _v2 }"; "if _v4, _v5 := _v0.c.groups[_v1]; _v5 { return _v4 }"; "return &RuleGroup{ID: _v1}"].
Proof. reflexivity. Qed.

Lemma body_ruleConfigPatch_setGroup_ok : body_ruleConfigPatch_setGroup =
  ["_v0.mut.groups[_v1.ID] = _v1"].
Proof. reflexivity. Qed.

Lemma body_ruleConfigPatch_deleteGroup_ok : body_ruleConfigPatch_deleteGroup =
  ["_v0.setGroup(&RuleGroup{ID: _v1})"].
Proof. reflexivity. Qed.

Lemma body_ruleConfigPatch_iterateRules_ok : body_ruleConfigPatch_iterateRules =
  ["for _, _v2 := range _v0.mut.rules { if _v2 != nil { _v1(_v2) } }"; "for _, _v3 := range _v0.c.rules { if _, _v4 := _v0.mut.rules[_v3.Key()]; !_v4 { _v1(_v3) } }"].
Proof. reflexivity. Qed.

Lemma body_ruleConfigPatch_adjust_ok : body_ruleConfigPatch_adjust =
  ["_v0.iterateRules(func(_v1 *Rule) { _v1.group = _v0.getGroup(_v1.GroupID) })"].
Proof. reflexivity. Qed.

Lemma body_ruleConfigPatch_trim_ok : body_ruleConfigPatch_trim =
  ["for _v1, _v2 := range _v0.mut.rules { if jsonEquals(_v2, _v0.c.getRule(_v1)) { delete(_v0.mut.rules, _v1) } }"; "for _v3, _v4 := range _v0.mut.groups { if jsonEquals(_v4, _v0.c.getGroup(_v3)) { delete(_v0.mut.groups, _v3) } }"].
Proof. reflexivity. Qed.

Lemma body_ruleConfigPatch_commit_ok : body_ruleConfigPatch_commit =
  ["for _v1, _v2 := range _v0.mut.rules { if _v2 == nil { delete(_v0.c.rules, _v1) } else { _v0.c.rules[_v1] = _v2 } }"; "for _v3, _v4 := range _v0.mut.groups { _v0.c.groups[_v3] = _v4 }"; "_v0.c.adjust()"].
Proof. reflexivity. Qed.

Lemma body_jsonEquals_ok : body_jsonEquals =
  ["_v2, _ := json.Marshal(_v0)"; "_v3, _ := json.Marshal(_v1)"; "return bytes.Equal(_v2, _v3)"].
Proof. reflexivity. Qed.

Lemma body_RuleManager_adjustRule_ok : body_RuleManager_adjustRule =
  ["return _v0.adjustRuleContent(_v1, _v2, true)"].
Proof. reflexivity. Qed.

Lemma body_RuleManager_loadRules_ok : body_RuleManager_loadRules =
  ["var _v1 []*Rule"; "var _v2 []string"; "_v3 := _v0.storage.LoadRules(func(_v4, _v5 string) { var _v6 Rule if _v7 := json.Unmarshal([]byte(_v5), &_v6); _v7 != nil { _v2 = append(_v2, _v4) return } if _v8 := _v0.adjustRuleContent(&_v6, """", false); _v8 != nil { _v2 = append(_v2, _v4) return } if _, _v9 := _v0.ruleConfig.rules[_v6.Key()]; _v9 { _v2 = append(_v2, _v4) return } if _v4 != _v6.StoreKey() { _v2 = append(_v2, _v4) _v1 = append(_v1, &_v6) } _v0.ruleConfig.rules[_v6.Key()] = &_v6 })"; "if _v3 != nil { return _v3 }"; "_v10 := make(map[string]struct{}, len(_v1))"; "for _, _v11 := range _v1 { if _v3 = _v0.storage.SaveRule(_v11.StoreKey(), _v11); _v3 != nil { return _v3 } _v10[_v11.StoreKey()] = struct{}{} }"; "for _, _v12 := range _v2 { if _, _v13 := _v10[_v12]; _v13 { continue } if _v3 = _v0.storage.DeleteRule(_v12); _v3 != nil { return _v3 } }"; "return nil"].
Proof. reflexivity. Qed.

Lemma body_RuleManager_GetAllRules_ok : body_RuleManager_GetAllRules =
  ["_v0.RLock()"; "defer _v0.RUnlock()"; "_v1 := make([]*Rule, 0, len(_v0.ruleConfig.rules))"; "for _, _v2 := range _v0.ruleConfig.rules { _v1 = append(_v1, _v2) }"; "sortRules(_v1)"; "return _v1"].
Proof. reflexivity. Qed.

Lemma body_RuleManager_GetRuleGroups_ok : body_RuleManager_GetRuleGroups =
  ["_v0.RLock()"; "defer _v0.RUnlock()"; "_v1 := make([]*RuleGroup, 0, len(_v0.ruleConfig.groups))"; "for _, _v2 := range _v0.ruleConfig.groups { _v1 = append(_v1, _v2) }"; "sort.Slice(_v1, func(_v3, _v4 int) bool { return _v1[_v3].Index < _v1[_v4].Index || (_v1[_v3].Index == _v1[_v4].Index && _v1[_v3].ID < _v1[_v4].ID) })"; "return _v1"].
Proof. reflexivity. Qed.

Lemma body_RuleManager_GetRulesByKey_ok : body_RuleManager_GetRulesByKey =
  ["_v0.RLock()"; "defer _v0.RUnlock()"; "return _v0.ruleList.getRulesByKey(_v1)"].
Proof. reflexivity. Qed.

Lemma body_RuleManager_GetRulesForApplyRegion_ok : body_RuleManager_GetRulesForApplyRegion =
  ["_v0.RLock()"; "defer _v0.RUnlock()"; "return _v0.ruleList.getRulesForApplyRegion(_v1.GetStartKey(), _v1.GetEndKey())"].
Proof. reflexivity. Qed.

Lemma body_RuleManager_GetSplitKeys_ok : body_RuleManager_GetSplitKeys =
  ["_v0.RLock()"; "defer _v0.RUnlock()"; "return _v0.ruleList.getSplitKeys(_v1, _v2)"].
Proof. reflexivity. Qed.

Lemma adjust_rule_checks_ok : adjust_rule_checks =
  ["_v4 != nil"; "_v4 != nil"; "len(_v1.EndKey) > 0 && bytes.Compare(_v1.EndKey, _v1.StartKey) <= 0"; "_v4 != nil"; "_v4 != nil"; "_v2 != _v1.GroupID"; "_v1.GroupID == """""; "_v1.ID == """""; "!validateRole(_v1.Role)"; "_v1.Count <= 0"; "_v1.Role == Leader && _v1.Count > 1"; "!validateOp(_v5.Op)"; "len(_v6) > 0 && !checkRule(_v1, _v6)"].
Proof. reflexivity. Qed.

Lemma default_group_id_ok : default_group_id =
  [112;100]%N.
Proof. reflexivity. Qed.

Lemma default_rule_id_ok : default_rule_id =
  [100;101;102;97;117;108;116]%N.
Proof. reflexivity. Qed.

Lemma default_rule_role_ok : default_rule_role =
  "Voter".
Proof. reflexivity. Qed.

Lemma rules_path_ok : rules_path =
  "rules".
Proof. reflexivity. Qed.

Lemma rule_group_path_ok : rule_group_path =
  "rule_group".
Proof. reflexivity. Qed.

Lemma minKVRangeLimit_ok : minKVRangeLimit =
  (100)%Z.
Proof. reflexivity. Qed.

Lemma body_Storage_LoadRangeByPrefix_ok : body_Storage_LoadRangeByPrefix =
  ["_v5 := _v1"; "_v6 := clientv3.GetPrefixRangeEnd(_v1)"; "for { _v7, _v8, _v9 := _v0.LoadRange(_v5, _v6, minKVRangeLimit) if _v9 != nil { return _v9 } for _v10 := range _v7 { _v2(strings.TrimPrefix(_v7[_v10], _v1), _v8[_v10]) } if len(_v7) < minKVRangeLimit { return nil } _v5 = _v7[len(_v7)-1] + ""\x00"" }"].
Proof. reflexivity. Qed.

Lemma body_memoryKV_LoadRange_ok : body_memoryKV_LoadRange =
  ["_v0.RLock()"; "defer _v0.RUnlock()"; "_v4 := make([]string, 0, _v3)"; "_v5 := make([]string, 0, _v3)"; "_v0.tree.AscendRange(memoryKVItem{_v1, """"}, memoryKVItem{_v2, """"}, func(_v6 btree.Item) bool { _v4 = append(_v4, _v6.(memoryKVItem).key) _v5 = append(_v5, _v6.(memoryKVItem).value) if _v3 > 0 { return len(_v4) < _v3 } return true })"; "return _v4, _v5, nil"].
Proof. reflexivity. Qed.

Lemma body_etcdKVBase_LoadRange_ok : body_etcdKVBase_LoadRange =
  ["_v1 = strings.Join([]string{_v0.rootPath, _v1}, ""/"")"; "_v2 = strings.Join([]string{_v0.rootPath, _v2}, ""/"")"; "_v4 := clientv3.WithRange(_v2)"; "_v5 := clientv3.WithLimit(int64(_v3))"; "_v6, _v7 := etcdutil.EtcdKVGet(_v0.client, _v1, _v4, _v5)"; "if _v7 != nil { return nil, nil, _v7 }"; "_v8 := make([]string, 0, len(_v6.Kvs))"; "_v9 := make([]string, 0, len(_v6.Kvs))"; "for _, _v10 := range _v6.Kvs { _v8 = append(_v8, strings.TrimPrefix(strings.TrimPrefix(string(_v10.Key), _v0.rootPath), ""/"")) _v9 = append(_v9, string(_v10.Value)) }"; "return _v8, _v9, nil"].
Proof. reflexivity. Qed.

Lemma load_next_key_ok : load_next_key =
  [":= _v1"; "= _v7[len(_v7)-1] + ""\x00"""].
Proof. reflexivity. Qed.

Lemma body_Storage_SaveRule_ok : body_Storage_SaveRule =
  ["return _v0.SaveJSON(rulesPath, _v1, _v2)"].
Proof. reflexivity. Qed.

Lemma body_Storage_DeleteRule_ok : body_Storage_DeleteRule =
  ["return _v0.Remove(path.Join(rulesPath, _v1))"].
Proof. reflexivity. Qed.

Lemma body_Storage_LoadRules_ok : body_Storage_LoadRules =
  ["return _v0.LoadRangeByPrefix(rulesPath+""/"", _v1)"].
Proof. reflexivity. Qed.

Lemma body_Storage_SaveRuleGroup_ok : body_Storage_SaveRuleGroup =
  ["return _v0.SaveJSON(ruleGroupPath, _v1, _v2)"].
Proof. reflexivity. Qed.

Lemma body_Storage_DeleteRuleGroup_ok : body_Storage_DeleteRuleGroup =
  ["return _v0.Remove(path.Join(ruleGroupPath, _v1))"].
Proof. reflexivity. Qed.

Lemma body_Storage_LoadRuleGroups_ok : body_Storage_LoadRuleGroups =
  ["return _v0.LoadRangeByPrefix(ruleGroupPath+""/"", _v1)"].
Proof. reflexivity. Qed.

Lemma body_codec_DecodeBytes_ok : body_codec_DecodeBytes =
  ["_v1 := make([]byte, 0, len(_v0))"; "for { if len(_v0) < encGroupSize+1 { return nil, nil, errors.New(""insufficient bytes to decode value"") } _v2 := _v0[:encGroupSize+1] _v3 := _v2[:encGroupSize] _v4 := _v2[encGroupSize] _v5 := encMarker - _v4 if _v5 > encGroupSize { return nil, nil, errors.Errorf(""invalid marker byte, group bytes %q"", _v2) } _v6 := encGroupSize - _v5 _v1 = append(_v1, _v3[:_v6]...) _v0 = _v0[encGroupSize+1:] if _v5 != 0 { var _v7 = encPad for _, _v8 := range _v3[_v6:] { if _v8 != _v7 { return nil, nil, errors.Errorf(""invalid padding byte, group bytes %q"", _v2) } } break } }"; "return _v0, _v1, nil"].
Proof. reflexivity. Qed.
