(* C14 — proofs about model/C14_Store.v.  One frame lemma per primitive, one characterisation
   lemma per command (what can happen to the served record of any store id), then the statements. *)
From Coq Require Import String Ascii.
From PDV Require Import lib.Base lib.C14_AList model.C14_Store.
Local Open Scope string_scope.
Local Open Scope Z_scope.

(* ---------- frame lemmas: what each primitive does to the served map ---------- *)
Lemma sv_set_served s id x j : sv (set_served s id x) j = if id =? j then Some x else sv s j.
Proof. unfold sv, set_served; cbn. apply aget_aset. Qed.
Lemma sv_del_served s id j : sv (del_served s id) j = if id =? j then None else sv s j.
Proof. unfold sv, del_served; cbn. apply aget_adel. Qed.
Lemma sv_write_meta s id m j : sv (write_meta s id m) j = sv s j.
Proof. reflexivity. Qed.
Lemma sv_del_meta s id j : sv (del_meta s id) j = sv s j.
Proof. reflexivity. Qed.
Lemma sv_write_lw s id w j : sv (write_lw s id w) j = sv s j.
Proof. reflexivity. Qed.
Lemma sv_write_rw s id w j : sv (write_rw s id w) j = sv s j.
Proof. reflexivity. Qed.
Lemma sv_set_cver s v j : sv (set_cver s v) j = sv s j.
Proof. reflexivity. Qed.
Lemma sv_set_regions s r j : sv (set_regions s r) j = sv s j.
Proof. reflexivity. Qed.
Lemma sv_version_change s j : sv (version_change s) j = sv s j.
Proof. unfold version_change. destruct (min_ver (served s)); [destruct (ver_lt _ _)|]; reflexivity. Qed.

Lemma served_version_change s : served (version_change s) = served s.
Proof. unfold version_change. destruct (min_ver (served s)); [destruct (ver_lt _ _)|]; reflexivity. Qed.

Lemma wr_cases f sid idx : wr f sid idx = (true, true) \/ wr f sid idx = (false, false) \/ wr f sid idx = (true, false).
Proof.
  unfold wr. destruct f as [|s i k]; [auto|].
  destruct ((s =? sid) && Nat.eqb i idx)%bool; [destruct k|]; auto.
Qed.

Lemma put_locked_sv s id x f idx s' ok :
  put_locked s id x f idx = (s', ok) -> forall j, sv s' j = if (ok && (id =? j))%bool then Some x else sv s j.
Proof.
  unfold put_locked. intros H j.
  destruct (wr_cases f id idx) as [E|[E|E]]; rewrite E in H; cbn in H; inversion H; subst; clear H; cbn [andb].
  - rewrite sv_set_served. reflexivity.
  - reflexivity.
  - reflexivity.
Qed.

(* ---------- what a command can do to one served record ---------- *)
Definition is_put (o : op) (id : Z) : bool := match o with OPut _ p _ => p_id p =? id | _ => false end.

(* the possible relations between the served record of `id` before and after one command `o`
   started in state `s` *)
Inductive change (s : state) (o : op) (id : Z) : option sstore -> option sstore -> Prop :=
| ch_same a : change s o id a a
| ch_new y : is_put o id = true -> dup_addr s id (s_addr y) = false -> change s o id None (Some y)
| ch_keep x y : s_state y = s_state x -> s_pd y = s_pd x -> s_addr y = s_addr x -> change s o id (Some x) (Some y)
| ch_readdr x y : is_put o id = true -> dup_addr s id (s_addr y) = false ->
                  s_state y = s_state x -> s_pd y = s_pd x -> change s o id (Some x) (Some y)
| ch_offline x y : s_state x <> Tombstone -> s_pd x = false -> s_state y = Offline -> s_addr y = s_addr x ->
                   change s o id (Some x) (Some y)
| ch_up x y : s_state x = Offline -> s_pd x = false -> s_state y = Up -> s_pd y = false -> s_addr y = s_addr x ->
              change s o id (Some x) (Some y)
| ch_bury x y : s_state x = Offline -> s_state y = Tombstone -> s_pd y = s_pd x -> s_addr y = s_addr x ->
                tree_count s id = 0 -> change s o id (Some x) (Some y)
| ch_clean x : s_state x = Tombstone -> is_clean o = true -> change s o id (Some x) None.

Lemma sstate_eqb_eq a b : sstate_eqb a b = true <-> a = b.
Proof. destruct a, b; cbn; split; intros H; try discriminate; reflexivity. Qed.
Lemma is_tomb_true x : is_tomb x = true <-> s_state x = Tombstone.
Proof. apply sstate_eqb_eq. Qed.
Lemma is_tomb_false x : is_tomb x = false <-> s_state x <> Tombstone.
Proof.
  unfold is_tomb. destruct (sstate_eqb (s_state x) Tombstone) eqn:E.
  - apply sstate_eqb_eq in E. split; [discriminate|contradiction].
  - split; [|reflexivity]. intros _ H. apply sstate_eqb_eq in H. congruence.
Qed.

Ltac inv H := inversion H; subst; clear H.
Ltac zeq a b := destruct (Z.eqb_spec a b); subst.

(* put_impl *)
Lemma put_impl_change s p force f s' r o :
  put_impl s p force f = (s', r) ->
  (is_put o (p_id p) = true \/ (exists x, sv s (p_id p) = Some x /\ p_addr p = s_addr x)) ->
  forall j, change s o j (sv s j) (sv s' j).
Proof.
  unfold put_impl. intros H Ho j.
  destruct (p_id p =? 0); [inv H; constructor|].
  destruct (p_ver p) as [v|]; [|inv H; constructor].
  destruct (negb (compatible (cver s) v)); [inv H; constructor|].
  destruct (dup_addr s (p_id p) (p_addr p)) eqn:Edup; [inv H; constructor|].
  destruct (sv s (p_id p)) as [old|] eqn:Eold.
  - match type of H with context [labels_rejected ?a ?b] => destruct (labels_rejected a b) end; [inv H; constructor|].
    match type of H with context [put_locked ?a ?b ?c ?d ?e] => destruct (put_locked a b c d e) as [s1 ok] eqn:Epl end.
    inv H. rewrite (put_locked_sv _ _ _ _ _ _ _ Epl j).
    zeq (p_id p) j; [|rewrite andb_false_r; constructor].
    rewrite Eold, andb_true_r. destruct ok; [|constructor].
    destruct Ho as [Ho|[x [Hx Ha]]].
    + apply ch_readdr; auto.
    + inv Hx. apply ch_keep; auto.
  - match type of H with context [labels_rejected ?a ?b] => destruct (labels_rejected a b) end; [inv H; constructor|].
    match type of H with context [put_locked ?a ?b ?c ?d ?e] => destruct (put_locked a b c d e) as [s1 ok] eqn:Epl end.
    inv H. rewrite (put_locked_sv _ _ _ _ _ _ _ Epl j).
    zeq (p_id p) j; [|rewrite andb_false_r; constructor].
    rewrite Eold, andb_true_r. destruct ok; [|constructor].
    destruct Ho as [Ho|[x [Hx _]]]; [|congruence].
    apply ch_new; auto.
Qed.

Lemma do_put_change s p f s' r g :
  do_put s p f = (s', r) -> forall j, change s (OPut g p f) j (sv s j) (sv s' j).
Proof.
  unfold do_put. destruct (put_impl s p false f) as [s1 r1] eqn:E. intros H j.
  assert (C : change s (OPut g p f) j (sv s j) (sv s1 j)).
  { eapply put_impl_change; [exact E|]. left. cbn. apply Z.eqb_refl. }
  destruct r1; inv H; try exact C. rewrite sv_version_change. exact C.
Qed.

Lemma do_labels_change s id ls force f s' r :
  do_labels s id ls force f = (s', r) -> forall j, change s (OLabels id ls force f) j (sv s j) (sv s' j).
Proof.
  unfold do_labels. destruct (sv s id) as [x|] eqn:E; intros H j; [|inv H; constructor].
  eapply put_impl_change; [exact H|]. right. cbn. eauto.
Qed.

Lemma do_remove_change s id pd f s' r o : do_remove s id pd f = (s', r) -> forall j, change s o j (sv s j) (sv s' j).
Proof.
  unfold do_remove. destruct (sv s id) as [x|] eqn:E; intros H j; [|inv H; constructor].
  destruct (sstate_eqb (s_state x) Offline && Bool.eqb (s_pd x) pd)%bool; [inv H; constructor|].
  destruct (is_tomb x) eqn:Et; [inv H; constructor|].
  destruct (s_pd x) eqn:Ep; [inv H; constructor|].
  destruct (put_locked s id (with_state x Offline pd) f 0) as [s1 ok] eqn:Epl. inv H.
  rewrite (put_locked_sv _ _ _ _ _ _ _ Epl j).
  zeq id j; [|rewrite andb_false_r; constructor].
  rewrite E, andb_true_r. destruct ok; [|constructor].
  apply ch_offline; auto. apply is_tomb_false; exact Et.
Qed.

Lemma do_up_change s id f s' r o : do_up s id f = (s', r) -> forall j, change s o j (sv s j) (sv s' j).
Proof.
  unfold do_up. destruct (sv s id) as [x|] eqn:E; intros H j; [|inv H; constructor].
  destruct (is_tomb x) eqn:Et; [inv H; constructor|].
  destruct (s_pd x) eqn:Ep; [inv H; constructor|].
  destruct (sstate_eqb (s_state x) Up) eqn:Eu; [inv H; constructor|].
  destruct (put_locked s id (with_state x Up false) f 0) as [s1 ok] eqn:Epl. inv H.
  rewrite (put_locked_sv _ _ _ _ _ _ _ Epl j).
  zeq id j; [|rewrite andb_false_r; constructor].
  rewrite E, andb_true_r. destruct ok; [|constructor].
  apply ch_up; auto.
  apply is_tomb_false in Et. destruct (s_state x); cbn in Eu; try discriminate; [reflexivity|exfalso; apply Et; reflexivity].
Qed.

(* buryStore (since fix 2f015b8 it looks at the region tree itself, under the lock): whoever calls it, a store is only
   buried while the tree holds no peer on it *)
Lemma do_bury_change s id f s' r :
  do_bury s id f = (s', r) ->
  forall j, (sv s' j = sv s j) \/
            (j = id /\ exists x, sv s id = Some x /\ s_state x = Offline /\ sv s' id = Some (with_state x Tombstone (s_pd x))
                                 /\ tree_count s id = 0).
Proof.
  unfold do_bury. destruct (sv s id) as [x|] eqn:E; intros H j; [|inv H; auto].
  destruct (is_tomb x) eqn:Et; [inv H; auto|].
  destruct (sstate_eqb (s_state x) Up) eqn:Eu; [inv H; auto|].
  destruct (negb (tree_count s id =? 0)) eqn:Ec; [inv H; auto|].
  apply negb_false_iff, Z.eqb_eq in Ec.
  destruct (put_locked s id (with_state x Tombstone (s_pd x)) f 0) as [s1 ok] eqn:Epl. inv H.
  rewrite !sv_version_change, !(put_locked_sv _ _ _ _ _ _ _ Epl).
  zeq id j; [|rewrite andb_false_r; auto].
  rewrite ?Z.eqb_refl, ?andb_true_r. destruct ok; [|auto].
  right. split; [reflexivity|]. exists x. split; [reflexivity|]. split; [|split; [reflexivity|exact Ec]].
  apply is_tomb_false in Et. destruct (s_state x); cbn in Eu; try discriminate; [reflexivity|exfalso; apply Et; reflexivity].
Qed.

Lemma bury_shape_change s o id x :
  s_state x = Offline -> tree_count s id = 0 ->
  change s o id (Some x) (Some (with_state x Tombstone (s_pd x))).
Proof. intros. apply ch_bury; auto. Qed.

Lemma do_bury_change' s id f s' r :
  do_bury s id f = (s', r) -> forall j, change s (OBury id f) j (sv s j) (sv s' j).
Proof.
  intros H j. destruct (do_bury_change s id f s' r H j) as [E|[-> [x [E1 [E2 [E3 E4]]]]]].
  - rewrite E; constructor.
  - rewrite E1, E3. apply bury_shape_change; auto.
Qed.

Lemma tree_count_regions s s' id : regions s' = regions s -> tree_count s' id = tree_count s id.
Proof. unfold tree_count; intros ->; reflexivity. Qed.

Lemma regions_put_locked s id x f idx s' ok : put_locked s id x f idx = (s', ok) -> regions s' = regions s.
Proof.
  unfold put_locked. destruct (wr f id idx) as [[|] [|]]; intros H; inv H; reflexivity.
Qed.
Lemma regions_version_change s : regions (version_change s) = regions s.
Proof. unfold version_change. destruct (min_ver (served s)); [destruct (ver_lt _ _)|]; reflexivity. Qed.
Lemma regions_do_bury s id f s' r : do_bury s id f = (s', r) -> regions s' = regions s.
Proof.
  unfold do_bury. destruct (sv s id) as [x|]; intros H; [|inv H; reflexivity].
  destruct (is_tomb x); [inv H; reflexivity|]. destruct (sstate_eqb (s_state x) Up); [inv H; reflexivity|].
  destruct (negb (tree_count s id =? 0)); [inv H; reflexivity|].
  destruct (put_locked s id (with_state x Tombstone (s_pd x)) f 0) as [s1 ok] eqn:Epl. inv H.
  rewrite regions_version_change. eapply regions_put_locked; eauto.
Qed.

(* checkStores: the fold keeps, for every id, "unchanged or buried while empty" *)
Definition check_rel (s acc : state) : Prop :=
  regions acc = regions s /\
  forall j, sv acc j = sv s j \/
            (exists x, sv s j = Some x /\ s_state x = Offline /\ tree_count s j = 0 /\
                       sv acc j = Some (with_state x Tombstone (s_pd x))).

Lemma do_check_rel s order f : check_rel s (do_check s order f).
Proof.
  unfold do_check.
  assert (G : forall l acc, check_rel s acc -> check_rel s (fold_left (check_one f) l acc)).
  { induction l as [|e l IH]; intros acc R; cbn [fold_left]; [exact R|]. apply IH.
    unfold check_one.
    destruct (sv acc e) as [x|] eqn:Ex; [|exact R].
    destruct (is_tomb x || sstate_eqb (s_state x) Up)%bool eqn:Eg; [exact R|].
    destruct (tree_count acc e =? 0) eqn:Et; [|exact R].
    destruct (do_bury acc e f) as [s1 r1] eqn:Eb. cbn [fst].
    destruct R as [Rr Rs]. split; [rewrite (regions_do_bury _ _ _ _ _ Eb); exact Rr|].
    intros j. apply Z.eqb_eq in Et. rewrite (tree_count_regions s acc _ Rr) in Et.
    destruct (do_bury_change acc e f s1 r1 Eb j) as [E|[-> [y [E1 [E2 [E3 _]]]]]].
    - rewrite E. apply Rs.
    - destruct (Rs e) as [E|[z [Ez1 [Ez2 [Ez3 Ez4]]]]].
      + right. exists y. rewrite <- E. repeat split; auto.
      + (* already buried in this round: it is a tombstone, so it was skipped *)
        rewrite Ez4 in E1. inv E1. cbn in E2. discriminate. }
  apply G. split; [reflexivity|]. intros j; left; reflexivity.
Qed.

Lemma do_check_change s order f j : change s (OCheck order f) j (sv s j) (sv (do_check s order f) j).
Proof.
  destruct (do_check_rel s order f) as [_ R]. destruct (R j) as [E|[x [E1 [E2 [E3 E4]]]]].
  - rewrite E; constructor.
  - rewrite E1, E4. apply bury_shape_change; auto.
Qed.

Lemma sv_restore_weights s s0 id k : sv (restore_weights s s0 id) k = sv s k.
Proof. reflexivity. Qed.

Lemma do_weight_change s id lw rw f s' r o : do_weight s id lw rw f = (s', r) -> forall j, change s o j (sv s j) (sv s' j).
Proof.
  unfold do_weight. destruct (sv s id) as [x|] eqn:E; intros H j; [|inv H; constructor].
  destruct (wr f id 0) as [a0 ok0]. destruct ok0; cbn [negb] in H.
  2:{ inv H. rewrite sv_restore_weights. destruct a0; constructor. }
  destruct (wr f id 1) as [a1 ok1]. destruct ok1; cbn [negb] in H.
  2:{ inv H. rewrite sv_restore_weights. destruct a0, a1; constructor. }
  match type of H with context [put_locked ?a ?b ?c ?d ?e] => destruct (put_locked a b c d e) as [s2 ok] eqn:Epl end.
  assert (Es : forall k, sv (if a1 then write_rw (if a0 then write_lw s id lw else s) id rw else if a0 then write_lw s id lw else s) k = sv s k)
    by (intros k; destruct a0, a1; reflexivity).
  destruct ok; inv H.
  - rewrite (put_locked_sv _ _ _ _ _ _ _ Epl j), Es. zeq id j; [|constructor]. rewrite E. apply ch_keep; reflexivity.
  - change (sv (write_rw (write_lw s2 id (s_lw x)) id (s_rw x)) j) with (sv s2 j).
    rewrite (put_locked_sv _ _ _ _ _ _ _ Epl j), Es. constructor.
Qed.

Lemma delete_store_sv s id f s1 ok k : delete_store s id f = (s1, ok) -> sv s1 k = sv s k.
Proof.
  unfold delete_store. destruct (wr f id 0) as [a0 [|]]; cbn [negb].
  2:{ intros H; inv H. destruct a0; reflexivity. }
  destruct (wr f id 1) as [a1 [|]]; cbn [negb].
  2:{ intros H; inv H. destruct a0, a1; reflexivity. }
  destruct (wr f id 2) as [a2 [|]]; cbn [negb]; intros H; inv H; destruct a0, a1, a2; reflexivity.
Qed.

Lemma clean_loop_change s order f s' r o :
  is_clean o = true -> clean_loop s order f = (s', r) ->
  forall j, sv s' j = sv s j \/ (exists x, sv s j = Some x /\ s_state x = Tombstone /\ sv s' j = None).
Proof.
  intros Ho. revert s. induction order as [|id rest IH]; intros s H j; cbn [clean_loop] in H; [inv H; auto|].
  destruct (sv s id) as [x|] eqn:E; [|eapply IH; eauto].
  destruct (is_tomb x && (s_rcf x <=? 0))%bool eqn:Eg; [|eapply IH; eauto].
  apply andb_true_iff in Eg as [Et _]. apply is_tomb_true in Et.
  destruct (delete_store s id f) as [s1 ok] eqn:Ed. destruct ok.
  - specialize (IH _ H j). rewrite sv_del_served in IH.
    rewrite (delete_store_sv _ _ _ _ _ j Ed) in IH. zeq id j.
    + right. exists x. repeat split; auto. destruct IH as [IH|[y [Hy _]]]; [exact IH|discriminate].
    + exact IH.
  - inv H. left. eapply delete_store_sv; eauto.
Qed.

Lemma do_clean_change s order f s' r : do_clean s order f = (s', r) -> forall j, change s (OClean order f) j (sv s j) (sv s' j).
Proof.
  unfold do_clean. destruct (clean_loop s order f) as [s1 r1] eqn:E. intros H j.
  assert (s' = s1) as -> by (destruct r1; try (inv H; reflexivity); destruct (cleanable s1); inv H; reflexivity).
  destruct (clean_loop_change s order f s1 r1 (OClean order f) eq_refl E j) as [Ej|[x [E1 [E2 E3]]]].
  - rewrite Ej; constructor.
  - rewrite E1, E3. apply ch_clean; auto.
Qed.

Lemma do_heartbeat_change s id f s' r o : do_heartbeat s id f = (s', r) -> forall j, change s o j (sv s j) (sv s' j).
Proof.
  unfold do_heartbeat. destruct (sv s id) as [x|] eqn:E; intros H j; [|inv H; constructor].
  destruct (is_tomb x); [inv H; constructor|].
  destruct (if s_hbp x then (false, true) else wr f id 0) as [applied ok]. inv H.
  rewrite sv_set_served.
  assert (Es : forall k, sv (if applied then write_meta s id (meta_of x) else s) k = sv s k) by (intros k; destruct applied; reflexivity).
  rewrite Es. zeq id j; [|constructor]. rewrite E. apply ch_keep; reflexivity.
Qed.

(* region heartbeat: only the region-count statistic of existing stores changes *)
Definition same_life (a b : option sstore) : Prop :=
  match a, b with
  | Some x, Some y => s_state y = s_state x /\ s_pd y = s_pd x /\ s_addr y = s_addr x
  | None, None => True
  | _, _ => False
  end.
Lemma same_life_refl a : same_life a a.
Proof. destruct a; cbn; auto. Qed.
Lemma same_life_trans a b c : same_life a b -> same_life b c -> same_life a c.
Proof. destruct a, b, c; cbn; try tauto. intros (A&B&C) (D&E&F). repeat split; congruence. Qed.

Lemma refresh_rcf_life s id j : same_life (sv s j) (sv (refresh_rcf s id) j).
Proof.
  unfold refresh_rcf. destruct (sv s id) as [x|] eqn:E; [|apply same_life_refl].
  rewrite sv_set_served. zeq id j; [|apply same_life_refl]. rewrite E. cbn. auto.
Qed.

Lemma do_region_life s r stores j : same_life (sv s j) (sv (do_region s r stores) j).
Proof.
  unfold do_region.
  set (s1 := set_regions s (aset (regions s) r stores)).
  assert (G : forall l a, same_life (sv s j) (sv a j) -> same_life (sv s j) (sv (fold_left refresh_rcf l a) j)).
  { induction l as [|i l IH]; intros a Ha; cbn [fold_left]; [exact Ha|].
    apply IH. eapply same_life_trans; [exact Ha|apply refresh_rcf_life]. }
  apply G. subst s1. rewrite sv_set_regions. apply same_life_refl.
Qed.

Lemma same_life_change s o j a b : same_life a b -> change s o j a b.
Proof.
  destruct a as [x|], b as [y|]; cbn; try tauto; [|constructor].
  intros (A&B&C). apply ch_keep; auto.
Qed.

(* ---------- the characterisation: every command, every store id ---------- *)
Theorem run_cmd_change s o s' r : run_cmd s o = (s', r) -> forall j, change s o j (sv s j) (sv s' j).
Proof.
  destruct o as [g p f|id ls force f|id pd f|id f|id f|corder f|id lw rw f|order f|id f|rg stores|e]; cbn [run_cmd]; intros H.
  - destruct g.
    + cbv zeta in H. destruct (sv s (p_id p)) as [x|] eqn:E.
      * destruct (is_tomb x); [inv H; constructor|].
        destruct (negb (e_pr (cenv s)) && is_tiflash (p_labels p))%bool; [inv H; constructor|]. eapply do_put_change; eauto.
      * destruct (negb (e_pr (cenv s)) && is_tiflash (p_labels p))%bool; [inv H; constructor|]. eapply do_put_change; eauto.
    + eapply do_put_change; eauto.
  - eapply do_labels_change; eauto.
  - eapply do_remove_change; eauto.
  - eapply do_up_change; eauto.
  - eapply do_bury_change'; eauto.
  - inv H. apply do_check_change.
  - eapply do_weight_change; eauto.
  - eapply do_clean_change; eauto.
  - eapply do_heartbeat_change; eauto.
  - inv H. intros j. apply same_life_change, do_region_life.
  - inv H. intros j. constructor.
Qed.

(* ---------- statement 1: the lifecycle is one-way ---------- *)
(* the boolean the monitor evaluates on implementation traces, on model records *)
Definition smove_ok (o : op) (id : Z) (a b : option sstore) : bool :=
  move_ok o id (option_map view_served a) (option_map view_served b).

Lemma change_move_ok s o id a b : change s o id a b -> smove_ok o id a b = true.
Proof.
  unfold smove_ok. intros C; destruct C as [a|y Hp _|x y H1 H2 _|x y _ _ H1 H2|x y H1 H2 H3 _|x y H1 H2 H3 H4 _|x y H1 H2 H3 _ _|x H1 H2];
    cbn [option_map move_ok view_served v_state v_pd].
  - destruct a as [x|]; cbn [option_map move_ok view_served v_state v_pd]; [|reflexivity].
    destruct (s_pd x), (s_state x); reflexivity.
  - destruct o; cbn in Hp; try discriminate. exact Hp.
  - rewrite H1, H2. destruct (s_pd x), (s_state x); reflexivity.
  - rewrite H1, H2. destruct (s_pd x), (s_state x); reflexivity.
  - rewrite H2, H3. destruct (s_pd y), (s_state x); try reflexivity; exfalso; apply H1; reflexivity.
  - rewrite H1, H2, H3, H4. reflexivity.
  - rewrite H1, H2, H3. destruct (s_pd x); reflexivity.
  - rewrite H1. destruct o; cbn in H2; try discriminate. reflexivity.
Qed.

Lemma state_one_way_pf s o s' r : run_cmd s o = (s', r) -> forall id, smove_ok o id (sv s id) (sv s' id) = true.
Proof. intros H id. eapply change_move_ok, run_cmd_change; eauto. Qed.

(* a tombstone record stays a tombstone for as long as it exists, and nothing but the cleanup removes it *)
Lemma tombstone_absorbing_pf s o s' r id x :
  run_cmd s o = (s', r) -> sv s id = Some x -> s_state x = Tombstone ->
  (exists y, sv s' id = Some y /\ s_state y = Tombstone) \/ (sv s' id = None /\ is_clean o = true).
Proof.
  intros H E T. pose proof (run_cmd_change _ _ _ _ H id) as C. rewrite E in C.
  inversion C; subst; try congruence.
  - left; eauto.
  - left; eexists; split; [reflexivity|congruence].
  - left; eexists; split; [reflexivity|congruence].
  - right; auto.
Qed.

(* gRPC registration and heartbeat of a tombstone store are refused and change nothing *)
Lemma tombstone_refused_pf s id x :
  sv s id = Some x -> s_state x = Tombstone ->
  (forall p f, p_id p = id -> run_cmd s (OPut true p f) = (s, RGrpcTombstone)) /\
  (forall f, run_cmd s (OHeartbeat id f) = (s, RGrpcTombstone)).
Proof.
  intros E T. apply is_tomb_true in T. split.
  - intros p f <-. cbn [run_cmd]. rewrite E, T. reflexivity.
  - intros f. cbn [run_cmd]. unfold do_heartbeat. rewrite E, T. reflexivity.
Qed.

(* a successful RemoveStore(id, physically destroyed) leaves the store offline with the flag set, and from
   then on UpStore is refused *)
Lemma remove_destroyed_pf s id f s' :
  run_cmd s (ORemove id true f) = (s', ROk) ->
  (exists y, sv s' id = Some y /\ s_state y = Offline /\ s_pd y = true) /\
  (forall f', run_cmd s' (OUp id f') = (s', RDestroyed)).
Proof.
  cbn [run_cmd]. unfold do_remove.
  destruct (sv s id) as [x|] eqn:E; [|discriminate].
  destruct (sstate_eqb (s_state x) Offline && Bool.eqb (s_pd x) true)%bool eqn:Eg.
  - intros H; inv H. apply andb_true_iff in Eg as [E1 E2]. apply sstate_eqb_eq in E1.
    assert (Ep : s_pd x = true) by (destruct (s_pd x); [reflexivity|discriminate]).
    split; [eauto|]. intros f'. unfold do_up. rewrite E.
    assert (Et : is_tomb x = false) by (apply is_tomb_false; congruence). rewrite Et, Ep. reflexivity.
  - destruct (is_tomb x); [discriminate|]. destruct (s_pd x); [discriminate|].
    destruct (put_locked s id (with_state x Offline true) f 0) as [s1 ok] eqn:Epl.
    destruct ok; intros H; inv H.
    assert (Es : sv s' id = Some (with_state x Offline true))
      by (rewrite (put_locked_sv _ _ _ _ _ _ _ Epl), Z.eqb_refl; reflexivity).
    split; [eexists; split; [exact Es|split; reflexivity]|].
    intros f'. unfold do_up. rewrite Es. reflexivity.
Qed.

(* ---------- statement 2: buried only while empty ---------- *)
Lemma bury_only_empty_pf s o s' r id x y :
  run_cmd s o = (s', r) ->
  sv s id = Some x -> sv s' id = Some y -> s_state x <> Tombstone -> s_state y = Tombstone ->
  tree_count s id = 0.
Proof.
  intros H Ex Ey Nx Ty. pose proof (run_cmd_change _ _ _ _ H id) as C. rewrite Ex, Ey in C.
  inversion C; subst; try congruence; assumption.
Qed.

(* ---------- statement 3: live stores have pairwise distinct addresses ---------- *)
Definition addr_inv (s : state) : Prop :=
  forall i j x y, i <> j -> sv s i = Some x -> sv s j = Some y -> live x = true -> live y = true -> s_addr x <> s_addr y.

Lemma dup_addr_false s id a :
  dup_addr s id a = false -> forall j y, sv s j = Some y -> j <> id -> live y = true -> s_addr y <> a.
Proof.
  unfold dup_addr. intros H j y E Hne Hl Ha.
  assert (Hin : In (j, y) (served s)) by (apply aget_In; exact E).
  rewrite <- not_true_iff_false in H. apply H. apply existsb_exists. exists (j, y). split; [exact Hin|].
  cbn [fst snd]. rewrite Hl. destruct (Z.eqb_spec j id); [contradiction|]. cbn. apply String.eqb_eq. exact Ha.
Qed.

(* a record after a command either comes from a live-no-less record with the same address, or was put
   with an address no other live store had *)
Lemma change_origin s o id b y :
  change s o id b (Some y) -> live y = true ->
  (exists x, b = Some x /\ s_addr y = s_addr x /\ live x = true) \/ (is_put o id = true /\ dup_addr s id (s_addr y) = false).
Proof.
  unfold live. intros C L. apply andb_true_iff in L as [L1 L2]. apply negb_true_iff in L1, L2.
  apply is_tomb_false in L1.
  inversion C; subst.
  - left. exists y. repeat split. unfold live. apply is_tomb_false in L1. rewrite L1, L2. reflexivity.
  - right; auto.
  - left. eexists. split; [reflexivity|]. split; [assumption|].
    unfold live. match goal with Hs : s_state y = s_state ?x, Hp : s_pd y = s_pd ?x |- _ =>
      assert (is_tomb x = false) as -> by (apply is_tomb_false; congruence); rewrite <- Hp, L2; reflexivity end.
  - right; auto.
  - left. eexists. split; [reflexivity|]. split; [assumption|].
    unfold live. match goal with Hs : s_state ?x <> Tombstone, Hp : s_pd ?x = false |- _ =>
      assert (is_tomb x = false) as -> by (apply is_tomb_false; exact Hs); rewrite Hp; reflexivity end.
  - left. eexists. split; [reflexivity|]. split; [assumption|].
    unfold live. match goal with Hs : s_state ?x = Offline, Hp : s_pd ?x = false |- _ =>
      assert (is_tomb x = false) as -> by (apply is_tomb_false; congruence); rewrite Hp; reflexivity end.
  - congruence.
Qed.

Lemma is_put_unique o i j : is_put o i = true -> is_put o j = true -> i = j.
Proof. destruct o; cbn; try discriminate. intros A B. apply Z.eqb_eq in A, B. congruence. Qed.

Lemma addr_inv_step s o s' r : addr_inv s -> run_cmd s o = (s', r) -> addr_inv s'.
Proof.
  intros I H i j x y Hne Ei Ej Lx Ly Ha.
  pose proof (run_cmd_change _ _ _ _ H i) as Ci. pose proof (run_cmd_change _ _ _ _ H j) as Cj.
  rewrite Ei in Ci. rewrite Ej in Cj.
  destruct (change_origin _ _ _ _ _ Ci Lx) as [[x0 [Ex0 [Ax0 Lx0]]]|[Pi Di]];
  destruct (change_origin _ _ _ _ _ Cj Ly) as [[y0 [Ey0 [Ay0 Ly0]]]|[Pj Dj]].
  - apply (I i j x0 y0 Hne Ex0 Ey0 Lx0 Ly0). congruence.
  - apply (dup_addr_false _ _ _ Dj i x0 Ex0 Hne Lx0). congruence.
  - apply (dup_addr_false _ _ _ Di j y0 Ey0 (not_eq_sym Hne) Ly0). congruence.
  - apply Hne. eapply is_put_unique; eauto.
Qed.

Lemma addr_inv_boot cv p : addr_inv (boot cv p).
Proof.
  intros i j x y Hne Ei Ej _ _. unfold sv, boot in *. cbn in Ei, Ej.
  destruct (Z.eqb_spec (p_id p) i); [|discriminate]. destruct (Z.eqb_spec (p_id p) j); [|discriminate]. congruence.
Qed.

Lemma run_state_cmd s ops : run_state run_op s ops = fold_left (fun a o => fst (run_cmd a o)) ops s.
Proof.
  revert s; induction ops as [|o r IH]; intros s; cbn [run_state fold_left]; [reflexivity|].
  rewrite IH. unfold run_op. destruct (run_cmd s o); reflexivity.
Qed.

Lemma addr_inv_run s ops : addr_inv s -> addr_inv (run_state run_op s ops).
Proof.
  revert s; induction ops as [|o r IH]; intros s I; cbn [run_state]; [exact I|].
  apply IH. unfold run_op. destruct (run_cmd s o) as [s1 r1] eqn:E. cbn [fst]. eapply addr_inv_step; eauto.
Qed.

Theorem live_addresses_unique_pf cv p ops : addr_inv (run_state run_op (boot cv p) ops).
Proof. apply addr_inv_run, addr_inv_boot. Qed.
