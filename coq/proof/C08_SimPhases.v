(* C08 — how plan_check moves through one step of each kind the joint build path emits, under explicit
   preconditions on the region (general in the number of peers). *)
From Coq Require Import String.
From PDV Require Import lib.Base gen.Gen_C08 model.C08_Steps model.C08_Builder proof.C08_ListFacts.
Local Open Scope list_scope.
Local Open Scope Z_scope.

(* no peer is in a joint role *)
Definition NJ (ps : list peer) : Prop := forall p, In p ps -> prole p = Voter \/ prole p = Learner.

Lemma NJ_not_joint ps : NJ ps -> existsb in_joint ps = false.
Proof.
  intros H. destruct (existsb in_joint ps) eqn:E; [|reflexivity].
  apply existsb_exists in E as (p & Hp & Hj). destruct (H p Hp) as [R|R]; unfold in_joint in Hj; rewrite R in Hj; discriminate.
Qed.

Lemma NJ_count ps : NJ ps -> Z.of_nat (length (filter in_joint ps)) = 0.
Proof.
  intros H. replace (filter in_joint ps) with (@nil peer); [reflexivity|].
  symmetry. induction ps as [|p r IH]; cbn [filter]; [reflexivity|].
  destruct (H p (or_introl eq_refl)) as [R|R]; unfold in_joint at 1; rewrite R; apply IH; intros q Hq; apply H; right; exact Hq.
Qed.

(* the leader is a peer of the region and not a learner *)
Definition LeaderOK (r : region) : Prop := exists p, lk (peers r) (leader r) = Some p /\ is_learner p = false.

Record Inv (g : goal) (r : region) : Prop := {
  inv_nd : ND (peers r);
  inv_leader : LeaderOK r;
  inv_old : g_min_voters g <= voters_old (peers r);
  inv_new : g_min_voters g <= voters_new (peers r)
}.

Lemma trans_ok g r r' :
  leader_kept r r' = true -> leader_to_valid r r' = true -> ND (peers r') ->
  g_min_voters g <= voters_old (peers r') -> g_min_voters g <= voters_new (peers r') ->
  trans_violation g r r' = None.
Proof.
  intros H1 H2 H3 H4 H5. unfold trans_violation. rewrite H1, H2. cbn [negb].
  apply nodup_stores_ND in H3. rewrite H3. cbn [negb].
  destruct (voters_old (peers r') <? g_min_voters g) eqn:E1; [apply Z.ltb_lt in E1; lia|].
  destruct (voters_new (peers r') <? g_min_voters g) eqn:E2; [apply Z.ltb_lt in E2; lia|]. reflexivity.
Qed.

Lemma leader_kept_same_lk r r' :
  LeaderOK r -> (forall p, lk (peers r) (leader r) = Some p -> exists p', lk (peers r') (leader r) = Some p' /\ (is_learner p = false -> is_learner p' = false)) ->
  leader_kept r r' = true.
Proof.
  intros (p & Hp & Hl) H. unfold leader_kept. destruct (H p Hp) as (p' & Hp' & Hl'). unfold get_store_peer. fold (lk (peers r') (leader r)).
  rewrite Hp'. rewrite (Hl' Hl). cbn. apply orb_true_r.
Qed.

Lemma leader_to_valid_same r r' : leader r' = leader r -> leader_to_valid r r' = true.
Proof. intros H. unfold leader_to_valid. rewrite H, Z.eqb_refl. reflexivity. Qed.

(* ================= AddLearner / AddLightLearner ================= *)
Definition add_step (light : bool) (st id : Z) : step := if light then AddLightLearner st id else AddLearner st id.

Lemma pc_add_learner g r light st id rest :
  Inv g r -> NJ (peers r) -> lk (peers r) st = None ->
  let r' := set_peers r (peers r ++ [Peer st id Learner]) 1 in
  plan_check g r (add_step light st id :: rest) = plan_check g r' rest /\ Inv g r' /\ NJ (peers r').
Proof.
  intros I Hnj Hlk r'. destruct I as [Hnd Hld Ho Hn].
  assert (Hnd' : ND (peers r')).
  { unfold r'; cbn. apply ND_app; [exact Hnd| |].
    - unfold ND; cbn. constructor; [intros []|constructor].
    - intros q [<-|[]]. exact Hlk. }
  assert (Hlk' : forall s, lk (peers r') s = match lk (peers r) s with Some q => Some q | None => if st =? s then Some (Peer st id Learner) else None end).
  { intros s. unfold r'; cbn [peers set_peers]. rewrite lk_app. destruct (lk (peers r) s); [reflexivity|].
    unfold lk; cbn. unfold on_store; cbn. reflexivity. }
  assert (Hvo : voters_old (peers r') = voters_old (peers r)).
  { unfold r', voters_old; cbn [peers set_peers]. rewrite countb_app. unfold countb at 2; cbn. lia. }
  assert (Hvn : voters_new (peers r') = voters_new (peers r)).
  { unfold r', voters_new; cbn [peers set_peers]. rewrite countb_app. unfold countb at 2; cbn. lia. }
  assert (Hld' : LeaderOK r').
  { destruct Hld as (p & Hp & Hl). exists p. split; [|exact Hl]. change (leader r') with (leader r). rewrite Hlk', Hp. reflexivity. }
  assert (Hnj' : NJ (peers r')).
  { intros p Hin. unfold r' in Hin; cbn in Hin. apply in_app_or in Hin as [Hin|[<-|[]]]; [apply Hnj; exact Hin|right; reflexivity]. }
  split; [|split; [constructor; auto; lia|exact Hnj']].
  assert (Hfin : forall rr, is_finish rr (add_step light st id) =
                            match get_store_learner rr st with Some p => pid p =? id | None => false end)
    by (intros rr; destruct light; reflexivity).
  assert (Hsafe : forall rr, check_safety rr (add_step light st id) =
                            match get_store_peer rr st with
                            | None => None
                            | Some p => if negb (pid p =? id) then Some "peer has already existed in store"%string
                                        else if negb (is_learner p) then Some "peer already is a voter"%string else None
                            end) by (intros rr; destruct light; reflexivity).
  assert (Hcmd : forall rr, cmd_of_step rr (add_step light st id) =
                            if is_some (get_store_peer rr st) then None else Some (add_learner_node id st))
    by (intros rr; destruct light; reflexivity).
  cbn [plan_check]. unfold exec_step.
  rewrite Hfin. rewrite (get_store_learner_lk r st Hnd), Hlk.
  rewrite Hsafe. unfold get_store_peer at 1. fold (lk (peers r) st). rewrite Hlk.
  rewrite Hcmd. unfold get_store_peer at 1. fold (lk (peers r) st). rewrite Hlk. cbn [is_some].
  unfold add_learner_node, apply_cmd. unfold is_in_joint. rewrite (NJ_not_joint _ Hnj).
  unfold apply_change. cbn [pstore pid]. fold (lk (peers r) st). rewrite Hlk.
  fold r'.
  rewrite trans_ok; [| | |exact Hnd'|lia|lia].
  - rewrite Hfin, (get_store_learner_lk r' st Hnd'), Hlk', Hlk, Z.eqb_refl. cbn. rewrite Z.eqb_refl. reflexivity.
  - apply leader_kept_same_lk; [exact Hld|]. intros p Hp. exists p. split; [|auto]. rewrite Hlk', Hp. reflexivity.
  - apply leader_to_valid_same. reflexivity.
Qed.

(* ================= TransferLeader ================= *)
Lemma pc_transfer g r from to rest q :
  Inv g r -> lk (peers r) to = Some q -> (prole q = Voter \/ prole q = Incoming) -> leader r <> to ->
  let r' := set_leader r to in
  plan_check g r (TransferLeader from to :: rest) = plan_check g r' rest /\ Inv g r'.
Proof.
  intros I Hq Hrole Hne r'. destruct I as [Hnd Hld Ho Hn].
  assert (Hql : is_learner q = false) by (unfold is_learner; destruct Hrole as [-> | ->]; reflexivity).
  assert (Hqs : pstore q = to) by (apply lk_Some in Hq; tauto).
  split.
  - cbn [plan_check]. unfold exec_step. cbn [is_finish check_safety cmd_of_step].
    destruct (leader r =? to) eqn:E; [apply Z.eqb_eq in E; contradiction|].
    unfold get_store_peer. fold (lk (peers r) to). rewrite Hq, Hql.
    unfold apply_cmd. unfold get_store_peer. fold (lk (peers r) (pstore q)). rewrite Hqs, Hq, Z.eqb_refl, Hql. cbn [negb orb].
    fold r'.
    rewrite trans_ok; [| | |exact Hnd|exact Ho|exact Hn].
    + cbn [is_finish]. unfold r'; cbn. rewrite Z.eqb_refl. reflexivity.
    + apply leader_kept_same_lk; [exact Hld|]. intros p Hp. exists p. auto.
    + unfold leader_to_valid. unfold r'; cbn [leader set_leader].
      unfold get_store_peer. fold (lk (peers r) to). rewrite Hq. destruct Hrole as [-> | ->]; apply orb_true_r.
  - constructor; try assumption. exists q. split; [exact Hq|exact Hql].
Qed.

(* ================= RemovePeer (of a learner that is not the leader) ================= *)
Lemma countb_remove_false (f : peer -> bool) ps st :
  (forall p, In p ps -> pstore p = st -> f p = false) ->
  countb f (remove_store ps st) = countb f ps.
Proof.
  intros H. unfold remove_store. rewrite countb_filter. apply countb_ext. intros p Hp.
  destruct (on_store st p) eqn:E; cbn [negb andb]; [|reflexivity].
  apply on_store_true in E. symmetry. apply H; auto.
Qed.

Lemma pc_remove_learner g r st id rest :
  Inv g r -> NJ (peers r) -> lk (peers r) st = Some (Peer st id Learner) -> leader r <> st ->
  let r' := set_peers r (remove_store (peers r) st) 1 in
  plan_check g r (RemovePeer st id :: rest) = plan_check g r' rest /\ Inv g r' /\ NJ (peers r').
Proof.
  intros I Hnj Hp Hne r'. destruct I as [Hnd Hld Ho Hn].
  assert (Hnd' : ND (peers r')) by (apply ND_filter; exact Hnd).
  assert (Hlk' : forall s, lk (peers r') s = if s =? st then None else lk (peers r) s).
  { intros s. unfold r', remove_store; cbn [peers set_peers]. rewrite lk_filter by exact Hnd.
    destruct (lk (peers r) s) as [p|] eqn:E; [|destruct (s =? st); reflexivity].
    apply lk_Some in E as [_ E]. unfold on_store. rewrite E. rewrite (Z.eqb_sym s st). destruct (st =? s); reflexivity. }
  assert (Huniq : forall p, In p (peers r) -> pstore p = st -> p = Peer st id Learner).
  { intros p Hin Hs. pose proof (lk_In _ _ Hnd Hin) as L. rewrite Hs, Hp in L. congruence. }
  assert (Hvo : voters_old (peers r') = voters_old (peers r)).
  { apply countb_remove_false. intros p Hin Hs. rewrite (Huniq p Hin Hs). reflexivity. }
  assert (Hvn : voters_new (peers r') = voters_new (peers r)).
  { apply countb_remove_false. intros p Hin Hs. rewrite (Huniq p Hin Hs). reflexivity. }
  assert (Hnj' : NJ (peers r')).
  { intros p Hin. apply Hnj. unfold r', remove_store in Hin; cbn in Hin. apply filter_In in Hin. tauto. }
  assert (Hld' : LeaderOK r').
  { destruct Hld as (p & Hl & Hll). exists p. split; [|exact Hll]. change (leader r') with (leader r). rewrite Hlk'.
    destruct (leader r =? st) eqn:E; [apply Z.eqb_eq in E; contradiction|exact Hl]. }
  split; [|split; [constructor; auto; lia|exact Hnj']].
  cbn [plan_check]. unfold exec_step. cbn [is_finish check_safety cmd_of_step].
  unfold get_store_peer. fold (lk (peers r) st). rewrite Hp. cbn [is_some negb].
  destruct (st =? leader r) eqn:E; [apply Z.eqb_eq in E; congruence|].
  unfold apply_cmd, is_in_joint. rewrite (NJ_not_joint _ Hnj). unfold apply_change. cbn [pstore].
  fold (lk (peers r) st). rewrite Hp. unfold peer_eqb; cbn [pstore pid prole]. rewrite !Z.eqb_refl. cbn [role_eqb andb negb].
  rewrite E. cbn [andb]. fold r'.
  rewrite trans_ok; [| | |exact Hnd'|lia|lia].
  - cbn [is_finish]. unfold get_store_peer. fold (lk (peers r') st). rewrite Hlk', Z.eqb_refl. reflexivity.
  - apply leader_kept_same_lk; [exact Hld|]. intros p Hpl. exists p. split; [|auto]. rewrite Hlk'.
    destruct (leader r =? st) eqn:E2; [apply Z.eqb_eq in E2; contradiction|exact Hpl].
  - apply leader_to_valid_same. reflexivity.
Qed.

(* ================= ChangePeerV2Enter ================= *)
Definition memst (st : Z) (l : list (Z * Z)) : bool := existsb (fun x => fst x =? st) l.

Definition enter_role (P D : list (Z * Z)) (p : peer) : peer :=
  if memst (pstore p) P then Peer (pstore p) (pid p) Incoming
  else if memst (pstore p) D then Peer (pstore p) (pid p) Demoting else p.

Lemma enter_role_store P D p : pstore (enter_role P D p) = pstore p.
Proof. unfold enter_role. destruct (memst (pstore p) P); [reflexivity|]. destruct (memst (pstore p) D); reflexivity. Qed.

Lemma memst_false st l : ~ In st (map fst l) -> memst st l = false.
Proof.
  intros H. unfold memst. destruct (existsb (fun x => fst x =? st) l) eqn:E; [|reflexivity].
  apply existsb_exists in E as (x & Hx & Hs). apply Z.eqb_eq in Hs. exfalso. apply H. apply in_map_iff. eauto.
Qed.

Lemma memst_true st l x : In x l -> fst x = st -> memst st l = true.
Proof. intros H E. unfold memst. apply existsb_exists. exists x. split; [exact H|apply Z.eqb_eq; exact E]. Qed.

Lemma uniq_peer ps p q : ND ps -> In p ps -> lk ps (pstore p) = Some q -> p = q.
Proof. intros Hnd Hin Hl. rewrite (lk_In _ _ Hnd Hin) in Hl. congruence. Qed.

Lemma lk_replace ps st p s : pstore p = st ->
  lk (replace_peer ps st p) s = if s =? st then (match lk ps st with Some _ => Some p | None => None end) else lk ps s.
Proof.
  intros Hp. unfold replace_peer. rewrite lk_map.
  2:{ intros q. destruct (on_store st q) eqn:E; [apply on_store_true in E; congruence|reflexivity]. }
  destruct (s =? st) eqn:E.
  - apply Z.eqb_eq in E. subst s. destruct (lk ps st) as [q|] eqn:L; cbn [option_map]; [|reflexivity].
    apply lk_Some in L as [_ L]. unfold on_store. rewrite L, Z.eqb_refl. reflexivity.
  - destruct (lk ps s) as [q|] eqn:L; cbn [option_map]; [|reflexivity].
    apply lk_Some in L as [_ L]. unfold on_store. rewrite L, E. reflexivity.
Qed.

Lemma ND_replace ps st p : pstore p = st -> ND ps -> ND (replace_peer ps st p).
Proof.
  intros Hp H. unfold ND, replace_peer in *. rewrite map_map. erewrite map_ext_in; [exact H|].
  intros q _. cbn. destruct (on_store st q) eqn:E; [|reflexivity]. apply on_store_true in E. congruence.
Qed.

Lemma apply_changes_app j L cs1 : forall ps cs2 ps1,
  apply_changes j L ps cs1 = Some ps1 -> apply_changes j L ps (cs1 ++ cs2) = apply_changes j L ps1 cs2.
Proof.
  induction cs1 as [|c r IH]; intros ps cs2 ps1 H; cbn [apply_changes app] in *; [inversion H; reflexivity|].
  destruct (apply_change j L ps c) as [ps'|]; [|discriminate]. apply IH. exact H.
Qed.

(* the promote half of an enter request *)
Lemma apply_changes_promote L : forall P ps,
  ND ps -> (forall x, In x P -> lk ps (fst x) = Some (Peer (fst x) (snd x) Learner)) -> NoDup (map fst P) ->
  apply_changes true L ps (map (fun x => (AddNode, Peer (fst x) (snd x) Voter)) P) = Some (map (enter_role P []) ps).
Proof.
  induction P as [|x P IH]; intros ps Hnd HP Hnp; cbn [map apply_changes].
  - f_equal. symmetry. erewrite map_ext; [apply map_id|]. intros p. unfold enter_role; cbn. reflexivity.
  - pose proof (HP x (or_introl eq_refl)) as Hx.
    unfold apply_change. cbn [pstore pid]. fold (lk ps (fst x)). rewrite Hx. cbn [pid prole]. rewrite Z.eqb_refl. cbn [negb].
    inversion Hnp as [|? ? Hn Hd]; subst.
    set (ps' := replace_peer ps (fst x) (Peer (fst x) (snd x) Incoming)).
    assert (Hnd' : ND ps') by (apply ND_replace; [reflexivity|exact Hnd]).
    assert (HP' : forall y, In y P -> lk ps' (fst y) = Some (Peer (fst y) (snd y) Learner)).
    { intros y Hy. unfold ps'. rewrite lk_replace by reflexivity.
      destruct (fst y =? fst x) eqn:E; [apply Z.eqb_eq in E; exfalso; apply Hn; rewrite <- E; apply in_map; exact Hy|].
      apply HP. right. exact Hy. }
    rewrite (IH ps' Hnd' HP' Hd). f_equal. unfold ps', replace_peer. rewrite map_map. apply map_ext_in.
    intros q Hq. destruct (on_store (fst x) q) eqn:E.
    + apply on_store_true in E. assert (q = Peer (fst x) (snd x) Learner) as -> by (apply (uniq_peer ps q _ Hnd Hq); rewrite E; exact Hx).
      unfold enter_role; cbn [pstore pid]. rewrite (memst_false _ _ Hn). cbn.
      rewrite Z.eqb_refl. cbn. reflexivity.
    + unfold enter_role. cbn [memst existsb]. unfold on_store in E. rewrite (Z.eqb_sym (fst x) (pstore q)) in *.
      rewrite E. cbn [orb]. reflexivity.
Qed.

Lemma apply_changes_demote L : forall D ps,
  ND ps -> (forall x, In x D -> lk ps (fst x) = Some (Peer (fst x) (snd x) Voter)) -> NoDup (map fst D) ->
  apply_changes true L ps (map (fun x => (AddLearnerNode, Peer (fst x) (snd x) Learner)) D) = Some (map (enter_role [] D) ps).
Proof.
  induction D as [|x D IH]; intros ps Hnd HD Hnp; cbn [map apply_changes].
  - f_equal. symmetry. erewrite map_ext; [apply map_id|]. intros p. unfold enter_role; cbn. reflexivity.
  - pose proof (HD x (or_introl eq_refl)) as Hx.
    unfold apply_change. cbn [pstore pid]. fold (lk ps (fst x)). rewrite Hx. cbn [pid prole]. rewrite Z.eqb_refl. cbn [negb andb].
    inversion Hnp as [|? ? Hn Hd]; subst.
    set (ps' := replace_peer ps (fst x) (Peer (fst x) (snd x) Demoting)).
    assert (Hnd' : ND ps') by (apply ND_replace; [reflexivity|exact Hnd]).
    assert (HD' : forall y, In y D -> lk ps' (fst y) = Some (Peer (fst y) (snd y) Voter)).
    { intros y Hy. unfold ps'. rewrite lk_replace by reflexivity.
      destruct (fst y =? fst x) eqn:E; [apply Z.eqb_eq in E; exfalso; apply Hn; rewrite <- E; apply in_map; exact Hy|].
      apply HD. right. exact Hy. }
    rewrite (IH ps' Hnd' HD' Hd). f_equal.
    unfold ps', replace_peer. rewrite map_map. apply map_ext_in.
    intros q Hq. destruct (on_store (fst x) q) eqn:E.
    + apply on_store_true in E. assert (q = Peer (fst x) (snd x) Voter) as -> by (apply (uniq_peer ps q _ Hnd Hq); rewrite E; exact Hx).
      unfold enter_role; cbn [pstore pid]. rewrite (memst_false _ _ Hn). cbn. rewrite Z.eqb_refl. cbn. reflexivity.
    + unfold enter_role. cbn [memst existsb]. unfold on_store in E. rewrite (Z.eqb_sym (fst x) (pstore q)) in *.
      rewrite E. cbn [orb]. reflexivity.
Qed.

Lemma enter_role_compose P D q :
  (forall x, In x D -> ~ In (fst x) (map fst P)) ->
  enter_role [] D (enter_role P [] q) = enter_role P D q.
Proof.
  intros Hdisj.
  assert (H0 : forall st, memst st [] = false) by reflexivity.
  destruct (memst (pstore q) P) eqn:E.
  - assert (E2 : memst (pstore q) D = false).
    { destruct (memst (pstore q) D) eqn:E2; [|reflexivity].
      unfold memst in E, E2. apply existsb_exists in E2 as (x & Hx & Hs). apply Z.eqb_eq in Hs.
      apply existsb_exists in E as (y & Hy & Hs2). apply Z.eqb_eq in Hs2.
      exfalso. apply (Hdisj x Hx). rewrite Hs, <- Hs2. apply in_map. exact Hy. }
    unfold enter_role. rewrite E. cbn [pstore pid]. rewrite H0, E2. reflexivity.
  - unfold enter_role. rewrite E, H0. cbn [pstore pid]. rewrite H0.
    destruct (memst (pstore q) D); reflexivity.
Qed.

Lemma apply_changes_enter L P D ps :
  ND ps ->
  (forall x, In x P -> lk ps (fst x) = Some (Peer (fst x) (snd x) Learner)) ->
  (forall x, In x D -> lk ps (fst x) = Some (Peer (fst x) (snd x) Voter)) ->
  NoDup (map fst P) -> NoDup (map fst D) -> (forall x, In x D -> ~ In (fst x) (map fst P)) ->
  apply_changes true L ps (v2_request P D) = Some (map (enter_role P D) ps).
Proof.
  intros Hnd HP HD HnP HnD Hdisj. unfold v2_request.
  rewrite (apply_changes_app true L _ ps _ _ (apply_changes_promote L P ps Hnd HP HnP)).
  rewrite apply_changes_demote; [| | |exact HnD].
  - f_equal. rewrite map_map. apply map_ext. intros q. apply enter_role_compose. exact Hdisj.
  - apply ND_map; [intros q; apply enter_role_store|exact Hnd].
  - intros x Hx. rewrite lk_map by (intros q; apply enter_role_store). rewrite (HD x Hx). cbn [option_map].
    unfold enter_role; cbn [pstore]. rewrite (memst_false _ P (Hdisj x Hx)). cbn. reflexivity.
Qed.

(* scanning the pairs of an enter / leave step *)
Lemma scan_pairs_out r cls tl : forall l ij nj dl,
  (forall x, In x l -> exists p, lk (peers r) (fst x) = Some p /\ pid p = snd x /\ cls (prole p) = JOut) ->
  scan_pairs r cls tl l (ij, nj, dl) = inr (ij, nj || negb (Nat.eqb (length l) 0), dl).
Proof.
  induction l as [|x l IH]; intros ij nj dl H; cbn [scan_pairs length Nat.eqb negb].
  - rewrite orb_false_r. reflexivity.
  - destruct (H x (or_introl eq_refl)) as (p & Hp & Hid & Hc). unfold get_store_peer. fold (lk (peers r) (fst x)). rewrite Hp.
    cbn [oid orole]. rewrite Hid, Z.eqb_refl. cbn [negb]. rewrite Hc.
    rewrite IH by (intros y Hy; apply H; right; exact Hy). rewrite orb_true_r. cbn [orb]. reflexivity.
Qed.

Lemma scan_pairs_in r cls tl : forall l ij nj dl,
  (forall x, In x l -> exists p, lk (peers r) (fst x) = Some p /\ pid p = snd x /\ cls (prole p) = JIn /\ (tl = true -> pstore p <> leader r)) ->
  scan_pairs r cls tl l (ij, nj, dl) = inr (ij || negb (Nat.eqb (length l) 0), nj, dl).
Proof.
  induction l as [|x l IH]; intros ij nj dl H; cbn [scan_pairs length Nat.eqb negb].
  - rewrite orb_false_r. reflexivity.
  - destruct (H x (or_introl eq_refl)) as (p & Hp & Hid & Hc & Hl). unfold get_store_peer. fold (lk (peers r) (fst x)). rewrite Hp.
    cbn [oid orole ostore]. rewrite Hid, Z.eqb_refl. cbn [negb]. rewrite Hc.
    assert (E : tl && (pstore p =? leader r) = false).
    { destruct tl; [|reflexivity]. cbn. apply Z.eqb_neq. apply Hl. reflexivity. }
    rewrite E, orb_false_r.
    rewrite IH by (intros y Hy; apply H; right; exact Hy). rewrite orb_true_r. reflexivity.
Qed.

Lemma count_joint_NJ r : NJ (peers r) -> count_joint r = 0.
Proof. intros H. unfold count_joint. apply NJ_count. exact H. Qed.

Lemma apply_cmd_v2_nonempty r cs : cs <> [] ->
  apply_cmd r (CChangePeerV2 cs) =
  if is_in_joint r then None
  else match apply_changes true (leader r) (peers r) cs with
       | Some ps => Some (set_peers r ps (Z.of_nat (length cs)))
       | None => None
       end.
Proof. destruct cs; [intros H; contradiction H; reflexivity|reflexivity]. Qed.

Lemma v2_request_nonempty P D : P ++ D <> [] -> v2_request P D <> [].
Proof.
  intros H E. unfold v2_request in E. apply app_eq_nil in E as [E1 E2]. apply map_eq_nil in E1, E2. subst. apply H. reflexivity.
Qed.

Lemma pc_enter g r P D rest :
  Inv g r -> NJ (peers r) ->
  (forall x, In x P -> lk (peers r) (fst x) = Some (Peer (fst x) (snd x) Learner)) ->
  (forall x, In x D -> lk (peers r) (fst x) = Some (Peer (fst x) (snd x) Voter)) ->
  NoDup (map fst P) -> NoDup (map fst D) -> (forall x, In x D -> ~ In (fst x) (map fst P)) ->
  P ++ D <> [] ->
  let r' := set_peers r (map (enter_role P D) (peers r)) (Z.of_nat (length (v2_request P D))) in
  g_min_voters g <= voters_new (peers r') ->
  plan_check g r (ChangePeerV2Enter P D :: rest) = plan_check g r' rest /\ Inv g r'.
Proof.
  intros I Hnj HP HD HnP HnD Hdisj Hne r' Hvn. destruct I as [Hnd Hld Ho Hn].
  assert (Hnd' : ND (peers r')) by (apply ND_map; [intros q; apply enter_role_store|exact Hnd]).
  assert (Hlk' : forall s, lk (peers r') s = option_map (enter_role P D) (lk (peers r) s)).
  { intros s. unfold r'; cbn [peers set_peers]. apply lk_map. intros q. apply enter_role_store. }
  assert (HP' : forall x, In x P -> lk (peers r') (fst x) = Some (Peer (fst x) (snd x) Incoming)).
  { intros x Hx. rewrite Hlk', (HP x Hx). cbn [option_map]. unfold enter_role; cbn [pstore pid].
    rewrite (memst_true _ P x Hx eq_refl). reflexivity. }
  assert (HD' : forall x, In x D -> lk (peers r') (fst x) = Some (Peer (fst x) (snd x) Demoting)).
  { intros x Hx. rewrite Hlk', (HD x Hx). cbn [option_map]. unfold enter_role; cbn [pstore pid].
    rewrite (memst_false _ P (Hdisj x Hx)), (memst_true _ D x Hx eq_refl). reflexivity. }
  assert (Hvo : voters_old (peers r') = voters_old (peers r)).
  { unfold r', voters_old; cbn [peers set_peers]. rewrite countb_map. apply countb_ext. intros q Hq.
    unfold enter_role. destruct (memst (pstore q) P) eqn:E1.
    - unfold memst in E1. apply existsb_exists in E1 as (x & Hx & Hs). apply Z.eqb_eq in Hs.
      assert (q = Peer (fst x) (snd x) Learner) as -> by (apply (uniq_peer _ q _ Hnd Hq); rewrite <- Hs; apply HP; exact Hx).
      reflexivity.
    - destruct (memst (pstore q) D) eqn:E2; [|reflexivity].
      unfold memst in E2. apply existsb_exists in E2 as (x & Hx & Hs). apply Z.eqb_eq in Hs.
      assert (q = Peer (fst x) (snd x) Voter) as -> by (apply (uniq_peer _ q _ Hnd Hq); rewrite <- Hs; apply HD; exact Hx).
      reflexivity. }
  assert (Hld' : LeaderOK r').
  { destruct Hld as (p & Hp & Hl). exists (enter_role P D p). split; [change (leader r') with (leader r); rewrite Hlk', Hp; reflexivity|].
    unfold enter_role. destruct (memst (pstore p) P); [reflexivity|]. destruct (memst (pstore p) D); [reflexivity|exact Hl]. }
  split; [|constructor; auto; lia].
  cbn [plan_check]. unfold exec_step.
  (* not finished yet *)
  assert (Hnf : is_finish r (ChangePeerV2Enter P D) = false).
  { cbn [is_finish]. destruct P as [|x P'].
    - destruct D as [|x D']; [contradiction Hne; reflexivity|]. cbn [forallb andb].
      rewrite (get_store_voter_lk r _ Hnd), (HD x (or_introl eq_refl)). cbn. rewrite Z.eqb_refl. reflexivity.
    - cbn [forallb]. rewrite (get_store_voter_lk r _ Hnd), (HP x (or_introl eq_refl)). cbn.
      rewrite andb_false_r. reflexivity. }
  rewrite Hnf.
  (* safe *)
  assert (Hsafe : check_safety r (ChangePeerV2Enter P D) = None).
  { cbn [check_safety].
    rewrite (scan_pairs_out r enter_promote_cls false P false false false).
    2:{ intros x Hx. eexists. split; [apply HP; exact Hx|]. cbn. auto. }
    rewrite (scan_pairs_out r enter_demote_cls false D).
    2:{ intros x Hx. eexists. split; [apply HD; exact Hx|]. cbn. auto. }
    unfold joint_verdict. rewrite (count_joint_NJ r Hnj). cbn [orb andb negb Z.eqb].
    destruct (negb (Nat.eqb (length P) 0) || negb (Nat.eqb (length D) 0)); reflexivity. }
  rewrite Hsafe. cbn [cmd_of_step].
  (* applied *)
  assert (Happ : apply_cmd r (CChangePeerV2 (v2_request P D)) = Some r').
  { rewrite (apply_cmd_v2_nonempty r _ (v2_request_nonempty P D Hne)).
    unfold is_in_joint. rewrite (NJ_not_joint _ Hnj).
    rewrite (apply_changes_enter (leader r) P D (peers r) Hnd HP HD HnP HnD Hdisj). reflexivity. }
  rewrite Happ.
  rewrite trans_ok; [| | |exact Hnd'|lia|exact Hvn].
  - (* finished afterwards *)
    assert (Hf : is_finish r' (ChangePeerV2Enter P D) = true).
    { cbn [is_finish]. apply andb_true_iff. split; apply forallb_forall; intros x Hx;
        rewrite (get_store_voter_lk r' _ Hnd'); [rewrite (HP' x Hx)|rewrite (HD' x Hx)]; cbn; rewrite Z.eqb_refl; reflexivity. }
    rewrite Hf. reflexivity.
  - apply leader_kept_same_lk; [exact Hld|]. intros p Hp. exists (enter_role P D p). split; [rewrite Hlk', Hp; reflexivity|].
    intros Hl. unfold enter_role. destruct (memst (pstore p) P); [reflexivity|]. destruct (memst (pstore p) D); [reflexivity|exact Hl].
  - apply leader_to_valid_same. reflexivity.
Qed.

(* ================= ChangePeerV2Leave ================= *)
Lemma leave_role_store p : pstore (leave_role p) = pstore p.
Proof. unfold leave_role. destruct (prole p); reflexivity. Qed.

Lemma NJ_leave ps : NJ (map leave_role ps).
Proof.
  intros p Hin. apply in_map_iff in Hin as (q & <- & _). unfold leave_role. destruct (prole q) eqn:E; cbn; auto.
Qed.

Lemma pc_leave g r P D rest :
  Inv g r ->
  (forall x, In x P -> lk (peers r) (fst x) = Some (Peer (fst x) (snd x) Incoming)) ->
  (forall x, In x D -> lk (peers r) (fst x) = Some (Peer (fst x) (snd x) Demoting)) ->
  count_joint r = Z.of_nat (length P + length D) ->
  P ++ D <> [] ->
  (exists p, lk (peers r) (leader r) = Some p /\ (prole p = Voter \/ prole p = Incoming)) ->
  let r' := set_peers r (map leave_role (peers r)) (count_joint r) in
  plan_check g r (ChangePeerV2Leave P D :: rest) = plan_check g r' rest /\ Inv g r' /\ NJ (peers r').
Proof.
  intros I HP HD Hcount Hne (lp & Hlp & Hlrole) r'. destruct I as [Hnd Hld Ho Hn].
  assert (Hnd' : ND (peers r')) by (apply ND_map; [intros q; apply leave_role_store|exact Hnd]).
  assert (Hlk' : forall s, lk (peers r') s = option_map leave_role (lk (peers r) s)).
  { intros s. unfold r'; cbn [peers set_peers]. apply lk_map. intros q. apply leave_role_store. }
  assert (Hvo : voters_old (peers r') = voters_new (peers r)).
  { unfold r', voters_old, voters_new; cbn [peers set_peers]. rewrite countb_map. apply countb_ext. intros q _.
    unfold leave_role. destruct (prole q) eqn:E; unfold old_voter, new_voter; cbn [prole]; rewrite ?E; reflexivity. }
  assert (Hvn : voters_new (peers r') = voters_new (peers r)).
  { unfold r', voters_new; cbn [peers set_peers]. rewrite countb_map. apply countb_ext. intros q _.
    unfold leave_role. destruct (prole q) eqn:E; unfold new_voter; cbn [prole]; rewrite ?E; reflexivity. }
  assert (Hld' : LeaderOK r').
  { exists (leave_role lp). split; [change (leader r') with (leader r); rewrite Hlk', Hlp; reflexivity|].
    destruct lp as [ls li lro]; cbn in Hlrole |- *. destruct Hlrole; subst lro; reflexivity. }
  assert (Hjoint : is_in_joint r = true).
  { unfold is_in_joint. apply existsb_exists. destruct P as [|x P'].
    - destruct D as [|x D']; [contradiction Hne; reflexivity|].
      exists (Peer (fst x) (snd x) Demoting). split; [|reflexivity]. apply (lk_Some _ _ _ (HD x (or_introl eq_refl))).
    - exists (Peer (fst x) (snd x) Incoming). split; [|reflexivity]. apply (lk_Some _ _ _ (HP x (or_introl eq_refl))). }
  split; [|split; [constructor; auto; lia|unfold r'; cbn; apply NJ_leave]].
  cbn [plan_check]. unfold exec_step.
  assert (Hnf : is_finish r (ChangePeerV2Leave P D) = false).
  { cbn [is_finish]. rewrite Hjoint. cbn [negb]. rewrite andb_false_r. reflexivity. }
  rewrite Hnf.
  assert (Hsafe : check_safety r (ChangePeerV2Leave P D) = None).
  { cbn [check_safety].
    rewrite (scan_pairs_in r leave_promote_cls false P false false false).
    2:{ intros x Hx. eexists. split; [apply HP; exact Hx|]. cbn. repeat split; auto. discriminate. }
    rewrite (scan_pairs_in r leave_demote_cls true D).
    2:{ intros x Hx. eexists. split; [apply HD; exact Hx|]. cbn. repeat split; auto. intros _ C.
        (* a demoting peer on the leader's store would be the leader's peer *)
        rewrite <- C in Hlp. rewrite (HD x Hx) in Hlp. inversion Hlp; subst lp. cbn in Hlrole. destruct Hlrole; discriminate. }
    unfold joint_verdict. rewrite Hcount. rewrite Z.eqb_refl. cbn [negb andb orb].
    rewrite !andb_false_r. cbn. reflexivity. }
  rewrite Hsafe. cbn [cmd_of_step].
  assert (Happ : apply_cmd r (CChangePeerV2 []) = Some r').
  { unfold apply_cmd. rewrite Hjoint. cbn [negb]. unfold get_store_peer. fold (lk (peers r) (leader r)). rewrite Hlp.
    cbn [orole is_some]. destruct Hlrole as [-> | ->]; reflexivity. }
  rewrite Happ.
  rewrite trans_ok; [| | |exact Hnd'|lia|lia].
  - assert (Hf : is_finish r' (ChangePeerV2Leave P D) = true).
    { cbn [is_finish]. apply andb_true_iff. split; [apply andb_true_iff; split|].
      - apply forallb_forall. intros x Hx. rewrite (get_store_voter_lk r' _ Hnd'), Hlk', (HP x Hx). cbn. rewrite Z.eqb_refl. reflexivity.
      - apply forallb_forall. intros x Hx. unfold dv_finished. rewrite (get_store_learner_lk r' _ Hnd'), Hlk', (HD x Hx). cbn.
        apply Z.eqb_refl.
      - unfold is_in_joint, r'; cbn [peers set_peers]. rewrite (NJ_not_joint _ (NJ_leave (peers r))). reflexivity. }
    rewrite Hf. reflexivity.
  - apply leader_kept_same_lk; [exact Hld|]. intros p Hp. rewrite Hlp in Hp. inversion Hp; subst p.
    exists (leave_role lp). split; [rewrite Hlk', Hlp; reflexivity|]. intros _.
    destruct lp as [ls li lro]; cbn in Hlrole |- *. destruct Hlrole; subst lro; reflexivity.
  - apply leader_to_valid_same. reflexivity.
Qed.

(* empty enter / leave steps are already finished *)
Lemma pc_enter_empty g r rest : plan_check g r (ChangePeerV2Enter [] [] :: rest) = plan_check g r rest.
Proof. reflexivity. Qed.

Lemma pc_leave_empty g r rest : NJ (peers r) -> plan_check g r (ChangePeerV2Leave [] [] :: rest) = plan_check g r rest.
Proof.
  intros H. cbn [plan_check]. unfold exec_step. cbn [is_finish forallb andb]. unfold is_in_joint. rewrite (NJ_not_joint _ H). reflexivity.
Qed.
