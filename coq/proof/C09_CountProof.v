(* C09 — step accounting: a step that is neither finished nor unsafe in a region counts nothing in
   ConfVerChanged.  True for every step kind of step.go once ChangePeerV2Leave.ConfVerChanged looks the
   demoted peer up by its store (gen/Gen_C08.leave_cvc_lookup_arg = "dv.ToStore"; the lemma
   leave_lookup_is_store below fails if the source passes the peer id again), for regions with one peer
   per store and non-zero peer ids, steps naming non-zero peer ids, with one exception that is part of
   the statement: a RemovePeer whose store holds a peer with ANOTHER id counts 1. *)
From Coq Require Import String.
From PDV Require Import lib.Base gen.Gen_C08 model.C08_Steps model.C09_OpCtl proof.C08_ListFacts proof.C08_StepSpec.
Local Open Scope string_scope.
Local Open Scope list_scope.
Local Open Scope Z_scope.

Lemma leave_lookup_is_store d : leave_lookup_key d = fst d.
Proof. reflexivity. Qed.

Definition region_ids_nonzero (r : region) : bool := forallb (fun p => negb (pid p =? 0)) (peers r).

(* RemovePeer{store, id} while the store holds a peer with another id *)
Definition remove_names_other_peer (r : region) (s : step) : bool :=
  match s with
  | RemovePeer st id => negb (id =? 0) && negb (oid (get_store_peer r st) =? id)
  | _ => false
  end.

Lemma region_pid_nonzero r st p : region_ids_nonzero r = true -> get_store_peer r st = Some p -> pid p <> 0.
Proof.
  unfold region_ids_nonzero, get_store_peer. intros H E. apply find_some in E as [E _].
  rewrite forallb_forall in H. specialize (H p E). apply negb_true_iff, Z.eqb_neq in H. exact H.
Qed.

Lemma joint_verdict_all_in r n dl : joint_verdict r n (true, false, dl) = None -> count_joint r = Z.of_nat n.
Proof.
  unfold joint_verdict. cbn [andb]. destruct (count_joint r =? Z.of_nat n) eqn:E; [intros _; apply Z.eqb_eq; exact E|discriminate].
Qed.

Lemma joint_verdict_all_out r n dl : joint_verdict r n (false, true, dl) = None -> count_joint r = 0.
Proof.
  unfold joint_verdict. cbn [andb]. destruct (count_joint r =? 0) eqn:E; [intros _; apply Z.eqb_eq; exact E|discriminate].
Qed.

(* ---------- the lemma ---------- *)
Section Count.
  Variable r : region.
  Hypothesis Hnd : ND (peers r).
  Hypothesis Hids : region_ids_nonzero r = true.

  (* ChangePeerV2Enter: counted and safe -> finished *)
  Lemma enter_counted_finished pl dv :
    pair_ids_nonzero pl = true -> pair_ids_nonzero dv = true ->
    check_safety r (ChangePeerV2Enter pl dv) = None ->
    conf_ver_changed r (ChangePeerV2Enter pl dv) <> 0 -> is_finish r (ChangePeerV2Enter pl dv) = true.
  Proof.
    intros Hpl Hdv Hs Hc. cbn [conf_ver_changed] in Hc. cbn [check_safety] in Hs. cbn [is_finish].
    match type of Hc with context [if ?c then _ else _] => destruct c eqn:Ec end; [|congruence].
    apply andb_true_iff in Ec as [Ea Eb]. rewrite forallb_forall in Ea, Eb.
    destruct (scan_pairs r enter_promote_cls false pl (false, false, false)) as [e|acc1] eqn:S1; [discriminate|].
    destruct (scan_pairs r enter_demote_cls false dv acc1) as [e|acc2] eqn:S2; [discriminate|].
    apply scan_pairs_inr in S1 as (P1 & P2 & P3 & _). apply scan_pairs_inr in S2 as (D1 & D2 & D3 & _). cbn [fst snd] in *.
    (* every promoted entry is an incoming voter with the id *)
    assert (Apl : forall x, In x pl -> exists p, get_store_voter r (fst x) = Some p /\ get_store_peer r (fst x) = Some p /\
                                                   pid p = snd x /\ prole p = Incoming).
    { intros x Hx. specialize (Ea x Hx). cbn zeta in Ea. apply andb_true_iff in Ea as [E1 E2]. apply Z.eqb_eq in E1.
      destruct (get_store_voter r (fst x)) as [p|] eqn:Ev; [|cbn in E1; exfalso; apply (pairs_nonzero pl x Hpl Hx); congruence].
      destruct (voter_some r Hnd _ _ Ev) as [Ep Hl]. exists p. repeat split; auto.
      destruct (P1 x Hx) as (_ & Hcls). rewrite Ep in Hcls. cbn [orole] in Hcls. cbn [is_voter_or_incoming] in E2.
      destruct (prole p); cbn in *; try discriminate; try reflexivity. destruct Hcls; discriminate. }
    assert (Adv : forall x, In x dv -> exists p, get_store_voter r (fst x) = Some p /\ get_store_peer r (fst x) = Some p /\
                                                   pid p = snd x /\ prole p = Demoting).
    { intros x Hx. destruct (D1 x Hx) as (Hid & Hcls).
      destruct (get_store_peer r (fst x)) as [p|] eqn:Ep; [|cbn in Hid; exfalso; apply (pairs_nonzero dv x Hdv Hx); congruence].
      cbn [oid orole] in *. assert (Hl : is_learner p = false).
      { unfold is_learner. destruct (prole p); cbn in *; try reflexivity. destruct Hcls; discriminate. }
      pose proof (peer_voter r Hnd _ _ Ep Hl) as Ev. exists p. repeat split; auto.
      specialize (Eb x Hx). cbn zeta in Eb. rewrite Ev in Eb. cbn [is_some oid andb] in Eb.
      rewrite Hid, Z.eqb_refl in Eb. cbn [negb orb] in Eb. apply negb_true_iff, negb_false_iff in Eb.
      cbn [is_learner_or_demoting] in Eb. destruct (prole p); cbn in *; try discriminate; try reflexivity.
      destruct Hcls; discriminate. }
    apply andb_true_iff. split; rewrite forallb_forall; intros x Hx; cbn zeta.
    - destruct (Apl x Hx) as (p & Ev & _ & Hid & Hro). rewrite Ev. cbn [oid orole]. rewrite Hid, Hro, Z.eqb_refl. reflexivity.
    - destruct (Adv x Hx) as (p & Ev & _ & Hid & Hro). rewrite Ev. cbn [oid orole]. rewrite Hid, Hro, Z.eqb_refl. reflexivity.
  Qed.

  (* ChangePeerV2Leave (lookup by store): counted and safe -> finished *)
  Lemma leave_counted_finished pl dv :
    pair_ids_nonzero pl = true -> pair_ids_nonzero dv = true ->
    check_safety r (ChangePeerV2Leave pl dv) = None ->
    conf_ver_changed r (ChangePeerV2Leave pl dv) <> 0 -> is_finish r (ChangePeerV2Leave pl dv) = true.
  Proof.
    intros Hpl Hdv Hs Hc. cbn [conf_ver_changed] in Hc. cbn [check_safety] in Hs. cbn [is_finish].
    match type of Hc with context [if ?c then _ else _] => destruct c eqn:Ec end; [|congruence].
    assert (Hne : pl <> [] \/ dv <> []).
    { destruct pl; [|left; discriminate]. destruct dv; [|right; discriminate]. cbn in Hc. congruence. }
    apply andb_true_iff in Ec as [Ea Eb]. rewrite forallb_forall in Ea, Eb.
    destruct (scan_pairs r leave_promote_cls false pl (false, false, false)) as [e|acc1] eqn:S1; [discriminate|].
    destruct (scan_pairs r leave_demote_cls true dv acc1) as [e|acc2] eqn:S2; [discriminate|].
    apply scan_pairs_inr in S1 as (P1 & P2 & P3 & _). apply scan_pairs_inr in S2 as (D1 & D2 & D3 & _). cbn [fst snd] in *.
    assert (Apl : forall x, In x pl -> exists p, get_store_voter r (fst x) = Some p /\ get_store_peer r (fst x) = Some p /\
                                                   pid p = snd x /\ prole p = Voter).
    { intros x Hx. specialize (Ea x Hx). cbn zeta in Ea. apply andb_true_iff in Ea as [E1 E2]. apply Z.eqb_eq in E1.
      destruct (get_store_voter r (fst x)) as [p|] eqn:Ev; [|cbn in E1; exfalso; apply (pairs_nonzero pl x Hpl Hx); congruence].
      destruct (voter_some r Hnd _ _ Ev) as [Ep Hl]. exists p. repeat split; auto.
      cbn [orole] in E2. destruct (prole p); cbn in E2; try discriminate. reflexivity. }
    assert (Adv : forall x, In x dv -> exists p, get_store_learner r (fst x) = Some p /\ get_store_peer r (fst x) = Some p /\
                                                   pid p = snd x /\ prole p = Learner).
    { intros x Hx. destruct (D1 x Hx) as (Hid & Hcls).
      destruct (get_store_peer r (fst x)) as [p|] eqn:Ep; [|cbn in Hid; exfalso; apply (pairs_nonzero dv x Hdv Hx); congruence].
      cbn [oid orole] in *. specialize (Eb x Hx). rewrite leave_lookup_is_store, Ep in Eb. cbn [is_some andb] in Eb.
      apply negb_true_iff, negb_false_iff in Eb. unfold dv_changed in Eb. apply Z.eqb_eq in Eb.
      destruct (get_store_learner r (fst x)) as [q|] eqn:El; [|cbn in Eb; exfalso; apply (pairs_nonzero dv x Hdv Hx); congruence].
      destruct (learner_some r Hnd _ _ El) as [Eq Hl]. rewrite Ep in Eq. inversion Eq; subst q.
      exists p. repeat split; auto. apply is_learner_role. exact Hl. }
    (* every entry is outside the joint state, so the verdict forces count_joint = 0 *)
    assert (Pin : existsb (fun x => is_jin (leave_promote_cls (orole (get_store_peer r (fst x))))) pl = false).
    { apply existsb_none. intros x Hx. destruct (Apl x Hx) as (p & _ & Ep & _ & Hro). rewrite Ep. cbn [orole]. rewrite Hro. reflexivity. }
    assert (Din : existsb (fun x => is_jin (leave_demote_cls (orole (get_store_peer r (fst x))))) dv = false).
    { apply existsb_none. intros x Hx. destruct (Adv x Hx) as (p & _ & Ep & _ & Hro). rewrite Ep. cbn [orole]. rewrite Hro. reflexivity. }
    assert (Hout : snd (fst acc2) = true).
    { rewrite D3, P3. cbn [orb]. destruct Hne as [Hne|Hne].
      - rewrite (existsb_all _ pl Hne); [reflexivity|].
        intros x Hx. destruct (Apl x Hx) as (p & _ & Ep & _ & Hro). rewrite Ep. cbn [orole]. rewrite Hro. reflexivity.
      - rewrite (existsb_all _ dv Hne); [apply orb_true_r|].
        intros x Hx. destruct (Adv x Hx) as (p & _ & Ep & _ & Hro). rewrite Ep. cbn [orole]. rewrite Hro. reflexivity. }
    assert (Hin : fst (fst acc2) = false) by (rewrite D2, P2, Pin, Din; reflexivity).
    destruct acc2 as [[ij nj] dl]. cbn [fst snd] in Hout, Hin. subst ij nj.
    apply joint_verdict_all_out, count_joint_zero in Hs.
    apply andb_true_iff. split; [apply andb_true_iff; split|rewrite Hs; reflexivity]; rewrite forallb_forall; intros x Hx.
    - cbn zeta. destruct (Apl x Hx) as (p & Ev & _ & Hid & Hro). rewrite Ev. cbn [oid orole]. rewrite Hid, Hro, Z.eqb_refl. reflexivity.
    - unfold dv_finished. destruct (Adv x Hx) as (p & El & _ & Hid & _). rewrite El. apply Z.eqb_eq. exact Hid.
  Qed.

  Lemma unfinished_safe_counts_nothing s :
    step_ids_nonzero s = true -> remove_names_other_peer r s = false ->
    is_finish r s = false -> check_safety r s = None -> conf_ver_changed r s = 0.
  Proof.
    intros Hz Hx Hf Hs.
    destruct s as [f t|st id|st id|st id|st id|st id|st id|st id|pl dv|pl dv|pa tr|fr]; cbn [step_ids_nonzero] in Hz;
      try (apply negb_true_iff, Z.eqb_neq in Hz); try reflexivity.
    - (* AddPeer *) cbn [conf_ver_changed is_finish] in *.
      destruct (get_store_voter r st) as [p|]; cbn [oid]; [rewrite Hf; reflexivity|].
      destruct (0 =? id) eqn:E; [apply Z.eqb_eq in E; congruence|reflexivity].
    - (* AddLearner *) cbn [conf_ver_changed is_finish check_safety] in *.
      destruct (get_store_peer r st) as [p|] eqn:Ep; cbn [oid].
      + destruct (negb (pid p =? id)) eqn:E1; [discriminate|]. destruct (negb (is_learner p)) eqn:E2; [discriminate|].
        apply negb_false_iff in E1, E2. rewrite (peer_learner r Hnd _ _ Ep E2) in Hf. congruence.
      + destruct (0 =? id) eqn:E; [apply Z.eqb_eq in E; congruence|reflexivity].
    - (* AddLightPeer *) cbn [conf_ver_changed is_finish] in *.
      destruct (get_store_voter r st) as [p|]; cbn [oid]; [rewrite Hf; reflexivity|].
      destruct (0 =? id) eqn:E; [apply Z.eqb_eq in E; congruence|reflexivity].
    - (* AddLightLearner *) cbn [conf_ver_changed is_finish check_safety] in *.
      destruct (get_store_peer r st) as [p|] eqn:Ep; cbn [oid].
      + destruct (negb (pid p =? id)) eqn:E1; [discriminate|]. destruct (negb (is_learner p)) eqn:E2; [discriminate|].
        apply negb_false_iff in E1, E2. rewrite (peer_learner r Hnd _ _ Ep E2) in Hf. congruence.
      + destruct (0 =? id) eqn:E; [apply Z.eqb_eq in E; congruence|reflexivity].
    - (* PromoteLearner *) cbn [conf_ver_changed is_finish] in *.
      destruct (get_store_voter r st) as [p|]; cbn [oid]; [rewrite Hf; reflexivity|].
      destruct (0 =? id) eqn:E; [apply Z.eqb_eq in E; congruence|reflexivity].
    - (* DemoteFollower *) cbn [conf_ver_changed is_finish] in *.
      destruct (get_store_learner r st) as [p|]; cbn [oid]; [rewrite Hf; reflexivity|].
      destruct (0 =? id) eqn:E; [apply Z.eqb_eq in E; congruence|reflexivity].
    - (* RemovePeer *) cbn [conf_ver_changed is_finish remove_names_other_peer] in *.
      destruct (get_store_peer r st) as [p|] eqn:Ep; [|discriminate]. cbn [oid] in *.
      pose proof (region_pid_nonzero r st p Hids Ep) as Hp. apply Z.eqb_neq in Hp. rewrite Hp. cbn [orb].
      rewrite Hx. reflexivity.
    - (* Enter *) apply andb_true_iff in Hz as [Z1 Z2].
      destruct (Z.eq_dec (conf_ver_changed r (ChangePeerV2Enter pl dv)) 0) as [E|E]; [exact E|].
      rewrite (enter_counted_finished pl dv Z1 Z2 Hs E) in Hf. discriminate.
    - (* Leave *) apply andb_true_iff in Hz as [Z1 Z2].
      destruct (Z.eq_dec (conf_ver_changed r (ChangePeerV2Leave pl dv)) 0) as [E|E]; [exact E|].
      rewrite (leave_counted_finished pl dv Z1 Z2 Hs E) in Hf. discriminate.
  Qed.
End Count.

(* Operator.Check hands out an unfinished step *)
Lemma finished_prefix_stop r : forall ss s, nth_error ss (finished_prefix r ss) = Some s -> is_finish r s = false.
Proof.
  induction ss as [|x rest IH]; intros s H; cbn [finished_prefix] in H; [discriminate|].
  destruct (is_finish r x) eqn:E; cbn [nth_error] in H; [apply IH; exact H|inversion H; subst; exact E].
Qed.

Lemma nth_error_skipn {A} (l : list A) : forall n k, nth_error l (n + k) = nth_error (skipn n l) k.
Proof.
  induction l as [|x r IH]; intros [|n] k; cbn; try reflexivity; [destruct k; reflexivity|apply IH].
Qed.

Lemma op_check_unfinished o r s : snd (op_check o r) = Some s -> is_finish r s = false.
Proof.
  unfold op_check. destruct (op_is_end o); [discriminate|]. cbn [snd]. rewrite nth_error_skipn.
  apply finished_prefix_stop.
Qed.
