(* C06 — the storage clause for concurrent heartbeats.
   The statement of C06 requires "displaced regions disappear from storage" only when heartbeats are handled one at a
   time.  For arbitrary interleavings of the atomic sections of processRegionHeartbeat (first precheck | locked section |
   one storage write at a time) the clause is false (the storage writes are made after c.Unlock(), see the comment in
   cluster.go: "the last write will win ... Not successfully saved to storage is not fatal"): a save that is overtaken by
   the delete of the heartbeat that displaced its region leaves the displaced region in storage (concurrent_refuted).
   The strongest statement that is true for every interleaving is the invariant below; it gives "storage holds served
   regions only" for every schedule in which no locked section displaces a region whose save is still pending
   (no_overtaking), which covers one-at-a-time handling and every interleaving of heartbeats that do not overlap. *)
From Coq Require Import Permutation Sorting.Sorted.
From PDV Require Import lib.Base lib.C07_Key gen.Gen_C06 model.C07_BTreeSpec model.C07_Region
  proof.C07_Sorted proof.C07_Tree proof.C07_RegionProof proof.C07_Spec model.C06_Heartbeat proof.C06_HeartbeatProof proof.C06_Storage.
Local Open Scope Z_scope.

(* ---- thread table with unique keys ---- *)
Definition tkeys (l : list (Z * pc)) : list Z := map fst l.

Lemma th_get_none_notin l t : th_get l t = None -> ~ In t (tkeys l).
Proof.
  induction l as [|[k v] l IH]; cbn; [tauto|]. destruct (Z.eqb_spec k t) as [->|NE]; [discriminate|].
  intros H [E|HI]; [congruence|]. apply (IH H HI).
Qed.
Lemma th_del_keys l t k : In k (tkeys (th_del l t)) -> In k (tkeys l).
Proof.
  induction l as [|[k0 v] l IH]; cbn; [tauto|]. destruct (k0 =? t); [auto|]. cbn. intros [H|H]; auto.
Qed.
Lemma th_del_nodup l t : NoDup (tkeys l) -> NoDup (tkeys (th_del l t)) /\ ~ In t (tkeys (th_del l t)).
Proof.
  induction l as [|[k0 v] l IH]; cbn; intros N; [split; [constructor|tauto]|].
  inversion N as [|? ? N1 N2]; subst. destruct (Z.eqb_spec k0 t) as [->|NE].
  - split; [exact N2|exact N1].
  - destruct (IH N2) as [A B]. cbn. split.
    + constructor; [|exact A]. intros H. apply N1. eapply th_del_keys; eauto.
    + intros [E|H]; [congruence|auto].
Qed.
Lemma th_set_nodup l t p : NoDup (tkeys l) -> NoDup (tkeys (th_set l t p)).
Proof. intros N. destruct (th_del_nodup l t N) as [A B]. unfold th_set. cbn. constructor; assumption. Qed.
Lemma th_del_other l t t' p : t' <> t -> In (t', p) l -> In (t', p) (th_del l t).
Proof.
  intros NE. induction l as [|[k0 v] l IH]; cbn; [tauto|].
  destruct (Z.eqb_spec k0 t) as [->|N0]; [intros [E|H]; [congruence|exact H]|].
  intros [E|H]; [left; exact E|right; auto].
Qed.
Lemma th_unique l t p1 p2 : NoDup (tkeys l) -> In (t, p1) l -> In (t, p2) l -> p1 = p2.
Proof.
  induction l as [|[k0 v] l IH]; cbn; intros N H1 H2; [tauto|]. inversion N as [|? ? N1 N2]; subst.
  destruct H1 as [E1|H1]; destruct H2 as [E2|H2].
  - congruence.
  - inversion E1; subst. exfalso. apply N1. apply in_map_iff. exists (t, p2). auto.
  - inversion E2; subst. exfalso. apply N1. apply in_map_iff. exists (t, p1). auto.
  - auto.
Qed.

(* ---- the invariant ---- *)
Definition pending_del (h : hstate) (id : Z) : Prop :=
  exists t todo x, In (t, PStore todo) (h_threads h) /\ In (SDel x) todo /\ r_id x = id.

Definition cinv (h : hstate) : Prop :=
  HInv h /\ NoDup (tkeys (h_threads h)) /\ store_ok (h_store h) /\
  (forall id, held (h_store h) id -> get_region (h_cache h) id <> None \/ pending_del h id) /\
  (forall t todo r, In (t, PStore todo) (h_threads h) -> In (SSave r) todo -> get_region (h_cache h) (r_id r) <> None).

(* the locked section of thread t does not displace a region whose save is still waiting in another thread *)
Definition no_overtaking (h : hstate) (l : hlabel) : Prop :=
  match l with
  | LStep t =>
      match th_get (h_threads h) t with
      | Some (PLock r fl) =>
          forall t' todo x, In (t', PStore todo) (h_threads h) -> In (SSave x) todo ->
                            ~ In (r_id x) (map r_id (displaced (cached (h_cache h)) r))
      | _ => True
      end
  | _ => True
  end.

Lemma served_after_put c r id : Inv c -> wf_region r = true ->
  get_region c id <> None -> ~ In id (map r_id (displaced (cached c) r)) ->
  get_region (fst (put_region c r)) id <> None.
Proof.
  intros I W GS NI. destruct (Inv_put c r I W) as (I' & ET & _).
  destruct (get_region c id) as [y|] eqn:GY; [|congruence]. clear GS.
  destruct I as (_ & HR & _). destruct I' as (_ & HR' & _).
  apply (regs_rep_get _ _ _ _ HR) in GY as [Hy Ey]. fold (cached c) in Hy.
  destruct (Z.eqb_spec id (r_id r)) as [E|NE].
  - intros GN. apply (regs_rep_get_none _ _ _ HR' GN (keep_term c r)); [|rewrite keep_term_id; congruence].
    fold (cached (fst (put_region c r))). rewrite ET. apply spec_tree_in. left; reflexivity.
  - intros GN. apply (regs_rep_get_none _ _ _ HR' GN y); [|exact Ey].
    fold (cached (fst (put_region c r))). rewrite ET. apply spec_tree_in. right. split; [exact Hy|].
    rewrite keep_keep_term. unfold keep. rewrite Ey. replace (id =? r_id r) with false by (symmetry; apply Z.eqb_neq, NE). cbn.
    destruct (overlaps y r) eqn:O; [|reflexivity]. exfalso. apply NI.
    apply in_map_iff. exists y. split; [exact Ey|]. unfold displaced. apply filter_In. split; [exact Hy|].
    rewrite Ey. replace (id =? r_id r) with false by (symmetry; apply Z.eqb_neq, NE). exact O.
Qed.

Lemma served_put_self c r : Inv c -> wf_region r = true -> get_region (fst (put_region c r)) (r_id r) <> None.
Proof.
  intros I W. destruct (Inv_put c r I W) as (I' & ET & _). destruct I' as (_ & HR' & _).
  intros GN. apply (regs_rep_get_none _ _ _ HR' GN (keep_term c r)); [|apply keep_term_id].
  fold (cached (fst (put_region c r))). rewrite ET. apply spec_tree_in. left; reflexivity.
Qed.

Lemma in_store_ops_save ov r fl x : In (SSave x) (store_ops ov r fl) -> x = r.
Proof.
  unfold store_ops. intros H. apply in_app_or in H as [H|H].
  - apply in_map_iff in H as (y & E & _). discriminate.
  - destruct (f_kv fl); [destruct H as [E|[]]; inversion E; reflexivity|destruct H].
Qed.

Lemma in_store_ops_del ov r fl x : In x ov -> In (SDel x) (store_ops ov r fl).
Proof. intros H. unfold store_ops. apply in_or_app. left. apply in_map. exact H. Qed.

Theorem cinv_step h l h' : cinv h -> no_overtaking h l -> hl_step h l = Some h' -> cinv h'.
Proof.
  intros (HI & ND & OK & DD & SS) NO H. pose proof (HInv_step _ _ _ HI H) as HI'.
  destruct HI as [I TW]. destruct l as [t r|t|]; cbn in H.
  - (* begin *)
    destruct (hb_ok r); [|discriminate]. unfold begin in H.
    destruct (th_get (h_threads h) t) eqn:TG; [discriminate|].
    assert (SAME : h' = h \/ h' = HState (h_cache h) (h_store h) ((t, PLock r (compute_flags r (fst (precheck (h_cache h) r)))) :: h_threads h)).
    { destruct (precheck (h_cache h) r) as [origin err]. destruct err; [inversion H; auto|].
      destruct (negb _ && negb _ && negb _); inversion H; [auto|]. right. unfold th_set. rewrite (th_del_none _ _ TG). reflexivity. }
    destruct SAME as [->| ->]; [split; [exact HI'|]; split; [exact ND|]; split; [exact OK|]; split; [exact DD|exact SS]|].
    split; [exact HI'|]. cbn [h_threads h_store h_cache]. split; [|split; [exact OK|split]].
    + cbn. constructor; [apply th_get_none_notin, TG|exact ND].
    + intros id Hh. destruct (DD id Hh) as [S|(t0 & todo & x & Hin & Hd & E)]; [left; exact S|].
      right. exists t0, todo, x. split; [right; exact Hin|auto].
    + intros t0 todo r0 [E|Hin] Hs; [inversion E|eauto].
  - (* one atomic section of thread t *)
    unfold step in H. destruct (th_get (h_threads h) t) as [[r fl|todo]|] eqn:TG; [| |discriminate].
    + (* the locked section *)
      pose proof (th_get_in _ _ _ TG) as TIn. destruct (TW _ _ _ TIn) as [W0 FC]. destruct (hb_ok_parts _ W0) as [W _].
      cbn in NO. rewrite TG in NO. rewrite FC in H.
      assert (OTHER : forall t0 todo0, In (t0, PStore todo0) (h_threads h) -> t0 <> t).
      { intros t0 todo0 Hin ->. pose proof (th_unique _ _ _ _ ND Hin TIn) as E. discriminate. }
      destruct (precheck (h_cache h) r) as [origin err]. destruct err.
      * inversion H; subst. split; [exact HI'|]. cbn [h_threads h_store h_cache]. split; [apply th_del_nodup, ND|]. split; [exact OK|]. split.
        -- intros id Hh. destruct (DD id Hh) as [S|(t0 & todo & x & Hin & Hd & E)]; [left; exact S|].
           right. exists t0, todo, x. split; [apply th_del_other; [eapply OTHER; eauto|exact Hin]|auto].
        -- intros t0 todo r0 Hin Hs. apply th_del_in in Hin. eauto.
      * pose proof (fun id => served_after_put (h_cache h) r id I W) as KEEP. pose proof (served_put_self _ r I W) as SELF.
        destruct (Inv_put _ r I W) as (_ & _ & EO).
        destruct (put_region (h_cache h) r) as [c' ov] eqn:SR. cbn [fst snd] in *.
        assert (TH : h_cache h' = c' /\ h_store h' = h_store h /\
                     ((store_ops ov r fl = [] /\ h_threads h' = th_del (h_threads h) t) \/
                      (store_ops ov r fl <> [] /\ h_threads h' = th_set (h_threads h) t (PStore (store_ops ov r fl))))).
        { destruct (store_ops ov r fl) eqn:SO; inversion H; subst; cbn; repeat split; [left|right]; split; auto. discriminate. }
        destruct TH as (EC & ES & TH). split; [exact HI'|]. rewrite EC, ES. split; [|split; [exact OK|split]].
        -- destruct TH as [[_ ->]|[_ ->]]; [apply th_del_nodup, ND|apply th_set_nodup, ND].
        -- intros id Hh. destruct (DD id Hh) as [S|(t0 & todo & x & Hin & Hd & E)].
           ++ destruct (in_dec Z.eq_dec id (map r_id ov)) as [Iov|Nov].
              ** right. apply in_map_iff in Iov as (x & Ex & Hx). exists t, (store_ops ov r fl), x.
                 pose proof (in_store_ops_del ov r fl x Hx) as Hd.
                 destruct TH as [[E0 _]|[_ ->]]; [rewrite E0 in Hd; destruct Hd|].
                 split; [left; reflexivity|auto].
              ** left. rewrite EO in Nov. apply KEEP; auto.
           ++ right. exists t0, todo, x. split; [|auto]. pose proof (OTHER _ _ Hin) as NE.
              destruct TH as [[_ ->]|[_ ->]]; [apply th_del_other; auto|right; apply th_del_other; auto].
        -- intros t0 todo r0 Hin Hs.
           assert (CASES : (t0 = t /\ todo = store_ops ov r fl) \/ In (t0, PStore todo) (h_threads h)).
           { destruct TH as [[_ E]|[_ E]]; rewrite E in Hin.
             - right. eapply th_del_in; eauto.
             - apply th_set_in in Hin as [E1|Hin]; [left; inversion E1; auto|right; exact Hin]. }
           destruct CASES as [[-> ->]|Hold].
           ++ rewrite (in_store_ops_save _ _ _ _ Hs). exact SELF.
           ++ apply KEEP; [eapply SS; eauto|eapply NO; eauto].
    + (* one storage write *)
      pose proof (th_get_in _ _ _ TG) as TIn.
      destruct todo as [|o rest].
      * inversion H; subst. split; [exact HI'|]. cbn [h_threads h_store h_cache]. split; [apply th_del_nodup, ND|]. split; [exact OK|]. split.
        -- intros id Hh. destruct (DD id Hh) as [S|(t0 & todo & x & Hin & Hd & E)]; [left; exact S|].
           right. exists t0, todo, x. split; [|auto]. apply th_del_other; [|exact Hin].
           intros ->. pose proof (th_unique _ _ _ _ ND Hin TIn) as ET. inversion ET; subst. destruct Hd.
        -- intros t0 todo r0 Hin Hs. apply th_del_in in Hin. eauto.
      * assert (TH : h_cache h' = h_cache h /\ h_store h' = apply_sop (h_store h) o /\
                     ((rest = [] /\ h_threads h' = th_del (h_threads h) t) \/
                      (rest <> [] /\ h_threads h' = th_set (h_threads h) t (PStore rest)))).
        { destruct rest; inversion H; subst; cbn; repeat split; [left|right]; split; auto. discriminate. }
        destruct TH as (EC & ES & TH). split; [exact HI'|]. rewrite EC, ES. split; [|split; [|split]].
        -- destruct TH as [[_ ->]|[_ ->]]; [apply th_del_nodup, ND|apply th_set_nodup, ND].
        -- destruct o as [x|x]; cbn [apply_sop]; [apply delete_ok, OK|apply save_ok, OK].
        -- (* what is held after the write is served or still has a pending delete *)
           assert (PEND : forall id, pending_del h id -> (forall x, o = SDel x -> r_id x <> id) ->
                          pending_del (HState (h_cache h) (apply_sop (h_store h) o) (h_threads h')) id).
           { intros id (t0 & todo & y & Hin & Hd & E) NX. destruct (Z.eq_dec t0 t) as [->|NE].
             - pose proof (th_unique _ _ _ _ ND Hin TIn) as ET. inversion ET; subst todo.
               destruct Hd as [E0|Hr]; [exfalso; apply (NX y); auto|].
               destruct TH as [[-> _]|[_ E2]]; [destruct Hr|].
               exists t, rest, y. cbn [h_threads]. rewrite E2. split; [left; reflexivity|auto].
             - exists t0, todo, y. cbn [h_threads]. split; [|auto].
               destruct TH as [[_ ->]|[_ ->]]; [apply th_del_other; auto|right; apply th_del_other; auto]. }
           intros id Hh. destruct o as [x|x]; cbn [apply_sop] in *.
           ++ destruct (delete_ok _ x OK) as (_ & _ & HD). apply HD in Hh as [Hh NEx].
              destruct (DD id Hh) as [S|P]; [left; exact S|]. right.
              destruct (PEND id P) as (t0 & todo & y & Hin & Hd & E); [intros x0 E0; inversion E0; subst; auto|].
              exists t0, todo, y. auto.
           ++ destruct (save_ok _ x OK) as (_ & HS). apply HS in Hh as [->|Hh].
              ** left. apply (SS t (SSave x :: rest) x TIn). left; reflexivity.
              ** destruct (DD id Hh) as [S|P]; [left; exact S|]. right.
                 destruct (PEND id P) as (t0 & todo & y & Hin & Hd & E); [intros x0 E0; discriminate|].
                 exists t0, todo, y. auto.
        -- intros t0 todo r0 Hin Hs.
           assert (CASES : (t0 = t /\ todo = rest) \/ In (t0, PStore todo) (h_threads h)).
           { destruct TH as [[_ E]|[_ E]]; rewrite E in Hin.
             - right. eapply th_del_in; eauto.
             - apply th_set_in in Hin as [E1|Hin]; [left; inversion E1; auto|right; exact Hin]. }
           destruct CASES as [[-> ->]|Hold].
           ++ apply (SS t (o :: rest) r0 TIn). right; exact Hs.
           ++ eapply SS; eauto.
  - (* flush *)
    inversion H; subst. destruct (flush_ok _ OK) as [A B]. split; [exact HI'|]. cbn [h_threads h_store h_cache].
    split; [exact ND|]. split; [exact A|]. split.
    + intros id Hh. apply B in Hh. destruct (DD id Hh) as [S|(t0 & todo & x & Hin & Hd & E)]; [left; exact S|].
      right. exists t0, todo, x. auto.
    + exact SS.
Qed.

Lemma cinv_init wb : cinv (h_init wb).
Proof.
  split; [apply HInv_init|]. split; [constructor|]. split.
  - cbn. split; [reflexivity|]. split; [constructor|]. split; [constructor|]. intros k v H; destruct H.
  - split; [intros id [[]|[]]|intros t todo r []].
Qed.

(* a schedule in which no save is overtaken *)
Fixpoint calm (h : hstate) (ls : list hlabel) : Prop :=
  match ls with [] => True | l :: r => no_overtaking h l /\ calm (next h l) r end.

Theorem cinv_exec ls : forall h, cinv h -> calm h ls -> cinv (exec hl_step h ls).
Proof.
  induction ls as [|l ls IH]; intros h C K; [exact C|]. rewrite exec_next. destruct K as [K1 K2].
  apply IH; [|exact K2]. unfold next. destruct (hl_step h l) eqn:E; [eapply cinv_step; eauto|exact C].
Qed.

(* every interleaving without overtaking: whatever storage (or the write-back batch) holds is served, or its delete is
   still on its way; once no storage write is pending, storage holds served regions only *)
Theorem storage_subset_interleaved_pf wb ls : calm (h_init wb) ls ->
  let h := exec hl_step (h_init wb) ls in
  (forall id, held (h_store h) id -> get_region (h_cache h) id <> None \/ pending_del h id) /\
  ((forall t todo, ~ In (t, PStore todo) (h_threads h)) ->
   forall id x, load_region (h_store h) id = Some x -> get_region (h_cache h) id <> None).
Proof.
  intros K. cbv zeta. destruct (cinv_exec ls _ (cinv_init wb) K) as (_ & _ & _ & DD & _). split; [exact DD|].
  intros Q id x L. destruct (DD id (load_held _ _ _ L)) as [S|(t & todo & y & Hin & _)]; [exact S|]. exfalso. eapply Q; eauto.
Qed.

(* ---- without that restriction the clause is false ---- *)
Definition storage_subset_concurrent : Prop :=
  forall wb ls, let h := exec hl_step (h_init wb) ls in
  h_threads h = [] -> forall id x, load_region (h_store h) id = Some x -> get_region (h_cache h) id <> None.

Definition overtaken_a : region := Region 1 (K [97]) (K [99]) [Peer 11 1 false; Peer 12 2 false] 11 [] 10 1 1 1 1.
Definition overtaken_b : region := Region 2 (K [97]) (K [99]) [Peer 21 1 false; Peer 22 2 false] 21 [] 10 2 1 1 2.
(* thread 1 puts region 1 and is delayed before its save; thread 2 puts region 2 (displacing region 1), deletes
   region 1 from storage (it is not there yet) and saves region 2; then thread 1 saves region 1 *)
Definition overtaken_schedule : list hlabel :=
  [LBegin 1 overtaken_a; LStep 1; LBegin 2 overtaken_b; LStep 2; LStep 2; LStep 2; LStep 1].

Theorem storage_subset_concurrent_refuted_pf : ~ storage_subset_concurrent.
Proof.
  intros H. specialize (H false overtaken_schedule). cbn zeta in H.
  assert (T : h_threads (exec hl_step (h_init false) overtaken_schedule) = []) by (vm_compute; reflexivity).
  assert (L : load_region (h_store (exec hl_step (h_init false) overtaken_schedule)) 1 = Some overtaken_a) by (vm_compute; reflexivity).
  apply (H T 1 _ L). vm_compute. reflexivity.
Qed.
