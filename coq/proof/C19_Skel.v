(* Structural obligations for C19 on the code as it is now (gen/Gen_C19.v is regenerated from /repo on every run). *)
From PDV Require Import lib.Skel gen.Gen_C19.
From Coq Require Import ZArith.

(* AllocID ; replicate file ; save ; publish  (model: switch _ Async) *)
Lemma skel_drSwitchToAsyncWithLock_ok : skel_drSwitchToAsyncWithLock =
  [Call "AllocID"; IfE "err != nil" [Ret] []; Assign "status" ":= drAutoSyncStatus{State: drStateAsync, StateID: id}"; Call "drPersistStatus"; IfE "err != nil" [Ret] []; Call "SaveReplicationStatus"; IfE "err != nil" [Ret] []; Assign "m.drAutoSync" "= status"; Ret].
Proof. reflexivity. Qed.

(* AllocID ; replicate file ; save ; publish ; reset of the recovery cursor  (model: switch _ SyncRecover) *)
Lemma skel_drSwitchToSyncRecoverWithLock_ok : skel_drSwitchToSyncRecoverWithLock =
  [Call "AllocID"; IfE "err != nil" [Ret] []; Assign "status" ":= drAutoSyncStatus{State: drStateSyncRecover, StateID: id, RecoverStartTime: time.Now()}"; Call "drPersistStatus"; IfE "err != nil" [Ret] []; Call "SaveReplicationStatus"; IfE "err != nil" [Ret] []; Assign "m.drAutoSync" "= status"; Assign "m.drRecoverKey" "= nil"; Assign "m.drRecoverCount" "= 0"; Ret].
Proof. reflexivity. Qed.

(* AllocID ; replicate file ; save ; publish ; the cursor is left alone  (model: switch _ Sync) *)
Lemma skel_drSwitchToSync_ok : skel_drSwitchToSync =
  [Lock "m"; DeferUnlock "m"; Call "AllocID"; IfE "err != nil" [Ret] []; Assign "status" ":= drAutoSyncStatus{State: drStateSync, StateID: id}"; Call "drPersistStatus"; IfE "err != nil" [Ret] []; Call "SaveReplicationStatus"; IfE "err != nil" [Ret] []; Assign "m.drAutoSync" "= status"; Ret].
Proof. reflexivity. Qed.

(* the replicater's error is thrown away: the file is offered, delivery is not required  (model: f_rep has no effect) *)
Lemma skel_drPersistStatus_ok : skel_drPersistStatus =
  [IfE "m.fileReplicater != nil" [Call "ReplicateFileToAllMembers"; IfE "err != nil" [Ret] []] []; Ret].
Proof. reflexivity. Qed.

(* the three guarded transitions of a tick in this order, with the defining expressions of canSync and hasMajority  (model: tick, can_sync, has_majority) *)
Lemma skel_tickDR_ok : skel_tickDR =
  [Call "getModeName"; IfE "m.getModeName() != modeDRAutoSync" [Ret] []; Call "checkStoreStatus"; Assign "canSync" ":= downPrimary < totalPrimary && downDr < totalDr"; IfE "downPrimary < totalPrimary" [Assign "upPeers" "+= totalPrimary - downPrimary"] []; IfE "downDr < totalDr" [Assign "upPeers" "+= totalDr - downDr"] []; Assign "hasMajority" ":= upPeers*2 > totalPrimary+totalDr"; Call "drGetState"; Call "drCheckAsyncTimeout"; IfE "!canSync && hasMajority && m.drGetState() != drStateAsync && m.drCheckAsyncTimeout()" [Call "drSwitchToAsync"] []; Call "drGetState"; IfE "canSync && m.drGetState() == drStateAsync" [Call "drSwitchToSyncRecover"] []; Call "drGetState"; IfE "m.drGetState() == drStateSyncRecover" [Call "updateProgress"; Call "estimateProgress"; IfE "progress == 1.0" [Call "drSwitchToSync"] [Call "updateRecoverProgress"]] []].
Proof. reflexivity. Qed.

(* a store counts as failed when it is not a tombstone and its down time reached wait-store-timeout; it is counted under its value of the configured label key  (model: count_down) *)
Lemma skel_checkStoreStatus_ok : skel_checkStoreStatus =
  [RLock "m"; DeferRUnlock "m"; Call "GetStores"; ForE [Call "DownTime"; IfE "!s.IsTombstone() && s.DownTime() >= m.config.DRAutoSync.WaitStoreTimeout.Duration" [Call "GetLabelValue"] []]; Ret].
Proof. reflexivity. Qed.

(* resume at drRecoverKey; batches of regionScanBatchSize; advance key and count on each recovered region; on the first unrecovered one take a sample, record the region count and return  (model: progress_loop, walk) *)
Lemma skel_updateProgress_ok : skel_updateProgress =
  [RLock "m"; DeferRUnlock "m"; ForE [Call "ScanRegions"; IfE "len(regions) == 0" [Ret] []; ForE [Call "checkRegionRecover"; IfE "m.checkRegionRecover(r, m.drRecoverKey)" [Assign "m.drRecoverKey" "= r.GetEndKey()"; Assign "m.drRecoverCount" "++"] []; IfE "len(sampleRegions) < regionMinSampleSize" [IfE "len(last.GetEndKey()) > 0" [Call "ScanRegions"] []] []; Assign "m.drSampleRecoverCount" "= 0"; ForE [Call "checkRegionRecover"; IfE "m.checkRegionRecover(r, key)" [Assign "m.drSampleRecoverCount" "++"] []]; Assign "m.drSampleTotalRegion" "= len(sampleRegions)"; Call "GetRegionCount"; Assign "m.drTotalRegion" "= m.cluster.GetRegionCount()"; Ret]]].
Proof. reflexivity. Qed.

(* progress is exactly 1.0 iff the key is empty and the count positive  (model: finished) *)
Lemma skel_estimateProgress_ok : skel_estimateProgress =
  [IfE "len(m.drRecoverKey) == 0 && m.drRecoverCount > 0" [Ret] []; IfE "m.drSampleTotalRegion <= m.drSampleRecoverCount" [Assign "m.drSampleTotalRegion" "= m.drSampleRecoverCount + 1"] []; Ret].
Proof. reflexivity. Qed.

(* gap test on the start key ... *)
Lemma skel_checkRegionRecover_ok : skel_checkRegionRecover =
  [IfE "!bytes.Equal(startKey, region.GetStartKey())" [Ret] []; Ret].
Proof. reflexivity. Qed.

(* majority -> dr-auto-sync switches to sync_recover, a new label key switches to async, a failed switch restores the old config  (model: update_config) *)
Lemma skel_UpdateConfig_ok : skel_UpdateConfig =
  [Lock "m"; DeferUnlock "m"; IfE "m.config.ReplicationMode == modeMajority && config.ReplicationMode == modeDRAutoSync" [Assign "m.config" "= config"; Call "drSwitchToSyncRecoverWithLock"; IfE "err != nil" [Assign "m.config" "= old"] []; Ret] []; IfE "m.config.ReplicationMode == modeDRAutoSync && config.ReplicationMode == modeDRAutoSync && m.config.DRAutoSync.LabelKey != config.DRAutoSync.LabelKey" [Assign "m.config" "= config"; Call "drSwitchToAsyncWithLock"; IfE "err != nil" [Assign "m.config" "= old"] []; Ret] []; Assign "m.config" "= config"; Ret].
Proof. reflexivity. Qed.

(* start-up: stored status loaded, else the manager starts in sync  (model: boot) *)
Lemma skel_loadDRAutoSync_ok : skel_loadDRAutoSync =
  [Call "LoadReplicationStatus"; IfE "err != nil" [Ret] []; IfE "!ok" [Call "drSwitchToSync"; Ret] []; Ret].
Proof. reflexivity. Qed.

(* wait-async-timeout 0 means 'passed'  (model: cf_async_ok) *)
Lemma skel_drCheckAsyncTimeout_ok : skel_drCheckAsyncTimeout =
  [RLock "m"; DeferRUnlock "m"; IfE "timeout == 0" [Ret] []; ForE [IfE "time.Since(t) <= timeout" [Ret] []]; Ret].
Proof. reflexivity. Qed.

(* the guards of the transitions, as source text *)
Lemma guards_tickDR_ok : guards_tickDR =
  [("m.getModeName() != modeDRAutoSync", "return"); ("downPrimary < totalPrimary", "..."); ("downDr < totalDr", "..."); ("!canSync && hasMajority && m.drGetState() != drStateAsync && m.drCheckAsyncTimeout()", "..."); ("canSync && m.drGetState() == drStateAsync", "..."); ("m.drGetState() == drStateSyncRecover", "..."); ("progress == 1.0", "...")].
Proof. reflexivity. Qed.

Lemma guards_checkRegionRecover_ok : guards_checkRegionRecover =
  [("!bytes.Equal(startKey, region.GetStartKey())", "...")].
Proof. reflexivity. Qed.

(* ... then state id equal to the CURRENT one and INTEGRITY_OVER_LABEL  (model: recovered) *)
Lemma body_checkRegionRecover_ok : body_checkRegionRecover =
  ["return region.GetReplicationStatus().GetStateId() == m.drAutoSync.StateID && region.GetReplicationStatus().GetState() == pb.RegionReplicationState_INTEGRITY_OVER_LABEL"].
Proof. reflexivity. Qed.

(* core.Storage.LoadReplicationStatus: the read's error is returned BEFORE the empty value is taken for "nothing persisted"; loadDRAutoSync
   (skel_loadDRAutoSync_ok) initialises the state by a switch to sync exactly when it is told so.  With the two tests swapped a failed read
   during a leader change would overwrite a persisted async / sync_recover state by a fresh `sync` (model: restart, props:
   C19_failed_status_load_keeps_everything, C19_new_manager_initialises_only_when_nothing_stored). *)
Lemma skel_LoadReplicationStatus_ok : skel_LoadReplicationStatus =
  [Call "Load"; IfE "err != nil" [Ret] []; IfE "v == """"" [Ret] []; Call "Unmarshal"; IfE "err != nil" [Ret] []; Ret].
Proof. reflexivity. Qed.
Lemma guards_LoadReplicationStatus_ok : guards_LoadReplicationStatus =
  [("err != nil", "return false, err"); ("v == """"", "return false, nil"); ("err != nil", "return false, errs.ErrJSONUnmarshal.Wrap(err).GenWithStackByArgs()")].
Proof. reflexivity. Qed.

(* Server.ReplicateFileToAllMembers (fix 5b2c3f7), the FileReplicater behind the interface: the walk over the member list has no return -
   every member is offered the file ("offered to all members"); before the fix it returned at the first unreachable member *)
Lemma skel_ReplicateFileToAllMembers_ok : skel_ReplicateFileToAllMembers =
  [Call "GetMembers"; IfE "err != nil" [Ret] []; ForE [GoE [Call "replicateFileToMember"]]; Ret].
Proof. reflexivity. Qed.
