(* C07 / stage 2 — order facts for an arbitrary Item.Less that is a strict weak order, and the compositional
   behaviour of the list specification L0: an operation on P ++ C ++ Q with everything in P below the key and
   everything in Q above it is the operation on C. *)
From Coq Require Import List Bool Lia Sorting.Sorted.
From PDV Require Import model.C07_BTreeSpec.
Import ListNotations.

Section Order.
  Context {A : Type} (ltb : A -> A -> bool).
  Hypothesis lt_irrefl : forall a, ltb a a = false.
  Hypothesis lt_trans : forall a b c, ltb a b = true -> ltb b c = true -> ltb a c = true.
  Hypothesis lt_negtrans : forall a b c, ltb a b = false -> ltb b c = false -> ltb a c = false.

  Definition lt (a b : A) : Prop := ltb a b = true.
  Definition eqv (a b : A) : Prop := ltb a b = false /\ ltb b a = false.
  Definition all_lt (l : list A) (x : A) : Prop := forall y, In y l -> lt y x.
  Definition lt_all (x : A) (l : list A) : Prop := forall y, In y l -> lt x y.
  Definition sorted (l : list A) : Prop := StronglySorted lt l.

  Lemma lt_asym a b : lt a b -> ltb b a = false.
  Proof.
    intros H. destruct (ltb b a) eqn:E; [|reflexivity]. pose proof (lt_trans _ _ _ H E) as C. rewrite lt_irrefl in C. discriminate.
  Qed.
  Lemma lt_eqv_r a b c : lt a b -> eqv b c -> lt a c.
  Proof.
    intros H [E1 E2]. unfold lt. destruct (ltb a c) eqn:E; [reflexivity|]. pose proof (lt_negtrans _ _ _ E E2) as C.
    unfold lt in H. congruence.
  Qed.
  Lemma lt_eqv_l a b c : eqv a b -> lt b c -> lt a c.
  Proof.
    intros [E1 E2] H. unfold lt. destruct (ltb a c) eqn:E; [reflexivity|]. pose proof (lt_negtrans _ _ _ E2 E) as C.
    unfold lt in H. congruence.
  Qed.
  Lemma eqv_sym a b : eqv a b -> eqv b a.
  Proof. intros [E1 E2]. split; assumption. Qed.
  Lemma eqv_refl a : eqv a a.
  Proof. split; apply lt_irrefl. Qed.
  Lemma all_lt_app l1 l2 x : all_lt (l1 ++ l2) x <-> all_lt l1 x /\ all_lt l2 x.
  Proof.
    unfold all_lt. split.
    - intros H. split; intros y Hy; apply H, in_or_app; auto.
    - intros [H1 H2] y Hy. apply in_app_or in Hy as [Hy|Hy]; auto.
  Qed.
  Lemma lt_all_app x l1 l2 : lt_all x (l1 ++ l2) <-> lt_all x l1 /\ lt_all x l2.
  Proof.
    unfold lt_all. split.
    - intros H. split; intros y Hy; apply H, in_or_app; auto.
    - intros [H1 H2] y Hy. apply in_app_or in Hy as [Hy|Hy]; auto.
  Qed.
  Lemma all_lt_cons a l x : all_lt (a :: l) x <-> lt a x /\ all_lt l x.
  Proof. unfold all_lt. split; [intros H; split; [apply H; left; reflexivity|intros y Hy; apply H; right; exact Hy]|intros [H1 H2] y [<-|Hy]; auto]. Qed.
  Lemma lt_all_cons x a l : lt_all x (a :: l) <-> lt x a /\ lt_all x l.
  Proof. unfold lt_all. split; [intros H; split; [apply H; left; reflexivity|intros y Hy; apply H; right; exact Hy]|intros [H1 H2] y [<-|Hy]; auto]. Qed.
  Lemma all_lt_nil x : all_lt [] x. Proof. intros y []. Qed.
  Lemma lt_all_nil x : lt_all x []. Proof. intros y []. Qed.
  Lemma all_lt_trans l x y : all_lt l x -> lt x y -> all_lt l y.
  Proof. intros H L z Hz. eapply lt_trans; [apply H, Hz|exact L]. Qed.
  Lemma lt_all_trans x y l : lt x y -> lt_all y l -> lt_all x l.
  Proof. intros L H z Hz. eapply lt_trans; [exact L|apply H, Hz]. Qed.

  (* ---- sorted lists ---- *)
  Lemma sorted_app l1 l2 : sorted (l1 ++ l2) <-> sorted l1 /\ sorted l2 /\ (forall a b, In a l1 -> In b l2 -> lt a b).
  Proof.
    induction l1 as [|x l1 IH]; cbn.
    - split; [intros H; split; [constructor|split; [exact H|intros a b []]]|intros (_ & H & _); exact H].
    - split.
      + intros H. inversion H as [|? ? S F]; subst. apply IH in S as (S1 & S2 & C). rewrite Forall_forall in F.
        split; [|split; [exact S2|]].
        * constructor; [exact S1|]. rewrite Forall_forall. intros y Hy. apply F, in_or_app. left; exact Hy.
        * intros a b [<-|Ha] Hb; [apply F, in_or_app; right; exact Hb|apply C; assumption].
      + intros (S1 & S2 & C). inversion S1 as [|? ? S F]; subst. rewrite Forall_forall in F. constructor.
        * apply IH. split; [exact S|split; [exact S2|]]. intros a b Ha Hb. apply C; [right; exact Ha|exact Hb].
        * rewrite Forall_forall. intros y Hy. apply in_app_or in Hy as [Hy|Hy]; [apply F, Hy|apply C; [left; reflexivity|exact Hy]].
  Qed.

  Lemma sorted_cons_inv x l : sorted (x :: l) -> sorted l /\ lt_all x l.
  Proof. intros H. inversion H as [|? ? S F]; subst. rewrite Forall_forall in F. split; [exact S|exact F]. Qed.
  Lemma sorted_cons x l : sorted l -> lt_all x l -> sorted (x :: l).
  Proof. intros S F. constructor; [exact S|rewrite Forall_forall; exact F]. Qed.
  Lemma sorted_nil : sorted []. Proof. constructor. Qed.
  Lemma sorted_one x : sorted [x]. Proof. constructor; constructor. Qed.

  (* sorted (P ++ x :: Q): everything in P is below x, everything in Q above *)
  Lemma sorted_mid P x Q : sorted (P ++ x :: Q) -> all_lt P x /\ lt_all x Q /\ sorted P /\ sorted Q.
  Proof.
    intros H. apply sorted_app in H as (S1 & S2 & C). apply sorted_cons_inv in S2 as [S2 F].
    repeat split; auto. intros y Hy. apply C; [exact Hy|left; reflexivity].
  Qed.

  (* ---- L0 is compositional ---- *)
  Lemma l0_insert_below P L x : all_lt P x ->
    l0_insert ltb x (P ++ L) = (P ++ fst (l0_insert ltb x L), snd (l0_insert ltb x L)).
  Proof.
    induction P as [|p P IH]; intros H; cbn [app]; [destruct (l0_insert ltb x L); reflexivity|].
    apply all_lt_cons in H as [Hp H]. cbn [l0_insert]. rewrite (lt_asym _ _ Hp), Hp. rewrite (IH H). reflexivity.
  Qed.

  Lemma l0_insert_above C Q x : lt_all x Q ->
    l0_insert ltb x (C ++ Q) = (fst (l0_insert ltb x C) ++ Q, snd (l0_insert ltb x C)).
  Proof.
    intros H. induction C as [|c C IH]; cbn [app l0_insert].
    - destruct Q as [|q Q]; [reflexivity|]. cbn [l0_insert]. rewrite (H q (or_introl eq_refl)). reflexivity.
    - destruct (ltb x c); [reflexivity|]. destruct (ltb c x); [|reflexivity].
      rewrite IH. destruct (l0_insert ltb x C). reflexivity.
  Qed.

  Theorem l0_insert_comp P C Q x C' o : all_lt P x -> lt_all x Q -> l0_insert ltb x C = (C', o) ->
    l0_insert ltb x (P ++ C ++ Q) = (P ++ C' ++ Q, o).
  Proof. intros HP HQ E. rewrite (l0_insert_below _ _ _ HP), (l0_insert_above _ _ _ HQ), E. reflexivity. Qed.

  Lemma l0_delete_below P L x : all_lt P x ->
    l0_delete ltb x (P ++ L) = (P ++ fst (l0_delete ltb x L), snd (l0_delete ltb x L)).
  Proof.
    induction P as [|p P IH]; intros H; cbn [app]; [destruct (l0_delete ltb x L); reflexivity|].
    apply all_lt_cons in H as [Hp H]. cbn [l0_delete]. rewrite Hp. rewrite (IH H). reflexivity.
  Qed.

  Lemma l0_delete_above C Q x : lt_all x Q ->
    l0_delete ltb x (C ++ Q) = (fst (l0_delete ltb x C) ++ Q, snd (l0_delete ltb x C)).
  Proof.
    intros H. induction C as [|c C IH]; cbn [app l0_delete].
    - destruct Q as [|q Q]; [reflexivity|]. cbn [l0_delete].
      rewrite (lt_asym _ _ (H q (or_introl eq_refl))), (H q (or_introl eq_refl)). reflexivity.
    - destruct (ltb c x); [|destruct (ltb x c); reflexivity]. rewrite IH. destruct (l0_delete ltb x C). reflexivity.
  Qed.

  Theorem l0_delete_comp P C Q x C' o : all_lt P x -> lt_all x Q -> l0_delete ltb x C = (C', o) ->
    l0_delete ltb x (P ++ C ++ Q) = (P ++ C' ++ Q, o).
  Proof. intros HP HQ E. rewrite (l0_delete_below _ _ _ HP), (l0_delete_above _ _ _ HQ), E. reflexivity. Qed.

  Lemma l0_get_below P L x : all_lt P x -> l0_get ltb x (P ++ L) = l0_get ltb x L.
  Proof.
    induction P as [|p P IH]; intros H; cbn [app]; [reflexivity|].
    apply all_lt_cons in H as [Hp H]. cbn [l0_get]. rewrite Hp. apply IH, H.
  Qed.
  Lemma l0_get_above C Q x : lt_all x Q -> l0_get ltb x (C ++ Q) = l0_get ltb x C.
  Proof.
    intros H. induction C as [|c C IH]; cbn [app l0_get].
    - destruct Q as [|q Q]; [reflexivity|]. cbn [l0_get].
      rewrite (lt_asym _ _ (H q (or_introl eq_refl))), (H q (or_introl eq_refl)). reflexivity.
    - destruct (ltb c x); [exact IH|reflexivity].
  Qed.

  Lemma l0_rank_below P L x : all_lt P x -> l0_rank ltb x (P ++ L) = (length P + l0_rank ltb x L)%nat.
  Proof.
    induction P as [|p P IH]; intros H; cbn [app length]; [reflexivity|].
    apply all_lt_cons in H as [Hp H]. cbn [l0_rank]. rewrite Hp, (IH H). reflexivity.
  Qed.
  (* everything in Q is not below x *)
  Definition none_lt (Q : list A) (x : A) : Prop := forall y, In y Q -> ltb y x = false.
  Lemma l0_rank_above C Q x : none_lt Q x -> sorted (C ++ Q) -> l0_rank ltb x (C ++ Q) = l0_rank ltb x C.
  Proof.
    intros H S. induction C as [|c C IH]; cbn [app l0_rank].
    - destruct Q as [|q Q]; [reflexivity|]. cbn [l0_rank]. rewrite (H q (or_introl eq_refl)). reflexivity.
    - cbn [app] in S. apply sorted_cons_inv in S as [S _]. destruct (ltb c x); [rewrite (IH S); reflexivity|reflexivity].
  Qed.
  Lemma l0_rank_all P x : all_lt P x -> l0_rank ltb x P = length P.
  Proof. intros H. rewrite <- (app_nil_r P) at 1. rewrite (l0_rank_below _ _ _ H). cbn. lia. Qed.

  Lemma l0_ascend_below P L x : all_lt P x -> l0_ascend_ge ltb x (P ++ L) = l0_ascend_ge ltb x L.
  Proof.
    induction P as [|p P IH]; intros H; cbn [app]; [reflexivity|].
    apply all_lt_cons in H as [Hp H]. cbn [l0_ascend_ge]. rewrite Hp. apply IH, H.
  Qed.
  Lemma l0_ascend_ge_all P x : all_lt P x -> l0_ascend_ge ltb x P = [].
  Proof. intros H. rewrite <- (app_nil_r P). rewrite (l0_ascend_below _ _ _ H). reflexivity. Qed.
  Lemma l0_ascend_ge_none Q x : none_lt Q x -> l0_ascend_ge ltb x Q = Q.
  Proof. intros H. destruct Q as [|q Q]; [reflexivity|]. cbn. rewrite (H q (or_introl eq_refl)). reflexivity. Qed.

  (* items <= pivot, nearest first *)
  Lemma descend_acc_app p l1 l2 acc : (forall y, In y l1 -> ltb p y = false) ->
    l0_descend_le_acc ltb p (l1 ++ l2) acc = l0_descend_le_acc ltb p l2 (rev l1 ++ acc).
  Proof.
    revert acc. induction l1 as [|a l1 IH]; intros acc H; cbn [app rev]; [reflexivity|].
    cbn [l0_descend_le_acc]. rewrite (H a (or_introl eq_refl)). rewrite IH by (intros y Hy; apply H; right; exact Hy).
    rewrite <- app_assoc. reflexivity.
  Qed.
  Lemma descend_acc_stop p l acc : lt_all p l -> l0_descend_le_acc ltb p l acc = acc.
  Proof. intros H. destruct l as [|a l]; [reflexivity|]. cbn. rewrite (H a (or_introl eq_refl)). reflexivity. Qed.
  Lemma l0_descend_spec p L G : (forall y, In y L -> ltb p y = false) -> lt_all p G ->
    l0_descend_le ltb p (L ++ G) = rev L.
  Proof.
    intros HL HG. unfold l0_descend_le. rewrite (descend_acc_app _ _ _ _ HL), (descend_acc_stop _ _ _ HG). apply app_nil_r.
  Qed.
End Order.
