(* Structural obligations on the code as it is now (regenerated gen/Gen_C15.v): model/C15_Gc.v
   was written against exactly these skeletons.  A change of a comparison, of the position of a
   storage call, of a lock (gcSafePointLock around load..save of UpdateGCSafePoint, serviceSafePointLock around
   UpdateServiceGCSafePoint), of the service id check (checkServiceID in Save/RemoveServiceGCSafePoint), or a
   new writer of the safe point keys breaks a `reflexivity` here. *)
From PDV Require Import lib.Skel gen.Gen_C15.

Lemma gc_worker_id_ok : gc_worker_id =
  "gc_worker".
Proof. reflexivity. Qed.

Lemma gc_path_ok : gc_path =
  "gc".
Proof. reflexivity. Qed.

Lemma skel_SaveGCSafePoint_ok : skel_SaveGCSafePoint =
  [Call "Join"; Assign "key" ":= path.Join(gcPath, ""safe_point"")"; Call "FormatUint"; Call "Save"; Ret].
Proof. reflexivity. Qed.

Lemma skel_LoadGCSafePoint_ok : skel_LoadGCSafePoint =
  [Call "Join"; Assign "key" ":= path.Join(gcPath, ""safe_point"")"; Call "Load"; IfE "err != nil" [Ret] []; IfE "value == """"" [Ret] []; Call "ParseUint"; IfE "err != nil" [Ret] []; Ret].
Proof. reflexivity. Qed.

Lemma skel_SaveServiceGCSafePoint_ok : skel_SaveServiceGCSafePoint =
  [IfE "ssp.ServiceID == """"" [Ret] []; Call "checkServiceID"; IfE "err != nil" [Ret] []; IfE "ssp.ServiceID == gcWorkerServiceSafePointID && ssp.ExpiredAt != math.MaxInt64" [Ret] []; Call "Join"; Assign "key" ":= path.Join(gcPath, ""safe_point"", ""service"", ssp.ServiceID)"; Call "Marshal"; IfE "err != nil" [Ret] []; Call "Save"; Ret].
Proof. reflexivity. Qed.

Lemma skel_RemoveServiceGCSafePoint_ok : skel_RemoveServiceGCSafePoint =
  [IfE "serviceID == gcWorkerServiceSafePointID" [Ret] []; Call "checkServiceID"; IfE "err != nil" [Ret] []; Call "Join"; Assign "key" ":= path.Join(gcPath, ""safe_point"", ""service"", serviceID)"; Call "Remove"; Ret].
Proof. reflexivity. Qed.

Lemma skel_initServiceGCSafePointForGCWorker_ok : skel_initServiceGCSafePointForGCWorker =
  [Call "SaveServiceGCSafePoint"; IfE "err != nil" [Ret] []; Ret].
Proof. reflexivity. Qed.

Lemma skel_LoadMinServiceGCSafePoint_ok : skel_LoadMinServiceGCSafePoint =
  [Call "Join"; Call "LoadRange"; IfE "err != nil" [Ret] []; IfE "len(keys) == 0" [Call "initServiceGCSafePointForGCWorker"; Ret] []; Assign "hasGCWorker" ":= false"; Assign "min" ":= &ServiceSafePoint{SafePoint: math.MaxUint64}"; ForE [Call "Unmarshal"; IfE "err != nil" [Ret] []; IfE "ssp.ServiceID == gcWorkerServiceSafePointID" [Assign "hasGCWorker" "= true"; IfE "ssp.ExpiredAt != math.MaxInt64" [Assign "ssp.ExpiredAt" "= math.MaxInt64"; Call "SaveServiceGCSafePoint"; IfE "err != nil" [Ret] []] []] []; IfE "ssp.ExpiredAt < now.Unix()" [Call "Remove"] []; IfE "ssp.SafePoint < min.SafePoint" [Assign "min" "= ssp"] []]; IfE "min.SafePoint == math.MaxUint64" [Call "initServiceGCSafePointForGCWorker"; Ret] []; IfE "!hasGCWorker" [Call "initServiceGCSafePointForGCWorker"; Ret] []; Ret].
Proof. reflexivity. Qed.

Lemma skel_checkServiceID_ok : skel_checkServiceID =
  [Call "Contains"; IfE "strings.Contains(serviceID, ""/"") || serviceID == ""."" || serviceID == ""..""" [Ret] []; Ret].
Proof. reflexivity. Qed.

Lemma skel_GetGCSafePoint_ok : skel_GetGCSafePoint =
  [IfE "!s.isLocalRequest(forwardedHost)" [IfE "err != nil" [Ret] []; Ret] []; Call "validateRequest"; IfE "err != nil" [Ret] []; Call "GetRaftCluster"; IfE "rc == nil" [Ret] []; Call "LoadGCSafePoint"; IfE "err != nil" [Ret] []; Ret].
Proof. reflexivity. Qed.

Lemma skel_UpdateGCSafePoint_ok : skel_UpdateGCSafePoint =
  [IfE "!s.isLocalRequest(forwardedHost)" [IfE "err != nil" [Ret] []; Ret] []; Call "validateRequest"; IfE "err != nil" [Ret] []; Call "GetRaftCluster"; IfE "rc == nil" [Ret] []; Lock "s.gcSafePointLock"; DeferUnlock "s.gcSafePointLock"; Call "LoadGCSafePoint"; IfE "err != nil" [Ret] []; Assign "newSafePoint" ":= request.SafePoint"; IfE "newSafePoint > oldSafePoint" [Call "SaveGCSafePoint"; IfE "err != nil" [Ret] []] [IfE "newSafePoint < oldSafePoint" [Assign "newSafePoint" "= oldSafePoint"] []]; Ret].
Proof. reflexivity. Qed.

Lemma skel_UpdateServiceGCSafePoint_ok : skel_UpdateServiceGCSafePoint =
  [Lock "s.serviceSafePointLock"; DeferUnlock "s.serviceSafePointLock"; IfE "!s.isLocalRequest(forwardedHost)" [IfE "err != nil" [Ret] []; Ret] []; Call "validateRequest"; IfE "err != nil" [Ret] []; Call "GetRaftCluster"; IfE "rc == nil" [Ret] []; IfE "request.TTL <= 0" [Call "RemoveServiceGCSafePoint"; IfE "err != nil" [Ret] []] []; Call "HandleTSORequest"; IfE "err != nil" [Ret] []; Call "LoadMinServiceGCSafePoint"; Assign "min" ":= s.storage.LoadMinServiceGCSafePoint(now)"; IfE "err != nil" [Ret] []; IfE "request.TTL > 0 && request.SafePoint >= min.SafePoint" [Assign "ssp" ":= &core.ServiceSafePoint{ ServiceID: string(request.ServiceId), ExpiredAt: now.Unix() + request.TTL, SafePoint: request.SafePoint, }"; IfE "math.MaxInt64-now.Unix() <= request.TTL" [Assign "ssp.ExpiredAt" "= math.MaxInt64"] []; Call "SaveServiceGCSafePoint"; IfE "err != nil" [Ret] []; IfE "string(request.ServiceId) == min.ServiceID" [Call "LoadMinServiceGCSafePoint"; Assign "min" "= s.storage.LoadMinServiceGCSafePoint(now)"; IfE "err != nil" [Ret] []] []] []; Ret].
Proof. reflexivity. Qed.

Lemma skel_api_List_ok : skel_api_List =
  [Call "LoadGCSafePoint"; IfE "" [Ret] []; Call "GetAllServiceGCSafePoints"; IfE "" [Ret] []].
Proof. reflexivity. Qed.

Lemma skel_api_Delete_ok : skel_api_Delete =
  [Call "RemoveServiceGCSafePoint"; IfE "" [Ret] []].
Proof. reflexivity. Qed.

Lemma save_gc_sites_ok : save_gc_sites =
  ["server/grpc_service.go:UpdateGCSafePoint"].
Proof. reflexivity. Qed.

Lemma save_service_sites_ok : save_service_sites =
  ["server/core/storage.go:LoadMinServiceGCSafePoint"; "server/core/storage.go:initServiceGCSafePointForGCWorker"; "server/grpc_service.go:UpdateServiceGCSafePoint"].
Proof. reflexivity. Qed.

Lemma remove_service_sites_ok : remove_service_sites =
  ["server/api/service_gc_safepoint.go:Delete"; "server/grpc_service.go:UpdateServiceGCSafePoint"].
Proof. reflexivity. Qed.
